import Uflow.Lemmas.PRecvOrdInv

/-!
Helper lemmas for C01 / C02 (receiver ordering), part 4: the delivery pass `deliverLoopT` keeps the
ordering invariant and extends the ghost log correctly.
-/

namespace Uflow.PRecv

open Uflow Uflow.Gen Uflow.Codec

/-! ### `setChannelBase`, field by field -/

/-- The marker of slot `k` after `set_channel_base_id(c, newId)` when the old base was `old`. -/
def newMarker (W c newId : Nat) (old : Option Nat) (k : Nat) (m : Option Nat) : Option Nat :=
  if k = wi W newId then some c else if old.map (wi W) = some k then none else m

theorem setChannelBase_facts {W : Nat} (t t2 : State) (c newId : Nat) (hw : t.windowSize = W)
    (h : setChannelBase t c newId = .ok t2) :
    ∃ ch, t.chans[c]? = some ch ∧ t2.baseId = t.baseId ∧ t2.endId = t.endId ∧
      t2.readyFlags = t.readyFlags ∧ t2.windowSize = t.windowSize ∧
      t2.chans = t.chans.set c { ch with base := some newId } ∧
      ∀ k, lget t2.slots k =
        { lget t.slots k with marker := newMarker W c newId ch.base k (lget t.slots k).marker } := by
  rw [setChannelBase_eq] at h
  cases hch : t.chans[c]? with
  | none => rw [hch] at h; cases h
  | some ch =>
    rw [hch] at h
    simp only at h
    cases h
    refine ⟨ch, rfl, ?_⟩
    unfold scbStep2 scbStep1 newMarker
    cases hb : ch.base with
    | none =>
      simp only
      refine ⟨rfl, rfl, rfl, rfl, rfl, ?_⟩
      intro k
      show lget (setSlot t (widx t newId) _).slots k = _
      rw [lget_setSlot]
      have : widx t newId = wi W newId := by simp only [widx, wi, hw]
      rw [this]
      by_cases hk : k = wi W newId
      · rw [if_pos hk, if_pos hk, hk]; rfl
      · rw [if_neg hk, if_neg hk]
        simp only [Option.map_none]
        rw [if_neg (by intro hc; cases hc)]
    | some b =>
      simp only
      refine ⟨rfl, rfl, rfl, rfl, rfl, ?_⟩
      intro k
      have h1 : widx t b = wi W b := by simp only [widx, wi, hw]
      have h2 : widx (setSlot t (wi W b) { getSlot t (wi W b) with marker := none }) newId = wi W newId := by
        simp only [widx, wi, setSlot, hw]
      rw [h1, h2]
      show lget (setSlot _ (wi W newId) _).slots k = _
      rw [lget_setSlot]
      by_cases hk : k = wi W newId
      · rw [if_pos hk, if_pos hk, getSlot_eq, lget_setSlot, hk]
        split
        · rename_i hk2; rw [← hk2]; rfl
        · rfl
      · rw [if_neg hk, if_neg hk, lget_setSlot]
        simp only [Option.map_some, Option.some.injEq]
        by_cases hk2 : k = wi W b
        · rw [if_pos hk2, if_pos hk2.symm, hk2]; rfl
        · rw [if_neg hk2, if_neg (fun hc => hk2 hc.symm)]

theorem cbase_set_base (t : State) (c : Nat) (ch : Chan) (hc : t.chans[c]? = some ch) (nb : Option Nat)
    (t2 : State) (h2 : t2.chans = t.chans.set c { ch with base := nb }) (c' : Nat) :
    cbase t2 c' = if c' = c then nb else cbase t c' := by
  unfold cbase
  rw [h2, List.getElem?_set]
  by_cases hcc : c = c'
  · subst hcc
    have hlt : c < t.chans.length := by
      rcases Nat.lt_or_ge c t.chans.length with h | h
      · exact h
      · rw [List.getElem?_eq_none h] at hc; cases hc
    rw [if_pos rfl, if_pos hlt, if_pos rfl]; rfl
  · rw [if_neg hcc, if_neg (fun h => hcc h.symm)]

/-! ### one delivery -/

/-- Field-by-field description of the state after a packet is handed to the application. -/
structure DeliverFacts (W : Nat) (s s2 : State) (i c newId : Nat) : Prop where
  base : s2.baseId = s.baseId
  endId : s2.endId = s.endId
  flag : ∀ k, (lget s2.slots k).dataFlag = if k = i then false else (lget s.slots k).dataFlag
  asm : ∀ k, (lget s2.slots k).asm = (lget s.slots k).asm
  chan : ∀ k, (lget s2.slots k).chan = (lget s.slots k).chan
  wpl : ∀ k, (lget s2.slots k).wpl = (lget s.slots k).wpl
  entry : ∀ k, (lget s2.slots k).entryFlag = (lget s.slots k).entryFlag
  marker : ∀ k, (lget s2.slots k).marker = newMarker W c newId (cbase s c) k (lget s.slots k).marker
  cb : ∀ c', cbase s2 c' = if c' = c then some newId else cbase s c'
  ready : ∀ c' : Nat, s2.readyFlags[c']? = some true → s.readyFlags[c']? = some true

theorem dlDeliver_facts (s : State) (i : Nat) (sl : Slot) (ch : Chan) :
    (dlDeliver s i sl ch).baseId = s.baseId ∧ (dlDeliver s i sl ch).endId = s.endId ∧
    (dlDeliver s i sl ch).windowSize = s.windowSize ∧
    (dlDeliver s i sl ch).slots = lset s.slots i { sl with data := none, dataFlag := false } ∧
    (dlDeliver s i sl ch).chans = s.chans.set sl.chan { ch with count := ch.count - 1 } ∧
    (∀ c' : Nat, (dlDeliver s i sl ch).readyFlags[c']? = some true → s.readyFlags[c']? = some true) := by
  unfold dlDeliver
  split
  · refine ⟨rfl, rfl, rfl, rfl, rfl, ?_⟩
    intro c' hc'
    have hc'' : (s.readyFlags.set sl.chan false)[c']? = some true := hc'
    rw [List.getElem?_set] at hc''
    split at hc''
    · split at hc'' <;> cases hc''
    · exact hc''
  · exact ⟨rfl, rfl, rfl, rfl, rfl, fun _ h => h⟩

theorem deliver_facts {W M : Nat} {s s2 : State} (hinv : Inv W M s) (seq : Nat) (ch : Chan)
    (hch : s.chans[(getSlot s (wi W seq)).chan]? = some ch) (newId : Nat)
    (h : setChannelBase (dlDeliver s (wi W seq) (getSlot s (wi W seq)) ch) (getSlot s (wi W seq)).chan newId
      = .ok s2) :
    DeliverFacts W s s2 (wi W seq) (getSlot s (wi W seq)).chan newId := by
  obtain ⟨d1, d2, d3, d4, d5, d6⟩ := dlDeliver_facts s (wi W seq) (getSlot s (wi W seq)) ch
  generalize dlDeliver s (wi W seq) (getSlot s (wi W seq)) ch = s1 at *
  generalize hsl : getSlot s (wi W seq) = sl at *
  obtain ⟨ch1, e1, e2, e3, e4, e5, e6, e7⟩ := setChannelBase_facts (W := W) s1 s2 sl.chan newId
    (by rw [d3]; exact hinv.wsz) h
  have hlt : sl.chan < s.chans.length := by
    rcases Nat.lt_or_ge sl.chan s.chans.length with h | h
    · exact h
    · rw [List.getElem?_eq_none h] at hch; cases hch
  have hch1 : ch1 = { ch with count := ch.count - 1 } := by
    rw [d5, List.getElem?_set, if_pos rfl, if_pos hlt] at e1
    cases e1; rfl
  have hcb1 : ch1.base = cbase s sl.chan := by rw [hch1, cbase_of_get hch]
  have hl1 : ∀ k, lget s1.slots k = if k = wi W seq then { sl with data := none, dataFlag := false }
      else lget s.slots k := by
    intro k; rw [d4, lget_lset]
  refine ⟨by rw [e2, d1], by rw [e3, d2], ?_, ?_, ?_, ?_, ?_, ?_, ?_, ?_⟩
  · intro k
    rw [e7, hl1]
    split
    · rfl
    · rfl
  · intro k
    rw [e7, hl1]
    split
    · rename_i hk; rw [hk, ← getSlot_eq, hsl]
    · rfl
  · intro k
    rw [e7, hl1]
    split
    · rename_i hk; rw [hk, ← getSlot_eq, hsl]
    · rfl
  · intro k
    rw [e7, hl1]
    split
    · rename_i hk; rw [hk, ← getSlot_eq, hsl]
    · rfl
  · intro k
    rw [e7, hl1]
    split
    · rename_i hk; rw [hk, ← getSlot_eq, hsl]
    · rfl
  · intro k
    rw [e7, hl1, hcb1]
    split
    · rename_i hk; rw [hk, ← getSlot_eq, hsl]
    · rfl
  · intro c'
    have hs1c : s1.chans[sl.chan]? = some ch1 := e1
    rw [cbase_set_base s1 sl.chan ch1 hs1c (some newId) s2 e6 c']
    split
    · rfl
    · rename_i hne
      unfold cbase
      rw [d5, List.getElem?_set, if_neg (fun h => hne h.symm)]
  · intro c' hc'
    rw [e4] at hc'
    exact d6 c' hc'


theorem Ord.congr {W : Nat} {s s' : State} (h : Ord W s) (hb : s'.baseId = s.baseId)
    (he : s'.endId = s.endId) (hs : s'.slots = s.slots) (hc : s'.chans = s.chans) : Ord W s' := by
  have hcb : ∀ c, cbase s' c = cbase s c := by intro c; unfold cbase; rw [hc]
  refine ⟨?_, ?_, ?_, ?_, ?_, ?_, ?_⟩
  · rw [hb, he]; exact h.ewin
  · rw [hb, he, hs]; exact h.fin
  · intro c b; rw [hcb, hb]; exact h.cbr c b
  · intro c b; rw [hcb, hs]; exact h.cbm c b
  · intro i c; rw [hs, hcb]; exact h.mcb i c
  · intro c b x; rw [hcb, hs]; exact h.cbd c b x
  · rw [hb, hs]; intro x hx hxo hf b; rw [hcb]; exact h.fcb x hx hxo hf b

theorem pidAdd_one_inj (x y : Nat) (hx : x < 2^20) (hy : y < 2^20) (h : pidAdd x 1 = pidAdd y 1) : x = y := by
  have := pidAdd_cases x hx
  have := pidAdd_cases y hy
  omega

/-- "Every undelivered packet before `seq` belongs to a channel that is not ready." -/
def Visited (W : Nat) (s : State) (seq : Nat) : Prop :=
  ∀ x, x < 2^20 → pidSub x s.baseId < pidSub seq s.baseId → (lget s.slots (wi W x)).dataFlag = true →
    s.readyFlags[(lget s.slots (wi W x)).chan]? ≠ some true

theorem deliver_ord {W M : Nat} (hW : WOk W) {s s2 : State} (hinv : Inv W M s) (h : Ord W s) (seq : Nat)
    (hseq : seq < 2^20) (hj : pidSub seq s.baseId < pidSub s.endId s.baseId)
    (hf : (lget s.slots (wi W seq)).dataFlag = true) (hvis : Visited W s seq)
    (hr : s.readyFlags[(lget s.slots (wi W seq)).chan]? = some true)
    (F : DeliverFacts W s s2 (wi W seq) (lget s.slots (wi W seq)).chan (pidAdd seq 1)) : Ord W s2 := by
  have hew := h.ewin
  have hblt := hinv.blt
  have hnlt := pidAdd_lt seq 1
  have hoff : pidSub (pidAdd seq 1) s.baseId = pidSub seq s.baseId + 1 := off_succ _ _ (by have := hW.le; omega)
  generalize hc : (lget s.slots (wi W seq)).chan = c at *
  have hflag : ∀ k, (lget s2.slots k).dataFlag = true → k ≠ wi W seq ∧ (lget s.slots k).dataFlag = true := by
    intro k hk
    rw [F.flag] at hk
    split at hk
    · cases hk
    · rename_i hne; exact ⟨hne, hk⟩
  refine ⟨?_, ?_, ?_, ?_, ?_, ?_, ?_⟩
  · rw [F.base, F.endId]; exact hew
  · intro x hx hxo hfx
    rw [F.base] at hxo ⊢
    rw [F.endId]
    exact h.fin x hx hxo (hflag _ hfx).2
  · intro c' b hcb
    rw [F.cb] at hcb
    rw [F.base]
    split at hcb
    · cases hcb; exact ⟨hnlt, by omega, by omega⟩
    · exact h.cbr c' b hcb
  · intro c' b hcb
    rw [F.cb] at hcb
    rw [F.marker]
    unfold newMarker
    split at hcb
    · rename_i hcc
      cases hcb
      rw [if_pos rfl, hcc]
    · rename_i hcc
      obtain ⟨hb1, hb2, hb3⟩ := h.cbr c' b hcb
      have hne1 : wi W b ≠ wi W (pidAdd seq 1) := by
        intro hwi
        have hbe : b = pidAdd seq 1 := wi_inj hW b _ s.baseId hb1 hnlt hblt (by omega) (by omega) hwi
        have := (h.cbd c' b seq hcb hseq hbe.symm).1
        rw [this] at hf; cases hf
      rw [if_neg hne1]
      have hne2 : (cbase s c).map (wi W) ≠ some (wi W b) := by
        intro hm
        cases hcs : cbase s c with
        | none => rw [hcs] at hm; cases hm
        | some b0 =>
          rw [hcs] at hm
          simp only [Option.map_some, Option.some.injEq] at hm
          have h1 := h.cbm c b0 hcs
          have h2 := h.cbm c' b hcb
          rw [hm, h2] at h1
          cases h1
          exact hcc rfl
      rw [if_neg hne2]
      exact h.cbm c' b hcb
  · intro k c' hm
    rw [F.marker] at hm
    unfold newMarker at hm
    split at hm
    · rename_i hk
      cases hm
      exact ⟨pidAdd seq 1, by rw [F.cb, if_pos rfl], hk.symm⟩
    · split at hm
      · cases hm
      · rename_i hk1 hk2
        obtain ⟨b, hb, hwb⟩ := h.mcb k c' hm
        have hcc : c' ≠ c := by
          intro hcc
          rw [hcc] at hb
          rw [hb] at hk2
          simp only [Option.map_some, Option.some.injEq] at hk2
          exact hk2 hwb
        exact ⟨b, by rw [F.cb, if_neg hcc]; exact hb, hwb⟩
  · intro c' b x hcb hx hxb
    rw [F.cb] at hcb
    rw [F.asm]
    split at hcb
    · cases hcb
      have hxe : x = seq := pidAdd_one_inj x seq hx hseq hxb
      subst hxe
      refine ⟨by rw [F.flag, if_pos rfl], ?_⟩
      obtain ⟨-, a, ha, -⟩ := (hinv.sok (wi W x)).flagged hf
      exact ⟨a, ha⟩
    · obtain ⟨h1, h2⟩ := h.cbd c' b x hcb hx hxb
      refine ⟨?_, h2⟩
      rw [F.flag]
      split
      · rfl
      · exact h1
  · intro x hx hxo hfx b hcb
    rw [F.base] at hxo ⊢
    obtain ⟨hne, hfs⟩ := hflag _ hfx
    rw [F.chan, F.cb] at hcb
    split at hcb
    · rename_i hcc
      cases hcb
      rw [hoff]
      rcases Nat.lt_or_ge (pidSub seq s.baseId) (pidSub x s.baseId) with hlt | hge
      · omega
      · exfalso
        rcases Nat.lt_or_ge (pidSub x s.baseId) (pidSub seq s.baseId) with hlt | hge2
        · have := hvis x hx hlt hfs
          rw [hcc] at this
          exact this hr
        · have : x = seq := id_eq_of_off x seq s.baseId hx hseq (by omega)
          exact hne (by rw [this])
    · exact h.fcb x hx hxo hfs b hcb

theorem deliver_gi {W M : Nat} (hW : WOk W) {b0 adv : Nat} {log : List LogE} {s s2 : State}
    (hinv : Inv W M s) (h : Ord W s) (g : GI W b0 adv log s) (seq : Nat)
    (hseq : seq < 2^20) (hj : pidSub seq s.baseId < pidSub s.endId s.baseId)
    (hf : (lget s.slots (wi W seq)).dataFlag = true)
    (hcond : (lget s.slots (wi W seq)).cpl = 0 ∨ (lget s.slots (wi W seq)).cpl >
      pidSub seq ((cbase s (lget s.slots (wi W seq)).chan).getD s.baseId))
    (F : DeliverFacts W s s2 (wi W seq) (lget s.slots (wi W seq)).chan (pidAdd seq 1)) :
    GI W b0 adv (log ++ [lift adv s.baseId (evOf seq (lget s.slots (wi W seq)))]) s2 := by
  have hew := h.ewin
  have hblt := hinv.blt
  have hnlt := pidAdd_lt seq 1
  have hoff : pidSub (pidAdd seq 1) s.baseId = pidSub seq s.baseId + 1 := off_succ _ _ (by have := hW.le; omega)
  have hchan : (lget s.slots (wi W seq)).chan < CHANNEL_COUNT := ((hinv.sok (wi W seq)).flagged hf).1
  generalize hsl : lget s.slots (wi W seq) = sl at *
  -- the old channel base is not ahead of `seq`
  have hold : pidSub ((cbase s sl.chan).getD s.baseId) s.baseId ≤ pidSub seq s.baseId := by
    cases hcs : cbase s sl.chan with
    | none => simp only [Option.getD_none]; rw [pidSub_self]; exact Nat.zero_le _
    | some b =>
      simp only [Option.getD_some]
      exact h.fcb seq hseq (by omega) (by rw [hsl]; exact hf) b (by rw [hsl]; exact hcs)
  have hlt0 : ∀ e ∈ log, e.chan = sl.chan → e.uid < adv + pidSub seq s.baseId := by
    intro e he hec
    have := g.glt e he
    rw [hec] at this
    omega
  have hmem : ∀ e, e ∈ log ++ [lift adv s.baseId (evOf seq sl)] ↔ e ∈ log ∨ e = lift adv s.baseId (evOf seq sl) := by
    intro e; simp
  refine ⟨?_, ?_, ?_, ?_, ?_, ?_, ?_, ?_⟩
  · rw [F.base]; exact g.gbase
  · intro e he
    rcases (hmem e).mp he with he | he
    · exact g.gseq e he
    · subst he
      show seq = (b0 + (adv + pidSub seq s.baseId)) % 2^20
      have := g.gbase
      have := pidSub_cases seq s.baseId hseq hblt
      omega
  · intro e he
    rcases (hmem e).mp he with he | he
    · exact g.gchan e he
    · subst he; exact hchan
  · intro e he
    rcases (hmem e).mp he with he | he
    · exact g.gwin e he
    · subst he
      show adv ≤ adv + pidSub seq s.baseId ∧ adv + pidSub seq s.baseId < adv + W ∧ adv ≤ adv
      omega
  · intro e he
    rw [F.cb, F.base]
    rcases (hmem e).mp he with he | he
    · split
      · rename_i hec
        simp only [Option.getD_some]
        have := hlt0 e he hec
        omega
      · exact g.glt e he
    · subst he
      show adv + pidSub seq s.baseId < adv + pidSub ((if sl.chan = sl.chan then some (pidAdd seq 1) else
        cbase s sl.chan).getD s.baseId) s.baseId
      rw [if_pos rfl]
      simp only [Option.getD_some]
      omega
  · intro c' b hcb
    rw [F.cb] at hcb
    rw [F.base]
    split at hcb
    · rename_i hcc
      cases hcb
      exact ⟨_, (hmem _).mpr (Or.inr rfl), hcc.symm, by
        show adv + pidSub seq s.baseId + 1 = _
        omega⟩
    · obtain ⟨e, he, h1, h2⟩ := g.gcb c' b hcb
      exact ⟨e, (hmem e).mpr (Or.inl he), h1, h2⟩
  · rw [List.pairwise_append]
    refine ⟨g.gord, List.pairwise_singleton _ _, ?_⟩
    intro a ha b hb hab
    simp only [List.mem_singleton] at hb
    subst hb
    exact hlt0 a ha hab
  · rw [List.reverse_append]
    show ParCond _ log.reverse ∧ ParOkR log.reverse
    refine ⟨?_, g.gpar⟩
    intro hcpl
    have hcpl' : sl.cpl ≠ 0 := hcpl
    have hgt : sl.cpl > pidSub seq ((cbase s sl.chan).getD s.baseId) := by
      rcases hcond with h0 | h1
      · exact absurd h0 hcpl'
      · exact h1
    cases hcs : cbase s sl.chan with
    | none =>
      left
      rw [hcs] at hgt
      simp only [Option.getD_none] at hgt
      show adv + pidSub seq s.baseId < adv + sl.cpl
      omega
    | some b =>
      right
      rw [hcs] at hgt hold
      simp only [Option.getD_some] at hgt hold
      obtain ⟨hb1, -, -⟩ := h.cbr _ b hcs
      have hsh := off_shift seq s.baseId b hblt hb1 hold
      obtain ⟨e', he', h1, h2⟩ := g.gcb _ b hcs
      refine ⟨e', List.mem_reverse.mpr he', h1, ?_⟩
      show adv + pidSub seq s.baseId ≤ e'.uid + sl.cpl
      omega


theorem visited_next {W : Nat} {s : State} (seq : Nat) (hseq : seq < 2^20)
    (hoff : pidSub (pidAdd seq 1) s.baseId = pidSub seq s.baseId + 1) (hvis : Visited W s seq)
    (hcur : (lget s.slots (wi W seq)).dataFlag = true →
      s.readyFlags[(lget s.slots (wi W seq)).chan]? ≠ some true) : Visited W s (pidAdd seq 1) := by
  intro x hx hxo hfx
  rw [hoff] at hxo
  rcases Nat.lt_or_ge (pidSub x s.baseId) (pidSub seq s.baseId) with hlt | hge
  · exact hvis x hx hlt hfx
  · have : x = seq := id_eq_of_off x seq s.baseId hx hseq (by omega)
    subst this
    exact hcur hfx

/-- The delivery pass: invariants are kept, the ghost log is extended by the lifted events. -/
theorem deliverLoopT_ord {W M : Nat} (hW : WOk W) (b0 adv base endId : Nat) (he : endId < 2^20) :
    ∀ (fuel : Nat) (s : State) (seq : Nat) (evs : List Ev) (log : List LogE),
      Inv W M s → Ord W s → GI W b0 adv log s → s.baseId = base → s.endId = endId → seq < 2^20 →
      pidSub seq base ≤ pidSub endId base → Visited W s seq → pidSub endId seq < fuel →
      ∃ s' new, deliverLoopT base fuel s seq endId evs = .ok (s', evs ++ new) ∧ Inv W M s' ∧ Ord W s' ∧
        GI W b0 adv (log ++ new.map (lift adv base)) s' ∧ s'.baseId = base ∧ s'.endId = endId ∧
        ∀ k, (lget s'.slots k).wpl = (lget s.slots k).wpl ∧
          (lget s'.slots k).entryFlag = (lget s.slots k).entryFlag ∧
          ((lget s'.slots k).dataFlag = true → (lget s.slots k).dataFlag = true) := by
  intro fuel
  induction fuel with
  | zero => intro s seq evs log _ _ _ _ _ _ _ _ hf; exact absurd hf (Nat.not_lt_zero _)
  | succ fuel ih =>
    intro s seq evs log hinv hord hgi hb hen hs hle hvis hfuel
    have stop : ∃ s' new, (Except.ok (s, evs) : R (State × List Ev)) = .ok (s', evs ++ new) ∧ Inv W M s' ∧
        Ord W s' ∧ GI W b0 adv (log ++ new.map (lift adv base)) s' ∧ s'.baseId = base ∧ s'.endId = endId ∧
        ∀ k, (lget s'.slots k).wpl = (lget s.slots k).wpl ∧
          (lget s'.slots k).entryFlag = (lget s.slots k).entryFlag ∧
          ((lget s'.slots k).dataFlag = true → (lget s.slots k).dataFlag = true) :=
      ⟨s, [], by rw [List.append_nil], hinv, hord, by simpa using hgi, hb, hen, fun _ => ⟨rfl, rfl, fun hh => hh⟩⟩
    rw [deliverLoopT]
    by_cases heq : seq = endId
    · rw [if_pos heq]; exact stop
    rw [if_neg heq]
    by_cases hr : ¬ anyReady s = true
    · rw [if_pos hr]; exact stop
    rw [if_neg hr]
    have hstep := pidSub_step seq endId hs he heq
    have hn := pidAdd_lt seq 1
    have hfuel' : pidSub endId (pidAdd seq 1) < fuel := by omega
    have hblt : base < 2^20 := by rw [← hb]; exact hinv.blt
    have hjlt : pidSub seq base < pidSub endId base := by
      rcases Nat.lt_or_ge (pidSub seq base) (pidSub endId base) with h | h
      · exact h
      · exact absurd (id_eq_of_off seq endId base hs he (by omega)) heq
    have hew : pidSub endId base ≤ W := by rw [← hb, ← hen]; exact hord.ewin
    have hoff : pidSub (pidAdd seq 1) base = pidSub seq base + 1 :=
      off_succ _ _ (by have := hW.le; omega)
    have hle' : pidSub (pidAdd seq 1) base ≤ pidSub endId base := by omega
    simp only
    rw [widx_eq hinv, getSlot_eq]
    by_cases hf : (lget s.slots (wi W seq)).dataFlag = true
    case neg =>
      rw [if_neg hf]
      exact ih s _ evs log hinv hord hgi hb hen hn hle'
        (visited_next seq hs (by rw [hb]; exact hoff) hvis (fun h => absurd h hf)) hfuel'
    rw [if_pos hf]
    have hchan : (lget s.slots (wi W seq)).chan < CHANNEL_COUNT := ((hinv.sok (wi W seq)).flagged hf).1
    obtain ⟨b, hbr⟩ := hinv.ready_get _ hchan
    rw [hbr]
    cases b with
    | false =>
      exact ih s _ evs log hinv hord hgi hb hen hn hle'
        (visited_next seq hs (by rw [hb]; exact hoff) hvis (fun _ => by rw [hbr]; intro hc; cases hc)) hfuel'
    | true =>
      simp only
      obtain ⟨ch, hch⟩ := hinv.chan_get _ hchan
      rw [chanBase_of_get hch]
      simp only
      by_cases hcond : (lget s.slots (wi W seq)).cpl = 0 ∨ (lget s.slots (wi W seq)).cpl >
          pidSub seq ((cbase s (lget s.slots (wi W seq)).chan).getD base)
      case neg =>
        rw [if_neg hcond]
        have hinv' := hinv.setReady (s.readyFlags.set (lget s.slots (wi W seq)).chan false) (by simp [hinv.rlen])
        refine ih _ _ evs log hinv' (hord.congr rfl rfl rfl rfl) (hgi.frame rfl (fun _ => rfl)) hb hen hn hle' ?_ hfuel'
        intro x hx hxo hfx
        show (s.readyFlags.set (lget s.slots (wi W seq)).chan false)[(lget s.slots (wi W x)).chan]? ≠ some true
        rw [List.getElem?_set]
        split
        · split <;> (intro hc; cases hc)
        · rename_i hne
          have hxo' : pidSub x s.baseId < pidSub (pidAdd seq 1) s.baseId := hxo
          rw [hb, hoff] at hxo'
          rcases Nat.lt_or_ge (pidSub x base) (pidSub seq base) with hlt | hge
          · exact hvis x hx (by rw [hb]; exact hlt) hfx
          · have : x = seq := id_eq_of_off x seq base hx hs (by omega)
            subst this
            exact absurd rfl hne
      rw [if_pos hcond, hch]
      simp only
      have hpos := hinv.count_pos (wi W seq) ch hf hch
      rw [if_neg (by omega)]
      have hfg : (getSlot s (widx s seq)).dataFlag = true := by rw [widx_eq hinv, getSlot_eq]; exact hf
      obtain ⟨ch', hch', -, hinv1⟩ := dlDeliver_inv hinv seq hfg
      rw [widx_eq hinv, getSlot_eq] at hch' hinv1
      rw [hch] at hch'
      cases hch'
      obtain ⟨s2, hs2, hinv2⟩ := setChannelBase_inv hinv1 _ hchan (pidAdd seq 1)
      rw [← getSlot_eq] at hs2 ⊢
      rw [hs2]
      simp only
      have F := deliver_facts hinv seq ch (by rw [getSlot_eq]; exact hch) (pidAdd seq 1) hs2
      rw [getSlot_eq] at F
      have hjs : pidSub seq s.baseId < pidSub s.endId s.baseId := by rw [hb, hen]; exact hjlt
      have hord2 := deliver_ord hW hinv hord seq hs hjs hf hvis hbr F
      have hgi2 := deliver_gi hW hinv hord hgi seq hs hjs hf (by rw [hb]; exact hcond) F
      have hvis2 : Visited W s2 (pidAdd seq 1) := by
        intro x hx hxo hfx
        rw [F.base, hb, hoff] at hxo
        rw [F.flag] at hfx
        split at hfx
        · cases hfx
        · rename_i hne
          rw [F.chan]
          intro hc
          have hc' := F.ready _ hc
          rcases Nat.lt_or_ge (pidSub x base) (pidSub seq base) with hlt | hge
          · exact hvis x hx (by rw [hb]; exact hlt) hfx hc'
          · have : x = seq := id_eq_of_off x seq base hx hs (by omega)
            subst this
            exact hne rfl
      obtain ⟨s', new, h1, h2, h3, h4, h5, h6, h7⟩ := ih s2 _ (evs ++ [evOf seq (lget s.slots (wi W seq))])
        (log ++ [lift adv s.baseId (evOf seq (lget s.slots (wi W seq)))]) hinv2 hord2 hgi2
        (by rw [F.base]; exact hb) (by rw [F.endId]; exact hen) hn hle' hvis2 hfuel'
      refine ⟨s', evOf seq (lget s.slots (wi W seq)) :: new, ?_, h2, h3, ?_, h5, h6, ?_⟩
      · rw [getSlot_eq, h1, List.append_assoc]; rfl
      · rw [hb] at h4
        simpa [List.append_assoc] using h4
      · intro k
        rw [(h7 k).1, (h7 k).2.1, F.wpl, F.entry]
        refine ⟨rfl, rfl, fun hk => ?_⟩
        have := (h7 k).2.2 hk
        rw [F.flag] at this
        split at this
        · cases this
        · exact this

end Uflow.PRecv
