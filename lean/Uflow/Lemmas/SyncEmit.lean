import Uflow.Model.HalfConn
import Uflow.Lemmas.Codec
import Uflow.Lemmas.Credit

/-!
Helper lemmas for C11 (the sync / ack / window-advance mechanism), part 1: the exact behaviour of
`emitSyncFrame`, and what `emitAckFrames` does when a sync reply is owed.
-/

set_option linter.unusedSimpArgs false

namespace Uflow.SyncCycle

open Uflow Uflow.Gen Uflow.Codec Uflow.HalfConn Uflow.Credit

variable {F : Type}

/-! ### the sync frame -/

/-- `time_now_ms - sync_timeout_base_ms`. -/
def elapsed (s : State F) : Nat := s.nowMs - s.syncTimeoutBase

/-- `max(rto_ms, MIN_SYNC_TIMEOUT_MS)`. -/
def timeout (s : State F) : Nat := max s.rtoMs MIN_SYNC_TIMEOUT_MS

/-- Frames are in flight (sent and not covered by the transfer window base). -/
def FramesUnacked (s : State F) : Prop := s.fq.logNext ≠ s.fq.winBase

/-- The packet window is non-empty and nothing awaits (re)sending. -/
def PacketsIdle (s : State F) : Prop :=
  s.ps.nextId ≠ s.ps.baseId ∧ s.resend.size = 0 ∧ s.pending.length = 0

/-- A keepalive interval is configured and has elapsed. -/
def KeepaliveDue (s : State F) : Prop := ∃ k, s.keepalive = some k ∧ k ≤ elapsed s

instance (s : State F) : Decidable (FramesUnacked s) := by unfold FramesUnacked; infer_instance
instance (s : State F) : Decidable (PacketsIdle s) := by unfold PacketsIdle; infer_instance
instance (s : State F) : Decidable (KeepaliveDue s) := by
  unfold KeepaliveDue
  cases h : s.keepalive with
  | none => exact isFalse (fun ⟨k, hk, _⟩ => by cases hk)
  | some k =>
    by_cases hk : k ≤ elapsed s
    · exact isTrue ⟨k, rfl, hk⟩
    · exact isFalse (fun ⟨k', hk', hle⟩ => by cases hk'; exact hk hle)

/-- The sync frame is due: the timeout has elapsed and there is something to say. -/
def SyncDue (s : State F) : Prop :=
  timeout s ≤ elapsed s ∧ (FramesUnacked s ∨ PacketsIdle s ∨ KeepaliveDue s)

instance (s : State F) : Decidable (SyncDue s) := by unfold SyncDue; infer_instance

/-- The `next_frame_id` field of the sync frame. -/
def syncNextFrame (s : State F) : Option Nat :=
  if s.fq.logNext ≠ s.fq.winBase then some s.fq.logNext else none

/-- The `next_packet_id` field of the sync frame. -/
def syncNextPacket (s : State F) : Option Nat :=
  if s.ps.nextId ≠ s.ps.baseId ∧ s.resend.size = 0 ∧ s.pending.length = 0 then some s.ps.nextId
  else none

/-- The bytes of the sync frame `emitSyncFrame s` sends when it sends one. -/
def syncBytes (s : State F) : List Nat := encode (.sync (syncNextFrame s) (syncNextPacket s))

theorem emitSyncFrame_overflow (s : State F) (h : s.nowMs < s.syncTimeoutBase) :
    emitSyncFrame s = .error .overflow := by
  simp [emitSyncFrame, h]

/-- `quiet && idle` of the model is the negation of the disjunction in `SyncDue`. -/
theorem quiet_idle_iff (s : State F) :
    (((syncNextFrame s).isNone && (syncNextPacket s).isNone) &&
      (match s.keepalive with
        | some k => decide (elapsed s < k)
        | none => true)) = true ↔
    ¬ (FramesUnacked s ∨ PacketsIdle s ∨ KeepaliveDue s) := by
  simp only [syncNextFrame, syncNextPacket, FramesUnacked, PacketsIdle, KeepaliveDue,
    Bool.and_eq_true, Option.isNone_iff_eq_none, not_or]
  constructor
  · rintro ⟨⟨h1, h2⟩, h3⟩
    refine ⟨?_, ?_, ?_⟩
    · intro h; rw [if_pos h] at h1; cases h1
    · intro h; rw [if_pos h] at h2; cases h2
    · rintro ⟨k, hk, hle⟩
      rw [hk] at h3
      simp only [decide_eq_true_eq] at h3
      omega
  · rintro ⟨h1, h2, h3⟩
    refine ⟨⟨by rw [if_neg h1], by rw [if_neg h2]⟩, ?_⟩
    cases hk : s.keepalive with
    | none => rfl
    | some k =>
      simp only [decide_eq_true_eq]
      by_cases hlt : elapsed s < k
      · exact hlt
      · exact absurd ⟨k, hk, by omega⟩ h3

/-- `emitSyncFrame` with its three tests named. -/
theorem emitSyncFrame_eq (s : State F) (h : s.syncTimeoutBase ≤ s.nowMs) :
    emitSyncFrame s =
      if SyncDue s then
        if s.flushAlloc < 0 then .ok (s, [], .stop)
        else .ok ({ s with flushAlloc := s.flushAlloc - (syncBytes s).length,
                           syncTimeoutBase := s.nowMs }, [syncBytes s], .cont)
      else .ok (s, [], .cont) := by
  have hq := quiet_idle_iff s
  unfold emitSyncFrame
  rw [if_neg (by omega)]
  simp only
  by_cases ht : timeout s ≤ elapsed s
  · have ht' : s.nowMs - s.syncTimeoutBase ≥ max s.rtoMs MIN_SYNC_TIMEOUT_MS := ht
    rw [if_pos ht']
    by_cases hd : FramesUnacked s ∨ PacketsIdle s ∨ KeepaliveDue s
    · rw [if_pos (show SyncDue s from ⟨ht, hd⟩)]
      generalize hb : (_ && _ && _ : Bool) = b
      cases b with
      | true => exact absurd hd (hq.mp hb)
      | false => rfl
    · rw [if_neg (show ¬ SyncDue s from fun hh => hd hh.2)]
      generalize hb : (_ && _ && _ : Bool) = b
      cases b with
      | true => rfl
      | false => exact absurd ((hq.mpr hd).symm.trans hb) (by simp)
  · have ht' : ¬ (s.nowMs - s.syncTimeoutBase ≥ max s.rtoMs MIN_SYNC_TIMEOUT_MS) := ht
    rw [if_neg ht', if_neg (show ¬ SyncDue s from fun hh => ht hh.1)]

theorem syncNextFrame_some_iff (s : State F) (x : Nat) :
    syncNextFrame s = some x ↔ FramesUnacked s ∧ x = s.fq.logNext := by
  unfold syncNextFrame FramesUnacked
  split <;> simp_all [eq_comm]

theorem syncNextPacket_some_iff (s : State F) (x : Nat) :
    syncNextPacket s = some x ↔ PacketsIdle s ∧ x = s.ps.nextId := by
  unfold syncNextPacket PacketsIdle
  split <;> simp_all [eq_comm]

theorem syncNextFrame_none_iff (s : State F) : syncNextFrame s = none ↔ ¬ FramesUnacked s := by
  unfold syncNextFrame FramesUnacked
  split <;> simp_all

theorem syncNextPacket_none_iff (s : State F) : syncNextPacket s = none ↔ ¬ PacketsIdle s := by
  unfold syncNextPacket PacketsIdle
  split <;> simp_all

/-- The sync frame decodes to its two fields when the ids are u32 values. -/
theorem decode_syncBytes (s : State F) (hf : s.fq.logNext < 2^32) (hp : s.ps.nextId < 2^32) :
    decode (syncBytes s) = some (.sync (syncNextFrame s) (syncNextPacket s)) := by
  apply decode_encode
  refine ⟨?_, ?_⟩
  · unfold syncNextFrame; split <;> simp [OptOk, hf]
  · unfold syncNextPacket; split <;> simp [OptOk, hp]

theorem syncBytes_length (s : State F) : (syncBytes s).length = 14 := length_encode_sync _ _

/-! ### the ack frames when a sync reply is owed -/

/-- The groups of the in-progress ack frame. -/
def ipGroups : Option AckProg → List AckGroup
  | some a => a.groups
  | none => []

/-- `f` is an ack frame carrying the window bases `fb`, `pb` and at most 161 groups taken from `E`. -/
def IsAck (fb pb : Nat) (E : List AckGroup) (f : List Nat) : Prop :=
  ∃ gs, f = encode (.ack fb pb gs) ∧ gs.length ≤ 161 ∧ ∀ g ∈ gs, g ∈ E

theorem IsAck.mono {fb pb : Nat} {E E' : List AckGroup} {f : List Nat} (h : IsAck fb pb E f)
    (hsub : ∀ g ∈ E, g ∈ E') : IsAck fb pb E' f := by
  obtain ⟨gs, h1, h2, h3⟩ := h
  exact ⟨gs, h1, h2, fun g hg => hsub g (h3 g hg)⟩

/-- What `emitAckFrames` leaves alone (it changes `flushAlloc`, `syncReply`, `aq.entries`). -/
structure AckKeep (s s' : State F) : Prop where
  stb : s'.syncTimeoutBase = s.syncTimeoutBase
  now : s'.nowMs = s.nowMs
  fq : s'.fq = s.fq
  ps : s'.ps = s.ps
  pending : s'.pending = s.pending
  resend : s'.resend = s.resend
  rto : s'.rtoMs = s.rtoMs
  keepalive : s'.keepalive = s.keepalive
  pr : s'.pr = s.pr
  aqBase : s'.aq.baseId = s.aq.baseId
  aqSize : s'.aq.size = s.aq.size

theorem AckKeep.refl (s : State F) : AckKeep s s :=
  ⟨rfl, rfl, rfl, rfl, rfl, rfl, rfl, rfl, rfl, rfl, rfl⟩

theorem AckKeep.trans {a b c : State F} (h1 : AckKeep a b) (h2 : AckKeep b c) : AckKeep a c :=
  ⟨h2.stb.trans h1.stb, h2.now.trans h1.now, h2.fq.trans h1.fq, h2.ps.trans h1.ps,
   h2.pending.trans h1.pending, h2.resend.trans h1.resend, h2.rto.trans h1.rto,
   h2.keepalive.trans h1.keepalive, h2.pr.trans h1.pr, h2.aqBase.trans h1.aqBase,
   h2.aqSize.trans h1.aqSize⟩

theorem ackFin_keep (fb pb : Nat) (s : State F) (ip : Option AckProg) (out : List (List Nat)) :
    AckKeep s (ackFin fb pb s ip out).1 := by
  cases ip <;> exact ⟨rfl, rfl, rfl, rfl, rfl, rfl, rfl, rfl, rfl, rfl, rfl⟩

theorem ackFin_some (fb pb : Nat) (s : State F) (a : AckProg) (out : List (List Nat)) :
    ackFin fb pb s (some a) out =
      ({ s with flushAlloc := s.flushAlloc - (encode (.ack fb pb a.groups)).length,
                syncReply := false }, out ++ [encode (.ack fb pb a.groups)]) := rfl

theorem isAck_of_size (fb pb : Nat) (a : AckProg) (E : List AckGroup)
    (hsz : a.size ≤ MAX_FRAME_SIZE) (hE : ∀ g ∈ a.groups, g ∈ E) :
    IsAck fb pb E (encode (.ack fb pb a.groups)) := by
  refine ⟨a.groups, rfl, ?_, hE⟩
  rw [ackProg_size] at hsz
  simp only [MAX_FRAME_SIZE] at hsz
  omega

/-- The loop of `emitAckFrames` started with an in-progress frame (the `push_dud` of a sync reply):
at least one ack frame is sent, every frame sent carries the bases, `syncReply` is cleared. -/
theorem ackLoop_reply (fb pb : Nat) (fuel : Nat) (s : State F) (a : AckProg)
    (out : List (List Nat)) (hfuel : s.aq.entries.length + 1 ≤ fuel)
    (hsz : a.size ≤ MAX_FRAME_SIZE) :
    ∃ add, (emitAckFrames.loop (ackFin fb pb) fuel s (some a) out).2.1 = out ++ add ∧ add ≠ [] ∧
      (∀ f ∈ add, IsAck fb pb (a.groups ++ s.aq.entries) f) ∧
      (emitAckFrames.loop (ackFin fb pb) fuel s (some a) out).1.syncReply = false ∧
      AckKeep s (emitAckFrames.loop (ackFin fb pb) fuel s (some a) out).1 := by
  induction fuel generalizing s a out with
  | zero => omega
  | succ n ih =>
    have hself : IsAck fb pb (a.groups ++ s.aq.entries) (encode (.ack fb pb a.groups)) :=
      isAck_of_size fb pb a _ hsz (fun g hg => List.mem_append_left _ hg)
    simp only [emitAckFrames.loop]
    split
    · -- no more groups
      refine ⟨[encode (.ack fb pb a.groups)], rfl, by simp, ?_, rfl, ackFin_keep fb pb s (some a) out⟩
      intro f hf
      rw [List.mem_singleton] at hf
      subst hf; exact hself
    · rename_i g rest hent
      split
      · refine ⟨[encode (.ack fb pb a.groups)], rfl, by simp, ?_, rfl, ackFin_keep fb pb s (some a) out⟩
        intro f hf
        rw [List.mem_singleton] at hf
        subst hf; exact hself
      · split
        · split
          · refine ⟨[encode (.ack fb pb a.groups)], rfl, by simp, ?_, rfl,
              ackFin_keep fb pb s (some a) out⟩
            intro f hf
            rw [List.mem_singleton] at hf
            subst hf; exact hself
          · have hsz' : ({ groups := [g] } : AckProg).size ≤ MAX_FRAME_SIZE := by
              rw [ackProg_size]; simp only [MAX_FRAME_SIZE, List.length_cons, List.length_nil]; omega
            obtain ⟨add', h1, _, h3, h4, h5⟩ := ih
              ({ (ackFin fb pb s (some a) out).1 with
                  aq := { (ackFin fb pb s (some a) out).1.aq with entries := rest } })
              { groups := [g] } (ackFin fb pb s (some a) out).2
              (by simp only [ackFin_some]; rw [hent] at hfuel; simp only [List.length_cons] at hfuel; omega)
              hsz'
            refine ⟨encode (.ack fb pb a.groups) :: add', ?_, by simp, ?_, h4, ?_⟩
            · rw [h1, ackFin_some]; simp
            · intro f hf
              rw [List.mem_cons] at hf
              rcases hf with rfl | hf
              · exact hself
              · refine (h3 f hf).mono ?_
                intro x hx
                rw [hent]
                simp only [ackFin_some, ipGroups, List.mem_append, List.mem_cons, List.mem_singleton,
                  List.not_mem_nil, or_false, false_or] at hx ⊢
                grind
            · refine AckKeep.trans ?_ h5
              exact ⟨rfl, rfl, rfl, rfl, rfl, rfl, rfl, rfl, rfl, rfl, rfl⟩
        · rename_i hfit
          have hsz' : ({ groups := a.groups ++ [g] } : AckProg).size ≤ MAX_FRAME_SIZE := by
            rw [ackProg_size] at hfit ⊢
            simp only [MAX_FRAME_SIZE, ACK_GROUP_SIZE, List.length_append, List.length_cons,
              List.length_nil] at hfit ⊢
            omega
          obtain ⟨add', h1, h2, h3, h4, h5⟩ := ih
            ({ s with aq := { s.aq with entries := rest } }) { groups := a.groups ++ [g] } out
            (by rw [hent] at hfuel; simp only [List.length_cons] at hfuel ⊢; omega) hsz'
          refine ⟨add', h1, h2, ?_, h4, ?_⟩
          · intro f hf
            refine (h3 f hf).mono ?_
            intro x hx
            rw [hent]
            simp only [ackFin_some, ipGroups, List.mem_append, List.mem_cons, List.mem_singleton,
              List.not_mem_nil, or_false, false_or] at hx ⊢
            grind
          · refine AckKeep.trans ?_ h5
            exact ⟨rfl, rfl, rfl, rfl, rfl, rfl, rfl, rfl, rfl, rfl, rfl⟩

/-- The loop of `emitAckFrames` in general: the untouched fields, and every frame carries the bases. -/
theorem ackLoop_keep (fb pb : Nat) (fuel : Nat) (s : State F) (ip : Option AckProg)
    (out : List (List Nat)) (hsz : ∀ a, ip = some a → a.size ≤ MAX_FRAME_SIZE) :
    ∃ add, (emitAckFrames.loop (ackFin fb pb) fuel s ip out).2.1 = out ++ add ∧
      (∀ f ∈ add, IsAck fb pb (ipGroups ip ++ s.aq.entries) f) ∧
      AckKeep s (emitAckFrames.loop (ackFin fb pb) fuel s ip out).1 := by
  induction fuel generalizing s ip out with
  | zero => exact ⟨[], by simp [emitAckFrames.loop], by simp, AckKeep.refl _⟩
  | succ n ih =>
    have hfin : ∃ add, (ackFin fb pb s ip out).2 = out ++ add ∧
        (∀ f ∈ add, IsAck fb pb (ipGroups ip ++ s.aq.entries) f) := by
      cases ip with
      | none => exact ⟨[], by simp [ackFin], by simp⟩
      | some a =>
        refine ⟨[encode (.ack fb pb a.groups)], rfl, ?_⟩
        intro f hf
        rw [List.mem_singleton] at hf
        subst hf
        exact isAck_of_size fb pb a _ (hsz a rfl) (fun g hg => List.mem_append_left _ hg)
    have hone : ∀ g, ({ groups := [g] } : AckProg).size ≤ MAX_FRAME_SIZE := by
      intro g
      rw [ackProg_size]; simp only [MAX_FRAME_SIZE, List.length_cons, List.length_nil]; omega
    simp only [emitAckFrames.loop]
    split
    · obtain ⟨add, h1, h2⟩ := hfin
      exact ⟨add, h1, h2, ackFin_keep fb pb s ip out⟩
    · rename_i g rest hent
      split
      · rename_i a
        split
        · obtain ⟨add, h1, h2⟩ := hfin
          exact ⟨add, h1, h2, ackFin_keep fb pb s (some a) out⟩
        · split
          · split
            · obtain ⟨add, h1, h2⟩ := hfin
              exact ⟨add, h1, h2, ackFin_keep fb pb s (some a) out⟩
            · obtain ⟨add, h1, h2⟩ := hfin
              obtain ⟨add', h1', h2', h3'⟩ := ih
                ({ (ackFin fb pb s (some a) out).1 with
                    aq := { (ackFin fb pb s (some a) out).1.aq with entries := rest } })
                (some { groups := [g] }) (ackFin fb pb s (some a) out).2
                (fun a' ha' => by cases ha'; exact hone g)
              refine ⟨add ++ add', ?_, ?_, ?_⟩
              · rw [h1', h1, List.append_assoc]
              · intro f hf
                rw [List.mem_append] at hf
                rcases hf with hf | hf
                · exact h2 f hf
                · refine (h2' f hf).mono ?_
                  intro x hx
                  rw [hent]
                  simp only [ackFin_some, ipGroups, List.mem_append, List.mem_cons, List.mem_singleton,
                    List.not_mem_nil, or_false, false_or] at hx ⊢
                  grind
              · refine AckKeep.trans ?_ h3'
                exact ⟨rfl, rfl, rfl, rfl, rfl, rfl, rfl, rfl, rfl, rfl, rfl⟩
          · rename_i hfit
            have hsz' : ({ groups := a.groups ++ [g] } : AckProg).size ≤ MAX_FRAME_SIZE := by
              have := hsz a rfl
              rw [ackProg_size] at hfit this ⊢
              simp only [MAX_FRAME_SIZE, ACK_GROUP_SIZE, List.length_append, List.length_cons,
                List.length_nil] at hfit this ⊢
              omega
            obtain ⟨add', h1', h2', h3'⟩ := ih
              ({ s with aq := { s.aq with entries := rest } }) (some { groups := a.groups ++ [g] }) out
              (fun a' ha' => by cases ha'; exact hsz')
            refine ⟨add', h1', ?_, ?_⟩
            · intro f hf
              refine (h2' f hf).mono ?_
              intro x hx
              rw [hent]
              simp only [ackFin_some, ipGroups, List.mem_append, List.mem_cons, List.mem_singleton,
                List.not_mem_nil, or_false, false_or] at hx ⊢
              grind
            · refine AckKeep.trans ?_ h3'
              exact ⟨rfl, rfl, rfl, rfl, rfl, rfl, rfl, rfl, rfl, rfl, rfl⟩
      · split
        · exact ⟨[], by simp, by simp, AckKeep.refl _⟩
        · obtain ⟨add', h1', h2', h3'⟩ := ih
            ({ s with aq := { s.aq with entries := rest } }) (some { groups := [g] }) out
            (fun a' ha' => by cases ha'; exact hone g)
          refine ⟨add', h1', ?_, ?_⟩
          · intro f hf
            refine (h2' f hf).mono ?_
            intro x hx
            rw [hent]
            simp only [ackFin_some, ipGroups, List.mem_append, List.mem_cons, List.mem_singleton,
              List.not_mem_nil, or_false, false_or] at hx ⊢
            grind
          · refine AckKeep.trans ?_ h3'
            exact ⟨rfl, rfl, rfl, rfl, rfl, rfl, rfl, rfl, rfl, rfl, rfl⟩

/-- `emitAckFrames`: the untouched fields; every frame sent is an ack frame carrying the receiver's
two window bases and groups of the ack queue. -/
theorem emitAckFrames_keep (s : State F) :
    AckKeep s (emitAckFrames s).1 ∧
    ∀ f ∈ (emitAckFrames s).2.1, IsAck s.aq.baseId s.pr.baseId s.aq.entries f := by
  rw [emitAckFrames_eq]
  split
  · exact ⟨AckKeep.refl _, by simp⟩
  · obtain ⟨add, h1, h2, h3⟩ := ackLoop_keep s.aq.baseId s.pr.baseId (s.aq.entries.length + 2) s
      (if s.syncReply then some { groups := [] } else none) [] (by
        intro a ha
        split at ha
        · cases ha; rw [ackProg_size]; simp only [MAX_FRAME_SIZE, List.length_nil]; omega
        · cases ha)
    refine ⟨h3, ?_⟩
    rw [h1]
    intro f hf
    refine (h2 f (by simpa using hf)).mono ?_
    intro x hx
    split at hx <;> simpa [ipGroups] using hx

/-- With a sync reply owed and non-negative credit, `emitAckFrames` sends at least one ack frame and
clears `syncReply`. -/
theorem emitAckFrames_reply (s : State F) (hr : s.syncReply = true) (hc : 0 ≤ s.flushAlloc) :
    (emitAckFrames s).2.1 ≠ [] ∧ (emitAckFrames s).1.syncReply = false := by
  rw [emitAckFrames_eq]
  rw [if_neg (by intro h; omega)]
  simp only [hr, if_true]
  obtain ⟨add, h1, h2, _, h4, _⟩ := ackLoop_reply s.aq.baseId s.pr.baseId (s.aq.entries.length + 2) s
    { groups := [] } [] (by omega)
    (by rw [ackProg_size]; simp only [MAX_FRAME_SIZE, List.length_nil]; omega)
  refine ⟨?_, h4⟩
  rw [h1]; simpa using h2

/-- With a sync reply owed and negative credit nothing happens (the reply stays owed). -/
theorem emitAckFrames_postponed (s : State F) (hr : s.syncReply = true) (hc : s.flushAlloc < 0) :
    emitAckFrames s = (s, [], .stop) := by
  rw [emitAckFrames_eq, if_pos ⟨hr, hc⟩]

/-- An ack frame of `emitAckFrames` decodes to its window bases and groups when these are u32 values. -/
theorem IsAck.decode {fb pb : Nat} {E : List AckGroup} {f : List Nat} (h : IsAck fb pb E f)
    (hfb : fb < 2^32) (hpb : pb < 2^32) (hE : ∀ g ∈ E, AckGroupOk g) :
    ∃ gs, decode f = some (.ack fb pb gs) ∧ ∀ g ∈ gs, g ∈ E := by
  obtain ⟨gs, rfl, hlen, hmem⟩ := h
  refine ⟨gs, decode_encode _ ⟨hfb, hpb, by omega, fun g hg => hE g (hmem g hg)⟩, hmem⟩

end Uflow.SyncCycle
