import Uflow.Lemmas.EndpointEventsRun

/-!
Server endpoint: active timeouts are sound and prompt; how the handlers write the activity deadline;
the timer transitions of `closing` (disconnect retries).
-/

namespace Uflow.Endpoint

open Uflow.Gen Uflow.Codec Uflow.HalfConn

variable {H : Type}

/-- Invariant induction over a `foldlM` that remembers the processed prefix. -/
theorem foldlM_induct_prefix {σ α : Type} (f : σ → α → R σ) (P : List α → σ → Prop)
    (step : ∀ pre a s s', P pre s → f s a = .ok s' → P (pre ++ [a]) s') (l : List α) (s s' : σ) (h0 : P [] s)
    (h : l.foldlM f s = .ok s') : P l s' := by
  have gen : ∀ (rest pre : List α) (s : σ), P pre s → rest.foldlM f s = .ok s' → P (pre ++ rest) s' := by
    intro rest
    induction rest with
    | nil =>
      intro pre s hp h
      simp only [List.foldlM_nil, pure, Except.pure] at h; cases h
      simpa using hp
    | cons b bs ih =>
      intro pre s hp h
      simp only [List.foldlM_cons, bind, Except.bind] at h
      split at h
      · cases h
      · next s1 hs1 =>
        have := ih (pre ++ [b]) s1 (step _ _ _ _ hp hs1) h
        simpa using this
  simpa using gen l [] s h0 h

/-! ## Active timeouts -/

/-- When the iteration meets an `active` entry whose deadline has passed, it fires. -/
theorem Server.activeTimeoutStep_fire (hc : HC H) (nowMs : Nat) (s s' : Server H) (cid : Nat) (c : RClient H)
    (hh : H) (t : Nat) (sig : Option DisconnectMode) (hb : s.byCid cid = some c) (hst : c.state = .active hh t sig)
    (hge : nowMs ≥ t) (h : Server.activeTimeoutStep hc nowMs s cid = .ok s') :
    ∃ h' pkts, hc.receive hh = .ok (h', pkts) ∧
      s' = ({ s with eventsOut := s.eventsOut ++ pkts.map (SEvent.receive c.address) ++ [SEvent.error c.address .timeout] } : Server H).finish c := by
  unfold Server.activeTimeoutStep at h
  rw [hb] at h
  simp only [hst, if_pos hge] at h
  split at h
  · cases h
  · next h' pkts hr => cases h; exact ⟨h', pkts, hr, rfl⟩

theorem Server.find_filter_of (s s' : Server H) (b : Nat) (h : s'.clients = s.clients.filter (·.address ≠ b)) (a : Nat) :
    s'.find a = if a = b then none else s.find a := by
  rw [Server.find_of_clients h]; exact findA_filter s.clients b a

/-- `C10_timeout_sound_server`, loop level: every `error a timeout` emitted by the active-timeout loop
belongs to an entry that was `active` in the map when the loop started, with `nowMs ≥` its deadline;
the entry is gone afterwards; the loop emits nothing but `receive`s and these errors. -/
theorem Server.activeTimeouts_sound (hc : HC H) (s s' : Server H) (hw : s.WF) (nowMs : Nat)
    (h : s.activeTimeouts hc nowMs = .ok s') :
    ∃ evs, s'.eventsOut = s.eventsOut ++ evs ∧
      (∀ e ∈ evs, (∃ a d, e = SEvent.receive a d) ∨ ∃ a, e = SEvent.error a .timeout) ∧
      ∀ a, SEvent.error a .timeout ∈ evs →
        ∃ c hh t sig, s.find a = some c ∧ c.state = .active hh t sig ∧ nowMs ≥ t ∧ s'.find a = none := by
  rw [Server.activeTimeouts_eq] at h
  have key := foldlM_induct (Server.activeTimeoutStep hc nowMs)
    (fun x => x.WF ∧ (∀ a c, x.find a = some c → s.find a = some c) ∧
      ∃ evs, x.eventsOut = s.eventsOut ++ evs ∧
        (∀ e ∈ evs, (∃ a d, e = SEvent.receive a d) ∨ ∃ a, e = SEvent.error a .timeout) ∧
        ∀ a, SEvent.error a .timeout ∈ evs →
          (∃ c hh t sig, s.find a = some c ∧ c.state = .active hh t sig ∧ nowMs ≥ t) ∧ x.find a = none)
    ?_ s.active s s' ⟨hw, fun _ _ h => h, [], by simp, by simp, by simp⟩ h
  · obtain ⟨-, -, evs, h1, h2, h3⟩ := key
    refine ⟨evs, h1, h2, fun a ha => ?_⟩
    obtain ⟨⟨c, hh, t, sig, x1, x2, x3⟩, x4⟩ := h3 a ha
    exact ⟨c, hh, t, sig, x1, x2, x3, x4⟩
  · intro x cid x' ⟨hwx, hmono, evs, h1, h2, h3⟩ hx
    obtain ⟨e2, t2, hcase⟩ := Server.activeTimeoutStep_STr hc nowMs x x' hwx cid hx
    rcases hcase with ⟨rfl, rfl⟩ | ⟨c, hh, t, sig, h', pkts, hb, hcm, hst, hge, hr, rfl, hcl⟩
    · exact ⟨hwx, hmono, evs, h1, h2, h3⟩
    · have hfind := Server.find_filter_of x x' c.address hcl
      have hfc : x.find c.address = some c := Server.find_of_mem hwx hcm
      refine ⟨t2.wf, ?_, evs ++ (pkts.map (SEvent.receive c.address) ++ [SEvent.error c.address .timeout]),
        by rw [t2.events, h1, List.append_assoc], ?_, ?_⟩
      · intro a c0 hf
        rw [hfind] at hf
        split at hf
        · cases hf
        · exact hmono a c0 hf
      · intro e he
        rcases List.mem_append.mp he with he | he
        · exact h2 e he
        · simp only [List.mem_append, List.mem_map, List.mem_singleton] at he
          rcases he with ⟨d, _, rfl⟩ | rfl
          · exact Or.inl ⟨_, _, rfl⟩
          · exact Or.inr ⟨_, rfl⟩
      · intro a ha
        rcases List.mem_append.mp ha with ha | ha
        · obtain ⟨x1, x2⟩ := h3 a ha
          refine ⟨x1, ?_⟩
          rw [hfind]; split
          · rfl
          · exact x2
        · simp only [List.mem_append, List.mem_map, List.mem_singleton] at ha
          rcases ha with ⟨d, _, hd⟩ | ha
          · cases hd
          · injection ha with ha1 _
            subst ha1
            exact ⟨⟨c, hh, t, sig, hmono _ _ hfc, hst, hge⟩, by rw [hfind, if_pos rfl]⟩

/-- `C10_timeout_prompt` (server), loop level: an entry of the map that is `active` with
`nowMs ≥` its deadline when the active-timeout loop starts gets its `error timeout` in that loop and is
removed from the map. -/
theorem Server.activeTimeouts_prompt (hc : HC H) (s s' : Server H) (hw : s.WF) (nowMs : Nat) (c : RClient H)
    (hcm : c ∈ s.clients) (hh : H) (t : Nat) (sig : Option DisconnectMode) (hst : c.state = .active hh t sig)
    (hge : nowMs ≥ t) (h : s.activeTimeouts hc nowMs = .ok s') :
    ∃ evs, s'.eventsOut = s.eventsOut ++ evs ∧ SEvent.error c.address .timeout ∈ evs ∧ s'.find c.address = none := by
  rw [Server.activeTimeouts_eq] at h
  have key := foldlM_induct_prefix (Server.activeTimeoutStep hc nowMs)
    (fun pre x => x.WF ∧ ∃ evs, x.eventsOut = s.eventsOut ++ evs ∧
      ((c ∈ x.clients ∧ c.cid ∉ pre) ∨ (SEvent.error c.address .timeout ∈ evs ∧ x.find c.address = none)))
    ?_ s.active s s' ⟨hw, [], by simp, Or.inl ⟨hcm, by simp⟩⟩ h
  · obtain ⟨-, evs, h1, hcase⟩ := key
    rcases hcase with ⟨_, hn⟩ | ⟨h2, h3⟩
    · exact absurd (hw.act c hcm (by rw [hst]; rfl)) hn
    · exact ⟨evs, h1, h2, h3⟩
  · intro pre cid x x' ⟨hwx, evs, h1, hcase⟩ hx
    obtain ⟨e2, t2, hc2⟩ := Server.activeTimeoutStep_STr hc nowMs x x' hwx cid hx
    refine ⟨t2.wf, evs ++ e2, by rw [t2.events, h1, List.append_assoc], ?_⟩
    rcases hcase with ⟨hcx, hnp⟩ | ⟨hev, hnone⟩
    · by_cases hcid : cid = c.cid
      · subst hcid
        obtain ⟨h', pkts, hr, rfl⟩ := Server.activeTimeoutStep_fire hc nowMs x x' c.cid c hh t sig
          (Server.byCid_of_mem hwx hcx) hst hge hx
        refine Or.inr ⟨?_, by rw [Server.find_finish, if_pos rfl]⟩
        have hev := t2.events
        have hcx' : c ∈ ({ x with eventsOut := x.eventsOut ++ pkts.map (SEvent.receive c.address) ++ [SEvent.error c.address .timeout] } : Server H).clients := hcx
        rw [Server.finish_eq hcx'] at hev
        simp only at hev
        have : e2 = pkts.map (SEvent.receive c.address) ++ [SEvent.error c.address .timeout] := by
          have := hev
          rw [List.append_assoc] at this
          exact (List.append_cancel_left this).symm
        rw [this]; simp
      · rcases hc2 with ⟨rfl, rfl⟩ | ⟨c0, hh0, t0, sig0, h0, pkts, hb0, hcm0, _, _, _, _, hcl⟩
        · refine Or.inl ⟨hcx, ?_⟩
          simp only [List.mem_append, List.mem_singleton, not_or]
          exact ⟨hnp, fun e => hcid e.symm⟩
        · refine Or.inl ⟨?_, ?_⟩
          · rw [hcl, List.mem_filter]
            refine ⟨hcx, ?_⟩
            simp only [ne_eq, decide_not, Bool.not_eq_eq_eq_not, Bool.not_true, decide_eq_false_iff_not]
            intro e
            have : c = c0 := inj_of_nodup_map (·.address) hwx.addr hcx hcm0 e
            rw [this] at hcid
            exact hcid (Server.byCid_some hb0).2.symm
          · simp only [List.mem_append, List.mem_singleton, not_or]
            exact ⟨hnp, fun e => hcid e.symm⟩
    · refine Or.inr ⟨List.mem_append_left _ hev, ?_⟩
      rcases hc2 with ⟨rfl, rfl⟩ | ⟨c0, _, _, _, _, _, _, _, _, _, _, _, hcl⟩
      · exact hnone
      · rw [Server.find_filter_of x x' c0.address hcl]
        split
        · rfl
        · exact hnone

/-! ## How the handlers write the deadline -/

/-- `handleTraffic` on an `active` entry sets its deadline to `nowMs + activeTimeoutMs` (and changes
nothing else but the half connection); on anything else it is the identity. -/
theorem Server.handleTraffic_deadline (hc : HC H) (s s' : Server H) (hw : s.WF) (addr : Nat) (f : Frame) (nowMs : Nat)
    (h : s.handleTraffic hc addr f nowMs = .ok s') :
    (s' = s ∧ ∀ c hh t sig, s.find addr = some c → c.state ≠ .active hh t sig) ∨
    ∃ c hh t sig h', s.find addr = some c ∧ c.state = .active hh t sig ∧ hc.dispatch hh f = .ok h' ∧
      s'.find addr = some { c with state := .active h' (nowMs + s.cfg.ep.activeTimeoutMs) sig } ∧
      ∀ a, a ≠ addr → s'.find a = s.find a := by
  unfold Server.handleTraffic at h
  split at h
  · next hf => cases h; exact Or.inl ⟨rfl, fun _ _ _ _ h => by rw [hf] at h; cases h⟩
  · next c hf =>
    obtain ⟨hcm, hca⟩ := Server.find_some hf
    split at h
    · next hh t sig hst =>
      split at h
      · cases h
      · next h' hd =>
        cases h
        refine Or.inr ⟨c, hh, t, sig, h', hf, hst, hd, ?_, ?_⟩
        · rw [Server.find_put (c' := { c with state := .active h' (nowMs + s.cfg.ep.activeTimeoutMs) sig }) hw hcm rfl rfl,
            if_pos hca.symm]
        · intro a ha
          rw [Server.find_put (c' := { c with state := .active h' (nowMs + s.cfg.ep.activeTimeoutMs) sig }) hw hcm rfl rfl,
            if_neg (by rw [hca]; exact ha)]
    · next hna =>
      cases h
      exact Or.inl ⟨rfl, fun c' hh t sig h hs => by rw [hf] at h; cases h; exact hna hh t sig hs⟩

/-- `handleHsAck` that establishes the connection initialises the deadline to
`nowMs + activeTimeoutMs` (the server does this correctly). -/
theorem Server.handleHsAck_deadline (hc : HC H) (s : Server H) (hw : s.WF) (addr na nowMs nowNs : Nat)
    (c : RClient H) (ln rn r al : Nat) (rb : List Nat) (hf : s.find addr = some c)
    (hst : c.state = .pending ln rn r al rb) (hna : na = ln) :
    (s.handleHsAck hc addr na nowMs nowNs).find addr =
      some { c with state := .active (hc.new (hcConfig s.cfg.ep ln rn r al) nowNs) (nowMs + s.cfg.ep.activeTimeoutMs) none } ∧
    (s.handleHsAck hc addr na nowMs nowNs).eventsOut = s.eventsOut ++ [SEvent.connect addr] ∧
    ∀ a, a ≠ addr → (s.handleHsAck hc addr na nowMs nowNs).find a = s.find a := by
  obtain ⟨hcm, hca⟩ := Server.find_some hf
  have e : s.handleHsAck hc addr na nowMs nowNs =
      { (s.put { c with state := .active (hc.new (hcConfig s.cfg.ep ln rn r al) nowNs) (nowMs + s.cfg.ep.activeTimeoutMs) none }) with
        active := (s.put { c with state := .active (hc.new (hcConfig s.cfg.ep ln rn r al) nowNs) (nowMs + s.cfg.ep.activeTimeoutMs) none }).active ++ [c.cid],
        eventsOut := (s.put { c with state := .active (hc.new (hcConfig s.cfg.ep ln rn r al) nowNs) (nowMs + s.cfg.ep.activeTimeoutMs) none }).eventsOut ++ [SEvent.connect addr] } := by
    unfold Server.handleHsAck
    rw [hf]
    simp only [hst, if_pos hna]
  have hfind : ∀ a, (s.handleHsAck hc addr na nowMs nowNs).find a =
      (s.put { c with state := .active (hc.new (hcConfig s.cfg.ep ln rn r al) nowNs) (nowMs + s.cfg.ep.activeTimeoutMs) none }).find a := by
    intro a; rw [e]; rfl
  refine ⟨?_, ?_, ?_⟩
  · rw [hfind, Server.find_put (c' := { c with state := .active (hc.new (hcConfig s.cfg.ep ln rn r al) nowNs) (nowMs + s.cfg.ep.activeTimeoutMs) none }) hw hcm rfl rfl,
      if_pos hca.symm]
  · rw [e, Server.put_state_eq hcm]
  · intro a ha
    rw [hfind, Server.find_put (c' := { c with state := .active (hc.new (hcConfig s.cfg.ep ln rn r al) nowNs) (nowMs + s.cfg.ep.activeTimeoutMs) none }) hw hcm rfl rfl,
      if_neg (by rw [hca]; exact ha)]

/-! ## The disconnect-retry timer -/

/-- `handleTimer` on a `resendDisconnect` timer of a `closing` entry: while the count is positive, the
request is sent again and the timer re-armed with the count decremented, 2000 ms later; at count 0 the
entry gets `error timeout` and is removed. -/
theorem Server.handleTimer_closing (s : Server H) (t : Timer) (nowMs : Nat) (c : RClient H)
    (hb : s.byCid t.cid = some c) (hst : c.state = .closing) (hk : t.kind = .resendDisconnect) :
    (t.count > 0 → s.handleTimer t nowMs =
      ({ s with timers := tPush s.timers { t with count := t.count - 1, time := nowMs + SERVER_DISCONNECT_RESEND_INTERVAL_MS } },
       [(c.address, discReq)])) ∧
    (t.count = 0 → s.handleTimer t nowMs =
      (({ s with eventsOut := s.eventsOut ++ [SEvent.error c.address .timeout] } : Server H).finish c, [])) := by
  constructor
  · intro hpos
    unfold Server.handleTimer
    rw [hb]
    simp only [hst, hk, if_pos hpos, if_true]
  · intro hz
    unfold Server.handleTimer
    rw [hb]
    simp only [hst, hk, if_true, hz, Nat.lt_irrefl, if_false, gt_iff_lt]

/-- The same for the SYN-ACK retries of a `pending` entry. -/
theorem Server.handleTimer_pending (s : Server H) (t : Timer) (nowMs : Nat) (c : RClient H)
    (ln rn r al : Nat) (rb : List Nat)
    (hb : s.byCid t.cid = some c) (hst : c.state = .pending ln rn r al rb) (hk : t.kind = .resendSynAck) :
    (t.count > 0 → s.handleTimer t nowMs =
      ({ s with timers := tPush s.timers { t with count := t.count - 1, time := nowMs + SERVER_HANDSHAKE_RESEND_INTERVAL_MS } },
       [(c.address, rb)])) ∧
    (t.count = 0 → s.handleTimer t nowMs =
      (({ s with eventsOut := if s.cfg.enableHandshakeErrors then s.eventsOut ++ [SEvent.error c.address .timeout] else s.eventsOut } : Server H).finish c, [])) := by
  constructor
  · intro hpos
    unfold Server.handleTimer
    rw [hb]
    simp only [hst, hk, if_pos hpos, if_true]
  · intro hz
    unfold Server.handleTimer
    rw [hb]
    simp only [hst, hk, if_true, hz, Nat.lt_irrefl, if_false, gt_iff_lt]

/-- A timer whose object is gone, `fin`, or in a state the timer is not meant for does nothing. -/
theorem Server.handleTimer_stale (s : Server H) (t : Timer) (nowMs : Nat)
    (h : s.byCid t.cid = none ∨ ∃ c, s.byCid t.cid = some c ∧
      (c.state = .fin ∨ (∃ hh tt sig, c.state = .active hh tt sig) ∨
       (c.state = .closing ∧ t.kind ≠ .resendDisconnect) ∨ (c.state = .closed ∧ t.kind ≠ .closedTimeout) ∨
       ((∃ ln rn r al rb, c.state = .pending ln rn r al rb) ∧ t.kind ≠ .resendSynAck))) :
    s.handleTimer t nowMs = (s, []) := by
  unfold Server.handleTimer
  rcases h with hb | ⟨c, hb, hcase⟩
  · rw [hb]
  · rw [hb]
    rcases hcase with hst | ⟨hh, tt, sig, hst⟩ | ⟨hst, hk⟩ | ⟨hst, hk⟩ | ⟨⟨ln, rn, r, al, rb, hst⟩, hk⟩
    · simp [hst]
    · simp [hst]
    · simp [hst, hk]
    · simp [hst, hk]
    · simp [hst, hk]


/-! ## Step level -/

/-- The state in which the active-timeout loop of a step starts: after flush, arrivals and timers. -/
def Server.afterTimers (s2 : Server H) (nowMs : Nat) : Server H :=
  (Server.runTimers (s2.timers.size * 12 + 16) s2 nowMs []).1

/-- `C10_timeout_sound_server`, step level: every `error a timeout` delivered by a step was emitted
either by the timer loop (retry budget of a `pending` handshake or of a `closing` entry exhausted — the
timer loop emits nothing else), or by the active-timeout loop for an entry that was `active` in the map
after the arrivals and timers of this step, with `nowMs ≥` its deadline. -/
theorem Server.step_timeout_origin (hc : HC H) (s s' : Server H) (hw : s.WF) (he : s.eventsOut = []) (nowNs : Nat)
    (arrivals sent : List (Nat × List Nat)) (evs : List SEvent)
    (h : s.step hc nowNs arrivals = .ok (s', sent, evs)) (a : Nat) (hm : SEvent.error a .timeout ∈ evs) :
    ∃ s1 o1 s2 o2, s.flushActive hc = .ok (s1, o1) ∧ s1.handleFrames hc arrivals (s.nowMs nowNs) nowNs = .ok (s2, o2) ∧
      ((∃ e3, (s2.afterTimers (s.nowMs nowNs)).eventsOut = s2.eventsOut ++ e3 ∧ SEvent.error a .timeout ∈ e3 ∧
          ∀ e ∈ e3, ∃ a', e = SEvent.error a' .timeout) ∨
       ∃ c hh t sig, (s2.afterTimers (s.nowMs nowNs)).find a = some c ∧ c.state = .active hh t sig ∧
         s.nowMs nowNs ≥ t) := by
  obtain ⟨s1, o1, s2, o2, s4, s6, o6, h1, h2, h4, h6, rfl, rfl, -⟩ := Server.step_phases hc s s' nowNs arrivals sent evs h
  refine ⟨s1, o1, s2, o2, h1, h2, ?_⟩
  have t1 := Server.flushActive_STr hc s s1 hw o1 h1
  obtain ⟨e2, t2, n2⟩ := Server.handleFrames_STr hc s1 s2 t1.wf arrivals _ nowNs o2 h2
  obtain ⟨e3, t3, n3⟩ := Server.runTimers_STr (s2.timers.size * 12 + 16) s2 t2.wf (s.nowMs nowNs) []
  obtain ⟨e4, hev4, -, hs4⟩ := Server.activeTimeouts_sound hc _ s4 t3.wf _ h4
  have t5 := Server.retain_STr s4 (Server.activeTimeouts_STr hc _ s4 t3.wf _ h4).choose_spec.wf _
    (List.filter_sublist (l := s4.detached)
      (p := fun c => (s4.active.filter fun cid => match s4.byCid cid with
              | some c => c.state.isActive
              | none => false).contains c.cid || s4.timers.any (·.cid = c.cid)))
  obtain ⟨e6, t6, n6⟩ := Server.stepActive_STr hc _ s6 t5.wf _ nowNs o6 h6
  have hev6 := t6.events
  simp only at hev6
  rw [hev6, hev4] at hm
  simp only [List.mem_append] at hm
  rcases hm with (hm | hm) | hm
  · have h3e := t3.events
    rw [h3e] at hm
    rcases List.mem_append.mp hm with hm | hm
    · exfalso
      have h2e := t2.events
      have h1e := t1.events
      rw [h2e, h1e, he] at hm
      simp only [List.append_nil, List.nil_append] at hm
      exact n2 a hm
    · exact Or.inl ⟨e3, h3e, hm, n3⟩
  · obtain ⟨c, hh, t, sig, x1, x2, x3, -⟩ := hs4 a hm
    exact Or.inr ⟨c, hh, t, sig, x1, x2, x3⟩
  · obtain ⟨_, _, hx⟩ := n6 _ hm
    cases hx

/-- `C10_timeout_prompt` (server), step level: an entry that is `active` in the map after the arrivals
and timers of a step, with `nowMs ≥` its deadline, gets its `error timeout` in that same step. -/
theorem Server.step_timeout_prompt (hc : HC H) (s s' : Server H) (hw : s.WF) (nowNs : Nat)
    (arrivals sent : List (Nat × List Nat)) (evs : List SEvent)
    (h : s.step hc nowNs arrivals = .ok (s', sent, evs))
    (s1 : Server H) (o1 : List (Nat × List Nat)) (s2 : Server H) (o2 : List (Nat × List Nat))
    (h1 : s.flushActive hc = .ok (s1, o1)) (h2 : s1.handleFrames hc arrivals (s.nowMs nowNs) nowNs = .ok (s2, o2))
    (c : RClient H) (hcm : c ∈ (s2.afterTimers (s.nowMs nowNs)).clients) (hh : H) (t : Nat)
    (sig : Option DisconnectMode) (hst : c.state = .active hh t sig) (hge : s.nowMs nowNs ≥ t) :
    SEvent.error c.address .timeout ∈ evs := by
  obtain ⟨s1', o1', s2', o2', s4, s6, o6, h1', h2', h4, h6, rfl, rfl, -⟩ := Server.step_phases hc s s' nowNs arrivals sent evs h
  rw [h1] at h1'; cases h1'
  rw [h2] at h2'; cases h2'
  have t1 := Server.flushActive_STr hc s s1 hw o1 h1
  obtain ⟨e2, t2, -⟩ := Server.handleFrames_STr hc s1 s2 t1.wf arrivals _ nowNs o2 h2
  obtain ⟨e3, t3, -⟩ := Server.runTimers_STr (s2.timers.size * 12 + 16) s2 t2.wf (s.nowMs nowNs) []
  obtain ⟨e4, hev4, hmem, -⟩ := Server.activeTimeouts_prompt hc _ s4 t3.wf _ c hcm hh t sig hst hge h4
  have t5 := Server.retain_STr s4 (Server.activeTimeouts_STr hc _ s4 t3.wf _ h4).choose_spec.wf _
    (List.filter_sublist (l := s4.detached)
      (p := fun c => (s4.active.filter fun cid => match s4.byCid cid with
              | some c => c.state.isActive
              | none => false).contains c.cid || s4.timers.any (·.cid = c.cid)))
  obtain ⟨e6, t6, -⟩ := Server.stepActive_STr hc _ s6 t5.wf _ nowNs o6 h6
  have hev6 := t6.events
  simp only at hev6
  rw [hev6, hev4]
  exact List.mem_append_left _ (List.mem_append_right _ hmem)

end Uflow.Endpoint
