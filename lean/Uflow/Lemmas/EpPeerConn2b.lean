import Uflow.Lemmas.EpPeerConn2a

/-!
C01 / C09 (client model): the call trace with `send` calls tracked, along frames, steps, API calls and runs
from a state that is not `pending`.
-/

namespace Uflow.Endpoint

open Uflow.Gen Uflow.Codec Uflow.HalfConn

variable {H : Type}

/-- `PTr` plus: the `send` calls are a prefix of the application's sends `sd`, all of them while still `active`. -/
structure PT2 (hc : HC H) (st st' : CState H) (new : List CEvent) (cs : List HCall) (fr : List Frame)
    (sd : List SendRec) : Prop where
  tr : PTr hc st st' new cs fr
  sp : st.hcOf ≠ none → sendsOf cs <+: sd ∧ (st'.hcOf ≠ none → sendsOf cs = sd)

theorem PT2.refl (hc : HC H) {st : CState H} (hnp : st.isPending = false) : PT2 hc st st [] [] [] [] :=
  ⟨PTr.refl hc hnp, fun _ => ⟨List.prefix_refl _, fun _ => rfl⟩⟩

theorem PT2.of_PTr {hc : HC H} {st st' : CState H} {new : List CEvent} {cs : List HCall} {fr : List Frame}
    (t : PTr hc st st' new cs fr) (hs : sendsOf cs = []) : PT2 hc st st' new cs fr [] :=
  ⟨t, fun _ => ⟨by rw [hs]; exact List.prefix_refl _, fun _ => hs⟩⟩

theorem PT2.trans {hc : HC H} {st st1 st2 : CState H} {n1 n2 : List CEvent} {cs1 cs2 : List HCall}
    {fr1 fr2 : List Frame} {sd1 sd2 : List SendRec}
    (a : PT2 hc st st1 n1 cs1 fr1 sd1) (b : PT2 hc st1 st2 n2 cs2 fr2 sd2) :
    PT2 hc st st2 (n1 ++ n2) (cs1 ++ cs2) (fr1 ++ fr2) (sd1 ++ sd2) := by
  refine ⟨a.tr.trans b.tr, fun h0 => ?_⟩
  obtain ⟨p1, e1⟩ := a.sp h0
  cases hm : st1.hcOf with
  | some hm1 =>
    have hne : st1.hcOf ≠ none := by rw [hm]; simp
    obtain ⟨p2, e2⟩ := b.sp hne
    rw [sendsOf_append, e1 hne]
    exact ⟨(List.prefix_append_right_inj sd1).mpr p2, fun h2 => by rw [e2 h2]⟩
  | none =>
    obtain ⟨rfl, -, q3⟩ := b.tr.off hm
    rw [List.append_nil]
    exact ⟨p1.trans (List.prefix_append sd1 sd2), fun h2 => absurd q3 h2⟩

/-- Client-level form. -/
def CP2 (hc : HC H) (c c' : Client H) (cs : List HCall) (fr : List Frame) (sd : List SendRec) : Prop :=
  ∃ new, c'.eventsOut = c.eventsOut ++ new ∧ PT2 hc c.state c'.state new cs fr sd

theorem CP2.refl (hc : HC H) (c : Client H) (hnp : c.state.isPending = false) : CP2 hc c c [] [] [] :=
  ⟨[], by simp, PT2.refl hc hnp⟩

theorem CP2.trans {hc : HC H} {c c1 c2 : Client H} {cs1 cs2 : List HCall} {fr1 fr2 : List Frame} {sd1 sd2 : List SendRec}
    (a : CP2 hc c c1 cs1 fr1 sd1) (b : CP2 hc c1 c2 cs2 fr2 sd2) : CP2 hc c c2 (cs1 ++ cs2) (fr1 ++ fr2) (sd1 ++ sd2) := by
  obtain ⟨n1, e1, t1⟩ := a
  obtain ⟨n2, e2, t2⟩ := b
  exact ⟨n1 ++ n2, by rw [e2, e1, List.append_assoc], t1.trans t2⟩

theorem CP2.np {hc : HC H} {c c' : Client H} {cs : List HCall} {fr : List Frame} {sd : List SendRec}
    (a : CP2 hc c c' cs fr sd) : c'.state.isPending = false := by
  obtain ⟨_, _, t⟩ := a; exact t.tr.np

theorem CP2.of_CPTr {hc : HC H} {c c' : Client H} {cs : List HCall} {fr : List Frame}
    (hs : sendsOf cs = []) (t : CPTr hc c c' cs fr) : CP2 hc c c' cs fr [] := by
  obtain ⟨new, e, p⟩ := t
  exact ⟨new, e, PT2.of_PTr p hs⟩

/-- `Client::send`: on an `active` client exactly one `hc.send` with the same data, channel and mode. -/
theorem Client.send_CP2 (hc : HC H) (c : Client H) (d : List Nat) (ch : Nat) (m : SendMode)
    (hnp : c.state.isPending = false) : ∃ cs, CP2 hc c (c.send hc d ch m) cs [] [(d, ch, m)] := by
  cases hs : c.state with
  | pending ln req rt rc sends => rw [hs] at hnp; cases hnp
  | active ln hh t sig =>
    refine ⟨[.send d ch m], [], by simp [Client.send, hs], ?_, fun _ => ⟨List.prefix_refl _, fun _ => rfl⟩⟩
    simp only [Client.send, hs]
    exact PTr.ofActive hc _ rfl rfl (List.prefix_refl _) (fun h' e => by cases e; exact ⟨rfl, rfl⟩)
  | _ =>
    have e : c.send hc d ch m = c := by simp [Client.send, hs]
    rw [e]
    refine ⟨[], [], by simp, PTr.refl hc (by rw [hs]; rfl), fun h0 => ?_⟩
    rw [hs] at h0; exact absurd rfl h0

/-- The datagram loop from any accumulator, from a state that is not `pending`. -/
theorem Client.frames_CP2 (hc : HC H) (nowMs nowNs : Nat) : ∀ (arr : List (List Nat)) (c : Client H) (s : List (List Nat))
    (c' : Client H) (s' : List (List Nat)), c.state.isPending = false →
    arr.foldlM (Client.frameStep hc nowMs nowNs) (c, s) = .ok (c', s') →
    ∃ cs, CP2 hc c c' cs (trafficOf arr) [] := by
  intro arr
  induction arr with
  | nil =>
    intro c s c' s' hnp h
    simp only [List.foldlM_nil, pure, Except.pure] at h; cases h
    exact ⟨[], CP2.refl hc c hnp⟩
  | cons b bs ih =>
    intro c s c' s' hnp h
    simp only [List.foldlM_cons, bind, Except.bind] at h
    split at h
    · cases h
    · next acc hacc =>
      obtain ⟨c1, s1⟩ := acc
      have e : trafficOf (b :: bs) = trafficOf [b] ++ trafficOf bs := trafficOf_append [b] bs
      rw [e]
      unfold Client.frameStep at hacc
      split at hacc
      · next hd =>
        cases hacc
        obtain ⟨cs, t⟩ := ih c s c' s' hnp h
        rw [trafficOf_single_none b hd]; exact ⟨cs, t⟩
      · next f hd =>
        split at hacc
        · cases hacc
        · next c2 o2 hf =>
          cases hacc
          obtain ⟨cs1, q1, t1⟩ := Client.handleFrame_CS hc c c1 f nowMs nowNs o2 hnp hf
          have t1' := CP2.of_CPTr q1 t1
          obtain ⟨cs2, t2⟩ := ih c1 _ c' s' t1'.np h
          rw [trafficOf_single_some b f hd]
          exact ⟨cs1 ++ cs2, by simpa using t1'.trans t2⟩

/-- `handle_events`, then `step_if_active`, from a state that is not `pending`. -/
theorem Client.tail_CP2 (hc : HC H) (c c' : Client H) (nowMs nowNs : Nat) (out : List (List Nat))
    (hnp : c.state.isPending = false) (h : (c.handleEvents nowMs).1.stepPhase hc nowMs nowNs = .ok (c', out)) :
    ∃ cs, CP2 hc c c' cs [] [] := by
  have t3 := CP2.of_CPTr (cs := []) rfl (Client.handleEvents_CPTr hc c nowMs hnp)
  obtain ⟨cs4, q4, t4⟩ := Client.stepPhase_CS hc _ c' nowMs nowNs out t3.np h
  exact ⟨[] ++ cs4, by simpa using t3.trans (CP2.of_CPTr q4 t4)⟩

/-- One API call from a state that is not `pending` (empty buffer). -/
theorem Client.apply_PT2 (hc : HC H) (c c' : Client H) (op : COp) (sent : List (List Nat)) (evs : List CEvent)
    (hnp : c.state.isPending = false) (he : c.eventsOut = []) (h : c.apply hc op = .ok (c', sent, evs)) :
    c'.eventsOut = [] ∧ ∃ cs, PT2 hc c.state c'.state evs cs (trafficOfOps [op]) (sendsOfOps [op]) := by
  have fin : ∀ (x : Client H) cs fr sd, CP2 hc c x cs fr sd → x.eventsOut = [] → PT2 hc c.state x.state [] cs fr sd := by
    intro x cs fr sd ⟨new, e, t⟩ hx
    rw [hx, he] at e
    have : new = [] := by simpa using e.symm
    subst this; exact t
  cases op with
  | step n a =>
    obtain ⟨c1, s1, c2, s2, c4, s4, h1, h2, h4, rfl, -, rfl⟩ := Client.step_phases hc c c' n a sent evs h
    obtain ⟨cs1, q1, t1⟩ := Client.flush_CS hc c c1 s1 hnp h1
    have t1' := CP2.of_CPTr q1 t1
    obtain ⟨cs2, t2⟩ := Client.frames_CP2 hc _ n a c1 [] c2 s2 t1'.np h2
    obtain ⟨cs3, t3⟩ := Client.tail_CP2 hc c2 c4 _ n s4 t2.np h4
    obtain ⟨new, e, t⟩ := (t1'.trans t2).trans t3
    rw [he, List.nil_append] at e
    rw [e]
    exact ⟨rfl, _, by simpa [trafficOfOps, sendsOfOps] using t⟩
  | send d ch m =>
    cases h
    have e' : (c.send hc d ch m).eventsOut = [] := by unfold Client.send; split <;> exact he
    obtain ⟨cs, t⟩ := Client.send_CP2 hc c d ch m hnp
    exact ⟨e', cs, fin _ _ _ _ t e'⟩
  | disconnect m =>
    cases h
    have e' : (c.disconnect m).eventsOut = [] := by unfold Client.disconnect; split <;> exact he
    exact ⟨e', [], fin _ _ _ _ (CP2.of_CPTr rfl (Client.disconnect_CPTr hc c m hnp)) e'⟩
  | flush =>
    simp only [Client.apply] at h
    split at h
    · cases h
    · next c1 s1 hfl =>
      cases h
      have e' : c'.eventsOut = [] := by rw [← he]; exact (Client.flush_events hc c c' sent hfl).1
      obtain ⟨cs, q, t⟩ := Client.flush_CS hc c c' sent hnp hfl
      exact ⟨e', cs, fin _ _ _ _ (CP2.of_CPTr q t) e'⟩

theorem trafficOfOps_cons (op : COp) (ops : List COp) : trafficOfOps (op :: ops) = trafficOfOps [op] ++ trafficOfOps ops := by
  cases op <;> simp [trafficOfOps]

theorem sendsOfOps_cons (op : COp) (ops : List COp) : sendsOfOps (op :: ops) = sendsOfOps [op] ++ sendsOfOps ops := by
  cases op <;> simp [sendsOfOps]

theorem sendsOfOps_append (a b : List COp) : sendsOfOps (a ++ b) = sendsOfOps a ++ sendsOfOps b := by
  induction a with
  | nil => rfl
  | cons op ops ih => rw [List.cons_append, sendsOfOps_cons, sendsOfOps_cons op ops, ih, List.append_assoc]

/-- Whole runs from a state that is not `pending` (empty buffer). -/
theorem Client.run_PT2 (hc : HC H) (ops : List COp) (c c' : Client H) (sent : List (List Nat)) (evs : List CEvent)
    (hnp : c.state.isPending = false) (he : c.eventsOut = []) (h : Client.run hc c ops = .ok (c', sent, evs)) :
    c'.eventsOut = [] ∧ ∃ cs, PT2 hc c.state c'.state evs cs (trafficOfOps ops) (sendsOfOps ops) := by
  induction ops generalizing c sent evs with
  | nil => cases h; exact ⟨he, [], PT2.refl hc hnp⟩
  | cons op ops ih =>
    simp only [Client.run] at h
    split at h
    · cases h
    · next c1 s1 e1 h1 =>
      split at h
      · cases h
      · next c2 s2 e2 h2 =>
        cases h
        obtain ⟨he1, cs1, t1⟩ := Client.apply_PT2 hc c c1 op s1 e1 hnp he h1
        obtain ⟨he2, cs2, t2⟩ := ih c1 s2 e2 t1.tr.np he1 h2
        rw [trafficOfOps_cons, sendsOfOps_cons]
        exact ⟨he2, cs1 ++ cs2, t1.trans t2⟩

end Uflow.Endpoint
