import Uflow.Lemmas.CreditLiveRun

/-!
C11 (credit liveness), part 3: step cadences, the starvation of the pre-F15 fill (`badOps`: round
`rate·dt` to the nearest byte, carry nothing) and concrete states for the non-vacuity examples.
-/

namespace Uflow.CreditLive

open Uflow Uflow.Gen Uflow.Codec Uflow.HalfConn Uflow.HcFrame Uflow.Credit Uflow.CreditBound
open Uflow.Rate (FloatOps)
open Uflow.HcInv (lastNow evTime)

variable {F : Type}

/-! ### step cadences -/

/-- `n` `step`s `dt` nanoseconds apart, the first at `t + dt`. -/
def cadence (dt : Nat) : Nat → Nat → List Ev
  | _, 0 => []
  | t, n+1 => .step (t + dt) :: cadence dt (t + dt) n

theorem cadence_stepsOk (D dt t n : Nat) (h : dt ≤ D) : stepsOk D t (cadence dt t n) = true := by
  induction n generalizing t with
  | zero => rfl
  | succ n ih =>
    simp only [cadence, stepsOk, Bool.and_eq_true, decide_eq_true_eq]
    exact ⟨⟨by omega, by omega⟩, ih _⟩

theorem cadence_evsOk (dt t n : Nat) : HcInv.evsOk t (cadence dt t n) = true := by
  induction n generalizing t with
  | zero => rfl
  | succ n ih =>
    simp only [cadence, HcInv.evsOk, HcInv.evOk, HcInv.evTime, Bool.and_eq_true, decide_eq_true_eq]
    exact ⟨by omega, ih _⟩

theorem cadence_endTime (dt t n : Nat) : endTime t (cadence dt t n) = t + n * dt := by
  induction n generalizing t with
  | zero => simp [cadence, endTime]
  | succ n ih =>
    simp only [cadence, endTime, HcInv.evTime, ih, Nat.add_mul]
    omega

theorem cadence_nSteps (dt t n : Nat) : nSteps (cadence dt t n) = n := by
  induction n generalizing t with
  | zero => rfl
  | succ n ih => simp only [cadence, nSteps, ih]

theorem cadence_noFlush (dt t n : Nat) : ∀ ev ∈ cadence dt t n, ev ≠ .flush := by
  induction n generalizing t with
  | zero => intro ev hev; cases hev
  | succ n ih =>
    intro ev hev
    simp only [cadence, List.mem_cons] at hev
    rcases hev with rfl | hev
    · intro h; cases h
    · exact ih _ ev hev

/-! ### the pre-F15 fill starves -/

/-- `badOps` satisfies `FillLo` for no slack below `0.368` byte on any domain containing the rate
1472 B/s and the step distance 0.25 ms: such a fill credits nothing for `0.368` byte and carries
nothing. -/
theorem badOps_not_fillLo (eps : Nat) (heps : eps < 368000000) (L : FillLo badOps eps)
    (hR : 1472 ≤ L.maxRate) (hD : 250000 ≤ L.maxDt) : False := by
  have h := L.fill 1472 250000 badOps.zero hR hD L.good_zero
  have h1 : (badOps.fillBytes 1472 250000 badOps.zero).1 = 0 := by decide +kernel
  have h2 : (badOps.fillBytes 1472 250000 badOps.zero).2 = badOps.zero := by decide +kernel
  rw [h1, h2] at h
  omega

theorem bad_fill_zero (rate dt f : Nat) (h : rate * dt < 500000000) :
    (badOps.fillBytes rate dt f).1 = 0 := by
  show (((rate * dt + 500000000) / G : Nat) : Int) = 0
  have : (rate * dt + 500000000) / G = 0 := Nat.div_eq_of_lt (by simp only [G]; omega)
  rw [this]; rfl

theorem satAdd_zero_neg (A cap : Int) (hA : A < 0) : min (satAdd A 0) cap < 0 := by
  have h2 : isizeMin < (0 : Int) := by decide
  simp only [satAdd]
  generalize isizeMax = M
  generalize isizeMin = m at h2 ⊢
  omega

/-- With the rounding fill, a ceiling `m` and `step`s at most `D` ns apart with
`m · D < 0.5` byte: one event keeps a negative credit negative and sends nothing. -/
theorem bad_exec_neg (m D : Nat) (hmin : MINIMUM_RATE ≤ m) (hmD : m * D < 500000000)
    (s s1 : State Nat) (ev : Ev) (out : List (List Nat))
    (hle : s.rate.sendRate ≤ s.rate.maxSendRate) (hmax : s.rate.maxSendRate = m)
    (ht : ∀ now, ev = .step now → lastNow s ≤ now ∧ now - lastNow s ≤ D)
    (hA : s.flushAlloc < 0) (h : exec badOps s ev = .ok (s1, out)) :
    s1.rate.sendRate ≤ s1.rate.maxSendRate ∧ s1.rate.maxSendRate = m ∧
    lastNow s1 = evTime (lastNow s) ev ∧ s1.flushAlloc < 0 ∧ out = [] := by
  by_cases hst : ∃ now, ev = .step now
  · obtain ⟨now, rfl⟩ := hst
    obtain ⟨_, ht2⟩ := ht now rfl
    simp only [exec] at h
    generalize hs : HalfConn.step badOps s now = r at h
    cases r with
    | error t => cases h
    | ok s2 =>
      simp only [Except.map, Except.ok.injEq, Prod.mk.injEq] at h
      obtain ⟨rfl, rfl⟩ := h
      obtain ⟨hA2, _, _, _, _, htl, _⟩ := step_frame badOps s s2 now hs
      obtain ⟨_, _, t, fb, r, hrs⟩ := step_core badOps s s2 now hs
      have hmx := Rate.step_maxSendRate hrs
      have hce := Rate.step_ceiling hrs hle (by rw [hmax]; exact hmin)
      refine ⟨by rw [hmx]; exact hce, by rw [hmx]; exact hmax, by simp [lastNow, htl, evTime], ?_,
        rfl⟩
      rw [hA2]
      cases hl : s.timeLastFlushed with
      | none => rw [fill_none badOps s now hl]; exact hA
      | some last =>
        rw [fill_some badOps s now last hl]
        have hln : lastNow s = last := by simp [lastNow, hl]
        rw [hln] at ht2
        have hlt : s.rate.sendRate * (now - last) < 500000000 := by
          have h1 : s.rate.sendRate * (now - last) ≤ m * (now - last) :=
            Nat.mul_le_mul_right _ (by omega)
          have h2 : m * (now - last) ≤ m * D := Nat.mul_le_mul_left _ ht2
          omega
        rw [bad_fill_zero _ _ _ hlt]
        exact satAdd_zero_neg _ _ hA
  · have hns : ∀ now, ev ≠ .step now := fun now he => hst ⟨now, he⟩
    obtain ⟨c1, _, c3, c4, c5, _⟩ := core_eq (core_exec badOps s s1 ev out hns h)
    obtain ⟨a1, a2, _⟩ := exec_alloc badOps s s1 ev out hns h
    have ho := a2 hA
    subst ho
    have het : evTime (lastNow s) ev = lastNow s := by
      cases ev with
      | step now => exact absurd rfl (hns now)
      | _ => rfl
    refine ⟨by rw [c4, c5]; exact hle, by rw [c5]; exact hmax,
      by rw [het]; simp only [lastNow, c1, c3], ?_, rfl⟩
    simp only [bytes_nil] at a1
    omega

/-- **Starvation of the rounding fill over any run**: ceiling `m`, `step`s at most `D` ns apart
with `m · D < 0.5` byte (e.g. 1472 B/s and 0.339 ms), any interleaving of the other operations: a
negative credit stays negative for ever and nothing is ever sent. -/
theorem bad_run_neg (m D : Nat) (hmin : MINIMUM_RATE ≤ m) (hmD : m * D < 500000000)
    (evs : List Ev) (s s' : State Nat) (b : Nat) (c : Int)
    (hle : s.rate.sendRate ≤ s.rate.maxSendRate) (hmax : s.rate.maxSendRate = m)
    (ht : stepsOk D (lastNow s) evs = true) (hA : s.flushAlloc < 0)
    (h : run badOps s evs = .ok (s', b, c)) : s'.flushAlloc < 0 ∧ b = 0 := by
  induction evs generalizing s b c with
  | nil =>
    simp only [run, Except.ok.injEq, Prod.mk.injEq] at h
    obtain ⟨rfl, rfl, rfl⟩ := h
    exact ⟨hA, rfl⟩
  | cons ev rest ih =>
    simp only [run] at h
    generalize hex : exec badOps s ev = r1 at h
    cases r1 with
    | error t => cases h
    | ok v1 =>
      obtain ⟨s1, out⟩ := v1
      simp only at h
      generalize hrun : run badOps s1 rest = r2 at h
      cases r2 with
      | error t => cases h
      | ok v2 =>
        obtain ⟨s2, b2, c2⟩ := v2
        simp only [Except.ok.injEq, Prod.mk.injEq] at h
        obtain ⟨rfl, rfl, rfl⟩ := h
        obtain ⟨ht1, ht2⟩ := stepsOk_cons _ _ ev rest ht
        obtain ⟨h1, h2, h3, h4, rfl⟩ := bad_exec_neg m D hmin hmD s s1 ev out hle hmax ht1 hA hex
        obtain ⟨h5, h6⟩ := ih s1 b2 c2 h1 h2 (by rw [h3]; exact ht2) h4 hrun
        exact ⟨h5, by simp only [bytes_nil]; omega⟩

/-! ### concrete states -/

/-- The state after an event list (the start state if anything traps). -/
def stateAfter (ops : FloatOps Nat) (s0 : State Nat) (evs : List Ev) : State Nat :=
  match HcInv.runEvs ops s0 evs with
  | .ok (s, _) => s
  | .error _ => s0

/-- One packet of two full fragments, a `step` at time 0 and a `flush`: one frame of 1472 bytes
goes out on credit 0 and leaves the credit at `−1472`. -/
def negPre : List Ev := [.send (List.replicate 2896 7) 0 .reliable, .step 0, .flush]

/-- Ceiling 1472 B/s, credit `−1472`, last `step` at time 0. -/
def negState (ops : FloatOps Nat) : State Nat := stateAfter ops (s1472 ops) negPre

theorem badOps_converges : Rate.BisectConverges badOps := .stop (by decide)

theorem badOps_lossOk : HcInv.LossOk badOps := fun _ => rfl

theorem negState_hcInv (ops : FloatOps Nat) (hconv : Rate.BisectConverges ops)
    (hloss : HcInv.LossOk ops) : HcInv.HcInv (negState ops) := by
  obtain ⟨s', out, hr, hi⟩ := HcInv.runEvs_ok ops hconv hloss negPre (s1472 ops)
    (HcInv.hcInv_init ops cfg1472 0 _ (by decide)) (show HcInv.evsOk 0 negPre = true by decide +kernel)
  simp only [negState, stateAfter, hr]
  exact hi

theorem negState_bad_facts : (negState badOps).flushAlloc = -1472 ∧ lastNow (negState badOps) = 0 ∧
    (negState badOps).rate.sendRate ≤ (negState badOps).rate.maxSendRate ∧
    (negState badOps).rate.maxSendRate = 1472 :=
  ⟨by decide +kernel, by decide +kernel, by decide +kernel, by decide +kernel⟩

theorem negState_exact_facts :
    (negState exactOps).flushAlloc = -1472 ∧ lastNow (negState exactOps) = 0 :=
  ⟨by decide +kernel, by decide +kernel⟩

theorem negState_exact_linv (D : Nat) : LInv (exactFillLo 1472 D) 1472 (negState exactOps) where
  floor := by decide +kernel
  le := by decide +kernel
  max := by decide +kernel
  good := show (negState exactOps).flushFrac < G by decide +kernel
  started := ⟨0, by decide +kernel⟩

theorem exactOps_initRate : ∀ rtt, MINIMUM_RATE ≤ exactOps.initRate rtt :=
  fun _ => show 23 ≤ 4380 by decide

end Uflow.CreditLive
