import Uflow.Lemmas.EpSlotEx

/-!
C07 / C09 (server model): the half connection created by the handshake ACK, and the call trace from there.
-/

namespace Uflow.Endpoint

open Uflow.Gen Uflow.Codec Uflow.HalfConn

variable {H : Type}

/-- An accepted SYN records its own fields in the `pending` entry. -/
theorem Server.handleSyn_records (s : Server H) (addr n r p a nowMs : Nat) (hf : s.find addr = none)
    (h1 : s.clients.length < s.cfg.maxTotalConnections) (h2 : s.activeCount < s.cfg.maxActiveConnections)
    (h3 : ¬ a < s.cfg.ep.maxPacketSize) (h4 : ¬ p > s.cfg.ep.maxReceiveAlloc) :
    ∃ c, (s.handleSyn addr PROTOCOL_VERSION n r p a nowMs).1.find addr = some c ∧
      c.state = .pending (s.rng.next.1 % 2^32) n r a
        (encode (.synAck n (s.rng.next.1 % 2^32) (u32 s.cfg.ep.maxReceiveRate) (u32 s.cfg.ep.maxPacketSize)
          (u32 s.cfg.ep.maxReceiveAlloc))) ∧
      (s.handleSyn addr PROTOCOL_VERSION n r p a nowMs).1.cfg = s.cfg := by
  have hfull : ¬ (s.clients.length ≥ s.cfg.maxTotalConnections ∨ s.activeCount ≥ s.cfg.maxActiveConnections) := by omega
  unfold Server.handleSyn
  rw [hf]
  simp only [ne_eq, not_true_eq_false, if_false, hfull, h3, h4]
  rw [Server.find_eq]
  show ∃ c, findA (s.clients ++ [_]) addr = some c ∧ _
  rw [findA_append, ← Server.find_eq, hf]
  simp

/-- The handshake ACK on a `pending` entry with the matching nonce. -/
theorem Server.handleFrame_hsAck_pending (hc : HC H) (s s' : Server H) (hw : s.WF) (a na nowMs nowNs : Nat)
    (out : List (Nat × List Nat)) (c : RClient H) (ln rn r al : Nat) (rb : List Nat)
    (hf : s.find a = some c) (hst : c.state = .pending ln rn r al rb)
    (h : s.handleFrame hc a (.hsAck na) nowMs nowNs = .ok (s', out)) :
    (na = ln ∧
      s'.find a = some { c with state := (.active (hc.new (hcConfig s.cfg.ep ln rn r al) nowNs)
        (nowMs + s.cfg.ep.activeTimeoutMs) none) } ∧
      s'.eventsOut = s.eventsOut ++ [SEvent.connect a] ∧ out = [] ∧ (∀ b, b ≠ a → s'.find b = s.find b) ∧ s'.WF) ∨
    (na ≠ ln ∧ s' = s ∧ out = []) := by
  have hw' := (Server.handleFrame_STr hc s s' hw a (.hsAck na) nowMs nowNs out h).choose_spec.1.wf
  unfold Server.handleFrame at h
  cases h
  by_cases hna : na = ln
  · obtain ⟨x1, x2, x3⟩ := Server.handleHsAck_deadline hc s hw a na nowMs nowNs c ln rn r al rb hf hst hna
    exact Or.inl ⟨hna, x1, x2, rfl, x3, hw'⟩
  · exact Or.inr ⟨hna, by simp [Server.handleHsAck, hf, hst, hna], rfl⟩

/-- The rest of a `step` after the datagram loop has reached `(x1, o)` with `post` still to come, seen from `a`. -/
theorem Server.step_rest_AT (hc : HC H) (a : Nat) (s x1 s2 s4 s6 : Server H) (nowNs : Nat) (post o o2 o6 : List (Nat × List Nat))
    (hw1 : x1.WF) (p2 : post.foldlM (Server.frameStep hc (s.nowMs nowNs) nowNs) (x1, o) = .ok (s2, o2))
    (p4 : (Server.runTimers (s2.timers.size * 12 + 16) s2 (s.nowMs nowNs) []).1.activeTimeouts hc (s.nowMs nowNs) = .ok s4)
    (p6 : ({ s4 with
          active := s4.active.filter fun cid => match s4.byCid cid with
            | some c => c.state.isActive
            | none => false,
          detached := s4.detached.filter fun c =>
            (s4.active.filter fun cid => match s4.byCid cid with
              | some c => c.state.isActive
              | none => false).contains c.cid || s4.timers.any (·.cid = c.cid) } : Server H).stepActive hc (s.nowMs nowNs) nowNs
        = .ok (s6, o6)) :
    ∃ cs, AT hc a x1 s6 cs (trafficAt a post) [] := by
  obtain ⟨cs2, t2⟩ := Server.frames_AT hc a (s.nowMs nowNs) nowNs post x1 o s2 o2 hw1 p2
  have t3 := Server.runTimers_AT hc a (s.nowMs nowNs) (s2.timers.size * 12 + 16) s2 [] t2.1
  obtain ⟨cs4, t4⟩ := Server.activeTimeouts_AT hc a _ s4 t3.1 (s.nowMs nowNs) p4
  have key := fun (det : List (RClient H)) (hdet : det.Sublist s4.detached) => Server.retain_STr s4 t4.1 det hdet
  obtain ⟨cs6, t6⟩ := Server.stepActive_AT hc a _ s6 (key _ List.filter_sublist).wf _ nowNs o6 p6
  have t6' : AT hc a s4 s6 cs6 [] [] := t6
  exact ⟨cs2 ++ [] ++ (cs4 ++ cs6), by simpa using (t2.trans t3).trans (t4.trans t6')⟩

/-- The step in which the handshake ACK of `a` is accepted, from the ACK on. `xa` is the state the datagram loop
has reached before the ACK datagram (after the step's flush and the datagrams `pre`). -/
theorem Server.step_from_handshake (hc : HC H) (a : Nat) (s s' : Server H) (nowNs : Nat)
    (pre : List (Nat × List Nat)) (b : List Nat) (post sent : List (Nat × List Nat)) (evs : List SEvent)
    (h : s.step hc nowNs (pre ++ (a, b) :: post) = .ok (s', sent, evs))
    (s1 : Server H) (o1 : List (Nat × List Nat)) (xa : Server H) (oa : List (Nat × List Nat))
    (h1 : s.flushActive hc = .ok (s1, o1))
    (hpre : pre.foldlM (Server.frameStep hc (s.nowMs nowNs) nowNs) (s1, []) = .ok (xa, oa)) (hwa : xa.WF)
    (c : RClient H) (ln rn r al : Nat) (rb : List Nat) (hf : xa.find a = some c)
    (hst : c.state = .pending ln rn r al rb) (hb : decodesTo b (.hsAck ln)) :
    ∃ (after : List SEvent) (cs : List HCall), evs = xa.eventsOut ++ SEvent.connect a :: after ∧
      s'.WF ∧ s'.eventsOut = [] ∧
      (SEvent.connect a ∈ after ∨
        OT hc (some (hc.new (hcConfig xa.cfg.ep ln rn r al) nowNs)) (s'.hcAt a) (recvAt a after) cs (trafficAt a post) []) := by
  obtain ⟨s1', o1', s2, o2, s4, s6, o6, p1, p2, p4, p6, rfl, rfl, -⟩ := Server.step_phases hc s s' nowNs _ sent evs h
  rw [h1] at p1; cases p1
  rw [Server.handleFrames_eq, List.foldlM_append, hpre] at p2
  simp only [bind, Except.bind, List.foldlM_cons] at p2
  split at p2
  · cases p2
  next acc hacc =>
  obtain ⟨xb, ob⟩ := acc
  unfold Server.frameStep at hacc
  unfold decodesTo at hb
  simp only [hb] at hacc
  split at hacc
  · cases hacc
  next xb' out hfb =>
  cases hacc
  rcases Server.handleFrame_hsAck_pending hc xa xb hwa a ln _ nowNs out c ln rn r al rb hf hst hfb with
    ⟨-, fb, eb, -, -, wb⟩ | ⟨hne, -, -⟩
  · obtain ⟨cs, w, after, e, cc⟩ := Server.step_rest_AT hc a s xb s2 s4 s6 nowNs post _ o2 o6 wb p2 p4 p6
    have hh : ({ s6 with eventsOut := [] } : Server H).hcAt a = s6.hcAt a := rfl
    refine ⟨after, cs, by rw [e, eb, List.append_assoc]; rfl, w.congr rfl rfl rfl (fun _ h => h), rfl, ?_⟩
    rw [hh, ← Server.hcAt_active fb rfl]
    exact cc
  · exact absurd rfl hne

end Uflow.Endpoint
