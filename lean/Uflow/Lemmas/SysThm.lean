import Uflow.Lemmas.SysInv
import Uflow.Lemmas.SysList

/-!
The composed system (C01Sys), part 6: the system run projects to a sender run `runH` and a receiver
run `runT`; runs without acknowledgements; the no-skip argument for Reliable packets.
-/

namespace Uflow.Sys

open Uflow Uflow.Gen Uflow.Codec Uflow.PSend Uflow.PRecv Uflow.Frag

/-! ### projections of a system run -/

theorem runH_append (ops ops2 : List Props.C20.Op) : ∀ (s : PSend.State) (h : Hist) (s1 : PSend.State) (h1 : Hist),
    runH s h ops = .ok (s1, h1) → runH s h (ops ++ ops2) = runH s1 h1 ops2 := by
  induction ops with
  | nil =>
    intro s h s1 h1 hr
    simp only [runH, Except.ok.injEq, Prod.mk.injEq] at hr
    obtain ⟨rfl, rfl⟩ := hr
    rfl
  | cons op rest ih =>
    intro s h s1 h1 hr
    simp only [runH, List.cons_append] at hr ⊢
    cases hs : stepH s h op with
    | error t => rw [hs] at hr; cases hr
    | ok r =>
      obtain ⟨s2, h2⟩ := r
      rw [hs] at hr
      exact ih s2 h2 s1 h1 hr

theorem runH_snoc (ops : List Props.C20.Op) (op : Props.C20.Op) (s : PSend.State) (h : Hist) (s1 : PSend.State) (h1 : Hist)
    (r : PSend.State × Hist) (hr : runH s h ops = .ok (s1, h1)) (hs : stepH s1 h1 op = .ok r) :
    runH s h (ops ++ [op]) = .ok (r.1, r.2) := by
  rw [runH_append ops [op] s h s1 h1 hr]
  simp only [runH, hs]

theorem runT_append (ops ops2 : List PRecv.Op) : ∀ (g g1 : G),
    runT g ops = .ok g1 → runT g (ops ++ ops2) = runT g1 ops2 := by
  induction ops with
  | nil => intro g g1 hr; cases hr; rfl
  | cons op rest ih =>
    intro g g1 hr
    rw [List.cons_append, runT]
    rw [runT] at hr
    cases hs : stepT g op with
    | error t => rw [hs] at hr; cases hr
    | ok g2 =>
      rw [hs, bindR_ok] at hr
      rw [bindR_ok]
      exact ih g2 g1 hr

theorem runT_snoc (ops : List PRecv.Op) (op : PRecv.Op) (g g1 g2 : G) (hr : runT g ops = .ok g1)
    (hs : stepT g1 op = .ok g2) : runT g (ops ++ [op]) = .ok g2 := by
  rw [runT_append ops [op] g g1 hr, runT, hs, bindR_ok, runT]

/-- No `resync` step in a schedule. -/
def NoResync (ops : List SOp) : Prop := ∀ op ∈ ops, ∀ k, op ≠ .resync k

/-- The sender and the receiver of a system state are reachable by plain sender / receiver runs; the
receiver run contains a `resynchronize` call only if `nr` fails (`nr`: the system schedule so far had no
`resync` step). -/
def Reach (w W b a m : Nat) (nr : Prop) (s : Sys) : Prop :=
  (∃ sops, runH (PSend.init w b a) {} sops = .ok (s.snd, s.hist)) ∧
  (∃ rops, (nr → ∀ op ∈ rops, ∀ id, op ≠ .resync id) ∧ runT (initG W b m) rops = .ok s.rcv)

theorem reach_init (w W b a m : Nat) : Reach w W b a m True (initS w W b a m) :=
  ⟨⟨[], rfl⟩, ⟨[], fun _ _ h => (by cases h), rfl⟩⟩

theorem reach_step {w W b a m : Nat} {nr : Prop} {s s' : Sys} (h : Reach w W b a m nr s) (op : SOp)
    (hs : stepS s op = .ok s') : Reach w W b a m (nr ∧ ∀ k, op ≠ .resync k) s' := by
  obtain ⟨⟨sops, hso⟩, ⟨rops, hnr, hro⟩⟩ := h
  have hnr' : (nr ∧ ∀ k, op ≠ .resync k) → ∀ op ∈ rops, ∀ id, op ≠ .resync id := fun hn => hnr hn.1
  have hmem : ∀ (x : PRecv.Op), (∀ id, x ≠ .resync id) → (nr ∧ ∀ k, op ≠ .resync k) →
      ∀ op ∈ rops ++ [x], ∀ id, op ≠ .resync id := by
    intro x hx hn op hm
    rcases List.mem_append.mp hm with hm | hm
    · exact hnr hn.1 op hm
    · rw [List.mem_singleton.mp hm]; exact hx
  cases op with
  | enq d c m' f =>
    simp only [stepS] at hs
    split at hs
    · cases hr : stepH s.snd s.hist (.enq d c m' f) with
      | error t => rw [hr] at hs; cases hs
      | ok r =>
        rw [hr, bindR_ok] at hs
        cases hs
        exact ⟨⟨_, runH_snoc sops _ _ _ _ _ r hso hr⟩, ⟨rops, hnr', hro⟩⟩
    · cases hs; exact ⟨⟨sops, hso⟩, ⟨rops, hnr', hro⟩⟩
  | emit f =>
    simp only [stepS] at hs
    cases hr : stepH s.snd s.hist (.emit f) with
    | error t => rw [hr] at hs; cases hs
    | ok r =>
      rw [hr, bindR_ok] at hs
      cases hs
      exact ⟨⟨_, runH_snoc sops _ _ _ _ _ r hso hr⟩, ⟨rops, hnr', hro⟩⟩
  | deliver k =>
    simp only [stepS] at hs
    split at hs
    · cases hs; exact ⟨⟨sops, hso⟩, ⟨rops, hnr', hro⟩⟩
    · rename_i i d hk
      split at hs
      · cases hg : stepT s.rcv (.dg d) with
        | error t => rw [hg] at hs; cases hs
        | ok g =>
          rw [hg, bindR_ok] at hs
          cases hs
          exact ⟨⟨sops, hso⟩, ⟨rops ++ [.dg d], hmem _ (fun _ hc => (by cases hc)),
            runT_snoc rops _ _ _ _ hro hg⟩⟩
      · cases hs; exact ⟨⟨sops, hso⟩, ⟨rops, hnr', hro⟩⟩
  | recv =>
    simp only [stepS] at hs
    cases hg : stepT s.rcv .recv with
    | error t => rw [hg] at hs; cases hs
    | ok g =>
      rw [hg, bindR_ok] at hs
      cases hs
      exact ⟨⟨sops, hso⟩, ⟨rops ++ [.recv], hmem _ (fun _ hc => (by cases hc)),
        runT_snoc rops _ _ _ _ hro hg⟩⟩
  | ack k =>
    simp only [stepS] at hs
    split at hs
    · cases hs; exact ⟨⟨sops, hso⟩, ⟨rops, hnr', hro⟩⟩
    · rename_i a' rb hk
      split at hs
      · cases hr : stepH s.snd s.hist (.ack rb) with
        | error t => rw [hr] at hs; cases hs
        | ok r =>
          rw [hr, bindR_ok] at hs
          cases hs
          exact ⟨⟨_, runH_snoc sops _ _ _ _ _ r hso hr⟩, ⟨rops, hnr', hro⟩⟩
      · cases hs; exact ⟨⟨sops, hso⟩, ⟨rops, hnr', hro⟩⟩
  | sync =>
    simp only [stepS] at hs
    split at hs
    · cases hs; exact ⟨⟨sops, hso⟩, ⟨rops, hnr', hro⟩⟩
    · cases hs; exact ⟨⟨sops, hso⟩, ⟨rops, hnr', hro⟩⟩
  | resync k =>
    simp only [stepS] at hs
    split at hs
    · cases hs; exact ⟨⟨sops, hso⟩, ⟨rops, hnr', hro⟩⟩
    · rename_i n id hk
      split at hs
      · cases hg : stepT s.rcv (.resync id) with
        | error t => rw [hg] at hs; cases hs
        | ok g =>
          rw [hg, bindR_ok] at hs
          cases hs
          exact ⟨⟨sops, hso⟩, ⟨rops ++ [.resync id], fun hn => absurd rfl (hn.2 k),
            runT_snoc rops _ _ _ _ hro hg⟩⟩
      · cases hs; exact ⟨⟨sops, hso⟩, ⟨rops, hnr', hro⟩⟩

theorem reach_run {w W b a m : Nat} (ops : List SOp) : ∀ {nr : Prop} {s s' : Sys}, Reach w W b a m nr s →
    runS s ops = .ok s' → Reach w W b a m (nr ∧ NoResync ops) s' := by
  induction ops with
  | nil =>
    intro nr s s' h hr; cases hr
    exact ⟨h.1, by obtain ⟨rops, h1, h2⟩ := h.2; exact ⟨rops, fun hn => h1 hn.1, h2⟩⟩
  | cons op rest ih =>
    intro nr s s' h hr
    rw [runS] at hr
    cases hs : stepS s op with
    | error t => rw [hs] at hr; cases hr
    | ok s1 =>
      rw [hs, bindR_ok] at hr
      obtain ⟨h1, rops, h2, h3⟩ := ih (reach_step h op hs) hr
      refine ⟨h1, rops, ?_, h3⟩
      intro hn
      exact h2 ⟨⟨hn.1, hn.2 op List.mem_cons_self⟩, fun o ho => hn.2 o (List.mem_cons_of_mem _ ho)⟩

/-! ### runs without acknowledgements -/

def isAck : SOp → Bool
  | .ack _ => true
  | _ => false

/-- Without acknowledgements nothing leaves the send window. -/
theorem noack_step {b0 w W M : Nat} (hw : w < 2^20) {s s' : Sys} (h : SInv b0 w W M s)
    (hn : s.snd.win.length = s.hist.emitted.length) (op : SOp) (hop : isAck op = false)
    (hs : stepS s op = .ok s') : s'.snd.win.length = s'.hist.emitted.length := by
  cases op with
  | enq d c m f =>
    simp only [stepS] at hs
    split at hs
    · simp only [stepH, bindR_ok] at hs
      cases hs
      exact hn
    · cases hs; exact hn
  | emit f =>
    simp only [stepS] at hs
    cases he : emit s.snd f with
    | error t =>
      have : stepH s.snd s.hist (.emit f) = .error t := by simp only [stepH, he]
      rw [this] at hs; cases hs
    | ok r =>
      obtain ⟨s1, o⟩ := r
      cases o with
      | none =>
        obtain ⟨hst, -, hwin, -⟩ := sndInv_emit_none hw h.snd f s1 he
        rw [hst, bindR_ok] at hs
        cases hs
        show s1.win.length = s.hist.emitted.length
        rw [hwin]; exact hn
      | some pr =>
        obtain ⟨p, rs⟩ := pr
        obtain ⟨hst, -, hwin, -⟩ := sndInv_emit_some hw h.snd f s1 p rs he
        rw [hst, bindR_ok] at hs
        cases hs
        show s1.win.length = (s.hist.emitted ++ [mkEmitted s.snd f p]).length
        rw [hwin, List.length_append, List.length_singleton, hn]
  | deliver k =>
    simp only [stepS] at hs
    split at hs
    · cases hs; exact hn
    · split at hs
      · cases hg : stepT s.rcv (.dg _) with
        | error t => rw [hg] at hs; cases hs
        | ok g => rw [hg, bindR_ok] at hs; cases hs; exact hn
      · cases hs; exact hn
  | recv =>
    simp only [stepS] at hs
    cases hg : stepT s.rcv .recv with
    | error t => rw [hg] at hs; cases hs
    | ok g => rw [hg, bindR_ok] at hs; cases hs; exact hn
  | ack k => cases hop
  | sync =>
    simp only [stepS] at hs
    split at hs
    · cases hs; exact hn
    · cases hs; exact hn
  | resync k =>
    simp only [stepS] at hs
    split at hs
    · cases hs; exact hn
    · split at hs
      · cases hg : stepT s.rcv (.resync _) with
        | error t => rw [hg] at hs; cases hs
        | ok g => rw [hg, bindR_ok] at hs; cases hs; exact hn
      · cases hs; exact hn

theorem noack_run {b0 w W M : Nat} (hW : WOk W) (hw : w < 2^20) (ops : List SOp) :
    ∀ {s s' : Sys}, SInv b0 w W M s → s.snd.win.length = s.hist.emitted.length →
      (∀ op ∈ ops, isAck op = false) → runS s ops = .ok s' →
      s'.snd.win.length = s'.hist.emitted.length := by
  induction ops with
  | nil => intro s s' _ hn _ hr; cases hr; exact hn
  | cons op rest ih =>
    intro s s' h hn hops hr
    rw [runS] at hr
    cases hs : stepS s op with
    | error t => rw [hs] at hr; cases hr
    | ok s1 =>
      rw [hs, bindR_ok] at hr
      exact ih (sinv_step hW hw h op hs) (noack_step hw h hn op (hops op List.mem_cons_self) hs)
        (fun o ho => hops o (List.mem_cons_of_mem _ ho)) hr

/-! ### a Reliable packet is not skipped on its channel -/

/-- The induction behind `C02_sys_no_skip`, over the position of `e` in the log. -/
theorem no_skip_aux {b0 w W M : Nat} (hw : w ≤ 2^16) {s : Sys} (h : SInv b0 w W M s) :
    ∀ (n : Nat) (l1 : List LogE) (e : LogE) (l2 : List LogE), l1.length = n → s.rcv.log = l1 ++ e :: l2 →
      ∀ (j : Nat) (x : Emitted), s.hist.emitted[j]? = some x → x.mode = .reliable →
        x.channelId = e.chan → j < e.uid → (∃ e' ∈ l1, e'.uid = j) ∨ j < e.wb := by
  intro n
  induction n using Nat.strongRecOn with
  | _ n ih =>
    intro l1 e l2 hlen hl j x hx hrel hxc hj
    have hmem : e ∈ s.rcv.log := by rw [hl]; simp
    obtain ⟨p, hp, hc1, hc2, -, -⟩ := h.log e hmem
    obtain ⟨-, em, hem, -, e2, -, -, e5, -⟩ := h.snd.plink e.uid p hp
    obtain ⟨-, l2', l3', -, -⟩ := h.snd.hinv.leads e.uid em hem
    have hbase := h.logbase e hmem em hem
    have huid : em.uid = e.uid := (h.snd.hinv.ids e.uid em hem).1
    generalize hout : pidSub em.sequenceId em.baseAt = out at *
    rcases Nat.lt_or_ge out (e.uid - j) with hfar | hnear
    · right; omega
    · obtain ⟨a1, a2, a3, a4⟩ := l2'.exact (by omega)
      have hP : relChanP em.channelId x := ⟨hrel, by rw [hxc, hc1, e2]⟩
      have hne : em.channelParentLead ≠ 0 := by
        intro h0
        exact (a3.mp h0) j x hx hj hnear hP
      obtain ⟨y, hy, -, hnone⟩ := a4 hne
      have hjle : j ≤ e.uid - em.channelParentLead := by
        rcases Nat.lt_or_ge (e.uid - em.channelParentLead) j with hlt | hge
        · exact absurd hP (hnone j x hx hlt hj)
        · exact hge
      have hcpl : e.cpl = em.channelParentLead := by rw [hc2, e5]
      -- the receiver's condition
      have hpar := h.rcv.gi.gpar
      rw [hl, List.reverse_append, List.reverse_cons, List.append_assoc] at hpar
      have hcond := parOkR_split l2.reverse e l1.reverse hpar (by rw [hcpl]; exact hne)
      rcases hcond with hb | ⟨e', he', hch, hle⟩
      · right; omega
      · have he'1 : e' ∈ l1 := List.mem_reverse.mp he'
        have hord := h.rcv.gi.gord
        rw [hl, List.pairwise_append] at hord
        have hlt' : e'.uid < e.uid := hord.2.2 e' he'1 e List.mem_cons_self hch
        rcases Nat.lt_or_ge j e'.uid with hjlt | hjge
        · obtain ⟨l1a, l1b, hsplit⟩ := List.append_of_mem he'1
          have hl' : s.rcv.log = l1a ++ e' :: (l1b ++ e :: l2) := by rw [hl, hsplit]; simp
          have := ih l1a.length (by rw [← hlen, hsplit]; simp) l1a e' _ rfl hl' j x hx hrel
            (by rw [hxc, hch]) hjlt
          rcases this with ⟨e'', he'', hu⟩ | hwb
          · left
            exact ⟨e'', by rw [hsplit]; exact List.mem_append.mpr (Or.inl he''), hu⟩
          · right
            have hmono := h.wbmono
            rw [hl, List.pairwise_append] at hmono
            have := hmono.2.2 e' he'1 e List.mem_cons_self
            omega
        · left
          exact ⟨e', he'1, by omega⟩

/-! ### the receive window waits for Reliable packets -/

theorem off_arith (b0 adv j : Nat) (h1 : adv ≤ j) (h2 : j - adv < 2^20) :
    pidSub (pidAdd b0 j) ((b0 + adv) % 2^20) = j - adv := by
  simp only [pidSub, pidAdd, PACKET_ID_SPAN]
  omega

/-- A `receive` moves the window base past a Reliable emitted packet only if that packet has been
completely received (its slot has the entry flag). -/
theorem window_waits {b0 w W M : Nat} (hW : WOk W) (hw : w ≤ 2^16) {s s' : Sys} (h : SInv b0 w W M s)
    (hs : stepS s .recv = .ok s') (j : Nat) (x : Emitted) (hx : s.hist.emitted[j]? = some x)
    (hrel : x.mode = .reliable) (h1 : s.rcv.adv ≤ j) (h2 : j < s'.rcv.adv) :
    (lget s.rcv.st.slots (wi W (pidAdd b0 j))).entryFlag = true := by
  simp only [stepS] at hs
  cases hg : stepT s.rcv .recv with
  | error t => rw [hg] at hs; cases hs
  | ok g =>
    rw [hg, bindR_ok] at hs
    cases hs
    rw [stepT_recv] at hg
    cases hr : receiveT s.rcv.st with
    | error t => rw [hr] at hg; cases hg
    | ok pr =>
      rw [hr, bindR_ok] at hg
      cases hg
      have h2' : j < s.rcv.adv + pidSub pr.1.baseId s.rcv.st.baseId := h2
      have hr' : receiveT s.rcv.st = .ok (pr.1, pr.2) := hr
      have hjust := receiveT_just hW h.rcv.inv h.rcv.ord h.rcv.gi hr'
      have hadv : s.rcv.adv ≤ s.pend.length := by rw [h.snd.plen]; exact h.hi
      obtain ⟨-, -, -, hδ⟩ := receiveT_cinv hW h.rcv.inv h.rcv.ord h.rcv.gi h.cinv hadv hr'
      have hWle := hW.le
      have hoff := off_arith b0 s.rcv.adv j h1 (by omega)
      rw [← h.rcv.gi.gbase] at hoff
      obtain ⟨v, v1, v2, v3, v4, v5⟩ := hjust (pidAdd b0 j) (PRecv.pidAdd_lt _ _) (by rw [hoff]; omega)
      rw [hoff] at v2 v5
      obtain ⟨pv, hpv, hwpl⟩ := (h.cinv v v1 (by omega)).entry v4
      rcases Nat.lt_or_ge (j - s.rcv.adv) (pidSub v s.rcv.st.baseId) with hgt | hle
      · exfalso
        generalize hiv : s.rcv.adv + pidSub v s.rcv.st.baseId = iv at hpv
        obtain ⟨-, ev, hev, -, -, -, ewpl, -, -⟩ := h.snd.plink iv pv hpv
        obtain ⟨l1, -, l3, -, -⟩ := h.snd.hinv.leads iv ev hev
        have hb := h.snd.ebase ev (List.mem_of_getElem? hev)
        have huid : ev.uid = iv := (h.snd.hinv.ids iv ev hev).1
        have hlo := h.lo
        generalize pidSub ev.sequenceId ev.baseAt = out at *
        obtain ⟨-, a2, a3, a4⟩ := l1.exact (by omega)
        rw [hwpl, ← ewpl] at v5
        rcases Nat.lt_or_ge out (iv - j) with hfar | hnear
        · omega
        · have hne : ev.windowParentLead ≠ 0 := by
            intro h0
            exact (a3.mp h0) j x hx (by omega) hnear hrel
          obtain ⟨y, -, -, hnone⟩ := a4 hne
          have : j ≤ iv - ev.windowParentLead := by
            rcases Nat.lt_or_ge (iv - ev.windowParentLead) j with hlt | hge
            · exact absurd hrel (hnone j x hx hlt (by omega))
            · exact hge
          omega
      · have : v = pidAdd b0 j :=
          id_eq_of_off v _ s.rcv.st.baseId v1 (PRecv.pidAdd_lt _ _) (by rw [hoff]; omega)
        rw [← this]; exact v4

end Uflow.Sys
