import Uflow.Lemmas.HcInvFq
import Uflow.Lemmas.FrameQAckGroup
import Uflow.Lemmas.HcSysDefs

/-!
C01Hc (frame-level acknowledgements), part 3: the sender's frame log (`FrameQ.State.frames`) and the
wire. `FqW wire pend fq`: every fragment reference `(uid, fid)` stored with a logged frame names a
fragment datagram carried by a data frame on the wire whose frame id is the id of that log entry.
Preserved by `push` (with the frame just put on the wire), `cull` (`forget_frames`,
`advance_transfer_window`), `acknowledge_group` and the feedback functions.
-/

namespace Uflow.HcFrm

open Uflow Uflow.Gen Uflow.Codec Uflow.FrameQ Uflow.PSend Uflow.Rate

/-- `d` is the datagram of the fragment `r = (uid, fid)` of the emission history. -/
def RefDg (pend : List Pending) (r : Nat × Nat) (d : Datagram) : Prop :=
  ∃ p, pend[r.1]? = some p ∧ p.datagram r.2 = .ok d

/-- A data frame with frame id `X` on the wire carries the fragment `r`, and the frame was emitted
after the packet of `r` (`wt`: for every frame of the wire, the number of packets that had been emitted
when the `flush` that emitted it returned). -/
def RefOn (wire : List (List Nat)) (wt : List Nat) (pend : List Pending) (X : Nat) (r : Nat × Nat) : Prop :=
  ∃ (j : Nat) (bytes : List Nat) (T : Nat), wire[j]? = some bytes ∧ wt[j]? = some T ∧ r.1 < T ∧
    ∃ n dgs, decode bytes = some (.data X n dgs) ∧ ∃ d ∈ dgs, RefDg pend r d

theorem RefDg.mono {pend : List Pending} {r : Nat × Nat} {d : Datagram} (h : RefDg pend r d)
    (l : List Pending) : RefDg (pend ++ l) r d := by
  obtain ⟨p, hp, hd⟩ := h
  refine ⟨p, ?_, hd⟩
  rw [List.getElem?_append_left (List.getElem?_eq_some_iff.mp hp).1]; exact hp

theorem RefOn.mono {wire : List (List Nat)} {wt : List Nat} {pend : List Pending} {X : Nat} {r : Nat × Nat}
    (h : RefOn wire wt pend X r) (w2 : List (List Nat)) (t2 : List Nat) (l : List Pending) :
    RefOn (wire ++ w2) (wt ++ t2) (pend ++ l) X r := by
  obtain ⟨j, b, T, hb, ht, hlt, n, dgs, hd, d, hdm, hr⟩ := h
  refine ⟨j, b, T, ?_, ?_, hlt, n, dgs, hd, d, hdm, hr.mono l⟩
  · rw [List.getElem?_append_left (List.getElem?_eq_some_iff.mp hb).1]; exact hb
  · rw [List.getElem?_append_left (List.getElem?_eq_some_iff.mp ht).1]; exact ht

/-- The frame log relative to the wire. -/
structure FqW (wire : List (List Nat)) (wt : List Nat) (pend : List Pending) (fq : FrameQ.State) : Prop where
  next : wsub32 fq.logNext fq.logBase = fq.frames.length
  refs : ∀ k e, fq.frames[k]? = some e → ∀ r ∈ e.refs, RefOn wire wt pend (wadd32 fq.logBase k) r

theorem fqW_init (wire : List (List Nat)) (wt : List Nat) (pend : List Pending) (size tail base : Nat) :
    FqW wire wt pend (FrameQ.init size tail base) := by
  refine ⟨?_, ?_⟩
  · show wsub32 base base = 0
    unfold wsub32; omega
  · intro k e he
    simp [FrameQ.init] at he

theorem FqW.mono {wire : List (List Nat)} {wt : List Nat} {pend : List Pending} {fq : FrameQ.State}
    (h : FqW wire wt pend fq) (w2 : List (List Nat)) (t2 : List Nat) (l : List Pending) :
    FqW (wire ++ w2) (wt ++ t2) (pend ++ l) fq :=
  ⟨h.next, fun k e he r hr => (h.refs k e he r hr).mono w2 t2 l⟩

/-- Only the log fields matter. -/
theorem FqW.congr {wire : List (List Nat)} {wt : List Nat} {pend : List Pending} {fq fq' : FrameQ.State}
    (h : FqW wire wt pend fq)
    (h1 : fq'.logNext = fq.logNext) (h2 : fq'.logBase = fq.logBase) (h3 : fq'.frames = fq.frames) :
    FqW wire wt pend fq' :=
  ⟨by rw [h1, h2, h3]; exact h.next, by rw [h2, h3]; exact h.refs⟩

/-! ### `push` -/

theorem push_arith (L B len : Nat) (h : wsub32 L B = len) :
    wsub32 (wadd32 L 1) B = (len + 1) % 2^32 ∧ wadd32 B len = L % 2^32 := by
  unfold wsub32 wadd32 at *; omega

/-- `FrameQ.push` of a frame whose references are carried by a data frame on the wire with frame id
`logNext`. (If the queue does not accept the frame nothing changes.) -/
theorem FqW.push {wire : List (List Nat)} {wt : List Nat} {pend : List Pending} {fq : FrameQ.State}
    (h : FqW wire wt pend fq)
    (size now : Nat) (refs : List (Nat × Nat)) (nonce : Bool)
    (hsmall : fq.frames.length + 1 < 2^32)
    (hr : ∀ r ∈ refs, RefOn wire wt pend (fq.logNext % 2^32) r) :
    FqW wire wt pend (FrameQ.push fq size now refs nonce) := by
  unfold FrameQ.push
  split
  · obtain ⟨a1, a2⟩ := push_arith fq.logNext fq.logBase fq.frames.length h.next
    refine ⟨?_, ?_⟩
    · show wsub32 (wadd32 fq.logNext 1) fq.logBase = (fq.frames ++ [_]).length
      rw [a1, List.length_append, List.length_singleton, Nat.mod_eq_of_lt hsmall]
    · intro k e he r hre
      have he' := he
      change (fq.frames ++ [_])[k]? = some e at he'
      show RefOn wire wt pend (wadd32 fq.logBase k) r
      rcases Nat.lt_or_ge k fq.frames.length with hlt | hge
      · rw [List.getElem?_append_left hlt] at he'
        exact h.refs k e he' r hre
      · rw [List.getElem?_append_right hge] at he'
        have hk : k - fq.frames.length = 0 := by
          rcases Nat.eq_zero_or_pos (k - fq.frames.length) with h0 | hpos
          · exact h0
          · rw [List.getElem?_eq_none (by simp; omega)] at he'; cases he'
        rw [hk] at he'
        simp only [List.getElem?_cons_zero, Option.some.injEq] at he'
        subst he'
        have : k = fq.frames.length := by omega
        rw [this, a2]
        exact hr r hre
  · exact h

theorem bitfieldSize_le (bits : Nat) : bitfieldSize bits ≤ 32 := by
  unfold bitfieldSize
  split
  · rename_i i hi
    have := List.mem_of_find?_eq_some hi
    simp only [List.mem_reverse, List.mem_range] at this
    omega
  · omega

/-! ### `cull` and its callers -/

theorem cullG_le (ac : FrameQ.State → Option Nat → Cb → List Interval → R (List Interval))
    (adv : Reorder → Nat → R (Reorder × Cb)) (can : Reorder → Nat → Bool) (d : Nat → Nat → Nat)
    (s s' : FrameQ.State) (nb : Nat) (rtt : Option Nat) (h : cullG ac adv can d s nb rtt = .ok s') :
    d nb s.logBase ≤ s.frames.length := by
  unfold cullG at h
  simp only [] at h
  by_cases hcan : can s.reorder nb = true
  · rw [if_pos hcan] at h
    cases hadv : adv s.reorder nb with
    | error t => rw [hadv] at h; cases h
    | ok v =>
      obtain ⟨r', cb⟩ := v
      rw [hadv] at h
      simp only [] at h
      cases hl : ac s rtt cb s.intervals with
      | error t => rw [hl] at h; cases h
      | ok l =>
        rw [hl] at h
        simp only [] at h
        split at h
        · cases h
        · rename_i hk; exact Nat.le_of_not_gt hk
  · rw [if_neg hcan] at h
    simp only [] at h
    split at h
    · cases h
    · rename_i hk; exact Nat.le_of_not_gt hk

theorem cull_arith (L B nb len : Nat) (h : wsub32 L B = len) (hk : wsub32 nb B ≤ len) :
    wsub32 L nb = len - wsub32 nb B ∧ ∀ j, wadd32 nb j = wadd32 B (wsub32 nb B + j) := by
  unfold wsub32 wadd32 at *
  refine ⟨by omega, fun j => by omega⟩

theorem FqW.cull {wire : List (List Nat)} {wt : List Nat} {pend : List Pending} {fq fq' : FrameQ.State}
    (h : FqW wire wt pend fq)
    (nb : Nat) (rtt : Option Nat) (he : FrameQ.cull fq nb rtt = .ok fq') : FqW wire wt pend fq' := by
  have hle : wsub32 nb fq.logBase ≤ fq.frames.length := by
    have := he
    rw [cull_eq_G] at this
    exact cullG_le _ _ _ _ fq fq' nb rtt this
  obtain ⟨r, l, rfl⟩ := cull_shape fq fq' nb rtt he
  obtain ⟨a1, a2⟩ := cull_arith fq.logNext fq.logBase nb fq.frames.length h.next hle
  refine ⟨?_, ?_⟩
  · show wsub32 fq.logNext nb = (fq.frames.drop (wsub32 nb fq.logBase)).length
    rw [List.length_drop]; exact a1
  · intro k e hk r' hr'
    have hk' : (fq.frames.drop (wsub32 nb fq.logBase))[k]? = some e := hk
    show RefOn wire wt pend (wadd32 nb k) r'
    rw [List.getElem?_drop] at hk'
    rw [a2 k]
    exact h.refs _ e hk' r' hr'

theorem FqW.atw {wire : List (List Nat)} {wt : List Nat} {pend : List Pending} {fq fq' : FrameQ.State}
    (h : FqW wire wt pend fq)
    (nb : Nat) (rtt : Option Nat) (he : advanceTransferWindow fq nb rtt = .ok fq') : FqW wire wt pend fq' := by
  rw [atw_eq_G] at he
  by_cases hcan : canAdvanceTransferWindow fq nb = true
  case neg => rw [atwG_no _ _ _ fq nb rtt hcan] at he; cases he; exact h
  have h1 : FqW wire wt pend { fq with winBase := nb } := h.congr rfl rfl rfl
  by_cases hd : wsub32 (wsub32 nb fq.tailSize) fq.logBase ≠ 0 ∧
      wsub32 (wsub32 nb fq.tailSize) fq.logBase ≤ fq.frames.length % 2^32
  · rw [atwG_cull _ _ _ fq nb rtt hcan hd] at he
    exact h1.cull _ _ he
  · rw [atwG_keep _ _ _ fq nb rtt hcan hd] at he
    cases he; exact h1

theorem FqW.forget {wire : List (List Nat)} {wt : List Nat} {pend : List Pending} {fq fq' : FrameQ.State}
    (h : FqW wire wt pend fq)
    (thresh : Nat) (rtt : Option Nat) (he : forgetFrames fq thresh rtt = .ok fq') : FqW wire wt pend fq' := by
  rw [ff_eq_G, ffG_eq] at he
  split at he
  · exact h.cull _ _ he
  · cases he; exact h

/-! ### `acknowledge_group` -/

/-- `acknowledge_group` keeps `FqW` (log entries only lose their references), and every fragment it
reports is referenced by a logged frame named by a set bit of the group. -/
theorem FqW.ack {wire : List (List Nat)} {wt : List Nat} {pend : List Pending} {fq fq' : FrameQ.State}
    (h : FqW wire wt pend fq)
    (ack : AckGroup) (rtt : Option Nat) (frs : List (Nat × Nat))
    (he : acknowledgeGroup fq ack rtt = .ok (fq', frs)) :
    FqW wire wt pend fq' ∧
    ∀ r ∈ frs, ∃ i, i < 32 ∧ ack.bitfield / 2^i % 2 = 1 ∧ RefOn wire wt pend (wadd32 ack.baseId i) r := by
  have hrel := acknowledgeGroup_rel he
  refine ⟨⟨?_, ?_⟩, ?_⟩
  · have h1 : fq'.logNext = fq.logNext := hrel.logNext
    have h2 : fq'.logBase = fq.logBase := hrel.logBase
    have h3 : fq'.frames.length = fq.frames.length := hrel.len
    rw [h1, h2, h3]; exact h.next
  · intro k e' hk r hr
    have h2 : fq'.logBase = fq.logBase := hrel.logBase
    rw [h2]
    obtain ⟨e0, he0, hle⟩ := hrel.frames_back k e' hk
    rcases hle with h1 | ⟨_, h1⟩
    · rw [h1] at hr; exact h.refs k e0 he0 r hr
    · rw [h1] at hr; cases hr
  · intro r hr
    rcases acknowledgeGroup_inv he with ⟨_, rfl⟩ | ⟨_, _, s', lst, tot, rl, hl, _⟩
    · cases hr
    · obtain ⟨_, _, hmem⟩ := ackLoop_spec ack rtt _ _ _ _ _ _ _ _ _ _ _ hl
      rcases hmem r hr with hc | ⟨i, hi, hb, e, hfe, _, hre⟩
      · cases hc
      · have hi32 : i < 32 := by
          have := List.mem_range.mp hi
          have hbs : bitfieldSize ack.bitfield ≤ 32 := bitfieldSize_le _
          omega
        refine ⟨i, hi32, hb, ?_⟩
        have := h.refs _ e hfe r hre
        have harith : wadd32 fq.logBase (wsub32 (wadd32 ack.baseId i) fq.logBase) = wadd32 ack.baseId i := by
          unfold wadd32 wsub32; omega
        rw [harith] at this
        exact this

/-! ### the ids of the data frames on the wire -/

/-- The frame id of a byte string that parses as a data frame. -/
def dataId (b : List Nat) : Option Nat :=
  match decode b with
  | some (.data X _ _) => some X
  | _ => none

/-- The data frames of the wire carry consecutive frame ids (modulo `2^32`) ending just before `L`
(`FrameLog::next_id()`): the `i`-th most recent one carries `L - 1 - i`. -/
def IdSeq (wire : List (List Nat)) (L : Nat) : Prop :=
  ∀ (i X : Nat), (wire.filterMap dataId).reverse[i]? = some X → (X + i + 1) % 2^32 = L % 2^32

theorem idSeq_nil (L : Nat) : IdSeq [] L := by
  intro i X h; simp at h

theorem IdSeq.append_nodata {wire : List (List Nat)} {L : Nat} (h : IdSeq wire L) (w2 : List (List Nat))
    (hw : ∀ b ∈ w2, dataId b = none) : IdSeq (wire ++ w2) L := by
  have : w2.filterMap dataId = [] := by
    rw [List.filterMap_eq_nil_iff]; exact hw
  unfold IdSeq
  rw [List.filterMap_append, this, List.append_nil]
  exact h

theorem IdSeq.push {wire : List (List Nat)} {L : Nat} (h : IdSeq wire L) (b : List Nat)
    (hb : dataId b = some (L % 2^32)) : IdSeq (wire ++ [b]) (wadd32 L 1) := by
  unfold IdSeq
  rw [List.filterMap_append]
  simp only [List.filterMap_cons, hb, List.filterMap_nil, List.reverse_append, List.reverse_cons,
    List.reverse_nil, List.nil_append, List.singleton_append]
  intro i X hi
  cases i with
  | zero =>
    simp only [List.getElem?_cons_zero, Option.some.injEq] at hi
    subst hi
    unfold wadd32; omega
  | succ i =>
    simp only [List.getElem?_cons_succ] at hi
    have := h i X hi
    unfold wadd32; omega

theorem IdSeq.congr {wire : List (List Nat)} {L L' : Nat} (h : IdSeq wire L) (e : L' = L) : IdSeq wire L' := by
  rw [e]; exact h

theorem nodup_reverse_iff {α : Type} (l : List α) : l.reverse.Nodup ↔ l.Nodup := by
  unfold List.Nodup
  rw [List.pairwise_reverse]
  constructor <;> (intro h; exact h.imp (fun hab => Ne.symm hab))

/-- **With at most `2^32` data frames on the wire no frame id is used twice.** -/
theorem IdSeq.nodup {wire : List (List Nat)} {L : Nat} (h : IdSeq wire L)
    (hlen : (wire.filterMap dataId).length ≤ 2^32) : (wire.filterMap dataId).Nodup := by
  rw [← nodup_reverse_iff]
  have hl : (wire.filterMap dataId).reverse.length ≤ 2^32 := by rw [List.length_reverse]; exact hlen
  unfold IdSeq at h
  generalize (wire.filterMap dataId).reverse = l at h hl
  rw [List.Nodup, List.pairwise_iff_getElem]
  intro i j hi hj hij heq
  have h1 := h i l[i] (List.getElem?_eq_getElem hi)
  have h2 := h j l[j] (List.getElem?_eq_getElem hj)
  rw [← heq] at h2
  omega

/-! ### `FrameLog::next_id()` only changes in `push` -/

theorem cull_logNext {fq fq' : FrameQ.State} (nb : Nat) (rtt : Option Nat)
    (he : FrameQ.cull fq nb rtt = .ok fq') : fq'.logNext = fq.logNext := by
  obtain ⟨r, l, rfl⟩ := cull_shape fq fq' nb rtt he
  rfl

theorem atw_logNext {fq fq' : FrameQ.State} (nb : Nat) (rtt : Option Nat)
    (he : advanceTransferWindow fq nb rtt = .ok fq') : fq'.logNext = fq.logNext := by
  rw [atw_eq_G] at he
  by_cases hcan : canAdvanceTransferWindow fq nb = true
  case neg => rw [atwG_no _ _ _ fq nb rtt hcan] at he; cases he; rfl
  by_cases hd : wsub32 (wsub32 nb fq.tailSize) fq.logBase ≠ 0 ∧
      wsub32 (wsub32 nb fq.tailSize) fq.logBase ≤ fq.frames.length % 2^32
  · rw [atwG_cull _ _ _ fq nb rtt hcan hd] at he
    exact cull_logNext (fq := { fq with winBase := nb }) _ _ he
  · rw [atwG_keep _ _ _ fq nb rtt hcan hd] at he
    cases he; rfl

theorem forget_logNext {fq fq' : FrameQ.State} (thresh : Nat) (rtt : Option Nat)
    (he : forgetFrames fq thresh rtt = .ok fq') : fq'.logNext = fq.logNext := by
  rw [ff_eq_G, ffG_eq] at he
  split at he
  · exact cull_logNext _ _ he
  · cases he; rfl

theorem ackGroup_logNext {fq fq' : FrameQ.State} (ack : AckGroup) (rtt : Option Nat) (frs : List (Nat × Nat))
    (he : acknowledgeGroup fq ack rtt = .ok (fq', frs)) : fq'.logNext = fq.logNext :=
  (acknowledgeGroup_rel he).logNext

end Uflow.HcFrm
