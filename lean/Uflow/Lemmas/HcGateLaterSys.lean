import Uflow.Lemmas.HcGateSys

/-!
C09GateLater, part 1 (`Sys`): the PREFIX form of the receiver-side lemma — if every Reliable emitted
packet with emission position `< n` is completely received (in the log, passed by the window base, or in
the window with its entry flag), ONE `recv` step puts every Reliable emitted packet with position `< n`
into the log — and the fact that the ghost list `syncs` of `Sys` only grows, which makes the clause
`PInv.sync` ("every Reliable packet emitted before a recorded `sync` step is completely received") a
STABILITY statement.
-/

namespace Uflow.Sys

open Uflow Uflow.Gen Uflow.Codec Uflow.PSend Uflow.PRecv Uflow.Frag

/-- `RecvdW` for a Reliable emitted packet the window base has not passed: in the log or entry flag at
the slot of its id. -/
theorem recvdW_entry {b0 w W M : Nat} {t : Sys} (h : SInv b0 w W M t)
    (j : Nat) (x : Emitted) (hx : t.hist.emitted[j]? = some x)
    (hr : RecvdW W t.rcv j x.sequenceId) (hj : t.rcv.adv ≤ j) :
    (∃ e ∈ t.rcv.log, e.uid = j) ∨ (lget t.rcv.st.slots (wi W (pidAdd b0 j))).entryFlag = true := by
  rw [(h.snd.hinv.ids j x hx).2.1] at hr
  rcases hr with h1 | h1 | ⟨-, h2⟩
  · exact Or.inl h1
  · omega
  · exact Or.inr h2

/-- `Sys.Recvd` is `RecvdW` (window index function of the proofs). -/
theorem recvdW_of_recvd {b0 w W M : Nat} {t : Sys} (h : SInv b0 w W M t)
    (j : Nat) (x : Emitted) (hx : t.hist.emitted[j]? = some x) (hr : Recvd t x) :
    RecvdW W t.rcv j x.sequenceId := by
  unfold Recvd at hr
  rw [(h.snd.hinv.ids j x hx).1, widx_eq h.rcv.inv, getSlot_eq, h.rcv.inv.wsz] at hr
  exact hr

theorem recvd_of_recvdW {b0 w W M : Nat} {t : Sys} (h : SInv b0 w W M t)
    (j : Nat) (x : Emitted) (hx : t.hist.emitted[j]? = some x) (hr : RecvdW W t.rcv j x.sequenceId) :
    Recvd t x := by
  unfold Recvd
  rw [(h.snd.hinv.ids j x hx).1, widx_eq h.rcv.inv, getSlot_eq, h.rcv.inv.wsz]
  exact hr

/-- **`receive` hands out every completely received Reliable packet — prefix form.** If every Reliable
emitted packet with emission position `< n` is completely received (`RecvdW`), the `recv` step leaves
every Reliable emitted packet with position `< n` in the log (and the log only grows). Nothing is
assumed about the packets at positions `≥ n`: the blocking channel parent of a packet is an EARLIER
Reliable packet. -/
theorem recv_delivers_complete_prefix {b0 w W M : Nat} (hW : WOk W) (hw : w ≤ 2^16) (hwW : w ≤ W) {t t' : Sys}
    (h : SInv b0 w W M t) (p : PInv W t) (n : Nat)
    (hok : ∀ j x, t.hist.emitted[j]? = some x → x.mode = .reliable → j < n →
      RecvdW W t.rcv j x.sequenceId)
    (hs : stepS t .recv = .ok t') :
    (∀ e ∈ t.rcv.log, e ∈ t'.rcv.log) ∧
    ∀ j x, t.hist.emitted[j]? = some x → x.mode = .reliable → j < n → ∃ e ∈ t'.rcv.log, e.uid = j := by
  have h' : SInv b0 w W M t' := sinv_recv hW h hs
  simp only [stepS] at hs
  cases hg : stepT t.rcv .recv with
  | error e => rw [hg] at hs; cases hs
  | ok g =>
    rw [hg, bindR_ok] at hs
    cases hs
    rw [stepT_recv] at hg
    cases hr : receiveT t.rcv.st with
    | error e => rw [hr] at hg; cases hg
    | ok pr =>
      rw [hr, bindR_ok] at hg
      cases hg
      have hr' : receiveT t.rcv.st = .ok (pr.1, pr.2) := hr
      obtain ⟨s1, hinv1, hord1, hgi1, hsh, hdone, htaken, -, -⟩ :=
        receiveT_parts hW h.rcv.inv h.rcv.ord h.rcv.gi p.rdy (hon_of_sinv hw h) hr'
      have hc1 : CInv W t.pend t.rcv.adv s1 := cinv_shrunk h.cinv hsh
      have hblt := h.rcv.inv.blt
      have hew := h.rcv.ord.ewin
      show (∀ e ∈ t.rcv.log, e ∈ t.rcv.log ++ pr.2.map (lift t.rcv.adv t.rcv.st.baseId)) ∧
        ∀ j x, t.hist.emitted[j]? = some x → x.mode = .reliable → j < n →
        ∃ e ∈ t.rcv.log ++ pr.2.map (lift t.rcv.adv t.rcv.st.baseId), e.uid = j
      generalize hlog1 : t.rcv.log ++ pr.2.map (lift t.rcv.adv t.rcv.st.baseId) = log1 at *
      have hsub : ∀ e ∈ t.rcv.log, e ∈ log1 := by
        intro e he; rw [← hlog1]; exact List.mem_append.mpr (Or.inl he)
      have ent1 : Ent W t.rcv.adv log1 s1 := by
        intro x hx hxo hen
        rw [hsh.base] at hxo ⊢
        rw [hsh.entry] at hen
        rcases p.ent x hx hxo hen with hf | ⟨e, he, hu⟩
        · rcases htaken _ hf with hf1 | ⟨ev, hev, e1, e2, e3⟩
          · exact Or.inl hf1
          · right
            refine ⟨lift t.rcv.adv t.rcv.st.baseId ev, ?_, ?_⟩
            · rw [← hlog1]; exact List.mem_append.mpr (Or.inr (List.mem_map.mpr ⟨ev, hev, rfl⟩))
            · show t.rcv.adv + pidSub ev.seq t.rcv.st.baseId = _
              rw [off_eq_of_wi hW ev.seq x t.rcv.st.baseId hblt (by omega) (by omega) e3]
        · exact Or.inr ⟨e, hsub e he, hu⟩
      have hlogchan : ∀ e ∈ log1, ∃ em, t.hist.emitted[e.uid]? = some em ∧ e.chan = em.channelId := by
        intro e he
        obtain ⟨p0, hp0, c1, -⟩ := h'.log e he
        obtain ⟨-, em, hem, -, e2, -⟩ := h'.snd.plink e.uid p0 hp0
        exact ⟨em, hem, by rw [c1, e2]⟩
      have hbeyond : ∀ e ∈ log1, ∀ y, t.hist.emitted[e.uid]? = some y →
          e.uid < t.rcv.adv + pidSub (cbO s1 y.channelId) s1.baseId := by
        intro e he y hy
        obtain ⟨em, hem, hch⟩ := hlogchan e he
        rw [hy] at hem; cases hem
        have := hgi1.glt e he
        rw [hch] at this
        exact this
      have key : ∀ j, j < n → t.rcv.adv ≤ j → j < t.hist.emitted.length →
          (lget t.rcv.st.slots (wi W (pidAdd b0 j))).entryFlag = true → ∃ e ∈ log1, e.uid = j := by
        intro j
        induction j using Nat.strongRecOn with
        | _ j ih =>
          intro hjn h1 hjlt hen
          obtain ⟨hxj, hoff, hjW⟩ := win_pos (by omega) hwW h j h1 hjlt
          rw [← hsh.entry] at hen
          have hxo1 : pidSub (pidAdd b0 j) s1.baseId < W := by rw [hsh.base, hoff]; exact hjW
          rcases ent1 _ hxj hxo1 hen with hf | ⟨e, he, hu⟩
          · exfalso
            have hnd := hdone _ hxj hxo1 hf
            obtain ⟨jp, y, hy, hyrel, hych, q1, q2, q3⟩ :=
              blocked_parent hw h.snd hinv1 hord1 hc1 _ hxj hxo1 hf hnd
            rw [hsh.base, hoff] at q2
            have hjplt : jp < t.hist.emitted.length := (List.getElem?_eq_some_iff.mp hy).1
            have hpar : ∃ e ∈ log1, e.uid = jp := by
              rcases recvdW_entry h jp y hy (hok jp y hy hyrel (by omega)) (by omega) with ⟨e, he, hu⟩ | hen'
              · exact ⟨e, hsub e he, hu⟩
              · exact ih jp (by omega) (by omega) (by omega) hjplt hen'
            obtain ⟨e, he, hu⟩ := hpar
            have := hbeyond e he y (by rw [hu]; exact hy)
            rw [hych, hu] at this
            omega
          · exact ⟨e, he, by rw [hu, hsh.base, hoff]; omega⟩
      refine ⟨hsub, ?_⟩
      intro j x hx hrel hjn
      rcases Nat.lt_or_ge j t.rcv.adv with hlt | hge
      · obtain ⟨e, he, hu⟩ := p.passed j x hx hrel hlt
        exact ⟨e, hsub e he, hu⟩
      · rcases recvdW_entry h j x hx (hok j x hx hrel hjn) hge with ⟨e, he, hu⟩ | hen
        · exact ⟨e, hsub e he, hu⟩
        · exact key j hjn hge (List.getElem?_eq_some_iff.mp hx).1 hen

/-! ### `syncs` only grows -/

theorem stepS_syncs_mono {s s' : Sys} (op : SOp) (hs : stepS s op = .ok s') :
    ∀ x ∈ s.syncs, x ∈ s'.syncs := by
  cases op with
  | enq d c m f =>
    simp only [stepS] at hs
    split at hs
    · cases hh : stepH s.snd s.hist (.enq d c m f) with
      | error t => rw [hh] at hs; cases hs
      | ok r => rw [hh, bindR_ok] at hs; cases hs; exact fun _ hx => hx
    · cases hs; exact fun _ hx => hx
  | emit f =>
    simp only [stepS] at hs
    cases hh : stepH s.snd s.hist (.emit f) with
    | error t => rw [hh] at hs; cases hs
    | ok r => rw [hh, bindR_ok] at hs; cases hs; exact fun _ hx => hx
  | deliver k =>
    simp only [stepS] at hs
    split at hs
    · cases hs; exact fun _ hx => hx
    · split at hs
      · cases hh : stepT s.rcv (.dg ‹_›) with
        | error t => rw [hh] at hs; cases hs
        | ok r => rw [hh, bindR_ok] at hs; cases hs; exact fun _ hx => hx
      · cases hs; exact fun _ hx => hx
  | recv =>
    simp only [stepS] at hs
    cases hh : stepT s.rcv .recv with
    | error t => rw [hh] at hs; cases hs
    | ok r => rw [hh, bindR_ok] at hs; cases hs; exact fun _ hx => hx
  | ack k =>
    simp only [stepS] at hs
    split at hs
    · cases hs; exact fun _ hx => hx
    · split at hs
      · cases hh : stepH s.snd s.hist (.ack ‹_›) with
        | error t => rw [hh] at hs; cases hs
        | ok r => rw [hh, bindR_ok] at hs; cases hs; exact fun _ hx => hx
      · cases hs; exact fun _ hx => hx
  | sync =>
    simp only [stepS] at hs
    split at hs
    · cases hs; exact fun _ hx => List.mem_append_left _ hx
    · cases hs; exact fun _ hx => hx
  | resync k =>
    simp only [stepS] at hs
    split at hs
    · cases hs; exact fun _ hx => hx
    · split at hs
      · cases hh : stepT s.rcv (.resync ‹_›) with
        | error t => rw [hh] at hs; cases hs
        | ok r => rw [hh, bindR_ok] at hs; cases hs; exact fun _ hx => hx
      · cases hs; exact fun _ hx => hx

theorem runS_syncs_mono (ops : List SOp) : ∀ {s s' : Sys}, runS s ops = .ok s' →
    ∀ x ∈ s.syncs, x ∈ s'.syncs := by
  induction ops with
  | nil => intro s s' hr; cases hr; exact fun _ hx => hx
  | cons op rest ih =>
    intro s s' hr
    rw [runS] at hr
    cases hs : stepS s op with
    | error t => rw [hs] at hr; cases hr
    | ok s1 =>
      rw [hs, bindR_ok] at hr
      exact fun x hx => ih hr x (stepS_syncs_mono op hs x hx)

/-- The `sync` step under its guard. -/
theorem stepS_sync_ok {s : Sys} (hok : SyncOk s) :
    stepS s .sync = .ok { s with syncs := s.syncs ++ [(s.hist.emitted.length, s.snd.nextId)] } := by
  simp only [stepS, if_pos hok]

end Uflow.Sys
