import Uflow.Lemmas.EndpointClientCases

/-!
Client endpoint: "no way back" lemmas (to `pending`, into `closing`) and where `connect` comes from.
-/

namespace Uflow.Endpoint

open Uflow.Gen Uflow.Codec Uflow.HalfConn

variable {H : Type}

/-- `pending` with the given nonce and request bytes (timer and queued sends arbitrary). -/
def CState.pendingWith (s : CState H) (ln : Nat) (req : List Nat) : Prop :=
  ∃ rt rc sends, s = .pending ln req rt rc sends

def CState.isClosing (s : CState H) : Prop := ∃ req rt rc, s = .closing req rt rc

/-! ## Nothing leads back to `pending` -/

theorem Client.flush_back (hc : HC H) (c c' : Client H) (out : List (List Nat)) (h : c.flush hc = .ok (c', out))
    (hna : ∀ ln hh t sig, c'.state ≠ .active ln hh t sig) : c' = c ∧ out = [] := by
  rcases CState.active_or_not c.state with ⟨ln, hh, t, sig, hs⟩ | hna'
  · rw [Client.flush_active hc c ln hh t sig hs] at h
    split at h <;> cases h
    exact absurd rfl (hna _ _ _ _)
  · rw [Client.flush_not_active hc c hna'] at h
    cases h; exact ⟨rfl, rfl⟩

theorem Client.arrivalsPhase_pending_back (hc : HC H) (c c' : Client H) (nowMs nowNs : Nat)
    (arrivals sent : List (List Nat)) (h : c.arrivalsPhase hc nowMs nowNs arrivals = .ok (c', sent))
    (ln : Nat) (req : List Nat) (hp : c'.state.pendingWith ln req) : c' = c ∧ sent = [] := by
  refine Client.arrivalsPhase_induct hc nowMs nowNs
    (fun x s => x.state.pendingWith ln req → x = c ∧ s = []) ?_ arrivals c [] c' sent (fun _ => ⟨rfl, rfl⟩) h hp
  intro x s f x' out ih hf hp'
  obtain ⟨rt, rc, sends, hs'⟩ := hp'
  obtain ⟨rfl, rfl⟩ := Client.handleFrame_pending_back hc x x' f nowMs nowNs out hf ln req rt rc sends hs'
  obtain ⟨rfl, rfl⟩ := ih ⟨rt, rc, sends, hs'⟩
  exact ⟨rfl, rfl⟩

theorem Client.handleEvents_pending_back (c : Client H) (nowMs : Nat) (ln : Nat) (req : List Nat)
    (hp : (c.handleEvents nowMs).1.state.pendingWith ln req) : c.state.pendingWith ln req := by
  obtain ⟨rt', rc', sends', hs'⟩ := hp
  cases hs : c.state with
  | fin => rw [Client.handleEvents_fin c nowMs hs, hs] at hs'; cases hs'
  | closed t =>
    rw [Client.handleEvents_closed c nowMs t hs] at hs'
    simp only at hs'; split at hs'
    · cases hs'
    · rw [hs] at hs'; cases hs'
  | closing req' rt rc =>
    rw [Client.handleEvents_closing c nowMs req' rt rc hs] at hs'
    split at hs'
    · split at hs' <;> cases hs'
    · rw [hs] at hs'; cases hs'
  | pending ln' req' rt rc sends =>
    rw [Client.handleEvents_pending c nowMs ln' req' rt rc sends hs] at hs'
    split at hs'
    · split at hs' <;> cases hs'
      exact ⟨_, _, _, rfl⟩
    · rw [hs] at hs'; cases hs'; exact ⟨_, _, _, rfl⟩
  | active ln' hh t sig =>
    rw [Client.handleEvents_active c nowMs ln' hh t sig hs] at hs'
    split at hs'
    · cases hs'
    · rw [hs] at hs'; cases hs'

theorem Client.stepPhase_back (hc : HC H) (c c' : Client H) (nowMs nowNs : Nat) (out : List (List Nat))
    (h : c.stepPhase hc nowMs nowNs = .ok (c', out))
    (hna : ∀ ln hh t sig, c'.state ≠ .active ln hh t sig)
    (hnc : c.state.isClosing ∨ ¬ c'.state.isClosing) : c' = c ∧ out = [] := by
  rcases CState.active_or_not c.state with ⟨ln, hh, t, sig, hs⟩ | hna'
  · rw [Client.stepPhase_active hc c nowMs nowNs ln hh t sig hs] at h
    split at h
    · split at h <;> cases h
      rcases hnc with ⟨_, _, _, hcl⟩ | hnc
      · rw [hs] at hcl; cases hcl
      · exact absurd ⟨_, _, _, rfl⟩ hnc
    · split at h
      · cases h
      · split at h <;> cases h
        exact absurd rfl (hna _ _ _ _)
  · rw [Client.stepPhase_not_active hc c nowMs nowNs hna'] at h
    cases h; exact ⟨rfl, rfl⟩

theorem CState.pendingWith_not_active {s : CState H} {ln : Nat} {req : List Nat} (h : s.pendingWith ln req) :
    ∀ ln' hh t sig, s ≠ .active ln' hh t sig := by
  obtain ⟨_, _, _, h⟩ := h
  intro _ _ _ _ h'; rw [h] at h'; cases h'

theorem CState.pendingWith_not_closing {s : CState H} {ln : Nat} {req : List Nat} (h : s.pendingWith ln req) :
    ¬ s.isClosing := by
  obtain ⟨_, _, _, h⟩ := h
  intro ⟨_, _, _, h'⟩; rw [h] at h'; cases h'

/-- `pending` after a step ⇒ `pending` (same nonce, same request) before it. -/
theorem Client.step_pending_back (hc : HC H) (c c' : Client H) (nowNs : Nat) (arrivals sent : List (List Nat))
    (evs : List CEvent) (h : c.step hc nowNs arrivals = .ok (c', sent, evs))
    (ln : Nat) (req : List Nat) (hp : c'.state.pendingWith ln req) : c.state.pendingWith ln req := by
  obtain ⟨c1, s1, c2, s2, c4, s4, h1, h2, h4, rfl, rfl, rfl⟩ := Client.step_phases hc c c' nowNs arrivals sent evs h
  simp only at hp
  obtain ⟨rfl, -⟩ := Client.stepPhase_back hc _ c4 _ nowNs s4 h4 (CState.pendingWith_not_active hp)
    (Or.inr (CState.pendingWith_not_closing hp))
  have hp2 := Client.handleEvents_pending_back c2 _ ln req hp
  obtain ⟨rfl, -⟩ := Client.arrivalsPhase_pending_back hc c1 c2 _ nowNs arrivals s2 h2 ln req hp2
  obtain ⟨rfl, -⟩ := Client.flush_back hc c c2 s1 h1 (CState.pendingWith_not_active hp2)
  exact hp2

/-- `pending` after an API call ⇒ `pending` (same nonce, same request) before it. -/
theorem Client.apply_pending_back (hc : HC H) (c c' : Client H) (op : COp) (sent : List (List Nat))
    (evs : List CEvent) (h : c.apply hc op = .ok (c', sent, evs))
    (ln : Nat) (req : List Nat) (hp : c'.state.pendingWith ln req) : c.state.pendingWith ln req := by
  cases op with
  | step n a => exact Client.step_pending_back hc c c' n a sent evs h ln req hp
  | send d ch m =>
    cases h
    obtain ⟨rt, rc, sends, hs'⟩ := hp
    unfold Client.send at hs'
    split at hs'
    · next hs => cases hs'; exact ⟨_, _, _, hs⟩
    · cases hs'
    · exact ⟨_, _, _, hs'⟩
  | disconnect m =>
    cases h
    obtain ⟨rt, rc, sends, hs'⟩ := hp
    unfold Client.disconnect at hs'
    split at hs'
    · cases hs'
    · cases hs'
    · exact ⟨_, _, _, hs'⟩
  | flush =>
    simp only [Client.apply] at h
    split at h
    · cases h
    · next c1 s1 hf =>
      cases h
      obtain ⟨rfl, -⟩ := Client.flush_back hc c c' sent hf (CState.pendingWith_not_active hp)
      exact hp

theorem Client.run_pending_back (hc : HC H) (ops : List COp) (c c' : Client H) (sent : List (List Nat))
    (evs : List CEvent) (h : Client.run hc c ops = .ok (c', sent, evs))
    (ln : Nat) (req : List Nat) (hp : c'.state.pendingWith ln req) : c.state.pendingWith ln req := by
  induction ops generalizing c sent evs with
  | nil => cases h; exact hp
  | cons op ops ih =>
    simp only [Client.run] at h
    split at h
    · cases h
    · next c1 s1 e1 h1 =>
      split at h
      · cases h
      · next c2 s2 e2 h2 =>
        cases h
        exact Client.apply_pending_back hc c c1 op s1 e1 h1 ln req (ih c1 s2 e2 h2)


/-! ## `closing` is entered only by the disconnect gate of `step_if_active` -/

theorem Client.handleFrame_closing_back (hc : HC H) (c c' : Client H) (f : Frame) (nowMs nowNs : Nat)
    (out : List (List Nat)) (h : c.handleFrame hc f nowMs nowNs = .ok (c', out))
    (hcl : c'.state.isClosing) : c' = c ∧ out = [] := by
  obtain ⟨req, rt, rc, hs'⟩ := hcl
  rcases Client.handleFrame_cases hc c c' f nowMs nowNs out h with
    h | ⟨_, _, _, _, _, _, _, _, _, _, _, rfl, _⟩ | ⟨_, _, _, _, _, _, _, _, hs, _, rfl, _⟩ |
    ⟨_, _, _, _, _, _, _, _, rfl, _⟩ | ⟨_, _, _, _, _, _, _, _, _, rfl, _⟩ | ⟨_, _, _, _, _, rfl, _⟩ |
    ⟨_, hs, _, rfl, _⟩ | ⟨_, _, _, _, _, rfl, _⟩ | ⟨_, _, _, _, _, _, _, _, rfl, _⟩
  · exact h
  all_goals first | cases hs' | (rw [hs] at hs'; cases hs')

theorem Client.arrivalsPhase_closing_back (hc : HC H) (c c' : Client H) (nowMs nowNs : Nat)
    (arrivals sent : List (List Nat)) (h : c.arrivalsPhase hc nowMs nowNs arrivals = .ok (c', sent))
    (hcl : c'.state.isClosing) : c' = c ∧ sent = [] := by
  refine Client.arrivalsPhase_induct hc nowMs nowNs
    (fun x s => x.state.isClosing → x = c ∧ s = []) ?_ arrivals c [] c' sent (fun _ => ⟨rfl, rfl⟩) h hcl
  intro x s f x' out ih hf hp'
  obtain ⟨rfl, rfl⟩ := Client.handleFrame_closing_back hc x x' f nowMs nowNs out hf hp'
  obtain ⟨rfl, rfl⟩ := ih hp'
  exact ⟨rfl, rfl⟩

theorem Client.handleEvents_closing_back (c : Client H) (nowMs : Nat)
    (hcl : (c.handleEvents nowMs).1.state.isClosing) : c.state.isClosing := by
  obtain ⟨req', rt', rc', hs'⟩ := hcl
  cases hs : c.state with
  | fin => rw [Client.handleEvents_fin c nowMs hs, hs] at hs'; cases hs'
  | closed t =>
    rw [Client.handleEvents_closed c nowMs t hs] at hs'
    simp only at hs'; split at hs'
    · cases hs'
    · rw [hs] at hs'; cases hs'
  | closing req rt rc => exact ⟨_, _, _, rfl⟩
  | pending ln' req' rt rc sends =>
    rw [Client.handleEvents_pending c nowMs ln' req' rt rc sends hs] at hs'
    split at hs'
    · split at hs' <;> cases hs'
    · rw [hs] at hs'; cases hs'
  | active ln' hh t sig =>
    rw [Client.handleEvents_active c nowMs ln' hh t sig hs] at hs'
    split at hs'
    · cases hs'
    · rw [hs] at hs'; cases hs'

theorem CState.isClosing_not_active {s : CState H} (h : s.isClosing) :
    ∀ ln' hh t sig, s ≠ .active ln' hh t sig := by
  obtain ⟨_, _, _, h⟩ := h
  intro _ _ _ _ h'; rw [h] at h'; cases h'

/-- A step that ends in `closing` without having started there went through the disconnect gate:
after the timers, the connection was `active` with a disconnect signal that is `now`, or `flush`
with nothing pending; the packets the half connection could still deliver were appended to the
events, and the request was the last datagram sent. -/
theorem Client.step_enters_closing (hc : HC H) (c c' : Client H) (nowNs : Nat) (arrivals sent : List (List Nat))
    (evs : List CEvent) (h : c.step hc nowNs arrivals = .ok (c', sent, evs))
    (hnc : ¬ c.state.isClosing) (hcl : c'.state.isClosing) :
    ∃ (c3 : Client H) (ln : Nat) (hh : H) (t : Nat) (sig : Option DisconnectMode) (h' : H) (pkts pre : List (List Nat)),
      c3.state = .active ln hh t sig ∧ discGate hc sig hh = true ∧
      hc.receive hh = .ok (h', pkts) ∧ evs = c3.eventsOut ++ pkts.map CEvent.receive ∧
      c'.state = .closing discReq (c.nowMs nowNs + CLIENT_DISCONNECT_RESEND_INTERVAL_MS) CLIENT_DISCONNECT_RESEND_COUNT ∧
      sent = pre ++ [discReq] := by
  obtain ⟨c1, s1, c2, s2, c4, s4, h1, h2, h4, rfl, rfl, rfl⟩ := Client.step_phases hc c c' nowNs arrivals sent evs h
  simp only at hcl
  have hnc3 : ¬ (c2.handleEvents (c.nowMs nowNs)).1.state.isClosing := by
    intro hcl3
    have hcl2 := Client.handleEvents_closing_back c2 _ hcl3
    obtain ⟨rfl, -⟩ := Client.arrivalsPhase_closing_back hc c1 c2 _ nowNs arrivals s2 h2 hcl2
    obtain ⟨rfl, -⟩ := Client.flush_back hc c c2 s1 h1 (CState.isClosing_not_active hcl2)
    exact hnc hcl2
  rcases CState.active_or_not (c2.handleEvents (c.nowMs nowNs)).1.state with ⟨ln, hh, t, sig, hs⟩ | hna'
  · rw [Client.stepPhase_active hc _ _ nowNs ln hh t sig hs] at h4
    split at h4
    · next hg =>
      split at h4
      · cases h4
      next h' pk hr =>
      cases h4
      exact ⟨_, ln, hh, t, sig, h', pk, _, hs, hg, hr, rfl, rfl, rfl⟩
    · split at h4
      · cases h4
      · split at h4 <;> cases h4
        obtain ⟨_, _, _, hx⟩ := hcl; cases hx
  · rw [Client.stepPhase_not_active hc _ _ nowNs hna'] at h4
    cases h4
    exact absurd hcl hnc3

/-- Only `step` enters `closing`. -/
theorem Client.apply_enters_closing (hc : HC H) (c c' : Client H) (op : COp) (sent : List (List Nat))
    (evs : List CEvent) (h : c.apply hc op = .ok (c', sent, evs))
    (hnc : ¬ c.state.isClosing) (hcl : c'.state.isClosing) : ∃ n a, op = .step n a := by
  cases op with
  | step n a => exact ⟨n, a, rfl⟩
  | send d ch m =>
    cases h
    obtain ⟨_, _, _, hs'⟩ := hcl
    unfold Client.send at hs'
    split at hs'
    · cases hs'
    · cases hs'
    · exact absurd ⟨_, _, _, hs'⟩ hnc
  | disconnect m =>
    cases h
    obtain ⟨_, _, _, hs'⟩ := hcl
    unfold Client.disconnect at hs'
    split at hs'
    · cases hs'
    · cases hs'
    · exact absurd ⟨_, _, _, hs'⟩ hnc
  | flush =>
    simp only [Client.apply] at h
    split at h
    · cases h
    · next c1 s1 hf =>
      cases h
      obtain ⟨rfl, -⟩ := Client.flush_back hc c c' sent hf (CState.isClosing_not_active hcl)
      exact absurd hcl hnc

/-! ## Where `connect` comes from -/

theorem Client.handleFrame_connect (hc : HC H) (c c' : Client H) (f : Frame) (nowMs nowNs : Nat)
    (out : List (List Nat)) (h : c.handleFrame hc f nowMs nowNs = .ok (c', out))
    (hm : CEvent.connect ∈ c'.eventsOut) :
    CEvent.connect ∈ c.eventsOut ∨
    ∃ ln req rt rc sends n r p a, c.state = .pending ln req rt rc sends ∧ f = .synAck ln n r p a := by
  rcases Client.handleFrame_cases hc c c' f nowMs nowNs out h with
    ⟨rfl, _⟩ | ⟨ln, req, rt, rc, sends, n, r, p, a, hs, hf, _, _⟩ | ⟨_, _, _, _, _, _, _, _, hs, _, rfl, _⟩ |
    ⟨_, _, _, _, _, _, _, _, rfl, _⟩ | ⟨_, _, _, _, _, _, _, _, _, rfl, _⟩ | ⟨_, _, _, _, _, rfl, _⟩ |
    ⟨_, hs, _, rfl, _⟩ | ⟨_, _, _, _, _, rfl, _⟩ | ⟨_, _, _, _, _, _, _, _, rfl, _⟩
  · exact Or.inl hm
  · exact Or.inr ⟨ln, req, rt, rc, sends, n, r, p, a, hs, hf⟩
  all_goals first
    | exact Or.inl hm
    | (simp only [List.mem_append, List.mem_map, List.mem_singleton] at hm
       rcases hm with hm | hm
       · first | exact Or.inl hm | (rcases hm with hm | ⟨_, _, hm⟩ <;> first | exact Or.inl hm | cases hm)
       · cases hm)

theorem Client.handleEvents_connect (c : Client H) (nowMs : Nat)
    (hm : CEvent.connect ∈ (c.handleEvents nowMs).1.eventsOut) : CEvent.connect ∈ c.eventsOut := by
  cases hs : c.state with
  | fin => rwa [Client.handleEvents_fin c nowMs hs] at hm
  | closed t =>
    rw [Client.handleEvents_closed c nowMs t hs] at hm
    simp only at hm; split at hm <;> exact hm
  | closing req rt rc =>
    rw [Client.handleEvents_closing c nowMs req rt rc hs] at hm
    split at hm
    · split at hm
      · exact hm
      · simpa using hm
    · exact hm
  | pending ln' req' rt rc sends =>
    rw [Client.handleEvents_pending c nowMs ln' req' rt rc sends hs] at hm
    split at hm
    · split at hm
      · exact hm
      · simpa using hm
    · exact hm
  | active ln' hh t sig =>
    rw [Client.handleEvents_active c nowMs ln' hh t sig hs] at hm
    split at hm
    · simpa using hm
    · exact hm

theorem Client.stepPhase_connect (hc : HC H) (c c' : Client H) (nowMs nowNs : Nat) (out : List (List Nat))
    (h : c.stepPhase hc nowMs nowNs = .ok (c', out))
    (hm : CEvent.connect ∈ c'.eventsOut) : CEvent.connect ∈ c.eventsOut := by
  rcases CState.active_or_not c.state with ⟨ln, hh, t, sig, hs⟩ | hna'
  · rw [Client.stepPhase_active hc c nowMs nowNs ln hh t sig hs] at h
    split at h
    · split at h <;> cases h
      simpa using hm
    · split at h
      · cases h
      · split at h <;> cases h
        simpa using hm
  · rw [Client.stepPhase_not_active hc c nowMs nowNs hna'] at h
    cases h; exact hm

theorem Client.flush_events (hc : HC H) (c c' : Client H) (out : List (List Nat)) (h : c.flush hc = .ok (c', out)) :
    c'.eventsOut = c.eventsOut ∧
    (∀ ln req, c'.state.pendingWith ln req → c' = c) := by
  rcases CState.active_or_not c.state with ⟨ln, hh, t, sig, hs⟩ | hna'
  · rw [Client.flush_active hc c ln hh t sig hs] at h
    split at h <;> cases h
    exact ⟨rfl, fun _ _ ⟨_, _, _, hp⟩ => by cases hp⟩
  · rw [Client.flush_not_active hc c hna'] at h
    cases h; exact ⟨rfl, fun _ _ _ => rfl⟩

/-- A step that delivers `connect` started in `pending` and received a SYN-ACK echoing its nonce. -/
theorem Client.step_connect (hc : HC H) (c c' : Client H) (nowNs : Nat) (arrivals sent : List (List Nat))
    (evs : List CEvent) (h : c.step hc nowNs arrivals = .ok (c', sent, evs))
    (hm : CEvent.connect ∈ evs) :
    CEvent.connect ∈ c.eventsOut ∨
    ∃ ln req rt rc sends, c.state = .pending ln req rt rc sends ∧
      ∃ b ∈ arrivals, ∃ n r p a, decodesTo b (.synAck ln n r p a) := by
  obtain ⟨c1, s1, c2, s2, c4, s4, h1, h2, h4, rfl, rfl, rfl⟩ := Client.step_phases hc c c' nowNs arrivals sent evs h
  have hm2 := Client.handleEvents_connect c2 _ (Client.stepPhase_connect hc _ c4 _ nowNs s4 h4 hm)
  obtain ⟨hev1, hpb1⟩ := Client.flush_events hc c c1 s1 h1
  have key := Client.arrivalsPhase_induct' hc (c.nowMs nowNs) nowNs
    (fun pre x _ => (∀ ln req rt rc sends, x.state = .pending ln req rt rc sends → x = c1) ∧
      (CEvent.connect ∈ x.eventsOut → CEvent.connect ∈ c1.eventsOut ∨
        ∃ ln req rt rc sends, c1.state = .pending ln req rt rc sends ∧
          ∃ b ∈ pre, ∃ n r p a, decodesTo b (.synAck ln n r p a)))
    ?_ ?_ arrivals c1 c2 s2 ⟨fun _ _ _ _ _ _ => rfl, fun h => Or.inl h⟩ h2
  · rcases key.2 hm2 with hx | ⟨ln, req, rt, rc, sends, hs1, hw⟩
    · exact Or.inl (hev1 ▸ hx)
    · have := hpb1 ln req ⟨rt, rc, sends, hs1⟩
      subst this
      exact Or.inr ⟨ln, req, rt, rc, sends, hs1, hw⟩
  · intro pre b x s ⟨hp1, hp2⟩ _
    refine ⟨hp1, fun hx => ?_⟩
    rcases hp2 hx with h | ⟨ln, req, rt, rc, sends, hs1, b', hb', hw⟩
    · exact Or.inl h
    · exact Or.inr ⟨ln, req, rt, rc, sends, hs1, b', List.mem_append_left _ hb', hw⟩
  · intro pre b x s f x' out ⟨hp1, hp2⟩ hd hf
    refine ⟨fun ln req rt rc sends hs' => ?_, fun hx => ?_⟩
    · obtain ⟨rfl, -⟩ := Client.handleFrame_pending_back hc x x' f _ nowNs out hf ln req rt rc sends hs'
      exact hp1 ln req rt rc sends hs'
    · rcases Client.handleFrame_connect hc x x' f _ nowNs out hf hx with hx | ⟨ln, req, rt, rc, sends, n, r, p, a, hsx, rfl⟩
      · rcases hp2 hx with h | ⟨ln, req, rt, rc, sends, hs1, b', hb', hw⟩
        · exact Or.inl h
        · exact Or.inr ⟨ln, req, rt, rc, sends, hs1, b', List.mem_append_left _ hb', hw⟩
      · have := hp1 ln req rt rc sends hsx
        subst this
        exact Or.inr ⟨ln, req, rt, rc, sends, hsx, b, by simp, n, r, p, a, hd⟩

end Uflow.Endpoint
