import Uflow.Model.Codec

/-! Helper lemmas for C16 (codec round trip and exactness). -/

set_option linter.unusedSimpArgs false

namespace Uflow.Codec

open Uflow.Gen

/-! ### representability: the builders' `debug_assert!`s plus field widths -/

def DatagramOk (d : Datagram) : Prop :=
  d.channelId < 64 ∧ d.sequenceId < 2^20 ∧ d.windowParentLead < 2^16 ∧ d.channelParentLead < 2^16 ∧
  d.fragmentId < 2^16 ∧ d.fragmentIdLast < 2^16 ∧ (d.fragmentIdLast = 0 → d.fragmentId = 0) ∧
  d.data.length < 2^16

instance (d : Datagram) : Decidable (DatagramOk d) := by unfold DatagramOk; infer_instance

def AckGroupOk (a : AckGroup) : Prop := a.baseId < 2^32 ∧ a.bitfield < 2^32

instance (a : AckGroup) : Decidable (AckGroupOk a) := by unfold AckGroupOk; infer_instance

def OptOk : Option Nat → Prop
  | none => True
  | some x => x < 2^32

instance (o : Option Nat) : Decidable (OptOk o) := by cases o <;> unfold OptOk <;> infer_instance

def Representable : Frame → Prop
  | .syn v n r p a => v < 256 ∧ n < 2^32 ∧ r < 2^32 ∧ p < 2^32 ∧ a < 2^32
  | .synAck na n r p a => na < 2^32 ∧ n < 2^32 ∧ r < 2^32 ∧ p < 2^32 ∧ a < 2^32
  | .hsAck na => na < 2^32
  | .hsError na _ => na < 2^32
  | .disconnect => True
  | .disconnectAck => True
  | .data sid _ dgs => sid < 2^32 ∧ dgs.length ≤ 127 ∧ ∀ d ∈ dgs, DatagramOk d
  | .sync f p => OptOk f ∧ OptOk p
  | .ack fb pb acks => fb < 2^32 ∧ pb < 2^32 ∧ acks.length < 2^16 ∧ ∀ a ∈ acks, AckGroupOk a

instance (f : Frame) : Decidable (Representable f) := by
  cases f <;> unfold Representable <;> infer_instance

/-! ### field codecs -/

theorem rd32_be32 (x : Nat) (h : x < 2^32) :
    rd32 (x / 2^24 % 256) (x / 2^16 % 256) (x / 2^8 % 256) (x % 256) = x := by
  unfold rd32; omega

theorem rd16_be16 (x : Nat) (h : x < 2^16) : rd16 (x / 2^8 % 256) (x % 256) = x := by
  unfold rd16; omega

theorem be32_length (x : Nat) : (be32 x).length = 4 := rfl

theorem compute_lt (bs : List Nat) : Crc.compute bs < 2^32 := by
  unfold Crc.compute; exact BitVec.isLt _

/-! ### the CRC envelope -/

theorem decode_withCrc (ty : Nat) (payload : List Nat) :
    decode (withCrc (ty :: payload)) = readPayload ty payload := by
  unfold decode withCrc
  have hlen : ((ty :: payload) ++ be32 (Crc.compute (ty :: payload))).length = (ty :: payload).length + 4 := by
    simp [be32_length]
  have h5 : ¬ ((ty :: payload) ++ be32 (Crc.compute (ty :: payload))).length < 5 := by
    rw [hlen]; simp
  rw [if_neg h5]
  have hsub : ((ty :: payload) ++ be32 (Crc.compute (ty :: payload))).length - 4 = (ty :: payload).length := by
    rw [hlen]; simp
  rw [hsub, List.take_left', List.drop_left']
  · have hc := compute_lt (ty :: payload)
    simp only [be32]
    rw [rd32_be32 _ hc]
    simp
  · rfl
  · rfl

/-! ### datagrams -/

theorem take_append_length {α} (a b : List α) (n : Nat) (h : n = a.length) : (a ++ b).take n = a := by
  subst h; simp

theorem drop_append_length {α} (a b : List α) (n : Nat) (h : n = a.length) : (a ++ b).drop n = b := by
  subst h; simp

theorem readDatagram_encode (d : Datagram) (h : DatagramOk d) (rest : List Nat) :
    readDatagram (encodeDatagram d ++ rest) = some (d, rest) := by
  obtain ⟨s, c, w, p, f, l, data⟩ := d
  obtain ⟨hc, hs, hw, hp, hf, hl, hfl, hd⟩ := h
  simp only at hc hs hw hp hf hl hfl hd
  have hlen : data.length % 2^16 = data.length := Nat.mod_eq_of_lt hd
  unfold encodeDatagram
  simp only [hlen]
  split
  · -- micro
    rename_i hm
    obtain ⟨hl0, hd64, hw128, hp256⟩ := hm
    have hf0 := hfl hl0
    subst hl0; subst hf0
    simp only [List.cons_append, List.nil_append, readDatagram, DATAGRAM_HEADER_SIZE_MIN, DATAGRAM_HEADER_SIZE_MICRO, List.length_cons, List.length_append]
    have h1 : ¬ (data.length + rest.length + 1 + 1 + 1 + 1 + 1 + 1 < 6) := by omega
    rw [if_neg h1]
    have h2 : (data.length % 256 + c / 16 % 2 * 64) / 128 % 2 = 0 := by omega
    rw [if_pos h2]
    have h3 : (data.length % 256 + c / 16 % 2 * 64) % 64 = data.length := by omega
    simp only [h3]
    have h4 : ¬ (data.length + rest.length < data.length) := by omega
    rw [if_neg h4]
    rw [take_append_length _ _ _ rfl, drop_append_length _ _ _ rfl]
    have e1 : (w % 256 + c / 32 % 2 * 128) / 128 % 2 * 32 + (data.length % 256 + c / 16 % 2 * 64) / 64 % 2 * 16 +
        (s / 2 ^ 12 % 256 / 16 * 16 + c % 16) % 16 = c := by omega
    have e2 : (s / 2 ^ 12 % 256 / 16 * 16 + c % 16) / 16 % 16 * 2 ^ 16 + s / 2 ^ 8 % 256 * 2 ^ 8 + s % 256 = s := by omega
    have e3 : (w % 256 + c / 32 % 2 * 128) % 128 = w := by omega
    have e4 : p % 256 = p := by omega
    rw [e1, e2, e3, e4]
  · split
    · -- small
      rename_i hnm hsm
      obtain ⟨hl0, hd256⟩ := hsm
      have hf0 := hfl hl0
      subst hl0; subst hf0
      simp only [be16, List.cons_append, List.nil_append, List.append_assoc, readDatagram, DATAGRAM_HEADER_SIZE_MIN, DATAGRAM_HEADER_SIZE_MICRO,
        List.length_cons, List.length_append]
      have h1 : ¬ (data.length + rest.length + 1 + 1 + 1 + 1 + 1 + 1 + 1 + 1 + 1 < 6) := by omega
      rw [if_neg h1]
      have h2 : ¬ ((c % 128 + 128) / 128 % 2 = 0) := by omega
      rw [if_neg h2]
      have h3 : (c % 128 + 128) / 64 % 2 = 0 := by omega
      rw [if_pos h3]
      have h5 : data.length % 256 = data.length := by omega
      simp only [h5]
      have h4 : ¬ (data.length + rest.length < data.length) := by omega
      rw [if_neg h4]
      rw [take_append_length _ _ _ rfl, drop_append_length _ _ _ rfl]
      have e1 : (c % 128 + 128) % 64 = c := by omega
      have e2 : s / 2 ^ 16 % 256 % 16 * 2 ^ 16 + s / 2 ^ 8 % 256 * 2 ^ 8 + s % 256 = s := by omega
      rw [e1, e2, rd16_be16 _ hw, rd16_be16 _ hp]
    · -- large
      rename_i hnm hns
      simp only [be16, List.cons_append, List.nil_append, List.append_assoc, readDatagram, DATAGRAM_HEADER_SIZE_MIN, DATAGRAM_HEADER_SIZE_MICRO,
        List.length_cons, List.length_append]
      have h1 : ¬ (data.length + rest.length + 1 + 1 + 1 + 1 + 1 + 1 + 1 + 1 + 1 + 1 + 1 + 1 + 1 + 1 < 6) := by omega
      rw [if_neg h1]
      have h2 : ¬ ((c % 64 + 192) / 128 % 2 = 0) := by omega
      rw [if_neg h2]
      have h3 : ¬ ((c % 64 + 192) / 64 % 2 = 0) := by omega
      rw [if_neg h3]
      rw [rd16_be16 _ hd]
      have h4 : ¬ (data.length + rest.length < data.length) := by omega
      rw [if_neg h4]
      rw [take_append_length _ _ _ rfl, drop_append_length _ _ _ rfl]
      have e1 : (c % 64 + 192) % 64 = c := by omega
      have e2 : s / 2 ^ 16 % 256 % 16 * 2 ^ 16 + s / 2 ^ 8 % 256 * 2 ^ 8 + s % 256 = s := by omega
      rw [e1, e2, rd16_be16 _ hw, rd16_be16 _ hp, rd16_be16 _ hf, rd16_be16 _ hl]


theorem readDatagrams_encode (dgs : List Datagram) (h : ∀ d ∈ dgs, DatagramOk d) (rest : List Nat) :
    readDatagrams dgs.length (dgs.flatMap encodeDatagram ++ rest) = some (dgs, rest) := by
  induction dgs with
  | nil => simp [readDatagrams]
  | cons d ds ih =>
    have hd := h d (by simp)
    have hds : ∀ x ∈ ds, DatagramOk x := fun x hx => h x (by simp [hx])
    simp only [List.length_cons, List.flatMap_cons, List.append_assoc, readDatagrams]
    rw [readDatagram_encode d hd]
    simp only [ih hds]

/-! ### ack groups -/

theorem readAckGroup_encode (a : AckGroup) (h : AckGroupOk a) (rest : List Nat) :
    readAckGroup (encodeAckGroup a ++ rest) = some (a, rest) := by
  obtain ⟨b, f, n⟩ := a
  obtain ⟨hb, hf⟩ := h
  simp only at hb hf
  simp only [encodeAckGroup, be32, List.cons_append, List.nil_append, readAckGroup]
  rw [rd32_be32 _ hb, rd32_be32 _ hf]
  cases n <;> simp

theorem readAckGroups_encode (acks : List AckGroup) (h : ∀ a ∈ acks, AckGroupOk a) (rest : List Nat) :
    readAckGroups acks.length (acks.flatMap encodeAckGroup ++ rest) = some (acks, rest) := by
  induction acks with
  | nil => simp [readAckGroups]
  | cons a as ih =>
    have ha := h a (by simp)
    have has : ∀ x ∈ as, AckGroupOk x := fun x hx => h x (by simp [hx])
    simp only [List.length_cons, List.flatMap_cons, List.append_assoc, readAckGroups]
    rw [readAckGroup_encode a ha]
    simp only [ih has]

/-! ### frames -/

theorem decode_encode (f : Frame) (h : Representable f) : decode (encode f) = some f := by
  unfold encode
  cases f with
  | syn v n r p a =>
    obtain ⟨hv, hn, hr, hp, ha⟩ := h
    simp only [encodeBody, be32, zeros, List.cons_append, List.nil_append, List.append_assoc]
    rw [decode_withCrc]
    simp only [readPayload, HANDSHAKE_SYN_FRAME_ID, HANDSHAKE_SYN_FRAME_PAYLOAD_SIZE,
      MAX_FRAME_SIZE, FRAME_CRC_SIZE, List.length_cons, List.length_replicate, if_true]
    rw [rd32_be32 _ hn, rd32_be32 _ hr, rd32_be32 _ hp, rd32_be32 _ ha, Nat.mod_eq_of_lt hv]
    simp
  | synAck na n r p a =>
    obtain ⟨hna, hn, hr, hp, ha⟩ := h
    simp only [encodeBody, be32, List.cons_append, List.nil_append, List.append_assoc]
    rw [decode_withCrc]
    simp only [readPayload, HANDSHAKE_SYN_FRAME_ID, HANDSHAKE_SYN_ACK_FRAME_ID]
    rw [rd32_be32 _ hna, rd32_be32 _ hn, rd32_be32 _ hr, rd32_be32 _ hp, rd32_be32 _ ha]
    simp
  | hsAck na =>
    simp only [encodeBody, be32, List.cons_append, List.nil_append, List.append_assoc]
    rw [decode_withCrc]
    simp only [readPayload, HANDSHAKE_SYN_FRAME_ID, HANDSHAKE_SYN_ACK_FRAME_ID, HANDSHAKE_ACK_FRAME_ID]
    rw [rd32_be32 _ h]
    simp
  | hsError na e =>
    simp only [encodeBody, be32, List.cons_append, List.nil_append, List.append_assoc]
    rw [decode_withCrc]
    simp only [readPayload, HANDSHAKE_SYN_FRAME_ID, HANDSHAKE_SYN_ACK_FRAME_ID, HANDSHAKE_ACK_FRAME_ID,
      HANDSHAKE_ERROR_FRAME_ID]
    rw [rd32_be32 _ h]
    cases e <;> simp [HsError.toNat]
  | disconnect =>
    simp only [encodeBody]
    rw [decode_withCrc]
    simp [readPayload, HANDSHAKE_SYN_FRAME_ID, HANDSHAKE_SYN_ACK_FRAME_ID, HANDSHAKE_ACK_FRAME_ID, HANDSHAKE_ERROR_FRAME_ID, DISCONNECT_FRAME_ID]
  | disconnectAck =>
    simp only [encodeBody]
    rw [decode_withCrc]
    simp [readPayload, HANDSHAKE_SYN_FRAME_ID, HANDSHAKE_SYN_ACK_FRAME_ID, HANDSHAKE_ACK_FRAME_ID, HANDSHAKE_ERROR_FRAME_ID, DISCONNECT_FRAME_ID, DISCONNECT_ACK_FRAME_ID]
  | data sid nonce dgs =>
    obtain ⟨hs, hl, hd⟩ := h
    simp only [encodeBody, be32, List.cons_append, List.nil_append, List.append_assoc]
    rw [decode_withCrc]
    simp only [readPayload, HANDSHAKE_SYN_FRAME_ID, HANDSHAKE_SYN_ACK_FRAME_ID, HANDSHAKE_ACK_FRAME_ID,
      HANDSHAKE_ERROR_FRAME_ID, DISCONNECT_FRAME_ID, DISCONNECT_ACK_FRAME_ID, DATA_FRAME_ID]
    rw [rd32_be32 _ hs]
    have hlt : dgs.length % 256 = dgs.length := by omega
    have h128 : ¬ (dgs.length / 128 % 2 = 1) := by omega
    simp only [hlt, if_neg h128]
    have hc : (if nonce then dgs.length + 128 else dgs.length) % 128 = dgs.length := by
      cases nonce <;> simp <;> omega
    have hn : ((if nonce then dgs.length + 128 else dgs.length) / 128 % 2 = 1) = (nonce = true) := by
      cases nonce <;> simp <;> omega
    have hrd := readDatagrams_encode dgs hd []
    simp only [List.append_nil] at hrd
    simp only [show (10:Nat) = 0 ↔ False by decide, show (10:Nat) = 1 ↔ False by decide, show (10:Nat) = 2 ↔ False by decide,
      show (10:Nat) = 3 ↔ False by decide, show (10:Nat) = 4 ↔ False by decide, show (10:Nat) = 5 ↔ False by decide, if_false, if_true]
    rw [hc, hrd]
    simp only [hn]
    cases nonce <;> simp
  | sync f p =>
    obtain ⟨hf, hp⟩ := h
    cases f <;> cases p <;>
      simp only [OptOk] at hf hp <;>
      simp only [encodeBody, be32, List.cons_append, List.nil_append, List.append_assoc, Option.getD, Option.isSome] <;>
      rw [decode_withCrc] <;>
      simp [readPayload, HANDSHAKE_SYN_FRAME_ID, HANDSHAKE_SYN_ACK_FRAME_ID, HANDSHAKE_ACK_FRAME_ID,
        HANDSHAKE_ERROR_FRAME_ID, DISCONNECT_FRAME_ID, DISCONNECT_ACK_FRAME_ID, DATA_FRAME_ID, SYNC_FRAME_ID] <;>
      (try constructor) <;> (unfold rd32; omega)
  | ack fb pb acks =>
    obtain ⟨hfb, hpb, hl, ha⟩ := h
    simp only [encodeBody, be32, be16, List.cons_append, List.nil_append, List.append_assoc]
    rw [decode_withCrc]
    simp only [readPayload, HANDSHAKE_SYN_FRAME_ID, HANDSHAKE_SYN_ACK_FRAME_ID, HANDSHAKE_ACK_FRAME_ID,
      HANDSHAKE_ERROR_FRAME_ID, DISCONNECT_FRAME_ID, DISCONNECT_ACK_FRAME_ID, DATA_FRAME_ID, SYNC_FRAME_ID, ACK_FRAME_ID]
    rw [rd32_be32 _ hfb, rd32_be32 _ hpb, rd16_be16 _ hl]
    have hrd := readAckGroups_encode acks ha []
    simp only [List.append_nil] at hrd
    simp only [show (12:Nat) = 0 ↔ False by decide, show (12:Nat) = 1 ↔ False by decide, show (12:Nat) = 2 ↔ False by decide,
      show (12:Nat) = 3 ↔ False by decide, show (12:Nat) = 4 ↔ False by decide, show (12:Nat) = 5 ↔ False by decide,
      show (12:Nat) = 10 ↔ False by decide, show (12:Nat) = 11 ↔ False by decide, if_false, if_true]
    rw [hrd]

end Uflow.Codec
