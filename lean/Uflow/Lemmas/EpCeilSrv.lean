import Uflow.Lemmas.EpNoTrapRun

/-!
C13 (endpoints), part 1: the server invariant of `EpNoTrapSrv.lean` with a per-connection invariant
that may depend on the ADDRESS of the connection object and on what was stored in its pending entry.

`HCOkA hc ep PInv Inv last` is the contract `HCOk` of C03 with two refinements: `Inv a h` is indexed
by the peer address `a`, and `new` is only required for the configuration `hcConfig ep ln rn rate
alloc` of ONE endpoint configuration `ep` and for handshake values `(rn, rate, alloc)` that satisfy
`PInv a rn rate alloc` ("a SYN with these fields was received from `a`"). `SInvA` says: the server's
endpoint configuration is `ep`; every pending entry for address `a` stores values satisfying `PInv a`;
every active half connection for address `a` satisfies `Inv a`. It is established by `Server.init`
and preserved, without trap, by every operation, provided the SYNs among the arrivals satisfy `PInv`.
-/

namespace Uflow.EpCeil

open Uflow Uflow.Gen Uflow.Codec Uflow.HalfConn Uflow.Endpoint Uflow.EpNoTrap

variable {H : Type}

/-- The contract, indexed by the peer address. -/
structure HCOkA (hc : HC H) (ep : EpConfig) (PInv : Nat → Nat → Nat → Nat → Prop) (Inv : Nat → H → Prop)
    (last : H → Nat) : Prop where
  new : ∀ (a ln rn rate alloc now : Nat), ln < 2^32 → PInv a rn rate alloc →
    Inv a (hc.new (hcConfig ep ln rn rate alloc) now) ∧ last (hc.new (hcConfig ep ln rn rate alloc) now) = now
  dispatch : ∀ (a : Nat) (h : H) (f : Frame), Inv a h → ∃ h', hc.dispatch h f = .ok h' ∧ Inv a h' ∧ last h' = last h
  step : ∀ (a : Nat) (h : H) (now : Nat), Inv a h → last h ≤ now →
    ∃ h', hc.step h now = .ok h' ∧ Inv a h' ∧ last h' = now
  flush : ∀ (a : Nat) (h : H) (rng : Rng), Inv a h →
    ∃ h' rng' out, hc.flush h rng = .ok (h', rng', out) ∧ Inv a h' ∧ last h' = last h
  receive : ∀ (a : Nat) (h : H), Inv a h → ∃ h' out, hc.receive h = .ok (h', out) ∧ Inv a h' ∧ last h' = last h
  send : ∀ (a : Nat) (h : H) (data : List Nat) (chan : Nat) (mode : SendMode), Inv a h →
    data.length ≤ MAX_PACKET_SIZE → chan < CHANNEL_COUNT →
    Inv a (hc.send h data chan mode) ∧ last (hc.send h data chan mode) = last h

/-- The condition on the state of a connection object for address `a` at server time `T`. -/
def StOkA (PInv : Nat → Nat → Nat → Nat → Prop) (Inv : Nat → H → Prop) (last : H → Nat) (T a : Nat) :
    RState H → Prop
  | .active h _ _ => Inv a h ∧ last h ≤ T
  | .pending ln rn r al _ => ln < 2^32 ∧ PInv a rn r al
  | _ => True

structure SInvA (ep : EpConfig) (PInv : Nat → Nat → Nat → Nat → Prop) (Inv : Nat → H → Prop)
    (last : H → Nat) (T : Nat) (s : Server H) : Prop where
  core : ∀ c ∈ s.clients ++ s.detached, StOkA PInv Inv last T c.address c.state
  cfg : s.cfg.ep = ep

variable {ep : EpConfig} {PInv : Nat → Nat → Nat → Nat → Prop} {Inv : Nat → H → Prop} {last : H → Nat}
  {T : Nat} {hc : HC H}

theorem StOkA.mono {T T' a : Nat} (h : T ≤ T') {st : RState H} (hs : StOkA PInv Inv last T a st) :
    StOkA PInv Inv last T' a st := by
  cases st with
  | active h' _ _ => exact ⟨hs.1, Nat.le_trans hs.2 h⟩
  | pending _ _ _ _ _ => exact hs
  | closing => trivial
  | closed => trivial
  | fin => trivial

theorem SInvA.mono {T T' : Nat} {s : Server H} (hi : SInvA ep PInv Inv last T s) (h : T ≤ T') :
    SInvA ep PInv Inv last T' s :=
  ⟨fun c hc => (hi.core c hc).mono h, hi.cfg⟩

theorem SInvA.init (cfg : SrvConfig) (now : Nat) (rng : Rng) (T : Nat) :
    SInvA cfg.ep PInv Inv last T (Server.init cfg now rng : Server H) :=
  ⟨fun c hc => by simp [Server.init] at hc, rfl⟩

/-- Only fields other than `clients`, `detached`, `cfg` changed. -/
theorem SInvA.of_eq {s s' : Server H} (hi : SInvA ep PInv Inv last T s) (h1 : s'.clients = s.clients)
    (h2 : s'.detached = s.detached) (h3 : s'.cfg = s.cfg) : SInvA ep PInv Inv last T s' :=
  ⟨by rw [h1, h2]; exact hi.core, by rw [h3]; exact hi.cfg⟩

/-- Replacing the event buffer. -/
theorem SInvA.setEvents {s : Server H} (hi : SInvA ep PInv Inv last T s) (ev : List SEvent) :
    SInvA ep PInv Inv last T ({ s with eventsOut := ev } : Server H) := ⟨hi.core, hi.cfg⟩

theorem SInvA.find {s : Server H} (hi : SInvA ep PInv Inv last T s) {addr : Nat} {c : RClient H}
    (hf : s.find addr = some c) : StOkA PInv Inv last T c.address c.state :=
  hi.core c (List.mem_append_left _ (Server.find_some hf).1)

theorem SInvA.byCid {s : Server H} (hi : SInvA ep PInv Inv last T s) {cid : Nat} {c : RClient H}
    (hf : s.byCid cid = some c) : StOkA PInv Inv last T c.address c.state :=
  hi.core c (Server.byCid_some hf).1

theorem SInvA.put {s : Server H} (hi : SInvA ep PInv Inv last T s) (c : RClient H)
    (hc : StOkA PInv Inv last T c.address c.state) : SInvA ep PInv Inv last T (s.put c) := by
  refine ⟨?_, by rw [Server.put_cfg]; exact hi.cfg⟩
  intro x hx
  unfold Server.put at hx
  split at hx
  · rcases List.mem_append.1 hx with hx | hx
    · simp only [List.mem_map] at hx
      obtain ⟨y, hy, rfl⟩ := hx
      split
      · exact hc
      · exact hi.core y (List.mem_append_left _ hy)
    · exact hi.core x (List.mem_append_right _ hx)
  · rcases List.mem_append.1 hx with hx | hx
    · exact hi.core x (List.mem_append_left _ hx)
    · simp only [List.mem_map] at hx
      obtain ⟨y, hy, rfl⟩ := hx
      split
      · exact hc
      · exact hi.core y (List.mem_append_right _ hy)

theorem finish_cfg (s : Server H) (c : RClient H) : (s.finish c).cfg = s.cfg := by
  unfold Server.finish; split <;> rfl

theorem SInvA.finish {s : Server H} (hi : SInvA ep PInv Inv last T s) (c : RClient H) :
    SInvA ep PInv Inv last T (s.finish c) := by
  refine ⟨?_, by rw [finish_cfg]; exact hi.cfg⟩
  intro x hx
  unfold Server.finish at hx
  split at hx
  · rcases List.mem_append.1 hx with hx | hx
    · exact hi.core x (List.mem_append_left _ (List.mem_filter.1 hx).1)
    · rcases List.mem_cons.1 hx with hx | hx
      · subst hx; trivial
      · exact hi.core x (List.mem_append_right _ hx)
  · rcases List.mem_append.1 hx with hx | hx
    · exact hi.core x (List.mem_append_left _ (List.mem_filter.1 hx).1)
    · simp only [List.mem_map] at hx
      obtain ⟨y, hy, rfl⟩ := hx
      split
      · trivial
      · exact hi.core y (List.mem_append_right _ hy)

/-! ### frame handlers -/

theorem handleSyn_inv {s : Server H} (hi : SInvA ep PInv Inv last T s)
    (addr v n r p a nowMs : Nat) (hP : PInv addr n r a) :
    SInvA ep PInv Inv last T (s.handleSyn addr v n r p a nowMs).1 := by
  unfold Server.handleSyn
  split
  · exact hi
  · simp only
    split
    · exact hi.of_eq rfl rfl rfl
    · split
      · exact hi.of_eq rfl rfl rfl
      · split
        · exact hi.of_eq rfl rfl rfl
        · split
          · exact hi.of_eq rfl rfl rfl
          · refine ⟨?_, hi.cfg⟩
            intro x hx
            simp only [List.append_assoc, List.mem_append, List.mem_cons, List.not_mem_nil, or_false] at hx
            rcases hx with hx | hx | hx
            · exact hi.core x (List.mem_append_left _ hx)
            · subst hx
              exact ⟨Nat.mod_lt _ (by decide), hP⟩
            · exact hi.core x (List.mem_append_right _ hx)

theorem handleHsAck_inv (hok : HCOkA hc ep PInv Inv last) {s : Server H} (hi : SInvA ep PInv Inv last T s)
    (addr na nowMs : Nat) : SInvA ep PInv Inv last T (s.handleHsAck hc addr na nowMs T) := by
  unfold Server.handleHsAck
  split
  · exact hi
  · rename_i c hf
    split
    · rename_i ln rn rate alloc reply hst
      split
      · have hp : ln < 2^32 ∧ PInv c.address rn rate alloc := by
          have := hi.find hf
          rw [hst] at this
          exact this
        obtain ⟨h1, h2⟩ := hok.new c.address ln rn rate alloc T hp.1 hp.2
        rw [hi.cfg]
        have := hi.put (c := { c with state := RState.active (hc.new (hcConfig ep ln rn rate alloc) T) (nowMs + ep.activeTimeoutMs) none })
          ⟨h1, Nat.le_of_eq h2⟩
        exact this.of_eq rfl rfl rfl
      · exact hi
    · exact hi

theorem handleDisconnect_ok (hok : HCOkA hc ep PInv Inv last) {s : Server H}
    (hi : SInvA ep PInv Inv last T s) (addr nowMs : Nat) :
    ∃ r, s.handleDisconnect hc addr nowMs = .ok r ∧ SInvA ep PInv Inv last T r.1 := by
  unfold Server.handleDisconnect
  split
  · exact ⟨_, rfl, hi⟩
  · rename_i c hf
    have hclose : ∀ s0 : Server H, SInvA ep PInv Inv last T s0 → ∀ ev tm,
        SInvA ep PInv Inv last T { (s0.put { c with state := .closed }) with
          eventsOut := ev, timers := tPush (s0.put { c with state := .closed }).timers tm } := by
      intro s0 h0 ev tm
      exact (h0.put { c with state := .closed } trivial).of_eq rfl rfl rfl
    split
    · exact ⟨_, rfl, hi⟩
    · rename_i h t sig hst
      have hs := hi.find hf
      rw [hst] at hs
      obtain ⟨h', out, hr, _, _⟩ := hok.receive c.address h hs.1
      rw [hr]
      exact ⟨_, rfl, hclose _ (hi.of_eq (s' := { s with eventsOut := s.eventsOut ++ out.map (SEvent.receive addr) })
        rfl rfl rfl) _ _⟩
    · exact ⟨_, rfl, hclose _ hi _ _⟩
    · exact ⟨_, rfl, hi⟩
    · exact ⟨_, rfl, hi⟩

theorem handleDisconnectAck_inv {s : Server H} (hi : SInvA ep PInv Inv last T s) (addr : Nat) :
    SInvA ep PInv Inv last T (s.handleDisconnectAck addr) := by
  unfold Server.handleDisconnectAck
  split
  · exact hi
  · rename_i c hf
    split
    · exact (hi.of_eq (s' := { s with eventsOut := s.eventsOut ++ [SEvent.disconnect addr] }) rfl rfl rfl).finish c
    · exact hi

theorem handleTraffic_ok (hok : HCOkA hc ep PInv Inv last) {s : Server H} (hi : SInvA ep PInv Inv last T s)
    (addr : Nat) (f : Frame) (nowMs : Nat) :
    ∃ s', s.handleTraffic hc addr f nowMs = .ok s' ∧ SInvA ep PInv Inv last T s' := by
  unfold Server.handleTraffic
  split
  · exact ⟨_, rfl, hi⟩
  · rename_i c hf
    split
    · rename_i h t sig hst
      have hs := hi.find hf
      rw [hst] at hs
      obtain ⟨h', hr, h1, h2⟩ := hok.dispatch c.address h f hs.1
      rw [hr]
      exact ⟨_, rfl, hi.put _ ⟨h1, by rw [h2]; exact hs.2⟩⟩
    · exact ⟨_, rfl, hi⟩

/-- `handle_frame`: ANY decoded frame from ANY address; a SYN must satisfy `PInv`. -/
theorem handleFrame_ok (hok : HCOkA hc ep PInv Inv last) {s : Server H}
    (hi : SInvA ep PInv Inv last T s) (addr : Nat) (f : Frame) (nowMs : Nat)
    (hP : ∀ v n r p a, f = .syn v n r p a → PInv addr n r a) :
    ∃ r, s.handleFrame hc addr f nowMs T = .ok r ∧ SInvA ep PInv Inv last T r.1 := by
  cases f with
  | syn v n r p a => exact ⟨_, rfl, handleSyn_inv hi addr v n r p a nowMs (hP v n r p a rfl)⟩
  | hsAck na => exact ⟨_, rfl, handleHsAck_inv hok hi addr na nowMs⟩
  | synAck _ _ _ _ _ => exact ⟨_, rfl, hi⟩
  | hsError _ _ => exact ⟨_, rfl, hi⟩
  | disconnect => exact handleDisconnect_ok hok hi addr nowMs
  | disconnectAck => exact ⟨_, rfl, handleDisconnectAck_inv hi addr⟩
  | data a b c =>
    obtain ⟨s', hr, h'⟩ := handleTraffic_ok hok hi addr (.data a b c) nowMs
    exact ⟨(s', []), by simp only [Server.handleFrame, hr]; rfl, h'⟩
  | sync a b =>
    obtain ⟨s', hr, h'⟩ := handleTraffic_ok hok hi addr (.sync a b) nowMs
    exact ⟨(s', []), by simp only [Server.handleFrame, hr]; rfl, h'⟩
  | ack a b c =>
    obtain ⟨s', hr, h'⟩ := handleTraffic_ok hok hi addr (.ack a b c) nowMs
    exact ⟨(s', []), by simp only [Server.handleFrame, hr]; rfl, h'⟩

/-- Every SYN among the datagrams satisfies `PInv` (for its source address). -/
def ArrOk (PInv : Nat → Nat → Nat → Nat → Prop) (arrivals : List (Nat × List Nat)) : Prop :=
  ∀ x ∈ arrivals, ∀ v n r p a, decode (x.2.take MAX_FRAME_SIZE) = some (.syn v n r p a) → PInv x.1 n r a

/-- `handle_frames`: ANY list of datagrams. -/
theorem handleFrames_ok (hok : HCOkA hc ep PInv Inv last) {s : Server H}
    (hi : SInvA ep PInv Inv last T s) (arrivals : List (Nat × List Nat)) (nowMs : Nat)
    (harr : ArrOk PInv arrivals) :
    ∃ r, s.handleFrames hc arrivals nowMs T = .ok r ∧ SInvA ep PInv Inv last T r.1 := by
  rw [handleFrames_eq]
  induction arrivals generalizing s with
  | nil => exact ⟨(s, []), rfl, hi⟩
  | cons a rest ih =>
    rw [List.foldlM_cons]
    have h1 : ∃ r, frameStep hc nowMs T (s, []) a = .ok r ∧ SInvA ep PInv Inv last T r.1 := by
      unfold frameStep
      split
      · exact ⟨_, rfl, hi⟩
      · rename_i f hd
        obtain ⟨r, hr, h'⟩ := handleFrame_ok hok hi a.1 f nowMs
          (fun v n r p al hf => harr a List.mem_cons_self v n r p al (by rw [hd, hf]))
        simp only [hr]
        exact ⟨_, rfl, h'⟩
    obtain ⟨⟨s1, sent1⟩, hr1, i1⟩ := h1
    rw [hr1]
    obtain ⟨r2, hr2, i2⟩ := ih i1 (fun x hx => harr x (List.mem_cons_of_mem _ hx))
    simp only [bind, Except.bind]
    rw [foldlM_frameStep_acc, hr2]
    exact ⟨_, rfl, i2⟩

/-! ### timers -/

theorem handleTimer_inv {s : Server H} (hi : SInvA ep PInv Inv last T s) (t : Timer)
    (nowMs : Nat) : SInvA ep PInv Inv last T (s.handleTimer t nowMs).1 := by
  unfold Server.handleTimer
  split
  · exact hi
  · rename_i c hb
    split
    · split
      · split
        · exact hi.of_eq rfl rfl rfl
        · exact (hi.setEvents _).finish c
      · exact hi
    · split
      · split
        · exact hi.of_eq rfl rfl rfl
        · exact (hi.setEvents _).finish c
      · exact hi
    · split
      · exact hi.finish c
      · exact hi
    · exact hi

theorem runTimers_inv (fuel : Nat) : ∀ {s : Server H}, SInvA ep PInv Inv last T s →
    ∀ (nowMs : Nat) (sent : List (Nat × List Nat)), SInvA ep PInv Inv last T (Server.runTimers fuel s nowMs sent).1 := by
  induction fuel with
  | zero => intro s hi nowMs sent; exact hi
  | succ fuel ih =>
    intro s hi nowMs sent
    rw [Server.runTimers]
    split
    · exact hi
    · split
      · exact hi
      · split
        · exact hi
        · rename_i t h hp
          have h1 : SInvA ep PInv Inv last T ({ s with timers := h } : Server H) := hi.of_eq rfl rfl rfl
          have h2 := handleTimer_inv h1 t nowMs
          exact ih h2 nowMs _

theorem activeTimeouts_ok (hok : HCOkA hc ep PInv Inv last) {s : Server H} (hi : SInvA ep PInv Inv last T s)
    (nowMs : Nat) : ∃ s', s.activeTimeouts hc nowMs = .ok s' ∧ SInvA ep PInv Inv last T s' := by
  unfold Server.activeTimeouts
  refine foldlM_ok_of_inv (fun x : Server H => SInvA ep PInv Inv last T x) _ ?_ s.active s hi
  intro b cid hb
  simp only
  split
  · exact ⟨b, rfl, hb⟩
  · rename_i c hf
    split
    · rename_i h t sig hst
      split
      · have hs := hb.byCid hf
        rw [hst] at hs
        obtain ⟨h', out, hr, _, _⟩ := hok.receive c.address h hs.1
        rw [hr]
        exact ⟨_, rfl, (hb.setEvents _).finish c⟩
      · exact ⟨b, rfl, hb⟩
    · exact ⟨b, rfl, hb⟩

/-! ### per-connection work -/

theorem stepActive_ok (hok : HCOkA hc ep PInv Inv last) {s : Server H}
    (hi : SInvA ep PInv Inv last T s) (nowMs : Nat) :
    ∃ r, s.stepActive hc nowMs T = .ok r ∧ SInvA ep PInv Inv last T r.1 := by
  unfold Server.stepActive
  refine foldlM_ok_of_inv (fun x : Server H × List (Nat × List Nat) => SInvA ep PInv Inv last T x.1) _ ?_ s.active (s, []) hi
  intro b cid hb
  simp only
  split
  · exact ⟨b, rfl, hb⟩
  · rename_i c hf
    split
    · rename_i h t sig hst
      have hs := hb.byCid hf
      rw [hst] at hs
      split <;> split <;> first
        | (obtain ⟨h', out, hr, _, _⟩ := hok.receive c.address h hs.1
           rw [hr]
           refine ⟨_, rfl, ?_⟩
           exact ((hb.setEvents _).put { c with state := .closing } trivial).of_eq rfl rfl rfl)
        | (obtain ⟨h1, hr1, i1, l1⟩ := hok.step c.address h T hs.1 hs.2
           rw [hr1]
           obtain ⟨h2, out, hr2, i2, l2⟩ := hok.receive c.address h1 i1
           simp only [hr2]
           refine ⟨_, rfl, ?_⟩
           refine SInvA.setEvents (SInvA.put hb _ ?_) _
           exact ⟨i2, by rw [l2, l1]; exact Nat.le_refl _⟩)
        | (rename_i hne; exact absurd rfl hne)
        | (rename_i hne; cases hne)
    · exact ⟨b, rfl, hb⟩

theorem flushActive_ok (hok : HCOkA hc ep PInv Inv last) {s : Server H} (hi : SInvA ep PInv Inv last T s) :
    ∃ r, s.flushActive hc = .ok r ∧ SInvA ep PInv Inv last T r.1 := by
  unfold Server.flushActive
  refine foldlM_ok_of_inv (fun x : Server H × List (Nat × List Nat) => SInvA ep PInv Inv last T x.1) _ ?_ s.active (s, []) hi
  intro b cid hb
  simp only
  split
  · exact ⟨b, rfl, hb⟩
  · rename_i c hf
    split
    · rename_i h t sig hst
      have hs := hb.byCid hf
      rw [hst] at hs
      obtain ⟨h1, rng1, out, hr, i1, l1⟩ := hok.flush c.address h b.1.rng hs.1
      rw [hr]
      refine ⟨_, rfl, ?_⟩
      have h0 : SInvA ep PInv Inv last T ({ b.1 with rng := rng1 } : Server H) := hb.of_eq rfl rfl rfl
      exact h0.put { c with state := .active h1 t sig } ⟨i1, by rw [l1]; exact hs.2⟩
    · exact ⟨b, rfl, hb⟩

/-! ### `Server::step` and the API -/

theorem step_ok (hok : HCOkA hc ep PInv Inv last) {s : Server H} (hi : SInvA ep PInv Inv last T s)
    (nowNs : Nat) (hle : T ≤ nowNs) (arrivals : List (Nat × List Nat)) (harr : ArrOk PInv arrivals) :
    ∃ s' sent evs, s.step hc nowNs arrivals = .ok (s', sent, evs) ∧ SInvA ep PInv Inv last nowNs s' := by
  have hi0 := hi.mono hle
  obtain ⟨⟨s1, sent1⟩, h1, i1⟩ := flushActive_ok hok hi0
  obtain ⟨⟨s2, sent2⟩, h2, i2⟩ := handleFrames_ok hok i1 arrivals ((nowNs - s.timeBase) / 1000000) harr
  have i3 := runTimers_inv (s2.timers.size * 12 + 16) i2 ((nowNs - s.timeBase) / 1000000) []
  obtain ⟨s4, h4, i4⟩ := activeTimeouts_ok hok i3 ((nowNs - s.timeBase) / 1000000)
  have i5 : SInvA ep PInv Inv last nowNs s4.retain := by
    refine ⟨?_, i4.cfg⟩
    intro c hc
    rcases List.mem_append.1 hc with hc | hc
    · exact i4.core c (List.mem_append_left _ hc)
    · exact i4.core c (List.mem_append_right _ (List.mem_filter.1 hc).1)
  obtain ⟨⟨s6, sent4⟩, h6, i6⟩ := stepActive_ok hok i5 ((nowNs - s.timeBase) / 1000000)
  refine ⟨{ s6 with eventsOut := [] }, sent1 ++ sent2 ++ (Server.runTimers (s2.timers.size * 12 + 16) s2 ((nowNs - s.timeBase) / 1000000) []).2 ++ sent4, s6.eventsOut, ?_, i6.of_eq rfl rfl rfl⟩
  unfold Server.step
  simp only [h1, h2]
  simp only at h4
  rw [h4]
  simp only
  split
  · rename_i t ht
    have := ht.symm.trans h6
    cases this
  · rename_i s7 sent7 ht
    have := ht.symm.trans h6
    cases this
    rfl

theorem drop_inv {s : Server H} (hi : SInvA ep PInv Inv last T s) (addr : Nat) :
    SInvA ep PInv Inv last T (s.drop addr) := by
  unfold Server.drop
  split
  · exact hi.finish _
  · exact hi

theorem send_inv (hok : HCOkA hc ep PInv Inv last) {s : Server H} (hi : SInvA ep PInv Inv last T s) (addr : Nat)
    (data : List Nat) (chan : Nat) (mode : SendMode) (hlen : data.length ≤ MAX_PACKET_SIZE)
    (hch : chan < CHANNEL_COUNT) : SInvA ep PInv Inv last T (s.send hc addr data chan mode) := by
  unfold Server.send
  split
  · rename_i c hf
    split
    · rename_i h t sig hst
      have hs := hi.find hf
      rw [hst] at hs
      obtain ⟨h1, h2⟩ := hok.send c.address h data chan mode hs.1 hlen hch
      exact hi.put _ ⟨h1, by rw [h2]; exact hs.2⟩
    · exact hi
  · exact hi

theorem disconnect_inv {s : Server H} (hi : SInvA ep PInv Inv last T s) (addr : Nat) (m : DisconnectMode) :
    SInvA ep PInv Inv last T (s.disconnect addr m) := by
  unfold Server.disconnect
  split
  · rename_i c hf
    split
    · rename_i h t sig hst
      have hs := hi.find hf
      rw [hst] at hs
      exact hi.put { c with state := .active h t (some m) } hs
    · exact hi
  · exact hi

/-! ### runs -/

theorem apply_ok (hok : HCOkA hc ep PInv Inv last) {s : Server H} (hi : SInvA ep PInv Inv last T s) (op : SOp)
    (hop : sopOk T op = true) (harr : ArrOk PInv op.arrivals) :
    ∃ s' sent evs, s.apply hc op = .ok (s', sent, evs) ∧ SInvA ep PInv Inv last (sopTime T op) s' := by
  cases op with
  | step now arr =>
    simp only [sopOk, decide_eq_true_eq] at hop
    exact step_ok hok hi now hop arr harr
  | flush =>
    obtain ⟨⟨s', sent⟩, hr, hi'⟩ := flushActive_ok hok hi
    exact ⟨s', sent, [], by simp only [Server.apply, Server.flush, hr], hi'⟩
  | drop addr => exact ⟨_, [], [], rfl, drop_inv hi addr⟩
  | disconnect addr m => exact ⟨_, [], [], rfl, disconnect_inv hi addr m⟩
  | send addr data chan mode =>
    simp only [sopOk, Bool.and_eq_true, decide_eq_true_eq] at hop
    exact ⟨_, [], [], rfl, send_inv hok hi addr data chan mode hop.1 hop.2⟩

theorem runS_ok (hok : HCOkA hc ep PInv Inv last) (ops : List SOp) : ∀ {T : Nat} {s : Server H},
    SInvA ep PInv Inv last T s → sopsOk T ops = true → (∀ op ∈ ops, ArrOk PInv op.arrivals) →
    ∃ s' sent evs, runS hc s ops = .ok (s', sent, evs) ∧ SInvA ep PInv Inv last (sopsTime T ops) s' := by
  induction ops with
  | nil => intro T s hi _ _; exact ⟨s, [], [], rfl, hi⟩
  | cons op rest ih =>
    intro T s hi hop harr
    simp only [sopsOk, Bool.and_eq_true] at hop
    obtain ⟨s1, sent1, evs1, h1, i1⟩ := apply_ok hok hi op hop.1 (harr op List.mem_cons_self)
    obtain ⟨s2, sent2, evs2, h2, i2⟩ := ih i1 hop.2 (fun o ho => harr o (List.mem_cons_of_mem _ ho))
    exact ⟨s2, sent1 ++ sent2, evs1 ++ evs2, by simp only [runS, h1, h2], i2⟩

end Uflow.EpCeil
