import Uflow.Lemmas.PRecvLoops

/-!
Helper lemmas for C06 / C03 (receiver), part 5: `receive`, `resynchronize` and the hostile driver
`run` preserve the invariant without trapping.
-/

namespace Uflow.PRecv

open Uflow Uflow.Gen Uflow.Codec

/-! ### `windowLoop`, `resyncLoop`: termination, results are valid ids -/

theorem windowLoop_ok (s : State) (endId : Nat) (he : endId < 2^20) :
    ∀ (fuel seq nb : Nat), seq < 2^20 → nb < 2^20 → pidSub endId seq < fuel →
      ∃ r, windowLoop fuel s seq endId nb = .ok r ∧ r < 2^20 := by
  intro fuel
  induction fuel with
  | zero => intro seq nb _ _ hf; exact absurd hf (Nat.not_lt_zero _)
  | succ fuel ih =>
    intro seq nb hs hnb hf
    rw [windowLoop]
    by_cases heq : seq = endId
    · rw [if_pos heq]; exact ⟨nb, rfl, hnb⟩
    · rw [if_neg heq]
      have hstep := pidSub_step seq endId hs he heq
      have hn := pidAdd_lt seq 1
      simp only
      split
      · split
        · exact ih _ _ hn hn (by omega)
        · exact ⟨nb, rfl, hnb⟩
      · exact ih _ _ hn hnb (by omega)

theorem resyncLoop_ok (s : State) (target : Nat) (ht : target < 2^20) :
    ∀ (fuel seq : Nat), seq < 2^20 → pidSub target seq < fuel →
      ∃ r, resyncLoop fuel s seq target = .ok r ∧ r < 2^20 := by
  intro fuel
  induction fuel with
  | zero => intro seq _ hf; exact absurd hf (Nat.not_lt_zero _)
  | succ fuel ih =>
    intro seq hs hf
    rw [resyncLoop]
    by_cases heq : seq = target
    · rw [if_pos heq]; exact ⟨seq, rfl, hs⟩
    · rw [if_neg heq]
      have hstep := pidSub_step seq target hs ht heq
      split
      · exact ⟨seq, rfl, hs⟩
      · exact ih _ (pidAdd_lt seq 1) (by omega)

/-! ### `deliverLoop` -/

/-- State after a packet is handed to the application, before the channel base is moved. -/
def dlDeliver (s : State) (i : Nat) (sl : Slot) (ch : Chan) : State :=
  if ch.count - 1 = 0 then
    { setSlot s i { sl with data := none, dataFlag := false } with
      chans := s.chans.set sl.chan { ch with count := ch.count - 1 }
      readyFlags := s.readyFlags.set sl.chan false }
  else
    { setSlot s i { sl with data := none, dataFlag := false } with
      chans := s.chans.set sl.chan { ch with count := ch.count - 1 } }

def dlOut (sl : Slot) (out : List (List Nat)) : List (List Nat) :=
  match sl.data with
  | none => out
  | some data => out ++ [data]

/-- One iteration of the delivery pass on the slot `sl` of `seq`. -/
def dlBody (base fuel : Nat) (s : State) (seq endId : Nat) (out : List (List Nat)) (sl : Slot) :
    R (State × List (List Nat)) :=
  if sl.dataFlag then
    match s.readyFlags[sl.chan]? with
    | none => .error .overflow
    | some false => deliverLoop base fuel s (pidAdd seq 1) endId out
    | some true =>
      match chanBase s sl.chan base with
      | .error t => .error t
      | .ok cb =>
        if sl.cpl = 0 ∨ sl.cpl > pidSub seq cb then
          match s.chans[sl.chan]? with
          | none => .error .index
          | some ch =>
            if ch.count = 0 then .error .overflow else
            match setChannelBase (dlDeliver s (widx s seq) sl ch) sl.chan (pidAdd seq 1) with
            | .error t => .error t
            | .ok s' => deliverLoop base fuel s' (pidAdd seq 1) endId (dlOut sl out)
        else
          deliverLoop base fuel { s with readyFlags := s.readyFlags.set sl.chan false } (pidAdd seq 1) endId out
  else deliverLoop base fuel s (pidAdd seq 1) endId out

theorem deliverLoop_succ (base fuel : Nat) (s : State) (seq endId : Nat) (out : List (List Nat)) :
    deliverLoop base (fuel + 1) s seq endId out =
      if seq = endId then .ok (s, out) else
      if ¬ anyReady s then .ok (s, out) else
      dlBody base fuel s seq endId out (getSlot s (widx s seq)) := by
  rw [deliverLoop]
  split
  · rfl
  · split
    · rfl
    · rfl

theorem dlDeliver_inv {W M : Nat} {s : State} (h : Inv W M s) (seq : Nat)
    (hf : (getSlot s (widx s seq)).dataFlag = true) :
    ∃ ch, s.chans[(getSlot s (widx s seq)).chan]? = some ch ∧ 0 < ch.count ∧
      Inv W M (dlDeliver s (widx s seq) (getSlot s (widx s seq)) ch) := by
  have hi : widx s seq < W := by rw [widx_eq h]; exact wi_lt h.wpos _
  obtain ⟨ch, hch, hpos, hinv⟩ := h.unflag (widx s seq) hi hf
    { getSlot s (widx s seq) with data := none, dataFlag := false } rfl rfl rfl rfl
  refine ⟨ch, hch, hpos, ?_⟩
  unfold dlDeliver
  split
  · exact hinv _ (by simp [h.rlen])
  · exact hinv s.readyFlags h.rlen

theorem deliverLoop_inv {W M : Nat} (base endId : Nat) (he : endId < 2^20) :
    ∀ (fuel : Nat) (s : State) (seq : Nat) (out : List (List Nat)), Inv W M s → seq < 2^20 →
      pidSub endId seq < fuel →
      ∃ s' out', deliverLoop base fuel s seq endId out = .ok (s', out') ∧ Inv W M s' := by
  intro fuel
  induction fuel with
  | zero => intro s seq out _ _ hf; exact absurd hf (Nat.not_lt_zero _)
  | succ fuel ih =>
    intro s seq out h hs hfuel
    rw [deliverLoop_succ]
    by_cases heq : seq = endId
    · rw [if_pos heq]; exact ⟨s, out, rfl, h⟩
    rw [if_neg heq]
    by_cases hr : ¬ anyReady s = true
    · rw [if_pos hr]; exact ⟨s, out, rfl, h⟩
    rw [if_neg hr]
    have hstep := pidSub_step seq endId hs he heq
    have hn := pidAdd_lt seq 1
    have hfuel' : pidSub endId (pidAdd seq 1) < fuel := by omega
    rw [dlBody]
    by_cases hf : (getSlot s (widx s seq)).dataFlag = true
    case neg => rw [if_neg hf]; exact ih s _ out h hn hfuel'
    rw [if_pos hf]
    have hchan : (getSlot s (widx s seq)).chan < CHANNEL_COUNT := ((h.sok (widx s seq)).flagged hf).1
    obtain ⟨b, hb⟩ := h.ready_get _ hchan
    rw [hb]
    cases b with
    | false => exact ih s _ out h hn hfuel'
    | true =>
      simp only
      obtain ⟨cb, hcb⟩ := chanBase_ok h _ hchan base
      rw [hcb]
      simp only
      split
      · obtain ⟨ch, hch, hpos, hinv⟩ := dlDeliver_inv h seq hf
        rw [hch]
        simp only
        rw [if_neg (by omega)]
        obtain ⟨s2, hs2, hinv2⟩ := setChannelBase_inv hinv _ hchan (pidAdd seq 1)
        rw [hs2]
        exact ih s2 _ _ hinv2 hn hfuel'
      · exact ih _ _ out (h.setReady _ (by simp [h.rlen])) hn hfuel'

/-! ### `receive`, `resynchronize`

The model's `match`es are first turned into `bindR` by explicit rewriting (with `advanceWindow`
abstracted), so that no step asks Lean to evaluate a loop or `advanceWindow`. -/

theorem rmatchS {β : Type} (x : R State) (k : State → R β) :
    idLoop.match_1 (fun _ => R β) x (fun t => .error t) k = bindR x k := by
  cases x <;> rfl

theorem rmatchN {β : Type} (x : R Nat) (k : Nat → R β) :
    handleDatagram.match_3 (fun _ => R β) x (fun t => .error t) k = bindR x k := by
  cases x <;> rfl

theorem rmatchP {β : Type} (x : R (State × List (List Nat))) (k : State → List (List Nat) → R β) :
    receive.match_1 (fun _ => R β) x (fun t => .error t) k = bindR x (fun p => k p.1 p.2) := by
  rcases x with t | ⟨s, o⟩ <;> rfl

/-- What `receive` does after the delivery pass, with `advance_window` as a parameter. -/
def recvTailG (adv : State → Nat → R State) (s s1 : State) (out : List (List Nat)) :
    R (State × List (List Nat)) :=
  if s1.windowReady then
    bindR (windowLoop loopFuel { s1 with windowReady := false } s.baseId s.endId s.baseId) fun nb =>
    bindR (adv { s1 with windowReady := false } nb) fun s2 => .ok (s2, out)
  else .ok (s1, out)

theorem receive_eq (s : State) : receive s =
    bindR (deliverLoop s.baseId loopFuel s s.baseId s.endId []) fun p =>
      recvTailG advanceWindow s p.1 p.2 := by
  rw [receive]
  generalize advanceWindow = adv
  simp only [rmatchS, rmatchN, rmatchP]
  rfl

theorem receive_inv {W M : Nat} {s : State} (h : Inv W M s) :
    ∃ s' out, receive s = .ok (s', out) ∧ Inv W M s' := by
  obtain ⟨s1, out, hdl, h1⟩ := deliverLoop_inv (W := W) (M := M) s.baseId s.endId h.elt loopFuel s
    s.baseId [] h h.blt (loopFuel_gt _ _)
  rw [receive_eq, hdl, bindR_ok]
  show ∃ s' out', recvTailG advanceWindow s s1 out = .ok (s', out') ∧ Inv W M s'
  rw [recvTailG]
  by_cases hw : s1.windowReady = true
  · obtain ⟨nb, hwl, hnb⟩ := windowLoop_ok { s1 with windowReady := false } s.endId h.elt loopFuel
      s.baseId s.baseId h.blt h.blt (loopFuel_gt _ _)
    obtain ⟨s2, ha, h2⟩ := advanceWindow_inv (h1.setWindowReady false) nb hnb
    rw [if_pos hw, hwl, bindR_ok, ha, bindR_ok]
    exact ⟨_, _, rfl, h2⟩
  · rw [if_neg hw]
    exact ⟨_, _, rfl, h1⟩

theorem resynchronize_inv {W M : Nat} {s : State} (h : Inv W M s) (senderNext : Nat) :
    ∃ s', resynchronize s senderNext = .ok s' ∧ Inv W M s' := by
  rw [resynchronize]
  by_cases h1 : senderNext % 2^32 % PACKET_ID_SPAN ≠ senderNext
  · rw [if_pos h1]; exact ⟨s, rfl, h⟩
  rw [if_neg h1]
  by_cases h2 : pidSub senderNext s.baseId > s.windowSize
  · rw [if_pos h2]; exact ⟨s, rfl, h⟩
  rw [if_neg h2]
  have hlt : senderNext < 2^20 := by
    simp only [PACKET_ID_SPAN] at h1; omega
  obtain ⟨seq, hrl, hseq⟩ := resyncLoop_ok s senderNext hlt loopFuel s.baseId h.blt (loopFuel_gt _ _)
  rw [rmatchN, hrl, bindR_ok]
  exact advanceWindow_inv h seq hseq

/-! ### the hostile driver -/

/-- What the network / the peer can make the receiver do. -/
inductive Op where
  | dg (d : Datagram)
  | recv
  | resync (id : Nat)

def stepOp (s : State) : Op → R State
  | .dg d => handleDatagram s d
  | .recv => (receive s).map (·.1)
  | .resync id => resynchronize s id

/-- Runs the operations left to right; a trap ends the run. -/
def run (s : State) : List Op → R State
  | [] => .ok s
  | op :: rest =>
    match stepOp s op with
    | .error t => .error t
    | .ok s' => run s' rest

theorem stepOp_inv {W M : Nat} {s : State} (h : Inv W M s) (op : Op) :
    ∃ s', stepOp s op = .ok s' ∧ Inv W M s' := by
  cases op with
  | dg d => exact handleDatagram_inv h d
  | recv =>
    obtain ⟨s', out, hr, hinv⟩ := receive_inv h
    refine ⟨s', ?_, hinv⟩
    show (receive s).map (·.1) = .ok s'
    rw [hr]; rfl
  | resync id => exact resynchronize_inv h id

theorem run_inv {W M : Nat} (ops : List Op) : ∀ {s : State}, Inv W M s →
    ∃ s', run s ops = .ok s' ∧ Inv W M s' := by
  induction ops with
  | nil => intro s h; exact ⟨s, rfl, h⟩
  | cons op rest ih =>
    intro s h
    obtain ⟨s1, h1, hinv1⟩ := stepOp_inv h op
    obtain ⟨s2, h2, hinv2⟩ := ih hinv1
    refine ⟨s2, ?_, hinv2⟩
    rw [run, h1]
    exact h2

/-! ### consequences of the invariant used by the property theorems -/

theorem fHeld_le_fAlloc (sl : Slot) (h : SlotOk sl) : fHeld sl ≤ fAlloc sl := by
  have hasm := h.asm
  unfold fHeld fAlloc
  cases hd : sl.data with
  | none =>
    cases ha : sl.asm with
    | opened => simp [aAlloc]
    | closed a => simp [aAlloc]
    | active a chan wpl cpl last buf =>
      rw [ha] at hasm
      simp only [aAlloc, Nat.zero_add]
      exact Nat.le_of_eq hasm.1.symm
  | some d =>
    have hf : sl.dataFlag = true := by
      cases hb : sl.dataFlag with
      | true => rfl
      | false => rw [h.nodata hb] at hd; cases hd
    obtain ⟨-, a, ha, hlen⟩ := h.flagged hf
    rw [ha]
    simp only [aAlloc, Nat.add_zero]
    exact hlen d hd

theorem Inv.slot_of_mem {W M : Nat} {s : State} (h : Inv W M s) (p : Nat × Slot) (hp : p ∈ s.slots) :
    SlotOk p.2 := by
  have := h.sok p.1
  rw [lget_of_mem s.slots p h.nodup hp] at this
  exact this

theorem Inv.held_le {W M : Nat} {s : State} (h : Inv W M s) : held s ≤ s.alloc := by
  rw [held_eq, h.aeq]
  exact lsum_le_lsum fHeld fAlloc s.slots (fun p hp => fHeld_le_fAlloc p.2 (h.slot_of_mem p hp))

theorem Inv.slots_length_le {W M : Nat} {s : State} (h : Inv W M s) : s.slots.length ≤ W := by
  have := length_le_of_nodup_lt W (keys s.slots) h.nodup h.klt
  simpa [keys] using this

/-- Every state reached from `init` by a hostile run satisfies the invariant, and the run does not trap. -/
theorem run_init_inv (W b m : Nat) (hW : 0 < W) (hb : b < 2^20) (ops : List Op) :
    ∃ s', run (init W b m) ops = .ok s' ∧ Inv W (allocCeil m) s' :=
  run_inv ops (inv_init W b m hW hb)

end Uflow.PRecv
