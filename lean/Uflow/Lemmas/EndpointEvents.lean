import Uflow.Model.Endpoint

/-!
Server endpoint (`Uflow.Endpoint.Server`): list-level facts about the client map, the global
well-formedness invariant `Server.WF`, and its preservation by the primitive mutations `put`, `finish`
and "insert a new pending entry". Everything holds for every `hc : HC H`.
-/

namespace Uflow.Endpoint

open Uflow.Gen Uflow.Codec Uflow.HalfConn

variable {H : Type}

/-! ## List-level facts -/

theorem inj_of_nodup_map {α β : Type} (f : α → β) {l : List α} (hn : (l.map f).Nodup) {x y : α}
    (hx : x ∈ l) (hy : y ∈ l) (h : f x = f y) : x = y := by
  induction l with
  | nil => cases hx
  | cons z zs ih =>
    rw [List.map_cons, List.nodup_cons] at hn
    rcases List.mem_cons.mp hx with rfl | hx' <;> rcases List.mem_cons.mp hy with rfl | hy'
    · rfl
    · exact absurd (List.mem_map.mpr ⟨y, hy', h.symm⟩) hn.1
    · exact absurd (List.mem_map.mpr ⟨x, hx', h⟩) hn.1
    · exact ih hn.2 hx' hy'

/-- Lookup by address in the client map. -/
def findA (cl : List (RClient H)) (a : Nat) : Option (RClient H) := cl.find? (·.address = a)

/-- Replace the object with the identity of `c'` by `c'`. -/
def updCid (cl : List (RClient H)) (c' : RClient H) : List (RClient H) :=
  cl.map fun x => if x.cid = c'.cid then c' else x

theorem Server.find_eq (s : Server H) (a : Nat) : s.find a = findA s.clients a := rfl

theorem findA_some {cl : List (RClient H)} {a : Nat} {c : RClient H} (h : findA cl a = some c) :
    c ∈ cl ∧ c.address = a := by
  unfold findA at h
  exact ⟨List.mem_of_find?_eq_some h, by simpa using List.find?_some h⟩

theorem findA_of_mem {cl : List (RClient H)} (hn : (cl.map (·.address)).Nodup) {c : RClient H} (hc : c ∈ cl) :
    findA cl c.address = some c := by
  induction cl with
  | nil => cases hc
  | cons z zs ih =>
    rw [List.map_cons, List.nodup_cons] at hn
    unfold findA
    rw [List.find?_cons]
    rcases List.mem_cons.mp hc with rfl | hc'
    · simp
    · have hne : z.address ≠ c.address := fun e => hn.1 (List.mem_map.mpr ⟨c, hc', e.symm⟩)
      simp only [hne, decide_false]
      exact ih hn.2 hc'

theorem findA_eq_some_iff {cl : List (RClient H)} (hn : (cl.map (·.address)).Nodup) {a : Nat} {c : RClient H} :
    findA cl a = some c ↔ c ∈ cl ∧ c.address = a :=
  ⟨findA_some, fun ⟨h1, h2⟩ => h2 ▸ findA_of_mem hn h1⟩

theorem findA_eq_none_iff {cl : List (RClient H)} {a : Nat} :
    findA cl a = none ↔ ∀ x ∈ cl, x.address ≠ a := by
  simp [findA, List.find?_eq_none]

theorem map_cid_updCid (cl : List (RClient H)) (c' : RClient H) :
    (updCid cl c').map (·.cid) = cl.map (·.cid) := by
  unfold updCid
  rw [List.map_map]
  apply List.map_congr_left
  intro x _
  simp only [Function.comp]
  split
  · next h => exact h.symm
  · rfl

theorem map_address_updCid {cl : List (RClient H)} (hi : (cl.map (·.cid)).Nodup) {c c' : RClient H}
    (hc : c ∈ cl) (hcid : c'.cid = c.cid) (hadr : c'.address = c.address) :
    (updCid cl c').map (·.address) = cl.map (·.address) := by
  unfold updCid
  rw [List.map_map]
  apply List.map_congr_left
  intro x hx
  simp only [Function.comp]
  split
  · next h =>
    have : x = c := inj_of_nodup_map (·.cid) hi hx hc (h.trans hcid)
    rw [this, hadr]
  · rfl

theorem mem_updCid {cl : List (RClient H)} {c' x : RClient H} :
    x ∈ updCid cl c' ↔ ∃ y ∈ cl, (if y.cid = c'.cid then c' else y) = x := by
  unfold updCid; exact List.mem_map

/-- Lookup after replacing an entry by one with the same identity and address. -/
theorem findA_updCid {cl : List (RClient H)} (ha : (cl.map (·.address)).Nodup) (hi : (cl.map (·.cid)).Nodup)
    {c c' : RClient H} (hc : c ∈ cl) (hcid : c'.cid = c.cid) (hadr : c'.address = c.address) (a : Nat) :
    findA (updCid cl c') a = if a = c.address then some c' else findA cl a := by
  have ha' : ((updCid cl c').map (·.address)).Nodup := by rw [map_address_updCid hi hc hcid hadr]; exact ha
  split
  · next h =>
    rw [findA_eq_some_iff ha']
    exact ⟨mem_updCid.mpr ⟨c, hc, by simp [hcid]⟩, by rw [hadr, h]⟩
  · next h =>
    cases hf : findA cl a with
    | none =>
      rw [findA_eq_none_iff] at hf ⊢
      intro x hx
      obtain ⟨y, hy, rfl⟩ := mem_updCid.mp hx
      split
      · rw [hadr]; exact fun e => h e.symm
      · exact hf y hy
    | some y =>
      obtain ⟨hy, hya⟩ := findA_some hf
      rw [findA_eq_some_iff ha']
      refine ⟨mem_updCid.mpr ⟨y, hy, ?_⟩, hya⟩
      have : y.cid ≠ c'.cid := by
        intro e
        have : y = c := inj_of_nodup_map (·.cid) hi hy hc (e.trans hcid)
        rw [this] at hya; exact h hya.symm
      simp [this]

/-- Lookup after removing the entry at an address. -/
theorem findA_filter (cl : List (RClient H)) (b a : Nat) :
    findA (cl.filter (·.address ≠ b)) a = if a = b then none else findA cl a := by
  induction cl with
  | nil => simp [findA]
  | cons z zs ih =>
    unfold findA at ih ⊢
    by_cases hz : z.address = b
    · rw [List.filter_cons_of_neg (by simpa using hz), ih]
      split
      · rfl
      · next h =>
        have : ¬ z.address = a := fun e => h (e.symm.trans hz)
        rw [List.find?_cons]; simp [this]
    · rw [List.filter_cons_of_pos (by simpa using hz), List.find?_cons, List.find?_cons]
      by_cases hza : z.address = a
      · have : a ≠ b := fun e => hz (hza.trans e)
        simp [hza, this]
      · simp only [hza, decide_false]; exact ih

/-- Lookup after appending an entry. -/
theorem findA_append (cl : List (RClient H)) (c : RClient H) (a : Nat) :
    findA (cl ++ [c]) a = (findA cl a).or (if c.address = a then some c else none) := by
  unfold findA
  rw [List.find?_append]
  congr 1
  by_cases h : c.address = a <;> simp [h]

/-! ## The well-formedness invariant -/

/-- Global well-formedness of a server state. -/
structure Server.WF (s : Server H) : Prop where
  /-- at most one entry per address in the map -/
  addr : (s.clients.map (·.address)).Nodup
  /-- object identities are distinct, across the map and the detached objects -/
  cid : ((s.clients ++ s.detached).map (·.cid)).Nodup
  /-- objects removed from the map are `fin` -/
  det : ∀ d ∈ s.detached, d.state = .fin
  /-- `nextCid` is fresh -/
  fresh : ∀ c ∈ s.clients ++ s.detached, c.cid < s.nextCid
  /-- every `active` entry of the map is on the `active_clients` list -/
  act : ∀ c ∈ s.clients, c.state.isActive = true → c.cid ∈ s.active

theorem Server.WF.cidClients {s : Server H} (h : s.WF) : (s.clients.map (·.cid)).Nodup := by
  have := h.cid
  rw [List.map_append] at this
  exact (List.nodup_append.mp this).1

theorem Server.WF.init (cfg : SrvConfig) (now : Nat) (rng : Rng) : (Server.init cfg now rng : Server H).WF :=
  ⟨List.nodup_nil, List.nodup_nil, by simp [Server.init], by simp [Server.init], by simp [Server.init]⟩

theorem Server.find_some {s : Server H} {a : Nat} {c : RClient H} (h : s.find a = some c) :
    c ∈ s.clients ∧ c.address = a := findA_some h

theorem Server.find_of_mem {s : Server H} (hw : s.WF) {c : RClient H} (hc : c ∈ s.clients) :
    s.find c.address = some c := findA_of_mem hw.addr hc

theorem Server.byCid_some {s : Server H} {cid : Nat} {c : RClient H} (h : s.byCid cid = some c) :
    (c ∈ s.clients ∨ c ∈ s.detached) ∧ c.cid = cid := by
  unfold Server.byCid at h
  split at h
  · next c' hf =>
    cases h
    exact ⟨Or.inl (List.mem_of_find?_eq_some hf), by simpa using List.find?_some hf⟩
  · exact ⟨Or.inr (List.mem_of_find?_eq_some h), by simpa using List.find?_some h⟩

/-- An object found by identity whose state is not `fin` lives in the map. -/
theorem Server.byCid_clients {s : Server H} (hw : s.WF) {cid : Nat} {c : RClient H} (h : s.byCid cid = some c)
    (hnf : c.state ≠ .fin) : c ∈ s.clients ∧ c.cid = cid := by
  obtain ⟨hm, hc⟩ := Server.byCid_some h
  rcases hm with hm | hm
  · exact ⟨hm, hc⟩
  · exact absurd (hw.det c hm) hnf

theorem Server.byCid_of_mem {s : Server H} (hw : s.WF) {c : RClient H} (hc : c ∈ s.clients) :
    s.byCid c.cid = some c := by
  unfold Server.byCid
  cases hf : s.clients.find? (·.cid = c.cid) with
  | none =>
    rw [List.find?_eq_none] at hf
    exact absurd (by simp) (hf c hc)
  | some c' =>
    have h1 := List.mem_of_find?_eq_some hf
    have h2 : c'.cid = c.cid := by simpa using List.find?_some hf
    rw [inj_of_nodup_map (·.cid) hw.cidClients h1 hc h2]

theorem Server.any_cid_of_mem {s : Server H} {c : RClient H} (hc : c ∈ s.clients) (cid : Nat) (h : cid = c.cid) :
    s.clients.any (·.cid = cid) = true := by
  rw [List.any_eq_true]
  exact ⟨c, hc, by simp [h]⟩

/-! ### `put` -/

theorem Server.put_eq {s : Server H} {c c' : RClient H} (hc : c ∈ s.clients) (hcid : c'.cid = c.cid) :
    s.put c' = { s with clients := updCid s.clients c' } := by
  unfold Server.put
  rw [if_pos (Server.any_cid_of_mem hc _ hcid)]
  rfl

theorem Server.put_state_eq {s : Server H} {c : RClient H} (hc : c ∈ s.clients) (st : RState H) :
    s.put { c with state := st } = { s with clients := updCid s.clients { c with state := st } } :=
  Server.put_eq (c' := { c with state := st }) hc rfl

theorem Server.WF.put {s : Server H} (hw : s.WF) {c c' : RClient H} (hc : c ∈ s.clients)
    (hcid : c'.cid = c.cid) (hadr : c'.address = c.address)
    (hact : c'.state.isActive = true → c'.cid ∈ s.active) : (s.put c').WF := by
  rw [Server.put_eq hc hcid]
  refine ⟨?_, ?_, hw.det, ?_, ?_⟩
  · show ((updCid s.clients c').map (·.address)).Nodup
    rw [map_address_updCid hw.cidClients hc hcid hadr]; exact hw.addr
  · show ((updCid s.clients c' ++ s.detached).map (·.cid)).Nodup
    rw [List.map_append, map_cid_updCid, ← List.map_append]; exact hw.cid
  · intro x hx
    show x.cid < s.nextCid
    rcases List.mem_append.mp hx with hx | hx
    · obtain ⟨y, hy, rfl⟩ := mem_updCid.mp hx
      split
      · rw [hcid]; exact hw.fresh c (List.mem_append_left _ hc)
      · exact hw.fresh y (List.mem_append_left _ hy)
    · exact hw.fresh x (List.mem_append_right _ hx)
  · intro x hx hxa
    show x.cid ∈ s.active
    obtain ⟨y, hy, rfl⟩ := mem_updCid.mp hx
    by_cases hyc : y.cid = c'.cid
    · rw [if_pos hyc] at hxa ⊢; exact hact hxa
    · rw [if_neg hyc] at hxa ⊢; exact hw.act y hy hxa

theorem Server.find_put {s : Server H} (hw : s.WF) {c c' : RClient H} (hc : c ∈ s.clients)
    (hcid : c'.cid = c.cid) (hadr : c'.address = c.address) (a : Nat) :
    (s.put c').find a = if a = c.address then some c' else s.find a := by
  rw [Server.put_eq hc hcid]
  exact findA_updCid hw.addr hw.cidClients hc hcid hadr a

theorem Server.mem_put {s : Server H} {c c' : RClient H} (hc : c ∈ s.clients) (hcid : c'.cid = c.cid) :
    c' ∈ (s.put c').clients := by
  rw [Server.put_eq hc hcid]
  exact mem_updCid.mpr ⟨c, hc, by simp [hcid]⟩

/-! ### `finish` -/

theorem Server.finish_eq {s : Server H} {c : RClient H} (hc : c ∈ s.clients) :
    s.finish c = { s with clients := s.clients.filter (·.address ≠ c.address),
                          detached := { c with state := .fin } :: s.detached } := by
  unfold Server.finish
  simp only
  rw [if_pos (Server.any_cid_of_mem hc _ rfl)]

theorem Server.find_finish (s : Server H) (c : RClient H) (a : Nat) :
    (s.finish c).find a = if a = c.address then none else s.find a := by
  have : (s.finish c).clients = s.clients.filter (·.address ≠ c.address) := by
    unfold Server.finish; simp only; split <;> rfl
  rw [Server.find_eq, this]
  exact findA_filter s.clients c.address a

theorem Server.WF.finish {s : Server H} (hw : s.WF) {c : RClient H} (hc : c ∈ s.clients) : (s.finish c).WF := by
  rw [Server.finish_eq hc]
  have hsub : (s.clients.filter (·.address ≠ c.address)).Sublist s.clients := List.filter_sublist
  have hcid := hw.cid
  rw [List.map_append, List.nodup_append] at hcid
  obtain ⟨hn1, hn2, hdisj⟩ := hcid
  refine ⟨(hsub.map _).nodup hw.addr, ?_, ?_, ?_, ?_⟩
  · show ((s.clients.filter (·.address ≠ c.address) ++ { c with state := .fin } :: s.detached).map (·.cid)).Nodup
    rw [List.map_append, List.nodup_append]
    refine ⟨(hsub.map _).nodup hn1, ?_, ?_⟩
    · rw [List.map_cons, List.nodup_cons]
      refine ⟨?_, hn2⟩
      intro hm
      exact hdisj c.cid (List.mem_map.mpr ⟨c, hc, rfl⟩) c.cid hm rfl
    · intro x hx y hy
      obtain ⟨x', hx', rfl⟩ := List.mem_map.mp hx
      rw [List.mem_filter] at hx'
      rw [List.map_cons, List.mem_cons] at hy
      rcases hy with rfl | hy
      · intro e
        have : x' = c := inj_of_nodup_map (·.cid) hn1 hx'.1 hc e
        rw [this] at hx'
        simp at hx'
      · exact hdisj x'.cid (List.mem_map.mpr ⟨x', hx'.1, rfl⟩) y hy
  · intro d hd
    rcases List.mem_cons.mp hd with rfl | hd
    · rfl
    · exact hw.det d hd
  · intro x hx
    show x.cid < s.nextCid
    rcases List.mem_append.mp hx with hx | hx
    · exact hw.fresh x (List.mem_append_left _ (List.mem_filter.mp hx).1)
    · rcases List.mem_cons.mp hx with rfl | hx
      · exact hw.fresh c (List.mem_append_left _ hc)
      · exact hw.fresh x (List.mem_append_right _ hx)
  · intro x hx hxa
    exact hw.act x (List.mem_filter.mp hx).1 hxa

/-! ### fields that do not matter -/

/-- `WF` depends only on `clients`, `detached`, `nextCid` and (monotonically) `active`. -/
theorem Server.WF.congr {s s' : Server H} (hw : s.WF) (h1 : s'.clients = s.clients) (h2 : s'.detached = s.detached)
    (h3 : s'.nextCid = s.nextCid) (h4 : ∀ x ∈ s.active, x ∈ s'.active) : s'.WF := by
  refine ⟨by rw [h1]; exact hw.addr, by rw [h1, h2]; exact hw.cid, by rw [h2]; exact hw.det,
    by rw [h1, h2, h3]; exact hw.fresh, ?_⟩
  intro c hc hca
  rw [h1] at hc
  exact h4 _ (hw.act c hc hca)

/-! ### component-level forms (for states that also changed timers, events, rng, …) -/

theorem Server.find_of_clients {s : Server H} {cl : List (RClient H)} (h : s.clients = cl) (a : Nat) :
    s.find a = findA cl a := by rw [Server.find_eq, h]

/-- A state whose map is `s`'s with the entry `c` replaced by `c'` (same identity and address). -/
theorem Server.WF.of_updCid {s s' : Server H} (hw : s.WF) {c c' : RClient H} (hc : c ∈ s.clients)
    (hcid : c'.cid = c.cid) (hadr : c'.address = c.address)
    (h1 : s'.clients = updCid s.clients c') (h2 : s'.detached = s.detached) (h3 : s'.nextCid = s.nextCid)
    (h4 : ∀ x ∈ s.active, x ∈ s'.active) (hact : c'.state.isActive = true → c'.cid ∈ s'.active) : s'.WF := by
  refine ⟨?_, ?_, by rw [h2]; exact hw.det, ?_, ?_⟩
  · rw [h1, map_address_updCid hw.cidClients hc hcid hadr]; exact hw.addr
  · rw [h1, h2, List.map_append, map_cid_updCid, ← List.map_append]; exact hw.cid
  · intro x hx
    rw [h1, h2] at hx; rw [h3]
    rcases List.mem_append.mp hx with hx | hx
    · obtain ⟨y, hy, rfl⟩ := mem_updCid.mp hx
      split
      · rw [hcid]; exact hw.fresh c (List.mem_append_left _ hc)
      · exact hw.fresh y (List.mem_append_left _ hy)
    · exact hw.fresh x (List.mem_append_right _ hx)
  · intro x hx hxa
    rw [h1] at hx
    obtain ⟨y, hy, rfl⟩ := mem_updCid.mp hx
    by_cases hyc : y.cid = c'.cid
    · rw [if_pos hyc] at hxa ⊢; exact hact hxa
    · rw [if_neg hyc] at hxa ⊢; exact h4 _ (hw.act y hy hxa)

/-- A state whose map is `s`'s without the entry `c`, which became a detached `fin` object. -/
theorem Server.WF.of_filter {s s' : Server H} (hw : s.WF) {c : RClient H} (hc : c ∈ s.clients)
    (h1 : s'.clients = s.clients.filter (·.address ≠ c.address))
    (h2 : s'.detached = { c with state := .fin } :: s.detached) (h3 : s'.nextCid = s.nextCid)
    (h4 : ∀ x ∈ s.active, x ∈ s'.active) : s'.WF := by
  have hf := hw.finish hc
  rw [Server.finish_eq hc] at hf
  exact hf.congr h1 h2 h3 h4

/-- A state whose map is `s`'s plus a new, non-active entry with the fresh identity at a free address. -/
theorem Server.WF.of_append {s s' : Server H} (hw : s.WF) {c : RClient H} (hfree : s.find c.address = none)
    (hcc : c.cid = s.nextCid) (hna : c.state.isActive = false)
    (h1 : s'.clients = s.clients ++ [c]) (h2 : s'.detached = s.detached) (h3 : s'.nextCid = s.nextCid + 1)
    (h4 : ∀ x ∈ s.active, x ∈ s'.active) : s'.WF := by
  have hfree' := findA_eq_none_iff.mp hfree
  have hcid := hw.cid
  rw [List.map_append, List.nodup_append] at hcid
  obtain ⟨hn1, hn2, hdisj⟩ := hcid
  have hfr : ∀ x ∈ s.clients ++ s.detached, x.cid ≠ c.cid := by
    intro x hx e
    have := hw.fresh x hx
    omega
  refine ⟨?_, ?_, by rw [h2]; exact hw.det, ?_, ?_⟩
  · rw [h1, List.map_append, List.nodup_append]
    refine ⟨hw.addr, by simp, ?_⟩
    intro a ha b hb
    obtain ⟨x, hx, rfl⟩ := List.mem_map.mp ha
    simp only [List.map_cons, List.map_nil, List.mem_singleton] at hb
    rw [hb]; exact hfree' x hx
  · rw [h1, h2, List.map_append, List.map_append, List.nodup_append]
    refine ⟨?_, hn2, ?_⟩
    · rw [List.nodup_append]
      refine ⟨hn1, by simp, ?_⟩
      intro a ha b hb
      obtain ⟨x, hx, rfl⟩ := List.mem_map.mp ha
      simp only [List.map_cons, List.map_nil, List.mem_singleton] at hb
      rw [hb]; exact hfr x (List.mem_append_left _ hx)
    · intro a ha b hb
      rcases List.mem_append.mp ha with ha | ha
      · exact hdisj a ha b hb
      · simp only [List.map_cons, List.map_nil, List.mem_singleton] at ha
        obtain ⟨y, hy, rfl⟩ := List.mem_map.mp hb
        rw [ha]; exact fun e => hfr y (List.mem_append_right _ hy) e.symm
  · intro x hx
    rw [h1, h2] at hx; rw [h3]
    rcases List.mem_append.mp hx with hx | hx
    · rcases List.mem_append.mp hx with hx | hx
      · have := hw.fresh x (List.mem_append_left _ hx); omega
      · simp only [List.mem_singleton] at hx; rw [hx, hcc]; omega
    · have := hw.fresh x (List.mem_append_right _ hx); omega
  · intro x hx hxa
    rw [h1] at hx
    rcases List.mem_append.mp hx with hx | hx
    · exact h4 _ (hw.act x hx hxa)
    · simp only [List.mem_singleton] at hx
      rw [hx, hna] at hxa; cases hxa

/-- Forgetting detached objects and non-active identities of the `active` list (the `retain`). -/
theorem Server.WF.of_retain {s s' : Server H} (hw : s.WF) (h1 : s'.clients = s.clients)
    (h2 : s'.detached.Sublist s.detached) (h3 : s'.nextCid = s.nextCid)
    (h4 : ∀ c ∈ s.clients, c.state.isActive = true → c.cid ∈ s'.active) : s'.WF := by
  have hcid := hw.cid
  rw [List.map_append, List.nodup_append] at hcid
  obtain ⟨hn1, hn2, hdisj⟩ := hcid
  refine ⟨by rw [h1]; exact hw.addr, ?_, fun d hd => hw.det d (h2.subset hd), ?_, by rw [h1]; exact h4⟩
  · rw [h1, List.map_append, List.nodup_append]
    exact ⟨hn1, (h2.map _).nodup hn2, fun a ha b hb => hdisj a ha b ((h2.map _).subset hb)⟩
  · intro x hx
    rw [h1] at hx; rw [h3]
    rcases List.mem_append.mp hx with hx | hx
    · exact hw.fresh x (List.mem_append_left _ hx)
    · exact hw.fresh x (List.mem_append_right _ (h2.subset hx))

end Uflow.Endpoint
