import Uflow.Lemmas.HcFrmEmit
import Uflow.Lemmas.HcFrmAckEmit
import Uflow.Lemmas.HcSysHandlers
import Uflow.Lemmas.SyncOps

/-!
C01Hc (frame-level acknowledgements), part 5: what the operations of a half connection do to the
frame queue `fq` (sender side), the frame acknowledgement queue `aq` (receiver side) and the fragment
acknowledgement flags of the send window.
-/

namespace Uflow.HcFrm

open Uflow Uflow.Gen Uflow.Codec Uflow.HalfConn Uflow.PSend Uflow.FrameQ Uflow.HcSys Uflow.HcFrame
open Uflow.Rate (FloatOps)

variable {F : Type}

/-! ### fragment flags -/

/-- Every fragment marked acknowledged in the send window was fed to the peer's packet receiver. -/
def AckedOk (fed : List Datagram) (ps : PSend.State) : Prop :=
  ∀ w ∈ ps.win, ∀ fid ∈ w.packet.acked, ∃ d, w.packet.datagram fid = .ok d ∧ d ∈ fed

theorem AckedOk.mono {fed fed' : List Datagram} {ps : PSend.State} (h : AckedOk fed ps)
    (hf : ∀ d ∈ fed, d ∈ fed') : AckedOk fed' ps := by
  intro w hw fid hfid
  obtain ⟨d, hd, hm⟩ := h w hw fid hfid
  exact ⟨d, hd, hf d hm⟩

theorem AckedOk.of_sub {fed : List Datagram} {ps ps' : PSend.State} (h : AckedOk fed ps)
    (hs : ∀ w ∈ ps'.win, w ∈ ps.win ∨ w.packet.acked = []) : AckedOk fed ps' := by
  intro w hw fid hfid
  rcases hs w hw with h1 | h1
  · exact h w h1 fid hfid
  · rw [h1] at hfid; cases hfid

/-- The packets a chain of `emit` calls appends to the window have no fragment acknowledged. -/
theorem Emits.win_new {f : Nat} {ps ps' : PSend.State} {l : List Pending} (h : Emits f ps ps' l) :
    ∀ w ∈ ps'.win, w ∈ ps.win ∨ w.packet.acked = [] := by
  induction h with
  | nil => exact fun w hw => Or.inl hw
  | cons he _ ih =>
    intro w hw
    rcases ih w hw with h1 | h1
    · obtain ⟨_, _, _, _, _, _, hc⟩ := emit_cases _ _ _ _ he
      rcases hc with ⟨_, rfl⟩ | ⟨_, _, p, _, w0, _, _, _, _, _, _, hack, _, _, _, hwp, _, hwin, _⟩
      · exact Or.inl h1
      · rw [hwin] at h1
        rcases List.mem_append.mp h1 with h2 | h2
        · exact Or.inl h2
        · rw [List.mem_singleton.mp h2, hwp]; exact Or.inr hack
    · exact Or.inr h1

/-- One `acknowledge_fragment` of a fragment whose datagram was fed. -/
theorem ackedOk_ackFragment {fed : List Datagram} {pend : List Pending} {ps : PSend.State}
    (ha : AInv pend ps) (h : AckedOk fed ps) (uid fid : Nat) (d : Datagram) (hr : RefDg pend (uid, fid) d)
    (hd : d ∈ fed) : AckedOk fed (ackFragment ps uid fid) := by
  intro w' hw' f hf
  simp only [ackFragment, List.mem_map] at hw'
  obtain ⟨w, hw, rfl⟩ := hw'
  by_cases hc : w.packet.uid = uid ∧ ¬ fid ∈ w.packet.acked
  · rw [if_pos hc] at hf ⊢
    show ∃ d', w.packet.datagram f = .ok d' ∧ d' ∈ fed
    have hf' : f ∈ fid :: w.packet.acked := hf
    simp only [List.mem_cons] at hf'
    rcases hf' with rfl | hf'
    · obtain ⟨p, hp, hpd⟩ := hr
      have hwin := ha.win w hw
      rw [hc.1] at hwin
      simp only [] at hp
      rw [hwin] at hp
      cases hp
      exact ⟨d, hpd, hd⟩
    · exact h w hw f hf'
  · rw [if_neg hc] at hf ⊢
    exact h w hw f hf

/-! ### `flush` on the sending side -/

theorem emitSyncFrame_fq (s s' : State F) (out : List (List Nat)) (st : Stage)
    (h : emitSyncFrame s = .ok (s', out, st)) : s'.fq = s.fq := by
  unfold emitSyncFrame at h
  simp only [] at h
  repeat' split at h
  all_goals first
    | (simp only [reduceCtorEq] at h; done)
    | (simp only [Except.ok.injEq, Prod.mk.injEq] at h
       obtain ⟨rfl, _, _⟩ := h
       rfl)

theorem dataId_ack (fb pb : Nat) (gs : List AckGroup) : dataId (encode (.ack fb pb gs)) = none := by
  unfold dataId
  cases h : decode (encode (.ack fb pb gs)) with
  | none => rfl
  | some g => obtain ⟨_, _, rfl⟩ := decode_encode_ack fb pb gs g h; rfl

theorem dataId_sync (nf np : Option Nat) : dataId (encode (.sync nf np)) = none := by
  unfold dataId
  cases h : decode (encode (.sync nf np)) with
  | none => rfl
  | some g => obtain ⟨_, _, rfl⟩ := decode_encode_sync nf np g h; rfl

/-- **`flush` keeps the frame log consistent with the wire** and marks no fragment. -/
theorem flush_frm {wire : List (List Nat)} {wt : List Nat} {pend : List Pending} (s s' : State F)
    (out : List (List Nat)) (hwl : wt.length = wire.length)
    (ha : AInv pend s.ps) (hw : WInv s.fq) (hfq : FqW wire wt pend s.fq) (hids : IdSeq wire s.fq.logNext)
    (hf : flush s = .ok (s', out)) :
    ∃ l, Emits s.flushId s.ps s'.ps l ∧ WInv s'.fq ∧
      FqW (wire ++ out) (wt ++ List.replicate out.length s'.ps.nextUid) (pend ++ l) s'.fq ∧
      IdSeq (wire ++ out) s'.fq.logNext := by
  unfold flush at hf
  obtain ⟨k1, _, k3⟩ := emitAckFrames_keep s
  have k5 : ∀ b ∈ (emitAckFrames s).2.1, dataId b = none := by
    intro b hb
    obtain ⟨gs, rfl, _⟩ := (emitAckFrames_groups (fun _ => True) s (fun _ _ => trivial)).1 b hb
    exact dataId_ack _ _ _
  have k4 := HcInv.emitAckFrames_proj (·.fq) (fun fb pb s ip out => by cases ip <;> rfl) (fun s rest => rfl) s
  generalize emitAckFrames s = r at hf k1 k3 k4 k5
  obtain ⟨s1, out1, st1⟩ := r
  simp only [] at hf k1 k3 k4 k5
  have hids1 : IdSeq (wire ++ out1) s1.fq.logNext := by rw [k4]; exact hids.append_nodata out1 k5
  by_cases hst : st1 = .stop
  · rw [if_pos hst] at hf
    simp only [Except.ok.injEq, Prod.mk.injEq] at hf
    obtain ⟨rfl, rfl⟩ := hf
    refine ⟨[], by rw [k1]; exact .nil _, by rw [k4]; exact hw, ?_, hids1⟩
    rw [k4]
    exact hfq.mono _ _ _
  · rw [if_neg hst] at hf
    cases hd : emitDataFrames s1 with
    | error t => rw [hd] at hf; cases hf
    | ok v =>
      obtain ⟨s2, out2, st2⟩ := v
      rw [hd] at hf
      simp only [] at hf
      have hfq1 : FqW (wire ++ out1) (wt ++ List.replicate out1.length s2.ps.nextUid) pend s1.fq := by
        rw [k4]
        have := hfq.mono out1 (List.replicate out1.length s2.ps.nextUid) []
        rwa [List.append_nil] at this
      obtain ⟨l, hem, hw2, hfq2, hids2⟩ := emitDataFrames_ef (T := s2.ps.nextUid) s1 s2 out2 st2
        (by simp [hwl]) (Nat.le_refl _) (by rw [k1]; exact ha)
        (by rw [k4]; exact hw) hfq1 hids1 hd
      rw [k1, k3] at hem
      have hrep : ∀ (a b : Nat) (T : Nat), List.replicate (a + b) T = List.replicate a T ++ List.replicate b T :=
        fun a b T => Eq.symm List.replicate_append_replicate
      by_cases hst2 : st2 = .stop
      · rw [if_pos hst2] at hf
        simp only [Except.ok.injEq, Prod.mk.injEq] at hf
        obtain ⟨rfl, rfl⟩ := hf
        refine ⟨l, hem, hw2, ?_, by rw [← List.append_assoc]; exact hids2⟩
        rw [List.length_append, hrep]
        simp only [List.append_assoc] at hfq2 ⊢; exact hfq2
      · rw [if_neg hst2] at hf
        cases hsy : emitSyncFrame s2 with
        | error t => rw [hsy] at hf; cases hf
        | ok v3 =>
          obtain ⟨s3, out3, st3⟩ := v3
          rw [hsy] at hf
          simp only [Except.ok.injEq, Prod.mk.injEq] at hf
          obtain ⟨rfl, rfl⟩ := hf
          obtain ⟨y1, _, y3⟩ := emitSyncFrame_spec s2 _ out3 st3 hsy
          have y2 := emitSyncFrame_fq s2 _ out3 st3 hsy
          refine ⟨l, by rw [y1]; exact hem, by rw [y2]; exact hw2, ?_, ?_⟩
          rotate_left
          · rw [y2, ← List.append_assoc, ← List.append_assoc]
            refine hids2.append_nodata out3 ?_
            intro b hb
            obtain ⟨nf, np, rfl⟩ := y3 b hb
            exact dataId_sync nf np
          rw [y2, y1]
          have := hfq2.mono out3 (List.replicate out3.length s2.ps.nextUid) []
          rw [List.length_append, List.length_append, hrep, hrep]
          simp only [List.append_nil, List.append_assoc] at this ⊢
          exact this

/-! ### `step` -/

theorem stepP_fqJ (J : FrameQ.State → Prop) (ops : FloatOps F) (s s' : State F) (now nowMs : Nat)
    (w : Nat → Nat → Nat)
    (ff : FrameQ.State → Nat → Option Nat → R FrameQ.State)
    (gf : FrameQ.State → Nat → R (FrameQ.State × Option (Rate.Feedback F)))
    (rs : Rate.State F → Nat → Option (Rate.Feedback F) → R (Rate.State F × Option F))
    (rl : FrameQ.State → F → R FrameQ.State)
    (hff : ∀ q th rtt q', J q → ff q th rtt = .ok q' → J q')
    (hgf : ∀ q n q' fb, J q → gf q n = .ok (q', fb) → J q')
    (hrl : ∀ q p q', J q → rl q p = .ok q' → J q')
    (hj : J s.fq) (h : HcFrame.stepP ops s now nowMs w ff gf rs rl = .ok s') : J s'.fq ∧ s'.aq = s.aq := by
  unfold HcFrame.stepP at h
  simp only at h
  generalize hr1 : ff s.fq _ _ = r1 at h
  cases r1 with
  | error t => cases h
  | ok fq =>
    have h1 := hff _ _ _ _ hj hr1
    have hk := fun x => Uflow.SyncCycle.fill_fq ops x now
    have hka : ∀ x : State F, (fillFlushAlloc ops x now).aq = x.aq := by
      intro x; cases hx : x.timeLastFlushed <;> simp [fillFlushAlloc, hx]
    simp only at h
    generalize hr2 : gf _ _ = r2 at h
    cases r2 with
    | error t => cases h
    | ok v =>
      obtain ⟨fq2, fbk⟩ := v
      rw [(hk _).1] at hr2
      have h2 := hgf _ _ _ _ h1 hr2
      simp only at h
      generalize rs _ _ _ = r3 at h
      cases r3 with
      | error t => cases h
      | ok v3 =>
        obtain ⟨rate, reset⟩ := v3
        cases reset with
        | none =>
          simp only [Except.ok.injEq] at h
          subst h
          exact ⟨h2, hka _⟩
        | some p =>
          simp only at h
          generalize hr4 : rl fq2 p = r4 at h
          cases r4 with
          | error t => cases h
          | ok fq3 =>
            have h3 := hrl _ _ _ h2 hr4
            simp only [Except.ok.injEq] at h
            subst h
            exact ⟨h3, hka _⟩

theorem getFeedback_shape (ops : FloatOps F) (q q' : FrameQ.State) (now : Nat)
    (fb : Option (Rate.Feedback F)) (h : FrameQ.getFeedback ops q now = .ok (q', fb)) :
    q'.logNext = q.logNext ∧ q'.logBase = q.logBase ∧ q'.frames = q.frames := by
  unfold FrameQ.getFeedback at h
  split at h
  · cases h; exact ⟨rfl, rfl, rfl⟩
  · split at h
    · cases h
    · simp only at h
      split at h
      · cases h
      · cases h; exact ⟨rfl, rfl, rfl⟩

theorem resetLossRate_shape (ops : FloatOps F) (q q' : FrameQ.State) (p : F)
    (h : FrameQ.resetLossRate ops q p = .ok q') :
    q'.logNext = q.logNext ∧ q'.logBase = q.logBase ∧ q'.frames = q.frames := by
  unfold FrameQ.resetLossRate at h
  split at h
  · cases h
  · cases h; exact ⟨rfl, rfl, rfl⟩

/-- `step` keeps the frame log consistent with the wire and does not touch the acknowledgement queue. -/
theorem step_frm {wire : List (List Nat)} {wt : List Nat} {pend : List Pending} (ops : FloatOps F)
    (s s' : State F) (now : Nat)
    (hw : WInv s.fq) (hfq : FqW wire wt pend s.fq) (h : step ops s now = .ok s') :
    WInv s'.fq ∧ FqW wire wt pend s'.fq ∧ s'.aq = s.aq ∧ s'.fq.logNext = s.fq.logNext := by
  rw [step_eq] at h
  have := stepP_fqJ (fun q => (WInv q ∧ q.logNext = s.fq.logNext) ∧ FqW wire wt pend q) ops s s' now _ _ _ _ _ _
    (fun q th rtt q' hj hh => by
      obtain ⟨q2, h2, hw2⟩ := WInv_forget q th rtt hj.1.1
      rw [hh] at h2; cases h2
      exact ⟨⟨hw2, (forget_logNext th rtt hh).trans hj.1.2⟩, hj.2.forget th rtt hh⟩)
    (fun q n q' fb hj hh => by
      obtain ⟨e1, e2, e3⟩ := getFeedback_shape ops q q' n fb hh
      exact ⟨⟨WInv_feedback ops q q' n fb hj.1.1 hh, e1.trans hj.1.2⟩, hj.2.congr e1 e2 e3⟩)
    (fun q p q' hj hh => by
      obtain ⟨e1, e2, e3⟩ := resetLossRate_shape ops q q' p hh
      refine ⟨⟨?_, e1.trans hj.1.2⟩, hj.2.congr e1 e2 e3⟩
      have hj : WInv q ∧ True := ⟨hj.1.1, trivial⟩
      unfold FrameQ.resetLossRate at hh
      split at hh
      · cases hh
      · cases hh
        exact ⟨⟨hj.1.ack.rinv, hj.1.ack.bufAcked⟩, hj.1.ms, hj.1.small, hj.1.next, hj.1.win, hj.1.tail⟩)
    ⟨⟨hw, rfl⟩, hfq⟩ h
  exact ⟨this.1.1.1, this.1.2, this.2, this.1.1.2⟩

end Uflow.HcFrm
