import Uflow.Lemmas.ModesSteps
import Uflow.Lemmas.ModesFlush
import Uflow.Lemmas.Credit

/-!
C02 (per-flush progress), part 1: a datagram that has been put into the in-progress data frame of
the `DataFrameEmitter` ends up in a data frame handed to the sink — through the rest of the resend
loop, the pending loops, the final `finalize`, and `flush`.
-/

namespace Uflow.FlushProg

open Uflow Uflow.Gen Uflow.Codec Uflow.HalfConn Uflow.Wire Uflow.Modes

variable {F : Type}

/-- Some data frame of `out` carries the datagram `dg`. -/
def DataIn (dg : Datagram) (out : List (List Nat)) : Prop :=
  ∃ id nonce dgs, encode (.data id nonce dgs) ∈ out ∧ dg ∈ dgs

theorem DataIn.append_left {dg : Datagram} {a : List (List Nat)} (b : List (List Nat))
    (h : DataIn dg a) : DataIn dg (a ++ b) := by
  obtain ⟨id, n, dgs, h1, h2⟩ := h
  exact ⟨id, n, dgs, List.mem_append_left _ h1, h2⟩

theorem DataIn.append_right {dg : Datagram} (a : List (List Nat)) {b : List (List Nat)}
    (h : DataIn dg b) : DataIn dg (a ++ b) := by
  obtain ⟨id, n, dgs, h1, h2⟩ := h
  exact ⟨id, n, dgs, List.mem_append_right _ h1, h2⟩

/-- `dg` is carried by the emitter: in a frame already handed to the sink, or in the in-progress
frame. -/
def Car (dg : Datagram) (e : Emit F) : Prop :=
  DataIn dg e.out ∨ ∃ ip, e.inProg = some ip ∧ dg ∈ ip.dgs

theorem car_of_state {dg : Datagram} {e : Emit F} (s : State F) (h : Car dg e) :
    Car dg { e with s := s } := h

theorem dfeFinalize_car (dg : Datagram) (e : Emit F) (h : Car dg e) :
    DataIn dg (dfeFinalize e).out ∧ (dfeFinalize e).inProg = none := by
  unfold dfeFinalize
  cases hip : e.inProg with
  | none =>
    simp only
    rcases h with h | ⟨ip, h1, _⟩
    · exact ⟨h, hip⟩
    · rw [hip] at h1; cases h1
  | some ip =>
    simp only
    refine ⟨?_, by trivial⟩
    rcases h with h | ⟨ip', h1, h2⟩
    · exact h.append_left _
    · rw [hip] at h1; cases h1
      exact ⟨ip.frameId, ip.nonce, ip.dgs, by simp, h2⟩

theorem dfeFinalize_inProg (e : Emit F) : (dfeFinalize e).inProg = none := by
  unfold dfeFinalize
  split <;> first | assumption | rfl

/-- One `DataFrameEmitter::push`: what is carried stays carried; a refusal leaves no in-progress
frame; on success the pushed datagram is in the in-progress frame. -/
theorem dfePush_car (dg : Datagram) (e e' : Emit F) (p : PSend.Pending) (fid : Nat) (resend : Bool)
    (r : Option PushErr) (h : dfePush e p fid resend = .ok (e', r)) :
    (Car dg e → Car dg e') ∧ (r ≠ none → e'.inProg = none) ∧
    (r = none → ∃ d ip, p.datagram fid = .ok d ∧ e'.inProg = some ip ∧ d ∈ ip.dgs) := by
  have hfc := dfeFinalize_car dg e
  have hfn := dfeFinalize_inProg e
  simp only [dfePush] at h
  split at h
  · cases h
  · rename_i d hd
    split at h
    · rename_i ip hipe
      split at h
      · cases h
        exact ⟨fun hc => .inl (hfc hc).1, fun _ => hfn, fun hr => by cases hr⟩
      · split at h
        · split at h
          · cases h
            exact ⟨fun hc => .inl (hfc hc).1, fun _ => hfn, fun hr => by cases hr⟩
          · split at h
            · cases h
              exact ⟨fun hc => .inl (hfc hc).1, fun _ => hfn, fun hr => by cases hr⟩
            · cases h
              exact ⟨fun hc => .inl (hfc hc).1, fun hr => absurd rfl hr,
                fun _ => ⟨d, _, hd, rfl, by simp⟩⟩
        · cases h
          refine ⟨fun hc => ?_, fun hr => absurd rfl hr, fun _ => ⟨d, _, hd, rfl, by simp⟩⟩
          rcases hc with hc | ⟨ip', h1, h2⟩
          · exact .inl hc
          · rw [hipe] at h1; cases h1
            exact .inr ⟨_, rfl, by simp [h2]⟩
    · rename_i hipe
      split at h
      · cases h
        exact ⟨fun hc => hc, fun _ => hipe, fun hr => by cases hr⟩
      · split at h
        · cases h
          exact ⟨fun hc => hc, fun _ => hipe, fun hr => by cases hr⟩
        · cases h
          refine ⟨fun hc => ?_, fun hr => absurd rfl hr, fun _ => ⟨d, _, hd, rfl, by simp⟩⟩
          rcases hc with hc | ⟨ip', h1, _⟩
          · exact .inl hc
          · rw [hipe] at h1; cases h1

/-- A push on an emitter without in-progress frame, with non-negative credit and an open frame
window, starts a frame: exact result. -/
theorem dfePush_start (e : Emit F) (p : PSend.Pending) (fid : Nat) (resend : Bool) (dg : Datagram)
    (hip : e.inProg = none) (hA : 0 ≤ e.s.flushAlloc) (hcp : FrameQ.canPush e.s.fq = true)
    (hdg : p.datagram fid = .ok dg) :
    ∃ ip, dfePush e p fid resend =
      .ok ({ e with s := { e.s with rng := e.s.rng.next.2 }, inProg := some ip }, none) ∧
      ip.dgs = [dg] := by
  have hA' : ¬ e.s.flushAlloc < 0 := by omega
  simp only [dfePush, hdg, hip, hA', hcp, if_false, not_true_eq_false]
  exact ⟨_, rfl, rfl⟩

/-- Loop post-condition: `dg` is carried, and a loop that ends the stage leaves no in-progress
frame. -/
def Post (dg : Datagram) (e : Emit F) (st : Option Stage) : Prop :=
  Car dg e ∧ (st ≠ none → e.inProg = none)

theorem resendLoop_car (dg : Datagram) (fuel : Nat) (e e' : Emit F) (st : Option Stage)
    (hi : Car dg e) (h : resendLoop fuel e = .ok (e', st)) : Post dg e' st := by
  induction fuel generalizing e with
  | zero => simp [resendLoop] at h
  | succ n ih =>
    unfold resendLoop at h
    split at h
    · cases h; exact ⟨hi, fun hn => absurd rfl hn⟩
    · rename_i entry _
      have hpop : Car dg (match heapPop e.s.resend with
          | some (_, hh) => { e with s := { e.s with resend := hh } }
          | none => e) := by
        split <;> exact hi
      simp only at h
      split at h
      · exact ih _ hpop h
      · rename_i p hfp
        split at h
        · exact ih _ hpop h
        · split at h
          · cases h; exact ⟨hi, fun hn => absurd rfl hn⟩
          · split at h
            · cases h
            · rename_i e1 hpush
              cases h
              obtain ⟨h1, h2, _⟩ := dfePush_car dg e _ p _ _ _ hpush
              exact ⟨h1 hi, fun _ => h2 (by simp)⟩
            · rename_i e1 hpush
              cases h
              obtain ⟨h1, h2, _⟩ := dfePush_car dg e _ p _ _ _ hpush
              exact ⟨h1 hi, fun _ => h2 (by simp)⟩
            · rename_i e1 hpush
              obtain ⟨h1, _, _⟩ := dfePush_car dg e _ p _ _ _ hpush
              split at h
              · cases h
              · refine ih _ ?_ h
                exact h1 hi

theorem pendingInner_car (dg : Datagram) (fuel : Nat) (e e' : Emit F) (st : Option Stage)
    (hi : Car dg e) (h : pendingInner fuel e = .ok (e', st)) : Post dg e' st := by
  induction fuel generalizing e with
  | zero => simp [pendingInner] at h
  | succ n ih =>
    unfold pendingInner at h
    split at h
    · cases h; exact ⟨hi, fun hn => absurd rfl hn⟩
    · rename_i entry rest _
      split at h
      · refine ih _ ?_ h
        exact hi
      · rename_i p hfp
        split at h
        · refine ih _ ?_ h
          exact hi
        · split at h
          · refine ih _ ?_ h
            exact hi
          · split at h
            · cases h
            · rename_i e1 hpush
              cases h
              obtain ⟨h1, h2, _⟩ := dfePush_car dg e _ p _ _ _ hpush
              exact ⟨h1 hi, fun _ => h2 (by simp)⟩
            · rename_i e1 hpush
              cases h
              obtain ⟨h1, h2, _⟩ := dfePush_car dg e _ p _ _ _ hpush
              exact ⟨h1 hi, fun _ => h2 (by simp)⟩
            · rename_i e1 hpush
              obtain ⟨h1, _, _⟩ := dfePush_car dg e _ p _ _ _ hpush
              refine ih _ ?_ h
              simp only
              split <;> exact h1 hi

theorem refill_car (dg : Datagram) (e e1 : Emit F) (b : Bool) (hi : Car dg e)
    (h : refill e = .ok (e1, b)) : Car dg e1 := by
  unfold refill at h
  split at h
  · split at h
    · cases h
    · cases h; exact hi
    · cases h; exact hi
  · cases h; exact hi

theorem pendingOuter_car (dg : Datagram) (fuel : Nat) (e e' : Emit F) (st : Option Stage)
    (hi : Car dg e) (h : pendingOuter fuel e = .ok (e', st)) : Post dg e' st := by
  induction fuel generalizing e with
  | zero => simp [pendingOuter] at h
  | succ n ih =>
    rw [pendingOuter_eq] at h
    split at h
    · cases h
    · rename_i e1 href
      cases h
      exact ⟨refill_car dg e _ _ hi href, fun hn => absurd rfl hn⟩
    · rename_i e1 href
      have h1 := refill_car dg e _ _ hi href
      split at h
      · cases h
      · rename_i e2 st2 hin
        cases h
        exact pendingInner_car dg _ e1 _ _ h1 hin
      · rename_i e2 hin
        exact ih _ (pendingInner_car dg _ e1 _ _ h1 hin).1 h

/-- The tail of `emit_data_frames` after the resend loop: a carried datagram is in the output. -/
theorem dataTail_car (dg : Datagram) (e1 : Emit F) (st1 : Option Stage) (s' : State F)
    (out : List (List Nat)) (st : Stage) (hp : Post dg e1 st1)
    (h : (match st1 with
      | some st => (.ok (e1.s, e1.out, st) : R (State F × List (List Nat) × Stage))
      | none =>
        match pendingOuter (e1.s.ps.queue.length + e1.s.pending.length + 4) e1 with
        | .error t => .error t
        | .ok (e, some st) => .ok (e.s, e.out, st)
        | .ok (e, none) =>
          let e := dfeFinalize e
          .ok (e.s, e.out, .cont)) = .ok (s', out, st)) : DataIn dg out := by
  have out_of : ∀ (e : Emit F), Car dg e → e.inProg = none → DataIn dg e.out := by
    intro e hc hn
    rcases hc with hc | ⟨ip, h1, _⟩
    · exact hc
    · rw [hn] at h1; cases h1
  split at h
  · rename_i st0
    cases h
    exact out_of e1 hp.1 (hp.2 (by simp))
  · split at h
    · cases h
    · rename_i e2 st2 hpo
      cases h
      have := pendingOuter_car dg _ e1 _ _ hp.1 hpo
      exact out_of e2 this.1 (this.2 (by simp))
    · rename_i e2 hpo
      cases h
      have := pendingOuter_car dg _ e1 _ _ hp.1 hpo
      exact (dfeFinalize_car dg e2 this.1).1

/-- `emit_data_frames` in two stages. -/
theorem emitDataFrames_eq (s : State F) :
    emitDataFrames s =
      match resendLoop (2 * s.resend.size + 16 + s.flushAlloc.toNat) { s := s, inProg := none, out := [] } with
      | .error t => .error t
      | .ok (e1, st1) =>
        match st1 with
        | some st => .ok (e1.s, e1.out, st)
        | none =>
          match pendingOuter (e1.s.ps.queue.length + e1.s.pending.length + 4) e1 with
          | .error t => .error t
          | .ok (e, some st) => .ok (e.s, e.out, st)
          | .ok (e, none) =>
            let e := dfeFinalize e
            .ok (e.s, e.out, .cont) := by
  unfold emitDataFrames
  simp only
  generalize resendLoop _ _ = r
  rcases r with t | ⟨e1, _ | st⟩ <;> rfl

end Uflow.FlushProg
