import Uflow.Lemmas.EndpointServerAmp

/-!
Provenance of pending entries along a run (C07): the SYN-ACK stored in a pending entry was sent to
its address, in answer to a SYN datagram received from that address carrying the entry's
`remoteNonce`, rate and allocation values.
-/

namespace Uflow.Endpoint

open Uflow.Gen Uflow.Codec Uflow.HalfConn

variable {H : Type}

/-- Every pending entry's stored SYN-ACK is in the log `tx` of sent datagrams (to its address), and
the log `rx` of received datagrams contains a SYN from its address with the entry's remote values. -/
def Prov (s : Server H) (rx tx : List (Nat × List Nat)) : Prop :=
  ∀ c ∈ s.clients, ∀ ln rn r al reply, c.state = .pending ln rn r al reply →
    (c.address, reply) ∈ tx ∧
    ∃ bytes v p, (c.address, bytes) ∈ rx ∧ decode (bytes.take MAX_FRAME_SIZE) = some (.syn v rn r p al)

theorem Prov.mono {s : Server H} {rx tx rx' tx' : List (Nat × List Nat)} (h : Prov s rx tx)
    (hrx : ∀ x ∈ rx, x ∈ rx') (htx : ∀ x ∈ tx, x ∈ tx') : Prov s rx' tx' := by
  intro c hc ln rn r al reply hst
  obtain ⟨h1, bytes, v, p, h2, h3⟩ := h c hc ln rn r al reply hst
  exact ⟨htx _ h1, bytes, v, p, hrx _ h2, h3⟩

theorem Prov.of_pendSub {s s' : Server H} {rx tx : List (Nat × List Nat)} (h : Prov s rx tx)
    (hsub : ∀ c ∈ s'.clients, c.state.isPending = true → c ∈ s.clients) : Prov s' rx tx := by
  intro c hc ln rn r al reply hst
  exact h c (hsub c hc (by rw [hst]; rfl)) ln rn r al reply hst

theorem Prov.quiet {s s' : Server H} {rx tx : List (Nat × List Nat)} (h : Prov s rx tx) (q : Quiet s s') :
    Prov s' rx tx := h.of_pendSub q.pendSub

theorem Prov.frames (hc : HC H) {s : Server H} {rx tx : List (Nat × List Nat)} (hw : s.WF) (h : Prov s rx tx)
    (arrivals : List (Nat × List Nat)) (nowMs nowNs : Nat) {s' : Server H} {sent : List (Nat × List Nat)}
    (hr : s.handleFrames hc arrivals nowMs nowNs = .ok (s', sent)) :
    s'.WF ∧ Prov s' (rx ++ arrivals) (tx ++ sent) := by
  unfold Server.handleFrames at hr
  have := foldlM_ok_inv_pre
    (fun (x : Server H × List (Nat × List Nat)) (pre : List (Nat × List Nat)) =>
      x.1.WF ∧ Prov x.1 (rx ++ pre) (tx ++ x.2)) _ ?_ arrivals [] (s, []) (s', sent)
    (by simpa using ⟨hw, h⟩) hr
  · simpa using this
  · intro b pre x b' hb hf
    simp only at hf
    obtain ⟨addr, bytes⟩ := x
    have hrx : ∀ y ∈ rx ++ pre, y ∈ rx ++ (pre ++ [(addr, bytes)]) := by
      intro y hy; rw [← List.append_assoc]; exact List.mem_append_left _ hy
    split at hf
    · cases hf
      exact ⟨hb.1, hb.2.mono hrx (fun _ hy => hy)⟩
    · rename_i f hdec
      split at hf
      · cases hf
      · rename_i s1 sent1 hfr
        cases hf
        have htx : ∀ y ∈ tx ++ b.2, y ∈ tx ++ (b.2 ++ sent1) := by
          intro y hy; rw [← List.append_assoc]; exact List.mem_append_left _ hy
        obtain ⟨hw1, hq | ⟨v, n, r, p, al, hfe, hfind, _, hs1, hsent⟩ | ⟨c, na, rn, rate, alloc, reply, _, hfind, hst, hs1, _⟩⟩ :=
          Server.handleFrame_wq hc hb.1 addr f nowMs nowNs hfr
        · exact ⟨hw1, (hb.2.quiet hq).mono hrx htx⟩
        · refine ⟨hw1, ?_⟩
          subst hs1 hsent hfe
          intro c hc ln rn r' al' reply hst
          rcases List.mem_append.1 (show c ∈ b.1.clients ++ [b.1.newEntry addr n r al] from hc) with hc | hc
          · exact (hb.2.mono hrx htx) c hc ln rn r' al' reply hst
          · have hce : c = b.1.newEntry addr n r al := by simpa using hc
            subst hce
            simp only [Server.newEntry, RState.pending.injEq] at hst
            obtain ⟨_, h2, h3, h4, h5⟩ := hst
            subst h2 h3 h4 h5
            refine ⟨?_, bytes, v, p, ?_, hdec⟩
            · show (addr, b.1.synAckBytes n) ∈ tx ++ (b.2 ++ [(addr, b.1.synAckBytes n)])
              exact List.mem_append_right _ (List.mem_append_right _ List.mem_cons_self)
            · show (addr, bytes) ∈ rx ++ (pre ++ [(addr, bytes)])
              exact List.mem_append_right _ (List.mem_append_right _ List.mem_cons_self)
        · refine ⟨hw1, ?_⟩
          subst hs1
          exact ((hb.2.of_pendSub (Server.activate_pendSub hc hb.1 (Server.find_some hfind).1 na rn rate alloc nowMs nowNs))).mono hrx htx

theorem Prov.step (hc : HC H) {s : Server H} {rx tx : List (Nat × List Nat)} (hw : s.WF) (h : Prov s rx tx)
    (nowNs : Nat) (arrivals : List (Nat × List Nat)) {s' : Server H} {sent : List (Nat × List Nat)} {evs : List SEvent}
    (hr : s.step hc nowNs arrivals = .ok (s', sent, evs)) : Prov s' (rx ++ arrivals) (tx ++ sent) := by
  obtain ⟨ph⟩ := Server.step_phases hc hr
  obtain ⟨s1, sent1, s2, sent2, s4, s6, sent4, hflush, hframes, htimeouts, hstep, hs', hsent, hevs⟩ := ph
  have w1 := Server.flushActive_wq hc hw hflush
  have p1 := (h.quiet w1.2).mono (rx' := rx) (tx' := tx ++ sent1) (fun _ hy => hy) (fun _ hy => List.mem_append_left _ hy)
  obtain ⟨w2, p2⟩ := p1.frames hc w1.1 arrivals _ nowNs hframes
  have w3 := Server.runTimers_wq (s2.timers.size * 12 + 16) w2 ((nowNs - s.timeBase) / 1000000) []
  have w4 := Server.activeTimeouts_wq hc w3.1 _ htimeouts
  have w5 := Server.retain_wq w4.1
  have w6 := Server.stepActive_wq hc w5.1 _ nowNs hstep
  have p6 := (((p2.quiet w3.2).quiet w4.2).quiet w5.2).quiet w6.2
  subst hs' hsent
  refine Prov.mono (s := s6) p6 (fun _ hy => hy) ?_
  intro y hy
  simp only [List.append_assoc] at hy ⊢
  rcases List.mem_append.1 hy with hy | hy
  · exact List.mem_append_left _ hy
  · rcases List.mem_append.1 hy with hy | hy
    · exact List.mem_append_right _ (List.mem_append_left _ hy)
    · exact List.mem_append_right _ (List.mem_append_right _ (List.mem_append_left _ hy))

/-- Provenance holds in every state of every run. -/
theorem SRun.prov {hc : HC H} {cfg : SrvConfig} {s : Server H} {rx tx : List (Nat × List Nat)} {ev : List SEvent}
    (hr : SRun hc cfg s rx tx ev) : Prov s rx tx := by
  induction hr with
  | init now rng => intro c hc; simp [Server.init] at hc
  | @op s s' rx tx sent ev evs o hrun hap ih =>
    have hw := hrun.WF
    have hmono : ∀ {s1 : Server H}, Prov s1 rx tx → Prov s1 (rx ++ o.arrivals) (tx ++ sent) :=
      fun h => h.mono (fun _ hy => List.mem_append_left _ hy) (fun _ hy => List.mem_append_left _ hy)
    cases o with
    | step nowNs arr => exact ih.step hc hw nowNs arr hap
    | flush =>
      simp only [Server.apply, Server.flush] at hap
      split at hap
      · cases hap
      · rename_i s1 sent1 hfl
        cases hap
        exact hmono (ih.quiet (Server.flushActive_wq hc hw hfl).2)
    | drop addr =>
      simp only [Server.apply, Except.ok.injEq, Prod.mk.injEq] at hap
      obtain ⟨rfl, _, _⟩ := hap
      exact hmono (ih.quiet (Server.drop_wq hw addr).2)
    | disconnect addr m =>
      simp only [Server.apply, Except.ok.injEq, Prod.mk.injEq] at hap
      obtain ⟨rfl, _, _⟩ := hap
      exact hmono (ih.quiet (Server.disconnect_wq hw addr m).2)
    | send addr data chan mode =>
      simp only [Server.apply, Except.ok.injEq, Prod.mk.injEq] at hap
      obtain ⟨rfl, _, _⟩ := hap
      exact hmono (ih.quiet (Server.send_wq hc hw addr data chan mode).2)

end Uflow.Endpoint
