import Uflow.Lemmas.EpCeilCliTx
import Uflow.Lemmas.EpCeilBound

/-!
C13 (endpoints), client wire, part 2: the TRACE of an active client and the instance of `HCOkX`.

`XEv` is what happens to the socket of an `Active` client: `g e` — the endpoint does `e : GEv` to the
half connection (the frames the event returns go on the wire) — or `sa n` — a SYN-ACK carrying the
client's nonce arrived and `handle_handshake_syn_ack` answered it with `hsAckBytes n`, without touching
the half connection. `xrun ops s tr = .ok (s', w)`: final state and everything written to the socket,
in order. `xerase tr` are the `GEv`s (the projection of `EpCeilHc.lean`), `xnonces tr` the nonces of
the `sa` items. `xrun_of_grun`: `w` is a merge of the frames `out` of `grun ops s (xerase tr)` with
the handshake ACKs `(xnonces tr).map hsAckBytes`.
-/

namespace Uflow.EpCeil

open Uflow Uflow.Gen Uflow.Codec Uflow.HalfConn Uflow.Endpoint Uflow.EpNoTrap Uflow.HcInv Uflow.Credit
open Uflow.CreditBound
open Uflow.Rate (FloatOps BisectConverges)

variable {F : Type}

/-- One thing that makes an `Active` client write to its socket or changes its half connection. -/
inductive XEv where
  | g (e : GEv)
  | sa (n : Nat)

def xerase : List XEv → List GEv
  | [] => []
  | .g e :: rest => e :: xerase rest
  | .sa _ :: rest => xerase rest

def xnonces : List XEv → List Nat
  | [] => []
  | .g _ :: rest => xnonces rest
  | .sa n :: rest => n :: xnonces rest

/-- The handshake ACKs of a trace. -/
def xacks (tr : List XEv) : List (List Nat) := (xnonces tr).map hsAckBytes

/-- Runs a trace: final state and the datagrams written to the socket, in order. -/
def xrun (ops : FloatOps F) : State F → List XEv → R (State F × List (List Nat))
  | s, [] => .ok (s, [])
  | s, .g e :: rest =>
    match gexec ops s e with
    | .error t => .error t
    | .ok (s1, out) =>
      match xrun ops s1 rest with
      | .error t => .error t
      | .ok (s2, w) => .ok (s2, out ++ w)
  | s, .sa n :: rest =>
    match xrun ops s rest with
    | .error t => .error t
    | .ok (s2, w) => .ok (s2, hsAckBytes n :: w)

theorem xerase_append (a b : List XEv) : xerase (a ++ b) = xerase a ++ xerase b := by
  induction a with
  | nil => rfl
  | cons x rest ih => cases x <;> simp only [List.cons_append, xerase, ih]

theorem xnonces_append (a b : List XEv) : xnonces (a ++ b) = xnonces a ++ xnonces b := by
  induction a with
  | nil => rfl
  | cons x rest ih => cases x <;> simp only [List.cons_append, xnonces, ih]

theorem xacks_append (a b : List XEv) : xacks (a ++ b) = xacks a ++ xacks b := by
  unfold xacks; rw [xnonces_append, List.map_append]

theorem xacks_length (tr : List XEv) : (xacks tr).length = (xnonces tr).length := by
  unfold xacks; rw [List.length_map]

theorem hsAckBytes_length (n : Nat) : (hsAckBytes n).length = 9 := encode_hsAck_length n

theorem bytes_xacks (tr : List XEv) : bytes (xacks tr) = 9 * (xnonces tr).length := by
  unfold xacks bytes
  induction xnonces tr with
  | nil => rfl
  | cons n rest ih => simp only [List.map_cons, List.sum_cons, List.length_cons, hsAckBytes_length, ih]; omega

theorem xrun_cons_g (ops : FloatOps F) {s s1 s2 : State F} {e : GEv} {rest : List XEv} {out w : List (List Nat)}
    (h1 : gexec ops s e = .ok (s1, out)) (h2 : xrun ops s1 rest = .ok (s2, w)) :
    xrun ops s (.g e :: rest) = .ok (s2, out ++ w) := by
  simp only [xrun, h1, h2]

theorem xrun_cons_sa (ops : FloatOps F) {s s2 : State F} {n : Nat} {rest : List XEv} {w : List (List Nat)}
    (h2 : xrun ops s rest = .ok (s2, w)) : xrun ops s (.sa n :: rest) = .ok (s2, hsAckBytes n :: w) := by
  simp only [xrun, h2]

theorem xrun_append_ok (ops : FloatOps F) (a b : List XEv) (s s1 s2 : State F) (w1 w2 : List (List Nat))
    (h1 : xrun ops s a = .ok (s1, w1)) (h2 : xrun ops s1 b = .ok (s2, w2)) :
    xrun ops s (a ++ b) = .ok (s2, w1 ++ w2) := by
  induction a generalizing s w1 with
  | nil =>
    simp only [xrun, Except.ok.injEq, Prod.mk.injEq] at h1
    obtain ⟨rfl, rfl⟩ := h1
    simpa using h2
  | cons x rest ih =>
    cases x with
    | g e =>
      simp only [xrun] at h1
      generalize hex : gexec ops s e = r1 at h1
      cases r1 with
      | error t => cases h1
      | ok v1 =>
        obtain ⟨sa, out⟩ := v1
        simp only at h1
        generalize hrun : xrun ops sa rest = r2 at h1
        cases r2 with
        | error t => cases h1
        | ok v2 =>
          obtain ⟨sb, wb⟩ := v2
          simp only [Except.ok.injEq, Prod.mk.injEq] at h1
          obtain ⟨rfl, rfl⟩ := h1
          rw [List.cons_append, xrun_cons_g ops hex (ih sa wb hrun), List.append_assoc]
    | sa n =>
      simp only [xrun] at h1
      generalize hrun : xrun ops s rest = r2 at h1
      cases r2 with
      | error t => cases h1
      | ok v2 =>
        obtain ⟨sb, wb⟩ := v2
        simp only [Except.ok.injEq, Prod.mk.injEq] at h1
        obtain ⟨rfl, rfl⟩ := h1
        rw [List.cons_append, xrun_cons_sa ops (ih s wb hrun), List.cons_append]

/-- From a run of the projection to a run of the trace: what goes on the wire is a merge of the frames
of the half connection with the handshake ACKs of the trace. -/
theorem xrun_of_grun (ops : FloatOps F) (tr : List XEv) (s s' : State F) (out : List (List Nat)) (c : Int)
    (h : grun ops s (xerase tr) = .ok (s', out, c)) :
    ∃ w, xrun ops s tr = .ok (s', w) ∧ Interleave out (xacks tr) w := by
  induction tr generalizing s out c with
  | nil =>
    simp only [xerase, grun, Except.ok.injEq, Prod.mk.injEq] at h
    obtain ⟨rfl, rfl, _⟩ := h
    exact ⟨[], rfl, .nil⟩
  | cons x rest ih =>
    cases x with
    | g e =>
      obtain ⟨s1, o1, o2, c2, hex, hrun, rfl, _⟩ := grun_cons_inv ops s s' e (xerase rest) out c h
      obtain ⟨w, hw, hi⟩ := ih s1 o2 c2 hrun
      refine ⟨o1 ++ w, xrun_cons_g ops hex hw, ?_⟩
      have : xacks (.g e :: rest) = [] ++ xacks rest := rfl
      rw [this]
      exact (Interleave.left_only o1).append hi
    | sa n =>
      obtain ⟨w, hw, hi⟩ := ih s out c h
      exact ⟨hsAckBytes n :: w, xrun_cons_sa ops hw, .right _ hi⟩

/-! ### the instance -/

/-- `h` is what the trace `tr` makes of the half connection created at `t0` from the handshake values
`(ln, n, r, al)`, `w` is what the trace wrote to the socket, `ns` are the nonces of its handshake ACKs. -/
def InvX (ops : FloatOps F) (ep : EpConfig) (ln n r al : Nat) (w : List (List Nat)) (ns : List Nat)
    (h : State F) : Prop :=
  HcInv h ∧ ∃ t0 tr out c, Proj ops ep h ln n r al t0 (xerase tr) out c ∧
    xrun ops (init ops (hcConfig ep ln n r al) t0 rng0) tr = .ok (h, w) ∧ xnonces tr = ns

theorem hcOf_okX (ops : FloatOps F) (hconv : BisectConverges ops) (hloss : LossOk ops) (ep : EpConfig) :
    HCOkX (hcOf ops) ep (InvX ops ep) lastNow := by
  have hok := hcOf_ok ops hconv hloss
  -- appending a piece of trace
  have ext : ∀ (ln n r al : Nat) (w : List (List Nat)) (ns : List Nat) (h h' : State F) (more : List XEv)
      (o2 w2 : List (List Nat)) (c2 : Int), InvX ops ep ln n r al w ns h → HcInv h' →
      grun ops h (xerase more) = .ok (h', o2, c2) → xrun ops h more = .ok (h', w2) →
      evsOk (lastNow h) (erase (xerase more)) = true → lastNow h' = endTime (lastNow h) (erase (xerase more)) →
      InvX ops ep ln n r al (w ++ w2) (ns ++ xnonces more) h' := by
    intro ln n r al w ns h h' more o2 w2 c2 hi hi' hg hx hev ht
    obtain ⟨_, t0, tr, out, c, p, hr, hn⟩ := hi
    refine ⟨hi', t0, tr ++ more, out ++ o2, c + c2, ?_, xrun_append_ok ops tr more _ h h' w w2 hr hx, ?_⟩
    · rw [xerase_append]
      exact p.extend hg hev ht
    · rw [xnonces_append, hn]
  have one : ∀ (ln n r al : Nat) (w : List (List Nat)) (ns : List Nat) (h h' : State F) (e : Ev),
      InvX ops ep ln n r al w ns h → HcInv h' →
      exec ops h e = .ok (h', []) → evOk (lastNow h) e = true → lastNow h' = evTime (lastNow h) e →
      InvX ops ep ln n r al w ns h' := by
    intro ln n r al w ns h h' e hi hi' hex hev ht
    have := ext ln n r al w ns h h' [.g (.ev e)] [] [] (gcredit ops h (.ev e)) hi hi'
      (grun_single ops h h' (.ev e) [] hex) (by simp only [xrun, gexec, hex, List.append_nil])
      (by simp only [xerase, erase, evsOk, hev, Bool.and_true]) (by simp only [xerase, erase, endTime, ht])
    simpa [xnonces] using this
  constructor
  · intro ln rn rate alloc now hn
    exact ⟨⟨hcInv_init ops _ now _ (cfgOk_hcConfig ep ln rn rate alloc hn), now, [], [], 0,
      ⟨hn, rfl, rfl, rfl⟩, rfl, rfl⟩, rfl⟩
  · intro ln n r al w ns h f hi
    obtain ⟨h', he, hi', hl⟩ := hok.dispatch h f hi.1
    refine ⟨h', he, ?_, hl⟩
    cases f with
    | data id nonce dgs =>
      exact one ln n r al w ns h h' (.dataFrame id nonce dgs) hi hi' (exec_map_ok _ _ _ he) rfl hl
    | ack fb pb acks =>
      exact one ln n r al w ns h h' (.ackFrame fb pb acks) hi hi' (exec_map_ok _ _ _ he) rfl hl
    | sync nf np =>
      exact one ln n r al w ns h h' (.syncFrame nf np) hi hi' (exec_map_ok _ _ _ he) rfl hl
    | syn _ _ _ _ _ => cases he; exact hi
    | synAck _ _ _ _ _ => cases he; exact hi
    | hsAck _ => cases he; exact hi
    | hsError _ _ => cases he; exact hi
    | disconnect => cases he; exact hi
    | disconnectAck => cases he; exact hi
  · intro ln n r al w ns h now hi hle
    obtain ⟨h', he, hi', hl⟩ := hok.step h now hi.1 hle
    refine ⟨h', he, ?_, hl⟩
    exact one ln n r al w ns h h' (.step now) hi hi' (exec_map_ok _ _ _ he) (by simpa [evOk] using hle) hl
  · intro ln n r al w ns h rng hi
    obtain ⟨h', rng', o, he, hi', hl⟩ := hok.flush h rng hi.1
    refine ⟨h', rng', o, he, ?_, hl⟩
    have hfl : HalfConn.flush { h with rng := rng } = .ok (h', o) := by
      have hx : (hcOf ops).flush h rng =
          (HalfConn.flush { h with rng := rng }).map fun (x : State F × List (List Nat)) => (x.1, x.1.rng, x.2) := rfl
      rw [hx] at he
      generalize HalfConn.flush { h with rng := rng } = r at he
      cases r with
      | error t => cases he
      | ok v =>
        obtain ⟨v1, v2⟩ := v
        simp only [Except.map, Except.ok.injEq, Prod.mk.injEq] at he
        obtain ⟨rfl, _, rfl⟩ := he
        rfl
    have := ext ln n r al w ns h h' [.g (.rng rng), .g (.ev .flush)] o o 0 hi hi'
      (by simp only [xerase, grun, gexec, exec, hfl, gcredit, evCredit, List.nil_append, List.append_nil, Int.add_zero])
      (by simp only [xrun, gexec, exec, hfl, List.nil_append, List.append_nil])
      (by simp [xerase, erase, evsOk, evOk]) (by simp only [xerase, erase, endTime, evTime]; exact hl)
    simpa [xnonces] using this
  · intro ln n r al w ns h hi
    obtain ⟨h', o, he, hi', hl⟩ := hok.receive h hi.1
    refine ⟨h', o, he, ?_, hl⟩
    exact one ln n r al w ns h h' .receive hi hi'
      (exec_map_ok (HalfConn.receive h) (fun r : State F × List (List Nat) => (r.1, ([] : List (List Nat)))) (h', o) he)
      rfl hl
  · intro ln n r al w ns h data chan mode hi hlen hch
    obtain ⟨hi', hl⟩ := hok.send h data chan mode hi.1 hlen hch
    refine ⟨?_, hl⟩
    exact one ln n r al w ns h _ (.send data chan mode) hi hi' rfl (by simp [evOk, hlen, hch]) hl
  · intro ln n r al w ns h n' hi
    have := ext ln n r al w ns h h [.sa n'] [] [hsAckBytes n'] 0 hi hi.1 rfl rfl rfl rfl
    simpa [xnonces] using this

/-- Every client run: trap free, and `CInvX` with `InvX` for the log of ALL datagrams sent and the list
of ALL datagrams received. -/
theorem cli_run_invX (ops : FloatOps F) (hconv : BisectConverges ops) (hloss : LossOk ops) (ep : EpConfig)
    (now : Nat) (rng : Rng) (cops : List COp) (hops : copsOk 0 cops = true) :
    ∃ c' sent evs, Client.run (hcOf ops) (Client.connect ep now rng).1 cops = .ok (c', sent, evs) ∧
      CInvX ep (InvX ops ep) lastNow (copsTime 0 cops) sent (copsArrivals cops) c' := by
  obtain ⟨c', sent, evs, hr, hi⟩ := cRun_x (hcOf_okX ops hconv hloss ep) cops (tx := []) (rx := [])
    (connect_invX ep now rng 0 [] []) hops
  exact ⟨c', sent, evs, hr, by simpa using hi⟩

/-! ### the numeric bound along a trace -/

/-- `gwire_init` for a trace: for every way of writing the trace as `pre1 ++ step t1 :: pre2 ++ evs`,
everything written to the socket during `evs` is bounded by the C13 expression for the frames of the
half connection plus 9 bytes per handshake ACK of `evs`. -/
theorem xwire_init (ops : FloatOps F) {eps : Nat} (K : FillOk ops eps) (M : FillMaxOk ops) (ep : EpConfig)
    (ln n r al t0 : Nat) (hm : MSS ≤ min (ep.maxSendRate % 2^32) r)
    (hR : min (ep.maxSendRate % 2^32) r ≤ K.maxRate) (pre1 pre2 evs : List XEv) (t1 : Nat)
    (h : State F) (out w : List (List Nat)) (c : Int)
    (hrun : grun ops (init ops (hcConfig ep ln n r al) t0 rng0) (xerase (pre1 ++ .g (.ev (.step t1)) :: pre2 ++ evs)) =
      .ok (h, out, c))
    (hx : xrun ops (init ops (hcConfig ep ln n r al) t0 rng0) (pre1 ++ .g (.ev (.step t1)) :: pre2 ++ evs) = .ok (h, w))
    (hok : ∀ ev ∈ erase (xerase (pre1 ++ .g (.ev (.step t1)) :: pre2 ++ evs)), ev.Ok)
    (ht : stepsOk K.maxDt t0 (erase (xerase (pre1 ++ .g (.ev (.step t1)) :: pre2 ++ evs))) = true)
    (hns : ∀ ev ∈ erase (xerase pre2), ∀ t, ev ≠ .step t) :
    ∃ (p q s : State F) (w1 w2 w3 o3 : List (List Nat)) (c3 : Int),
      xrun ops (init ops (hcConfig ep ln n r al) t0 rng0) pre1 = .ok (p, w1) ∧ step ops p t1 = .ok q ∧
      xrun ops q pre2 = .ok (s, w2) ∧ xrun ops s evs = .ok (h, w3) ∧ w = w1 ++ w2 ++ w3 ∧
      grun ops s (xerase evs) = .ok (h, o3, c3) ∧ Interleave o3 (xacks evs) w3 ∧
      bytes w3 * 1000000000 ≤
        min (ep.maxSendRate % 2^32) r * ((endTime t1 (erase (xerase evs)) - t1) + M.rttNs p.rate.rttS) + 1472500000000 +
          K.v s.flushFrac + nSteps (erase (xerase evs)) * eps + 9 * 1000000000 * (xnonces evs).length ∧
      K.v s.flushFrac < 1000000000 := by
  have he : xerase (pre1 ++ .g (.ev (.step t1)) :: pre2 ++ evs) =
      xerase pre1 ++ .ev (.step t1) :: xerase pre2 ++ xerase evs := by
    rw [xerase_append, xerase_append]; rfl
  rw [he] at hrun hok ht
  obtain ⟨p, q, s, o1, o2, o3, c1, c2, c3, g1, hstep, g2, g3, _, hb, hfrac⟩ :=
    gwire_init ops K M ep ln n r al t0 hm hR (xerase pre1) (xerase pre2) (xerase evs) t1 h out c hrun hok ht hns
  obtain ⟨w1, x1, _⟩ := xrun_of_grun ops pre1 _ p o1 c1 g1
  obtain ⟨w2, x2, _⟩ := xrun_of_grun ops pre2 q s o2 c2 g2
  obtain ⟨w3, x3, i3⟩ := xrun_of_grun ops evs s h o3 c3 g3
  have hq : gexec ops p (.ev (.step t1)) = .ok (q, []) := exec_step_eq ops p q t1 hstep
  have hall := xrun_append_ok ops (pre1 ++ .g (.ev (.step t1)) :: pre2) evs _ s h _ w3
    (xrun_append_ok ops pre1 _ _ p s w1 _ x1 (xrun_cons_g ops hq x2)) x3
  rw [hx] at hall
  simp only [Except.ok.injEq, Prod.mk.injEq, true_and, List.nil_append] at hall
  refine ⟨p, q, s, w1, w2, w3, o3, c3, x1, hstep, x2, x3, hall, g3, i3, ?_, hfrac⟩
  rw [i3.bytes_eq, bytes_xacks, Nat.add_mul, Nat.mul_right_comm 9 (xnonces evs).length 1000000000]
  exact Nat.add_le_add_right hb _

/-! ### reading the invariant -/

theorem drop_after {α : Type} (pre post : List α) (a : α) :
    1 ≤ pre.length + 1 ∧ pre.length + 1 ≤ (pre ++ a :: post).length ∧
    (pre ++ a :: post)[pre.length + 1 - 1]? = some a ∧ (pre ++ a :: post).drop (pre.length + 1) = post := by
  refine ⟨by omega, by simp, by simp, ?_⟩
  induction pre with
  | nil => rfl
  | cons x rest ih => simp [ih]

/-- A trace without handshake ACKs is its projection. -/
theorem xrun_no_acks (ops : FloatOps F) (tr : List XEv) (s s' : State F) (w out : List (List Nat)) (c : Int)
    (hn : xnonces tr = []) (hx : xrun ops s tr = .ok (s', w)) (hg : grun ops s (xerase tr) = .ok (s', out, c)) :
    w = out := by
  obtain ⟨w', hw, hi⟩ := xrun_of_grun ops tr s s' out c hg
  rw [hx] at hw
  simp only [Except.ok.injEq, Prod.mk.injEq, true_and] at hw
  subst hw
  unfold xacks at hi
  rw [hn] at hi
  exact hi.eq_of_right_nil

theorem CInvX.active {ops : FloatOps F} {ep : EpConfig} {T : Nat} {tx rx : List (List Nat)}
    {c : Client (State F)} (hi : CInvX ep (InvX ops ep) lastNow T tx rx c) {ln : Nat} {h : State F} {t : Nat}
    {sig : Option DisconnectMode} (hst : c.state = .active ln h t sig) :
    ∃ n r p al pre post rx1 b rx2 t0 tr out cr, tx = pre ++ hsAckBytes n :: post ∧ rx = rx1 ++ b :: rx2 ∧
      decode (b.take MAX_FRAME_SIZE) = some (.synAck ln n r p al) ∧
      Proj ops ep h ln n r al t0 (xerase tr) out cr ∧
      xrun ops (init ops (hcConfig ep ln n r al) t0 rng0) tr = .ok (h, post) ∧
      xnonces tr = saNonces ln rx2 ∧ Interleave out ((saNonces ln rx2).map hsAckBytes) post := by
  have := hi.2
  rw [hst] at this
  obtain ⟨n, r, p, al, pre, post, rx1, b, rx2, e1, e2, hd, ⟨_, t0, tr, out, cr, pj, hx, hn⟩, _⟩ := this
  refine ⟨n, r, p, al, pre, post, rx1, b, rx2, t0, tr, out, cr, e1, e2, hd, pj, hx, hn, ?_⟩
  obtain ⟨w', hw, hil⟩ := xrun_of_grun ops tr _ h out cr pj.run
  rw [hx] at hw
  simp only [Except.ok.injEq, Prod.mk.injEq, true_and] at hw
  subst hw
  unfold xacks at hil
  rw [hn] at hil
  exact hil

/-- Every client run that ends `Active`: the activating SYN-ACK `b`, the trace `tr` since, the log
position `k` right after the handshake ACK sent at activation. -/
theorem cli_run_projects (ops : FloatOps F) (hconv : BisectConverges ops) (hloss : LossOk ops) (ep : EpConfig)
    (now : Nat) (rng : Rng) (cops : List COp) (hops : copsOk 0 cops = true) :
    ∃ c' sent evs, Client.run (hcOf ops) (Client.connect ep now rng).1 cops = .ok (c', sent, evs) ∧
      ∀ ln h t sig, c'.state = .active ln h t sig →
        ∃ n r p al t0 tr out cr k rx1 b rx2,
          copsArrivals cops = rx1 ++ b :: rx2 ∧
          decode (b.take MAX_FRAME_SIZE) = some (.synAck ln n r p al) ∧
          SynAckIn (copsArrivals cops) 0 n r al ∧
          Proj ops ep h ln n r al t0 (xerase tr) out cr ∧
          1 ≤ k ∧ k ≤ sent.length ∧ sent[k - 1]? = some (hsAckBytes n) ∧
          xrun ops (init ops (hcConfig ep ln n r al) t0 rng0) tr = .ok (h, sent.drop k) ∧
          xnonces tr = saNonces ln rx2 ∧
          Interleave out ((saNonces ln rx2).map hsAckBytes) (sent.drop k) := by
  obtain ⟨c', sent, evs, hr, hi⟩ := cli_run_invX ops hconv hloss ep now rng cops hops
  refine ⟨c', sent, evs, hr, ?_⟩
  intro ln h t sig hst
  obtain ⟨n, r, p, al, pre, post, rx1, b, rx2, t0, tr, out, cr, e1, e2, hd, pj, hx, hn, hil⟩ := hi.active hst
  obtain ⟨k1, k2, k3, k4⟩ := drop_after pre post (hsAckBytes n)
  refine ⟨n, r, p, al, t0, tr, out, cr, pre.length + 1, rx1, b, rx2, e2, hd, ?_, pj, ?_⟩
  · exact ⟨b, ln, p, by rw [e2]; simp, hd⟩
  · rw [e1]
    refine ⟨k1, k2, k3, ?_, hn, ?_⟩
    · rw [k4]; exact hx
    · rw [k4]; exact hil

/-- What `saNonces` collects. -/
theorem saNonces_spec (ln : Nat) (rx : List (List Nat)) :
    (∀ a ∈ (saNonces ln rx).map hsAckBytes, ∃ b ∈ rx, ∃ n' r p al,
      decode (b.take MAX_FRAME_SIZE) = some (.synAck ln n' r p al) ∧ a = encode (.hsAck n')) ∧
    ((saNonces ln rx).map hsAckBytes).length = (rx.filter fun b => (saNonce ln b).isSome).length ∧
    (rx.filter fun b => (saNonce ln b).isSome).length ≤ rx.length := by
  refine ⟨?_, ?_, List.length_filter_le _ _⟩
  · intro a ha
    simp only [saNonces, List.mem_map, List.mem_filterMap] at ha
    obtain ⟨n', ⟨b, hb, hs⟩, rfl⟩ := ha
    refine ⟨b, hb, ?_⟩
    unfold saNonce at hs
    split at hs
    · rename_i na n r p al hd
      split at hs
      · rename_i hna
        cases hs
        subst hna
        exact ⟨n', r, p, al, hd, rfl⟩
      · cases hs
    · cases hs
  · rw [List.length_map]
    unfold saNonces
    induction rx with
    | nil => rfl
    | cons b rest ih =>
      cases hb : saNonce ln b with
      | none => simp [hb, ih]
      | some v => simp [hb, ih]

end Uflow.EpCeil
