import Uflow.Lemmas.EndpointEventsMonitor

/-!
Server endpoint: every frame handler is a monitor-accepted transition (`STr`), with the shape of the
events it emits.
-/

namespace Uflow.Endpoint

open Uflow.Gen Uflow.Codec Uflow.HalfConn

variable {H : Type}

theorem RState.phase_pending (a b c d : Nat) (e : List Nat) : (RState.pending a b c d e : RState H).phase = .idle := rfl
theorem RState.phase_active (h : H) (t : Nat) (sig : Option DisconnectMode) : (RState.active h t sig).phase = .conn := rfl
theorem RState.phase_closing : (RState.closing : RState H).phase = .conn := rfl
theorem RState.phase_closed : (RState.closed : RState H).phase = .idle := rfl
theorem RState.phase_fin : (RState.fin : RState H).phase = .idle := rfl

/-! ## `handle_handshake_syn` -/

/-- `handleSyn`: at most one event, an `error` for the sender, and only when the sender has no entry. -/
theorem Server.handleSyn_STr (s : Server H) (hw : s.WF) (addr v n r p a nowMs : Nat) :
    ∃ evs, STr s evs (s.handleSyn addr v n r p a nowMs).1 ∧
      (evs = [] ∨ ((∃ ev, ev ≠ .timeout ∧ evs = [SEvent.error addr ev]) ∧ s.find addr = none ∧
        (s.handleSyn addr v n r p a nowMs).1.clients = s.clients)) := by
  unfold Server.handleSyn
  split
  · exact ⟨[], STr.refl hw, Or.inl rfl⟩
  · next hf =>
    have hidle : s.phaseOf addr = .idle := Server.phaseOf_none hf
    have refuse : ∀ (ev : ErrorType), ev ≠ .timeout →
        ∃ evs, STr s evs ({ s with eventsOut := if s.cfg.enableHandshakeErrors then s.eventsOut ++ [SEvent.error addr ev] else s.eventsOut } : Server H) ∧
          (evs = [] ∨ ((∃ ev, ev ≠ .timeout ∧ evs = [SEvent.error addr ev]) ∧ s.find addr = none ∧
            ({ s with eventsOut := if s.cfg.enableHandshakeErrors then s.eventsOut ++ [SEvent.error addr ev] else s.eventsOut } : Server H).clients = s.clients)) := by
      intro ev hne
      cases hen : s.cfg.enableHandshakeErrors with
      | true =>
        exact ⟨[SEvent.error addr ev],
          STr.of_error_idle hw addr ev hidle rfl rfl rfl (fun _ h => h) rfl rfl (by simp),
          Or.inr ⟨⟨ev, hne, rfl⟩, hf, rfl⟩⟩
      | false =>
        exact ⟨[], STr.of_same hw rfl rfl rfl (fun _ h => h) rfl rfl (by simp), Or.inl rfl⟩
    simp only
    split
    · exact refuse _ (by decide)
    · split
      · exact refuse _ (by decide)
      · split
        · exact refuse _ (by decide)
        · split
          · exact refuse _ (by decide)
          · rcases hr : s.rng.next with ⟨vv, rng⟩
            simp only
            refine ⟨[], STr.of_append (c := { cid := s.nextCid, address := addr, state := .pending (vv % 2^32) n r a _ }) hw hf rfl rfl rfl rfl rfl rfl (fun _ h => h) rfl rfl rfl, Or.inl rfl⟩

/-! ## `handle_handshake_ack` -/

/-- `handleHsAck`: `connect` iff the sender's entry is `pending` and the nonce matches. -/
theorem Server.handleHsAck_STr (hc : HC H) (s : Server H) (hw : s.WF) (addr na nowMs nowNs : Nat) :
    ∃ evs, STr s evs (s.handleHsAck hc addr na nowMs nowNs) ∧
      (evs = [] ∨ (evs = [SEvent.connect addr] ∧
        ∃ c ln rn r al rb, s.find addr = some c ∧ c.state = .pending ln rn r al rb ∧ na = ln)) := by
  unfold Server.handleHsAck
  split
  · exact ⟨[], STr.refl hw, Or.inl rfl⟩
  · next c hf =>
    obtain ⟨hcm, hca⟩ := Server.find_some hf
    split
    · next ln rn r al rb hst =>
      split
      · next hna =>
        refine ⟨[SEvent.connect addr], ?_, Or.inr ⟨rfl, c, ln, rn, r, al, rb, hf, hst, hna⟩⟩
        simp only
        rw [Server.put_state_eq hcm]
        refine STr.of_put (c' := { c with state := .active (hc.new (hcConfig s.cfg.ep ln rn r al) nowNs) (nowMs + s.cfg.ep.activeTimeoutMs) none })
          hw hcm rfl rfl [SEvent.connect addr] (by simp [SEvent.addr, hca]) ?_ rfl rfl rfl
          (by intro x hx; simp [hx]) (by intro _; simp) rfl rfl rfl
        rw [hst]; rfl
      · exact ⟨[], STr.refl hw, Or.inl rfl⟩
    · exact ⟨[], STr.refl hw, Or.inl rfl⟩

/-! ## `handle_disconnect` -/

/-- `handleDisconnect`: from `active`, the deliverable packets then `disconnect`; from `closing`,
`disconnect`; otherwise nothing. -/
theorem Server.handleDisconnect_STr (hc : HC H) (s s' : Server H) (hw : s.WF) (addr nowMs : Nat)
    (out : List (Nat × List Nat)) (h : s.handleDisconnect hc addr nowMs = .ok (s', out)) :
    ∃ evs, STr s evs s' ∧
      (evs = [] ∨ ∃ c, s.find addr = some c ∧ c.state.connected = true ∧
        ∃ pkts : List (List Nat), evs = pkts.map (SEvent.receive addr) ++ [SEvent.disconnect addr]) := by
  unfold Server.handleDisconnect at h
  split at h
  · cases h; exact ⟨[], STr.refl hw, Or.inl rfl⟩
  · next c hf =>
    obtain ⟨hcm, hca⟩ := Server.find_some hf
    simp only at h
    split at h
    · cases h; exact ⟨[], STr.refl hw, Or.inl rfl⟩
    · next hh t sig hst =>
      split at h
      · cases h
      · next h' pkts hr =>
        cases h
        refine ⟨pkts.map (SEvent.receive addr) ++ [SEvent.disconnect addr], ?_,
          Or.inr ⟨c, hf, by rw [hst]; rfl, pkts, rfl⟩⟩
        have hcm' : c ∈ ({ s with eventsOut := s.eventsOut ++ pkts.map (SEvent.receive addr) } : Server H).clients := hcm
        rw [Server.put_state_eq hcm']
        refine STr.of_put (c' := { c with state := .closed }) hw hcm rfl rfl _ ?_ ?_ rfl rfl rfl (fun _ h => h)
          (by intro h; cases h) rfl rfl (by simp)
        · intro e he
          simp only [List.mem_append, List.mem_map, List.mem_singleton] at he
          rcases he with ⟨_, _, rfl⟩ | rfl <;> simp [SEvent.addr, hca]
        · rw [hst, RState.phase_active, SPhase.run_conn_recv]; rfl
    · next hst =>
      cases h
      refine ⟨[SEvent.disconnect addr], ?_, Or.inr ⟨c, hf, by rw [hst]; rfl, [], rfl⟩⟩
      rw [Server.put_state_eq hcm]
      refine STr.of_put (c' := { c with state := .closed }) hw hcm rfl rfl _ (by simp [SEvent.addr, hca]) ?_ rfl rfl rfl
        (fun _ h => h) (by intro h; cases h) rfl rfl rfl
      rw [hst]; rfl
    · cases h; exact ⟨[], STr.refl hw, Or.inl rfl⟩
    · cases h; exact ⟨[], STr.refl hw, Or.inl rfl⟩

/-! ## `handle_disconnect_ack` -/

/-- `handleDisconnectAck`: `disconnect` iff the sender's entry is `closing`; the entry is removed. -/
theorem Server.handleDisconnectAck_STr (s : Server H) (hw : s.WF) (addr : Nat) :
    ∃ evs, STr s evs (s.handleDisconnectAck addr) ∧
      (evs = [] ∨ (evs = [SEvent.disconnect addr] ∧ ∃ c, s.find addr = some c ∧ c.state = .closing)) := by
  unfold Server.handleDisconnectAck
  split
  · exact ⟨[], STr.refl hw, Or.inl rfl⟩
  · next c hf =>
    obtain ⟨hcm, hca⟩ := Server.find_some hf
    split
    · next hst =>
      refine ⟨[SEvent.disconnect addr], ?_, Or.inr ⟨rfl, c, hf, hst⟩⟩
      simp only
      have hcm' : c ∈ ({ s with eventsOut := s.eventsOut ++ [SEvent.disconnect addr] } : Server H).clients := hcm
      rw [Server.finish_eq hcm']
      refine STr.of_finish hw hcm _ (by simp [SEvent.addr, hca]) ?_ rfl rfl rfl (fun _ h => h) rfl rfl rfl
      rw [hst]; rfl
    · exact ⟨[], STr.refl hw, Or.inl rfl⟩

/-! ## `handle_data` / `handle_ack` / `handle_sync` -/

/-- `handleTraffic`: never an event; an `active` entry stays `active`, its deadline becomes
`nowMs + activeTimeoutMs`. -/
theorem Server.handleTraffic_STr (hc : HC H) (s s' : Server H) (hw : s.WF) (addr : Nat) (f : Frame) (nowMs : Nat)
    (h : s.handleTraffic hc addr f nowMs = .ok s') : STr s [] s' := by
  unfold Server.handleTraffic at h
  split at h
  · cases h; exact STr.refl hw
  · next c hf =>
    obtain ⟨hcm, hca⟩ := Server.find_some hf
    split at h
    · next hh t sig hst =>
      split at h
      · cases h
      · next h' hd =>
        cases h
        rw [Server.put_state_eq hcm]
        refine STr.of_put (c' := { c with state := .active h' (nowMs + s.cfg.ep.activeTimeoutMs) sig })
          hw hcm rfl rfl [] (by simp) ?_ rfl rfl rfl (fun _ h => h) ?_ rfl rfl (by simp)
        · rw [hst]; rfl
        · intro _; exact hw.act c hcm (by rw [hst]; rfl)
    · cases h; exact STr.refl hw

/-! ## `handle_frame`, `handle_frames` -/

/-- `handleFrame`: a monitor-accepted transition that never emits `error _ timeout`. -/
theorem Server.handleFrame_STr (hc : HC H) (s s' : Server H) (hw : s.WF) (addr : Nat) (f : Frame) (nowMs nowNs : Nat)
    (out : List (Nat × List Nat)) (h : s.handleFrame hc addr f nowMs nowNs = .ok (s', out)) :
    ∃ evs, STr s evs s' ∧ ∀ a, SEvent.error a .timeout ∉ evs := by
  unfold Server.handleFrame at h
  have traffic : (s.handleTraffic hc addr f nowMs).map (·, ([] : List (Nat × List Nat))) = .ok (s', out) →
      ∃ evs, STr s evs s' ∧ ∀ a, SEvent.error a .timeout ∉ evs := by
    intro h
    cases ht : s.handleTraffic hc addr f nowMs with
    | error e => rw [ht] at h; cases h
    | ok s1 =>
      rw [ht] at h; cases h
      exact ⟨[], Server.handleTraffic_STr hc s _ hw addr f nowMs ht, by simp⟩
  cases f with
  | syn v n r p a =>
    have e := Except.ok.inj h
    obtain ⟨evs, h1, hsh⟩ := Server.handleSyn_STr s hw addr v n r p a nowMs
    rw [e] at h1
    refine ⟨evs, h1, fun a' hm => ?_⟩
    rcases hsh with rfl | ⟨⟨ev, hne, rfl⟩, _⟩
    · cases hm
    · simp only [List.mem_singleton] at hm
      injection hm with _ h2
      exact hne h2.symm
  | hsAck na =>
    cases h
    obtain ⟨evs, h1, hsh⟩ := Server.handleHsAck_STr hc s hw addr na nowMs nowNs
    refine ⟨evs, h1, fun a' hm => ?_⟩
    rcases hsh with rfl | ⟨rfl, _⟩
    · cases hm
    · simp at hm
  | synAck => cases h; exact ⟨[], STr.refl hw, by simp⟩
  | hsError => cases h; exact ⟨[], STr.refl hw, by simp⟩
  | disconnect =>
    obtain ⟨evs, h1, hsh⟩ := Server.handleDisconnect_STr hc s s' hw addr nowMs out h
    refine ⟨evs, h1, fun a' hm => ?_⟩
    rcases hsh with rfl | ⟨_, _, _, pkts, rfl⟩
    · cases hm
    · simp at hm
  | disconnectAck =>
    cases h
    obtain ⟨evs, h1, hsh⟩ := Server.handleDisconnectAck_STr s hw addr
    refine ⟨evs, h1, fun a' hm => ?_⟩
    rcases hsh with rfl | ⟨rfl, _⟩
    · cases hm
    · simp at hm
  | data => exact traffic h
  | sync => exact traffic h
  | ack => exact traffic h

/-- One datagram of `handle_frames`. -/
def Server.frameStep (hc : HC H) (nowMs nowNs : Nat) (acc : Server H × List (Nat × List Nat)) (a : Nat × List Nat) :
    R (Server H × List (Nat × List Nat)) :=
  match decode (a.2.take MAX_FRAME_SIZE) with
  | none => .ok acc
  | some f =>
    match acc.1.handleFrame hc a.1 f nowMs nowNs with
    | .error t => .error t
    | .ok (s', sent) => .ok (s', acc.2 ++ sent)

theorem Server.handleFrames_eq (hc : HC H) (s : Server H) (arrivals : List (Nat × List Nat)) (nowMs nowNs : Nat) :
    s.handleFrames hc arrivals nowMs nowNs = arrivals.foldlM (Server.frameStep hc nowMs nowNs) (s, []) := rfl

/-- Induction principle for `handle_frames`. -/
theorem Server.handleFrames_induct (hc : HC H) (nowMs nowNs : Nat)
    (P : Server H → List (Nat × List Nat) → Prop)
    (step : ∀ s o addr f s' out, P s o → s.handleFrame hc addr f nowMs nowNs = .ok (s', out) → P s' (o ++ out))
    (arrivals : List (Nat × List Nat)) (s : Server H) (o : List (Nat × List Nat)) (s' : Server H)
    (o' : List (Nat × List Nat)) (h0 : P s o)
    (h : arrivals.foldlM (Server.frameStep hc nowMs nowNs) (s, o) = .ok (s', o')) : P s' o' := by
  induction arrivals generalizing s o with
  | nil => simp only [List.foldlM_nil, pure, Except.pure] at h; cases h; exact h0
  | cons b bs ih =>
    simp only [List.foldlM_cons, bind, Except.bind] at h
    split at h
    · cases h
    · next acc hacc =>
      obtain ⟨s1, o1⟩ := acc
      refine ih s1 o1 ?_ h
      unfold Server.frameStep at hacc
      split at hacc
      · cases hacc; exact h0
      · split at hacc
        · cases hacc
        · next s2 o2 hf => cases hacc; exact step _ _ _ _ _ _ h0 hf

theorem Server.handleFrames_STr (hc : HC H) (s s' : Server H) (hw : s.WF) (arrivals : List (Nat × List Nat))
    (nowMs nowNs : Nat) (out : List (Nat × List Nat))
    (h : s.handleFrames hc arrivals nowMs nowNs = .ok (s', out)) :
    ∃ evs, STr s evs s' ∧ ∀ a, SEvent.error a .timeout ∉ evs := by
  rw [Server.handleFrames_eq] at h
  refine Server.handleFrames_induct hc nowMs nowNs
    (fun x _ => ∃ evs, STr s evs x ∧ ∀ a, SEvent.error a .timeout ∉ evs) ?_ arrivals s [] s' out
    ⟨[], STr.refl hw, by simp⟩ h
  intro x o addr f x' out' ⟨e1, h1, n1⟩ hf
  obtain ⟨e2, h2, n2⟩ := Server.handleFrame_STr hc x x' h1.wf addr f nowMs nowNs out' hf
  refine ⟨e1 ++ e2, h1.trans h2, fun a hm => ?_⟩
  rcases List.mem_append.mp hm with hm | hm
  · exact n1 a hm
  · exact n2 a hm

end Uflow.Endpoint
