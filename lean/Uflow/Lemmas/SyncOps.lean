import Uflow.Lemmas.CreditRun
import Uflow.Lemmas.SyncAck
import Uflow.Lemmas.SyncFlush

/-!
Helper lemmas for C11, part 6: no operation of a half connection other than `flush` touches the sync
timer, and none other than `flush` clears an owed sync reply.
-/

namespace Uflow.SyncCycle

open Uflow Uflow.Gen Uflow.Codec Uflow.HalfConn Uflow.HcFrame Uflow.Credit
open Uflow.Rate (FloatOps)

variable {F : Type}

/-- The sync timer base, the owed reply and the keepalive interval are the same. -/
structure TimerKeep (s s' : State F) : Prop where
  stb : s'.syncTimeoutBase = s.syncTimeoutBase
  reply : s'.syncReply = s.syncReply
  keepalive : s'.keepalive = s.keepalive

theorem fill_timer (ops : FloatOps F) (s : State F) (now : Nat) :
    TimerKeep s (fillFlushAlloc ops s now) := by
  cases h : s.timeLastFlushed <;> exact ⟨by simp [fillFlushAlloc, h], by simp [fillFlushAlloc, h],
    by simp [fillFlushAlloc, h]⟩

theorem stepP_timer (ops : FloatOps F) (s s' : State F) (now nowMs : Nat) (w : Nat → Nat → Nat)
    (ff : FrameQ.State → Nat → Option Nat → R FrameQ.State)
    (gf : FrameQ.State → Nat → R (FrameQ.State × Option (Rate.Feedback F)))
    (rs : Rate.State F → Nat → Option (Rate.Feedback F) → R (Rate.State F × Option F))
    (rl : FrameQ.State → F → R FrameQ.State)
    (h : stepP ops s now nowMs w ff gf rs rl = .ok s') : TimerKeep s s' := by
  unfold stepP at h
  simp only at h
  generalize ff s.fq _ _ = r1 at h
  cases r1 with
  | error t => cases h
  | ok fq =>
    have hk := fun x => fill_timer ops x now
    simp only at h
    generalize gf _ _ = r2 at h
    cases r2 with
    | error t => cases h
    | ok v =>
      obtain ⟨fq2, fbk⟩ := v
      simp only at h
      generalize rs _ _ _ = r3 at h
      cases r3 with
      | error t => cases h
      | ok v3 =>
        obtain ⟨rate, reset⟩ := v3
        cases reset with
        | none =>
          simp only [Except.ok.injEq] at h
          subst h
          exact ⟨(hk _).stb, (hk _).reply, (hk _).keepalive⟩
        | some p =>
          simp only at h
          generalize rl fq2 p = r4 at h
          cases r4 with
          | error t => cases h
          | ok fq3 =>
            simp only [Except.ok.injEq] at h
            subst h
            exact ⟨(hk _).stb, (hk _).reply, (hk _).keepalive⟩

theorem step_timer (ops : FloatOps F) (s s' : State F) (now : Nat) (h : step ops s now = .ok s') :
    TimerKeep s s' := by
  rw [step_eq] at h
  exact stepP_timer ops s s' now _ _ _ _ _ _ h

theorem foldDatagrams_timer (dgs : List Datagram) (s s' : State F)
    (h : dgs.foldlM (fun (s : State F) d =>
      (PRecv.handleDatagram s.pr d).map fun pr => { s with pr := pr }) s = .ok s') :
    TimerKeep s s' := by
  induction dgs generalizing s with
  | nil =>
    simp only [List.foldlM_nil, pure, Except.pure, Except.ok.injEq] at h
    subst h; exact ⟨rfl, rfl, rfl⟩
  | cons d dgs ih =>
    rw [List.foldlM_cons] at h
    generalize PRecv.handleDatagram s.pr d = r at h
    cases r with
    | error t => simp only [Except.map, bind, Except.bind] at h; cases h
    | ok pr =>
      simp only [Except.map, bind, Except.bind] at h
      have := ih _ h
      exact ⟨this.stb, this.reply, this.keepalive⟩

theorem handleDataFrame_timer (s s' : State F) (id : Nat) (nonce : Bool) (dgs : List Datagram)
    (h : handleDataFrame s id nonce dgs = .ok s') : TimerKeep s s' := by
  rw [handleDataFrame_eq] at h
  unfold dataFrameCore at h
  generalize s.aq.contains id = b at h
  generalize s.aq.markSeen id nonce = aq' at h
  cases b with
  | false =>
    simp only [Bool.false_eq_true, if_false, Except.ok.injEq] at h
    subst h
    exact ⟨rfl, rfl, rfl⟩
  | true =>
    simp only [if_true] at h
    have := foldDatagrams_timer dgs _ s' h
    exact ⟨this.stb, this.reply, this.keepalive⟩

/-- Next frame id and transfer window base are the same. -/
def IdsKeep (q q' : FrameQ.State) : Prop := q'.logNext = q.logNext ∧ q'.winBase = q.winBase

theorem forgetFrames_ids (q q' : FrameQ.State) (th : Nat) (rtt : Option Nat)
    (h : FrameQ.forgetFrames q th rtt = .ok q') : IdsKeep q q' := by
  unfold FrameQ.forgetFrames at h
  simp only at h
  generalize wsub32 _ q.logBase = d at h
  generalize wadd32 q.logBase _ = mb at h
  split at h
  · obtain ⟨hk, hb⟩ := cull_keep _ _ _ _ h
    exact ⟨hk.logNext, hb⟩
  · cases h; exact ⟨rfl, rfl⟩
theorem getFeedback_ids (ops : FloatOps F) (q q' : FrameQ.State) (now : Nat)
    (fb : Option (Rate.Feedback F)) (h : FrameQ.getFeedback ops q now = .ok (q', fb)) :
    IdsKeep q q' := by
  unfold FrameQ.getFeedback at h
  split at h
  · cases h; exact ⟨rfl, rfl⟩
  · split at h
    · cases h
    · simp only at h
      split at h
      · cases h
      · cases h; exact ⟨rfl, rfl⟩
theorem resetLossRate_ids (ops : FloatOps F) (q q' : FrameQ.State) (p : F)
    (h : FrameQ.resetLossRate ops q p = .ok q') : IdsKeep q q' := by
  unfold FrameQ.resetLossRate at h
  split at h
  · cases h
  · cases h; exact ⟨rfl, rfl⟩
theorem fill_fq (ops : FloatOps F) (s : State F) (now : Nat) :
    (fillFlushAlloc ops s now).fq = s.fq ∧ (fillFlushAlloc ops s now).rtoMs = s.rtoMs := by
  cases h : s.timeLastFlushed <;> exact ⟨by simp [fillFlushAlloc, h], by simp [fillFlushAlloc, h]⟩

theorem IdsKeep.trans {a b c : FrameQ.State} (h1 : IdsKeep a b) (h2 : IdsKeep b c) : IdsKeep a c :=
  ⟨h2.1.trans h1.1, h2.2.trans h1.2⟩

theorem stepP_ids (ops : FloatOps F) (s s' : State F) (now nowMs : Nat) (w : Nat → Nat → Nat)
    (ff : FrameQ.State → Nat → Option Nat → R FrameQ.State)
    (gf : FrameQ.State → Nat → R (FrameQ.State × Option (Rate.Feedback F)))
    (rs : Rate.State F → Nat → Option (Rate.Feedback F) → R (Rate.State F × Option F))
    (rl : FrameQ.State → F → R FrameQ.State)
    (hff : ∀ q th rtt q', ff q th rtt = .ok q' → IdsKeep q q')
    (hgf : ∀ q n q' fb, gf q n = .ok (q', fb) → IdsKeep q q')
    (hrl : ∀ q p q', rl q p = .ok q' → IdsKeep q q')
    (h : stepP ops s now nowMs w ff gf rs rl = .ok s') :
    IdsKeep s.fq s'.fq ∧ s'.rtoMs = s.rate.rtoMs.getD INITIAL_RTO_ESTIMATE_MS := by
  unfold stepP at h
  simp only at h
  generalize hr1 : ff s.fq _ _ = r1 at h
  cases r1 with
  | error t => cases h
  | ok fq =>
    have h1 := hff _ _ _ _ hr1
    have hk := fun x => fill_fq ops x now
    simp only at h
    generalize hr2 : gf _ _ = r2 at h
    cases r2 with
    | error t => cases h
    | ok v =>
      obtain ⟨fq2, fbk⟩ := v
      have h2 := hgf _ _ _ _ hr2
      rw [(hk _).1] at h2
      simp only at h
      generalize rs _ _ _ = r3 at h
      cases r3 with
      | error t => cases h
      | ok v3 =>
        obtain ⟨rate, reset⟩ := v3
        cases reset with
        | none =>
          simp only [Except.ok.injEq] at h
          subst h
          exact ⟨h1.trans h2, (hk _).2⟩
        | some p =>
          simp only at h
          generalize hr4 : rl fq2 p = r4 at h
          cases r4 with
          | error t => cases h
          | ok fq3 =>
            have h3 := hrl _ _ _ hr4
            simp only [Except.ok.injEq] at h
            subst h
            exact ⟨(h1.trans h2).trans h3, (hk _).2⟩
/-- `step` keeps the next frame id and the transfer window base (so frames in flight stay in flight)
and sets `rtoMs` from the rate controller's estimate before the step. -/
theorem step_ids (ops : FloatOps F) (s s' : State F) (now : Nat) (h : step ops s now = .ok s') :
    IdsKeep s.fq s'.fq ∧ s'.rtoMs = s.rate.rtoMs.getD INITIAL_RTO_ESTIMATE_MS := by
  rw [step_eq] at h
  exact stepP_ids ops s s' now _ _ _ _ _ _ (fun q th rtt q' hh => forgetFrames_ids q q' th rtt hh)
    (fun q n q' fb hh => getFeedback_ids ops q q' n fb hh)
    (fun q p q' hh => resetLossRate_ids ops q q' p hh) h

/-- Every operation except `flush`: no frame is handed to the sink, the sync timer base and the
keepalive interval are unchanged, and an owed sync reply stays owed (`handle_sync_frame` sets it). -/
theorem exec_timer (ops : FloatOps F) (s s' : State F) (ev : Ev) (out : List (List Nat))
    (hev : ev ≠ .flush) (h : exec ops s ev = .ok (s', out)) :
    out = [] ∧ s'.syncTimeoutBase = s.syncTimeoutBase ∧ s'.keepalive = s.keepalive ∧
    (s.syncReply = true → s'.syncReply = true) := by
  cases ev with
  | flush => exact absurd rfl hev
  | step now =>
    simp only [exec] at h
    cases hs : HalfConn.step ops s now with
    | error t => rw [hs] at h; cases h
    | ok s1 =>
      rw [hs] at h
      simp only [Except.map, Except.ok.injEq, Prod.mk.injEq] at h
      obtain ⟨rfl, rfl⟩ := h
      have := step_timer ops s s1 now hs
      exact ⟨rfl, this.stb, this.keepalive, fun hr => this.reply.trans hr⟩
  | send d c m =>
    simp only [exec, Except.ok.injEq, Prod.mk.injEq] at h
    obtain ⟨rfl, rfl⟩ := h
    exact ⟨rfl, rfl, rfl, fun hr => hr⟩
  | receive =>
    simp only [exec, HalfConn.receive] at h
    generalize PRecv.receive s.pr = r at h
    cases r with
    | error t => cases h
    | ok v =>
      simp only [Except.map, Except.ok.injEq, Prod.mk.injEq] at h
      obtain ⟨rfl, rfl⟩ := h
      exact ⟨rfl, rfl, rfl, fun hr => hr⟩
  | dataFrame id nonce dgs =>
    simp only [exec] at h
    cases hs : handleDataFrame s id nonce dgs with
    | error t => rw [hs] at h; cases h
    | ok s1 =>
      rw [hs] at h
      simp only [Except.map, Except.ok.injEq, Prod.mk.injEq] at h
      obtain ⟨rfl, rfl⟩ := h
      have := handleDataFrame_timer s s1 id nonce dgs hs
      exact ⟨rfl, this.stb, this.keepalive, fun hr => this.reply.trans hr⟩
  | syncFrame nf np =>
    simp only [exec] at h
    cases hs : handleSyncFrame s nf np with
    | error t => rw [hs] at h; cases h
    | ok s1 =>
      rw [hs] at h
      simp only [Except.map, Except.ok.injEq, Prod.mk.injEq] at h
      obtain ⟨rfl, rfl⟩ := h
      rw [handleSyncFrame_eq, syncFrameCore_spec] at hs
      cases np with
      | none =>
        simp only [Except.ok.injEq] at hs
        subst hs
        exact ⟨rfl, rfl, rfl, fun _ => rfl⟩
      | some pid =>
        simp only at hs
        generalize PRecv.resynchronize s.pr pid = r at hs
        cases r with
        | error t => cases hs
        | ok pr =>
          simp only [Except.map, Except.ok.injEq] at hs
          subst hs
          exact ⟨rfl, rfl, rfl, fun _ => rfl⟩
  | ackFrame fb pb acks =>
    simp only [exec] at h
    cases hs : handleAckFrame s fb pb acks with
    | error t => rw [hs] at h; cases h
    | ok s1 =>
      rw [hs] at h
      simp only [Except.map, Except.ok.injEq, Prod.mk.injEq] at h
      obtain ⟨rfl, rfl⟩ := h
      have := (handleAckFrame_windows s s1 fb pb acks hs).1
      exact ⟨rfl, this.stb, this.keepalive, fun hr => this.reply.trans hr⟩

end Uflow.SyncCycle
