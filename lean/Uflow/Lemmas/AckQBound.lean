import Uflow.Lemmas.AckQG

/-! Erasure of the ghost tags and the invariant that bounds the acknowledgement queue. -/

namespace Uflow.AckQB

open Uflow Uflow.Codec Uflow.FrameQ

/-! ### erasure -/

theorem dropOldT_erase (S id : Nat) (es : List (AckGroup × Nat)) :
    (dropOldT S id es).map (·.1) = dropOld S id (es.map (·.1)) := by
  induction es with
  | nil => rfl
  | cons g rest ih =>
    simp only [dropOldT, List.map_cons, dropOld]
    split
    · exact ih
    · rfl

theorem advance_pos (t : TQ) (nb : Nat) (h : wsub32 nb t.baseId > 0 ∧ wsub32 nb t.baseId ≤ t.size) :
    t.advance nb = { t with baseId := nb, trueBase := t.trueBase + wsub32 nb t.baseId } := if_pos h

theorem advance_neg (t : TQ) (nb : Nat) (h : ¬ (wsub32 nb t.baseId > 0 ∧ wsub32 nb t.baseId ≤ t.size)) :
    t.advance nb = t := if_neg h

theorem qadvance_pos (q : AckQ) (nb : Nat) (h : wsub32 nb q.baseId > 0 ∧ wsub32 nb q.baseId ≤ q.size) :
    q.advance nb = { q with baseId := nb } := if_pos h

theorem qadvance_neg (q : AckQ) (nb : Nat) (h : ¬ (wsub32 nb q.baseId > 0 ∧ wsub32 nb q.baseId ≤ q.size)) :
    q.advance nb = q := if_neg h

theorem advance_erase (t : TQ) (nb : Nat) : (t.advance nb).erase = t.erase.advance nb := by
  by_cases h : wsub32 nb t.baseId > 0 ∧ wsub32 nb t.baseId ≤ t.size
  · rw [advance_pos t nb h, qadvance_pos t.erase nb h]; rfl
  · rw [advance_neg t nb h, qadvance_neg t.erase nb h]

theorem advance_entries (t : TQ) (nb : Nat) : (t.advance nb).entries = t.entries := by
  by_cases h : wsub32 nb t.baseId > 0 ∧ wsub32 nb t.baseId ≤ t.size
  · rw [advance_pos t nb h]
  · rw [advance_neg t nb h]

theorem advance_size (t : TQ) (nb : Nat) : (t.advance nb).size = t.size := by
  by_cases h : wsub32 nb t.baseId > 0 ∧ wsub32 nb t.baseId ≤ t.size
  · rw [advance_pos t nb h]
  · rw [advance_neg t nb h]

theorem dropOld_erase' (t1 : TQ) (id : Nat) :
    dropOld t1.erase.size id t1.erase.entries = (dropOldT t1.size id t1.entries).map (·.1) := by
  rw [dropOldT_erase]; rfl

theorem G4_erase (tc : TQ → Nat → Bool) (qc : AckQ → Nat → Bool) (td) (qd) (ta : TQ → Nat → TQ)
    (qa : AckQ → Nat → AckQ) (d : Nat → Nat → Nat)
    (hc : ∀ t id, qc (TQ.erase t) id = tc t id)
    (hd : ∀ (t : TQ) id, qd t.erase.size id t.erase.entries = (td t.size id t.entries).map (·.1))
    (ha : ∀ t id, (ta t id).erase = qa t.erase id)
    (t : TQ) (id : Nat) (nonce : Bool) :
    (tG4 tc td ta d t id nonce).erase = qG4 qc qd qa d t.erase id nonce := by
  unfold tG4 qG4
  rw [hc]
  by_cases h : tc t id = true
  case neg => rw [if_neg h, if_neg h]
  rw [if_pos h, if_pos h, ← ha]
  generalize ta t (wadd32 id 1) = t1
  generalize t.trueBase + d id t.baseId = tid
  simp only [hd]
  generalize td t1.size id t1.entries = es
  rw [List.getLast?_map]
  cases hl : es.getLast? with
  | none => simp [TQ.erase]
  | some last =>
    simp only [Option.map_some]
    split
    · split
      · simp [TQ.erase, List.map_dropLast]
      · simp [TQ.erase]
    · simp [TQ.erase]

theorem markSeen_erase (t : TQ) (id : Nat) (nonce : Bool) :
    (t.markSeen id nonce).erase = t.erase.markSeen id nonce := by
  rw [tmarkSeen_eq_G, qmarkSeen_eq_G]
  exact G4_erase TQ.contains AckQ.contains dropOldT dropOld TQ.advance AckQ.advance wsub32 (fun _ _ => rfl) dropOld_erase' advance_erase t id nonce

theorem step_erase (t : TQ) (op : Op) : (t.step op).erase = step t.erase op := by
  cases op with
  | markSeen id nonce => exact markSeen_erase t id nonce
  | pop => simp [TQ.step, step, pop, TQ.erase, List.map_tail]
  | resync id => exact advance_erase t id

theorem run_erase (t : TQ) (ops : List Op) : (t.run ops).erase = run t.erase ops := by
  induction ops generalizing t with
  | nil => rfl
  | cons op ops ih =>
    simp only [TQ.run, run, List.foldl_cons]
    rw [← step_erase]
    exact ih (t.step op)

/-! ### arithmetic -/

theorem wsub32_true (id b T t : Nat) (hid : id % 2^32 = T % 2^32) (hb : b % 2^32 = t % 2^32)
    (hle : t ≤ T) (hlt : T - t < 2^32) : wsub32 id b = T - t := by
  unfold wsub32
  omega

theorem true_id (id b B : Nat) (hb : b % 2^32 = B % 2^32) :
    id % 2^32 = (B + wsub32 id b) % 2^32 := by
  unfold wsub32
  omega

theorem wsub32_succ (id b S : Nat) (h : wsub32 id b < S) (hS : S ≤ 2^31) :
    wsub32 (wadd32 id 1) b = wsub32 id b + 1 := by
  unfold wsub32 wadd32 at *
  omega

theorem wsub32_ge32 (id b T t : Nat) (hid : id % 2^32 = T % 2^32) (hb : b % 2^32 = t % 2^32)
    (hlt : t < T) (h : ¬ wsub32 id b < 32) : t + 32 ≤ T := by
  unfold wsub32 at h
  omega

end Uflow.AckQB
