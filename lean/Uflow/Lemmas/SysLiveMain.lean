import Uflow.Lemmas.SysLiveFinal

/-!
Liveness of the composed system (C02Live), part 7: the `receive` step after a redelivery round takes
every Reliable emitted packet out of the window and moves the window base past all emitted packets.
-/

namespace Uflow.Sys

open Uflow Uflow.Gen Uflow.Codec Uflow.PSend Uflow.PRecv Uflow.Frag

theorem receiveT_ok {W M : Nat} {s : PRecv.State} (hinv : Inv W M s) : ∃ r, receiveT s = .ok r := by
  obtain ⟨s', out, hr, -⟩ := receive_inv hinv
  rw [← receiveT_erase] at hr
  cases h : receiveT s with
  | error t => rw [h] at hr; cases hr
  | ok r => exact ⟨r, rfl⟩

/-- The delivery pass after a round: every completely received emitted packet of the window is in the
log afterwards (and the log only grows). -/
theorem round_delivers_entry {b0 w W M : Nat} (hW : WOk W) (hw : w ≤ 2^16) (hwW : w ≤ W) {t t' : Sys}
    (h : SInv b0 w W M t) (p : PInv W t) (l : LInv W t)
    (harr : ∀ i pk, t.pend[i]? = some pk → t.rcv.adv ≤ i → Arrived b0 W t i pk)
    (hs : stepS t .recv = .ok t') :
    (∀ e ∈ t.rcv.log, e ∈ t'.rcv.log) ∧
    ∀ j, t.rcv.adv ≤ j → j < t.hist.emitted.length →
      (lget t.rcv.st.slots (wi W (pidAdd b0 j))).entryFlag = true → ∃ e ∈ t'.rcv.log, e.uid = j := by
  have h' : SInv b0 w W M t' := sinv_recv hW h hs
  simp only [stepS] at hs
  cases hg : stepT t.rcv .recv with
  | error e => rw [hg] at hs; cases hs
  | ok g =>
    rw [hg, bindR_ok] at hs
    cases hs
    rw [stepT_recv] at hg
    cases hr : receiveT t.rcv.st with
    | error e => rw [hr] at hg; cases hg
    | ok pr =>
      rw [hr, bindR_ok] at hg
      cases hg
      have hr' : receiveT t.rcv.st = .ok (pr.1, pr.2) := hr
      obtain ⟨s1, hinv1, hord1, hgi1, hsh, hdone, htaken, -, -⟩ :=
        receiveT_parts hW h.rcv.inv h.rcv.ord h.rcv.gi p.rdy (hon_of_sinv hw h) hr'
      have hc1 : CInv W t.pend t.rcv.adv s1 := cinv_shrunk h.cinv hsh
      have hblt := h.rcv.inv.blt
      have hew := h.rcv.ord.ewin
      show (∀ e ∈ t.rcv.log, e ∈ t.rcv.log ++ pr.2.map (lift t.rcv.adv t.rcv.st.baseId)) ∧
        ∀ j, t.rcv.adv ≤ j → j < t.hist.emitted.length →
        (lget t.rcv.st.slots (wi W (pidAdd b0 j))).entryFlag = true →
        ∃ e ∈ t.rcv.log ++ pr.2.map (lift t.rcv.adv t.rcv.st.baseId), e.uid = j
      generalize hlog1 : t.rcv.log ++ pr.2.map (lift t.rcv.adv t.rcv.st.baseId) = log1 at *
      have hsub : ∀ e ∈ t.rcv.log, e ∈ log1 := by
        intro e he; rw [← hlog1]; exact List.mem_append.mpr (Or.inl he)
      have ent1 : Ent W t.rcv.adv log1 s1 := by
        intro x hx hxo hen
        rw [hsh.base] at hxo ⊢
        rw [hsh.entry] at hen
        rcases p.ent x hx hxo hen with hf | ⟨e, he, hu⟩
        · rcases htaken _ hf with hf1 | ⟨ev, hev, e1, e2, e3⟩
          · exact Or.inl hf1
          · right
            refine ⟨lift t.rcv.adv t.rcv.st.baseId ev, ?_, ?_⟩
            · rw [← hlog1]; exact List.mem_append.mpr (Or.inr (List.mem_map.mpr ⟨ev, hev, rfl⟩))
            · show t.rcv.adv + pidSub ev.seq t.rcv.st.baseId = _
              rw [off_eq_of_wi hW ev.seq x t.rcv.st.baseId hblt (by omega) (by omega) e3]
        · exact Or.inr ⟨e, hsub e he, hu⟩
      have hlogchan : ∀ e ∈ log1, ∃ em, t.hist.emitted[e.uid]? = some em ∧ e.chan = em.channelId := by
        intro e he
        obtain ⟨p0, hp0, c1, -⟩ := h'.log e he
        obtain ⟨-, em, hem, -, e2, -⟩ := h'.snd.plink e.uid p0 hp0
        exact ⟨em, hem, by rw [c1, e2]⟩
      have hbeyond : ∀ e ∈ log1, ∀ y, t.hist.emitted[e.uid]? = some y →
          e.uid < t.rcv.adv + pidSub (cbO s1 y.channelId) s1.baseId := by
        intro e he y hy
        obtain ⟨em, hem, hch⟩ := hlogchan e he
        rw [hy] at hem; cases hem
        have := hgi1.glt e he
        rw [hch] at this
        exact this
      refine ⟨hsub, ?_⟩
      intro j
      induction j using Nat.strongRecOn with
      | _ j ih =>
        intro h1 hjlt hen
        obtain ⟨hxj, hoff, hjW⟩ := win_pos (by omega) hwW h j h1 hjlt
        rw [← hsh.entry] at hen
        have hxo1 : pidSub (pidAdd b0 j) s1.baseId < W := by rw [hsh.base, hoff]; exact hjW
        rcases ent1 _ hxj hxo1 hen with hf | ⟨e, he, hu⟩
        · exfalso
          have hnd := hdone _ hxj hxo1 hf
          obtain ⟨jp, y, hy, hyrel, hych, q1, q2, q3⟩ :=
            blocked_parent hw h.snd hinv1 hord1 hc1 _ hxj hxo1 hf hnd
          rw [hsh.base, hoff] at q2
          have hjplt : jp < t.hist.emitted.length := (List.getElem?_eq_some_iff.mp hy).1
          obtain ⟨e, he, hu⟩ := ih jp (by omega) (by omega) hjplt
            (rel_entry hW hw hwW h l harr jp y hy hyrel (by omega))
          have := hbeyond e he y (by rw [hu]; exact hy)
          rw [hych, hu] at this
          omega
        · exact ⟨e, he, by rw [hu, hsh.base, hoff]; omega⟩

/-- The window pass after a round: the base moves past every emitted packet. -/
theorem round_advances {b0 w W M : Nat} (hW : WOk W) (hw : w ≤ 2^16) (hwW : w ≤ W) {t t' : Sys}
    (h : SInv b0 w W M t) (l : LInv W t)
    (harr : ∀ i pk, t.pend[i]? = some pk → t.rcv.adv ≤ i → Arrived b0 W t i pk)
    (hs : stepS t .recv = .ok t') : t'.rcv.adv = t.hist.emitted.length := by
  have h' : SInv b0 w W M t' := sinv_recv hW h hs
  have hle : t'.rcv.adv ≤ t'.hist.emitted.length := h'.hi
  simp only [stepS] at hs
  cases hg : stepT t.rcv .recv with
  | error e => rw [hg] at hs; cases hs
  | ok g =>
    rw [hg, bindR_ok] at hs
    cases hs
    rw [stepT_recv] at hg
    cases hr : receiveT t.rcv.st with
    | error e => rw [hr] at hg; cases hg
    | ok pr =>
      rw [hr, bindR_ok] at hg
      cases hg
      have hr' : receiveT t.rcv.st = .ok (pr.1, pr.2) := hr
      have hle' : t.rcv.adv + pidSub pr.1.baseId t.rcv.st.baseId ≤ t.hist.emitted.length := hle
      show t.rcv.adv + pidSub pr.1.baseId t.rcv.st.baseId = t.hist.emitted.length
      rcases Nat.lt_or_ge t.rcv.adv t.hist.emitted.length with hlen | hlen
      case inr => omega
      obtain ⟨s1, hinv1, hord1, -, hsh, hwr1, -, hcase⟩ :=
        receiveT_split hW h.rcv.inv h.rcv.ord h.rcv.gi hr'
      have hwready := round_wready hW hw hwW h l harr hlen
      rcases hcase with ⟨hf, -⟩ | ⟨-, nb, hwl, hnb, hδ, hadv⟩
      · rw [hwr1, hwready] at hf; cases hf
      have hinv1' := hinv1.setWindowReady false
      have hord1' : Ord W { s1 with windowReady := false } := hord1.congr rfl rfl rfl rfl
      have hδ' : pidSub nb ({ s1 with windowReady := false } : PRecv.State).baseId ≤ W := by
        show pidSub nb s1.baseId ≤ W; rw [hsh.base]; exact hδ
      have F := advanceWindow_facts hW hinv1' hord1' nb hnb hδ' hadv
      rw [F.base]
      have hblt := h.rcv.inv.blt
      obtain ⟨-, -, r3, hstop⟩ := windowLoop_stop _ hinv1' t.rcv.st.baseId t.rcv.st.endId hblt h.rcv.inv.elt
        loopFuel t.rcv.st.baseId t.rcv.st.baseId nb hblt hblt (by rw [pidSub_self]; exact Nat.zero_le _)
        (Nat.le_refl _) (by intro x _ h1 h2; omega) hwl
      have hstop1 : (∀ x, x < 2^20 → pidSub nb t.rcv.st.baseId ≤ pidSub x t.rcv.st.baseId →
            pidSub x t.rcv.st.baseId < pidSub t.rcv.st.endId t.rcv.st.baseId →
            (lget s1.slots (wi W x)).entryFlag = false) ∨
          (∃ y, y < 2^20 ∧ pidSub nb t.rcv.st.baseId ≤ pidSub y t.rcv.st.baseId ∧
            pidSub y t.rcv.st.baseId < pidSub t.rcv.st.endId t.rcv.st.baseId ∧
            (lget s1.slots (wi W y)).entryFlag = true ∧ (lget s1.slots (wi W y)).wpl ≠ 0 ∧
            (lget s1.slots (wi W y)).wpl + pidSub nb t.rcv.st.baseId ≤ pidSub y t.rcv.st.baseId ∧
            ∀ x, x < 2^20 → pidSub nb t.rcv.st.baseId ≤ pidSub x t.rcv.st.baseId →
              pidSub x t.rcv.st.baseId < pidSub y t.rcv.st.baseId →
              (lget s1.slots (wi W x)).entryFlag = false) := hstop
      clear hstop
      rw [F.base] at hle'
      rcases hstop1 with hnone | ⟨y, hy, y1, y2, y3, y4, y5, y6⟩
      · -- the last emitted packet has its entry flag, so it lies before the new base
        have hlast := last_entry hW hw hwW h l harr hlen
        obtain ⟨q1, q2, q3⟩ := win_pos (by omega) hwW h (t.hist.emitted.length - 1) (by omega) (by omega)
        have hef := l.rl.ef _ q1 (by omega) hlast
        rcases Nat.lt_or_ge (pidSub (pidAdd b0 (t.hist.emitted.length - 1)) t.rcv.st.baseId)
            (pidSub nb t.rcv.st.baseId) with hlt | hge
        · omega
        · have := hnone _ q1 hge hef
          rw [hsh.entry, hlast] at this
          cases this
      · -- the pass cannot stop at a received entry: its window parent has been received
        exfalso
        rw [hsh.entry] at y3
        rw [hsh.wpl] at y4 y5
        have hyW : pidSub y t.rcv.st.baseId < W := by have := h.rcv.ord.ewin; omega
        obtain ⟨-, H2⟩ := hon_wpl hw h y hy hyW y3
        obtain ⟨m1, z, hz, hzrel⟩ := H2 y4
        generalize hj : t.rcv.adv + pidSub y t.rcv.st.baseId - (lget t.rcv.st.slots (wi W y)).wpl = j at hz
        have hjlt : j < t.hist.emitted.length := (List.getElem?_eq_some_iff.mp hz).1
        have hen := rel_entry hW hw hwW h l harr j z hz hzrel (by omega)
        obtain ⟨q1, q2, q3⟩ := win_pos (by omega) hwW h j (by omega) hjlt
        have := y6 _ q1 (by omega) (by omega)
        rw [hsh.entry, hen] at this
        cases this

end Uflow.Sys
