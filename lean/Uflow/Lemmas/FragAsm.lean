import Uflow.Lemmas.Frag

/-!
Helper lemmas for C04, part 3: one slot of the assembly window (`PRecv.tryAdd`) fed with genuine
fragments of a packet and forged-header datagrams.
-/

namespace Uflow.Frag

open Uflow Uflow.Gen Uflow.Codec Uflow.PSend Uflow.PRecv

/-! ### slots -/

theorem getSlot_setSlot (s : PRecv.State) (i : Nat) (x : Slot) : getSlot (setSlot s i x) i = x := by
  simp [getSlot, setSlot]

theorem getSlot_setSlot_alloc (s : PRecv.State) (i : Nat) (x : Slot) (a : Nat) :
    getSlot { setSlot s i x with alloc := a } i = x := by
  simp [getSlot, setSlot]

/-! ### vocabulary -/

/-- The pending packet's `lastFragmentId` is the one `PendingPacket::new` computes. -/
def WF (p : Pending) : Prop := p.lastFragmentId = numFragments p.data.length - 1

/-- `d` is fragment `k` of `p`, for some `k ≤ last`. -/
def Genuine (p : Pending) (d : Datagram) : Prop :=
  ∃ k, k ≤ p.lastFragmentId ∧ p.datagram k = .ok d

/-- `d` disagrees with the packet's fragments in one of the four header fields `try_add` compares. -/
def Forged (p : Pending) (d : Datagram) : Prop :=
  d.channelId ≠ p.channelId ∨ d.windowParentLead ≠ p.windowParentLead ∨
  d.channelParentLead ≠ p.channelParentLead ∨ d.fragmentIdLast ≠ p.lastFragmentId

/-- Every datagram of the list is a genuine fragment or has a forged header. -/
def Feed (p : Pending) (l : List Datagram) : Prop := ∀ d ∈ l, Genuine p d ∨ Forged p d

/-- Every fragment index of `p` is supplied by some datagram of `l`. -/
def Complete (p : Pending) (l : List Datagram) : Prop :=
  ∀ k, k ≤ p.lastFragmentId → ∃ d ∈ l, p.datagram k = .ok d

/-- The packet the assembly window hands over when `p` is complete. -/
def pktOf (p : Pending) : Packet :=
  { channelId := p.channelId, sequenceId := p.sequenceId, windowParentLead := p.windowParentLead,
    channelParentLead := p.channelParentLead, data := some p.data }

def hdrMatch (p : Pending) (d : Datagram) : Bool :=
  decide (d.channelId = p.channelId ∧ d.windowParentLead = p.windowParentLead ∧
    d.channelParentLead = p.channelParentLead ∧ d.fragmentIdLast = p.lastFragmentId)

/-- Fragment indices of the datagrams whose header agrees with the packet, in arrival order. -/
def gidx (p : Pending) (l : List Datagram) : List Nat :=
  (l.filter (hdrMatch p)).map (·.fragmentId)

theorem wf_succ (p : Pending) (hwf : WF p) : p.lastFragmentId + 1 = numFragments p.data.length := by
  have := numFragments_pos p.data.length
  simp only [WF] at hwf
  omega

theorem genuine_eq (p : Pending) (hwf : WF p) (d : Datagram) (k : Nat) (hk : k ≤ p.lastFragmentId)
    (h : p.datagram k = .ok d) :
    d = { sequenceId := p.sequenceId, channelId := p.channelId,
          windowParentLead := p.windowParentLead, channelParentLead := p.channelParentLead,
          fragmentId := k, fragmentIdLast := p.lastFragmentId, data := frag p.data k } := by
  rw [datagram_ok p hwf k hk] at h
  exact (Except.ok.inj h).symm

theorem hdrMatch_genuine (p : Pending) (hwf : WF p) (d : Datagram) (h : Genuine p d) :
    hdrMatch p d = true := by
  obtain ⟨k, hk, hd⟩ := h
  rw [genuine_eq p hwf d k hk hd]
  simp [hdrMatch]

theorem hdrMatch_forged (p : Pending) (d : Datagram) (h : Forged p d) : hdrMatch p d = false := by
  simp only [hdrMatch, decide_eq_false_iff_not]
  rintro ⟨h1, h2, h3, h4⟩
  rcases h with h | h | h | h
  · exact h h1
  · exact h h2
  · exact h h3
  · exact h h4

theorem gidx_append (p : Pending) (l l' : List Datagram) : gidx p (l ++ l') = gidx p l ++ gidx p l' := by
  simp [gidx]

theorem gidx_forged (p : Pending) (d : Datagram) (h : Forged p d) : gidx p [d] = [] := by
  simp [gidx, hdrMatch_forged p d h]

theorem gidx_genuine (p : Pending) (hwf : WF p) (d : Datagram) (k : Nat) (hk : k ≤ p.lastFragmentId)
    (h : p.datagram k = .ok d) : gidx p [d] = [k] := by
  have hm := hdrMatch_genuine p hwf d ⟨k, hk, h⟩
  have he := genuine_eq p hwf d k hk h
  simp only [gidx, List.filter_cons, hm, if_true, List.filter_nil, List.map_cons, List.map_nil]
  rw [he]

theorem feed_append (p : Pending) (l l' : List Datagram) (h : Feed p l) (h' : Feed p l') :
    Feed p (l ++ l') := by
  intro d hd
  rcases List.mem_append.mp hd with hd | hd
  · exact h d hd
  · exact h' d hd

theorem feed_of_append (p : Pending) (l l' : List Datagram) (h : Feed p (l ++ l')) :
    Feed p l ∧ Feed p l' :=
  ⟨fun d hd => h d (List.mem_append.mpr (Or.inl hd)), fun d hd => h d (List.mem_append.mpr (Or.inr hd))⟩

/-- In a feed, an index is in `gidx` exactly when some datagram of the list is that fragment. -/
theorem mem_gidx_iff (p : Pending) (hwf : WF p) (l : List Datagram) (hl : Feed p l) (k : Nat) :
    k ∈ gidx p l ↔ (k ≤ p.lastFragmentId ∧ ∃ d ∈ l, p.datagram k = .ok d) := by
  simp only [gidx, List.mem_map, List.mem_filter]
  constructor
  · rintro ⟨d, ⟨hd, hm⟩, hk⟩
    rcases hl d hd with hg | hf
    · obtain ⟨k', hk', hd'⟩ := hg
      have he := genuine_eq p hwf d k' hk' hd'
      have : k' = k := by rw [he] at hk; exact hk
      subst this
      exact ⟨hk', d, hd, hd'⟩
    · rw [hdrMatch_forged p d hf] at hm
      exact Bool.noConfusion hm
  · rintro ⟨hk, d, hd, hd'⟩
    refine ⟨d, ⟨hd, hdrMatch_genuine p hwf d ⟨k, hk, hd'⟩⟩, ?_⟩
    rw [genuine_eq p hwf d k hk hd']

theorem gidx_lt (p : Pending) (hwf : WF p) (l : List Datagram) (hl : Feed p l) :
    ∀ k ∈ gidx p l, k < numFragments p.data.length := by
  intro k hk
  have := ((mem_gidx_iff p hwf l hl k).mp hk).1
  have := wf_succ p hwf
  omega

theorem complete_iff_gidx (p : Pending) (hwf : WF p) (l : List Datagram) (hl : Feed p l) :
    Complete p l ↔ ∀ k, k < numFragments p.data.length → k ∈ gidx p l := by
  have hn := wf_succ p hwf
  constructor
  · intro hc k hk
    exact (mem_gidx_iff p hwf l hl k).mpr ⟨by omega, hc k (by omega)⟩
  · intro h k hk
    exact ((mem_gidx_iff p hwf l hl k).mp (h k (by omega))).2

theorem complete_mono (p : Pending) (l l' : List Datagram) (h : Complete p l) : Complete p (l ++ l') := by
  intro k hk
  obtain ⟨d, hd, hd'⟩ := h k hk
  exact ⟨d, List.mem_append.mpr (Or.inl hd), hd'⟩

theorem not_complete_nil (p : Pending) : ¬ Complete p [] := by
  intro h
  obtain ⟨d, hd, _⟩ := h 0 (Nat.zero_le _)
  simp at hd

/-- With at least two fragments a single datagram does not complete the packet. -/
theorem not_complete_singleton (p : Pending) (hwf : WF p) (hlast : 1 ≤ p.lastFragmentId)
    (d : Datagram) : ¬ Complete p [d] := by
  intro h
  obtain ⟨d0, hd0, h0⟩ := h 0 (Nat.zero_le _)
  obtain ⟨d1, hd1, h1⟩ := h 1 hlast
  simp only [List.mem_singleton] at hd0 hd1
  subst hd0 hd1
  have e0 := genuine_eq p hwf _ 0 (Nat.zero_le _) h0
  have e1 := genuine_eq p hwf _ 1 hlast h1
  have := congrArg Datagram.fragmentId (e0.symm.trans e1)
  simp at this

/-- The buffer obtained by writing the genuine fragments of a feed: invariant, and it has no
fragment missing exactly when the feed is complete. -/
theorem buf_of_gidx (p : Pending) (hwf : WF p) (l : List Datagram) (hl : Feed p l) (buf : FragBuf)
    (h : writes p.data (FragBuf.new (p.lastFragmentId + 1)) (gidx p l) = .ok buf) :
    FBInv p.data buf ∧ (∀ j, buf.has j = true ↔ j ∈ gidx p l) ∧
      (buf.remaining = 0 ↔ Complete p l) := by
  rw [wf_succ p hwf] at h
  obtain ⟨b, hb, hinv, hhas, _⟩ := writes_new p.data (gidx p l) (gidx_lt p hwf l hl)
  rw [hb] at h
  have : b = buf := Except.ok.inj h
  subst this
  refine ⟨hinv, hhas, ?_⟩
  rw [fbinv_remaining_zero_iff p.data b hinv, complete_iff_gidx p hwf l hl]
  constructor
  · intro h j hj; exact (hhas j).mp (h j hj)
  · intro h j hj; exact (hhas j).mpr (h j hj)

/-! ### the slot invariant -/

/-- State of slot `i` after the datagrams `l` (a non-empty feed): closed if they are complete,
otherwise active with the first-seen header and the buffer that is the fold of the writes of the
genuine fragments seen so far. -/
def SlotInv (p : Pending) (i : Nat) (l : List Datagram) (s : PRecv.State) : Prop :=
  ∃ a, (Complete p l ∧ (getSlot s i).asm = .closed a) ∨
       (¬ Complete p l ∧ ∃ buf,
          (getSlot s i).asm = .active a p.channelId p.windowParentLead p.channelParentLead
            p.lastFragmentId buf ∧
          writes p.data (FragBuf.new (p.lastFragmentId + 1)) (gidx p l) = .ok buf)

/-- (c) A closed slot ignores every datagram. -/
theorem tryAdd_closed (s : PRecv.State) (i : Nat) (d : Datagram) (a : Nat)
    (h : (getSlot s i).asm = .closed a) : tryAdd s i d = .ok (s, none) := by
  simp only [tryAdd, h]

/-- (a) An active slot ignores a datagram whose header differs from the first-seen one. -/
theorem tryAdd_active_mismatch (s : PRecv.State) (i : Nat) (d : Datagram) (a chan wpl cpl last : Nat)
    (buf : FragBuf) (h : (getSlot s i).asm = .active a chan wpl cpl last buf)
    (hm : d.channelId ≠ chan ∨ d.windowParentLead ≠ wpl ∨ d.channelParentLead ≠ cpl ∨
      d.fragmentIdLast ≠ last) : tryAdd s i d = .ok (s, none) := by
  simp only [tryAdd, h]
  rw [if_pos hm]

/-- An active slot on a datagram with the first-seen header writes the fragment. -/
theorem tryAdd_active_match (s : PRecv.State) (i : Nat) (d : Datagram) (a : Nat) (buf buf' : FragBuf)
    (h : (getSlot s i).asm = .active a d.channelId d.windowParentLead d.channelParentLead
      d.fragmentIdLast buf)
    (hw : buf.write d.fragmentId d.data = .ok buf') :
    tryAdd s i d =
      if buf'.remaining = 0 then
        .ok (setSlot s i { getSlot s i with asm := .closed a },
             some { channelId := d.channelId, sequenceId := d.sequenceId,
                    windowParentLead := d.windowParentLead,
                    channelParentLead := d.channelParentLead, data := some buf'.finalize })
      else
        .ok (setSlot s i { getSlot s i with asm := (.active a d.channelId d.windowParentLead
               d.channelParentLead d.fragmentIdLast buf') }, none) := by
  simp only [tryAdd, h]
  rw [if_neg (by simp), hw]

/-- Single-fragment packets are handed over at once. -/
theorem tryAdd_opened_single (s : PRecv.State) (i : Nat) (d : Datagram)
    (hopen : (getSlot s i).asm = .opened) (halloc : s.alloc + packetAllocSize d ≤ s.maxAlloc)
    (hlast : d.fragmentIdLast = 0) :
    ∃ s', tryAdd s i d = .ok (s', some { channelId := d.channelId, sequenceId := d.sequenceId,
                                         windowParentLead := d.windowParentLead,
                                         channelParentLead := d.channelParentLead,
                                         data := some d.data }) ∧
      (getSlot s' i).asm = .closed (packetAllocSize d) ∧
      s'.alloc = s.alloc + packetAllocSize d := by
  simp only [tryAdd, hopen]
  rw [if_neg (by omega), if_pos hlast]
  exact ⟨_, rfl, by rw [getSlot_setSlot_alloc], rfl⟩

/-- First datagram of a multi-fragment packet on an opened slot. -/
theorem tryAdd_first (p : Pending) (hwf : WF p) (hlast : 1 ≤ p.lastFragmentId) (s : PRecv.State) (i : Nat)
    (d : Datagram) (hopen : (getSlot s i).asm = .opened)
    (halloc : s.alloc + packetAllocSize d ≤ s.maxAlloc) (hd : Genuine p d) :
    ∃ s', tryAdd s i d = .ok (s', none) ∧ SlotInv p i [d] s' := by
  obtain ⟨k, hk, hdk⟩ := hd
  have he := genuine_eq p hwf d k hk hdk
  have hg := gidx_genuine p hwf d k hk hdk
  have hfeed : Feed p [d] := by
    intro d' hd'
    rw [List.mem_singleton.mp hd']
    exact Or.inl ⟨k, hk, hdk⟩
  obtain ⟨b, hb, -⟩ := writes_new p.data (gidx p [d]) (gidx_lt p hwf [d] hfeed)
  rw [← wf_succ p hwf, hg] at hb
  have hw : (FragBuf.new (p.lastFragmentId + 1)).write k (frag p.data k) = .ok b := by
    simp only [writes] at hb
    cases hx : (FragBuf.new (p.lastFragmentId + 1)).write k (frag p.data k) with
    | error t => rw [hx] at hb; cases hb
    | ok b' => rw [hx] at hb; rw [Except.ok.inj hb]
  have hfl : d.fragmentIdLast = p.lastFragmentId := by rw [he]
  have hfi : d.fragmentId = k := by rw [he]
  have hda : d.data = frag p.data k := by rw [he]
  have hch : d.channelId = p.channelId := by rw [he]
  have hwp : d.windowParentLead = p.windowParentLead := by rw [he]
  have hcp : d.channelParentLead = p.channelParentLead := by rw [he]
  simp only [tryAdd, hopen]
  rw [if_neg (by omega), if_neg (by omega), hfl, hfi, hda, hw]
  refine ⟨_, rfl, packetAllocSize d, Or.inr ⟨not_complete_singleton p hwf hlast d, b, ?_, ?_⟩⟩
  · rw [getSlot_setSlot_alloc, hch, hwp, hcp]
  · rw [hg]
    simp only [writes, hw]

/-- One step of a feed on a slot satisfying the invariant. -/
theorem tryAdd_step (p : Pending) (hwf : WF p) (s : PRecv.State) (i : Nat) (l : List Datagram)
    (hl : Feed p l) (hinv : SlotInv p i l s) (d : Datagram) (hd : Genuine p d ∨ Forged p d) :
    ∃ s' o, tryAdd s i d = .ok (s', o) ∧ SlotInv p i (l ++ [d]) s' ∧
      (o = some (pktOf p) ∨ o = none) ∧
      (o = some (pktOf p) ↔ (Complete p (l ++ [d]) ∧ ¬ Complete p l)) ∧
      (Forged p d → s' = s ∧ o = none) ∧ (Complete p l → s' = s ∧ o = none) := by
  have hfeed' : Feed p (l ++ [d]) := feed_append p l [d] hl (by
    intro d' hd'; rw [List.mem_singleton.mp hd']; exact hd)
  obtain ⟨a, ⟨hc, hasm⟩ | ⟨hnc, buf, hasm, hbuf⟩⟩ := hinv
  · -- closed
    refine ⟨s, none, tryAdd_closed s i d a hasm, ⟨a, Or.inl ⟨complete_mono p l [d] hc, hasm⟩⟩,
      Or.inr rfl, ?_, fun _ => ⟨rfl, rfl⟩, fun _ => ⟨rfl, rfl⟩⟩
    constructor
    · intro h; cases h
    · intro h; exact absurd hc h.2
  · rcases hd with hg | hf
    · -- genuine fragment
      obtain ⟨k, hk, hdk⟩ := hg
      have he := genuine_eq p hwf d k hk hdk
      have hg1 := gidx_genuine p hwf d k hk hdk
      have hgl : gidx p (l ++ [d]) = gidx p l ++ [k] := by rw [gidx_append, hg1]
      obtain ⟨b, hb, -⟩ := writes_new p.data (gidx p (l ++ [d])) (gidx_lt p hwf _ hfeed')
      rw [← wf_succ p hwf] at hb
      have hb' := hb
      rw [hgl, writes_append, hbuf] at hb'
      have hw : buf.write k (frag p.data k) = .ok b := by
        simp only [writes] at hb'
        cases hx : buf.write k (frag p.data k) with
        | error t => rw [hx] at hb'; cases hb'
        | ok b' => rw [hx] at hb'; rw [Except.ok.inj hb']
      obtain ⟨hbinv, hbhas, hbrem⟩ := buf_of_gidx p hwf (l ++ [d]) hfeed' b hb
      have hfl : d.fragmentIdLast = p.lastFragmentId := by rw [he]
      have hfi : d.fragmentId = k := by rw [he]
      have hda : d.data = frag p.data k := by rw [he]
      have hch : d.channelId = p.channelId := by rw [he]
      have hwp : d.windowParentLead = p.windowParentLead := by rw [he]
      have hcp : d.channelParentLead = p.channelParentLead := by rw [he]
      have hsq : d.sequenceId = p.sequenceId := by rw [he]
      have hasm' : (getSlot s i).asm = .active a d.channelId d.windowParentLead
          d.channelParentLead d.fragmentIdLast buf := by rw [hch, hwp, hcp, hfl]; exact hasm
      have hw' : buf.write d.fragmentId d.data = .ok b := by rw [hfi, hda]; exact hw
      rw [tryAdd_active_match s i d a buf b hasm' hw']
      by_cases hr : b.remaining = 0
      · have hc' : Complete p (l ++ [d]) := hbrem.mp hr
        have hfin : b.finalize = p.data :=
          finalize_complete p.data b hbinv (fun j hj => (hbhas j).mpr
            ((complete_iff_gidx p hwf _ hfeed').mp hc' j hj))
        rw [if_pos hr, hfin, hch, hwp, hcp, hsq]
        refine ⟨_, _, rfl, ⟨a, Or.inl ⟨hc', by rw [getSlot_setSlot]⟩⟩, Or.inl rfl, ?_, ?_, ?_⟩
        · exact ⟨fun _ => ⟨hc', hnc⟩, fun _ => rfl⟩
        · intro hf
          have := hdrMatch_forged p d hf
          rw [hdrMatch_genuine p hwf d ⟨k, hk, hdk⟩] at this
          exact Bool.noConfusion this
        · intro hc; exact absurd hc hnc
      · have hnc' : ¬ Complete p (l ++ [d]) := fun hc => hr (hbrem.mpr hc)
        rw [if_neg hr]
        refine ⟨_, _, rfl, ⟨a, Or.inr ⟨hnc', b, ?_, hb⟩⟩, Or.inr rfl, ?_, ?_, ?_⟩
        · rw [getSlot_setSlot, hch, hwp, hcp, hfl]
        · constructor
          · intro h; cases h
          · intro h; exact absurd h.1 hnc'
        · intro hf
          have := hdrMatch_forged p d hf
          rw [hdrMatch_genuine p hwf d ⟨k, hk, hdk⟩] at this
          exact Bool.noConfusion this
        · intro hc; exact absurd hc hnc
    · -- forged header
      have hgl : gidx p (l ++ [d]) = gidx p l := by rw [gidx_append, gidx_forged p d hf]; simp
      have hnc' : ¬ Complete p (l ++ [d]) := by
        rw [complete_iff_gidx p hwf _ hfeed', hgl, ← complete_iff_gidx p hwf l hl]
        exact hnc
      refine ⟨s, none, tryAdd_active_mismatch s i d _ _ _ _ _ buf hasm hf,
        ⟨a, Or.inr ⟨hnc', buf, hasm, by rw [hgl]; exact hbuf⟩⟩, Or.inr rfl, ?_,
        fun _ => ⟨rfl, rfl⟩, fun _ => ⟨rfl, rfl⟩⟩
      constructor
      · intro h; cases h
      · intro h; exact absurd h.1 hnc'

/-! ### runs -/

/-- Feeds the datagrams to slot `i` one after the other, dropping the outputs. -/
def run (s : PRecv.State) (i : Nat) : List Datagram → R PRecv.State
  | [] => .ok s
  | d :: ds =>
    match tryAdd s i d with
    | .error t => .error t
    | .ok (s', _) => run s' i ds

theorem run_inv (p : Pending) (hwf : WF p) (i : Nat) (ds : List Datagram) :
    ∀ (l : List Datagram) (s : PRecv.State), Feed p l → Feed p ds → SlotInv p i l s →
      ∃ s', run s i ds = .ok s' ∧ SlotInv p i (l ++ ds) s' := by
  induction ds with
  | nil => intro l s _ _ hinv; exact ⟨s, rfl, by rw [List.append_nil]; exact hinv⟩
  | cons d ds ih =>
    intro l s hl hds hinv
    have hd : Genuine p d ∨ Forged p d := hds d (by simp)
    have hds' : Feed p ds := fun x hx => hds x (by simp [hx])
    obtain ⟨s1, o, h1, hinv1, -⟩ := tryAdd_step p hwf s i l hl hinv d hd
    have hl1 : Feed p (l ++ [d]) := feed_append p l [d] hl (by
      intro d' hd'; rw [List.mem_singleton.mp hd']; exact hd)
    obtain ⟨s2, h2, hinv2⟩ := ih (l ++ [d]) s1 hl1 hds' hinv1
    refine ⟨s2, ?_, ?_⟩
    · simp only [run, h1]; exact h2
    · rw [List.append_assoc] at hinv2; exact hinv2

/-- State after a non-empty feed whose first datagram is genuine, on an opened slot. -/
theorem run_feed (p : Pending) (hwf : WF p) (hlast : 1 ≤ p.lastFragmentId) (s : PRecv.State) (i : Nat)
    (d0 : Datagram) (rest : List Datagram) (hopen : (getSlot s i).asm = .opened)
    (halloc : s.alloc + packetAllocSize d0 ≤ s.maxAlloc) (hd0 : Genuine p d0) (hrest : Feed p rest) :
    ∃ s', run s i (d0 :: rest) = .ok s' ∧ SlotInv p i (d0 :: rest) s' := by
  obtain ⟨s0, h0, hinv0⟩ := tryAdd_first p hwf hlast s i d0 hopen halloc hd0
  have hf0 : Feed p [d0] := by
    intro d' hd'; rw [List.mem_singleton.mp hd']; exact Or.inl hd0
  obtain ⟨s', h1, hinv1⟩ := run_inv p hwf i rest [d0] s0 hf0 hrest hinv0
  exact ⟨s', by simp only [run, h0]; exact h1, hinv1⟩

/-- Like `run`, but collects the outputs (used by the concrete examples). -/
def runOuts (s : PRecv.State) (i : Nat) : List Datagram → R (List (Option Packet))
  | [] => .ok []
  | d :: ds =>
    match tryAdd s i d with
    | .error t => .error t
    | .ok (s', o) =>
      match runOuts s' i ds with
      | .error t => .error t
      | .ok os => .ok (o :: os)

/-- A 3-fragment example packet (`2*1448 + 7` bytes) for the non-vacuity examples. -/
def exPacket : Pending :=
  { uid := 0, data := List.replicate 2903 7, channelId := 5, sequenceId := 9, windowParentLead := 2,
    channelParentLead := 3, lastFragmentId := 2, acked := [] }

/-- Fragment `k` of `exPacket`, written out. -/
def exFrag (k : Nat) : Datagram :=
  { sequenceId := 9, channelId := 5, windowParentLead := 2, channelParentLead := 3,
    fragmentId := k, fragmentIdLast := 2, data := frag exPacket.data k }

/-! ### "exactly once": pure list facts about the first complete prefix -/

theorem first_true {α : Type} (ds : List α) :
    ∀ (P : List α → Prop), ¬ P [] → P ds →
      ∃ pre d post, ds = pre ++ d :: post ∧ ¬ P pre ∧ P (pre ++ [d]) := by
  induction ds with
  | nil => intro P h0 h1; exact absurd h1 h0
  | cons a ds ih =>
    intro P h0 h1
    by_cases ha : P [a]
    · exact ⟨[], a, ds, rfl, h0, ha⟩
    · obtain ⟨pre, d, post, he, hn, hp⟩ := ih (fun l => P (a :: l)) ha h1
      exact ⟨a :: pre, d, post, by rw [he]; rfl, hn, hp⟩

theorem split_prefix {α : Type} (pre1 pre2 post1 post2 : List α) (d1 d2 : α)
    (h : pre1 ++ d1 :: post1 = pre2 ++ d2 :: post2) (hlt : pre1.length < pre2.length) :
    ∃ t, pre2 = (pre1 ++ [d1]) ++ t := by
  induction pre1 generalizing pre2 with
  | nil =>
    cases pre2 with
    | nil => simp at hlt
    | cons b pre2 =>
      simp only [List.nil_append, List.cons_append, List.cons.injEq] at h
      exact ⟨pre2, by rw [h.1]; rfl⟩
  | cons a pre1 ih =>
    cases pre2 with
    | nil => simp at hlt
    | cons b pre2 =>
      simp only [List.cons_append, List.cons.injEq] at h
      simp only [List.length_cons] at hlt
      obtain ⟨t, ht⟩ := ih pre2 h.2 (by omega)
      exact ⟨t, by rw [h.1, ht]; rfl⟩

/-- The completing position is unique. -/
theorem completion_unique (p : Pending) (pre1 pre2 post1 post2 : List Datagram) (d1 d2 : Datagram)
    (h : pre1 ++ d1 :: post1 = pre2 ++ d2 :: post2)
    (h1 : Complete p (pre1 ++ [d1]) ∧ ¬ Complete p pre1)
    (h2 : Complete p (pre2 ++ [d2]) ∧ ¬ Complete p pre2) : pre1.length = pre2.length := by
  rcases Nat.lt_trichotomy pre1.length pre2.length with hlt | heq | hgt
  · obtain ⟨t, ht⟩ := split_prefix pre1 pre2 post1 post2 d1 d2 h hlt
    exact absurd (ht ▸ complete_mono p _ t h1.1) h2.2
  · exact heq
  · obtain ⟨t, ht⟩ := split_prefix pre2 pre1 post2 post1 d2 d1 h.symm hgt
    exact absurd (ht ▸ complete_mono p _ t h2.1) h1.2

end Uflow.Frag
