import Uflow.Lemmas.PSendHistRun
import Uflow.Lemmas.PSendAck

/-!
The hypothesis-free part of the sender history invariant: submission order is kept, only
TimeSensitive entries are removed, the allocation stays within the limit. (No assumption on the
window size or the initial base id.)
-/

namespace Uflow.PSend

open Uflow Uflow.Gen
open Uflow.Props.C20 (Op)

/-- `kept` is `all` with some TimeSensitive entries removed (order preserved). -/
inductive OnlyTSRemoved : List QEntry → List QEntry → Prop
  | nil : OnlyTSRemoved [] []
  | keep (q : QEntry) {kept all : List QEntry} : OnlyTSRemoved kept all → OnlyTSRemoved (q :: kept) (q :: all)
  | drop (q : QEntry) {kept all : List QEntry} : q.mode = .timeSensitive → OnlyTSRemoved kept all →
      OnlyTSRemoved kept (q :: all)

theorem onlyTSRemoved_of_sublist (kept all : List QEntry) (hs : kept.Sublist all)
    (hf : all.filter notTS = kept.filter notTS) : OnlyTSRemoved kept all := by
  induction hs with
  | slnil => exact .nil
  | @cons k a x hs ih =>
    by_cases hx : x.mode = .timeSensitive
    · refine .drop x hx (ih ?_)
      have : notTS x = false := by simp [notTS, hx]
      rw [List.filter_cons, this] at hf
      simpa using hf
    · have hxt : notTS x = true := by simp [notTS, hx]
      rw [List.filter_cons, hxt] at hf
      simp only [if_true] at hf
      have h1 : (k.filter notTS).length ≤ (a.filter notTS).length := (hs.filter notTS).length_le
      have h2 := congrArg List.length hf
      simp only [List.length_cons] at h2
      omega
  | @cons_cons k a x hs ih =>
    refine .keep x (ih ?_)
    by_cases hx : notTS x = true
    · rw [List.filter_cons, List.filter_cons, hx] at hf
      simpa using hf
    · simp only [Bool.not_eq_true] at hx
      rw [List.filter_cons, List.filter_cons, hx] at hf
      simpa using hf

/-- Queue-level invariant. -/
def QInv (s : State) (h : Hist) : Prop :=
  ((h.emitted.map Emitted.toQ ++ s.queue).Sublist h.enqueued ∧
    h.enqueued.filter notTS = (h.emitted.map Emitted.toQ ++ s.queue).filter notTS) ∧
  s.alloc ≤ s.maxAlloc

theorem qinv_init (w b a : Nat) : QInv (init w b a) {} := by
  simp [QInv, init]

theorem ackLoop_alloc (fuel : Nat) (s s' : State) (rb : Nat) (h : ackLoop fuel s rb = .ok s') :
    s'.alloc ≤ s.alloc ∧ s'.maxAlloc = s.maxAlloc := by
  induction fuel generalizing s with
  | zero => simp [ackLoop] at h
  | succ n ih =>
    unfold ackLoop at h
    split at h
    · cases h; exact ⟨Nat.le_refl _, rfl⟩
    · split at h
      · cases h
      · split at h
        · cases h
        · split at h
          · cases h
          · split at h
            · cases h
            · have := ih _ h
              simp only at this
              exact ⟨by omega, this.2⟩

theorem acknowledge_alloc (s s' : State) (rb : Nat) (h : acknowledge s rb = .ok s') :
    s'.alloc ≤ s.alloc ∧ s'.maxAlloc = s.maxAlloc := by
  unfold acknowledge at h
  simp only at h
  split at h
  · cases h; exact ⟨Nat.le_refl _, rfl⟩
  · split at h
    · cases h; exact ⟨Nat.le_refl _, rfl⟩
    · exact ackLoop_alloc _ _ _ _ h

theorem qinv_stepH (s : State) (h : Hist) (op : Op) (hi : QInv s h) :
    ∀ s' h', stepH s h op = .ok (s', h') → QInv s' h' := by
  intro s' h' he
  cases op with
  | enq d c m f =>
    simp only [stepH, Except.ok.injEq, Prod.mk.injEq] at he
    obtain ⟨rfl, rfl⟩ := he
    refine ⟨?_, hi.2⟩
    simp only [enqueue]
    rw [← List.append_assoc]
    refine ⟨List.Sublist.append hi.1.1 (List.Sublist.refl _), ?_⟩
    rw [List.filter_append, List.filter_append _ [_], hi.1.2]
  | emit f =>
    simp only [stepH] at he
    cases hr : emit s f with
    | error t => rw [hr] at he; cases he
    | ok r =>
      obtain ⟨s1, o⟩ := r
      rw [hr] at he
      obtain ⟨dropped, queue, total, hq, hd, hcase⟩ := emit_spec s s1 f o hr
      have hord := hi.1
      rw [hq] at hord
      rcases hcase with ⟨rfl, rfl⟩ | ⟨q, rest, p, resend, chanPar, rfl, rfl, hns, hwin, hal, hcp, hpu, hpd,
        hpc, hps, hpw, hpcl, _, _, rfl⟩
      · simp only [Except.ok.injEq, Prod.mk.injEq] at he
        obtain ⟨rfl, rfl⟩ := he
        exact ⟨order_drop _ dropped queue _ (fun d h => (hd d h).1) hord, hi.2⟩
      · simp only [Except.ok.injEq, Prod.mk.injEq] at he
        obtain ⟨rfl, rfl⟩ := he
        have hcons := consumed_eq s f dropped q rest hq hd hns
        have e_toQ : (mkEmitted s f p).toQ = q := by
          simp only [mkEmitted, Emitted.toQ, hcons, hpd, hpc]
        have h2 := order_drop _ dropped (q :: rest) _ (fun d h => (hd d h).1) hord
        refine ⟨?_, hal⟩
        simp only [emitState, List.map_append, List.map_cons, List.map_nil, List.append_assoc,
          List.singleton_append, e_toQ]
        exact h2
  | ack rb =>
    simp only [stepH] at he
    cases hr : acknowledge s rb with
    | error t => rw [hr] at he; cases he
    | ok s1 =>
      rw [hr] at he
      simp only [Except.ok.injEq, Prod.mk.injEq] at he
      obtain ⟨rfl, rfl⟩ := he
      obtain ⟨_, _, hqq⟩ := acknowledge_suffix s _ rb hr
      obtain ⟨ha, hm⟩ := acknowledge_alloc s _ rb hr
      have := hi.2
      refine ⟨by rw [hqq]; exact hi.1, by omega⟩
  | ackFrag u fid =>
    simp only [stepH, Except.ok.injEq, Prod.mk.injEq] at he
    obtain ⟨rfl, rfl⟩ := he
    exact hi

theorem qinv_runH (ops : List Op) (s : State) (h : Hist) (hi : QInv s h) :
    ∀ s' h', runH s h ops = .ok (s', h') → QInv s' h' := by
  induction ops generalizing s h with
  | nil =>
    intro s' h' he
    simp only [runH, Except.ok.injEq, Prod.mk.injEq] at he
    obtain ⟨rfl, rfl⟩ := he
    exact hi
  | cons op rest ih =>
    intro s' h' he
    simp only [runH] at he
    cases hs : stepH s h op with
    | error t => rw [hs] at he; cases he
    | ok r =>
      obtain ⟨s1, h1⟩ := r
      rw [hs] at he
      exact ih s1 h1 (qinv_stepH s h op hi s1 h1 hs) s' h' he

/-- Reading a `ParentLead` when the 16-bit truncation cannot bite (`out < 2^16`). -/
theorem ParentLead.exact {P : Emitted → Prop} {em : List Emitted} {i out lead : Nat}
    (h : ParentLead P em i out lead) (ho : out < 2^16) :
    lead ≤ out ∧ lead ≤ i ∧
    (lead = 0 ↔ ∀ j x, em[j]? = some x → j < i → i - j ≤ out → ¬ P x) ∧
    (lead ≠ 0 → ∃ x, em[i - lead]? = some x ∧ P x ∧
      ∀ k y, em[k]? = some y → i - lead < k → k < i → ¬ P y) := by
  rcases h with ⟨h0, hn⟩ | ⟨j, x, hj, hji, hjo, hp, hk, hl⟩
  · subst h0
    exact ⟨Nat.zero_le _, Nat.zero_le _, ⟨fun _ => hn, fun _ => rfl⟩, fun h => absurd rfl h⟩
  · have hle : lead = i - j := by rw [hl]; exact Nat.mod_eq_of_lt (by omega)
    have hij : i - lead = j := by omega
    refine ⟨by omega, by omega, ⟨fun h0 => by omega, fun hall => absurd hp (hall j x hj hji hjo)⟩, ?_⟩
    intro _
    rw [hij]
    exact ⟨x, hj, hp, hk⟩

end Uflow.PSend
