import Uflow.Lemmas.SysLiveAck

/-!
Liveness of the composed system (C02Live), part 9: one redelivery round (`deliver` every datagram of
the network, then `receive`), assembled.
-/

namespace Uflow.Sys

open Uflow Uflow.Gen Uflow.Codec Uflow.PSend Uflow.PRecv Uflow.Frag

/-- **One redelivery round**, from any state satisfying the three system invariants. -/
theorem round_all {b0 w W M : Nat} (hW : WOk W) (hw : w ≤ 2^16) (hwW : w ≤ W) {s : Sys}
    (h : SInv b0 w W M s) (p : PInv W s) (l : LInv W s) :
    ∃ s', runS s ((List.range s.net.length).map SOp.deliver ++ [SOp.recv]) = .ok s' ∧
      s'.snd = s.snd ∧ s'.hist = s.hist ∧ s'.pend = s.pend ∧ s'.net = s.net ∧
      s'.seen = s.seen ++ [(s'.rcv.adv, s'.rcv.st.baseId)] ∧
      s'.rcv.adv = s.hist.emitted.length ∧
      (∀ e ∈ s.rcv.log, e ∈ s'.rcv.log) ∧
      (∀ j x, s.hist.emitted[j]? = some x → x.mode = .reliable → ∃ e ∈ s'.rcv.log, e.uid = j) ∧
      (∀ j x, s.hist.emitted[j]? = some x → s.rcv.adv ≤ j →
        (∃ e ∈ s'.rcv.log, e.uid = j) ∨
        (x.mode ≠ .reliable ∧ ∃ e ∈ s.rcv.log, e.chan = x.channelId ∧ j < e.uid)) := by
  obtain ⟨t, ht, h2, p2, l2, f2, harr⟩ := round_arrived hW hw hwW h p l
  -- the `receive` step
  obtain ⟨pr, hpr⟩ := receiveT_ok h2.rcv.inv
  have hstep : ∃ t', stepS t .recv = .ok t' ∧ t'.snd = t.snd ∧ t'.hist = t.hist ∧ t'.pend = t.pend ∧
      t'.net = t.net ∧ t'.seen = t.seen ++ [(t'.rcv.adv, t'.rcv.st.baseId)] := by
    simp only [stepS]
    rw [stepT_recv, hpr, bindR_ok, bindR_ok]
    exact ⟨_, rfl, rfl, rfl, rfl, rfl, rfl⟩
  obtain ⟨t', hs, g1, g2, g3, g4, g5⟩ := hstep
  have hadv := round_advances hW hw hwW h2 l2 harr hs
  obtain ⟨hmono, hdel⟩ := round_delivers_entry hW hw hwW h2 p2 l2 harr hs
  refine ⟨t', ?_, by rw [g1, f2.snd], by rw [g2, f2.hist], by rw [g3, f2.pend], by rw [g4, f2.net],
    by rw [g5, f2.seen], by rw [hadv, f2.hist], ?_, ?_, ?_⟩
  · rw [runS_append _ _ s t ht, runS, hs, bindR_ok, runS]
  · intro e he
    exact hmono e (by rw [f2.log]; exact he)
  · intro j x hx hrel
    rw [← f2.hist] at hx
    rcases Nat.lt_or_ge j t.rcv.adv with hlt | hge
    · obtain ⟨e, he, hu⟩ := p2.passed j x hx hrel hlt
      exact ⟨e, hmono e he, hu⟩
    · exact hdel j hge (List.getElem?_eq_some_iff.mp hx).1 (rel_entry hW hw hwW h2 l2 harr j x hx hrel hge)
  · intro j x hx hge
    rw [← f2.hist] at hx
    rw [← f2.adv] at hge
    have hjlt : j < t.hist.emitted.length := (List.getElem?_eq_some_iff.mp hx).1
    by_cases hen : (lget t.rcv.st.slots (wi W (pidAdd b0 j))).entryFlag = true
    · exact Or.inl (hdel j hge hjlt hen)
    · right
      have hplt : j < t.pend.length := by rw [h2.snd.plen]; exact hjlt
      have hpk : t.pend[j]? = some t.pend[j] := List.getElem?_eq_getElem hplt
      obtain ⟨-, e, he, -, e2, -⟩ := h2.snd.plink j _ hpk
      rw [hx] at he
      cases he
      rcases harr j _ hpk hge with hen' | hbeh
      · exact absurd hen' hen
      obtain ⟨e, he, hc, hu1, -, hcl⟩ := behind_log hW (by omega) hwW h2 j _ hge hjlt hbeh
      refine ⟨?_, e, by rw [← f2.log]; exact he, by rw [hc, e2], ?_⟩
      · intro hrel
        exact hen (rel_entry hW hw hwW h2 l2 harr j x hx hrel hge)
      · rcases Nat.eq_or_lt_of_le hu1 with heq | hlt
        · obtain ⟨a, ha⟩ := hcl heq.symm
          exact absurd (l2.rl.ce _ a ha) hen
        · exact hlt

end Uflow.Sys
