import Uflow.Lemmas.HcAckChar
import Uflow.Lemmas.HcAckFq
import Uflow.Lemmas.PSendHistOrder

/-!
C15 (half connection), part 3: the groups of an ack frame folded over (frame queue, packet sender),
and `PSend.acknowledge` with a stale / repeated base.
-/

namespace Uflow.HcAck

open Uflow Uflow.Gen Uflow.Codec Uflow.HalfConn Uflow.FrameQ

/-! ### `PSend.acknowledge` -/

theorem ackLoop_base (fuel : Nat) (s s' : PSend.State) (rb : Nat)
    (h : PSend.ackLoop fuel s rb = .ok s') : s'.baseId = rb := by
  induction fuel generalizing s with
  | zero => simp [PSend.ackLoop] at h
  | succ n ih =>
    unfold PSend.ackLoop at h
    split at h
    · rename_i hb
      cases h; exact hb
    · split at h
      · cases h
      · split at h
        · cases h
        · split at h
          · cases h
          · split at h
            · cases h
            · exact ih _ h

theorem ackLoop_at_base (fuel : Nat) (s : PSend.State) :
    PSend.ackLoop (fuel + 1) s s.baseId = .ok s := by
  unfold PSend.ackLoop
  rw [if_pos rfl]

/-- `acknowledge` either ignores the base, or moves the window base exactly to it — and only if it is
a valid id inside the current send window. -/
theorem acknowledge_cases (s s' : PSend.State) (rb : Nat) (h : PSend.acknowledge s rb = .ok s') :
    s' = s ∨ (rb % 2^32 % PACKET_ID_SPAN = rb ∧ pidSub rb s.baseId ≤ pidSub s.nextId s.baseId ∧
      s'.baseId = rb) := by
  unfold PSend.acknowledge at h
  simp only at h
  split at h
  · cases h; exact .inl rfl
  · rename_i hv
    split at h
    · cases h; exact .inl rfl
    · rename_i hd
      exact .inr ⟨Classical.not_not.mp hv, by omega, ackLoop_base _ _ _ _ h⟩

/-- The bases `acknowledge` ignores: not a packet id, outside the send window, or the current base. -/
theorem acknowledge_noop (s : PSend.State) (rb : Nat)
    (h : rb % 2^32 % PACKET_ID_SPAN ≠ rb ∨ pidSub rb s.baseId > pidSub s.nextId s.baseId ∨
      rb = s.baseId) : PSend.acknowledge s rb = .ok s := by
  unfold PSend.acknowledge
  simp only
  by_cases hv : rb % 2^32 % PACKET_ID_SPAN ≠ rb
  · rw [if_pos hv]
  · rw [if_neg hv]
    by_cases hd : pidSub rb s.baseId > pidSub s.nextId s.baseId
    · rw [if_pos hd]
    · rw [if_neg hd]
      rcases h with h | h | h
      · exact absurd h hv
      · exact absurd h hd
      · subst h
        exact ackLoop_at_base _ s

/-- Acknowledging the same base again does nothing. -/
theorem acknowledge_idem (s s' : PSend.State) (rb : Nat) (h : PSend.acknowledge s rb = .ok s') :
    PSend.acknowledge s' rb = .ok s' := by
  rcases acknowledge_cases s s' rb h with rfl | ⟨_, _, hb⟩
  · exact h
  · exact acknowledge_noop s' rb (.inr (.inr hb.symm))

theorem ackFragment_keep (ps : PSend.State) (uid fid : Nat) :
    (PSend.ackFragment ps uid fid).baseId = ps.baseId ∧ (PSend.ackFragment ps uid fid).nextId = ps.nextId ∧
      (PSend.ackFragment ps uid fid).queue = ps.queue ∧ (PSend.ackFragment ps uid fid).alloc = ps.alloc ∧
      (PSend.ackFragment ps uid fid).totalSize = ps.totalSize ∧
      (PSend.ackFragment ps uid fid).win.length = ps.win.length := by
  refine ⟨rfl, rfl, rfl, rfl, rfl, ?_⟩
  simp [PSend.ackFragment]

theorem ackFrags_keep (ps : PSend.State) (frs : List (Nat × Nat)) :
    (ackFrags ps frs).baseId = ps.baseId ∧ (ackFrags ps frs).nextId = ps.nextId ∧
      (ackFrags ps frs).queue = ps.queue ∧ (ackFrags ps frs).alloc = ps.alloc ∧
      (ackFrags ps frs).totalSize = ps.totalSize ∧ (ackFrags ps frs).win.length = ps.win.length := by
  induction frs generalizing ps with
  | nil => exact ⟨rfl, rfl, rfl, rfl, rfl, rfl⟩
  | cons p frs ih =>
    have h1 := ackFragment_keep ps p.1 p.2
    have h2 := ih (PSend.ackFragment ps p.1 p.2)
    have : ackFrags ps (p :: frs) = ackFrags (PSend.ackFragment ps p.1 p.2) frs := rfl
    rw [this]
    exact ⟨h2.1.trans h1.1, h2.2.1.trans h1.2.1, h2.2.2.1.trans h1.2.2.1,
      h2.2.2.2.1.trans h1.2.2.2.1, h2.2.2.2.2.1.trans h1.2.2.2.2.1, h2.2.2.2.2.2.trans h1.2.2.2.2.2⟩

/-! ### the groups of an ack frame -/

theorem ackGroups_nil (rtt : Option Nat) (x : FrameQ.State × PSend.State) :
    ackGroups rtt [] x = .ok x := rfl

theorem ackGroups_cons (rtt : Option Nat) (g : AckGroup) (rest : List AckGroup)
    (x : FrameQ.State × PSend.State) :
    ackGroups rtt (g :: rest) x =
      match grpStep acknowledgeGroup rtt x g with
      | .error t => .error t
      | .ok y => ackGroups rtt rest y := by
  unfold ackGroups
  rw [List.foldlM_cons]
  cases grpStep acknowledgeGroup rtt x g <;> rfl

theorem grpStep_ok (ag : FrameQ.State → AckGroup → Option Nat → R (FrameQ.State × List (Nat × Nat)))
    (rtt : Option Nat) (x y : FrameQ.State × PSend.State) (g : AckGroup)
    (h : grpStep ag rtt x g = .ok y) : ∃ frs, ag x.1 g rtt = .ok (y.1, frs) ∧ y.2 = ackFrags x.2 frs := by
  unfold grpStep at h
  cases ha : ag x.1 g rtt with
  | error t => rw [ha] at h; cases h
  | ok v =>
    obtain ⟨fq, frs⟩ := v
    rw [ha] at h
    simp only [Except.ok.injEq] at h
    subst h
    exact ⟨frs, rfl, rfl⟩

theorem grpStep_of (ag : FrameQ.State → AckGroup → Option Nat → R (FrameQ.State × List (Nat × Nat)))
    (rtt : Option Nat) (x : FrameQ.State × PSend.State) (g : AckGroup) (fq : FrameQ.State)
    (frs : List (Nat × Nat)) (h : ag x.1 g rtt = .ok (fq, frs)) :
    grpStep ag rtt x g = .ok (fq, ackFrags x.2 frs) := by
  unfold grpStep; rw [h]

/-- Dead groups only: nothing happens. -/
theorem ackGroups_noop (rtt : Option Nat) (acks : List AckGroup) (fq : FrameQ.State)
    (ps : PSend.State) (h : ∀ g ∈ acks, GroupDead fq g) : ackGroups rtt acks (fq, ps) = .ok (fq, ps) := by
  induction acks with
  | nil => rfl
  | cons g rest ih =>
    rw [ackGroups_cons, grpStep_of _ rtt (fq, ps) g fq [] (groupDead_noop fq g rtt (h g List.mem_cons_self))]
    exact ih (fun g' hg' => h g' (List.mem_cons_of_mem _ hg'))

/-- What a marked fragment reference `p` proves about the ack frame, in terms of the log `fq0` before the
frame: some group of the frame is genuine for `fq0` and claims a logged, not yet acknowledged frame whose
log entry records `p`. -/
def MarkedBy (fq0 : FrameQ.State) (acks : List AckGroup) (p : Nat × Nat) : Prop :=
  ∃ g ∈ acks, AckGenuine fq0 g ∧ ∃ i e, i < bitfieldSize g.bitfield ∧ g.bitfield / 2^i % 2 = 1 ∧
    getFrame fq0 (wadd32 g.baseId i) = some e ∧ e.acked = false ∧ p ∈ e.refs

theorem MarkedBy.cons {fq0 : FrameQ.State} {acks : List AckGroup} {p : Nat × Nat} (g : AckGroup)
    (h : MarkedBy fq0 acks p) : MarkedBy fq0 (g :: acks) p := by
  obtain ⟨g', hg', r⟩ := h
  exact ⟨g', List.mem_cons_of_mem _ hg', r⟩

theorem ackGroups_sound (rtt : Option Nat) (fq0 : FrameQ.State) (acks : List AckGroup) :
    ∀ (fq : FrameQ.State) (ps : PSend.State) (fq1 : FrameQ.State) (ps1 : PSend.State),
      LogLe fq0 fq → ackGroups rtt acks (fq, ps) = .ok (fq1, ps1) →
      LogLe fq fq1 ∧ ∃ frs, ps1 = ackFrags ps frs ∧ ∀ p ∈ frs, MarkedBy fq0 acks p := by
  induction acks with
  | nil =>
    intro fq ps fq1 ps1 _ h
    rw [ackGroups_nil] at h
    simp only [Except.ok.injEq, Prod.mk.injEq] at h
    obtain ⟨rfl, rfl⟩ := h
    exact ⟨LogLe.refl _, [], rfl, fun p hp => by cases hp⟩
  | cons g rest ih =>
    intro fq ps fq1 ps1 h0 h
    rw [ackGroups_cons] at h
    cases hs : grpStep acknowledgeGroup rtt (fq, ps) g with
    | error t => rw [hs] at h; cases h
    | ok y =>
      rw [hs] at h
      simp only [] at h
      obtain ⟨frs1, hag, hps⟩ := grpStep_ok _ rtt (fq, ps) y g hs
      simp only [] at hag hps
      have hle := acknowledgeGroup_logLe hag
      have hsnd := acknowledgeGroup_sound_from h0 hag
      obtain ⟨yfq, yps⟩ := y
      simp only [] at hag hps hle h
      obtain ⟨hle2, frs2, hps2, hm2⟩ := ih yfq yps fq1 ps1 (h0.trans hle) h
      refine ⟨hle.trans hle2, frs1 ++ frs2, by rw [hps2, hps, ackFrags_append], ?_⟩
      intro p hp
      rcases List.mem_append.mp hp with hp | hp
      · obtain ⟨hg, i, e, r⟩ := hsnd p hp
        exact ⟨g, List.mem_cons_self, hg, i, e, r⟩
      · exact (hm2 p hp).cons g

/-- After the groups of an ack frame have been processed, every one of them is dead. -/
theorem ackGroups_dead (rtt : Option Nat) (acks : List AckGroup) :
    ∀ (fq : FrameQ.State) (ps : PSend.State) (fq1 : FrameQ.State) (ps1 : PSend.State),
      ackGroups rtt acks (fq, ps) = .ok (fq1, ps1) → ∀ g ∈ acks, GroupDead fq1 g := by
  induction acks with
  | nil => intro _ _ _ _ _ g hg; cases hg
  | cons g rest ih =>
    intro fq ps fq1 ps1 h g' hg'
    rw [ackGroups_cons] at h
    cases hs : grpStep acknowledgeGroup rtt (fq, ps) g with
    | error t => rw [hs] at h; cases h
    | ok y =>
      rw [hs] at h
      simp only [] at h
      obtain ⟨frs1, hag, _⟩ := grpStep_ok _ rtt (fq, ps) y g hs
      obtain ⟨yfq, yps⟩ := y
      simp only [] at hag h
      rcases List.mem_cons.mp hg' with rfl | hg'
      · have hd := acknowledgeGroup_dead hag
        obtain ⟨hle, _⟩ := ackGroups_sound rtt yfq rest yfq yps fq1 ps1 (LogLe.refl _) h
        exact hd.sub hle.sub
      · exact ih yfq yps fq1 ps1 h g' hg'

end Uflow.HcAck
