import Uflow.Lemmas.HcGatePair
import Uflow.Props.C09Hc

/-!
C09Gate, part 3: assembly. An open flush gate (`is_send_pending() = false`) in the final state of a
`Guarded`, frame-id-fresh run of the pair, followed by ONE `B.receive`: `HcGate.GateComplete`. Also the
vocabulary for composing this with the flush gate of the endpoints (`Props/C09.lean`).
-/

namespace Uflow.HcGate

open Uflow Uflow.Gen Uflow.Codec Uflow.HalfConn Uflow.PSend Uflow.HcSys Uflow.HcFlush
open Uflow.PRecv (LogE)
open Uflow.Rate (FloatOps)
open Uflow.Props.C01 (SyncCfg PairCfg)
open Uflow.Props.C09 (SameTx)
open Uflow.HcFrm (IdsNodup)

variable {F : Type}

/-- **Gate open, then one `receive` of the peer.** -/
theorem gate_then_receive (ops : FloatOps F) (cA cB : Config) (nowA nowB : Nat) (rngA rngB : Rng) (k : Nat)
    (hc : SyncCfg cA cB k) (ham : allocCeil cA.txAllocLimit ≤ allocCeil cB.rxAllocLimit)
    (sched : List POp) (h : HcPair F)
    (hg : Guarded ops (initP ops cA cB nowA nowB rngA rngB) sched)
    (hrun : runP ops (initP ops cA cB nowA nowB rngA rngB) sched = .ok h)
    (hn : IdsNodup h.wireAB) (hidle : isSendPending h.A = false) :
    ∃ h', stepP ops h .recvB = .ok h' ∧
      runP ops (initP ops cA cB nowA nowB rngA rngB) (sched ++ [.recvB]) = .ok h' ∧
      Guarded ops (initP ops cA cB nowA nowB rngA rngB) (sched ++ [.recvB]) ∧
      h'.A = h.A ∧ h'.sent = h.sent ∧ h'.em = h.em ∧ GateComplete h' := by
  obtain ⟨hq, hp, hres⟩ := (not_pending_iff h.A).mp hidle
  have hok : SyncOkP h :=
    (Uflow.Props.C01.C01_hc_sync_ok ops cA cB nowA nowB rngA rngB k hc sched h hg hrun hn).1
      (by rw [hres]; rfl) (by rw [hp]; rfl)
  obtain ⟨sops, s, hs, hr⟩ :=
    Uflow.Props.C01.C01_hc_refines_sys ops cA cB nowA nowB rngA rngB hc.pc hc.base sched h hg hrun
  rw [hc.hW] at hs
  have hi := Uflow.Props.C01.C01_hc_reach ops cA cB nowA nowB rngA rngB hc.pc sched h hrun
  obtain ⟨h', hstep⟩ := recvB_ok ops hi
  obtain ⟨_, _, _, hA, hsent, _, hem, _⟩ := sim_recvB ops hr hstep
  refine ⟨h', hstep, ?_, guarded_snoc_recvB ops sched _ hg, hA, hsent, hem,
    gate_of_rel ops _ k _ _ _ hc.hwk hc.hw hc.hk hc.pc.txA ham sops s hs h h' hr hok hq hstep⟩
  rw [runP_append, hrun, PRecv.bindR_ok]
  show PRecv.bindR (stepP ops h .recvB) (fun h1 => runP ops h1 []) = _
  rw [hstep, PRecv.bindR_ok]
  rfl

/-- `hp` is the final state of a `Guarded` run of a pair whose configurations satisfy `SyncCfg` and the
allocation condition, and in which no 32-bit frame id was reused — the hypotheses of
`gate_then_receive`. -/
def SyncReach (ops : FloatOps F) (hp : HcPair F) : Prop :=
  ∃ (cA cB : Config) (nowA nowB : Nat) (rngA rngB : Rng) (k : Nat) (sched : List POp),
    SyncCfg cA cB k ∧ allocCeil cA.txAllocLimit ≤ allocCeil cB.rxAllocLimit ∧
    Guarded ops (initP ops cA cB nowA nowB rngA rngB) sched ∧
    runP ops (initP ops cA cB nowA nowB rngA rngB) sched = .ok hp ∧ IdsNodup hp.wireAB

/-- What an open flush gate gives for a half connection `hh`: `is_send_pending() = false`, and for every
`SyncReach` pair state whose `A` has the transmit side of `hh`, the peer's next `receive` succeeds and
leaves `GateComplete`. -/
def GateReceives (ops : FloatOps F) (hh : HalfConn.State F) : Prop :=
  isSendPending hh = false ∧
  ∀ hp : HcPair F, SyncReach ops hp → SameTx hp.A hh →
    ∃ hp', stepP ops hp .recvB = .ok hp' ∧ hp'.A = hp.A ∧ hp'.sent = hp.sent ∧ GateComplete hp'

theorem gateReceives_of_not_pending (ops : FloatOps F) (hh : HalfConn.State F)
    (h : isSendPending hh = false) : GateReceives ops hh := by
  refine ⟨h, ?_⟩
  rintro hp ⟨cA, cB, nowA, nowB, rngA, rngB, k, sched, hc, ham, hg, hrun, hn⟩ hs
  obtain ⟨hp', h1, -, -, h4, h5, -, h7⟩ :=
    gate_then_receive ops cA cB nowA nowB rngA rngB k hc ham sched hp hg hrun hn
      (by rw [hs.isSendPending]; exact h)
  exact ⟨hp', h1, h4, h5, h7⟩

end Uflow.HcGate
