import Uflow.Lemmas.EndpointServerBasic

/-!
`Server.put`, `Server.finish`, entry creation and the `detached` garbage collection preserve
`Server.WF`; all but creation are `Quiet`.
-/

namespace Uflow.Endpoint

open Uflow.Gen Uflow.Codec Uflow.HalfConn

variable {H : Type}

/-! ### list helpers -/

theorem inj_of_nodup_map {α β : Type} (f : α → β) {l : List α} (hn : (l.map f).Nodup) {x y : α}
    (hx : x ∈ l) (hy : y ∈ l) (h : f x = f y) : x = y := by
  rw [List.Nodup, List.pairwise_map] at hn
  obtain ⟨l1, l2, hl⟩ := List.append_of_mem hx
  rw [hl] at hn hy
  rw [List.pairwise_append] at hn
  obtain ⟨_, hp2, hp3⟩ := hn
  rw [List.pairwise_cons] at hp2
  rcases List.mem_append.1 hy with h1 | h1
  · exact absurd h.symm (hp3 y h1 x List.mem_cons_self)
  · rcases List.mem_cons.1 h1 with h2 | h2
    · exact h2.symm
    · exact absurd h (hp2.1 y h2)

/-- Replacing by identity replaces exactly the one element with that identity. -/
theorem replace_split {l : List (RClient H)} (hn : (l.map (·.cid)).Nodup) {c c' : RClient H}
    (hc : c ∈ l) (hcid : c'.cid = c.cid) :
    ∃ l1 l2, l = l1 ++ c :: l2 ∧ (l.map fun x => if x.cid = c'.cid then c' else x) = l1 ++ c' :: l2 := by
  obtain ⟨l1, l2, hl⟩ := List.append_of_mem hc
  refine ⟨l1, l2, hl, ?_⟩
  have hne : ∀ x ∈ l1 ++ l2, x.cid ≠ c'.cid := by
    intro x hx hxc
    have hxl : x ∈ l := by
      rw [hl]; rcases List.mem_append.1 hx with h | h
      · exact List.mem_append_left _ h
      · exact List.mem_append_right _ (List.mem_cons_of_mem _ h)
    have hxe : x = c := inj_of_nodup_map (·.cid) hn hxl hc (hxc.trans hcid)
    subst hxe
    rw [hl] at hn
    simp only [List.map_append, List.map_cons] at hn
    rw [List.nodup_append] at hn
    obtain ⟨_, h2, h3⟩ := hn
    rw [List.nodup_cons] at h2
    rcases List.mem_append.1 hx with h | h
    · exact h3 x.cid (List.mem_map_of_mem h) x.cid List.mem_cons_self rfl
    · exact h2.1 (List.mem_map_of_mem h)
  have hid : ∀ (m : List (RClient H)), (∀ x ∈ m, x.cid ≠ c'.cid) →
      (m.map fun x => if x.cid = c'.cid then c' else x) = m := by
    intro m hm
    induction m with
    | nil => rfl
    | cons a m ih =>
      rw [List.map_cons, if_neg (hm a List.mem_cons_self), ih (fun x hx => hm x (List.mem_cons_of_mem _ hx))]
  rw [hl, List.map_append, List.map_cons, if_pos hcid.symm,
    hid l1 (fun x hx => hne x (List.mem_append_left _ hx)),
    hid l2 (fun x hx => hne x (List.mem_append_right _ hx))]

/-! ### `put` -/

theorem Server.put_of_mem {s : Server H} {c c' : RClient H} (hc : c ∈ s.clients) (hcid : c'.cid = c.cid) :
    s.put c' = { s with clients := s.clients.map fun x => if x.cid = c'.cid then c' else x } := by
  unfold Server.put
  rw [if_pos]
  rw [List.any_eq_true]
  exact ⟨c, hc, by simp [hcid]⟩

/-- The shape of `put` on an entry of the map, under `WF`. -/
theorem Server.WF.put_shape {s : Server H} (h : s.WF) {c c' : RClient H} (hc : c ∈ s.clients)
    (hcid : c'.cid = c.cid) :
    ∃ l1 l2, s.clients = l1 ++ c :: l2 ∧ s.put c' = { s with clients := l1 ++ c' :: l2 } := by
  have hn : (s.clients.map (·.cid)).Nodup := by
    have := h.cidNodup
    rw [List.map_append, List.nodup_append] at this
    exact this.1
  obtain ⟨l1, l2, h1, h2⟩ := replace_split hn hc hcid
  exact ⟨l1, l2, h1, by rw [Server.put_of_mem hc hcid, h2]⟩

theorem Server.WF.put {s : Server H} (h : s.WF) {c c' : RClient H} (hc : c ∈ s.clients)
    (hcid : c'.cid = c.cid) (haddr : c'.address = c.address) (hnf : c'.state.isFin = false)
    (hnp : c'.state.isPending = false) : (s.put c').WF := by
  obtain ⟨l1, l2, h1, h2⟩ := h.put_shape hc hcid
  rw [h2]
  have hmem : ∀ x, x ∈ l1 ++ c' :: l2 → x = c' ∨ x ∈ s.clients := by
    intro x hx
    rw [h1]
    rcases List.mem_append.1 hx with hx | hx
    · exact Or.inr (List.mem_append_left _ hx)
    · rcases List.mem_cons.1 hx with hx | hx
      · exact Or.inl hx
      · exact Or.inr (List.mem_append_right _ (List.mem_cons_of_mem _ hx))
  constructor
  · have := h.cidNodup
    rw [h1] at this
    simpa [hcid] using this
  · intro x hx
    rcases List.mem_append.1 hx with hx | hx
    · rcases hmem x hx with hx | hx
      · subst hx; show x.cid < s.nextCid; rw [hcid]; exact h.cidLt c (List.mem_append_left _ hc)
      · exact h.cidLt x (List.mem_append_left _ hx)
    · exact h.cidLt x (List.mem_append_right _ hx)
  · have := h.addrNodup
    rw [h1] at this
    simpa [haddr] using this
  · exact h.detFin
  · intro x hx
    rcases hmem x hx with hx | hx
    · subst hx; exact hnf
    · exact h.cliNotFin x hx
  · intro x hx ln rn r al reply hst
    rcases hmem x hx with hx | hx
    · subst hx; rw [hst] at hnp; cases hnp
    · exact h.replyOk x hx ln rn r al reply hst
  · exact h.timersLt

theorem Server.WF.put_quiet {s : Server H} (h : s.WF) {c c' : RClient H} (hc : c ∈ s.clients)
    (hcid : c'.cid = c.cid) (haddr : c'.address = c.address) (hnp : c'.state.isPending = false)
    (hcnt : c'.state.counts = true → c.state.counts = true)
    (hact : c'.state.wasActive = true → c.state.wasActive = true) : Quiet s (s.put c') := by
  obtain ⟨l1, l2, h1, h2⟩ := h.put_shape hc hcid
  rw [h2]
  have hmem : ∀ x, x ∈ l1 ++ c' :: l2 → x = c' ∨ x ∈ s.clients := by
    intro x hx
    rw [h1]
    rcases List.mem_append.1 hx with hx | hx
    · exact Or.inr (List.mem_append_left _ hx)
    · rcases List.mem_cons.1 hx with hx | hx
      · exact Or.inl hx
      · exact Or.inr (List.mem_append_right _ (List.mem_cons_of_mem _ hx))
  have hall : ∀ x ∈ l1 ++ c' :: l2 ++ s.detached, x.state.isPending = true → x ∈ s.clients ++ s.detached := by
    intro x hx hp
    rcases List.mem_append.1 hx with hx | hx
    · rcases hmem x hx with hx | hx
      · subst hx; rw [hnp] at hp; cases hp
      · exact List.mem_append_left _ hx
    · exact List.mem_append_right _ hx
  refine ⟨rfl, rfl, rfl, ?_, hall, ?_, ?_, EvNC.refl _, ?_, fun a => by refine Server.phi_le_of ?_ ?_ a; exact hall; rfl⟩
  rotate_right
  · intro x hx hp
    rcases List.mem_append.1 hx with hx | hx
    · rcases hmem x hx with hx | hx
      · subst hx; exact ⟨c, List.mem_append_left _ hc, haddr.symm, hact hp⟩
      · exact ⟨x, List.mem_append_left _ hx, rfl, hp⟩
    · exact ⟨x, List.mem_append_right _ hx, rfl, hp⟩
  · intro x hx hp
    rcases hmem x hx with hx | hx
    · subst hx; rw [hnp] at hp; cases hp
    · exact hx
  · show (l1 ++ c' :: l2).length ≤ s.clients.length
    rw [h1]; simp
  · rw [Server.activeCount_eq, Server.activeCount_eq]
    show ((l1 ++ c' :: l2).filter _).length ≤ _
    rw [h1]
    simp only [List.filter_append, List.filter_cons, List.length_append]
    cases h1' : c'.state.counts
    · cases c.state.counts <;> simp
    · rw [hcnt h1']; simp

/-! ### `finish` -/

theorem Server.WF.finish {s : Server H} (h : s.WF) {c : RClient H} (hc : c ∈ s.clients ++ s.detached) :
    (s.finish c).WF := by
  have hsub : (s.clients.filter (fun x => decide (x.address ≠ c.address))).Sublist s.clients := List.filter_sublist
  have hcn := h.cidNodup
  rw [List.map_append, List.nodup_append] at hcn
  obtain ⟨hn1, hn2, hn3⟩ := hcn
  unfold Server.finish
  split
  · -- `c` is an entry of the map
    rename_i hany
    rw [List.any_eq_true] at hany
    obtain ⟨d, hd, hdc⟩ := hany
    have hdc : d.cid = c.cid := by simpa using hdc
    have hcm : c ∈ s.clients := by
      rcases List.mem_append.1 hc with h1 | h1
      · exact h1
      · exact absurd hdc (hn3 d.cid (List.mem_map_of_mem hd) c.cid (List.mem_map_of_mem h1))
    have hne : ∀ x ∈ s.clients.filter (fun x => decide (x.address ≠ c.address)), x.cid ≠ c.cid := by
      intro x hx hxc
      rw [List.mem_filter] at hx
      have : x = c := inj_of_nodup_map (·.cid) hn1 hx.1 hcm hxc
      subst this
      simp at hx
    constructor
    · show ((s.clients.filter _ ++ { c with state := RState.fin } :: s.detached).map (fun x : RClient H => x.cid)).Nodup
      rw [List.map_append, List.map_cons, List.nodup_append]
      refine ⟨List.Nodup.sublist (hsub.map _) hn1, ?_, ?_⟩
      · rw [List.nodup_cons]
        exact ⟨fun hm => hn3 c.cid (List.mem_map_of_mem hcm) c.cid hm rfl, hn2⟩
      · intro a ha b hb
        obtain ⟨x, hx, rfl⟩ := List.mem_map.1 ha
        rcases List.mem_cons.1 hb with hb | hb
        · rw [hb]; exact hne x hx
        · exact hn3 x.cid (List.mem_map_of_mem (hsub.subset hx)) b hb
    · intro x hx
      rcases List.mem_append.1 hx with hx | hx
      · exact h.cidLt x (List.mem_append_left _ (hsub.subset hx))
      · rcases List.mem_cons.1 hx with hx | hx
        · subst hx; exact h.cidLt c hc
        · exact h.cidLt x (List.mem_append_right _ hx)
    · exact List.Nodup.sublist (hsub.map _) h.addrNodup
    · intro x hx
      rcases List.mem_cons.1 hx with hx | hx
      · subst hx; rfl
      · exact h.detFin x hx
    · intro x hx; exact h.cliNotFin x (hsub.subset hx)
    · intro x hx; exact h.replyOk x (hsub.subset hx)
    · exact h.timersLt
  · -- `c` is a detached object
    constructor
    · show ((s.clients.filter _ ++ s.detached.map _).map (fun x : RClient H => x.cid)).Nodup
      have hmapcid : (s.detached.map fun x => if x.cid = c.cid then { c with state := RState.fin } else x).map (fun x : RClient H => x.cid)
          = s.detached.map (fun x : RClient H => x.cid) := by
        rw [List.map_map]
        apply List.map_congr_left
        intro x _
        simp only [Function.comp]
        split
        · rename_i hx; exact hx.symm
        · rfl
      rw [List.map_append, hmapcid, List.nodup_append]
      refine ⟨List.Nodup.sublist (hsub.map _) hn1, hn2, ?_⟩
      intro a ha b hb
      obtain ⟨x, hx, rfl⟩ := List.mem_map.1 ha
      exact hn3 x.cid (List.mem_map_of_mem (hsub.subset hx)) b hb
    · intro x hx
      rcases List.mem_append.1 hx with hx | hx
      · exact h.cidLt x (List.mem_append_left _ (hsub.subset hx))
      · obtain ⟨y, hy, rfl⟩ := List.mem_map.1 hx
        split
        · exact h.cidLt c hc
        · exact h.cidLt y (List.mem_append_right _ hy)
    · exact List.Nodup.sublist (hsub.map _) h.addrNodup
    · intro x hx
      obtain ⟨y, hy, rfl⟩ := List.mem_map.1 hx
      split
      · rfl
      · exact h.detFin y hy
    · intro x hx; exact h.cliNotFin x (hsub.subset hx)
    · intro x hx; exact h.replyOk x (hsub.subset hx)
    · exact h.timersLt

theorem Server.finish_quiet (s : Server H) (c : RClient H) : Quiet s (s.finish c) := by
  have hsub : (s.clients.filter (fun x => decide (x.address ≠ c.address))).Sublist s.clients := List.filter_sublist
  have hcnt : ∀ (d : List (RClient H)),
      ({ s with clients := s.clients.filter (fun x => decide (x.address ≠ c.address)), detached := d } : Server H).activeCount
        ≤ s.activeCount := by
    intro d
    rw [Server.activeCount_eq, Server.activeCount_eq]
    exact (hsub.filter _).length_le
  unfold Server.finish
  split
  · have hall : ∀ x ∈ s.clients.filter (fun x => decide (x.address ≠ c.address)) ++
        ({ c with state := RState.fin } :: s.detached), x.state.isPending = true → x ∈ s.clients ++ s.detached := by
      intro x hx hp
      rcases List.mem_append.1 hx with hx | hx
      · exact List.mem_append_left _ (hsub.subset hx)
      · rcases List.mem_cons.1 hx with hx | hx
        · subst hx; cases hp
        · exact List.mem_append_right _ hx
    refine ⟨rfl, rfl, rfl, fun x hx _ => hsub.subset hx, hall, hsub.length_le, hcnt _, EvNC.refl _, ?_,
      fun a => by refine Server.phi_le_of ?_ ?_ a; exact hall; rfl⟩
    · intro x hx hp
      rcases List.mem_append.1 hx with hx | hx
      · exact ⟨x, List.mem_append_left _ (hsub.subset hx), rfl, hp⟩
      · rcases List.mem_cons.1 hx with hx | hx
        · subst hx; cases hp
        · exact ⟨x, List.mem_append_right _ hx, rfl, hp⟩
  · have hall : ∀ x ∈ s.clients.filter (fun x => decide (x.address ≠ c.address)) ++
        (s.detached.map fun x => if x.cid = c.cid then { c with state := RState.fin } else x),
        x.state.isPending = true → x ∈ s.clients ++ s.detached := by
      intro x hx hp
      rcases List.mem_append.1 hx with hx | hx
      · exact List.mem_append_left _ (hsub.subset hx)
      · obtain ⟨y, hy, hxy⟩ := List.mem_map.1 hx
        split at hxy
        · subst hxy; cases hp
        · subst hxy; exact List.mem_append_right _ hy
    refine ⟨rfl, rfl, rfl, fun x hx _ => hsub.subset hx, hall, hsub.length_le, hcnt _, EvNC.refl _, ?_,
      fun a => by refine Server.phi_le_of ?_ ?_ a; exact hall; rfl⟩
    · intro x hx hp
      rcases List.mem_append.1 hx with hx | hx
      · exact ⟨x, List.mem_append_left _ (hsub.subset hx), rfl, hp⟩
      · obtain ⟨y, hy, hxy⟩ := List.mem_map.1 hx
        split at hxy
        · subst hxy; cases hp
        · subst hxy; exact ⟨y, List.mem_append_right _ hy, rfl, hp⟩

/-- `finish` removes the entry of the address: the map gets strictly shorter if it had one. -/
theorem Server.finish_length_lt (s : Server H) (c : RClient H) (hc : c ∈ s.clients) :
    (s.finish c).clients.length < s.clients.length := by
  have : (s.finish c).clients = s.clients.filter (fun x => decide (x.address ≠ c.address)) := by
    unfold Server.finish; split <;> rfl
  rw [this]
  obtain ⟨l1, l2, hl⟩ := List.append_of_mem hc
  rw [hl, List.filter_append, List.filter_cons]
  simp only [ne_eq, not_true_eq_false, decide_false, Bool.false_eq_true, if_false, List.length_append,
    List.length_cons]
  have h1 := List.length_filter_le (fun x : RClient H => decide (¬ x.address = c.address)) l1
  have h2 := List.length_filter_le (fun x : RClient H => decide (¬ x.address = c.address)) l2
  omega

theorem Server.finish_find (s : Server H) (c : RClient H) : (s.finish c).find c.address = none := by
  have : (s.finish c).clients = s.clients.filter (fun x => decide (x.address ≠ c.address)) := by
    unfold Server.finish; split <;> rfl
  unfold Server.find
  rw [this, List.find?_eq_none]
  intro x hx
  rw [List.mem_filter] at hx
  simpa using hx.2

/-! ### garbage collection of detached objects, and the `active` list -/

theorem Server.WF.gc {s : Server H} (h : s.WF) (act : List Nat) (p : RClient H → Bool) :
    ({ s with active := act, detached := s.detached.filter p } : Server H).WF := by
  have hsub : (s.detached.filter p).Sublist s.detached := List.filter_sublist
  constructor
  · exact List.Nodup.sublist (((List.Sublist.refl _).append hsub).map _) h.cidNodup
  · intro x hx
    rcases List.mem_append.1 hx with hx | hx
    · exact h.cidLt x (List.mem_append_left _ hx)
    · exact h.cidLt x (List.mem_append_right _ (hsub.subset hx))
  · exact h.addrNodup
  · intro x hx; exact h.detFin x (hsub.subset hx)
  · exact h.cliNotFin
  · exact h.replyOk
  · exact h.timersLt

theorem Server.gc_quiet (s : Server H) (act : List Nat) (p : RClient H → Bool) :
    Quiet s ({ s with active := act, detached := s.detached.filter p } : Server H) := by
  have hsub : (s.detached.filter p).Sublist s.detached := List.filter_sublist
  have hall : ∀ x ∈ s.clients ++ s.detached.filter p, x.state.isPending = true → x ∈ s.clients ++ s.detached := by
    intro x hx _
    rcases List.mem_append.1 hx with hx | hx
    · exact List.mem_append_left _ hx
    · exact List.mem_append_right _ (hsub.subset hx)
  refine ⟨rfl, rfl, rfl, fun _ h _ => h, hall, Nat.le_refl _, ?_, EvNC.refl _, ?_, fun a => by refine Server.phi_le_of ?_ ?_ a; exact hall; rfl⟩
  · rw [Server.activeCount_eq, Server.activeCount_eq]; exact Nat.le_refl _
  · intro x hx hp
    rcases List.mem_append.1 hx with hx | hx
    · exact ⟨x, List.mem_append_left _ hx, rfl, hp⟩
    · exact ⟨x, List.mem_append_right _ (hsub.subset hx), rfl, hp⟩

end Uflow.Endpoint
