import Uflow.Model.Endpoint

/-!
Server endpoint model: state classifiers, the global well-formedness invariant `Server.WF`,
the "no new connection object" relation `Quiet`, and lemmas about the primitives
`find` / `byCid` / `put` / `finish`.
-/

namespace Uflow.Endpoint

open Uflow.Gen Uflow.Codec Uflow.HalfConn

variable {H : Type}

/-! ### generic: invariants of `foldlM` in `Except` -/

theorem foldlM_ok_inv {α β ε : Type} (P : β → Prop) (f : β → α → Except ε β)
    (hf : ∀ b a b', P b → f b a = .ok b' → P b') :
    ∀ (l : List α) (b b' : β), P b → l.foldlM f b = .ok b' → P b' := by
  intro l
  induction l with
  | nil =>
    intro b b' hb h
    simp only [List.foldlM_nil, pure, Except.pure, Except.ok.injEq] at h
    subst h; exact hb
  | cons a l ih =>
    intro b b' hb h
    rw [List.foldlM_cons] at h
    cases hfa : f b a with
    | error e => rw [hfa] at h; simp [bind, Except.bind] at h
    | ok b1 =>
      rw [hfa] at h
      exact ih b1 b' (hf b a b1 hb hfa) h

/-- Invariant restricted to the elements of the list. -/
theorem foldlM_ok_inv_mem {α β ε : Type} (P : β → Prop) (f : β → α → Except ε β) (l : List α)
    (hf : ∀ b a b', a ∈ l → P b → f b a = .ok b' → P b') :
    ∀ (b b' : β), P b → l.foldlM f b = .ok b' → P b' := by
  induction l with
  | nil =>
    intro b b' hb h
    simp only [List.foldlM_nil, pure, Except.pure, Except.ok.injEq] at h
    subst h; exact hb
  | cons a l ih =>
    intro b b' hb h
    rw [List.foldlM_cons] at h
    cases hfa : f b a with
    | error e => rw [hfa] at h; simp [bind, Except.bind] at h
    | ok b1 =>
      rw [hfa] at h
      exact ih (fun b a b' ha => hf b a b' (List.mem_cons_of_mem _ ha)) b1 b'
        (hf b a b1 List.mem_cons_self hb hfa) h

/-! ### classifiers of `RState` -/

def RState.isPending : RState H → Bool
  | .pending .. => true
  | _ => false

/-- Counted by `activeCount` (pending or active). -/
def RState.counts : RState H → Bool
  | .pending .. => true
  | .active .. => true
  | _ => false

def RState.isFin : RState H → Bool
  | .fin => true
  | _ => false

/-- Active, or a later stage of a connection that was active (`closing` / `closed`). -/
def RState.wasActive : RState H → Bool
  | .active .. => true
  | .closing => true
  | .closed => true
  | _ => false

/-- No `connect` event in the list. -/
def NoConn (l : List SEvent) : Prop := ∀ a, SEvent.connect a ∉ l

theorem NoConn.nil : NoConn [] := fun _ h => by cases h

theorem NoConn.append {l1 l2 : List SEvent} (h1 : NoConn l1) (h2 : NoConn l2) : NoConn (l1 ++ l2) := by
  intro a h
  rcases List.mem_append.1 h with h | h
  · exact h1 a h
  · exact h2 a h

theorem NoConn.receive (addr : Nat) (pkts : List (List Nat)) : NoConn (pkts.map (SEvent.receive addr)) := by
  intro a h
  obtain ⟨x, _, hx⟩ := List.mem_map.1 h
  cases hx

theorem NoConn.disconnect (addr : Nat) : NoConn [SEvent.disconnect addr] := by
  intro a h
  simp at h

theorem NoConn.error (addr : Nat) (e : ErrorType) : NoConn [SEvent.error addr e] := by
  intro a h
  simp at h

/-- `l'` is `l` followed by events none of which is a `connect`. -/
def EvNC (l l' : List SEvent) : Prop := ∃ new, l' = l ++ new ∧ NoConn new

theorem EvNC.refl (l : List SEvent) : EvNC l l := ⟨[], by simp, NoConn.nil⟩

theorem EvNC.trans {l1 l2 l3 : List SEvent} (a : EvNC l1 l2) (b : EvNC l2 l3) : EvNC l1 l3 := by
  obtain ⟨n1, e1, h1⟩ := a
  obtain ⟨n2, e2, h2⟩ := b
  exact ⟨n1 ++ n2, by rw [e2, e1, List.append_assoc], h1.append h2⟩

theorem EvNC.append (l : List SEvent) {new : List SEvent} (h : NoConn new) : EvNC l (l ++ new) := ⟨new, rfl, h⟩

theorem Server.activeCount_eq (s : Server H) :
    s.activeCount = (s.clients.filter fun c => c.state.counts).length := by
  unfold Server.activeCount
  congr 2

/-! ### SYN-ACK resends still owed to an address (potential function of C18) -/

/-- A pending object with identity `cid` for address `a` exists. -/
def Server.pendAt (s : Server H) (a cid : Nat) : Bool :=
  (s.clients ++ s.detached).any fun c => decide (c.cid = cid) && decide (c.address = a) && c.state.isPending

/-- The SYN-ACK resends timer `t` still owes to address `a`. -/
def Server.owed (s : Server H) (a : Nat) (t : Timer) : Nat :=
  if t.kind = .resendSynAck ∧ s.pendAt a t.cid = true then t.count else 0

def Server.owedSum (s : Server H) (a : Nat) (T : List Timer) : Nat := (T.map (s.owed a)).sum

/-- All SYN-ACK resends still owed to address `a`. -/
def Server.phi (s : Server H) (a : Nat) : Nat := s.owedSum a s.timers.toList

theorem Server.pendAt_iff (s : Server H) (a cid : Nat) :
    s.pendAt a cid = true ↔
      ∃ c ∈ s.clients ++ s.detached, c.cid = cid ∧ c.address = a ∧ c.state.isPending = true := by
  unfold Server.pendAt
  rw [List.any_eq_true]
  constructor
  · rintro ⟨c, hc, h⟩
    simp only [Bool.and_eq_true, decide_eq_true_eq] at h
    exact ⟨c, hc, h.1.1, h.1.2, h.2⟩
  · rintro ⟨c, hc, h1, h2, h3⟩
    exact ⟨c, hc, by simp [h1, h2, h3]⟩

theorem Server.owedSum_mono {s s' : Server H} (a : Nat)
    (h : ∀ cid, s'.pendAt a cid = true → s.pendAt a cid = true) (T : List Timer) :
    s'.owedSum a T ≤ s.owedSum a T := by
  unfold Server.owedSum
  induction T with
  | nil => exact Nat.le_refl _
  | cons t T ih =>
    simp only [List.map_cons, List.sum_cons]
    have : s'.owed a t ≤ s.owed a t := by
      unfold Server.owed
      by_cases h1 : t.kind = .resendSynAck ∧ s'.pendAt a t.cid = true
      · rw [if_pos h1, if_pos ⟨h1.1, h _ h1.2⟩]; exact Nat.le_refl _
      · rw [if_neg h1]; exact Nat.zero_le _
    omega

/-- If every pending object of `s'` is an (identical) object of `s` and the timers are the same,
the owed resends do not grow. -/
theorem Server.phi_le_of {s s' : Server H}
    (h : ∀ c ∈ s'.clients ++ s'.detached, c.state.isPending = true → c ∈ s.clients ++ s.detached)
    (ht : s'.timers = s.timers) (a : Nat) : s'.phi a ≤ s.phi a := by
  unfold Server.phi
  rw [ht]
  apply Server.owedSum_mono
  intro cid hp
  rw [Server.pendAt_iff] at hp ⊢
  obtain ⟨c, hc, h1, h2, h3⟩ := hp
  exact ⟨c, h c hc h3, h1, h2, h3⟩

/-! ### the well-formedness invariant -/

/-- Global well-formedness of a server state. -/
structure Server.WF (s : Server H) : Prop where
  /-- object identities are unique over the map and the detached objects -/
  cidNodup : ((s.clients ++ s.detached).map (·.cid)).Nodup
  /-- `nextCid` is fresh -/
  cidLt : ∀ c ∈ s.clients ++ s.detached, c.cid < s.nextCid
  /-- the map has one entry per address -/
  addrNodup : (s.clients.map (·.address)).Nodup
  /-- objects removed from the map are `fin` -/
  detFin : ∀ c ∈ s.detached, c.state.isFin = true
  /-- objects in the map are not `fin` -/
  cliNotFin : ∀ c ∈ s.clients, c.state.isFin = false
  /-- a pending entry stores the SYN-ACK built from its own nonces and the server configuration -/
  replyOk : ∀ c ∈ s.clients, ∀ ln rn r al reply, c.state = .pending ln rn r al reply →
    ln < 2^32 ∧ reply = encode (.synAck rn ln (u32 s.cfg.ep.maxReceiveRate) (u32 s.cfg.ep.maxPacketSize)
      (u32 s.cfg.ep.maxReceiveAlloc))
  /-- timers refer to identities already handed out -/
  timersLt : ∀ t ∈ s.timers.toList, t.cid < s.nextCid

/-- `s'` arises from `s` without creating a connection object: configuration and `nextCid` are
kept, pending entries of `s'` are unmodified pending entries of `s`, neither count grows, the
event buffer is only appended to, without `connect` events, and every object that is or was active
stems from one at the same address that already was. -/
structure Quiet (s s' : Server H) : Prop where
  cfg : s'.cfg = s.cfg
  timeBase : s'.timeBase = s.timeBase
  nextCid : s'.nextCid = s.nextCid
  pendSub : ∀ c ∈ s'.clients, c.state.isPending = true → c ∈ s.clients
  allSub : ∀ c ∈ s'.clients ++ s'.detached, c.state.isPending = true → c ∈ s.clients ++ s.detached
  len : s'.clients.length ≤ s.clients.length
  cnt : s'.activeCount ≤ s.activeCount
  ev : EvNC s.eventsOut s'.eventsOut
  actSub : ∀ c' ∈ s'.clients ++ s'.detached, c'.state.wasActive = true →
    ∃ c ∈ s.clients ++ s.detached, c.address = c'.address ∧ c.state.wasActive = true
  /-- the SYN-ACK resends owed to any address do not grow -/
  phi : ∀ a, s'.phi a ≤ s.phi a

theorem Quiet.refl (s : Server H) : Quiet s s :=
  ⟨rfl, rfl, rfl, fun _ h _ => h, fun _ h _ => h, Nat.le_refl _, Nat.le_refl _, EvNC.refl _,
   fun c h hp => ⟨c, h, rfl, hp⟩, fun _ => Nat.le_refl _⟩

theorem Quiet.trans {s1 s2 s3 : Server H} (a : Quiet s1 s2) (b : Quiet s2 s3) : Quiet s1 s3 :=
  ⟨b.cfg.trans a.cfg, b.timeBase.trans a.timeBase, b.nextCid.trans a.nextCid,
   fun c h hp => a.pendSub c (b.pendSub c h hp) hp,
   fun c h hp => a.allSub c (b.allSub c h hp) hp,
   Nat.le_trans b.len a.len, Nat.le_trans b.cnt a.cnt, a.ev.trans b.ev,
   fun c3 h hp => by
     obtain ⟨c2, h2, e2, hp2⟩ := b.actSub c3 h hp
     obtain ⟨c1, h1, e1, hp1⟩ := a.actSub c2 h2 hp2
     exact ⟨c1, h1, e1.trans e2, hp1⟩,
   fun x => Nat.le_trans (b.phi x) (a.phi x)⟩

/-- Only fields irrelevant to `WF` changed. -/
theorem Server.WF.of_eq {s s' : Server H} (h : s.WF) (h1 : s'.clients = s.clients)
    (h2 : s'.detached = s.detached) (h3 : s'.nextCid = s.nextCid) (h4 : s'.cfg = s.cfg)
    (h5 : s'.timers = s.timers) : s'.WF := by
  constructor
  · rw [h1, h2]; exact h.cidNodup
  · rw [h1, h2, h3]; exact h.cidLt
  · rw [h1]; exact h.addrNodup
  · rw [h2]; exact h.detFin
  · rw [h1]; exact h.cliNotFin
  · rw [h1, h4]; exact h.replyOk
  · rw [h5, h3]; exact h.timersLt

/-- Replacing the timer heap by one whose timers refer to existing identities. -/
theorem Server.WF.set_timers {s : Server H} (h : s.WF) (tm : Array Timer)
    (ht : ∀ t ∈ tm.toList, t.cid < s.nextCid) : ({ s with timers := tm } : Server H).WF :=
  ⟨h.cidNodup, h.cidLt, h.addrNodup, h.detFin, h.cliNotFin, h.replyOk, ht⟩

theorem Quiet.of_eq {s s' : Server H} (h1 : s'.clients = s.clients)
    (h2 : s'.detached = s.detached) (h3 : s'.nextCid = s.nextCid) (h4 : s'.cfg = s.cfg)
    (h5 : s'.timeBase = s.timeBase) (h6 : EvNC s.eventsOut s'.eventsOut) (h7 : s'.timers = s.timers) : Quiet s s' := by
  refine ⟨h4, h5, h3, ?_, ?_, ?_, ?_, h6, ?_, ?_⟩
  · rw [h1]; exact fun _ h _ => h
  · rw [h1, h2]; exact fun _ h _ => h
  · rw [h1]; exact Nat.le_refl _
  · rw [Server.activeCount_eq, Server.activeCount_eq, h1]; exact Nat.le_refl _
  · rw [h1, h2]; exact fun c h hp => ⟨c, h, rfl, hp⟩
  · exact Server.phi_le_of (by rw [h1, h2]; exact fun _ h _ => h) h7

/-! ### bytes per address, addresses that never had an active connection -/

/-- Total length of the datagrams in `l` whose address is `a`. -/
def bytesOf (a : Nat) (l : List (Nat × List Nat)) : Nat :=
  ((l.filter fun x => x.1 = a).map fun x => x.2.length).sum

theorem bytesOf_nil (a : Nat) : bytesOf a [] = 0 := rfl

theorem bytesOf_append (a : Nat) (l1 l2 : List (Nat × List Nat)) :
    bytesOf a (l1 ++ l2) = bytesOf a l1 + bytesOf a l2 := by
  simp [bytesOf, List.filter_append, List.sum_append]

theorem bytesOf_single_eq (a : Nat) (b : List Nat) : bytesOf a [(a, b)] = b.length := by
  simp [bytesOf]

theorem bytesOf_single_ne (a addr : Nat) (b : List Nat) (h : addr ≠ a) : bytesOf a [(addr, b)] = 0 := by
  simp [bytesOf, h]

theorem bytesOf_map_ne (a addr : Nat) (fs : List (List Nat)) (h : addr ≠ a) :
    bytesOf a (fs.map fun f => (addr, f)) = 0 := by
  induction fs with
  | nil => rfl
  | cons f fs ih =>
    rw [List.map_cons, ← List.singleton_append, bytesOf_append, ih, bytesOf_single_ne a addr f h]

/-- No object for address `a` is or was active (`active` / `closing` / `closed`). -/
def Server.NoAct (s : Server H) (a : Nat) : Prop :=
  ∀ c ∈ s.clients ++ s.detached, c.address = a → c.state.wasActive = false

theorem Server.NoAct.quiet {s s' : Server H} {a : Nat} (h : s.NoAct a) (q : Quiet s s') : s'.NoAct a := by
  intro c' hc' ha
  cases hw : c'.state.wasActive with
  | false => rfl
  | true =>
    obtain ⟨c, hc, e, hp⟩ := q.actSub c' hc' hw
    have := h c hc (e.trans ha)
    rw [hp] at this
    cases this

theorem Server.NoAct.addr_ne {s : Server H} {a : Nat} (h : s.NoAct a) {c : RClient H}
    (hc : c ∈ s.clients ++ s.detached) (hw : c.state.wasActive = true) : c.address ≠ a := by
  intro ha
  have := h c hc ha
  rw [hw] at this
  cases this

/-! ### lookups -/

theorem Server.find_some {s : Server H} {addr : Nat} {c : RClient H} (h : s.find addr = some c) :
    c ∈ s.clients ∧ c.address = addr := by
  unfold Server.find at h
  refine ⟨List.mem_of_find?_eq_some h, ?_⟩
  have := List.find?_some h
  simpa using this

theorem Server.find_none {s : Server H} {addr : Nat} (h : s.find addr = none) :
    ∀ c ∈ s.clients, c.address ≠ addr := by
  unfold Server.find at h
  rw [List.find?_eq_none] at h
  intro c hc
  simpa using h c hc

theorem Server.byCid_some {s : Server H} {cid : Nat} {c : RClient H} (h : s.byCid cid = some c) :
    c ∈ s.clients ++ s.detached ∧ c.cid = cid := by
  unfold Server.byCid at h
  split at h
  · rename_i c' hc'
    cases h
    exact ⟨List.mem_append_left _ (List.mem_of_find?_eq_some hc'), by simpa using List.find?_some hc'⟩
  · exact ⟨List.mem_append_right _ (List.mem_of_find?_eq_some h), by simpa using List.find?_some h⟩

/-- Under `WF`, an object found by identity that is not `fin` lives in the map. -/
theorem Server.WF.byCid_mem {s : Server H} (h : s.WF) {cid : Nat} {c : RClient H}
    (hb : s.byCid cid = some c) (hnf : c.state.isFin = false) : c ∈ s.clients := by
  have := (Server.byCid_some hb).1
  rcases List.mem_append.1 this with h1 | h1
  · exact h1
  · have := h.detFin c h1; rw [hnf] at this; cases this

/-- Under `WF`, the entry of an address is unique. -/
theorem Server.WF.addr_unique {s : Server H} (h : s.WF) {c d : RClient H} (hc : c ∈ s.clients)
    (hd : d ∈ s.clients) (ha : c.address = d.address) : c = d := by
  have hp := h.addrNodup
  rw [List.Nodup, List.pairwise_map] at hp
  obtain ⟨l1, l2, hl⟩ := List.append_of_mem hc
  rw [hl] at hp hd
  rw [List.pairwise_append] at hp
  obtain ⟨_, hp2, hp3⟩ := hp
  rw [List.pairwise_cons] at hp2
  rcases List.mem_append.1 hd with h1 | h1
  · exact absurd ha.symm (hp3 d h1 c List.mem_cons_self)
  · rcases List.mem_cons.1 h1 with h2 | h2
    · exact h2.symm
    · exact absurd ha (hp2.1 d h2)

theorem Server.WF.find_eq {s : Server H} (h : s.WF) {c : RClient H} (hc : c ∈ s.clients) :
    s.find c.address = some c := by
  cases hf : s.find c.address with
  | none => exact absurd rfl (Server.find_none hf c hc)
  | some d =>
    obtain ⟨hd, ha⟩ := Server.find_some hf
    rw [h.addr_unique hd hc ha]

end Uflow.Endpoint
