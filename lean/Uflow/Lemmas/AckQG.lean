import Lean.Elab.Command
import Uflow.Lemmas.AckQDefs

/-! Copies of `mark_seen` parametrised by the distance function (kernel-friendly). -/

namespace Uflow.AckQB

open Uflow Uflow.Codec Uflow.FrameQ

open Lean Elab Command Meta in
/-- `ackq_abstract_const c in f as g` defines `g := fun d => (body of f)[c := d]` (an ordinary, kernel-checked
definition). When the kernel has to compare two forms of the body of `mark_seen` (after `simp`, `dsimp`, `split`, …) it
unfolds `advance` / `dropOld` / `contains` and normalises `wsub32 _ _ < _` on open terms, which does not
terminate in practice. With all four functions opaque parameters the same steps are cheap, and
`markSeen = qG4 contains dropOld advance wsub32` is a syntactic `rfl`. (Same device as in `FrameQReorder.lean`.) -/
elab "ackq_abstract_const " c:ident " in " f:ident " as " g:ident : command => do
  let cn ← liftCoreM <| realizeGlobalConstNoOverloadWithInfo c
  let fn ← liftCoreM <| realizeGlobalConstNoOverloadWithInfo f
  let ci ← getConstInfo cn
  let fi ← getConstInfo fn
  let gname := (← getCurrNamespace) ++ g.getId
  let (ty, val) ← liftTermElabM do
    withLocalDeclD `d ci.type fun d => do
      let rep (e : Expr) : Expr := e.replace fun x => if x.isConstOf cn then some d else none
      let val ← mkLambdaFVars #[d] (rep fi.value!)
      let ty ← mkForallFVars #[d] (rep fi.type)
      return (ty, val)
  liftCoreM <| addDecl <| Declaration.defnDecl {
    name := gname, levelParams := fi.levelParams, type := ty, value := val,
    hints := .abbrev, safety := .safe }

ackq_abstract_const Uflow.wsub32 in Uflow.FrameQ.AckQ.markSeen as qG1
ackq_abstract_const Uflow.FrameQ.AckQ.advance in Uflow.AckQB.qG1 as qG2
ackq_abstract_const Uflow.FrameQ.dropOld in Uflow.AckQB.qG2 as qG3
ackq_abstract_const Uflow.FrameQ.AckQ.contains in Uflow.AckQB.qG3 as qG4

ackq_abstract_const Uflow.wsub32 in Uflow.AckQB.TQ.markSeen as tG1
ackq_abstract_const Uflow.AckQB.TQ.advance in Uflow.AckQB.tG1 as tG2
ackq_abstract_const Uflow.AckQB.dropOldT in Uflow.AckQB.tG2 as tG3
ackq_abstract_const Uflow.AckQB.TQ.contains in Uflow.AckQB.tG3 as tG4

ackq_abstract_const Uflow.wsub32 in Uflow.AckQB.markSeenOld as oG1
ackq_abstract_const Uflow.FrameQ.AckQ.advance in Uflow.AckQB.oG1 as oG2
ackq_abstract_const Uflow.FrameQ.AckQ.contains in Uflow.AckQB.oG2 as oG3

theorem qmarkSeen_eq_G (q : AckQ) (id : Nat) (nonce : Bool) :
    q.markSeen id nonce = qG4 AckQ.contains dropOld AckQ.advance wsub32 q id nonce := rfl
theorem tmarkSeen_eq_G (t : TQ) (id : Nat) (nonce : Bool) :
    t.markSeen id nonce = tG4 TQ.contains dropOldT TQ.advance wsub32 t id nonce := rfl
theorem markSeenOld_eq_G (q : AckQ) (id : Nat) (nonce : Bool) :
    markSeenOld q id nonce = oG3 AckQ.contains AckQ.advance wsub32 q id nonce := rfl

end Uflow.AckQB
