import Uflow.Lemmas.Wire
import Uflow.Lemmas.Heap
import Uflow.Lemmas.PSendAck

/-!
C12: the transmit queues (`pending`, `resend`) of a half connection and the fragments put on the
wire by `flush` (trace of `Wire.flushT`).

`Spec s add s'` collects everything we prove about a piece of execution that takes the state `s`
to `s'` while pushing the fragments `add`; it is closed under sequential composition
(`Spec.trans`) and holds for each primitive step of the emitter loops.
-/

namespace Uflow.Modes

open Uflow Uflow.Gen Uflow.Codec Uflow.HalfConn Uflow.Wire Uflow.Heap
open Uflow.PSend (Dead NoExp UidInv)

variable {F : Type}

/-- `(u, fid)` has an entry in the pending queue. -/
def InPending (s : State F) (u fid : Nat) : Prop := ∃ pe ∈ s.pending, pe.uid = u ∧ pe.fid = fid

/-- `(u, fid)` has an entry in the resend queue. -/
def InResend (s : State F) (u fid : Nat) : Prop := ∃ r ∈ s.resend.toList, r.uid = u ∧ r.fid = fid

/-- `(u, fid)` is in neither transmit queue. -/
def Absent (s : State F) (u fid : Nat) : Prop := ¬ InPending s u fid ∧ ¬ InResend s u fid

/-- The emitter loops skip `(u, fid)`: its packet is gone from the window or the fragment is
acknowledged (`Weak::upgrade() = None` or `fragment_acknowledged`). -/
def Skipped (ps : PSend.State) (u fid : Nat) : Prop :=
  PSend.findPacket ps u = none ∨ ∃ p, PSend.findPacket ps u = some p ∧ fid ∈ p.acked

/-- Invariant of the transmit queues: identities in the queues have been issued, the pending queue
has no duplicates, and the two queues are disjoint. -/
structure QInv (s : State F) : Prop where
  pend_lt : ∀ pe ∈ s.pending, pe.uid < s.ps.nextUid
  res_lt : ∀ r ∈ s.resend.toList, r.uid < s.ps.nextUid
  pend_nodup : (s.pending.map fun pe => (pe.uid, pe.fid)).Nodup
  disj : ∀ u fid, InPending s u fid → ¬ InResend s u fid

/-- Second invariant: packet identities in the window are unique, and only fragments of packets
without expiry (not TimeSensitive) carry `resend = true` in the pending queue or sit in the resend
queue. -/
structure TInv (s : State F) : Prop where
  uids : UidInv s.ps
  pend_flag : ∀ pe ∈ s.pending, pe.resend = true → NoExp s.ps pe.uid
  res_noexp : ∀ r ∈ s.resend.toList, NoExp s.ps r.uid

/-- The number of times `(u, fid)` is pushed with `resend = false` in a trace. -/
def countOnce (add : List Push) (u fid : Nat) : Nat :=
  (add.filter fun x => x.uid = u ∧ x.fid = fid ∧ x.resend = false).length

/-- Everything we know about a piece of one `flush` that takes `s` to `s'` and pushes `add`. -/
structure Spec (s : State F) (add : List Push) (s' : State F) : Prop where
  inv : QInv s'
  mono : s.ps.nextUid ≤ s'.ps.nextUid
  /-- a fragment of an issued packet that is in neither queue stays out and is not pushed -/
  absent : ∀ u fid, u < s.ps.nextUid → Absent s u fid →
    Absent s' u fid ∧ ∀ x ∈ add, ¬ (x.uid = u ∧ x.fid = fid)
  /-- a fragment pushed with `resend = false` is afterwards in neither queue -/
  once : ∀ x ∈ add, x.resend = false → Absent s' x.uid x.fid ∧ x.uid < s'.ps.nextUid
  /-- … and is pushed at most once -/
  count : ∀ u fid, countOnce add u fid ≤ 1
  /-- a dead fragment stays dead -/
  dead : ∀ u fid, Dead s.ps u fid → Dead s'.ps u fid
  /-- a skipped fragment of an issued packet stays skipped -/
  skip : ∀ u fid, u < s.ps.nextUid → Skipped s.ps u fid → Skipped s'.ps u fid
  /-- a scheduled fragment that is not skipped stays scheduled (and not skipped) -/
  keep : ∀ u fid, InResend s u fid → ¬ Skipped s.ps u fid →
    InResend s' u fid ∧ ¬ Skipped s'.ps u fid
  /-- a fragment pushed with `resend = true` is afterwards scheduled in the resend queue -/
  sched : ∀ x ∈ add, x.resend = true → InResend s' x.uid x.fid ∧ ¬ Skipped s'.ps x.uid x.fid
  /-- everything pushed from the resend queue carries `resend = true` -/
  flag : ∀ x ∈ add, x.fromResend = true → x.resend = true
  /-- a pushed fragment was not skipped at the start, or its packet was issued later -/
  live : ∀ x ∈ add, ¬ Skipped s.ps x.uid x.fid ∨ s.ps.nextUid ≤ x.uid
  /-- the second invariant is preserved -/
  tinv : TInv s → TInv s'
  /-- the flush id does not change during a flush, and every push records it -/
  fid : s'.flushId = s.flushId
  fidc : ∀ x ∈ add, x.flushId = s.flushId
  /-- fragment 0 of a TimeSensitive packet is only pushed in the flush it was queued for -/
  ts0 : ∀ x ∈ add, x.fromResend = false → x.fid = 0 → x.expiry = none ∨ x.expiry = some s.flushId
  /-- a fragment pushed with `resend = true` does not belong to a TimeSensitive packet -/
  tsflag : TInv s → ∀ x ∈ add, x.resend = true → x.expiry = none

theorem countOnce_append (a b : List Push) (u fid : Nat) :
    countOnce (a ++ b) u fid = countOnce a u fid + countOnce b u fid := by
  simp [countOnce, List.filter_append]

theorem countOnce_pos {add : List Push} {u fid : Nat} (h : 0 < countOnce add u fid) :
    ∃ x ∈ add, x.uid = u ∧ x.fid = fid ∧ x.resend = false := by
  simp only [countOnce] at h
  obtain ⟨x, hx⟩ := List.exists_mem_of_length_pos h
  rw [List.mem_filter] at hx
  exact ⟨x, hx.1, by simpa using hx.2⟩

theorem countOnce_zero {add : List Push} {u fid : Nat}
    (h : ∀ x ∈ add, ¬ (x.uid = u ∧ x.fid = fid)) : countOnce add u fid = 0 := by
  simp only [countOnce, List.length_eq_zero_iff, List.filter_eq_nil_iff]
  intro x hx
  have := h x hx
  simp only [decide_eq_true_eq]
  intro hc
  exact this ⟨hc.1, hc.2.1⟩

/-- `Skipped` only depends on the window; it is stable while the window only grows at the end. -/
theorem skipped_of_dead (ps : PSend.State) (u fid : Nat) (h : Dead ps u fid) : Skipped ps u fid := by
  cases hf : PSend.findPacket ps u with
  | none => exact .inl hf
  | some p => exact .inr ⟨p, hf, PSend.dead_findPacket ps u fid p h hf⟩

theorem Spec.refl (s : State F) (h : QInv s) : Spec s [] s where
  inv := h
  mono := Nat.le_refl _
  absent := fun _ _ _ ha => ⟨ha, fun _ hx => by cases hx⟩
  once := fun _ hx => by cases hx
  count := fun _ _ => by simp [countOnce]
  dead := fun _ _ hd => hd
  skip := fun _ _ _ h => h
  keep := fun _ _ h1 h2 => ⟨h1, h2⟩
  sched := fun _ hx => by cases hx
  flag := fun _ hx => by cases hx
  live := fun _ hx => by cases hx
  tinv := fun h => h
  fid := rfl
  fidc := fun _ hx => by cases hx
  ts0 := fun _ hx => by cases hx
  tsflag := fun _ _ hx => by cases hx

theorem Spec.trans {s s1 s2 : State F} {a1 a2 : List Push} (h1 : Spec s a1 s1) (h2 : Spec s1 a2 s2) :
    Spec s (a1 ++ a2) s2 where
  inv := h2.inv
  mono := Nat.le_trans h1.mono h2.mono
  absent := by
    intro u fid hu ha
    obtain ⟨ha1, hn1⟩ := h1.absent u fid hu ha
    obtain ⟨ha2, hn2⟩ := h2.absent u fid (Nat.lt_of_lt_of_le hu h1.mono) ha1
    refine ⟨ha2, ?_⟩
    intro x hx
    rcases List.mem_append.mp hx with hx | hx
    · exact hn1 x hx
    · exact hn2 x hx
  once := by
    intro x hx hr
    rcases List.mem_append.mp hx with hx | hx
    · obtain ⟨ha1, hu1⟩ := h1.once x hx hr
      exact ⟨(h2.absent _ _ hu1 ha1).1, Nat.lt_of_lt_of_le hu1 h2.mono⟩
    · exact h2.once x hx hr
  count := by
    intro u fid
    rw [countOnce_append]
    have c1 := h1.count u fid
    have c2 := h2.count u fid
    by_cases hz : countOnce a1 u fid = 0
    · omega
    · obtain ⟨x, hx, rfl, rfl, hr⟩ := countOnce_pos (Nat.pos_of_ne_zero hz)
      obtain ⟨ha1, hu1⟩ := h1.once x hx hr
      have := countOnce_zero (h2.absent _ _ hu1 ha1).2
      omega
  dead := fun u fid hd => h2.dead u fid (h1.dead u fid hd)
  skip := fun u fid hu hs => h2.skip u fid (Nat.lt_of_lt_of_le hu h1.mono) (h1.skip u fid hu hs)
  keep := by
    intro u fid hr hs
    obtain ⟨hr1, hs1⟩ := h1.keep u fid hr hs
    exact h2.keep u fid hr1 hs1
  sched := by
    intro x hx hr
    rcases List.mem_append.mp hx with hx | hx
    · obtain ⟨hr1, hs1⟩ := h1.sched x hx hr
      exact h2.keep _ _ hr1 hs1
    · exact h2.sched x hx hr
  flag := by
    intro x hx
    rcases List.mem_append.mp hx with hx | hx
    · exact h1.flag x hx
    · exact h2.flag x hx
  live := by
    intro x hx
    rcases List.mem_append.mp hx with hx | hx
    · exact h1.live x hx
    · rcases h2.live x hx with hl | hl
      · by_cases hlt : x.uid < s.ps.nextUid
        · exact .inl fun hsk => hl (h1.skip _ _ hlt hsk)
        · exact .inr (by omega)
      · exact .inr (Nat.le_trans h1.mono hl)
  tinv := fun h => h2.tinv (h1.tinv h)
  fid := h2.fid.trans h1.fid
  fidc := by
    intro x hx
    rcases List.mem_append.mp hx with hx | hx
    · exact h1.fidc x hx
    · exact (h2.fidc x hx).trans h1.fid
  ts0 := by
    intro x hx
    rcases List.mem_append.mp hx with hx | hx
    · exact h1.ts0 x hx
    · rw [← h1.fid]; exact h2.ts0 x hx
  tsflag := by
    intro hT x hx
    rcases List.mem_append.mp hx with hx | hx
    · exact h1.tsflag hT x hx
    · exact h2.tsflag (h1.tinv hT) x hx

/-! ### primitive steps of the emitter loops -/

theorem inPending_congr {s s' : State F} (h : s'.pending = s.pending) (u fid : Nat) :
    InPending s' u fid ↔ InPending s u fid := by simp only [InPending, h]

theorem inResend_congr {s s' : State F} (h : s'.resend = s.resend) (u fid : Nat) :
    InResend s' u fid ↔ InResend s u fid := by simp only [InResend, h]

theorem skipped_congr {ps ps' : PSend.State} (h : ps'.win = ps.win) (u fid : Nat) :
    Skipped ps' u fid ↔ Skipped ps u fid := by simp only [Skipped, PSend.findPacket, h]

theorem dead_congr {ps ps' : PSend.State} (h : ps'.win = ps.win) (hn : ps'.nextUid = ps.nextUid)
    (u fid : Nat) : Dead ps' u fid ↔ Dead ps u fid := by simp only [Dead, h, hn]

theorem noExp_congr {ps ps' : PSend.State} (h : ps'.win = ps.win) (u : Nat) :
    NoExp ps' u ↔ NoExp ps u := by simp only [NoExp, PSend.findPacket, h]

theorem uidInv_congr {ps ps' : PSend.State} (h : ps'.win = ps.win) (hn : ps'.nextUid = ps.nextUid) :
    UidInv ps' ↔ UidInv ps := by simp only [UidInv, h, hn]

/-- A step that leaves the window, the identity counter and the resend queue alone and drops a
prefix of the pending queue (nothing, its head, or everything). -/
theorem spec_quiet (s s' : State F) (hq : QInv s) (hwin : s'.ps.win = s.ps.win)
    (hn : s'.ps.nextUid = s.ps.nextUid) (hre : s'.resend = s.resend)
    (hfl : s'.flushId = s.flushId)
    (hpe : ∃ dropped, s.pending = dropped ++ s'.pending) : Spec s [] s' := by
  obtain ⟨dropped, hpe⟩ := hpe
  have hsub : ∀ pe ∈ s'.pending, pe ∈ s.pending := by
    intro pe hpe'
    rw [hpe]; exact List.mem_append_right _ hpe'
  have hpsub : ∀ u fid, InPending s' u fid → InPending s u fid := by
    rintro u fid ⟨pe, hpe', he⟩
    exact ⟨pe, hsub pe hpe', he⟩
  have hres := inResend_congr hre
  refine ⟨⟨?_, ?_, ?_, ?_⟩, Nat.le_of_eq hn.symm, ?_, ?_, ?_, ?_, ?_, ?_, ?_, ?_, ?_, ?_, hfl,
    ?_, ?_, ?_⟩
  · intro pe hpe'; rw [hn]; exact hq.pend_lt pe (hsub pe hpe')
  · intro r hr; rw [hn]; rw [hre] at hr; exact hq.res_lt r hr
  · have := hq.pend_nodup
    rw [hpe, List.map_append, List.nodup_append] at this
    exact this.2.1
  · intro u fid hp hr
    exact hq.disj u fid (hpsub u fid hp) ((hres u fid).mp hr)
  · intro u fid _ ha
    exact ⟨⟨fun hp => ha.1 (hpsub u fid hp), fun hr => ha.2 ((hres u fid).mp hr)⟩,
      fun _ hx => by cases hx⟩
  · intro x hx; cases hx
  · intro u fid; simp [countOnce]
  · intro u fid hd; exact (dead_congr hwin hn u fid).mpr hd
  · intro u fid _ hs; exact (skipped_congr hwin u fid).mpr hs
  · intro u fid hr hs
    exact ⟨(hres u fid).mpr hr, fun h => hs ((skipped_congr hwin u fid).mp h)⟩
  · intro x hx; cases hx
  · intro x hx; cases hx
  · intro x hx; cases hx
  · intro hT
    refine ⟨(uidInv_congr hwin hn).mpr hT.uids, ?_, ?_⟩
    · intro pe hpe' hr
      exact (noExp_congr hwin _).mpr (hT.pend_flag pe (hsub pe hpe') hr)
    · intro r hr
      rw [hre] at hr
      exact (noExp_congr hwin _).mpr (hT.res_noexp r hr)
  · intro x hx; cases hx
  · intro x hx; cases hx
  · intro _ x hx; cases hx

/-- `resendLoop`: the top entry of the resend queue is skipped and popped. -/
theorem spec_popResend (s s' : State F) (top : REntry) (h : Array REntry) (hq : QInv s)
    (hpop : heapPop s.resend = some (top, h)) (hsk : Skipped s.ps top.uid top.fid)
    (hps : s'.ps = s.ps) (hpe : s'.pending = s.pending) (hre : s'.resend = h)
    (hfl : s'.flushId = s.flushId) : Spec s [] s' := by
  have hmem := fun x => mem_heapPop s.resend h top x hpop
  have hsub : ∀ u fid, InResend s' u fid → InResend s u fid := by
    rintro u fid ⟨r, hr, he⟩
    rw [hre] at hr
    exact ⟨r, (hmem r).mpr (.inr hr), he⟩
  have hpend := inPending_congr hpe
  refine ⟨⟨?_, ?_, ?_, ?_⟩, by rw [hps]; exact Nat.le_refl _, ?_, ?_, ?_, ?_, ?_, ?_, ?_, ?_, ?_, ?_,
    hfl, ?_, ?_, ?_⟩
  · intro pe hpe'; rw [hps]; rw [hpe] at hpe'; exact hq.pend_lt pe hpe'
  · intro r hr; rw [hps]; rw [hre] at hr; exact hq.res_lt r ((hmem r).mpr (.inr hr))
  · rw [hpe]; exact hq.pend_nodup
  · intro u fid hp hr
    exact hq.disj u fid ((hpend u fid).mp hp) (hsub u fid hr)
  · intro u fid _ ha
    exact ⟨⟨fun hp => ha.1 ((hpend u fid).mp hp), fun hr => ha.2 (hsub u fid hr)⟩,
      fun _ hx => by cases hx⟩
  · intro x hx; cases hx
  · intro u fid; simp [countOnce]
  · intro u fid hd; rw [hps]; exact hd
  · intro u fid _ hs; rw [hps]; exact hs
  · rintro u fid ⟨r, hr, he1, he2⟩ hs
    refine ⟨?_, by rw [hps]; exact hs⟩
    rcases (hmem r).mp hr with rfl | hr'
    · exfalso; apply hs; rw [← he1, ← he2]; exact hsk
    · exact ⟨r, by rw [hre]; exact hr', he1, he2⟩
  · intro x hx; cases hx
  · intro x hx; cases hx
  · intro x hx; cases hx
  · intro hT
    refine ⟨by rw [hps]; exact hT.uids, ?_, ?_⟩
    · intro pe hpe' hr
      rw [hps]; rw [hpe] at hpe'
      exact hT.pend_flag pe hpe' hr
    · intro r hr
      rw [hps]; rw [hre] at hr
      exact hT.res_noexp r ((hmem r).mpr (.inr hr))
  · intro x hx; cases hx
  · intro x hx; cases hx
  · intro _ x hx; cases hx

/-- `resendLoop`: the top entry is pushed into a data frame and re-queued. -/
theorem spec_pushResend (s s' : State F) (top ne : REntry) (h : Array REntry) (hq : QInv s)
    (hpop : heapPop s.resend = some (top, h)) (hlive : ¬ Skipped s.ps top.uid top.fid)
    (hne1 : ne.uid = top.uid) (hne2 : ne.fid = top.fid) (g : Nat) (ex : Option Nat)
    (hg : g = s.flushId) (hex : TInv s → ex = none)
    (hps : s'.ps = s.ps) (hpe : s'.pending = s.pending) (hre : s'.resend = heapPush h ne)
    (hfl : s'.flushId = s.flushId) :
    Spec s [{ uid := top.uid, fid := top.fid, resend := true, fromResend := true, flushId := g,
              expiry := ex }] s' := by
  have hmem := fun x => mem_heapPop s.resend h top x hpop
  have hiff : ∀ u fid, InResend s' u fid ↔ InResend s u fid := by
    intro u fid
    constructor
    · rintro ⟨r, hr, he⟩
      rw [hre, mem_heapPush] at hr
      rcases hr with rfl | hr
      · exact ⟨top, (hmem top).mpr (.inl rfl), by rw [← hne1]; exact he.1, by rw [← hne2]; exact he.2⟩
      · exact ⟨r, (hmem r).mpr (.inr hr), he⟩
    · rintro ⟨r, hr, he⟩
      rcases (hmem r).mp hr with rfl | hr'
      · exact ⟨ne, by rw [hre, mem_heapPush]; exact .inl rfl, by rw [hne1]; exact he.1,
          by rw [hne2]; exact he.2⟩
      · exact ⟨r, by rw [hre, mem_heapPush]; exact .inr hr', he⟩
  have htop : InResend s top.uid top.fid := ⟨top, (hmem top).mpr (.inl rfl), rfl, rfl⟩
  have hpend := inPending_congr hpe
  refine ⟨⟨?_, ?_, ?_, ?_⟩, by rw [hps]; exact Nat.le_refl _, ?_, ?_, ?_, ?_, ?_, ?_, ?_, ?_, ?_, ?_,
    hfl, ?_, ?_, ?_⟩
  · intro pe hpe'; rw [hps]; rw [hpe] at hpe'; exact hq.pend_lt pe hpe'
  · intro r hr
    rw [hps]
    rw [hre, mem_heapPush] at hr
    rcases hr with rfl | hr
    · rw [hne1]; exact hq.res_lt top ((hmem top).mpr (.inl rfl))
    · exact hq.res_lt r ((hmem r).mpr (.inr hr))
  · rw [hpe]; exact hq.pend_nodup
  · intro u fid hp hr
    exact hq.disj u fid ((hpend u fid).mp hp) ((hiff u fid).mp hr)
  · intro u fid _ ha
    refine ⟨⟨fun hp => ha.1 ((hpend u fid).mp hp), fun hr => ha.2 ((hiff u fid).mp hr)⟩, ?_⟩
    intro x hx hc
    simp only [List.mem_singleton] at hx
    subst hx
    apply ha.2
    rw [← hc.1, ← hc.2]
    exact htop
  · intro x hx hr
    simp only [List.mem_singleton] at hx
    subst hx
    cases hr
  · intro u fid; simp [countOnce]
  · intro u fid hd; rw [hps]; exact hd
  · intro u fid _ hs; rw [hps]; exact hs
  · intro u fid hr hs
    exact ⟨(hiff u fid).mpr hr, by rw [hps]; exact hs⟩
  · intro x hx _
    simp only [List.mem_singleton] at hx
    subst hx
    exact ⟨(hiff _ _).mpr htop, by rw [hps]; exact hlive⟩
  · intro x hx _
    simp only [List.mem_singleton] at hx
    subst hx
    rfl
  · intro x hx
    simp only [List.mem_singleton] at hx
    subst hx
    exact .inl hlive
  · intro hT
    refine ⟨by rw [hps]; exact hT.uids, ?_, ?_⟩
    · intro pe hpe' hr
      rw [hps]; rw [hpe] at hpe'
      exact hT.pend_flag pe hpe' hr
    · intro r hr
      rw [hps]
      rw [hre, mem_heapPush] at hr
      rcases hr with rfl | hr
      · rw [hne1]; exact hT.res_noexp top ((hmem top).mpr (.inl rfl))
      · exact hT.res_noexp r ((hmem r).mpr (.inr hr))
  · intro x hx
    simp only [List.mem_singleton] at hx
    subst hx
    exact hg
  · intro x hx hf
    simp only [List.mem_singleton] at hx
    subst hx
    cases hf
  · intro hT x hx _
    simp only [List.mem_singleton] at hx
    subst hx
    exact hex hT

/-- `pendingInner`: the head of the pending queue is pushed into a data frame, popped, and queued
for resending iff its `resend` flag is set. -/
theorem spec_pushPending (s s' : State F) (entry : PEntry) (rest : List PEntry) (t c : Nat)
    (hq : QInv s) (hpend : s.pending = entry :: rest)
    (hlive : ¬ Skipped s.ps entry.uid entry.fid) (g : Nat) (ex : Option Nat)
    (hg : g = s.flushId) (hts : entry.fid = 0 → ex = none ∨ ex = some s.flushId)
    (hex : TInv s → entry.resend = true → ex = none)
    (hps : s'.ps = s.ps) (hpe : s'.pending = rest)
    (hre : s'.resend = if entry.resend then
        heapPush s.resend { uid := entry.uid, fid := entry.fid, resendTime := t, sendCount := c }
      else s.resend)
    (hfl : s'.flushId = s.flushId) :
    Spec s [{ uid := entry.uid, fid := entry.fid, resend := entry.resend, fromResend := false,
              flushId := g, expiry := ex }] s' := by
  have hnd := hq.pend_nodup
  rw [hpend, List.map_cons, List.nodup_cons] at hnd
  have hnotin : ¬ InPending s' entry.uid entry.fid := by
    rintro ⟨pe, hpe', he1, he2⟩
    rw [hpe] at hpe'
    apply hnd.1
    rw [List.mem_map]
    exact ⟨pe, hpe', by rw [he1, he2]⟩
  have hentry : InPending s entry.uid entry.fid := ⟨entry, by rw [hpend]; simp, rfl, rfl⟩
  have hpsub : ∀ u fid, InPending s' u fid → InPending s u fid := by
    rintro u fid ⟨pe, hpe', he⟩
    rw [hpe] at hpe'
    exact ⟨pe, by rw [hpend]; exact List.mem_cons_of_mem _ hpe', he⟩
  have hres : ∀ u fid, InResend s' u fid →
      InResend s u fid ∨ (entry.resend = true ∧ u = entry.uid ∧ fid = entry.fid) := by
    rintro u fid ⟨r, hr, he1, he2⟩
    rw [hre] at hr
    split at hr
    · rename_i hflag
      rw [mem_heapPush] at hr
      rcases hr with rfl | hr
      · exact .inr ⟨hflag, he1.symm, he2.symm⟩
      · exact .inl ⟨r, hr, he1, he2⟩
    · exact .inl ⟨r, hr, he1, he2⟩
  have hres' : ∀ u fid, InResend s u fid → InResend s' u fid := by
    rintro u fid ⟨r, hr, he⟩
    refine ⟨r, ?_, he⟩
    rw [hre]
    split
    · rw [mem_heapPush]; exact .inr hr
    · exact hr
  refine ⟨⟨?_, ?_, ?_, ?_⟩, by rw [hps]; exact Nat.le_refl _, ?_, ?_, ?_, ?_, ?_, ?_, ?_, ?_, ?_, ?_,
    hfl, ?_, ?_, ?_⟩
  · intro pe hpe'
    rw [hps]; rw [hpe] at hpe'
    exact hq.pend_lt pe (by rw [hpend]; exact List.mem_cons_of_mem _ hpe')
  · intro r hr
    rw [hps]
    rw [hre] at hr
    split at hr
    · rw [mem_heapPush] at hr
      rcases hr with rfl | hr
      · exact hq.pend_lt entry (by rw [hpend]; simp)
      · exact hq.res_lt r hr
    · exact hq.res_lt r hr
  · rw [hpe]; exact hnd.2
  · intro u fid hp hr
    rcases hres u fid hr with hr | ⟨_, rfl, rfl⟩
    · exact hq.disj u fid (hpsub u fid hp) hr
    · exact hnotin hp
  · intro u fid _ ha
    refine ⟨⟨fun hp => ha.1 (hpsub u fid hp), ?_⟩, ?_⟩
    · intro hr
      rcases hres u fid hr with hr | ⟨_, rfl, rfl⟩
      · exact ha.2 hr
      · exact ha.1 hentry
    · intro x hx hc
      simp only [List.mem_singleton] at hx
      subst hx
      apply ha.1
      rw [← hc.1, ← hc.2]
      exact hentry
  · intro x hx hr
    simp only [List.mem_singleton] at hx
    subst hx
    simp only at hr
    refine ⟨⟨hnotin, ?_⟩, by rw [hps]; exact hq.pend_lt entry (by rw [hpend]; simp)⟩
    intro hr'
    rcases hres _ _ hr' with hr' | ⟨hflag, _, _⟩
    · exact hq.disj _ _ hentry hr'
    · rw [hr] at hflag; cases hflag
  · intro u fid
    simp only [countOnce, List.filter_cons, List.filter_nil]
    split <;> simp
  · intro u fid hd; rw [hps]; exact hd
  · intro u fid _ hs; rw [hps]; exact hs
  · intro u fid hr hs
    exact ⟨hres' u fid hr, by rw [hps]; exact hs⟩
  · intro x hx hr
    simp only [List.mem_singleton] at hx
    subst hx
    simp only at hr
    refine ⟨?_, by rw [hps]; exact hlive⟩
    refine ⟨{ uid := entry.uid, fid := entry.fid, resendTime := t, sendCount := c }, ?_, rfl, rfl⟩
    rw [hre, if_pos hr, mem_heapPush]
    exact .inl rfl
  · intro x hx hf
    simp only [List.mem_singleton] at hx
    subst hx
    cases hf
  · intro x hx
    simp only [List.mem_singleton] at hx
    subst hx
    exact .inl hlive
  · intro hT
    refine ⟨by rw [hps]; exact hT.uids, ?_, ?_⟩
    · intro pe hpe' hr
      rw [hps]; rw [hpe] at hpe'
      exact hT.pend_flag pe (by rw [hpend]; exact List.mem_cons_of_mem _ hpe') hr
    · intro r hr
      rw [hps]
      rw [hre] at hr
      split at hr
      · rename_i hflag
        rw [mem_heapPush] at hr
        rcases hr with rfl | hr
        · exact hT.pend_flag entry (by rw [hpend]; simp) hflag
        · exact hT.res_noexp r hr
      · exact hT.res_noexp r hr
  · intro x hx
    simp only [List.mem_singleton] at hx
    subst hx
    exact hg
  · intro x hx _ h0
    simp only [List.mem_singleton] at hx
    subst hx
    exact hts h0
  · intro hT x hx hr
    simp only [List.mem_singleton] at hx
    subst hx
    exact hex hT hr

/-- `pendingOuter`: `PSend.emit` assigned an id to a packet and the pending queue (empty before)
is filled with its fragments. -/
theorem spec_refill_some (s s' : State F) (f : Nat) (ps' : PSend.State) (p : PSend.Pending)
    (resend : Bool) (hq : QInv s) (hempty : s.pending = [])
    (hemit : PSend.emit s.ps f = .ok (ps', some (p, resend)))
    (hps : s'.ps = ps')
    (hpe : s'.pending = (List.range (p.lastFragmentId + 1)).map fun i =>
      ({ uid := p.uid, fid := i, resend := resend } : PEntry))
    (hre : s'.resend = s.resend) (hfl : s'.flushId = s.flushId) : Spec s [] s' := by
  obtain ⟨_, _, _, _, _, _, hcase⟩ := PSend.emit_cases s.ps ps' f _ hemit
  rcases hcase with ⟨hc, _⟩ | ⟨_, q, p', r', w, _, hr, _, hpu, _, _, _, _, hexp, hflag, hwp, _, hwin, hn, _⟩
  · cases hc
  · simp only [Option.some.injEq, Prod.mk.injEq] at hr
    obtain ⟨rfl, rfl⟩ := hr
    have hres := inResend_congr hre
    have hpuid : ∀ u fid, InPending s' u fid → u = s.ps.nextUid := by
      rintro u fid ⟨pe, hpe', he1, _⟩
      rw [hpe, List.mem_map] at hpe'
      obtain ⟨i, _, rfl⟩ := hpe'
      rw [← he1]; exact hpu
    have hnop : ∀ u fid, ¬ InPending s u fid := by
      rintro u fid ⟨pe, hpe', _⟩
      rw [hempty] at hpe'; cases hpe'
    refine ⟨⟨?_, ?_, ?_, ?_⟩, by rw [hps, hn]; exact Nat.le_succ _, ?_, ?_, ?_, ?_, ?_, ?_, ?_, ?_, ?_, ?_,
      hfl, ?_, ?_, ?_⟩
    · intro pe hpe'
      rw [hpe, List.mem_map] at hpe'
      obtain ⟨i, _, rfl⟩ := hpe'
      rw [hps, hn]
      simp only
      omega
    · intro r hr
      rw [hre] at hr
      rw [hps, hn]
      exact Nat.lt_succ_of_lt (hq.res_lt r hr)
    · rw [hpe, List.map_map]
      unfold List.Nodup
      refine List.Pairwise.map _ ?_ List.nodup_range
      intro a b hab hc
      simp only [Function.comp, Prod.mk.injEq] at hc
      exact hab hc.2
    · intro u fid hp hr
      have := hpuid u fid hp
      obtain ⟨r, hr', he, _⟩ := (hres u fid).mp hr
      have := hq.res_lt r hr'
      omega
    · intro u fid hu ha
      refine ⟨⟨fun hp => ?_, fun hr => ha.2 ((hres u fid).mp hr)⟩, fun _ hx => by cases hx⟩
      have := hpuid u fid hp
      omega
    · intro x hx; cases hx
    · intro u fid; simp [countOnce]
    · intro u fid hd; rw [hps]; exact PSend.dead_emit _ _ _ _ _ _ hemit hd
    · intro u fid hu hs
      rw [hps]
      simp only [Skipped] at hs ⊢
      rw [PSend.findPacket_emit _ _ _ _ _ hemit hu]
      exact hs
    · rintro u fid ⟨r, hr, he1, he2⟩ hs
      refine ⟨(hres u fid).mpr ⟨r, hr, he1, he2⟩, ?_⟩
      have hu : u < s.ps.nextUid := by rw [← he1]; exact hq.res_lt r hr
      rw [hps]
      simp only [Skipped] at hs ⊢
      rw [PSend.findPacket_emit _ _ _ _ _ hemit hu]
      exact hs
    · intro x hx; cases hx
    · intro x hx; cases hx
    · intro x hx; cases hx
    · intro hT
      refine ⟨by rw [hps]; exact PSend.uidInv_emit _ _ _ _ hemit hT.uids, ?_, ?_⟩
      · intro pe hpe' hr p0 hp0
        rw [hpe, List.mem_map] at hpe'
        obtain ⟨i, _, rfl⟩ := hpe'
        simp only at hr hp0
        rw [hps, hpu, PSend.findPacket_emit_new _ _ _ _ _ hT.uids hemit] at hp0
        cases hp0
        rw [hexp]
        have hm := hflag.mp hr
        rcases hm with hm | hm <;> simp [hm]
      · intro r hr
        rw [hre] at hr
        rw [hps]
        exact PSend.noExp_emit _ _ _ _ _ hemit (hq.res_lt r hr) (hT.res_noexp r hr)
    · intro x hx; cases hx
    · intro x hx; cases hx
    · intro _ x hx; cases hx

end Uflow.Modes
