/-
Pure list lemmas used by the system-level composition proofs: picking elements of a list at strictly
increasing positions gives a sublist, and the "reported values" of a log whose keys point into an emitted
list form a sublist of the (filtered, mapped) emitted list.
-/

namespace Uflow.Sys

/-- Looking up positions `≥ 1` in `a :: t` is looking up the predecessors in `t`. -/
theorem filterMap_getElem?_cons_shift {α : Type} (a : α) (t : List α) (vs : List Nat)
    (h : ∀ v ∈ vs, 1 ≤ v) :
    vs.filterMap (fun v => (a :: t)[v]?) = (vs.map (· - 1)).filterMap (fun v => t[v]?) := by
  induction vs with
  | nil => rfl
  | cons v vs ih =>
    have hv : 1 ≤ v := h v (by simp)
    obtain ⟨w, rfl⟩ : ∃ w, v = w + 1 := ⟨v - 1, by omega⟩
    have ih' := ih (fun x hx => h x (by simp [hx]))
    simp [List.filterMap_cons, ih']

/-- Subtracting one from strictly increasing positive numbers keeps them strictly increasing. -/
theorem pairwise_lt_map_pred (vs : List Nat) (h : ∀ v ∈ vs, 1 ≤ v) (hp : vs.Pairwise (· < ·)) :
    (vs.map (· - 1)).Pairwise (· < ·) := by
  rw [List.pairwise_map]
  exact hp.imp_of_mem (fun ha hb hab => by
    have := h _ ha; have := h _ hb; omega)

/-- Picking the elements at strictly increasing positions gives a sublist. -/
theorem sublist_of_increasing {α : Type} (l : List α) (us : List Nat)
    (hinc : us.Pairwise (· < ·)) : (us.filterMap (fun u => l[u]?)).Sublist l := by
  induction l generalizing us with
  | nil => simp
  | cons a t ih =>
    cases us with
    | nil => simp
    | cons u us' =>
      rw [List.pairwise_cons] at hinc
      obtain ⟨hu, hinc'⟩ := hinc
      have hpos' : ∀ v ∈ us', 1 ≤ v := fun v hv => by have := hu v hv; omega
      cases u with
      | zero =>
        rw [List.filterMap_cons]
        simp only [List.getElem?_cons_zero]
        rw [filterMap_getElem?_cons_shift a t us' hpos']
        exact List.Sublist.cons_cons a (ih _ (pairwise_lt_map_pred us' hpos' hinc'))
      | succ w =>
        have hpos : ∀ v ∈ (w + 1) :: us', 1 ≤ v := by
          intro v hv
          rcases List.mem_cons.1 hv with rfl | hv
          · omega
          · exact hpos' v hv
        rw [filterMap_getElem?_cons_shift a t _ hpos]
        exact List.Sublist.cons a
          (ih _ (pairwise_lt_map_pred _ hpos (List.pairwise_cons.2 ⟨hu, hinc'⟩)))

/-- If `f` is `none` or agrees with `some ∘ h` on every element, `filterMap f` is a sublist of `map h`. -/
theorem filterMap_sublist_map {α β : Type} (L : List α) (f : α → Option β) (h : α → β)
    (hf : ∀ e ∈ L, f e = none ∨ f e = some (h e)) : (L.filterMap f).Sublist (L.map h) := by
  induction L with
  | nil => simp
  | cons e L ih =>
    have ih' := ih (fun x hx => hf x (by simp [hx]))
    rcases hf e (by simp) with he | he
    · rw [List.filterMap_cons, he]
      exact List.Sublist.cons _ ih'
    · rw [List.filterMap_cons, he]
      exact List.Sublist.cons_cons _ ih'

/-- A sublist all of whose elements satisfy `p` is a sublist of the filtered list. -/
theorem sublist_filter_of_all {α : Type} (p : α → Bool) (l1 l2 : List α) (hs : l1.Sublist l2)
    (hp : ∀ x ∈ l1, p x = true) : l1.Sublist (l2.filter p) := by
  have h := hs.filter p
  rwa [List.filter_eq_self.2 hp] at h

/-- Main combination. `L` is a list of "log entries" with key `uid : ε → Nat` strictly increasing along
`L`; every entry's key points into `em`, `g` of the element found there is what `f` reports (or `f`
reports nothing), and the element found satisfies `p`. Then the reported values are a sublist of
`(em.filter p).map g`. -/
theorem reported_sublist {ε α β : Type} (L : List ε) (uid : ε → Nat) (f : ε → Option β)
    (em : List α) (g : α → β) (p : α → Bool)
    (hinc : L.Pairwise (fun a b => uid a < uid b))
    (hlink : ∀ e ∈ L, ∃ x, em[uid e]? = some x ∧ p x = true ∧ (f e = none ∨ f e = some (g x))) :
    (L.filterMap f).Sublist ((em.filter p).map g) := by
  -- the elements looked up by the keys
  have hus : ((L.map uid).Pairwise (· < ·)) := by
    rw [List.pairwise_map]; exact hinc
  have hsub : ((L.map uid).filterMap (fun u => em[u]?)).Sublist em :=
    sublist_of_increasing em _ hus
  have hall : ∀ x ∈ (L.map uid).filterMap (fun u => em[u]?), p x = true := by
    intro x hx
    rw [List.mem_filterMap] at hx
    obtain ⟨u, hu, hux⟩ := hx
    rw [List.mem_map] at hu
    obtain ⟨e, he, rfl⟩ := hu
    obtain ⟨y, hy, hpy, _⟩ := hlink e he
    rw [hy] at hux
    cases hux
    exact hpy
  have h1 : (((L.map uid).filterMap (fun u => em[u]?)).map g).Sublist ((em.filter p).map g) :=
    (sublist_filter_of_all p _ _ hsub hall).map g
  refine List.Sublist.trans ?_ h1
  clear h1 hall hsub hus hinc
  induction L with
  | nil => simp
  | cons e L ih =>
    have ih' := ih (fun x hx => hlink x (by simp [hx]))
    obtain ⟨x, hx, _, hfx⟩ := hlink e (by simp)
    have hr : ((e :: L).map uid).filterMap (fun u => em[u]?)
        = x :: (L.map uid).filterMap (fun u => em[u]?) := by
      rw [List.map_cons, List.filterMap_cons, hx]
    rw [hr, List.map_cons]
    rcases hfx with he | he
    · rw [List.filterMap_cons, he]
      exact List.Sublist.cons _ ih'
    · rw [List.filterMap_cons, he]
      exact List.Sublist.cons_cons _ ih'

end Uflow.Sys
