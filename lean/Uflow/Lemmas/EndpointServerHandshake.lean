import Uflow.Lemmas.EndpointServerLimits

/-!
Where `connect` events come from (C07): frame level, datagram-loop level, step level.
-/

namespace Uflow.Endpoint

open Uflow.Gen Uflow.Codec Uflow.HalfConn

variable {H : Type}

/-- First element of a `foldlM` at which a property of the accumulator becomes true. -/
theorem foldlM_first_change {α β ε : Type} (Q : β → Prop) (f : β → α → Except ε β) :
    ∀ (l : List α) (b b' : β), ¬ Q b → Q b' → l.foldlM f b = .ok b' →
      ∃ pre x post b1 b2, l = pre ++ x :: post ∧ pre.foldlM f b = .ok b1 ∧ f b1 x = .ok b2 ∧ ¬ Q b1 ∧ Q b2 := by
  intro l
  induction l with
  | nil =>
    intro b b' hb hb' h
    simp only [List.foldlM_nil, pure, Except.pure, Except.ok.injEq] at h
    subst h; exact absurd hb' hb
  | cons a l ih =>
    intro b b' hb hb' h
    rw [List.foldlM_cons] at h
    cases hfa : f b a with
    | error e => rw [hfa] at h; simp [bind, Except.bind] at h
    | ok b1 =>
      rw [hfa] at h
      by_cases hq : Q b1
      · exact ⟨[], a, l, b, b1, rfl, rfl, hfa, hb, hq⟩
      · obtain ⟨pre, x, post, c1, c2, e1, e2, e3, e4, e5⟩ := ih b1 b' hq hb' h
        refine ⟨a :: pre, x, post, c1, c2, by rw [e1]; rfl, ?_, e3, e4, e5⟩
        rw [List.foldlM_cons, hfa]
        exact e2

theorem Server.activate_eventsOut (hc : HC H) (s : Server H) (c : RClient H) (ln rn rate alloc nowMs nowNs : Nat) :
    (s.activate hc c ln rn rate alloc nowMs nowNs).eventsOut = s.eventsOut ++ [SEvent.connect c.address] := by
  unfold Server.activate
  simp only [Server.put_eventsOut]

/-- After activation the entry of the address is the activated object. -/
theorem Server.WF.activate_find (hc : HC H) {s : Server H} (h : s.WF) {c : RClient H} (hcm : c ∈ s.clients)
    (ln rn rate alloc nowMs nowNs : Nat) :
    (s.activate hc c ln rn rate alloc nowMs nowNs).find c.address =
      some { c with state := .active (hc.new (hcConfig s.cfg.ep ln rn rate alloc) nowNs) (nowMs + s.cfg.ep.activeTimeoutMs) none } := by
  have hw := h.activate hc hcm ln rn rate alloc nowMs nowNs
  obtain ⟨l1, l2, e1, e2⟩ := h.put_shape (c' := RClient.mk c.cid c.address
      (RState.active (hc.new (hcConfig s.cfg.ep ln rn rate alloc) nowNs) (nowMs + s.cfg.ep.activeTimeoutMs) none)) hcm rfl
  have hm : (RClient.mk c.cid c.address
      (RState.active (hc.new (hcConfig s.cfg.ep ln rn rate alloc) nowNs) (nowMs + s.cfg.ep.activeTimeoutMs) none))
      ∈ (s.activate hc c ln rn rate alloc nowMs nowNs).clients := by
    unfold Server.activate
    simp only [e2]
    exact List.mem_append_right _ List.mem_cons_self
  exact hw.find_eq hm

/-- **Frame level.** A frame either emits no `connect` event, or it is a handshake ACK from an
address whose entry is pending with exactly that nonce; that entry stores the SYN-ACK carrying the
nonce; exactly one `connect` (for the sender) is emitted, nothing is sent, and the entry becomes
active with the half connection derived from the handshake values. -/
theorem Server.handleFrame_connect (hc : HC H) {s : Server H} (h : s.WF) (addr : Nat) (f : Frame) (nowMs nowNs : Nat)
    {s' : Server H} {sent : List (Nat × List Nat)}
    (hr : s.handleFrame hc addr f nowMs nowNs = .ok (s', sent)) :
    EvNC s.eventsOut s'.eventsOut ∨
    ∃ c na rn rate alloc, f = .hsAck na ∧ s.find addr = some c ∧ na < 2^32 ∧
      c.state = .pending na rn rate alloc (encode (.synAck rn na (u32 s.cfg.ep.maxReceiveRate)
        (u32 s.cfg.ep.maxPacketSize) (u32 s.cfg.ep.maxReceiveAlloc))) ∧
      s' = s.activate hc c na rn rate alloc nowMs nowNs ∧
      s'.eventsOut = s.eventsOut ++ [SEvent.connect addr] ∧ sent = [] ∧
      s'.find addr = some { c with state := (.active (hc.new (hcConfig s.cfg.ep na rn rate alloc) nowNs)
        (nowMs + s.cfg.ep.activeTimeoutMs) none) } := by
  obtain ⟨_, hq | ⟨v, n, r, p, a, _, _, _, hs', _⟩ | ⟨c, na, rn, rate, alloc, reply, hf, hfind, hst, hs', hsent⟩⟩ :=
    Server.handleFrame_wq hc h addr f nowMs nowNs hr
  · exact Or.inl hq.ev
  · rw [hs']; exact Or.inl (EvNC.refl _)
  · obtain ⟨hcm, haddr⟩ := Server.find_some hfind
    obtain ⟨hlt, hreply⟩ := h.replyOk c hcm _ _ _ _ _ hst
    subst hreply
    refine Or.inr ⟨c, na, rn, rate, alloc, hf, hfind, hlt, hst, hs', ?_, hsent, ?_⟩
    · rw [hs', Server.activate_eventsOut, haddr]
    · rw [hs', ← haddr]; exact h.activate_find hc hcm ..

/-- The datagram loop: a `connect a` that appears in the event buffer was emitted while processing
one datagram from `a` that decodes to a handshake ACK matching the pending entry of `a`. -/
theorem Server.handleFrames_connect (hc : HC H) {s : Server H} (h : s.WF) (arrivals : List (Nat × List Nat))
    (nowMs nowNs : Nat) {s' : Server H} {sent : List (Nat × List Nat)}
    (hr : s.handleFrames hc arrivals nowMs nowNs = .ok (s', sent)) (a : Nat)
    (hn : SEvent.connect a ∉ s.eventsOut) (hin : SEvent.connect a ∈ s'.eventsOut) :
    ∃ pre bytes post s1 sent1 c na rn rate alloc,
      arrivals = pre ++ (a, bytes) :: post ∧
      s.handleFrames hc pre nowMs nowNs = .ok (s1, sent1) ∧ s1.WF ∧
      decode (bytes.take MAX_FRAME_SIZE) = some (.hsAck na) ∧ na < 2^32 ∧
      s1.find a = some c ∧
      c.state = .pending na rn rate alloc (encode (.synAck rn na (u32 s.cfg.ep.maxReceiveRate)
        (u32 s.cfg.ep.maxPacketSize) (u32 s.cfg.ep.maxReceiveAlloc))) ∧
      s1.handleFrames hc [(a, bytes)] nowMs nowNs = .ok (s1.activate hc c na rn rate alloc nowMs nowNs, []) := by
  unfold Server.handleFrames at hr
  obtain ⟨pre, x, post, b1, b2, e1, e2, e3, e4, e5⟩ :=
    foldlM_first_change (fun acc : Server H × List (Nat × List Nat) => SEvent.connect a ∈ acc.1.eventsOut) _
      arrivals (s, []) (s', sent) hn hin hr
  have hpre : s.handleFrames hc pre nowMs nowNs = .ok b1 := e2
  obtain ⟨hw1, hcfg⟩ := Server.handleFrames_inv hc (fun x => x.cfg = s.cfg)
    (fun _ _ _ hp hq => hq.cfg.trans hp) (fun _ _ _ _ _ _ _ hp _ _ => hp)
    (fun _ _ _ _ _ _ _ _ _ _ _ hp _ _ => (Server.activate_cfg ..).trans hp) h rfl pre nowMs nowNs (s' := b1.1) (sent := b1.2) hpre
  simp only at e3
  split at e3
  · cases e3; exact absurd e5 e4
  · rename_i f hdec
    split at e3
    · cases e3
    · rename_i s2 sent2 hfr
      cases e3
      rcases Server.handleFrame_connect hc hw1 x.1 f nowMs nowNs hfr with ⟨new, hnew, hnc⟩ | ⟨c, na, rn, rate, alloc, hf, hfind, hlt, hst, hs2, hev, hsent, _⟩
      · exfalso
        simp only at e5
        rw [hnew] at e5
        rcases List.mem_append.1 e5 with e5 | e5
        · exact e4 e5
        · exact hnc a e5
      · simp only at e5
        rw [hev] at e5
        have hxa : x.1 = a := by
          rcases List.mem_append.1 e5 with e5 | e5
          · exact absurd e5 e4
          · have := List.mem_singleton.1 e5
            injection this with h'
            exact h'.symm
        obtain ⟨x1, bytes⟩ := x
        simp only at hxa
        subst hxa
        subst hf
        rw [hcfg] at hst
        refine ⟨pre, bytes, post, b1.1, b1.2, c, na, rn, rate, alloc, e1, hpre, hw1, hdec, hlt, hfind, hst, ?_⟩
        unfold Server.handleFrames
        simp only [List.foldlM_cons, List.foldlM_nil, hdec, hfr, bind, Except.bind, pure, Except.pure, hs2, hsent,
          List.append_nil]

/-! ### the event buffer is empty between operations -/

theorem Server.finish_eventsOut (s : Server H) (c : RClient H) : (s.finish c).eventsOut = s.eventsOut := by
  unfold Server.finish; split <;> rfl

theorem Server.flushActive_eventsOut (hc : HC H) {s s' : Server H} {sent : List (Nat × List Nat)}
    (hr : s.flushActive hc = .ok (s', sent)) : s'.eventsOut = s.eventsOut := by
  unfold Server.flushActive at hr
  refine foldlM_ok_inv (fun x : Server H × List (Nat × List Nat) => x.1.eventsOut = s.eventsOut) _ ?_ s.active (s, [])
    (s', sent) rfl hr
  intro b cid b' hb hf
  simp only at hf
  split at hf
  · cases hf; exact hb
  · split at hf
    · split at hf
      · cases hf
      · cases hf
        simp only [Server.put_eventsOut]
        exact hb
    · cases hf; exact hb

theorem SRun.eventsOut_nil {hc : HC H} {cfg : SrvConfig} {s : Server H} {rx tx : List (Nat × List Nat)}
    {ev : List SEvent} (hr : SRun hc cfg s rx tx ev) : s.eventsOut = [] := by
  induction hr with
  | init now rng => rfl
  | @op s s' rx tx sent ev evs o _ hap ih =>
    cases o with
    | step nowNs arr =>
      obtain ⟨ph⟩ := Server.step_phases hc hap
      rw [ph.hs']
    | flush =>
      simp only [Server.apply, Server.flush] at hap
      split at hap
      · cases hap
      · rename_i s1 sent1 hfl
        cases hap
        rw [Server.flushActive_eventsOut hc hfl, ih]
    | drop addr =>
      simp only [Server.apply, Except.ok.injEq, Prod.mk.injEq] at hap
      obtain ⟨rfl, _, _⟩ := hap
      unfold Server.drop
      split
      · rw [Server.finish_eventsOut, ih]
      · exact ih
    | disconnect addr m =>
      simp only [Server.apply, Except.ok.injEq, Prod.mk.injEq] at hap
      obtain ⟨rfl, _, _⟩ := hap
      unfold Server.disconnect
      split
      · split
        · rw [Server.put_eventsOut, ih]
        · exact ih
      · exact ih
    | send addr data chan mode =>
      simp only [Server.apply, Except.ok.injEq, Prod.mk.injEq] at hap
      obtain ⟨rfl, _, _⟩ := hap
      unfold Server.send
      split
      · split
        · rw [Server.put_eventsOut, ih]
        · exact ih
      · exact ih

/-- **Step level.** Every `connect a` delivered by a step was emitted while processing a datagram
from `a` that decodes to a handshake ACK carrying the nonce of the pending entry of `a`. -/
theorem Server.step_connect (hc : HC H) {s : Server H} (h : s.WF) (he : NoConn s.eventsOut) (nowNs : Nat)
    (arrivals : List (Nat × List Nat)) {s' : Server H} {sent : List (Nat × List Nat)} {evs : List SEvent}
    (hr : s.step hc nowNs arrivals = .ok (s', sent, evs)) (a : Nat) (hin : SEvent.connect a ∈ evs) :
    ∃ s0 sent0 pre bytes post s1 sent1 c na rn rate alloc,
      s.flushActive hc = .ok (s0, sent0) ∧
      arrivals = pre ++ (a, bytes) :: post ∧
      s0.handleFrames hc pre ((nowNs - s.timeBase) / 1000000) nowNs = .ok (s1, sent1) ∧ s1.WF ∧
      decode (bytes.take MAX_FRAME_SIZE) = some (.hsAck na) ∧ na < 2^32 ∧
      s1.find a = some c ∧
      c.state = .pending na rn rate alloc (encode (.synAck rn na (u32 s.cfg.ep.maxReceiveRate)
        (u32 s.cfg.ep.maxPacketSize) (u32 s.cfg.ep.maxReceiveAlloc))) ∧
      s1.handleFrames hc [(a, bytes)] ((nowNs - s.timeBase) / 1000000) nowNs =
        .ok (s1.activate hc c na rn rate alloc ((nowNs - s.timeBase) / 1000000) nowNs, []) := by
  obtain ⟨ph⟩ := Server.step_phases hc hr
  have w1 := Server.flushActive_wq hc h ph.hflush
  obtain ⟨w2, _⟩ := Server.handleFrames_inv hc (fun _ => True) (fun _ _ _ _ _ => trivial)
    (fun _ _ _ _ _ _ _ _ _ _ => trivial) (fun _ _ _ _ _ _ _ _ _ _ _ _ _ _ => trivial) w1.1 trivial arrivals _ nowNs ph.hframes
  have w3 := Server.runTimers_wq (ph.s2.timers.size * 12 + 16) w2 ((nowNs - s.timeBase) / 1000000) []
  have w4 := Server.activeTimeouts_wq hc w3.1 _ ph.htimeouts
  have w5 := Server.retain_wq w4.1
  have w6 := Server.stepActive_wq hc w5.1 _ nowNs ph.hstep
  have hq26 : EvNC ph.s2.eventsOut ph.s6.eventsOut := ((w3.2.trans w4.2).trans (w5.2.trans w6.2)).ev
  have hin2 : SEvent.connect a ∈ ph.s2.eventsOut := by
    rw [ph.hevs] at hin
    obtain ⟨new, hnew, hnc⟩ := hq26
    rw [hnew] at hin
    rcases List.mem_append.1 hin with hin | hin
    · exact hin
    · exact absurd hin (hnc a)
  have hn1 : SEvent.connect a ∉ ph.s1.eventsOut := by
    rw [Server.flushActive_eventsOut hc ph.hflush]
    exact he a
  obtain ⟨pre, bytes, post, s1, sent1, c, na, rn, rate, alloc, e1, e2, e3, e4, e5, e6, e7, e8⟩ :=
    Server.handleFrames_connect hc w1.1 arrivals _ nowNs ph.hframes a hn1 hin2
  rw [w1.2.cfg] at e7
  exact ⟨ph.s1, ph.sent1, pre, bytes, post, s1, sent1, c, na, rn, rate, alloc, ph.hflush, e1, e2, e3, e4, e5, e6, e7, e8⟩

end Uflow.Endpoint
