import Uflow.Lemmas.HcAgeSyncInv

/-!
C01AgeSync, part 3: `SyncInv` is kept by every step whose age condition `AgeOp D` holds
(`D + w + 2^k < 2^20`), given `Full` before and after the step and `AgeInv` before it.
-/

namespace Uflow.HcAge

open Uflow Uflow.Gen Uflow.Codec Uflow.HalfConn Uflow.PSend Uflow.HcSys Uflow.HcFrm Uflow.HcCov Uflow.Sys
open Uflow.PRecv (bindR bindR_ok pidSub_self)
open Uflow.Rate (FloatOps)

variable {F : Type}

theorem syncInv_step {w k b a m D : Nat} (ops : FloatOps F) (H : SHyp w k b) (hD : D + w + 2^k < 2^20)
    {x x' : Aged F} {s s' : Sys} (hF : Full w k b a m x.h s) (hF' : Full w k b a m x'.h s')
    (hA : AgeInv w x) (hS : SyncInv w x) (op : POp) (hage : AgeOp D x op)
    (hs : stepG ops x op = .ok x') : SyncInv w x' := by
  obtain ⟨hp, -⟩ := stepG_ok ops hs
  have hx' : x' = ⟨x'.h, x'.tBA⟩ := by cases x'; rfl
  rw [hx']
  have hi := hF.pi
  have pf := pfacts_of_full H hF
  have hW := PRecv.wOk_pow k H.hk
  cases op with
  | sendA d c mm =>
    simp only [stepP] at hp
    split at hp
    · rw [← Except.ok.inj hp]; exact syncInv_of_same hS _ _ rfl rfl rfl rfl rfl
    · rw [← Except.ok.inj hp]; exact syncInv_of_same hS _ _ rfl rfl rfl rfl rfl
  | stepA now =>
    simp only [stepP] at hp
    cases hf : step ops x.h.A now with
    | error t => rw [hf] at hp; cases hp
    | ok r =>
      rw [hf, bindR_ok] at hp
      rw [← Except.ok.inj hp]; exact syncInv_of_same hS _ _ rfl rfl rfl rfl rfl
  | stepB now =>
    simp only [stepP] at hp
    cases hf : step ops x.h.B now with
    | error t => rw [hf] at hp; cases hp
    | ok r =>
      rw [hf, bindR_ok] at hp
      rw [← Except.ok.inj hp]
      exact syncInv_of_same hS _ _ rfl rfl rfl (step_spec ops x.h.B r now hf).2 rfl
  | flushB =>
    simp only [stepP] at hp
    cases hf : flush x.h.B with
    | error t => rw [hf] at hp; cases hp
    | ok r =>
      obtain ⟨b', out⟩ := r
      rw [hf, bindR_ok] at hp
      rw [← Except.ok.inj hp]
      obtain ⟨pendB, hpb⟩ := hi.b
      obtain ⟨l, _, _, hpr, _⟩ := flush_spec x.h.B b' out hpb hf
      exact syncInv_of_same hS _ _ rfl rfl rfl hpr rfl
  | deliverBA kk =>
    simp only [stepP] at hp
    cases hk : x.h.wireBA[kk]? with
    | none =>
      rw [hk] at hp
      rw [← Except.ok.inj hp]; exact syncInv_of_same hS _ _ rfl rfl rfl rfl rfl
    | some bytes =>
      rw [hk] at hp
      simp only [] at hp
      cases hf : dispatch x.h.A (bytes.take MAX_FRAME_SIZE) with
      | error t => rw [hf] at hp; cases hp
      | ok r =>
        rw [hf, bindR_ok] at hp
        rw [← Except.ok.inj hp]; exact syncInv_of_same hS _ _ rfl rfl rfl rfl rfl
  | recvB =>
    simp only [stepP] at hp
    cases hf : receive x.h.B with
    | error t => rw [hf] at hp; cases hp
    | ok r =>
      obtain ⟨b', out⟩ := r
      rw [hf, bindR_ok] at hp
      rw [← Except.ok.inj hp]
      obtain ⟨_, hrc⟩ := receive_spec x.h.B b' out hf
      obtain ⟨M, hpi, hpo, log, hgi⟩ := pf.inv
      have he := PRecv.receiveT_erase x.h.B.pr
      rw [hrc] at he
      cases hT : PRecv.receiveT x.h.B.pr with
      | error t => rw [hT] at he; cases he
      | ok p =>
        rw [hT] at he
        simp only [Except.map, Except.ok.injEq, PRecv.eraseP, Prod.mk.injEq] at he
        obtain ⟨e1, _⟩ := he
        have hend := receiveT_end hW hpi hpo hgi (show PRecv.receiveT x.h.B.pr = .ok (p.1, p.2) from hT)
        rw [e1] at hend
        refine ⟨hS.dg, ?_, hS.st⟩
        show x.h.advB + pidSub b'.pr.baseId x.h.B.pr.baseId + endOff b'.pr ≤ topT x.h.wireT
        have := hS.en
        omega
  | deliverAB kk =>
    simp only [stepP] at hp
    cases hk : x.h.wireAB[kk]? with
    | none =>
      rw [hk] at hp
      rw [← Except.ok.inj hp]; exact syncInv_of_same hS _ _ rfl rfl rfl rfl rfl
    | some bytes =>
      rw [hk] at hp
      simp only [] at hp
      have hmem : bytes ∈ x.h.wireAB := List.mem_of_getElem? hk
      rw [List.take_of_length_le (hi.lab bytes hmem)] at hp
      cases hd : dispatch x.h.B bytes with
      | error t => rw [hd] at hp; cases hp
      | ok b' =>
        rw [hd, bindR_ok] at hp
        rw [← Except.ok.inj hp]
        suffices hen : x.h.advB + pidSub b'.pr.baseId x.h.B.pr.baseId + endOff b'.pr ≤ topT x.h.wireT from
          ⟨hS.dg, hen, hS.st⟩
        have hlt : kk < x.h.wireT.length := by
          rw [hF.fi.twl]; exact (List.getElem?_eq_some_iff.mp hk).1
        have hT : x.h.wireT[kk]? = some x.h.wireT[kk] := List.getElem?_eq_getElem hlt
        have hage' : x.h.pend.length ≤ x.h.wireT[kk] + D := by
          have := hage
          simp only [AgeOp, hT] at this
          exact this
        have hTtop : x.h.wireT[kk] ≤ topT x.h.wireT := le_topT (List.getElem_mem hlt)
        have hTP : x.h.wireT[kk] ≤ x.h.pend.length := hF.fi.tle _ (List.getElem_mem hlt)
        have hen0 := hS.en
        have hself := pidSub_self x.h.B.pr.baseId
        obtain ⟨M, hpi, hpo, _⟩ := pf.inv
        have hv := dispatch_view x.h.B b' bytes hd
        cases hv with
        | skip h1 _ _ _ _ _ => rw [h1]; omega
        | ack fb pb acks ps1 _ h2 _ _ _ _ => rw [h2]; omega
        | data id nonce dgs h1 _ h3 _ h5 =>
          obtain ⟨hb', he'⟩ := foldDg_end hW (fedBy x.h.B bytes) x.h.B.pr b'.pr hpi hpo h5
            (topT x.h.wireT - x.h.advB) (by omega) (by
              intro d hdm hin
              rw [h3] at hdm
              split at hdm
              · obtain ⟨i, hfr, hlt', hle'⟩ := wire_decode_data (hS.dg kk bytes _ hk hT)
                  (fun d ⟨i, hfr, _⟩ => genuine_ok hi.a d ⟨i, hfr⟩) id nonce dgs h1 d hdm
                have := dg_pos H.hw hD x.h.advB x.h.pend.length i x.h.wireT[kk] d.sequenceId
                  x.h.B.pr.baseId pf.base (pf.seq i d hfr) hlt' hle' hage' pf.hi pf.win hTP hin
                omega
              · cases hdm)
          rw [hb']
          omega
        | sync nf np hdec _ _ _ h5 =>
          cases np with
          | none =>
            simp only [resyncTo, Except.ok.injEq] at h5
            rw [← h5]; omega
          | some id =>
            simp only [resyncTo] at h5
            rcases resynchronize_end hW hpi hpo id h5 with h0 | ⟨hin, h0 | h0⟩
            · rw [h0]; omega
            · omega
            · have hmem' := hA.sy kk bytes _ hk hT nf id hdec
              have := sync_pos H.hw hD x.h.advB x.h.pend.length x.h.wireT[kk] id x.h.B.pr.baseId pf.base
                (pf.syn _ _ hmem') hage' pf.hi pf.win hTP hin
              omega
  | flushA =>
    have hwl' : x'.h.A.ps.win.length ≤ w := by
      obtain ⟨hinv', _, _⟩ := reach_invs H hF'.reach
      have h1 := (hinv_win hinv'.snd.hinv (by have := H.hw; omega)).2.1
      have h2 : s'.snd.win.length = x'.h.A.ps.win.length := by rw [hF'.rel.snd]; simp [erase]
      omega
    have pf' := pfacts_of_full H hF'
    simp only [stepP] at hp
    cases hf : flush x.h.A with
    | error t => rw [hf] at hp; cases hp
    | ok r =>
      obtain ⟨a', out⟩ := r
      rw [hf, bindR_ok] at hp
      have hp' := Except.ok.inj hp
      rw [← hp'] at hwl' pf'
      rw [← hp']
      have hwl'' : a'.ps.win.length ≤ w := hwl'
      have hwin' : (x.h.pend ++ newPackets x.h.A.ps a'.ps).length ≤ x.h.advB + w := pf'.win
      have hL : AInvL (x.h.A.ps.nextUid - x.h.A.ps.win.length) x.h.pend x.h.A.ps := ⟨hi.a, hF.wu, Nat.le_refl _⟩
      obtain ⟨l, hem, haL, _, hout⟩ := flush_specL x.h.A a' out hL hf
      have hnp : newPackets x.h.A.ps a'.ps = l := (hem.newPackets hi.a).2
      obtain ⟨_, hlo⟩ := emits_lo hem hF.wu.1
      have hnu : a'.ps.nextUid = (x.h.pend ++ l).length := haL.a.nuid
      have htwl := hF.fi.twl
      have hen0 := hS.en
      have hold : ∀ T ∈ x.h.wireT, T ≤ (x.h.pend ++ newPackets x.h.A.ps a'.ps).length := by
        intro T hT
        have := hF.fi.tle T hT
        rw [List.length_append]; omega
      refine ⟨?_, ?_, ?_⟩
      · intro j bytes T h1 h2
        simp only [] at h1 h2 ⊢
        rcases par_append _ _ _ _ htwl j bytes T h1 h2 with ⟨o1, o2⟩ | ⟨n1, n2⟩
        · exact (hS.dg j bytes T o1 o2).mono
            (fun d ⟨i, hfr, hlt, hle⟩ => ⟨i, hfr.mono _, hlt, hle⟩) (fun _ hx => hx)
        · have hT : T = (x.h.pend ++ newPackets x.h.A.ps a'.ps).length := List.eq_of_mem_replicate n2
          refine (hout bytes n1).mono ?_ (fun _ _ => trivial)
          rintro d ⟨i, hlo', hfr⟩
          have hil : i < (x.h.pend ++ l).length := by
            obtain ⟨p, fid, hpp, _, _⟩ := hfr
            exact (List.getElem?_eq_some_iff.mp hpp).1
          refine ⟨i, by rw [hnp]; exact hfr, by rw [hT, hnp]; exact hil, ?_⟩
          rw [hT, hnp, ← hnu]
          omega
      · show x.h.advB + endOff x.h.B.pr ≤ topT (x.h.wireT ++ _)
        exact Nat.le_trans hen0 (topT_append_le _ _)
      · intro kq T hq
        simp only [] at hq ⊢
        generalize hT' : (x.h.pend ++ newPackets x.h.A.ps a'.ps).length = T' at *
        have htop : topT (x.h.wireT ++ List.replicate out.length T') ≤ max (topT x.h.wireT) T' := by
          apply topT_le
          intro T0 hT0
          rcases List.mem_append.mp hT0 with hT0 | hT0
          · exact Nat.le_trans (le_topT hT0) (Nat.le_max_left _ _)
          · rw [List.eq_of_mem_replicate hT0]; exact Nat.le_max_right _ _
        rw [List.length_append, List.length_replicate]
        by_cases hk : kq < x.h.wireT.length
        · rw [List.getElem?_append_left hk] at hq
          have h0 := hS.st kq T hq
          by_cases hn : out.length = 0
          · rw [hn]
            simp only [List.replicate_zero, List.append_nil, Nat.add_zero]
            exact h0
          · have hmul := Nat.mul_le_mul_left w
              (show x.h.wireT.length - (kq + 1) + 1 ≤ x.h.wireT.length + out.length - (kq + 1) by omega)
            rw [Nat.mul_add, Nat.mul_one] at hmul
            have : max (topT x.h.wireT) T' ≤ topT x.h.wireT + w := by
              apply Nat.max_le.mpr; constructor <;> omega
            omega
        · rw [List.getElem?_append_right (by omega)] at hq
          have hTT : T = T' := List.eq_of_mem_replicate (List.mem_of_getElem? hq)
          have : topT x.h.wireT ≤ T' := topT_le hold
          have : max (topT x.h.wireT) T' ≤ T' := Nat.max_le.mpr ⟨this, Nat.le_refl _⟩
          have := Nat.zero_le (w * (x.h.wireT.length + out.length - (kq + 1)))
          omega

end Uflow.HcAge
