import Uflow.Lemmas.CrcHD4Def

/-!
Weight 4: no four distinct `u q`, `q < 11776`, xor to zero.  This file contains the only
`native_decide` of the development: it runs the search `hd4Slice 1 hdBits` (about 6.9e7 pairs)
whose soundness is proved in `CrcHD4Def.lean`.
-/

namespace Uflow.Crc

/-- The weight-4 search, run by the compiler/interpreter. -/
theorem hd4_search : hd4Slice 1 hdBits = true := by native_decide

theorem u_xor4_sorted (x y z : Nat) (hx : 0 < x) (hxy : x < y) (hyz : y < z) (hz : z < hdBits) :
    u 0 ^^^ u x ^^^ u y ^^^ u z ≠ 0#32 := by
  rw [Ne, xor_eq_zero_iff]
  exact hd4Slice_sound 1 hdBits hd4_search x y z (by omega) (by omega) hxy (by omega) hz

theorem u_xor4_base (x y z : Nat) (hx : 0 < x) (hy : 0 < y) (hz : 0 < z)
    (hxy : x ≠ y) (hxz : x ≠ z) (hyz : y ≠ z)
    (bx : x < hdBits) (byy : y < hdBits) (bz : z < hdBits) :
    u 0 ^^^ u x ^^^ u y ^^^ u z ≠ 0#32 := by
  intro h
  have hord : (x < y ∧ y < z) ∨ (x < z ∧ z < y) ∨ (y < x ∧ x < z) ∨ (y < z ∧ z < x) ∨
      (z < x ∧ x < y) ∨ (z < y ∧ y < x) := by omega
  rcases hord with ⟨h1, h2⟩ | ⟨h1, h2⟩ | ⟨h1, h2⟩ | ⟨h1, h2⟩ | ⟨h1, h2⟩ | ⟨h1, h2⟩
  · exact u_xor4_sorted x y z hx h1 h2 bz h
  · exact u_xor4_sorted x z y hx h1 h2 byy (by rw [← h]; ac_rfl)
  · exact u_xor4_sorted y x z hy h1 h2 bz (by rw [← h]; ac_rfl)
  · exact u_xor4_sorted y z x hy h1 h2 bx (by rw [← h]; ac_rfl)
  · exact u_xor4_sorted z x y hz h1 h2 byy (by rw [← h]; ac_rfl)
  · exact u_xor4_sorted z y x hz h1 h2 bx (by rw [← h]; ac_rfl)

theorem u_shift (a b : Nat) (h : a ≤ b) : u b = bitSteps a (u (b - a)) := by
  rw [← u_add]; congr 1; omega

theorem u_xor4_min (a b c d : Nat) (hab : a < b) (hac : a < c) (had : a < d)
    (hbc : b ≠ c) (hbd : b ≠ d) (hcd : c ≠ d)
    (bb : b < hdBits) (bc : c < hdBits) (bd : d < hdBits) :
    u a ^^^ u b ^^^ u c ^^^ u d ≠ 0#32 := by
  intro h
  rw [u_shift a a (Nat.le_refl a), u_shift a b (by omega), u_shift a c (by omega),
    u_shift a d (by omega), ← bitSteps_xor, ← bitSteps_xor, ← bitSteps_xor, Nat.sub_self] at h
  have := bitSteps_eq_zero a _ h
  exact u_xor4_base (b - a) (c - a) (d - a) (by omega) (by omega) (by omega) (by omega) (by omega)
    (by omega) (by omega) (by omega) (by omega) this

/-- No four distinct positions below `hdBits` have syndromes that cancel. -/
theorem u_xor4_ne_zero (a b c d : Nat)
    (hab : a ≠ b) (hac : a ≠ c) (had : a ≠ d) (hbc : b ≠ c) (hbd : b ≠ d) (hcd : c ≠ d)
    (ba : a < hdBits) (bb : b < hdBits) (bc : c < hdBits) (bd : d < hdBits) :
    u a ^^^ u b ^^^ u c ^^^ u d ≠ 0#32 := by
  intro h
  have hmin : (a < b ∧ a < c ∧ a < d) ∨ (b < a ∧ b < c ∧ b < d) ∨ (c < a ∧ c < b ∧ c < d) ∨
      (d < a ∧ d < b ∧ d < c) := by omega
  rcases hmin with ⟨h1, h2, h3⟩ | ⟨h1, h2, h3⟩ | ⟨h1, h2, h3⟩ | ⟨h1, h2, h3⟩
  · exact u_xor4_min a b c d h1 h2 h3 hbc hbd hcd bb bc bd h
  · exact u_xor4_min b a c d h1 h2 h3 hac had hcd ba bc bd (by rw [← h]; ac_rfl)
  · exact u_xor4_min c a b d h1 h2 h3 hab had hbd ba bb bd (by rw [← h]; ac_rfl)
  · exact u_xor4_min d a b c h1 h2 h3 hab hac hbc ba bb bc (by rw [← h]; ac_rfl)

end Uflow.Crc
