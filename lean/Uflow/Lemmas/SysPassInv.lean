import Uflow.Lemmas.SysPassLoop
import Uflow.Lemmas.SysThm

/-!
The composed system (C01Sys), part 8: the delivery invariant `PInv` of the system — the ready flags
are live, every packet that was completely received and has lost its data flag is in the log, every
Reliable emitted packet the receive window has passed is in the log — and its preservation by every
step of `stepS`.
-/

namespace Uflow.Sys

open Uflow Uflow.Gen Uflow.Codec Uflow.PSend Uflow.PRecv Uflow.Frag

/-! ### `handle_datagram` and the ready flags -/

theorem tryAdd_ready (s : PRecv.State) (i : Nat) (d : Datagram) (s' : PRecv.State) (o : Option Packet)
    (h : tryAdd s i d = .ok (s', o)) : s'.readyFlags = s.readyFlags := by
  unfold tryAdd at h
  simp only at h
  cases hasm : (getSlot s i).asm with
  | opened =>
    rw [hasm] at h
    simp only at h
    split at h
    · cases h; rfl
    · split at h
      · cases h; rfl
      · split at h
        · cases h
        · cases h; rfl
  | closed a =>
    rw [hasm] at h
    simp only at h
    cases h; rfl
  | active a chan wpl cpl last buf =>
    rw [hasm] at h
    simp only at h
    split at h
    · cases h; rfl
    · split at h
      · cases h
      · split at h
        · cases h; rfl
        · cases h; rfl

theorem hdPost_ready (s1 : PRecv.State) (i : Nat) (d : Datagram) (p : Packet) (cb base : Nat) :
    (hdPost s1 i d p cb base).readyFlags =
      if p.channelParentLead = 0 ∨ p.channelParentLead > pidSub d.sequenceId cb
      then s1.readyFlags.set d.channelId true else s1.readyFlags := by
  have a : ∀ s : PRecv.State, (stepWr d p base s).readyFlags = s.readyFlags := by
    intro s; unfold stepWr
    by_cases hc : p.windowParentLead = 0 ∨ p.windowParentLead > pidSub d.sequenceId base
    · rw [if_pos hc]
    · rw [if_neg hc]
  have b : ∀ s : PRecv.State, (stepRdy d p cb s).readyFlags =
      if p.channelParentLead = 0 ∨ p.channelParentLead > pidSub d.sequenceId cb
      then s.readyFlags.set d.channelId true else s.readyFlags := by
    intro s; unfold stepRdy
    by_cases hc : p.channelParentLead = 0 ∨ p.channelParentLead > pidSub d.sequenceId cb
    · rw [if_pos hc, if_pos hc]
    · rw [if_neg hc, if_neg hc]
  have c : ∀ s : PRecv.State, (stepCnt d s).readyFlags = s.readyFlags := fun _ => rfl
  have e : ∀ s : PRecv.State, (stepEnd d s).readyFlags = s.readyFlags := by
    intro s; unfold stepEnd
    by_cases hc : pidSub d.sequenceId s.endId < s.windowSize
    · rw [if_pos hc]
    · rw [if_neg hc]
  have f : ∀ x : Slot, (setSlot s1 i x).readyFlags = s1.readyFlags := fun _ => rfl
  unfold hdPost
  rw [a, b, c, e, f]

theorem getElem?_set_true_of (l : List Bool) (i c : Nat) (h : l[c]? = some true) :
    (l.set i true)[c]? = some true := by
  rw [List.getElem?_set]
  split
  · rename_i hic
    subst hic
    rw [if_pos (List.getElem?_eq_some_iff.mp h).1]
  · exact h

/-- `handle_datagram` keeps the ready flags live; a slot either ends up with its data flag set or
keeps both of its flags. -/
theorem handleDatagram_pass {W M : Nat} (hW : WOk W) {s s' : PRecv.State} (hinv : Inv W M s) (hr : Rdy W s)
    (d : Datagram) (hd : handleDatagram s d = .ok s') :
    Rdy W s' ∧ s'.baseId = s.baseId ∧
    ∀ k, (lget s'.slots k).dataFlag = true ∨
      ((lget s'.slots k).entryFlag = (lget s.slots k).entryFlag ∧
       (lget s'.slots k).dataFlag = (lget s.slots k).dataFlag) := by
  have hself : Rdy W s ∧ s.baseId = s.baseId ∧ ∀ k, (lget s.slots k).dataFlag = true ∨
      ((lget s.slots k).entryFlag = (lget s.slots k).entryFlag ∧
       (lget s.slots k).dataFlag = (lget s.slots k).dataFlag) := ⟨hr, rfl, fun _ => Or.inr ⟨rfl, rfl⟩⟩
  rw [handleDatagram_eq] at hd
  by_cases hv : datagramIsValid d = true
  case neg => rw [if_pos (by simpa using hv)] at hd; cases hd; exact hself
  rw [if_neg (by simp [hv])] at hd
  obtain ⟨hchan, -, -⟩ := valid_facts d hv
  obtain ⟨ch0, hch0⟩ := hinv.chan_get d.channelId hchan
  rw [chanBase_of_get hch0] at hd
  simp only at hd
  split at hd
  · cases hd; exact hself
  rename_i hlead
  split at hd
  · cases hd; exact hself
  rw [widx_eq hinv] at hd
  rw [hinv.wsz] at hlead
  have hk : pidSub d.sequenceId s.baseId < W := by omega
  have hxlt : d.sequenceId % 2^20 < 2^20 := Nat.mod_lt _ (by decide)
  have hwx : wi W (d.sequenceId % 2^20) = wi W d.sequenceId := wi_mod20 hW _
  have hox : ∀ b, pidSub (d.sequenceId % 2^20) b = pidSub d.sequenceId b := fun b => pidSub_mod20 _ b
  have hsame : ∀ x, x < 2^20 → pidSub x s.baseId < W → wi W x = wi W d.sequenceId →
      x = d.sequenceId % 2^20 := by
    intro x hx hxo hwi
    refine id_eq_of_off x _ s.baseId hx hxlt ?_
    exact off_eq_of_wi hW x _ s.baseId hinv.blt (by rw [hox]; omega) (by rw [hox]; omega) (by rw [hwx]; exact hwi)
  cases ht : tryAdd s (wi W d.sequenceId) d with
  | error t => rw [ht] at hd; cases hd
  | ok r =>
    obtain ⟨s1, o⟩ := r
    rw [ht] at hd
    have hfr := tryAdd_frame s _ d s1 o ht
    have hrf := tryAdd_ready s _ d s1 o ht
    obtain ⟨A, hA⟩ := hfr.same
    have hc1 : ∀ c, cbase s1 c = cbase s c := by intro c; unfold cbase; rw [hfr.chans]
    have hslot1 : ∀ j, (lget s1.slots j).dataFlag = (lget s.slots j).dataFlag ∧
        (lget s1.slots j).entryFlag = (lget s.slots j).entryFlag ∧
        (lget s1.slots j).chan = (lget s.slots j).chan ∧ (lget s1.slots j).cpl = (lget s.slots j).cpl := by
      intro j
      by_cases hj : j = wi W d.sequenceId
      · subst hj; rw [hA]; exact ⟨rfl, rfl, rfl, rfl⟩
      · rw [hfr.other j hj]; exact ⟨rfl, rfl, rfl, rfl⟩
    have hdeliv1 : ∀ x, Deliv W s1 x ↔ Deliv W s x := by
      intro x
      unfold Deliv cbO
      rw [(hslot1 _).2.2.1, (hslot1 _).2.2.2, hc1, hfr.base]
    cases o with
    | none =>
      cases hd
      refine ⟨?_, hfr.base, fun k => Or.inr ⟨(hslot1 k).2.1, (hslot1 k).1⟩⟩
      intro x hx hxo hf hdv
      rw [hfr.base] at hxo
      rw [(hslot1 _).1] at hf
      rw [hrf, (hslot1 _).2.2.1]
      exact hr x hx hxo hf ((hdeliv1 x).mp hdv)
    | some p =>
      simp only at hd
      cases hd
      obtain ⟨hpc, hpl, -⟩ := hfr.pkt p rfl
      obtain ⟨hb2, -, hc2, hs2⟩ := hdPost_facts s1 (wi W d.sequenceId) d p
        ((cbase s d.channelId).getD s.baseId) s.baseId
      have hrdy2 := hdPost_ready s1 (wi W d.sequenceId) d p ((cbase s d.channelId).getD s.baseId) s.baseId
      have hlget2 : ∀ j, lget (hdPost s1 (wi W d.sequenceId) d p
          ((cbase s d.channelId).getD s.baseId) s.baseId).slots j =
          if j = wi W d.sequenceId then { getSlot s1 (wi W d.sequenceId) with
            chan := p.channelId, cpl := p.channelParentLead, wpl := p.windowParentLead, data := p.data,
            entryFlag := true, dataFlag := true } else lget s1.slots j := by
        intro j; rw [hs2, lget_lset]
      rw [hfr.base] at hb2
      generalize hdPost s1 (wi W d.sequenceId) d p ((cbase s d.channelId).getD s.baseId) s.baseId = s2 at *
      have hclt : d.channelId < s.readyFlags.length := by rw [hinv.rlen]; exact hchan
      refine ⟨?_, hb2, ?_⟩
      · intro x hx hxo hf hdv
        rw [hb2] at hxo
        unfold Deliv cbO at hdv
        rw [hlget2] at hf hdv ⊢
        rw [hc2, hc1, hb2] at hdv
        by_cases hwi : wi W x = wi W d.sequenceId
        · rw [if_pos hwi] at hdv ⊢
          simp only at hdv ⊢
          have hxe := hsame x hx hxo hwi
          rw [hpc, hxe, hox] at hdv
          rw [hrdy2, if_pos hdv, hpc, hrf, List.getElem?_set, if_pos rfl, if_pos hclt]
        · rw [if_neg hwi] at hf hdv ⊢
          rw [(hslot1 _).1] at hf
          rw [(hslot1 _).2.2.1, (hslot1 _).2.2.2] at hdv
          rw [(hslot1 _).2.2.1]
          have := hr x hx hxo hf hdv
          rw [hrdy2, hrf]
          split
          · exact getElem?_set_true_of _ _ _ this
          · exact this
      · intro k
        rw [hlget2]
        by_cases hkk : k = wi W d.sequenceId
        · rw [if_pos hkk]; exact Or.inl rfl
        · rw [if_neg hkk]; exact Or.inr ⟨(hslot1 k).2.1, (hslot1 k).1⟩

/-- `handle_datagram` never clears an entry flag. -/
theorem handleDatagram_entry_mono {W M : Nat} {s s' : PRecv.State} (hinv : Inv W M s)
    (d : Datagram) (hd : handleDatagram s d = .ok s') :
    ∀ k, (lget s.slots k).entryFlag = true → (lget s'.slots k).entryFlag = true := by
  rw [handleDatagram_eq] at hd
  by_cases hv : datagramIsValid d = true
  case neg => rw [if_pos (by simpa using hv)] at hd; cases hd; exact fun _ h => h
  rw [if_neg (by simp [hv])] at hd
  obtain ⟨hchan, -, -⟩ := valid_facts d hv
  obtain ⟨ch0, hch0⟩ := hinv.chan_get d.channelId hchan
  rw [chanBase_of_get hch0] at hd
  simp only at hd
  split at hd
  · cases hd; exact fun _ h => h
  split at hd
  · cases hd; exact fun _ h => h
  rw [widx_eq hinv] at hd
  cases ht : tryAdd s (wi W d.sequenceId) d with
  | error t => rw [ht] at hd; cases hd
  | ok r =>
    obtain ⟨s1, o⟩ := r
    rw [ht] at hd
    have hfr := tryAdd_frame s _ d s1 o ht
    obtain ⟨A, hA⟩ := hfr.same
    have hent1 : ∀ j, (lget s1.slots j).entryFlag = (lget s.slots j).entryFlag := by
      intro j
      by_cases hj : j = wi W d.sequenceId
      · subst hj; rw [hA]
      · rw [hfr.other j hj]
    cases o with
    | none => cases hd; intro k h; rw [hent1]; exact h
    | some p =>
      simp only at hd
      cases hd
      obtain ⟨-, -, -, hs2⟩ := hdPost_facts s1 (wi W d.sequenceId) d p
        ((cbase s d.channelId).getD s.baseId) s.baseId
      intro k h
      rw [hs2, lget_lset]
      by_cases hkk : k = wi W d.sequenceId
      · rw [if_pos hkk]
      · rw [if_neg hkk, hent1]; exact h

/-! ### the invariant -/

theorem core_fields' {a b : Slot} (h : core a = core b) : a.entryFlag = b.entryFlag :=
  (congrArg Slot.entryFlag h : (core a).entryFlag = (core b).entryFlag)

/-- `Sys.Recvd` for the packet at emission position `j` with sequence id `seq`, in terms of the window
index function of the proofs: in the log, or passed by the window base, or in the window with its
entry flag. -/
def RecvdW (W : Nat) (g : G) (j seq : Nat) : Prop :=
  (∃ e ∈ g.log, e.uid = j) ∨ j < g.adv ∨
  (j < g.adv + W ∧ (lget g.st.slots (wi W seq)).entryFlag = true)

theorem RecvdW.mono {W : Nat} {g g' : G} {j seq : Nat} (h : RecvdW W g j seq)
    (hlog : ∀ e ∈ g.log, e ∈ g'.log) (hadv : g'.adv = g.adv)
    (hent : (lget g.st.slots (wi W seq)).entryFlag = true → (lget g'.st.slots (wi W seq)).entryFlag = true) :
    RecvdW W g' j seq := by
  rcases h with ⟨e, he, hu⟩ | h | ⟨h1, h2⟩
  · exact Or.inl ⟨e, hlog e he, hu⟩
  · exact Or.inr (Or.inl (by rw [hadv]; exact h))
  · exact Or.inr (Or.inr ⟨by rw [hadv]; exact h1, hent h2⟩)

/-- `RecvdW` survives a window advance (described as in `cinv_advance`). -/
theorem RecvdW.advance {W M : Nat} (hW : WOk W) {b0 adv : Nat} {log log' : List LogE} {s s' : PRecv.State}
    (hinv : Inv W M s) (hbase : s.baseId = (b0 + adv) % 2^20) (hsub : ∀ e ∈ log, e ∈ log') (nb : Nat)
    (hδ : pidSub nb s.baseId ≤ W)
    (hA : ∀ k, (∀ id, id < 2^20 → pidSub id s.baseId < pidSub nb s.baseId → wi W id ≠ k) →
        core (lget s'.slots k) = core (lget s.slots k)) {j : Nat}
    (hr : RecvdW W ⟨s, adv, log⟩ j (pidAdd b0 j)) :
    RecvdW W ⟨s', adv + pidSub nb s.baseId, log'⟩ j (pidAdd b0 j) := by
  rcases hr with ⟨e, he, hu⟩ | h | ⟨h1, h2⟩
  · exact Or.inl ⟨e, hsub e he, hu⟩
  · exact Or.inr (Or.inl (by show j < adv + _; have : j < adv := h; omega))
  · have h1' : j < adv + W := h1
    have h2' : (lget s.slots (wi W (pidAdd b0 j))).entryFlag = true := h2
    rcases Nat.lt_or_ge j (adv + pidSub nb s.baseId) with hlt | hge
    · exact Or.inr (Or.inl hlt)
    · refine Or.inr (Or.inr ⟨by show j < adv + _ + W; omega, ?_⟩)
      show (lget s'.slots (wi W (pidAdd b0 j))).entryFlag = true
      have hoff : pidSub (pidAdd b0 j) s.baseId = j - adv := by
        rw [hbase]; exact off_arith b0 adv j (by omega) (by have := hW.le; omega)
      have hcore := hA (wi W (pidAdd b0 j)) (by
        intro id hid hido hwi
        have := off_eq_of_wi hW id (pidAdd b0 j) s.baseId hinv.blt (by omega) (by omega) hwi
        omega)
      rw [(core_fields' hcore)]
      exact h2'

/-- A packet that was completely received (entry flag) and is no longer held (no data flag) was
taken out of the window: it is in the log, under its unwrapped id. -/
def Ent (W adv : Nat) (log : List LogE) (st : PRecv.State) : Prop :=
  ∀ x, x < 2^20 → pidSub x st.baseId < W → (lget st.slots (wi W x)).entryFlag = true →
    (lget st.slots (wi W x)).dataFlag = true ∨ ∃ e ∈ log, e.uid = adv + pidSub x st.baseId

/-- The delivery invariant of the system. -/
structure PInv (W : Nat) (s : Sys) : Prop where
  rdy : Rdy W s.rcv.st
  ent : Ent W s.rcv.adv s.rcv.log s.rcv.st
  /-- every Reliable emitted packet the receive window has passed is in the log -/
  passed : ∀ j x, s.hist.emitted[j]? = some x → x.mode = .reliable → j < s.rcv.adv →
    ∃ e ∈ s.rcv.log, e.uid = j
  /-- … and was there before any packet taken out of the window after the base had passed it -/
  hist : ∀ l1 e l2, s.rcv.log = l1 ++ e :: l2 → ∀ j x, s.hist.emitted[j]? = some x →
    x.mode = .reliable → j < e.wb → ∃ e' ∈ l1, e'.uid = j
  /-- every Reliable packet emitted before a recorded `sync` step has been completely received -/
  sync : ∀ n id, (n, id) ∈ s.syncs → ∀ j x, s.hist.emitted[j]? = some x → x.mode = .reliable → j < n →
    RecvdW W s.rcv j x.sequenceId

theorem pinv_init (w W b a m : Nat) : PInv W (initS w W b a m) where
  rdy := by intro x _ _ hf; exact absurd hf (by simp [initS, initG, PRecv.init, lget])
  ent := by intro x _ _ hf; exact absurd hf (by simp [initS, initG, PRecv.init, lget])
  passed := by intro j x _ _ hj; exact absurd hj (Nat.not_lt_zero _)
  hist := by
    intro l1 e l2 hl
    have : ([] : List LogE) = l1 ++ e :: l2 := hl
    cases l1 <;> cases this
  sync := by intro n id hm; cases hm

/-- Steps that leave the receiver's window base, `adv` and the log alone and only extend `emitted`. -/
theorem PInv.frame {b0 w W M : Nat} {s s' : Sys} (p : PInv W s) (h : SInv b0 w W M s)
    (hrdy : Rdy W s'.rcv.st) (hent : Ent W s.rcv.adv s.rcv.log s'.rcv.st)
    (hadv : s'.rcv.adv = s.rcv.adv) (hlog : s'.rcv.log = s.rcv.log)
    (hem : ∃ more, s'.hist.emitted = s.hist.emitted ++ more) (hsy : s'.syncs = s.syncs)
    (hmono : ∀ k, (lget s.rcv.st.slots k).entryFlag = true → (lget s'.rcv.st.slots k).entryFlag = true) :
    PInv W s' := by
  obtain ⟨more, hem⟩ := hem
  have hold' : ∀ j x, j < s.hist.emitted.length → s'.hist.emitted[j]? = some x →
      s.hist.emitted[j]? = some x := by
    intro j x hj hx
    rw [hem, List.getElem?_append_left hj] at hx
    exact hx
  have hold : ∀ j x, j < s.rcv.adv → s'.hist.emitted[j]? = some x → s.hist.emitted[j]? = some x :=
    fun j x hj hx => hold' j x (by have := h.hi; omega) hx
  refine ⟨hrdy, by rw [hadv, hlog]; exact hent, ?_, ?_, ?_⟩
  rotate_left 2
  · intro n id hm j x hx hrel hj
    rw [hsy] at hm
    have hn := (h.syncs n id hm).1
    exact (p.sync n id hm j x (hold' j x (by omega) hx) hrel hj).mono (by rw [hlog]; exact fun _ h => h) hadv
      (hmono _)
  · intro j x hx hrel hj
    rw [hadv] at hj
    rw [hlog]
    exact p.passed j x (hold j x hj hx) hrel hj
  · intro l1 e l2 hl j x hx hrel hj
    rw [hlog] at hl
    have hwb := (h.rcv.gi.gwin e (by rw [hl]; simp)).2.2
    exact p.hist l1 e l2 hl j x (hold j x (by omega) hx) hrel hj

/-! ### honest leads, as the receiver sees them -/

theorem hon_of_sinv {b0 w W M : Nat} (hw : w ≤ 2^16) {s : Sys} (h : SInv b0 w W M s) : Hon W s.rcv.st := by
  intro x y hx hy hxy hyo hfx hfy hc hne hle
  obtain ⟨px, hpx, cx1, cx2, -, -⟩ := (h.cinv x hx (by omega)).data hfx
  obtain ⟨py, hpy, cy1, cy2, -, -⟩ := (h.cinv y hy hyo).data hfy
  obtain ⟨-, ex, hex, -, ex2, -, -, ex5, -⟩ := h.snd.plink _ px hpx
  obtain ⟨-, ey, hey, -, ey2, -, -, ey5, -⟩ := h.snd.plink _ py hpy
  obtain ⟨-, lx, lx3, -, -⟩ := h.snd.hinv.leads _ ex hex
  obtain ⟨-, ly, ly3, -, -⟩ := h.snd.hinv.leads _ ey hey
  have hby := h.snd.ebase ey (List.mem_of_getElem? hey)
  have huy : ey.uid = _ := (h.snd.hinv.ids _ ey hey).1
  have hlo := h.lo
  rw [cx2, ← ex5] at hne hle ⊢
  rw [cy2, ← ey5]
  generalize pidSub ex.sequenceId ex.baseAt = outx at *
  generalize pidSub ey.sequenceId ey.baseAt = outy at *
  obtain ⟨-, a2, -, a4⟩ := lx.exact (by omega)
  obtain ⟨b1, b2, b3, b4⟩ := ly.exact (by omega)
  obtain ⟨z, hz, hPz, -⟩ := a4 hne
  have hPz' : relChanP ey.channelId z := ⟨hPz.1, by rw [hPz.2, ex2, ← cx1, hc, cy1, ← ey2]⟩
  generalize hgux : s.rcv.adv + pidSub x s.rcv.st.baseId = ux at *
  generalize hguy : s.rcv.adv + pidSub y s.rcv.st.baseId = uy at *
  have hne2 : ey.channelParentLead ≠ 0 := by
    intro h0
    exact (b3.mp h0) _ z hz (by omega) (by omega) hPz'
  refine ⟨hne2, ?_⟩
  obtain ⟨z', -, -, hnone⟩ := b4 hne2
  rcases Nat.lt_or_ge (uy - ey.channelParentLead) (ux - ex.channelParentLead) with hlt | hge
  · exact absurd hPz' (hnone _ z hz hlt (by omega))
  · omega

/-- An undelivered packet that fails the delivery test waits for a Reliable packet of its channel
that the channel has not reached yet. -/
theorem blocked_parent {b0 w W M : Nat} (hw : w ≤ 2^16) {s : Sys} (hsnd : SndInv b0 w s) {adv : Nat}
    {st : PRecv.State} (hinv : Inv W M st) (hord : Ord W st) (hc : CInv W s.pend adv st)
    (x : Nat) (hx : x < 2^20) (hxo : pidSub x st.baseId < W)
    (hf : (lget st.slots (wi W x)).dataFlag = true) (hnd : ¬ Deliv W st x) :
    ∃ jp y, s.hist.emitted[jp]? = some y ∧ y.mode = .reliable ∧
      y.channelId = (lget st.slots (wi W x)).chan ∧
      adv + pidSub (cbO st (lget st.slots (wi W x)).chan) st.baseId ≤ jp ∧
      jp + (lget st.slots (wi W x)).cpl = adv + pidSub x st.baseId ∧ (lget st.slots (wi W x)).cpl ≠ 0 := by
  obtain ⟨n1, n2⟩ := not_deliv_off hinv hord x hx hxo hf hnd
  obtain ⟨px, hpx, cx1, cx2, -, -⟩ := (hc x hx hxo).data hf
  obtain ⟨-, ex, hex, -, ex2, -, -, ex5, -⟩ := hsnd.plink _ px hpx
  obtain ⟨-, lx, lx3, -, -⟩ := hsnd.hinv.leads _ ex hex
  rw [cx2, ← ex5] at n1 n2 ⊢
  generalize pidSub ex.sequenceId ex.baseAt = outx at *
  obtain ⟨-, a2, -, a4⟩ := lx.exact (by omega)
  obtain ⟨z, hz, hPz, -⟩ := a4 n1
  exact ⟨_, z, hz, hPz.1, by rw [hPz.2, ex2, ← cx1], by omega, by omega, n1⟩

/-! ### a window advance -/

theorem core_fields {a b : Slot} (h : core a = core b) :
    a.entryFlag = b.entryFlag ∧ a.dataFlag = b.dataFlag ∧ a.chan = b.chan ∧ a.cpl = b.cpl ∧
    a.asm = b.asm ∧ a.data = b.data :=
  ⟨(congrArg Slot.entryFlag h : (core a).entryFlag = (core b).entryFlag),
   (congrArg Slot.dataFlag h : (core a).dataFlag = (core b).dataFlag),
   (congrArg Slot.chan h : (core a).chan = (core b).chan),
   (congrArg Slot.cpl h : (core a).cpl = (core b).cpl),
   (congrArg Slot.asm h : (core a).asm = (core b).asm),
   (congrArg Slot.data h : (core a).data = (core b).data)⟩

theorem ent_advance {W M : Nat} (hW : WOk W) {adv : Nat} {log : List LogE} {s s' : PRecv.State}
    (hinv : Inv W M s) (he : Ent W adv log s) (nb : Nat) (hnb : nb < 2^20)
    (hδ : pidSub nb s.baseId ≤ W) (hbase : s'.baseId = nb)
    (hA : ∀ k, (∀ id, id < 2^20 → pidSub id s.baseId < pidSub nb s.baseId → wi W id ≠ k) →
        core (lget s'.slots k) = core (lget s.slots k))
    (hB : ∀ id, id < 2^20 → pidSub id s.baseId < pidSub nb s.baseId →
        (lget s'.slots (wi W id)).entryFlag = false ∧ (lget s'.slots (wi W id)).dataFlag = false ∧
        (lget s'.slots (wi W id)).asm = .opened) :
    Ent W (adv + pidSub nb s.baseId) log s' := by
  have hle := hW.le
  have hblt := hinv.blt
  intro x hx hxo hen
  rw [hbase] at hxo ⊢
  have hun := off_unshift x s.baseId nb hblt hnb (by omega)
  rcases Nat.lt_or_ge (pidSub x s.baseId) W with hlt | hge
  · have hcore := hA (wi W x) (by
      intro id hid hido hwi
      have := off_eq_of_wi hW id x s.baseId hblt (by omega) (by omega) hwi
      omega)
    obtain ⟨e1, e2, -⟩ := core_fields hcore
    rw [e1] at hen
    rw [e2]
    rcases he x hx hlt hen with h1 | ⟨e, hm, hu⟩
    · exact Or.inl h1
    · exact Or.inr ⟨e, hm, by omega⟩
  · exfalso
    have hidlt : pidSub x W < 2^20 := pidSub_lt _ _
    have hido : pidSub (pidSub x W) s.baseId + W = pidSub x s.baseId := by
      have h1 := pidSub_cases x s.baseId hx hblt
      have h2 := pidSub_cases (pidSub x W) s.baseId hidlt hblt
      have h3 := pidSub_cases x W hx (by omega)
      omega
    have hwi := wi_eq_of_off_add hW x _ s.baseId hblt hido.symm
    obtain ⟨b1, -, -⟩ := hB (pidSub x W) hidlt (by omega)
    rw [hwi, b1] at hen
    cases hen

theorem done_advance {W M : Nat} (hW : WOk W) {s s' : PRecv.State} (hinv : Inv W M s) (hord : Ord W s)
    (hd : Done W s) (nb : Nat) (hnb : nb < 2^20) (hδ : pidSub nb s.baseId ≤ W) (F : AdvFacts W s s' nb)
    (hA : ∀ k, (∀ id, id < 2^20 → pidSub id s.baseId < pidSub nb s.baseId → wi W id ≠ k) →
        core (lget s'.slots k) = core (lget s.slots k))
    (hpar : ∀ x, x < 2^20 → pidSub x s.baseId < W → pidSub nb s.baseId ≤ pidSub x s.baseId →
      (lget s.slots (wi W x)).dataFlag = true → ¬ Deliv W s x →
      pidSub nb s.baseId + (lget s.slots (wi W x)).cpl ≤ pidSub x s.baseId) : Done W s' := by
  intro x hx hxo hf hdv
  rw [F.base] at hxo
  obtain ⟨h1, h2, h3⟩ := adv_inwin hW hinv nb hnb hδ F x hx hxo hf
  have hcore := hA (wi W x) (F.flag _ hf).2
  obtain ⟨-, -, e1, e2, -⟩ := core_fields hcore
  have hnd := hd x hx h2 h3
  obtain ⟨n1, -⟩ := not_deliv_off hinv hord x hx h2 h3 hnd
  have hp := hpar x hx h2 (by omega) h3 hnd
  unfold Deliv cbO at hdv
  rw [e1, e2] at hdv
  cases hcb : cbase s' (lget s.slots (wi W x)).chan with
  | none =>
    rw [hcb, F.base] at hdv
    simp only [Option.getD_none] at hdv
    omega
  | some b =>
    rw [hcb] at hdv
    simp only [Option.getD_some] at hdv
    obtain ⟨hcs, -⟩ := F.csome _ b hcb
    apply hnd
    unfold Deliv cbO
    rw [hcs]
    exact hdv

/-! ### `receive` -/

theorem pinv_recv {b0 w W M : Nat} (hW : WOk W) (hw : w ≤ 2^16) {s s' : Sys} (h : SInv b0 w W M s)
    (p : PInv W s) (hs : stepS s .recv = .ok s') : PInv W s' := by
  have h' : SInv b0 w W M s' := sinv_recv hW h hs
  have hs0 := hs
  simp only [stepS] at hs
  cases hg : stepT s.rcv .recv with
  | error t => rw [hg] at hs; cases hs
  | ok g =>
    rw [hg, bindR_ok] at hs
    cases hs
    rw [stepT_recv] at hg
    cases hr : receiveT s.rcv.st with
    | error t => rw [hr] at hg; cases hg
    | ok pr =>
      rw [hr, bindR_ok] at hg
      cases hg
      have hr' : receiveT s.rcv.st = .ok (pr.1, pr.2) := hr
      have hadv : s.rcv.adv ≤ s.pend.length := by rw [h.snd.plen]; exact h.hi
      obtain ⟨-, -, -, hδW⟩ := receiveT_cinv hW h.rcv.inv h.rcv.ord h.rcv.gi h.cinv hadv hr'
      obtain ⟨s1, hinv1, hord1, hgi1, hsh, hdone, htaken, -, hcase⟩ :=
        receiveT_parts hW h.rcv.inv h.rcv.ord h.rcv.gi p.rdy (hon_of_sinv hw h) hr'
      have hc1 : CInv W s.pend s.rcv.adv s1 := cinv_shrunk h.cinv hsh
      have hblt := h.rcv.inv.blt
      have hew := h.rcv.ord.ewin
      -- the log after the call
      generalize hlog1 : s.rcv.log ++ pr.2.map (lift s.rcv.adv s.rcv.st.baseId) = log1 at *
      have hsub : ∀ e ∈ s.rcv.log, e ∈ log1 := by
        intro e he; rw [← hlog1]; exact List.mem_append.mpr (Or.inl he)
      have ent1 : Ent W s.rcv.adv log1 s1 := by
        intro x hx hxo hen
        rw [hsh.base] at hxo ⊢
        rw [hsh.entry] at hen
        rcases p.ent x hx hxo hen with hf | ⟨e, he, hu⟩
        · rcases htaken _ hf with hf1 | ⟨ev, hev, e1, e2, e3⟩
          · exact Or.inl hf1
          · right
            refine ⟨lift s.rcv.adv s.rcv.st.baseId ev, ?_, ?_⟩
            · rw [← hlog1]; exact List.mem_append.mpr (Or.inr (List.mem_map.mpr ⟨ev, hev, rfl⟩))
            · show s.rcv.adv + pidSub ev.seq s.rcv.st.baseId = _
              rw [off_eq_of_wi hW ev.seq x s.rcv.st.baseId hblt (by omega) (by omega) e3]
        · exact Or.inr ⟨e, hsub e he, hu⟩
      have hlogchan : ∀ e ∈ log1, ∃ em, s.hist.emitted[e.uid]? = some em ∧ e.chan = em.channelId := by
        intro e he
        obtain ⟨p0, hp0, c1, -⟩ := h'.log e he
        obtain ⟨-, em, hem, -, e2, -⟩ := h'.snd.plink e.uid p0 hp0
        exact ⟨em, hem, by rw [c1, e2]⟩
      -- a delivered packet is behind its channel's base
      have hbeyond : ∀ e ∈ log1, ∀ y, s.hist.emitted[e.uid]? = some y →
          e.uid < s.rcv.adv + pidSub (cbO s1 y.channelId) s1.baseId := by
        intro e he y hy
        obtain ⟨em, hem, hch⟩ := hlogchan e he
        rw [hy] at hem; cases hem
        have := hgi1.glt e he
        rw [hch] at this
        exact this
      -- every Reliable packet the base passes in this call is in the log
      have P : ∀ j x, s.hist.emitted[j]? = some x → x.mode = .reliable → s.rcv.adv ≤ j →
          j < s.rcv.adv + pidSub pr.1.baseId s.rcv.st.baseId → ∃ e ∈ log1, e.uid = j := by
        intro j
        induction j using Nat.strongRecOn with
        | _ j ih =>
          intro x hx hrel h1 h2
          have hen := window_waits hW hw h hs0 j x hx hrel h1 h2
          have hoff := off_arith b0 s.rcv.adv j h1 (by have := hW.le; omega)
          rw [← h.rcv.gi.gbase] at hoff
          have hxj := PRecv.pidAdd_lt b0 j
          rw [← hsh.entry] at hen
          rcases ent1 _ hxj (by rw [hsh.base, hoff]; omega) hen with hf | ⟨e, he, hu⟩
          · exfalso
            have hxo1 : pidSub (pidAdd b0 j) s1.baseId < W := by rw [hsh.base, hoff]; omega
            have hnd := hdone _ hxj hxo1 hf
            obtain ⟨jp, y, hy, hyrel, hych, q1, q2, q3⟩ :=
              blocked_parent hw h.snd hinv1 hord1 hc1 _ hxj hxo1 hf hnd
            rw [hsh.base, hoff] at q2
            obtain ⟨e, he, hu⟩ := ih jp (by omega) y hy hyrel (by omega) (by omega)
            have := hbeyond e he y (by rw [hu]; exact hy)
            rw [hych, hu] at this
            omega
          · exact ⟨e, he, by rw [hu, hsh.base, hoff]; omega⟩
      -- assemble
      have hpassed : ∀ j x, s.hist.emitted[j]? = some x → x.mode = .reliable →
          j < s.rcv.adv + pidSub pr.1.baseId s.rcv.st.baseId → ∃ e ∈ log1, e.uid = j := by
        intro j x hx hrel hj
        rcases Nat.lt_or_ge j s.rcv.adv with hlt | hge
        · obtain ⟨e, he, hu⟩ := p.passed j x hx hrel hlt
          exact ⟨e, hsub e he, hu⟩
        · exact P j x hx hrel hge hj
      have hhist : ∀ l1 e l2, log1 = l1 ++ e :: l2 → ∀ j x, s.hist.emitted[j]? = some x →
          x.mode = .reliable → j < e.wb → ∃ e' ∈ l1, e'.uid = j := by
        intro l1 e l2 hl j x hx hrel hj
        rw [← hlog1] at hl
        have hnew : ∀ a', l1 = s.rcv.log ++ a' → e ∈ pr.2.map (lift s.rcv.adv s.rcv.st.baseId) →
            ∃ e' ∈ l1, e'.uid = j := by
          intro a' hl1 hmem
          obtain ⟨ev, -, rfl⟩ := List.mem_map.mp hmem
          obtain ⟨e', he', hu⟩ := p.passed j x hx hrel hj
          exact ⟨e', by rw [hl1]; exact List.mem_append.mpr (Or.inl he'), hu⟩
        rcases List.append_eq_append_iff.mp hl with ⟨a', h1, h2⟩ | ⟨c', h1, h2⟩
        · exact hnew a' h1 (by rw [h2]; simp)
        · cases c' with
          | nil =>
            rw [List.append_nil] at h1
            rw [List.nil_append] at h2
            exact hnew [] (by rw [List.append_nil, h1]) (by rw [← h2]; simp)
          | cons e0 c'' =>
            simp only [List.cons_append, List.cons.injEq] at h2
            obtain ⟨rfl, -⟩ := h2
            exact p.hist l1 e c'' h1 j x hx hrel hj
      -- the recorded syncs, after the delivery pass
      have hsync1 : ∀ n id, (n, id) ∈ s.syncs → ∀ j x, s.hist.emitted[j]? = some x → x.mode = .reliable →
          j < n → RecvdW W ⟨s1, s.rcv.adv, log1⟩ j (pidAdd b0 j) := by
        intro n id hm j x hx hrel hj
        have := p.sync n id hm j x hx hrel hj
        rw [(h.snd.hinv.ids j x hx).2.1] at this
        exact this.mono hsub rfl (fun hen => by rw [hsh.entry]; exact hen)
      rcases hcase with ⟨-, heq⟩ | ⟨nb, hnb, hnbW, hadvw⟩
      · have heq' : pr.1 = s1 := heq
        have hz : pidSub pr.1.baseId s.rcv.st.baseId = 0 := by rw [heq', hsh.base, pidSub_self]
        refine ⟨?_, ?_, hpassed, hhist, ?_⟩
        rotate_left 2
        · intro n id hm j x hx hrel hj
          rw [(h.snd.hinv.ids j x hx).2.1]
          show RecvdW W ⟨pr.1, s.rcv.adv + pidSub pr.1.baseId s.rcv.st.baseId, log1⟩ j (pidAdd b0 j)
          rw [hz, Nat.add_zero, heq']
          exact hsync1 n id hm j x hx hrel hj
        · show Rdy W pr.1
          rw [heq']
          intro x hx hxo hf hd
          exact absurd hd (hdone x hx hxo hf)
        · show Ent W (s.rcv.adv + pidSub pr.1.baseId s.rcv.st.baseId) log1 pr.1
          rw [hz, Nat.add_zero, heq']
          exact ent1
      · have hinv1' := hinv1.setWindowReady false
        have hord1' : Ord W { s1 with windowReady := false } := hord1.congr rfl rfl rfl rfl
        have hδ : pidSub nb ({ s1 with windowReady := false } : PRecv.State).baseId ≤ W := by
          show pidSub nb s1.baseId ≤ W; rw [hsh.base]; exact hnbW
        have F := advanceWindow_facts hW hinv1' hord1' nb hnb hδ hadvw
        obtain ⟨hA, hB⟩ := advanceWindow_core hW hinv1' hord1' nb hnb hδ hadvw
        have hbe : pr.1.baseId = nb := F.base
        have hdone' : Done W { s1 with windowReady := false } := hdone
        have ent1' : Ent W s.rcv.adv log1 { s1 with windowReady := false } := ent1
        have hdone2 : Done W pr.1 := by
          refine done_advance hW hinv1' hord1' hdone' nb hnb hδ F hA ?_
          intro x hx hxo hge hf hnd
          have hxo1 : pidSub x s1.baseId < W := hxo
          have hge1 : pidSub nb s1.baseId ≤ pidSub x s1.baseId := hge
          have hf1 : (lget s1.slots (wi W x)).dataFlag = true := hf
          have hnd1 : ¬ Deliv W s1 x := hnd
          show pidSub nb s1.baseId + (lget s1.slots (wi W x)).cpl ≤ pidSub x s1.baseId
          obtain ⟨jp, y, hy, hyrel, hych, q1, q2, q3⟩ :=
            blocked_parent hw h.snd hinv1 hord1 hc1 x hx hxo1 hf1 hnd1
          rcases Nat.lt_or_ge jp (s.rcv.adv + pidSub nb s1.baseId) with hlt | hge2
          · exfalso
            obtain ⟨e, he, hu⟩ := P jp y hy hyrel (by omega) (by rw [hbe, ← hsh.base]; exact hlt)
            have := hbeyond e he y (by rw [hu]; exact hy)
            rw [hych, hu] at this
            omega
          · omega
        refine ⟨?_, ?_, hpassed, hhist, ?_⟩
        rotate_left 2
        · intro n id hm j x hx hrel hj
          rw [(h.snd.hinv.ids j x hx).2.1]
          show RecvdW W ⟨pr.1, s.rcv.adv + pidSub pr.1.baseId s.rcv.st.baseId, log1⟩ j (pidAdd b0 j)
          have hA1 : ∀ k, (∀ id, id < 2^20 → pidSub id s1.baseId < pidSub nb s1.baseId → wi W id ≠ k) →
              core (lget pr.1.slots k) = core (lget s1.slots k) := hA
          have := (hsync1 n id hm j x hx hrel hj).advance hW hinv1
            (by rw [hsh.base]; exact h.rcv.gi.gbase) (fun _ he => he) nb
            (by rw [hsh.base]; exact hnbW) hA1
          rw [hbe, ← hsh.base]
          exact this
        · show Rdy W pr.1
          intro x hx hxo hf hd
          exact absurd hd (hdone2 x hx hxo hf)
        · show Ent W (s.rcv.adv + pidSub pr.1.baseId s.rcv.st.baseId) log1 pr.1
          have := ent_advance hW hinv1' ent1' nb hnb hδ F.base hA hB
          rw [hbe, ← hsh.base]
          exact this

/-! ### the other steps -/

theorem pinv_deliver {b0 w W M : Nat} (hW : WOk W) {s s' : Sys} (h : SInv b0 w W M s) (p : PInv W s)
    (k : Nat) (hs : stepS s (.deliver k) = .ok s') : PInv W s' := by
  simp only [stepS] at hs
  split at hs
  · cases hs; exact p
  · rename_i i d hk
    split at hs
    · rw [stepT_dg] at hs
      cases hd : handleDatagram s.rcv.st d with
      | error t => rw [hd] at hs; cases hs
      | ok st' =>
        rw [hd, bindR_ok, bindR_ok] at hs
        cases hs
        obtain ⟨hrdy, hbase, hflags⟩ := handleDatagram_pass hW h.rcv.inv p.rdy d hd
        refine p.frame h hrdy ?_ rfl rfl ⟨[], (List.append_nil _).symm⟩ rfl
          (handleDatagram_entry_mono h.rcv.inv d hd)
        intro x hx hxo hen
        have hxo' : pidSub x st'.baseId < W := hxo
        have hen' : (lget st'.slots (wi W x)).entryFlag = true := hen
        show (lget st'.slots (wi W x)).dataFlag = true ∨ ∃ e ∈ s.rcv.log, e.uid = s.rcv.adv + pidSub x st'.baseId
        rw [hbase] at hxo' ⊢
        rcases hflags (wi W x) with hf | ⟨e1, e2⟩
        · exact Or.inl hf
        · rw [e1] at hen'
          rw [e2]
          exact p.ent x hx hxo' hen'
    · cases hs; exact p

/-! ### `sync` and `resync` -/

theorem pinv_sync {b0 w W M : Nat} {s s' : Sys} (h : SInv b0 w W M s) (p : PInv W s)
    (hs : stepS s .sync = .ok s') : PInv W s' := by
  simp only [stepS] at hs
  split at hs
  · rename_i hok
    cases hs
    refine ⟨p.rdy, p.ent, p.passed, p.hist, ?_⟩
    intro n id hm j x hx hrel hj
    have hm' : (n, id) ∈ s.syncs ++ [(s.hist.emitted.length, s.snd.nextId)] := hm
    rcases List.mem_append.mp hm' with hm' | hm'
    · exact p.sync n id hm' j x hx hrel hj
    · have hr := hok x (List.mem_of_getElem? hx) hrel
      unfold Recvd at hr
      rw [(h.snd.hinv.ids j x hx).1, widx_eq h.rcv.inv, getSlot_eq, h.rcv.inv.wsz] at hr
      exact hr
  · cases hs; exact p

/-- A window advance that passes no entry flag and stays below a recorded sync value passes a
Reliable packet only if that packet is in the log already. -/
theorem resync_rel_logged {b0 w W M : Nat} (hW : WOk W) {s : Sys} (h : SInv b0 w W M s) (p : PInv W s)
    (n id : Nat) (hmem : (n, id) ∈ s.syncs) (nb : Nat)
    (hle : s.rcv.adv + pidSub nb s.rcv.st.baseId ≤ n) (hδ : pidSub nb s.rcv.st.baseId ≤ W)
    (hno : ∀ x, x < 2^20 → pidSub x s.rcv.st.baseId < pidSub nb s.rcv.st.baseId →
      (lget s.rcv.st.slots (wi W x)).entryFlag = false) :
    ∀ j x, s.hist.emitted[j]? = some x → x.mode = .reliable → s.rcv.adv ≤ j →
      j < s.rcv.adv + pidSub nb s.rcv.st.baseId → ∃ e ∈ s.rcv.log, e.uid = j := by
  intro j x hx hrel h1 h2
  have hWle := hW.le
  rcases p.sync n id hmem j x hx hrel (by omega) with h3 | h3 | ⟨-, h4⟩
  · exact h3
  · omega
  · exfalso
    have hoff := off_arith b0 s.rcv.adv j h1 (by omega)
    rw [← h.rcv.gi.gbase] at hoff
    have := hno (pidAdd b0 j) (PRecv.pidAdd_lt _ _) (by rw [hoff]; omega)
    rw [(h.snd.hinv.ids j x hx).2.1, this] at h4
    cases h4

theorem pinv_resync {b0 w W M : Nat} (hW : WOk W) (hw : w ≤ 2^16) {s s' : Sys} (h : SInv b0 w W M s)
    (p : PInv W s) (k : Nat) (hs : stepS s (.resync k) = .ok s') : PInv W s' := by
  simp only [stepS] at hs
  split at hs
  · cases hs; exact p
  · rename_i n id hk
    split at hs
    · rename_i hfresh
      rw [stepT_resync] at hs
      cases hr : resynchronize s.rcv.st id with
      | error t => rw [hr] at hs; cases hs
      | ok st' =>
        rw [hr, bindR_ok, bindR_ok] at hs
        cases hs
        have hmem := List.mem_of_getElem? hk
        rcases resync_cases (by omega) h n id hmem hfresh st' hr with rfl | ⟨nb, hnb, hle, hδ, hadv, hno⟩
        · rw [pidSub_self]
          exact p.frame h p.rdy p.ent rfl rfl ⟨[], (List.append_nil _).symm⟩ rfl (fun _ h => h)
        · have hinv := h.rcv.inv
          have hord := h.rcv.ord
          have F := advanceWindow_facts hW hinv hord nb hnb hδ hadv
          obtain ⟨hA, hB⟩ := advanceWindow_core hW hinv hord nb hnb hδ hadv
          obtain ⟨hrf, -⟩ := advanceWindow_rdy hinv nb hnb hadv
          have hbe : st'.baseId = nb := F.base
          have hWle := hW.le
          -- every Reliable packet the base passes is in the log: the loop passes no entry flag
          have P := resync_rel_logged hW h p n id hmem nb hle hδ hno
          have hlogchan : ∀ e ∈ s.rcv.log, ∀ y, s.hist.emitted[e.uid]? = some y →
              e.uid < s.rcv.adv + pidSub (cbO s.rcv.st y.channelId) s.rcv.st.baseId := by
            intro e he y hy
            obtain ⟨p0, hp0, c1, -⟩ := h.log e he
            obtain ⟨-, em, hem, -, e2, -⟩ := h.snd.plink e.uid p0 hp0
            rw [hy] at hem; cases hem
            have := h.rcv.gi.glt e he
            rw [c1, ← e2] at this
            exact this
          refine ⟨?_, ?_, ?_, p.hist, ?_⟩
          · -- the ready flags stay live
            show Rdy W st'
            intro x hx hxo hf hd
            rw [hbe] at hxo
            obtain ⟨i1, i2, i3⟩ := adv_inwin hW hinv nb hnb hδ F x hx hxo hf
            have hcore := hA (wi W x) (F.flag _ hf).2
            obtain ⟨-, -, e1, e2, -⟩ := core_fields hcore
            rw [hrf, e1]
            apply p.rdy x hx i2 i3
            apply Classical.byContradiction
            intro hnd
            obtain ⟨jp, y, hy, hyrel, hych, q1, q2, q3⟩ :=
              blocked_parent hw h.snd hinv hord h.cinv x hx i2 i3 hnd
            unfold Deliv cbO at hd
            rw [e1, e2] at hd
            cases hcb : cbase st' (lget s.rcv.st.slots (wi W x)).chan with
            | none =>
              rw [hcb, hbe] at hd
              simp only [Option.getD_none] at hd
              have hjp : jp < s.rcv.adv + pidSub nb s.rcv.st.baseId := by omega
              obtain ⟨e, he, hu⟩ := P jp y hy hyrel (by omega) hjp
              have := hlogchan e he y (by rw [hu]; exact hy)
              rw [hych, hu] at this
              omega
            | some b =>
              rw [hcb] at hd
              simp only [Option.getD_some] at hd
              obtain ⟨hcs, -⟩ := F.csome _ b hcb
              apply hnd
              unfold Deliv cbO
              rw [hcs]
              exact hd
          · show Ent W (s.rcv.adv + pidSub st'.baseId s.rcv.st.baseId) s.rcv.log st'
            rw [hbe]
            exact ent_advance hW hinv p.ent nb hnb hδ F.base hA hB
          · intro j x hx hrel hj
            have hj' : j < s.rcv.adv + pidSub st'.baseId s.rcv.st.baseId := hj
            rw [hbe] at hj'
            rcases Nat.lt_or_ge j s.rcv.adv with hlt | hge
            · exact p.passed j x hx hrel hlt
            · exact P j x hx hrel hge hj'
          · intro n' id' hm' j x hx hrel hj
            rw [(h.snd.hinv.ids j x hx).2.1]
            show RecvdW W ⟨st', s.rcv.adv + pidSub st'.baseId s.rcv.st.baseId, s.rcv.log⟩ j (pidAdd b0 j)
            have := p.sync n' id' hm' j x hx hrel hj
            rw [(h.snd.hinv.ids j x hx).2.1] at this
            rw [hbe]
            exact RecvdW.advance hW hinv h.rcv.gi.gbase (fun _ he => he) nb hδ hA this
    · cases hs; exact p

theorem pinv_step {b0 w W M : Nat} (hW : WOk W) (hw : w ≤ 2^16) {s s' : Sys} (h : SInv b0 w W M s)
    (p : PInv W s) (op : SOp) (hs : stepS s op = .ok s') : PInv W s' := by
  cases op with
  | recv => exact pinv_recv hW hw h p hs
  | deliver k => exact pinv_deliver hW h p k hs
  | sync => exact pinv_sync h p hs
  | resync k => exact pinv_resync hW hw h p k hs
  | enq d c m f =>
    simp only [stepS] at hs
    split at hs
    · simp only [stepH, bindR_ok] at hs
      cases hs
      exact p.frame h p.rdy p.ent rfl rfl ⟨[], (List.append_nil _).symm⟩ rfl (fun _ h => h)
    · cases hs; exact p
  | emit f =>
    simp only [stepS] at hs
    cases he : emit s.snd f with
    | error t =>
      have : stepH s.snd s.hist (.emit f) = .error t := by simp only [stepH, he]
      rw [this] at hs; cases hs
    | ok r =>
      obtain ⟨s1, o⟩ := r
      cases o with
      | none =>
        have : stepH s.snd s.hist (.emit f) = .ok (s1, s.hist) := by simp only [stepH, he]
        rw [this, bindR_ok] at hs
        cases hs
        exact p.frame h p.rdy p.ent rfl rfl ⟨[], (List.append_nil _).symm⟩ rfl (fun _ h => h)
      | some pr =>
        obtain ⟨pk, rs⟩ := pr
        have : stepH s.snd s.hist (.emit f) =
            .ok (s1, { s.hist with emitted := s.hist.emitted ++ [mkEmitted s.snd f pk] }) := by
          simp only [stepH, he]
        rw [this, bindR_ok] at hs
        cases hs
        exact p.frame h p.rdy p.ent rfl rfl ⟨[_], rfl⟩ rfl (fun _ h => h)
  | ack k =>
    simp only [stepS] at hs
    split at hs
    · cases hs; exact p
    · rename_i a rb hk
      split at hs
      · cases hr : stepH s.snd s.hist (.ack rb) with
        | error t => rw [hr] at hs; cases hs
        | ok r =>
          rw [hr, bindR_ok] at hs
          cases hs
          have hh : r.2 = s.hist := by
            simp only [stepH] at hr
            cases ha : acknowledge s.snd rb with
            | error t => rw [ha] at hr; cases hr
            | ok s1 => rw [ha] at hr; cases hr; rfl
          exact p.frame h p.rdy p.ent rfl rfl ⟨[], by show r.2.emitted = _; rw [hh, List.append_nil]⟩ rfl (fun _ h => h)
      · cases hs; exact p

theorem pinv_run {b0 w W M : Nat} (hW : WOk W) (hw : w ≤ 2^16) (ops : List SOp) :
    ∀ {s s' : Sys}, SInv b0 w W M s → PInv W s → runS s ops = .ok s' → PInv W s' := by
  induction ops with
  | nil => intro s s' _ p hr; cases hr; exact p
  | cons op rest ih =>
    intro s s' h p hr
    rw [runS] at hr
    cases hs : stepS s op with
    | error t => rw [hs] at hr; cases hr
    | ok s1 =>
      rw [hs, bindR_ok] at hr
      exact ih (sinv_step hW (by omega) h op hs) (pinv_step hW hw h p op hs) hr

end Uflow.Sys
