import Uflow.Lemmas.CreditBoundWire
import Uflow.Lemmas.CreditEx

/-!
C13 (numeric bound), part 4: concrete instances.

* `exactOps : FloatOps Nat` — exact integer arithmetic (`F := Nat`: a fraction is a number of
  nano-bytes, an RTT a number of milliseconds); it satisfies `FillOk` with `eps = 0` on every domain
  and `FillMaxOk`.
* `badOps` — the former defect F14: each fill rounds `rate·dt` to the NEAREST byte and carries no
  remainder. It satisfies `FillOk` for no `eps < 0.4995 byte`, and on `badEvs` it sends 2944 bytes
  where the bound allows fewer than 2943.91.
-/

namespace Uflow.CreditBound

open Uflow Uflow.Gen Uflow.Codec Uflow.HalfConn Uflow.Credit Uflow.CreditEx
open Uflow.Rate (FloatOps)

/-- Exact arithmetic: `fillBytes` is `Uflow.CreditEx.exOps`'s (`⌊x⌋`, remainder in nano-bytes),
`fillMax` is `rate × rtt` rounded to the nearest byte (`rtt` in milliseconds, `none ↦ 0`). -/
def exactOps : FloatOps Nat :=
  { exOps with fillMax := fun rate rtt => (((rate * (rtt.getD 0 * 1000000) + 500000000) / G : Nat) : Int) }

/-- `exactOps` satisfies `FillOk` with NO slack, for every bound on rates and step distances. -/
def exactFillOk (R D : Nat) : FillOk exactOps 0 where
  maxRate := R
  maxDt := D
  good f := f < G
  v f := f
  good_zero := by decide
  good_fill := fun rate dt f _ _ _ => Nat.mod_lt _ (by decide)
  v_lt := fun _ h => h
  nonneg := fun rate dt f _ _ _ => Int.natCast_nonneg _
  fill := fun rate dt f _ _ _ => by
    show (((rate * dt + f) / G : Nat) : Int) * (G : Int) + (((rate * dt + f) % G : Nat) : Int) ≤ _
    have := Nat.div_add_mod (rate * dt + f) G
    generalize (rate * dt + f) / G = q at this ⊢
    generalize (rate * dt + f) % G = r at this ⊢
    generalize rate * dt = X at this ⊢
    simp only [G] at this ⊢
    omega

def exactFillMaxOk : FillMaxOk exactOps where
  rttNs rtt := rtt.getD 0 * 1000000
  cap := fun rate rtt => by
    show (((rate * (rtt.getD 0 * 1000000) + 500000000) / G : Nat) : Int) * (G : Int) ≤ _
    have := Nat.div_add_mod (rate * (rtt.getD 0 * 1000000) + 500000000) G
    generalize (rate * (rtt.getD 0 * 1000000) + 500000000) / G = q at this ⊢
    generalize (rate * (rtt.getD 0 * 1000000) + 500000000) % G = r at this
    generalize rate * (rtt.getD 0 * 1000000) = X at this ⊢
    simp only [G] at this ⊢
    omega

/-- The defect F14: round to the nearest byte at every fill, carry nothing. -/
def badOps : FloatOps Nat :=
  { exactOps with fillBytes := fun rate dt _ => ((((rate * dt + 500000000) / G : Nat) : Int), 0) }

/-- `badOps` does not satisfy `FillOk` with a slack below `0.49952` byte on any domain that contains
the rate 1472 B/s and the step distance 0.34 ms: such a fill credits one byte for `0.50048`. -/
theorem badOps_not_fillOk (eps : Nat) (heps : eps < 499520000) (K : FillOk badOps eps)
    (hR : 1472 ≤ K.maxRate) (hD : 340000 ≤ K.maxDt) : False := by
  have h := K.fill 1472 340000 badOps.zero hR hD K.good_zero
  have h1 : (badOps.fillBytes 1472 340000 badOps.zero).1 = 1 := by decide +kernel
  have h2 : (badOps.fillBytes 1472 340000 badOps.zero).2 = badOps.zero := by decide +kernel
  rw [h1, h2] at h
  simp only [G] at h
  omega

/-- Ceiling 1472 B/s (one frame per second). -/
def cfg1472 : Config := { exCfg with txBandwidthLimit := 1472 }

/-- One packet of two full fragments (two frames of 1472 bytes). -/
def exPre : List Ev := [.send (List.replicate 2896 7) 0 .reliable]

/-- A flush, then four steps 249.728261 ms apart (`1472 B/s × dt = 367.600000192` bytes), a flush
after each. -/
def badEvs : List Ev :=
  [.flush, .step 249728261, .flush, .step 499456522, .flush, .step 749184783, .flush,
   .step 998913044, .flush]

def badFillMaxOk : FillMaxOk badOps where
  rttNs := exactFillMaxOk.rttNs
  cap := exactFillMaxOk.cap

/-- Three computations in sequence, then a test on all intermediate results (`false` if anything
traps). -/
def chainG {σ : Type} (r1 : R (σ × Nat × Int)) (f2 : σ → R σ) (f3 : σ → R (σ × Nat × Int))
    (P : σ → σ → σ → Nat → Int → Bool) : Bool :=
  match r1 with
  | .error _ => false
  | .ok (p, _, _) =>
    match f2 p with
    | .error _ => false
    | .ok q =>
      match f3 q with
      | .error _ => false
      | .ok (s', b, c) => P p q s' b c

theorem chainG_spec {σ : Type} (r1 : R (σ × Nat × Int)) (f2 : σ → R σ)
    (f3 : σ → R (σ × Nat × Int)) (P : σ → σ → σ → Nat → Int → Bool)
    (h : chainG r1 f2 f3 P = true) :
    ∃ p b1 c1 q s' b c, r1 = .ok (p, b1, c1) ∧ f2 p = .ok q ∧ f3 q = .ok (s', b, c) ∧
      P p q s' b c = true := by
  unfold chainG at h
  split at h
  · cases h
  · rename_i p b1 c1
    split at h
    · cases h
    · rename_i q h2
      split at h
      · cases h
      · rename_i s' b c h3
        exact ⟨p, b1, c1, q, s', b, c, rfl, h2, h3, h⟩

/-- Runs `pre`, then `step t0`, then `evs` from `s0` and evaluates `P` on the state before the
`step`, the state at the start of `evs`, the final state, and the bytes and credit of `evs`
(`false` if anything traps). -/
def chainB (ops : FloatOps Nat) (s0 : State Nat) (pre : List Ev) (t0 : Nat) (evs : List Ev)
    (P : State Nat → State Nat → State Nat → Nat → Int → Bool) : Bool :=
  chainG (run ops s0 pre) (fun p => step ops p t0) (fun q => run ops q evs) P

theorem chainB_spec (ops : FloatOps Nat) (s0 : State Nat) (pre : List Ev) (t0 : Nat)
    (evs : List Ev) (P : State Nat → State Nat → State Nat → Nat → Int → Bool)
    (h : chainB ops s0 pre t0 evs P = true) :
    ∃ p b1 c1 q s' b c, run ops s0 pre = .ok (p, b1, c1) ∧ step ops p t0 = .ok q ∧
      run ops q evs = .ok (s', b, c) ∧ P p q s' b c = true :=
  chainG_spec _ _ _ P h

/-- A fresh half connection with ceiling 1472 B/s, created at time 0. -/
def s1472 (ops : FloatOps Nat) : State Nat := init ops cfg1472 0 { fifo := [], state := 0 }

/-- A prefix that gives the rate controller an RTT estimate: the first frame (sent at 0) is
acknowledged (the nonce is tried both ways), and `step` at 100 ms processes the feedback
(`rtt_s = 100 ms`). -/
def exRttPre : List Ev :=
  [.send (List.replicate 2896 7) 0 .reliable, .step 0, .flush,
   .ackFrame 1 0 [{ baseId := 0, bitfield := 1, nonce := true }],
   .ackFrame 1 0 [{ baseId := 0, bitfield := 1, nonce := false }],
   .step 100000000, .flush]

/-- An interval with steps at 1.0 s, 1.1 s, 1.2 s. -/
def exRttEvs : List Ev :=
  [.flush, .step 1000000000, .flush, .step 1100000000, .flush, .step 1200000000, .flush]

/-- An interval that begins before the first `step`. -/
def exFreshEvs : List Ev := [.flush, .step 0, .flush, .step 500000000, .flush, .step 1000000000, .flush]

theorem exactOps_converges : Rate.BisectConverges exactOps := .stop (by decide)

theorem exactOps_lossOk : HcInv.LossOk exactOps := fun _ => rfl

end Uflow.CreditBound
