import Uflow.Lemmas.EndpointEventsDeadline
import Uflow.Lemmas.EndpointEventsHeap

/-!
Server endpoint: a global invariant of the timer heap — no `resendDisconnect` timer exists for the
identity of an entry that is still `pending` or `active`, and timer identities are below `nextCid` —
preserved by every operation. It makes the timer armed on entering `closing` the ONLY disconnect-retry
timer of that connection.
-/

namespace Uflow.Endpoint

open Uflow.Gen Uflow.Codec Uflow.HalfConn

variable {H : Type}

theorem mem_tPush {h : Array Timer} {e t : Timer} : t ∈ (tPush h e).toList ↔ t = e ∨ t ∈ h.toList := by
  rw [(tPush_perm h e).mem_iff, List.mem_cons]

theorem mem_of_tPop {h h' : Array Timer} {t : Timer} (hp : tPop h = some (t, h')) :
    t ∈ h.toList ∧ ∀ x ∈ h'.toList, x ∈ h.toList := by
  have := (tPop_perm h t h' hp).2
  exact ⟨this.mem_iff.mp List.mem_cons_self, fun x hx => this.mem_iff.mp (List.mem_cons_of_mem _ hx)⟩

/-- Entries that have not yet entered `closing`. -/
def RState.early : RState H → Bool
  | .pending .. => true
  | .active .. => true
  | _ => false

/-- The timer invariant. -/
structure Server.TIe (s : Server H) : Prop where
  early : ∀ c ∈ s.clients, c.state.early = true → ∀ t ∈ s.timers.toList, t.cid = c.cid → t.kind ≠ .resendDisconnect
  fresh : ∀ t ∈ s.timers.toList, t.cid < s.nextCid

theorem Server.TIe.init (cfg : SrvConfig) (now : Nat) (rng : Rng) : (Server.init cfg now rng : Server H).TIe :=
  ⟨by simp [Server.init], by simp [Server.init]⟩

/-- A transition that creates no disconnect-retry timer for a not-yet-closing entry. -/
structure TStep (s s' : Server H) : Prop where
  tm : ∀ t ∈ s'.timers.toList, t ∈ s.timers.toList ∨
        (t.cid < s'.nextCid ∧ (t.kind ≠ .resendDisconnect ∨ ∀ c' ∈ s'.clients, c'.cid = t.cid → c'.state.early = false))
  cl : ∀ c' ∈ s'.clients, c'.state.early = true →
        (∃ c ∈ s.clients, c.cid = c'.cid ∧ c.state.early = true) ∨ s.nextCid ≤ c'.cid
  cz : ∀ c' ∈ s'.clients, c'.state = .closing →
        (∃ c ∈ s.clients, c.cid = c'.cid ∧ (c.state = .closing ∨ c.state.early = true)) ∨ s.nextCid ≤ c'.cid
  nc : s.nextCid ≤ s'.nextCid

theorem TStep.refl (s : Server H) : TStep s s :=
  ⟨fun _ h => Or.inl h, fun c' hc he => Or.inl ⟨c', hc, rfl, he⟩,
   fun c' hc h => Or.inl ⟨c', hc, rfl, Or.inl h⟩, Nat.le_refl _⟩

theorem TStep.trans {s s1 s2 : Server H} (h1 : TStep s s1) (h2 : TStep s1 s2) : TStep s s2 := by
  refine ⟨fun t ht => ?_, fun c'' hc'' he'' => ?_, fun c'' hc'' hz'' => ?_, Nat.le_trans h1.nc h2.nc⟩
  · rcases h2.tm t ht with ht1 | hnew
    · rcases h1.tm t ht1 with ht0 | ⟨hlt, hk⟩
      · exact Or.inl ht0
      · refine Or.inr ⟨Nat.lt_of_lt_of_le hlt h2.nc, ?_⟩
        rcases hk with hk | hk
        · exact Or.inl hk
        · refine Or.inr fun c'' hc'' hcid => ?_
          cases hee : c''.state.early with
          | false => rfl
          | true =>
            rcases h2.cl c'' hc'' hee with ⟨c', hc', hcid', he'⟩ | hge
            · rw [hk c' hc' (hcid'.trans hcid)] at he'; cases he'
            · omega
    · exact Or.inr hnew
  · rcases h2.cl c'' hc'' he'' with ⟨c', hc', hcid', he'⟩ | hge
    · rcases h1.cl c' hc' he' with ⟨c, hc, hcid, he⟩ | hge
      · exact Or.inl ⟨c, hc, hcid.trans hcid', he⟩
      · exact Or.inr (by omega)
    · exact Or.inr (Nat.le_trans h1.nc hge)
  · rcases h2.cz c'' hc'' hz'' with ⟨c', hc', hcid', hz' | he'⟩ | hge
    · rcases h1.cz c' hc' hz' with ⟨c, hc, hcid, hz⟩ | hge
      · exact Or.inl ⟨c, hc, hcid.trans hcid', hz⟩
      · exact Or.inr (by omega)
    · rcases h1.cl c' hc' he' with ⟨c, hc, hcid, he⟩ | hge
      · exact Or.inl ⟨c, hc, hcid.trans hcid', Or.inr he⟩
      · exact Or.inr (by omega)
    · exact Or.inr (Nat.le_trans h1.nc hge)

theorem Server.TIe.of_TStep {s s' : Server H} (hi : s.TIe) (ht : TStep s s') : s'.TIe := by
  refine ⟨fun c' hc' he' t htm hcid hk => ?_, fun t htm => ?_⟩
  · rcases ht.tm t htm with ht0 | ⟨_, hk' | hk'⟩
    · rcases ht.cl c' hc' he' with ⟨c, hc, hcid', he⟩ | hge
      · exact hi.early c hc he t ht0 (hcid.trans hcid'.symm) hk
      · have := hi.fresh t ht0; omega
    · exact hk' hk
    · rw [hk' c' hc' hcid.symm] at he'; cases he'
  · rcases ht.tm t htm with ht0 | ⟨hlt, _⟩
    · exact Nat.lt_of_lt_of_le (hi.fresh t ht0) ht.nc
    · exact hlt

/-! ### constructors -/

theorem TStep.of_same {s s' : Server H} (h1 : s'.clients = s.clients) (ht : s'.timers = s.timers)
    (hn : s'.nextCid = s.nextCid) : TStep s s' :=
  ⟨fun t h => Or.inl (by rw [← ht]; exact h), fun c' hc he => Or.inl ⟨c', by rw [← h1]; exact hc, rfl, he⟩,
   fun c' hc h => Or.inl ⟨c', by rw [← h1]; exact hc, rfl, Or.inl h⟩,
   by rw [hn]; exact Nat.le_refl _⟩

/-- Timers only removed (the pop of the timer loop). -/
theorem TStep.of_timers_sub {s s' : Server H} (h1 : s'.clients = s.clients)
    (hsub : ∀ t ∈ s'.timers.toList, t ∈ s.timers.toList) (hn : s'.nextCid = s.nextCid) : TStep s s' :=
  ⟨fun t h => Or.inl (hsub t h), fun c' hc he => Or.inl ⟨c', by rw [← h1]; exact hc, rfl, he⟩,
   fun c' hc h => Or.inl ⟨c', by rw [← h1]; exact hc, rfl, Or.inl h⟩,
   by rw [hn]; exact Nat.le_refl _⟩

theorem mem_updCid_cases {cl : List (RClient H)} (_hi : (cl.map (·.cid)).Nodup) {c c' x : RClient H} (_hc : c ∈ cl)
    (hcid : c'.cid = c.cid) (hx : x ∈ updCid cl c') : x = c' ∨ (x ∈ cl ∧ x.cid ≠ c.cid) := by
  obtain ⟨y, hy, rfl⟩ := mem_updCid.mp hx
  split
  · exact Or.inl rfl
  · next hne => exact Or.inr ⟨hy, fun e => hne (e.trans hcid.symm)⟩

/-- An entry replaced (same identity), optionally one timer pushed for that identity which is either not a
disconnect-retry timer or finds the replaced entry no longer `pending`/`active`. -/
theorem TStep.of_put {s s' : Server H} (hw : s.WF) {c c' : RClient H} (hc : c ∈ s.clients) (hcid : c'.cid = c.cid)
    (hearly : c'.state.early = true → c.state.early = true)
    (hclosing : c'.state = .closing → c.state = .closing ∨ c.state.early = true)
    (h1 : s'.clients = updCid s.clients c') (hn : s'.nextCid = s.nextCid)
    (ht : s'.timers = s.timers ∨ ∃ e, s'.timers = tPush s.timers e ∧ e.cid = c.cid ∧
      (e.kind ≠ .resendDisconnect ∨ c'.state.early = false)) : TStep s s' := by
  refine ⟨fun t htm => ?_, fun x hx he => ?_, fun x hx hz => ?_, by rw [hn]; exact Nat.le_refl _⟩
  · rcases ht with ht | ⟨e, ht, hecid, hk⟩
    · exact Or.inl (by rw [← ht]; exact htm)
    · rw [ht, mem_tPush] at htm
      rcases htm with rfl | htm
      · refine Or.inr ⟨by rw [hn, hecid]; exact hw.fresh c (List.mem_append_left _ hc), ?_⟩
        rcases hk with hk | hk
        · exact Or.inl hk
        · refine Or.inr fun x hx hxc => ?_
          rw [h1] at hx
          rcases mem_updCid_cases hw.cidClients hc hcid hx with rfl | ⟨_, hne⟩
          · exact hk
          · exact absurd (hxc.trans hecid) hne
      · exact Or.inl htm
  · rw [h1] at hx
    rcases mem_updCid_cases hw.cidClients hc hcid hx with rfl | ⟨hx', _⟩
    · exact Or.inl ⟨c, hc, hcid.symm, hearly he⟩
    · exact Or.inl ⟨x, hx', rfl, he⟩
  · rw [h1] at hx
    rcases mem_updCid_cases hw.cidClients hc hcid hx with rfl | ⟨hx', _⟩
    · exact Or.inl ⟨c, hc, hcid.symm, hclosing hz⟩
    · exact Or.inl ⟨x, hx', rfl, Or.inl hz⟩

theorem TStep.of_filter {s s' : Server H} {b : Nat} (h1 : s'.clients = s.clients.filter (·.address ≠ b))
    (ht : s'.timers = s.timers) (hn : s'.nextCid = s.nextCid) : TStep s s' :=
  ⟨fun t h => Or.inl (by rw [← ht]; exact h),
   fun c' hc he => Or.inl ⟨c', by rw [h1] at hc; exact (List.mem_filter.mp hc).1, rfl, he⟩,
   fun c' hc h => Or.inl ⟨c', by rw [h1] at hc; exact (List.mem_filter.mp hc).1, rfl, Or.inl h⟩,
   by rw [hn]; exact Nat.le_refl _⟩

theorem Server.finish_TStep (s : Server H) (c : RClient H) : TStep s (s.finish c) := by
  have h1 : (s.finish c).clients = s.clients.filter (·.address ≠ c.address) := by
    unfold Server.finish; simp only; split <;> rfl
  have ht : (s.finish c).timers = s.timers := by
    unfold Server.finish; simp only; split <;> rfl
  have hn : (s.finish c).nextCid = s.nextCid := by
    unfold Server.finish; simp only; split <;> rfl
  exact TStep.of_filter h1 ht hn

/-- A new entry with the fresh identity, and a timer for it that is not a disconnect-retry timer. -/
theorem TStep.of_append {s s' : Server H} {c : RClient H} {e : Timer} (hcc : c.cid = s.nextCid)
    (hncl : c.state ≠ .closing)
    (h1 : s'.clients = s.clients ++ [c]) (ht : s'.timers = tPush s.timers e) (hk : e.kind ≠ .resendDisconnect)
    (hecid : e.cid = s.nextCid) (hn : s'.nextCid = s.nextCid + 1) : TStep s s' := by
  refine ⟨fun t htm => ?_, fun x hx he => ?_, fun x hx hz => ?_, by rw [hn]; omega⟩
  · rw [ht, mem_tPush] at htm
    rcases htm with rfl | htm
    · exact Or.inr ⟨by rw [hn, hecid]; omega, Or.inl hk⟩
    · exact Or.inl htm
  · rw [h1] at hx
    rcases List.mem_append.mp hx with hx | hx
    · exact Or.inl ⟨x, hx, rfl, he⟩
    · simp only [List.mem_singleton] at hx
      rw [hx, hcc]; exact Or.inr (Nat.le_refl _)
  · rw [h1] at hx
    rcases List.mem_append.mp hx with hx | hx
    · exact Or.inl ⟨x, hx, rfl, Or.inl hz⟩
    · simp only [List.mem_singleton] at hx
      rw [hx] at hz; exact absurd hz hncl

/-- Same map, one timer pushed: not a disconnect-retry timer, or for an identity that is not
`pending`/`active`. -/
theorem TStep.of_push {s s' : Server H} {e : Timer} (h1 : s'.clients = s.clients) (ht : s'.timers = tPush s.timers e)
    (he : e.cid < s.nextCid) (hn : s'.nextCid = s.nextCid)
    (hk : e.kind ≠ .resendDisconnect ∨ ∀ c ∈ s.clients, c.cid = e.cid → c.state.early = false) : TStep s s' := by
  refine ⟨fun t htm => ?_, fun x hx hee => Or.inl ⟨x, by rw [← h1]; exact hx, rfl, hee⟩,
    fun x hx hz => Or.inl ⟨x, by rw [← h1]; exact hx, rfl, Or.inl hz⟩, by rw [hn]; exact Nat.le_refl _⟩
  rw [ht, mem_tPush] at htm
  rcases htm with rfl | htm
  · refine Or.inr ⟨by rw [hn]; exact he, ?_⟩
    rcases hk with hk | hk
    · exact Or.inl hk
    · exact Or.inr (by rw [h1]; exact hk)
  · exact Or.inl htm

/-! ### the handlers -/

theorem Server.handleSyn_TStep (s : Server H) (addr v n r p a nowMs : Nat) :
    TStep s (s.handleSyn addr v n r p a nowMs).1 := by
  unfold Server.handleSyn
  split
  · exact TStep.refl s
  · simp only
    split
    · exact TStep.of_same rfl rfl rfl
    · split
      · exact TStep.of_same rfl rfl rfl
      · split
        · exact TStep.of_same rfl rfl rfl
        · split
          · exact TStep.of_same rfl rfl rfl
          · rcases hr : s.rng.next with ⟨vv, rng⟩
            simp only
            exact TStep.of_append (c := { cid := s.nextCid, address := addr, state := .pending (vv % 2^32) n r a _ })
              rfl (by intro h; cases h) rfl rfl (by simp) rfl rfl

theorem Server.handleHsAck_TStep (hc : HC H) (s : Server H) (hw : s.WF) (addr na nowMs nowNs : Nat) :
    TStep s (s.handleHsAck hc addr na nowMs nowNs) := by
  unfold Server.handleHsAck
  split
  · exact TStep.refl s
  · next c hf =>
    obtain ⟨hcm, hca⟩ := Server.find_some hf
    split
    · next ln rn r al rb hst =>
      split
      · simp only
        rw [Server.put_state_eq hcm]
        exact TStep.of_put (c' := { c with state := .active (hc.new (hcConfig s.cfg.ep ln rn r al) nowNs) (nowMs + s.cfg.ep.activeTimeoutMs) none })
          hw hcm rfl (by intro _; rw [hst]; rfl) (by intro h; cases h) rfl rfl (Or.inl rfl)
      · exact TStep.refl s
    · exact TStep.refl s

theorem Server.handleDisconnect_TStep (hc : HC H) (s s' : Server H) (hw : s.WF) (addr nowMs : Nat)
    (out : List (Nat × List Nat)) (h : s.handleDisconnect hc addr nowMs = .ok (s', out)) : TStep s s' := by
  unfold Server.handleDisconnect at h
  split at h
  · cases h; exact TStep.refl s
  · next c hf =>
    obtain ⟨hcm, hca⟩ := Server.find_some hf
    simp only at h
    split at h
    · cases h; exact TStep.refl s
    · next hh t sig hst =>
      split at h
      · cases h
      · next h' pkts hr =>
        cases h
        have hcm' : c ∈ ({ s with eventsOut := s.eventsOut ++ pkts.map (SEvent.receive addr) } : Server H).clients := hcm
        rw [Server.put_state_eq hcm']
        exact TStep.of_put (c' := { c with state := .closed }) hw hcm rfl (by intro h; cases h) (by intro h; cases h) rfl rfl
          (Or.inr ⟨_, rfl, rfl, Or.inl (by simp)⟩)
    · next hst =>
      cases h
      rw [Server.put_state_eq hcm]
      exact TStep.of_put (c' := { c with state := .closed }) hw hcm rfl (by intro h; cases h) (by intro h; cases h) rfl rfl
        (Or.inr ⟨_, rfl, rfl, Or.inl (by simp)⟩)
    · cases h; exact TStep.refl s
    · cases h; exact TStep.refl s

theorem Server.handleDisconnectAck_TStep (s : Server H) (addr : Nat) : TStep s (s.handleDisconnectAck addr) := by
  unfold Server.handleDisconnectAck
  split
  · exact TStep.refl s
  · split
    · exact (TStep.of_same (s := s) (s' := { s with eventsOut := s.eventsOut ++ [SEvent.disconnect addr] }) rfl rfl rfl).trans
        (Server.finish_TStep _ _)
    · exact TStep.refl s

theorem Server.handleTraffic_TStep (hc : HC H) (s s' : Server H) (hw : s.WF) (addr : Nat) (f : Frame) (nowMs : Nat)
    (h : s.handleTraffic hc addr f nowMs = .ok s') : TStep s s' := by
  unfold Server.handleTraffic at h
  split at h
  · cases h; exact TStep.refl s
  · next c hf =>
    obtain ⟨hcm, hca⟩ := Server.find_some hf
    split at h
    · next hh t sig hst =>
      split at h
      · cases h
      · next h' hd =>
        cases h
        rw [Server.put_state_eq hcm]
        exact TStep.of_put (c' := { c with state := .active h' (nowMs + s.cfg.ep.activeTimeoutMs) sig })
          hw hcm rfl (by intro _; rw [hst]; rfl) (by intro h; cases h) rfl rfl (Or.inl rfl)
    · cases h; exact TStep.refl s

theorem Server.handleFrame_TStep (hc : HC H) (s s' : Server H) (hw : s.WF) (addr : Nat) (f : Frame) (nowMs nowNs : Nat)
    (out : List (Nat × List Nat)) (h : s.handleFrame hc addr f nowMs nowNs = .ok (s', out)) : TStep s s' := by
  unfold Server.handleFrame at h
  have traffic : (s.handleTraffic hc addr f nowMs).map (·, ([] : List (Nat × List Nat))) = .ok (s', out) → TStep s s' := by
    intro h
    cases ht : s.handleTraffic hc addr f nowMs with
    | error e => rw [ht] at h; cases h
    | ok s1 =>
      rw [ht] at h; cases h
      exact Server.handleTraffic_TStep hc s _ hw addr f nowMs ht
  cases f with
  | syn v n r p a =>
    have e := Except.ok.inj h
    have := Server.handleSyn_TStep s addr v n r p a nowMs
    rw [e] at this; exact this
  | hsAck na => cases h; exact Server.handleHsAck_TStep hc s hw addr na nowMs nowNs
  | synAck => cases h; exact TStep.refl s
  | hsError => cases h; exact TStep.refl s
  | disconnect => exact Server.handleDisconnect_TStep hc s s' hw addr nowMs out h
  | disconnectAck => cases h; exact Server.handleDisconnectAck_TStep s addr
  | data => exact traffic h
  | sync => exact traffic h
  | ack => exact traffic h

theorem Server.handleFrames_TStep (hc : HC H) (s s' : Server H) (hw : s.WF) (arrivals : List (Nat × List Nat))
    (nowMs nowNs : Nat) (out : List (Nat × List Nat))
    (h : s.handleFrames hc arrivals nowMs nowNs = .ok (s', out)) : TStep s s' := by
  rw [Server.handleFrames_eq] at h
  have key := Server.handleFrames_induct hc nowMs nowNs
    (fun x _ => (∃ evs, STr s evs x) ∧ TStep s x) ?_ arrivals s [] s' out ⟨⟨[], STr.refl hw⟩, TStep.refl s⟩ h
  · exact key.2
  · intro x o addr f x' out' ⟨⟨e1, t1⟩, k1⟩ hf
    obtain ⟨e2, t2, -⟩ := Server.handleFrame_STr hc x x' t1.wf addr f nowMs nowNs out' hf
    exact ⟨⟨e1 ++ e2, t1.trans t2⟩, k1.trans (Server.handleFrame_TStep hc x x' t1.wf addr f nowMs nowNs out' hf)⟩

/-- `handleTimer` for a timer whose identity is below `nextCid`. -/
theorem Server.handleTimer_TStep (s : Server H) (hw : s.WF) (t : Timer) (htc : t.cid < s.nextCid) (nowMs : Nat) :
    TStep s (s.handleTimer t nowMs).1 := by
  unfold Server.handleTimer
  split
  · exact TStep.refl s
  · next c hb =>
    split
    · split
      · next hk =>
        split
        · exact TStep.of_push rfl rfl htc rfl (Or.inl (by simp [hk]))
        · simp only
          exact (TStep.of_same (s := s) (s' := { s with eventsOut := if s.cfg.enableHandshakeErrors then s.eventsOut ++ [SEvent.error c.address .timeout] else s.eventsOut }) rfl rfl rfl).trans
            (Server.finish_TStep _ _)
      · exact TStep.refl s
    · next hst =>
      obtain ⟨hcm, hccid⟩ := Server.byCid_clients hw hb (by rw [hst]; intro h; cases h)
      split
      · split
        · refine TStep.of_push rfl rfl htc rfl (Or.inr fun c0 hc0 hcid0 => ?_)
          have : c0 = c := inj_of_nodup_map (·.cid) hw.cidClients hc0 hcm (hcid0.trans hccid.symm)
          rw [this, hst]; rfl
        · simp only
          exact (TStep.of_same (s := s) (s' := { s with eventsOut := s.eventsOut ++ [SEvent.error c.address .timeout] }) rfl rfl rfl).trans
            (Server.finish_TStep _ _)
      · exact TStep.refl s
    · split
      · exact Server.finish_TStep _ _
      · exact TStep.refl s
    · exact TStep.refl s

theorem Server.runTimers_TStep (fuel : Nat) (s : Server H) (hw : s.WF) (hi : s.TIe) (nowMs : Nat)
    (sent : List (Nat × List Nat)) : TStep s (Server.runTimers fuel s nowMs sent).1 := by
  induction fuel generalizing s sent with
  | zero => exact TStep.refl s
  | succ k ih =>
    unfold Server.runTimers
    split
    · exact TStep.refl s
    · split
      · exact TStep.refl s
      · split
        · exact TStep.refl s
        · next t h hp =>
          obtain ⟨htm, hsub⟩ := mem_of_tPop hp
          have k0 : TStep s ({ s with timers := h } : Server H) := TStep.of_timers_sub rfl hsub rfl
          have w0 : STr s [] ({ s with timers := h } : Server H) := STr.of_same hw rfl rfl rfl (fun _ h => h) rfl rfl rfl
          have k1 := Server.handleTimer_TStep ({ s with timers := h } : Server H) w0.wf t (hi.fresh t htm) nowMs
          obtain ⟨e1, w1, -⟩ := Server.handleTimer_STr _ w0.wf t nowMs
          rcases hx : ({ s with timers := h } : Server H).handleTimer t nowMs with ⟨s1, o1⟩
          rw [hx] at k1 w1
          exact (k0.trans k1).trans (ih s1 w1.wf ((hi.of_TStep k0).of_TStep k1) (sent ++ o1))

theorem Server.activeTimeouts_TStep (hc : HC H) (s s' : Server H) (nowMs : Nat)
    (h : s.activeTimeouts hc nowMs = .ok s') : TStep s s' := by
  rw [Server.activeTimeouts_eq] at h
  refine foldlM_induct (Server.activeTimeoutStep hc nowMs) (fun x => TStep s x) ?_ s.active s s' (TStep.refl s) h
  intro x cid x' h1 hx
  refine h1.trans ?_
  unfold Server.activeTimeoutStep at hx
  split at hx
  · cases hx; exact TStep.refl x
  · next c hb =>
    split at hx
    · split at hx
      · split at hx
        · cases hx
        · next h' pkts hr =>
          cases hx
          exact (TStep.of_same (s := x) (s' := { x with eventsOut := x.eventsOut ++ pkts.map (SEvent.receive c.address) ++ [SEvent.error c.address .timeout] }) rfl rfl rfl).trans
            (Server.finish_TStep _ _)
      · cases hx; exact TStep.refl x
    · cases hx; exact TStep.refl x

theorem Server.stepActive_TStep (hc : HC H) (s s' : Server H) (hw : s.WF) (nowMs nowNs : Nat)
    (out : List (Nat × List Nat)) (h : s.stepActive hc nowMs nowNs = .ok (s', out)) : TStep s s' := by
  rw [Server.stepActive_eq] at h
  have key := foldlM_induct (Server.stepActiveStep hc nowMs nowNs) (fun x => (∃ evs, STr s evs x.1) ∧ TStep s x.1)
    ?_ s.active (s, []) (s', out) ⟨⟨[], STr.refl hw⟩, TStep.refl s⟩ h
  · exact key.2
  · intro acc cid acc' ⟨⟨e1, t1⟩, d1⟩ hx
    obtain ⟨e2, t2, -⟩ := Server.stepActiveStep_STr hc nowMs nowNs acc acc' t1.wf cid hx
    refine ⟨⟨e1 ++ e2, t1.trans t2⟩, d1.trans ?_⟩
    have hwx := t1.wf
    obtain ⟨x, o⟩ := acc
    unfold Server.stepActiveStep at hx
    simp only at hx hwx ⊢
    split at hx
    · cases hx; exact TStep.refl x
    · next c hb =>
      split at hx
      · next hh t sig hst =>
        obtain ⟨hcm, -⟩ := Server.byCid_clients hwx hb (by rw [hst]; intro h; cases h)
        split at hx
        · split at hx
          · cases hx
          · next h' pkts hr =>
            cases hx
            have hcm' : c ∈ ({ x with eventsOut := x.eventsOut ++ pkts.map (SEvent.receive c.address) } : Server H).clients := hcm
            rw [Server.put_state_eq hcm']
            exact TStep.of_put (c' := { c with state := .closing }) hwx hcm rfl (by intro h; cases h) (fun _ => Or.inr (by rw [hst]; rfl)) rfl rfl
              (Or.inr ⟨discTimer c.cid nowMs, rfl, rfl, Or.inr rfl⟩)
        · split at hx
          · cases hx
          · split at hx
            · cases hx
            · next h2 pkts hr =>
              cases hx
              rw [Server.put_state_eq hcm]
              exact TStep.of_put (c' := { c with state := .active h2 t sig }) hwx hcm rfl
                (by intro _; rw [hst]; rfl) (by intro h; cases h) rfl rfl (Or.inl rfl)
      · cases hx; exact TStep.refl x

theorem Server.flushActive_TStep (hc : HC H) (s s' : Server H) (hw : s.WF)
    (out : List (Nat × List Nat)) (h : s.flushActive hc = .ok (s', out)) : TStep s s' := by
  rw [Server.flushActive_eq] at h
  have key := foldlM_induct (Server.flushActiveStep hc) (fun x => STr s [] x.1 ∧ TStep s x.1)
    ?_ s.active (s, []) (s', out) ⟨STr.refl hw, TStep.refl s⟩ h
  · exact key.2
  · intro acc cid acc' ⟨t1, d1⟩ hx
    have t2 := Server.flushActiveStep_STr hc acc acc' t1.wf cid hx
    refine ⟨by simpa using t1.trans t2, d1.trans ?_⟩
    have hwx := t1.wf
    obtain ⟨x, o⟩ := acc
    unfold Server.flushActiveStep at hx
    simp only at hx hwx ⊢
    split at hx
    · cases hx; exact TStep.refl x
    · next c hb =>
      split at hx
      · next hh t sig hst =>
        obtain ⟨hcm, -⟩ := Server.byCid_clients hwx hb (by rw [hst]; intro h; cases h)
        split at hx
        · cases hx
        · next h' rng frames hfl =>
          cases hx
          have hcm' : c ∈ ({ x with rng := rng } : Server H).clients := hcm
          rw [Server.put_state_eq hcm']
          exact TStep.of_put (c' := { c with state := .active h' t sig }) hwx hcm rfl
            (by intro _; rw [hst]; rfl) (by intro h; cases h) rfl rfl (Or.inl rfl)
      · cases hx; exact TStep.refl x

/-- A whole step preserves the timer invariant. -/
theorem Server.step_TIe (hc : HC H) (s s' : Server H) (hw : s.WF) (hi : s.TIe) (nowNs : Nat)
    (arrivals sent : List (Nat × List Nat)) (evs : List SEvent)
    (h : s.step hc nowNs arrivals = .ok (s', sent, evs)) : s'.TIe := by
  obtain ⟨s1, o1, s2, o2, s4, s6, o6, h1, h2, h4, h6, rfl, rfl, -⟩ := Server.step_phases hc s s' nowNs arrivals sent evs h
  have t1 := Server.flushActive_STr hc s s1 hw o1 h1
  have i1 := hi.of_TStep (Server.flushActive_TStep hc s s1 hw o1 h1)
  obtain ⟨e2, t2, -⟩ := Server.handleFrames_STr hc s1 s2 t1.wf arrivals _ nowNs o2 h2
  have i2 := i1.of_TStep (Server.handleFrames_TStep hc s1 s2 t1.wf arrivals _ nowNs o2 h2)
  obtain ⟨e3, t3, -⟩ := Server.runTimers_STr (s2.timers.size * 12 + 16) s2 t2.wf (s.nowMs nowNs) []
  have i3 := i2.of_TStep (Server.runTimers_TStep (s2.timers.size * 12 + 16) s2 t2.wf i2 (s.nowMs nowNs) [])
  obtain ⟨e4, t4⟩ := Server.activeTimeouts_STr hc _ s4 t3.wf _ h4
  have i4 := i3.of_TStep (Server.activeTimeouts_TStep hc _ s4 _ h4)
  have t5 := Server.retain_STr s4 t4.wf _ (List.filter_sublist (l := s4.detached)
    (p := fun c => (s4.active.filter fun cid => match s4.byCid cid with
              | some c => c.state.isActive
              | none => false).contains c.cid || s4.timers.any (·.cid = c.cid)))
  have i5 := i4.of_TStep (TStep.of_same (s := s4) (s' := { s4 with
      active := s4.active.filter fun cid => match s4.byCid cid with
        | some c => c.state.isActive
        | none => false,
      detached := s4.detached.filter fun c =>
        (s4.active.filter fun cid => match s4.byCid cid with
          | some c => c.state.isActive
          | none => false).contains c.cid || s4.timers.any (·.cid = c.cid) }) rfl rfl rfl)
  have i6 := i5.of_TStep (Server.stepActive_TStep hc _ s6 t5.wf _ nowNs o6 h6)
  exact i6.of_TStep (TStep.of_same rfl rfl rfl)

theorem Server.apply_TIe (hc : HC H) (s s' : Server H) (hw : s.WF) (hi : s.TIe) (op : SOp)
    (sent : List (Nat × List Nat)) (ls : List SLabel) (h : s.apply hc op = .ok (s', sent, ls)) : s'.TIe := by
  cases op with
  | step n arr =>
    simp only [Server.apply] at h
    split at h
    · cases h
    · next s1 o1 e1 hs =>
      cases h
      exact Server.step_TIe hc s s' hw hi n arr sent e1 hs
  | drop addr =>
    cases h
    unfold Server.drop
    split
    · exact hi.of_TStep (Server.finish_TStep _ _)
    · exact hi
  | disconnect addr m =>
    cases h
    unfold Server.disconnect
    split
    · next c hf =>
      obtain ⟨hcm, hca⟩ := Server.find_some hf
      split
      · next hh t sig hst =>
        rw [Server.put_state_eq hcm]
        exact hi.of_TStep (TStep.of_put (c' := { c with state := .active hh t (some m) }) hw hcm rfl
          (by intro _; rw [hst]; rfl) (by intro h; cases h) rfl rfl (Or.inl rfl))
      · exact hi
    · exact hi
  | send addr d ch m =>
    cases h
    unfold Server.send
    split
    · next c hf =>
      obtain ⟨hcm, hca⟩ := Server.find_some hf
      split
      · next hh t sig hst =>
        rw [Server.put_state_eq hcm]
        exact hi.of_TStep (TStep.of_put (c' := { c with state := .active (hc.send hh d ch m) t sig }) hw hcm rfl
          (by intro _; rw [hst]; rfl) (by intro h; cases h) rfl rfl (Or.inl rfl))
      · exact hi
    · exact hi
  | flush =>
    simp only [Server.apply] at h
    split at h
    · cases h
    · next s1 o1 hf =>
      cases h
      exact hi.of_TStep (Server.flushActive_TStep hc s s' hw sent hf)

/-- The timer invariant holds in every reachable state. -/
theorem Server.run_TIe (hc : HC H) (ops : List SOp) (s s' : Server H) (hw : s.WF) (he : s.eventsOut = [])
    (hi : s.TIe) (sent : List (Nat × List Nat)) (ls : List SLabel)
    (h : Server.run hc s ops = .ok (s', sent, ls)) : s'.TIe := by
  induction ops generalizing s sent ls with
  | nil => cases h; exact hi
  | cons op ops ih =>
    simp only [Server.run] at h
    split at h
    · cases h
    · next s1 o1 l1 h1 =>
      split at h
      · cases h
      · next s2 o2 l2 h2 =>
        cases h
        obtain ⟨a1, a2, -⟩ := Server.apply_monitor hc s s1 hw he op o1 l1 h1
        exact ih s1 a1 a2 (Server.apply_TIe hc s s1 hw hi op o1 l1 h1) o2 l2 h2

end Uflow.Endpoint
