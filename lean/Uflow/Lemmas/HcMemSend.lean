import Uflow.Lemmas.HcMemRun
import Uflow.Lemmas.PSendHistOrder

/-!
C06 (half connection), part 3: the allocation limit of a packet sender never changes.
-/

namespace Uflow.HcMem

open Uflow Uflow.Gen Uflow.PSend
open Uflow.Props.C20 (Op stepOp)

theorem emit_maxAlloc (s s' : State) (f : Nat) (r : Option (Pending × Bool))
    (h : emit s f = .ok (s', r)) : s'.maxAlloc = s.maxAlloc := by
  unfold emit at h
  split at h
  · exact absurd h (by simp)
  · rename_i q t hd
    simp only at h
    cases q with
    | nil => simp only [Except.ok.injEq, Prod.mk.injEq] at h; obtain ⟨hs, _⟩ := h; subst hs; rfl
    | cons e rest =>
      simp only at h
      split at h
      · simp only [Except.ok.injEq, Prod.mk.injEq] at h; obtain ⟨hs, _⟩ := h; subst hs; rfl
      · split at h
        · simp only [Except.ok.injEq, Prod.mk.injEq] at h; obtain ⟨hs, _⟩ := h; subst hs; rfl
        · split at h
          · exact absurd h (by simp)
          · simp only [Except.ok.injEq, Prod.mk.injEq] at h
            obtain ⟨hs, _⟩ := h; subst hs
            rfl

theorem stepOp_maxAlloc (s s' : State) (op : Op) (h : stepOp s op = .ok s') :
    s'.maxAlloc = s.maxAlloc := by
  cases op with
  | enq d c m f => simp only [stepOp, Except.ok.injEq] at h; subst h; rfl
  | emit f =>
    simp only [stepOp] at h
    cases he : emit s f with
    | error t => rw [he] at h; cases h
    | ok v =>
      obtain ⟨s1, r⟩ := v
      rw [he] at h
      simp only [Except.map, Except.ok.injEq] at h
      subst h
      exact emit_maxAlloc s s1 f r he
  | ack rb => exact (acknowledge_alloc s s' rb h).2
  | ackFrag u fid => simp only [stepOp, Except.ok.injEq] at h; subst h; rfl

theorem run_maxAlloc (sops : List Op) (s s' : State) (h : Props.C20.run s sops = .ok s') :
    s'.maxAlloc = s.maxAlloc := by
  induction sops generalizing s with
  | nil => simp only [Props.C20.run, Except.ok.injEq] at h; subst h; rfl
  | cons op rest ih =>
    rw [Props.C20.run] at h
    cases hs : stepOp s op with
    | error t => rw [hs] at h; cases h
    | ok s1 =>
      rw [hs] at h
      exact (ih s1 h).trans (stepOp_maxAlloc s s1 op hs)

end Uflow.HcMem
