import Uflow.Lemmas.HcFrameAck

/-!
C15 (half connection), part 1: `handleAckFrame` as a function of the pair (frame queue, packet
sender) — nothing else of the half connection is read (except the RTT estimate `rate.rttMs`) or
written.
-/

namespace Uflow.HcAck

open Uflow Uflow.Gen Uflow.Codec Uflow.HalfConn Uflow.HcFrame

variable {F : Type}

/-- Marks the fragments `frs` acknowledged. -/
def ackFrags (ps : PSend.State) (frs : List (Nat × Nat)) : PSend.State :=
  frs.foldl (fun ps (p : Nat × Nat) => PSend.ackFragment ps p.1 p.2) ps

theorem ackFrags_nil (ps : PSend.State) : ackFrags ps [] = ps := rfl

theorem ackFrags_append (ps : PSend.State) (a b : List (Nat × Nat)) :
    ackFrags ps (a ++ b) = ackFrags (ackFrags ps a) b := by
  unfold ackFrags; rw [List.foldl_append]

/-- One ack group: `acknowledge_group` on the frame queue, then `acknowledge_fragment` for every
returned fragment reference. The third component accumulates the fragment references. -/
def grpStep (ag : FrameQ.State → AckGroup → Option Nat → R (FrameQ.State × List (Nat × Nat)))
    (rtt : Option Nat) (x : FrameQ.State × PSend.State) (a : AckGroup) :
    R (FrameQ.State × PSend.State) :=
  match ag x.1 a rtt with
  | .error t => .error t
  | .ok (fq, frs) => .ok (fq, ackFrags x.2 frs)

/-- `handleAckFrame` on the components. -/
def ackC (s : State F) (fb pb : Nat) (acks : List AckGroup)
    (ag : FrameQ.State → AckGroup → Option Nat → R (FrameQ.State × List (Nat × Nat)))
    (adv : FrameQ.State → Nat → Option Nat → R FrameQ.State)
    (pack : PSend.State → Nat → R PSend.State) : R (State F) :=
  match acks.foldlM (grpStep ag s.rate.rttMs) (s.fq, s.ps) with
  | .error t => .error t
  | .ok x =>
    match adv x.1 fb s.rate.rttMs with
    | .error t => .error t
    | .ok fq2 =>
      match pack x.2 pb with
      | .error t => .error t
      | .ok ps2 => .ok { s with fq := fq2, ps := ps2 }

theorem foldlM_map {τ σ α : Type} (φ : τ → σ) (f : σ → α → R σ) (g : τ → α → R τ)
    (hstep : ∀ y a, f (φ y) a = (g y a).map φ) (l : List α) (y : τ) :
    l.foldlM f (φ y) = (l.foldlM g y).map φ := by
  induction l generalizing y with
  | nil => rfl
  | cons a l ih =>
    rw [List.foldlM_cons, List.foldlM_cons, hstep]
    cases g y a with
    | error t => rfl
    | ok y' =>
      simp only [Except.map, bind, Except.bind]
      exact ih y'

theorem ackP_eq (s : State F) (fb pb : Nat) (acks : List AckGroup)
    (ag : FrameQ.State → AckGroup → Option Nat → R (FrameQ.State × List (Nat × Nat)))
    (adv : FrameQ.State → Nat → Option Nat → R FrameQ.State)
    (pack : PSend.State → Nat → R PSend.State) :
    ackP s fb pb acks ag adv pack = ackC s fb pb acks ag adv pack := by
  have key := foldlM_map (fun y : FrameQ.State × PSend.State => ({ s with fq := y.1, ps := y.2 } : State F))
    (fun (s1 : State F) a =>
        handleAckFrame.match_3 (fun _ => R (State F)) (ag s1.fq a s.rate.rttMs)
          (fun t => Except.error t) fun fq frs =>
          Except.ok { s1 with fq := fq, ps := List.foldl (fun ps x => handleAckFrame.match_1 (fun _ => PSend.State) x fun uid fid => PSend.ackFragment ps uid fid) s1.ps frs })
    (grpStep ag s.rate.rttMs) (by
      intro y a
      simp only [grpStep]
      generalize ag y.1 a s.rate.rttMs = r
      cases r with
      | error t => rfl
      | ok v => rfl) acks (s.fq, s.ps)
  unfold ackP ackC
  simp only []
  have key' : (List.foldlM
      (fun (s1 : State F) a =>
        handleAckFrame.match_3 (fun _ => R (State F)) (ag s1.fq a s.rate.rttMs)
          (fun t => Except.error t) fun fq frs =>
          Except.ok { s1 with fq := fq, ps := List.foldl (fun ps x => handleAckFrame.match_1 (fun _ => PSend.State) x fun uid fid => PSend.ackFragment ps uid fid) s1.ps frs })
      s acks : R (State F)) = _ := key
  rw [key']
  cases List.foldlM (grpStep ag s.rate.rttMs) (s.fq, s.ps) acks with
  | error t => rfl
  | ok x =>
    simp only [Except.map]
    generalize adv x.1 fb s.rate.rttMs = r2
    generalize pack x.2 pb = r3
    cases r2 with
    | error t => rfl
    | ok fq2 =>
      cases r3 with
      | error t => rfl
      | ok ps2 => rfl

/-- The groups of an ack frame, applied to (frame queue, packet sender). -/
def ackGroups (rtt : Option Nat) (acks : List AckGroup) (x : FrameQ.State × PSend.State) :
    R (FrameQ.State × PSend.State) :=
  acks.foldlM (grpStep FrameQ.acknowledgeGroup rtt) x

/-- **Characterisation of `handle_ack_frame`**: the ack groups in order, then
`advance_transfer_window(frame_base)` and `acknowledge(packet_base)`; the result differs from `s` in
`fq` and `ps` only. -/
theorem handleAckFrame_char (s : State F) (fb pb : Nat) (acks : List AckGroup) :
    handleAckFrame s fb pb acks =
      ackC s fb pb acks FrameQ.acknowledgeGroup FrameQ.advanceTransferWindow PSend.acknowledge := by
  rw [handleAckFrame_eq, ackP_eq]

theorem ackC_ok (s s' : State F) (fb pb : Nat) (acks : List AckGroup)
    (ag : FrameQ.State → AckGroup → Option Nat → R (FrameQ.State × List (Nat × Nat)))
    (adv : FrameQ.State → Nat → Option Nat → R FrameQ.State)
    (pack : PSend.State → Nat → R PSend.State) (h : ackC s fb pb acks ag adv pack = .ok s') :
    ∃ fq1 ps1 fq2 ps2, acks.foldlM (grpStep ag s.rate.rttMs) (s.fq, s.ps) = .ok (fq1, ps1) ∧
      adv fq1 fb s.rate.rttMs = .ok fq2 ∧ pack ps1 pb = .ok ps2 ∧
      s' = { s with fq := fq2, ps := ps2 } := by
  unfold ackC at h
  cases h1 : List.foldlM (grpStep ag s.rate.rttMs) (s.fq, s.ps) acks with
  | error t => rw [h1] at h; cases h
  | ok x =>
    rw [h1] at h
    simp only [] at h
    cases h2 : adv x.1 fb s.rate.rttMs with
    | error t => rw [h2] at h; cases h
    | ok fq2 =>
      rw [h2] at h
      simp only [] at h
      cases h3 : pack x.2 pb with
      | error t => rw [h3] at h; cases h
      | ok ps2 =>
        rw [h3] at h
        simp only [Except.ok.injEq] at h
        exact ⟨x.1, x.2, fq2, ps2, rfl, h2, h3, h.symm⟩

theorem ackC_intro (s : State F) (fb pb : Nat) (acks : List AckGroup)
    (ag : FrameQ.State → AckGroup → Option Nat → R (FrameQ.State × List (Nat × Nat)))
    (adv : FrameQ.State → Nat → Option Nat → R FrameQ.State)
    (pack : PSend.State → Nat → R PSend.State) (fq1 fq2 : FrameQ.State) (ps1 ps2 : PSend.State)
    (h1 : acks.foldlM (grpStep ag s.rate.rttMs) (s.fq, s.ps) = .ok (fq1, ps1))
    (h2 : adv fq1 fb s.rate.rttMs = .ok fq2) (h3 : pack ps1 pb = .ok ps2) :
    ackC s fb pb acks ag adv pack = .ok { s with fq := fq2, ps := ps2 } := by
  unfold ackC
  rw [h1]
  simp only []
  rw [h2]
  simp only []
  rw [h3]

end Uflow.HcAck
