import Uflow.Lemmas.PRecvOrdDefs

/-!
Helper lemmas for C01 / C02 (receiver ordering), part 3: the ordering invariant `Ord` of the
receiver state (window end, flagged slots, channel base ids and their markers), the ghost invariant
`GI` tying the delivery log to the state, and their preservation by `handleDatagram`.
-/

namespace Uflow.PRecv

open Uflow Uflow.Gen Uflow.Codec

/-- `channel.base_id` of channel `c` (`none` also for a channel that does not exist). -/
def cbase (s : State) (c : Nat) : Option Nat := (s.chans[c]?).bind (·.base)

theorem cbase_of_get {s : State} {c : Nat} {ch : Chan} (h : s.chans[c]? = some ch) :
    cbase s c = ch.base := by
  simp [cbase, h]

theorem chanBase_of_get {s : State} {c : Nat} {ch : Chan} (h : s.chans[c]? = some ch) (base : Nat) :
    chanBase s c base = .ok ((cbase s c).getD base) := by
  simp [chanBase, h, cbase]

/-- The ordering invariant of the receiver state. -/
structure Ord (W : Nat) (s : State) : Prop where
  /-- `end_id` is at most one window ahead of `base_id` -/
  ewin : pidSub s.endId s.baseId ≤ W
  /-- every undelivered packet of the window lies before `end_id` -/
  fin : ∀ x, x < 2^20 → pidSub x s.baseId < W → (lget s.slots (wi W x)).dataFlag = true →
    pidSub x s.baseId < pidSub s.endId s.baseId
  /-- a set channel base id is 1 … W ahead of the window base -/
  cbr : ∀ c b, cbase s c = some b → b < 2^20 ∧ 1 ≤ pidSub b s.baseId ∧ pidSub b s.baseId ≤ W
  /-- … and is marked in `channel_base_markers` -/
  cbm : ∀ c b, cbase s c = some b → (lget s.slots (wi W b)).marker = some c
  /-- every marker belongs to a channel whose base id sits there -/
  mcb : ∀ i c, (lget s.slots i).marker = some c → ∃ b, cbase s c = some b ∧ wi W b = i
  /-- the packet just before a channel base id has been delivered and cannot be re-added -/
  cbd : ∀ c b x, cbase s c = some b → x < 2^20 → pidAdd x 1 = b →
    (lget s.slots (wi W x)).dataFlag = false ∧ ∃ a, (lget s.slots (wi W x)).asm = .closed a
  /-- no undelivered packet lies behind its channel's base id -/
  fcb : ∀ x, x < 2^20 → pidSub x s.baseId < W → (lget s.slots (wi W x)).dataFlag = true →
    ∀ b, cbase s (lget s.slots (wi W x)).chan = some b → pidSub b s.baseId ≤ pidSub x s.baseId

theorem ord_init (W b m : Nat) : Ord W (init W b m) where
  ewin := by show pidSub b b ≤ W; rw [pidSub_self]; exact Nat.zero_le _
  fin := by intro x _ _ h; exact absurd h (by simp [init, lget])
  cbr := by
    intro c b' h
    simp only [cbase, init, List.getElem?_replicate] at h
    split at h <;> cases h
  cbm := by
    intro c b' h
    simp only [cbase, init, List.getElem?_replicate] at h
    split at h <;> cases h
  mcb := by intro i c h; exact absurd h (by simp [init, lget])
  cbd := by
    intro c b' x h
    simp only [cbase, init, List.getElem?_replicate] at h
    split at h <;> cases h
  fcb := by intro x _ _ h; exact absurd h (by simp [init, lget])

/-! ### the ghost invariant -/

/-- The C02 condition on a delivery `e` given the earlier deliveries `rest`: if `e` names a channel
parent, that parent is behind the window base, or at or behind an earlier delivery of the channel. -/
def ParCond (e : LogE) (rest : List LogE) : Prop :=
  e.cpl ≠ 0 → e.uid < e.wb + e.cpl ∨ ∃ e' ∈ rest, e'.chan = e.chan ∧ e.uid ≤ e'.uid + e.cpl

/-- `ParCond` for every entry of a newest-first log. -/
def ParOkR : List LogE → Prop
  | [] => True
  | e :: rest => ParCond e rest ∧ ParOkR rest

theorem parOkR_split : ∀ (a : List LogE) (e : LogE) (b : List LogE), ParOkR (a ++ e :: b) → ParCond e b
  | [], _, _, h => h.1
  | _ :: a, e, b, h => parOkR_split a e b h.2

/-- Ghost invariant: `b0` initial window base, `adv` total window advance, `log` deliveries so far. -/
structure GI (W b0 adv : Nat) (log : List LogE) (s : State) : Prop where
  gbase : s.baseId = (b0 + adv) % 2^20
  /-- the unwrapped id determines the sequence id -/
  gseq : ∀ e ∈ log, e.seq = (b0 + e.uid) % 2^20
  gchan : ∀ e ∈ log, e.chan < CHANNEL_COUNT
  /-- delivered inside the window -/
  gwin : ∀ e ∈ log, e.wb ≤ e.uid ∧ e.uid < e.wb + W ∧ e.wb ≤ adv
  /-- every delivery of a channel is behind the channel's current base id -/
  glt : ∀ e ∈ log, e.uid < adv + pidSub ((cbase s e.chan).getD s.baseId) s.baseId
  /-- a set channel base id is one past a delivery of the channel -/
  gcb : ∀ c b, cbase s c = some b → ∃ e ∈ log, e.chan = c ∧ e.uid + 1 = adv + pidSub b s.baseId
  gord : log.Pairwise (fun a b => a.chan = b.chan → a.uid < b.uid)
  gpar : ParOkR log.reverse

theorem gi_init (W b m : Nat) (hb : b < 2^20) : GI W b 0 [] (init W b m) where
  gbase := by show b = (b + 0) % 2^20; omega
  gseq := by intro e h; cases h
  gchan := by intro e h; cases h
  gwin := by intro e h; cases h
  glt := by intro e h; cases h
  gcb := by
    intro c b' h
    simp only [cbase, init, List.getElem?_replicate] at h
    split at h <;> cases h
  gord := List.Pairwise.nil
  gpar := trivial

/-- `GI` only reads `baseId` and the channel base ids of the state. -/
theorem GI.frame {W b0 adv : Nat} {log : List LogE} {s s' : State} (h : GI W b0 adv log s)
    (hb : s'.baseId = s.baseId) (hc : ∀ c, cbase s' c = cbase s c) : GI W b0 adv log s' where
  gbase := by rw [hb]; exact h.gbase
  gseq := h.gseq
  gchan := h.gchan
  gwin := h.gwin
  glt := by intro e he; rw [hc, hb]; exact h.glt e he
  gcb := by intro c b hcb; rw [hc] at hcb; rw [hb]; exact h.gcb c b hcb
  gord := h.gord
  gpar := h.gpar

/-! ### `tryAdd` only touches the assembly entry of its slot -/

theorem lget_setSlot (s : State) (i j : Nat) (x : Slot) :
    lget (setSlot s i x).slots j = if j = i then x else lget s.slots j := by
  rw [setSlot_slots, lget_lset]

structure TryAddFrame (s : State) (i : Nat) (d : Datagram) (s' : State) (o : Option Packet) : Prop where
  base : s'.baseId = s.baseId
  endId : s'.endId = s.endId
  chans : s'.chans = s.chans
  wsz : s'.windowSize = s.windowSize
  other : ∀ j, j ≠ i → lget s'.slots j = lget s.slots j
  same : ∃ A, lget s'.slots i = { lget s.slots i with asm := A }
  closed : (∃ a, (lget s.slots i).asm = .closed a) → s' = s ∧ o = none
  pkt : ∀ p, o = some p → p.channelId = d.channelId ∧ p.channelParentLead = d.channelParentLead ∧
    p.windowParentLead = d.windowParentLead

theorem tryAddFrame_refl (s : State) (i : Nat) (d : Datagram) : TryAddFrame s i d s none :=
  ⟨rfl, rfl, rfl, rfl, fun _ _ => rfl, ⟨_, rfl⟩, fun _ => ⟨rfl, rfl⟩, fun _ h => by cases h⟩

theorem tryAddFrame_set (s : State) (i : Nat) (d : Datagram) (A : Asm) (al : Nat) (o : Option Packet)
    (hn : ∀ a, (lget s.slots i).asm ≠ .closed a)
    (ho : ∀ p, o = some p → p.channelId = d.channelId ∧ p.channelParentLead = d.channelParentLead ∧
      p.windowParentLead = d.windowParentLead) :
    TryAddFrame s i d { setSlot s i { getSlot s i with asm := A } with alloc := al } o where
  base := rfl
  endId := rfl
  chans := rfl
  wsz := rfl
  other := by
    intro j hj
    show lget (lset s.slots i _) j = _
    rw [lget_lset_ne _ _ _ _ hj]
  same := ⟨A, by show lget (lset s.slots i _) i = _; rw [lget_lset_same]; rfl⟩
  closed := by rintro ⟨a, ha⟩; exact absurd ha (hn a)
  pkt := ho

theorem tryAdd_frame (s : State) (i : Nat) (d : Datagram) (s' : State) (o : Option Packet)
    (h : tryAdd s i d = .ok (s', o)) : TryAddFrame s i d s' o := by
  unfold tryAdd at h
  simp only at h
  cases hasm : (getSlot s i).asm with
  | opened =>
    have hn : ∀ a, (lget s.slots i).asm ≠ .closed a := by
      intro a hc; rw [← getSlot_eq, hasm] at hc; cases hc
    rw [hasm] at h
    simp only at h
    split at h
    · cases h
      exact tryAddFrame_set s i d (.closed 0) s.alloc _ hn (by intro p hp; cases hp; exact ⟨rfl, rfl, rfl⟩)
    · split at h
      · cases h
        exact tryAddFrame_set s i d _ _ _ hn (by intro p hp; cases hp; exact ⟨rfl, rfl, rfl⟩)
      · split at h
        · cases h
        · cases h
          exact tryAddFrame_set s i d _ _ _ hn (by intro p hp; cases hp)
  | closed a =>
    rw [hasm] at h
    simp only at h
    cases h
    exact tryAddFrame_refl s i d
  | active a chan wpl cpl last buf =>
    have hn : ∀ a, (lget s.slots i).asm ≠ .closed a := by
      intro a hc; rw [← getSlot_eq, hasm] at hc; cases hc
    rw [hasm] at h
    simp only at h
    split at h
    · cases h
      exact tryAddFrame_refl s i d
    · split at h
      · cases h
      · split at h
        · cases h
          exact tryAddFrame_set s i d _ s.alloc _ hn (by intro p hp; cases hp; exact ⟨rfl, rfl, rfl⟩)
        · cases h
          exact tryAddFrame_set s i d _ s.alloc _ hn (by intro p hp; cases hp)

/-! ### `handleDatagram` -/

theorem end_arith (y B E W : Nat) (hB : B < 2^20) (hE : E < 2^20) (hW : 2 * W ≤ 2^20)
    (hk : pidSub y B < W) (he : pidSub E B ≤ W) :
    pidSub (if pidSub y E < W then pidAdd y 1 else E) B ≤ W ∧
    pidSub y B < pidSub (if pidSub y E < W then pidAdd y 1 else E) B ∧
    pidSub E B ≤ pidSub (if pidSub y E < W then pidAdd y 1 else E) B := by
  rw [← pidSub_mod20 y B, ← pidSub_mod20 y E, ← pidAdd_mod20 y 1] at *
  have hy : y % 2^20 < 2^20 := Nat.mod_lt _ (by decide)
  generalize y % 2^20 = y0 at *
  have h1 := pidAdd_lt y0 1
  have := pidSub_cases _ _ h1 hB
  have := pidSub_cases _ _ hy hB
  have := pidSub_cases _ _ hE hB
  have := pidSub_cases _ _ hy hE
  have := pidAdd_cases _ hy
  by_cases hc : pidSub y0 E < W
  · rw [if_pos hc]; omega
  · rw [if_neg hc]; omega

theorem cbase_modify_count (s : State) (c0 : Nat) (f : Chan → Chan) (hf : ∀ ch, (f ch).base = ch.base)
    (c : Nat) : ((s.chans.modify c0 f)[c]?).bind (·.base) = cbase s c := by
  unfold cbase
  rw [List.getElem?_modify]
  cases s.chans[c]? with
  | none => rfl
  | some ch =>
    simp only [Option.bind_some]
    split
    · exact hf ch
    · rfl

theorem stepWr_facts (d : Datagram) (p : Packet) (base : Nat) (s : State) :
    (stepWr d p base s).baseId = s.baseId ∧ (stepWr d p base s).endId = s.endId ∧
    (stepWr d p base s).chans = s.chans ∧ (stepWr d p base s).slots = s.slots := by
  unfold stepWr; split <;> exact ⟨rfl, rfl, rfl, rfl⟩

theorem stepRdy_facts (d : Datagram) (p : Packet) (cb : Nat) (s : State) :
    (stepRdy d p cb s).baseId = s.baseId ∧ (stepRdy d p cb s).endId = s.endId ∧
    (stepRdy d p cb s).chans = s.chans ∧ (stepRdy d p cb s).slots = s.slots := by
  unfold stepRdy; split <;> exact ⟨rfl, rfl, rfl, rfl⟩

theorem stepCnt_facts (d : Datagram) (s : State) :
    (stepCnt d s).baseId = s.baseId ∧ (stepCnt d s).endId = s.endId ∧
    (stepCnt d s).chans = (s.chans.modify d.channelId fun ch => { ch with count := ch.count + 1 }) ∧
    (stepCnt d s).slots = s.slots := ⟨rfl, rfl, rfl, rfl⟩

theorem stepEnd_facts (d : Datagram) (s : State) :
    (stepEnd d s).baseId = s.baseId ∧
    (stepEnd d s).endId = (if pidSub d.sequenceId s.endId < s.windowSize then pidAdd d.sequenceId 1 else s.endId) ∧
    (stepEnd d s).chans = s.chans ∧ (stepEnd d s).slots = s.slots := by
  unfold stepEnd
  by_cases hc : pidSub d.sequenceId s.endId < s.windowSize
  · rw [if_pos hc, if_pos hc]; exact ⟨rfl, rfl, rfl, rfl⟩
  · rw [if_neg hc, if_neg hc]; exact ⟨rfl, rfl, rfl, rfl⟩

/-- Field-by-field description of `hdPost`. -/
theorem hdPost_facts (s1 : State) (i : Nat) (d : Datagram) (p : Packet) (cb base : Nat) :
    (hdPost s1 i d p cb base).baseId = s1.baseId ∧
    (hdPost s1 i d p cb base).endId =
      (if pidSub d.sequenceId s1.endId < s1.windowSize then pidAdd d.sequenceId 1 else s1.endId) ∧
    (∀ c, cbase (hdPost s1 i d p cb base) c = cbase s1 c) ∧
    (hdPost s1 i d p cb base).slots = lset s1.slots i { getSlot s1 i with
        chan := p.channelId, cpl := p.channelParentLead, wpl := p.windowParentLead, data := p.data,
        entryFlag := true, dataFlag := true } := by
  unfold hdPost
  generalize hx0 : ({ getSlot s1 i with
        chan := p.channelId, cpl := p.channelParentLead, wpl := p.windowParentLead, data := p.data,
        entryFlag := true, dataFlag := true } : Slot) = x0
  generalize hs0 : setSlot s1 i x0 = s0
  have h0 : s0.baseId = s1.baseId ∧ s0.endId = s1.endId ∧ s0.windowSize = s1.windowSize ∧
      s0.chans = s1.chans ∧ s0.slots = lset s1.slots i x0 := by
    rw [← hs0]; exact ⟨rfl, rfl, rfl, rfl, rfl⟩
  obtain ⟨a1, a2, a3, a4⟩ := stepWr_facts d p base (stepRdy d p cb (stepCnt d (stepEnd d s0)))
  obtain ⟨b1, b2, b3, b4⟩ := stepRdy_facts d p cb (stepCnt d (stepEnd d s0))
  obtain ⟨e1, e2, e3, e4⟩ := stepCnt_facts d (stepEnd d s0)
  obtain ⟨c1, c2, c3, c4⟩ := stepEnd_facts d s0
  refine ⟨?_, ?_, ?_, ?_⟩
  · rw [a1, b1, e1, c1, h0.1]
  · rw [a2, b2, e2, c2, h0.2.1, h0.2.2.1]
  · intro c
    unfold cbase
    rw [a3, b3, e3, c3, h0.2.2.2.1]
    exact cbase_modify_count s1 d.channelId (fun ch => { ch with count := ch.count + 1 }) (fun _ => rfl) c
  · rw [a4, b4, e4, c4, h0.2.2.2.2]

theorem handleDatagram_ord {W M : Nat} (hW : WOk W) {s s' : State} (hinv : Inv W M s) (h : Ord W s)
    (d : Datagram) (hd : handleDatagram s d = .ok s') :
    Ord W s' ∧ s'.baseId = s.baseId ∧ ∀ c, cbase s' c = cbase s c := by
  rw [handleDatagram_eq] at hd
  by_cases hv : datagramIsValid d = true
  case neg => rw [if_pos (by simpa using hv)] at hd; cases hd; exact ⟨h, rfl, fun _ => rfl⟩
  rw [if_neg (by simp [hv])] at hd
  obtain ⟨hchan, -, -⟩ := valid_facts d hv
  obtain ⟨ch0, hch0⟩ := hinv.chan_get d.channelId hchan
  rw [chanBase_of_get hch0] at hd
  simp only at hd
  split at hd
  · cases hd; exact ⟨h, rfl, fun _ => rfl⟩
  rename_i hlead
  split at hd
  · cases hd; exact ⟨h, rfl, fun _ => rfl⟩
  rename_i hclead
  rw [widx_eq hinv] at hd
  rw [hinv.wsz] at hlead
  -- the normalised id of the datagram
  have hxlt : d.sequenceId % 2^20 < 2^20 := Nat.mod_lt _ (by decide)
  have hwx : wi W (d.sequenceId % 2^20) = wi W d.sequenceId := wi_mod20 hW _
  have hox : ∀ b, pidSub (d.sequenceId % 2^20) b = pidSub d.sequenceId b := fun b => pidSub_mod20 _ b
  -- slots sharing the index of the datagram have its offset
  have hsame : ∀ x, x < 2^20 → pidSub x s.baseId < W → wi W x = wi W d.sequenceId →
      pidSub x s.baseId = pidSub d.sequenceId s.baseId := by
    intro x hx hxo hwi
    rw [← hox]
    exact off_eq_of_wi hW x _ s.baseId hinv.blt (by rw [hox]; omega) (by rw [hox]; omega) (by rw [hwx]; exact hwi)
  cases ht : tryAdd s (wi W d.sequenceId) d with
  | error t => rw [ht] at hd; cases hd
  | ok r =>
    obtain ⟨s1, o⟩ := r
    rw [ht] at hd
    have hfr := tryAdd_frame s _ d s1 o ht
    obtain ⟨A, hA⟩ := hfr.same
    have hc1 : ∀ c, cbase s1 c = cbase s c := by intro c; unfold cbase; rw [hfr.chans]
    -- facts about `s1` shared by both outcomes
    have hflag1 : ∀ j, (lget s1.slots j).dataFlag = (lget s.slots j).dataFlag := by
      intro j
      by_cases hj : j = wi W d.sequenceId
      · subst hj; rw [hA]
      · rw [hfr.other j hj]
    have hmark1 : ∀ j, (lget s1.slots j).marker = (lget s.slots j).marker := by
      intro j
      by_cases hj : j = wi W d.sequenceId
      · subst hj; rw [hA]
      · rw [hfr.other j hj]
    have hchan1 : ∀ j, (lget s1.slots j).chan = (lget s.slots j).chan := by
      intro j
      by_cases hj : j = wi W d.sequenceId
      · subst hj; rw [hA]
      · rw [hfr.other j hj]
    have hcbd1 : ∀ c b x, cbase s c = some b → x < 2^20 → pidAdd x 1 = b →
        ((lget s1.slots (wi W x)).dataFlag = false ∧ ∃ a, (lget s1.slots (wi W x)).asm = .closed a) ∧
        (wi W x = wi W d.sequenceId → s1 = s ∧ o = none) := by
      intro c b x hcb hx hxb
      have h0 := h.cbd c b x hcb hx hxb
      by_cases hj : wi W x = wi W d.sequenceId
      · have := hfr.closed (by rw [← hj]; exact h0.2)
        refine ⟨?_, fun _ => this⟩
        rw [this.1]; exact h0
      · refine ⟨?_, fun hc => absurd hc hj⟩
        rw [hfr.other _ hj]; exact h0
    have hord1 : Ord W s1 := by
      refine ⟨?_, ?_, ?_, ?_, ?_, ?_, ?_⟩
      · rw [hfr.base, hfr.endId]; exact h.ewin
      · intro x hx hxo hf
        rw [hfr.base] at hxo ⊢
        rw [hfr.endId]
        rw [hflag1] at hf
        exact h.fin x hx hxo hf
      · intro c b hcb; rw [hc1] at hcb; rw [hfr.base]; exact h.cbr c b hcb
      · intro c b hcb; rw [hc1] at hcb; rw [hmark1]; exact h.cbm c b hcb
      · intro i c hm; rw [hmark1] at hm; rw [hc1]; exact h.mcb i c hm
      · intro c b x hcb hx hxb; rw [hc1] at hcb; exact (hcbd1 c b x hcb hx hxb).1
      · intro x hx hxo hf b hcb
        rw [hfr.base] at hxo ⊢
        rw [hflag1] at hf
        rw [hchan1, hc1] at hcb
        exact h.fcb x hx hxo hf b hcb
    cases o with
    | none => cases hd; exact ⟨hord1, hfr.base, hc1⟩
    | some p =>
      simp only at hd
      cases hd
      obtain ⟨hpc, -, -⟩ := hfr.pkt p rfl
      obtain ⟨hb2, he2, hc2, hs2⟩ := hdPost_facts s1 (wi W d.sequenceId) d p
        ((cbase s d.channelId).getD s.baseId) s.baseId
      -- the slot of the datagram is not one just before a channel base
      have hnot : ∀ c b x, cbase s c = some b → x < 2^20 → pidAdd x 1 = b → wi W x ≠ wi W d.sequenceId := by
        intro c b x hcb hx hxb hwi
        have := ((hcbd1 c b x hcb hx hxb).2 hwi).2
        cases this
      have hlget2 : ∀ j, lget (hdPost s1 (wi W d.sequenceId) d p
          ((cbase s d.channelId).getD s.baseId) s.baseId).slots j =
          if j = wi W d.sequenceId then { getSlot s1 (wi W d.sequenceId) with
            chan := p.channelId, cpl := p.channelParentLead, wpl := p.windowParentLead, data := p.data,
            entryFlag := true, dataFlag := true } else lget s1.slots j := by
        intro j; rw [hs2, lget_lset]
      -- offsets of the datagram and of the window end
      have hk : pidSub d.sequenceId s.baseId < W := by omega
      have hend := end_arith d.sequenceId s.baseId s.endId W hinv.blt hinv.elt hW.le hk h.ewin
      rw [hfr.endId, hfr.wsz, hinv.wsz] at he2
      rw [hfr.base] at hb2
      generalize hdPost s1 (wi W d.sequenceId) d p ((cbase s d.channelId).getD s.baseId) s.baseId = s2 at *
      refine ⟨⟨?_, ?_, ?_, ?_, ?_, ?_, ?_⟩, hb2, fun c => (hc2 c).trans (hc1 c)⟩
      · rw [hb2, he2]; exact hend.1
      · intro x hx hxo hf
        rw [hb2] at hxo ⊢
        rw [he2]
        rw [hlget2] at hf
        split at hf
        · rename_i hwi
          rw [hsame x hx hxo hwi]; exact hend.2.1
        · have := hord1.fin x hx (by rw [hfr.base]; exact hxo) hf
          rw [hfr.base, hfr.endId] at this
          omega
      · intro c b hcb; rw [hc2] at hcb; rw [hb2, ← hfr.base]; exact hord1.cbr c b hcb
      · intro c b hcb
        rw [hc2] at hcb
        rw [hlget2]
        split
        · rename_i hwi
          have := hord1.cbm c b hcb
          rw [hwi] at this
          exact this
        · exact hord1.cbm c b hcb
      · intro i c hm
        rw [hc2]
        rw [hlget2] at hm
        split at hm
        · rename_i hwi
          subst hwi
          exact hord1.mcb _ c hm
        · exact hord1.mcb i c hm
      · intro c b x hcb hx hxb
        rw [hc2] at hcb
        rw [hlget2, if_neg (hnot c b x (by rw [← hc1]; exact hcb) hx hxb)]
        exact hord1.cbd c b x hcb hx hxb
      · intro x hx hxo hf b hcb
        rw [hb2] at hxo ⊢
        rw [hc2] at hcb
        rw [hlget2] at hf hcb
        split at hf
        · rename_i hwi
          rw [if_pos hwi] at hcb
          simp only at hcb
          rw [hpc, hc1] at hcb
          rw [hcb] at hclead
          simp only [Option.getD_some] at hclead
          rw [hsame x hx hxo hwi]
          omega
        · rename_i hwi
          rw [if_neg hwi] at hcb
          have := hord1.fcb x hx (by rw [hfr.base]; exact hxo) hf b hcb
          rw [hfr.base] at this
          exact this

end Uflow.PRecv
