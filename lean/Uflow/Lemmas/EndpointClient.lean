import Uflow.Model.Endpoint
import Uflow.Lemmas.Codec

/-!
Client endpoint (`Uflow.Endpoint.Client`): decomposition of `Client.step` into its four phases,
API operations / runs, and basic per-transition facts. Everything holds for every `hc : HC H`.
-/

namespace Uflow.Endpoint

open Uflow.Gen Uflow.Codec Uflow.HalfConn

variable {H : Type}

/-! ## Phases of `Client.step` -/

/-- One datagram read from the socket (truncated to the receive buffer), decoded and handled. -/
def Client.frameStep (hc : HC H) (nowMs nowNs : Nat) (acc : Client H × List (List Nat)) (bytes : List Nat) :
    R (Client H × List (List Nat)) :=
  match decode (bytes.take MAX_FRAME_SIZE) with
  | none => .ok acc
  | some f =>
    match acc.1.handleFrame hc f nowMs nowNs with
    | .error e => .error e
    | .ok (c', out) => .ok (c', acc.2 ++ out)

/-- `handle_frames`: all arrivals of a step. -/
def Client.arrivalsPhase (hc : HC H) (c : Client H) (nowMs nowNs : Nat) (arrivals : List (List Nat)) :
    R (Client H × List (List Nat)) :=
  arrivals.foldlM (Client.frameStep hc nowMs nowNs) (c, [])

/-- The disconnect gate of `step_if_active`. -/
def discGate (hc : HC H) (sig : Option DisconnectMode) (h : H) : Bool :=
  match sig with
  | some .now => true
  | some .flush => !hc.isSendPending h
  | none => false

/-- `step_if_active`. -/
def Client.stepPhase (hc : HC H) (c : Client H) (nowMs nowNs : Nat) : R (Client H × List (List Nat)) :=
  match c.state with
  | .active ln h t sig =>
    if discGate hc sig h then
      match hc.receive h with
      | .error e => .error e
      | .ok (_, pkts) =>
        .ok ({ c with eventsOut := c.eventsOut ++ pkts.map CEvent.receive,
                      state := .closing discReq (nowMs + CLIENT_DISCONNECT_RESEND_INTERVAL_MS) CLIENT_DISCONNECT_RESEND_COUNT }, [discReq])
    else
      match hc.step h nowNs with
      | .error e => .error e
      | .ok h =>
        match hc.receive h with
        | .error e => .error e
        | .ok (h, pkts) => .ok ({ c with eventsOut := c.eventsOut ++ pkts.map CEvent.receive, state := .active ln h t sig }, [])
  | _ => .ok (c, [])

/-- The time used by a step. -/
def Client.nowMs (c : Client H) (nowNs : Nat) : Nat := (nowNs - c.timeBase) / 1000000

theorem Client.step_eq (hc : HC H) (c : Client H) (nowNs : Nat) (arrivals : List (List Nat)) :
    Client.step hc c nowNs arrivals =
      (match Client.flush hc c with
       | .error e => .error e
       | .ok (c1, s1) =>
         match c1.arrivalsPhase hc (c.nowMs nowNs) nowNs arrivals with
         | .error e => .error e
         | .ok (c2, s2) =>
           match (c2.handleEvents (c.nowMs nowNs)).1.stepPhase hc (c.nowMs nowNs) nowNs with
           | .error e => .error e
           | .ok (c4, s4) =>
             .ok ({ c4 with eventsOut := [] }, s1 ++ s2 ++ (c2.handleEvents (c.nowMs nowNs)).2 ++ s4, c4.eventsOut)) := by
  rfl

/-! ## `handleFrame`, by state -/

def isTraffic : Frame → Bool
  | .data .. => true
  | .sync .. => true
  | .ack .. => true
  | _ => false

theorem Client.handleFrame_fin (hc : HC H) (c : Client H) (f : Frame) (nowMs nowNs : Nat)
    (hs : c.state = .fin) : c.handleFrame hc f nowMs nowNs = .ok (c, []) := by
  unfold Client.handleFrame
  cases f <;> simp [hs]

theorem Client.handleFrame_closed (hc : HC H) (c : Client H) (f : Frame) (nowMs nowNs t : Nat)
    (hs : c.state = .closed t) :
    c.handleFrame hc f nowMs nowNs = .ok (c, if f = .disconnect then [discAck] else []) := by
  unfold Client.handleFrame
  cases f <;> simp [hs]

theorem Client.handleFrame_closing (hc : HC H) (c : Client H) (f : Frame) (nowMs nowNs : Nat) (req : List Nat) (rt rc : Nat)
    (hs : c.state = .closing req rt rc) :
    c.handleFrame hc f nowMs nowNs = .ok (
      match f with
      | .disconnect => ({ c with eventsOut := c.eventsOut ++ [CEvent.disconnect], state := .closed (nowMs + CLIENT_CLOSED_TIMEOUT_MS) }, [discAck])
      | .disconnectAck => ({ c with eventsOut := c.eventsOut ++ [CEvent.disconnect], state := .fin }, [])
      | _ => (c, [])) := by
  unfold Client.handleFrame
  cases f <;> simp [hs]

theorem Client.handleFrame_pending (hc : HC H) (c : Client H) (f : Frame) (nowMs nowNs : Nat)
    (ln : Nat) (req : List Nat) (rt rc : Nat) (sends : List (List Nat × Nat × SendMode))
    (hs : c.state = .pending ln req rt rc sends) :
    c.handleFrame hc f nowMs nowNs = .ok (
      match f with
      | .synAck nonceAck nonce maxRecvRate _ maxRecvAlloc =>
        if nonceAck = ln then
          ({ c with eventsOut := c.eventsOut ++ [CEvent.connect],
                    state := .active ln
                      (sends.foldl (fun h (e : List Nat × Nat × SendMode) => hc.send h e.1 e.2.1 e.2.2)
                        (hc.new (hcConfig c.ep ln nonce maxRecvRate maxRecvAlloc) nowNs))
                      c.ep.activeTimeoutMs none },
           [encode (.hsAck nonce)])
        else (c, [])
      | .hsError nonceAck e =>
        if nonceAck = ln then ({ c with eventsOut := c.eventsOut ++ [CEvent.error (errOfHs e)], state := .fin }, [])
        else (c, [])
      | _ => (c, [])) := by
  unfold Client.handleFrame
  cases f <;> simp [hs] <;> split <;> rfl

theorem Client.handleFrame_active (hc : HC H) (c : Client H) (f : Frame) (nowMs nowNs : Nat)
    (ln : Nat) (h : H) (t : Nat) (sig : Option DisconnectMode)
    (hs : c.state = .active ln h t sig) :
    c.handleFrame hc f nowMs nowNs =
      match f with
      | .synAck nonceAck nonce _ _ _ => .ok (c, if nonceAck = ln then [encode (.hsAck nonce)] else [])
      | .disconnect =>
        match hc.receive h with
        | .error e => .error e
        | .ok (_, pkts) =>
          .ok ({ c with eventsOut := c.eventsOut ++ pkts.map CEvent.receive ++ [CEvent.disconnect],
                        state := .closed (nowMs + CLIENT_CLOSED_TIMEOUT_MS) }, [discAck])
      | .syn .. => .ok (c, [])
      | .hsAck .. => .ok (c, [])
      | .hsError .. => .ok (c, [])
      | .disconnectAck => .ok (c, [])
      | f =>
        match hc.dispatch h f with
        | .error e => .error e
        | .ok h' => .ok ({ c with state := .active ln h' (nowMs + c.ep.activeTimeoutMs) sig }, []) := by
  unfold Client.handleFrame
  cases f <;> simp [hs]
  all_goals (split <;> simp [*])


/-! ## Other transitions, by state -/

theorem Client.handleEvents_fin (c : Client H) (nowMs : Nat) (hs : c.state = .fin) :
    c.handleEvents nowMs = (c, []) := by
  simp [Client.handleEvents, hs]

theorem Client.handleEvents_closed (c : Client H) (nowMs t : Nat) (hs : c.state = .closed t) :
    c.handleEvents nowMs = (if nowMs ≥ t then { c with state := .fin } else c, []) := by
  simp only [Client.handleEvents, hs]; split <;> rfl

theorem Client.handleEvents_closing (c : Client H) (nowMs : Nat) (req : List Nat) (rt rc : Nat)
    (hs : c.state = .closing req rt rc) :
    c.handleEvents nowMs =
      if nowMs ≥ rt then
        if rc > 0 then
          ({ c with state := .closing req (nowMs + CLIENT_DISCONNECT_RESEND_INTERVAL_MS) (rc - 1) }, [req])
        else ({ c with eventsOut := c.eventsOut ++ [CEvent.error .timeout], state := .fin }, [])
      else (c, []) := by
  simp only [Client.handleEvents, hs]

theorem Client.handleEvents_pending (c : Client H) (nowMs : Nat) (ln : Nat) (req : List Nat) (rt rc : Nat)
    (sends : List (List Nat × Nat × SendMode)) (hs : c.state = .pending ln req rt rc sends) :
    c.handleEvents nowMs =
      if nowMs ≥ rt then
        if rc > 0 then
          ({ c with state := .pending ln req (nowMs + CLIENT_HANDSHAKE_RESEND_INTERVAL_MS) (rc - 1) sends }, [req])
        else ({ c with eventsOut := c.eventsOut ++ [CEvent.error .timeout], state := .fin }, [])
      else (c, []) := by
  simp only [Client.handleEvents, hs]

theorem Client.handleEvents_active (c : Client H) (nowMs : Nat) (ln : Nat) (h : H) (t : Nat)
    (sig : Option DisconnectMode) (hs : c.state = .active ln h t sig) :
    c.handleEvents nowMs =
      if nowMs ≥ t then ({ c with eventsOut := c.eventsOut ++ [CEvent.error .timeout], state := .fin }, [])
      else (c, []) := by
  simp only [Client.handleEvents, hs]

theorem Client.stepPhase_active (hc : HC H) (c : Client H) (nowMs nowNs : Nat) (ln : Nat) (h : H) (t : Nat)
    (sig : Option DisconnectMode) (hs : c.state = .active ln h t sig) :
    c.stepPhase hc nowMs nowNs =
      if discGate hc sig h then
        match hc.receive h with
        | .error e => .error e
        | .ok (_, pkts) =>
          .ok ({ c with eventsOut := c.eventsOut ++ pkts.map CEvent.receive,
                        state := .closing discReq (nowMs + CLIENT_DISCONNECT_RESEND_INTERVAL_MS) CLIENT_DISCONNECT_RESEND_COUNT }, [discReq])
      else
        match hc.step h nowNs with
        | .error e => .error e
        | .ok h =>
          match hc.receive h with
          | .error e => .error e
          | .ok (h, pkts) => .ok ({ c with eventsOut := c.eventsOut ++ pkts.map CEvent.receive, state := .active ln h t sig }, []) := by
  simp only [Client.stepPhase, hs]

theorem Client.stepPhase_not_active (hc : HC H) (c : Client H) (nowMs nowNs : Nat)
    (hs : ∀ ln h t sig, c.state ≠ .active ln h t sig) :
    c.stepPhase hc nowMs nowNs = .ok (c, []) := by
  unfold Client.stepPhase
  split
  · next ln h t sig heq => exact absurd heq (hs ln h t sig)
  · rfl

theorem Client.flush_not_active (hc : HC H) (c : Client H)
    (hs : ∀ ln h t sig, c.state ≠ .active ln h t sig) :
    c.flush hc = .ok (c, []) := by
  unfold Client.flush
  split
  · next ln h t sig heq => exact absurd heq (hs ln h t sig)
  · rfl

theorem Client.flush_active (hc : HC H) (c : Client H) (ln : Nat) (h : H) (t : Nat)
    (sig : Option DisconnectMode) (hs : c.state = .active ln h t sig) :
    c.flush hc =
      match hc.flush h c.rng with
      | .error e => .error e
      | .ok (h, rng, frames) => .ok ({ c with rng := rng, state := .active ln h t sig }, frames) := by
  simp only [Client.flush, hs]
  split <;> simp [*]

/-! ## API operations and runs -/

inductive COp where
  | step (nowNs : Nat) (arrivals : List (List Nat))
  | send (data : List Nat) (chan : Nat) (mode : SendMode)
  | disconnect (m : DisconnectMode)
  | flush

/-- One API call: new state, datagrams sent, events delivered to the application. -/
def Client.apply (hc : HC H) (c : Client H) : COp → R (Client H × List (List Nat) × List CEvent)
  | .step n a => c.step hc n a
  | .send d ch m => .ok (c.send hc d ch m, [], [])
  | .disconnect m => .ok (c.disconnect m, [], [])
  | .flush =>
    match c.flush hc with
    | .error e => .error e
    | .ok (c', s) => .ok (c', s, [])

/-- A sequence of API calls (a trap anywhere makes the whole run a trap; every trap-free prefix of a
real execution is a run): final state, all datagrams sent, all events delivered, in order. -/
def Client.run (hc : HC H) : Client H → List COp → R (Client H × List (List Nat) × List CEvent)
  | c, [] => .ok (c, [], [])
  | c, op :: ops =>
    match c.apply hc op with
    | .error e => .error e
    | .ok (c1, s1, e1) =>
      match Client.run hc c1 ops with
      | .error e => .error e
      | .ok (c2, s2, e2) => .ok (c2, s1 ++ s2, e1 ++ e2)

/-! ## The event-stream monitor -/

/-- Monitor of the client's event stream: `idle` (nothing delivered yet), `conn` (after `connect`),
`done` (after the terminal event). -/
inductive CPhase where
  | idle | conn | done
  deriving DecidableEq, Repr

def CPhase.next : CPhase → CEvent → Option CPhase
  | .idle, .connect => some .conn
  | .idle, .error _ => some .done          -- handshake refused / timed out
  | .conn, .receive _ => some .conn
  | .conn, .disconnect => some .done
  | .conn, .error .timeout => some .done    -- the only error of an established connection
  | _, _ => none

def CPhase.run (p : CPhase) : List CEvent → Option CPhase
  | [] => some p
  | e :: es =>
    match p.next e with
    | none => none
    | some p' => p'.run es

theorem CPhase.run_append (p : CPhase) (a b : List CEvent) :
    p.run (a ++ b) = (p.run a).bind (fun p' => p'.run b) := by
  induction a generalizing p with
  | nil => rfl
  | cons e es ih =>
    simp only [List.cons_append, CPhase.run]
    cases p.next e with
    | none => rfl
    | some p' => exact ih p'

theorem CPhase.run_conn_recv (pkts : List (List Nat)) (tail : List CEvent) :
    CPhase.run .conn (pkts.map CEvent.receive ++ tail) = CPhase.run .conn tail := by
  induction pkts with
  | nil => rfl
  | cons x xs ih => simpa [CPhase.run, CPhase.next] using ih

theorem CPhase.run_conn_recv' (pkts : List (List Nat)) :
    CPhase.run .conn (pkts.map CEvent.receive) = some .conn := by
  have := CPhase.run_conn_recv pkts []
  simpa [CPhase.run] using this

/-- Which monitor phases a client state can be in. -/
def Compat : CState H → CPhase → Prop
  | .pending .., p => p = .idle
  | .active .., p => p = .conn
  | .closing .., p => p = .conn
  | .closed _, p => p = .done
  | .fin, p => p ≠ .conn

/-- `c'` is reached from `c` by emitting events the monitor accepts, ending in a compatible phase. -/
def CTr (c c' : Client H) : Prop :=
  c'.ep = c.ep ∧ c'.timeBase = c.timeBase ∧ ∃ evs, c'.eventsOut = c.eventsOut ++ evs ∧
    ∀ p, Compat c.state p → ∃ p', p.run evs = some p' ∧ Compat c'.state p'

theorem CTr.refl (c : Client H) : CTr c c :=
  ⟨rfl, rfl, [], by simp, fun p hp => ⟨p, rfl, hp⟩⟩

theorem CTr.trans {a b c : Client H} (h1 : CTr a b) (h2 : CTr b c) : CTr a c := by
  obtain ⟨ha1, hb1, e1, he1, m1⟩ := h1
  obtain ⟨ha2, hb2, e2, he2, m2⟩ := h2
  refine ⟨ha2.trans ha1, hb2.trans hb1, e1 ++ e2, by rw [he2, he1, List.append_assoc], fun p hp => ?_⟩
  obtain ⟨p1, hr1, hc1⟩ := m1 p hp
  obtain ⟨p2, hr2, hc2⟩ := m2 p1 hc1
  exact ⟨p2, by rw [CPhase.run_append, hr1]; exact hr2, hc2⟩

/-- No event, same state class. -/
theorem CTr.silent {c c' : Client H} (hep : c'.ep = c.ep) (htb : c'.timeBase = c.timeBase)
    (he : c'.eventsOut = c.eventsOut)
    (hcl : ∀ p, Compat c.state p → Compat c'.state p) : CTr c c' :=
  ⟨hep, htb, [], by simp [he], fun p hp => ⟨p, rfl, hcl p hp⟩⟩

end Uflow.Endpoint
