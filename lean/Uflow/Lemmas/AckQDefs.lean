import Uflow.Model.FrameQ

/-!
Operations on the receiver's frame acknowledgement queue (`FrameQ.AckQ`, `frame_ack_queue.rs`), runs, and the
ghost-instrumented copy `TQ` of the queue in which the window base and every pending group carry their
*true* (unwrapped) frame id.
-/

namespace Uflow.AckQB

open Uflow Uflow.Codec Uflow.FrameQ

/-- What the half connection does to the queue: `mark_seen` (every data frame, `handle_data_frame`),
`pop` (`emit_ack_frames` takes the first group), `resynchronize` (every sync frame carrying a frame id). -/
inductive Op where
  | markSeen (id : Nat) (nonce : Bool)
  | pop
  | resync (id : Nat)
  deriving Repr, DecidableEq, Inhabited

/-- `FrameAckQueue::pop` (the popped group is not needed here). -/
def pop (q : AckQ) : AckQ := { q with entries := q.entries.tail }

def step (q : AckQ) : Op → AckQ
  | .markSeen id nonce => q.markSeen id nonce
  | .pop => pop q
  | .resync id => q.resynchronize id

def run (q : AckQ) (ops : List Op) : AckQ := ops.foldl step q

/-! ### the queue before the repair (finding F3) -/

/-- `mark_seen` as it was before the repair: without the `while let Some(first_entry) = …` loop. -/
def markSeenOld (q : AckQ) (id : Nat) (nonce : Bool) : AckQ :=
  if q.contains id then
    let q := q.advance (wadd32 id 1)
    match q.entries.getLast? with
    | some last =>
      let bit := wsub32 id last.baseId
      if bit < 32 then
        if last.bitfield / 2^bit % 2 = 0 then
          { q with entries := q.entries.dropLast ++ [{ last with bitfield := last.bitfield + 2^bit, nonce := (last.nonce != nonce) }] }
        else q
      else { q with entries := q.entries ++ [{ baseId := id, bitfield := 1, nonce := nonce }] }
    | none => { q with entries := q.entries ++ [{ baseId := id, bitfield := 1, nonce := nonce }] }
  else q

/-! ### ghost instrumentation -/

/-- The queue with ghost tags: `trueBase` is the window base as an unbounded counter (`baseId` is its
residue mod 2^32), and every pending group is paired with the true id of its first frame. -/
structure TQ where
  entries : List (AckGroup × Nat)
  baseId : Nat
  size : Nat
  trueBase : Nat
  deriving Repr, DecidableEq, Inhabited

def TQ.init (size base : Nat) : TQ := { entries := [], baseId := base, size := size, trueBase := base }

/-- Forgetting the ghost tags. -/
def TQ.erase (t : TQ) : AckQ := { entries := t.entries.map (·.1), baseId := t.baseId, size := t.size }

def TQ.advance (t : TQ) (nb : Nat) : TQ :=
  let d := wsub32 nb t.baseId
  if d > 0 ∧ d ≤ t.size then { t with baseId := nb, trueBase := t.trueBase + d } else t

def TQ.contains (t : TQ) (id : Nat) : Bool := wsub32 id t.baseId < t.size

def dropOldT (size id : Nat) : List (AckGroup × Nat) → List (AckGroup × Nat)
  | [] => []
  | g :: rest => if wsub32 id g.1.baseId ≥ size then dropOldT size id rest else g :: rest

/-- `mark_seen` on the instrumented queue: the same code; a new group is tagged with the true id of the
frame, `trueBase + (id - baseId mod 2^32)`. -/
def TQ.markSeen (t : TQ) (id : Nat) (nonce : Bool) : TQ :=
  if t.contains id then
    let tid := t.trueBase + wsub32 id t.baseId
    let t := t.advance (wadd32 id 1)
    let t := { t with entries := dropOldT t.size id t.entries }
    match t.entries.getLast? with
    | some last =>
      let bit := wsub32 id last.1.baseId
      if bit < 32 then
        if last.1.bitfield / 2^bit % 2 = 0 then
          { t with entries := t.entries.dropLast ++
              [({ last.1 with bitfield := last.1.bitfield + 2^bit, nonce := (last.1.nonce != nonce) }, last.2)] }
        else t
      else { t with entries := t.entries ++ [({ baseId := id, bitfield := 1, nonce := nonce }, tid)] }
    | none => { t with entries := t.entries ++ [({ baseId := id, bitfield := 1, nonce := nonce }, tid)] }
  else t

def TQ.step (t : TQ) : Op → TQ
  | .markSeen id nonce => t.markSeen id nonce
  | .pop => { t with entries := t.entries.tail }
  | .resync id => t.advance id

def TQ.run (t : TQ) (ops : List Op) : TQ := ops.foldl TQ.step t

/-- The ghost condition on one step: a data frame that is accepted (its id is in the window) is less than
`2^32` ahead, in true distance, of every group still pending. Nothing is required of `pop`/`resync`. -/
def OpOk (t : TQ) : Op → Prop
  | .markSeen id _ =>
    t.contains id → ∀ e ∈ t.entries, t.trueBase + wsub32 id t.baseId - e.2 < 2^32
  | _ => True

instance (t : TQ) (op : Op) : Decidable (OpOk t op) := by
  cases op <;> unfold OpOk <;> infer_instance

/-- The ghost condition along a run. -/
def NoWrap : TQ → List Op → Prop
  | _, [] => True
  | t, op :: ops => OpOk t op ∧ NoWrap (t.step op) ops

instance decNoWrap : (t : TQ) → (ops : List Op) → Decidable (NoWrap t ops)
  | _, [] => isTrue trivial
  | t, op :: ops =>
    have := decNoWrap (t.step op) ops
    inferInstanceAs (Decidable (OpOk t op ∧ NoWrap (t.step op) ops))

end Uflow.AckQB
