import Uflow.Lemmas.PRecvOrdAdvance

/-!
Helper lemmas for C01 / C02 (receiver ordering), part 6: `receiveT`, `resynchronize` and the
instrumented hostile driver `runT` keep the invariants.
-/

namespace Uflow.PRecv

open Uflow Uflow.Gen Uflow.Codec

/-! ### the new base computed by `receive` / `resynchronize` is at most `end_id` / the target -/

theorem windowLoop_le (s : State) (base endId : Nat) (_hb : base < 2^20) (he : endId < 2^20) :
    ∀ (fuel seq nb r : Nat), seq < 2^20 → nb < 2^20 → pidSub seq base ≤ pidSub endId base →
      pidSub nb base ≤ pidSub seq base → windowLoop fuel s seq endId nb = .ok r →
      r < 2^20 ∧ pidSub r base ≤ pidSub endId base := by
  intro fuel
  induction fuel with
  | zero => intro seq nb r _ _ _ _ h; rw [windowLoop] at h; cases h
  | succ fuel ih =>
    intro seq nb r hs hnb hle hnle h
    rw [windowLoop] at h
    by_cases heq : seq = endId
    · rw [if_pos heq] at h; cases h; exact ⟨hnb, by omega⟩
    · rw [if_neg heq] at h
      have hn := pidAdd_lt seq 1
      have hlt : pidSub seq base < pidSub endId base := by
        rcases Nat.lt_or_ge (pidSub seq base) (pidSub endId base) with h | h
        · exact h
        · exact absurd (id_eq_of_off seq endId base hs he (by omega)) heq
      have hoff : pidSub (pidAdd seq 1) base = pidSub seq base + 1 :=
        off_succ _ _ (by have := pidSub_lt endId base; omega)
      simp only at h
      split at h
      · split at h
        · exact ih _ _ r hn hn (by omega) (Nat.le_refl _) h
        · cases h; exact ⟨hnb, by omega⟩
      · exact ih _ _ r hn hnb (by omega) (by omega) h

theorem resyncLoop_le (s : State) (base target : Nat) (_hb : base < 2^20) (ht : target < 2^20) :
    ∀ (fuel seq r : Nat), seq < 2^20 → pidSub seq base ≤ pidSub target base →
      resyncLoop fuel s seq target = .ok r → r < 2^20 ∧ pidSub r base ≤ pidSub target base := by
  intro fuel
  induction fuel with
  | zero => intro seq r _ _ h; rw [resyncLoop] at h; cases h
  | succ fuel ih =>
    intro seq r hs hle h
    rw [resyncLoop] at h
    by_cases heq : seq = target
    · rw [if_pos heq] at h; cases h; exact ⟨hs, hle⟩
    · rw [if_neg heq] at h
      have hlt : pidSub seq base < pidSub target base := by
        rcases Nat.lt_or_ge (pidSub seq base) (pidSub target base) with h | h
        · exact h
        · exact absurd (id_eq_of_off seq target base hs ht (by omega)) heq
      have hoff : pidSub (pidAdd seq 1) base = pidSub seq base + 1 :=
        off_succ _ _ (by have := pidSub_lt target base; omega)
      split at h
      · cases h; exact ⟨hs, hle⟩
      · exact ih _ r (pidAdd_lt _ _) (by omega) h

/-! ### a window advance, all invariants together -/

theorem advance_all {W M : Nat} (hW : WOk W) {b0 adv : Nat} {log : List LogE} {s s' : State}
    (hinv : Inv W M s) (h : Ord W s) (g : GI W b0 adv log s) (nb : Nat) (hnb : nb < 2^20)
    (hδ : pidSub nb s.baseId ≤ W) (ha : advanceWindow s nb = .ok s') :
    Inv W M s' ∧ Ord W s' ∧ GI W b0 (adv + pidSub s'.baseId s.baseId) log s' := by
  obtain ⟨s'', ha', hinv'⟩ := advanceWindow_inv hinv nb hnb
  rw [ha] at ha'; cases ha'
  have F := advanceWindow_facts hW hinv h nb hnb hδ ha
  refine ⟨hinv', advance_ord hW hinv h nb hnb hδ F, ?_⟩
  rw [F.base]
  exact advance_gi hinv h g nb hnb F

/-! ### `receiveT` -/

theorem receiveT_all {W M : Nat} (hW : WOk W) {b0 adv : Nat} {log : List LogE} {s s' : State} {evs : List Ev}
    (hinv : Inv W M s) (h : Ord W s) (g : GI W b0 adv log s) (hr : receiveT s = .ok (s', evs)) :
    Inv W M s' ∧ Ord W s' ∧
      GI W b0 (adv + pidSub s'.baseId s.baseId) (log ++ evs.map (lift adv s.baseId)) s' := by
  have hvis : Visited W s s.baseId := by
    intro x _ hxo _
    rw [pidSub_self] at hxo
    exact absurd hxo (Nat.not_lt_zero _)
  obtain ⟨s1, new, hdl, hinv1, hord1, hgi1, hb1, he1, -⟩ := deliverLoopT_ord (M := M) hW b0 adv s.baseId s.endId
    hinv.elt loopFuel s s.baseId [] log hinv h g rfl rfl hinv.blt (by rw [pidSub_self]; exact Nat.zero_le _)
    hvis (loopFuel_gt _ _)
  rw [receiveT, hdl, bindR_ok] at hr
  simp only [List.nil_append] at hr
  unfold recvTailS at hr
  by_cases hw : s1.windowReady = true
  · rw [if_pos hw] at hr
    cases hwl : windowLoop loopFuel { s1 with windowReady := false } s.baseId s.endId s.baseId with
    | error t => rw [hwl] at hr; cases hr
    | ok nb =>
      rw [hwl, bindR_ok] at hr
      cases hadv : advanceWindow { s1 with windowReady := false } nb with
      | error t => rw [hadv] at hr; cases hr
      | ok s2 =>
        rw [hadv, bindR_ok] at hr
        cases hr
        obtain ⟨hnb, hnle⟩ := windowLoop_le _ s.baseId s.endId hinv.blt hinv.elt loopFuel s.baseId s.baseId nb
          hinv.blt hinv.blt (by rw [pidSub_self]; exact Nat.zero_le _) (Nat.le_refl _) hwl
        have hinv1' := hinv1.setWindowReady false
        have hord1' : Ord W { s1 with windowReady := false } := hord1.congr rfl rfl rfl rfl
        have hgi1' := hgi1.frame (s' := { s1 with windowReady := false }) rfl (fun _ => rfl)
        have hew := h.ewin
        have := advance_all hW hinv1' hord1' hgi1' nb hnb (by show pidSub nb s1.baseId ≤ W; rw [hb1]; omega) hadv
        rw [show ({ s1 with windowReady := false } : State).baseId = s.baseId from hb1] at this
        exact this
  · rw [if_neg hw, bindR_ok] at hr
    cases hr
    refine ⟨hinv1, hord1, ?_⟩
    rw [hb1, pidSub_self, Nat.add_zero]
    exact hgi1

/-! ### `resynchronize` -/

theorem resynchronize_all {W M : Nat} (hW : WOk W) {b0 adv : Nat} {log : List LogE} {s s' : State}
    (hinv : Inv W M s) (h : Ord W s) (g : GI W b0 adv log s) (id : Nat) (hr : resynchronize s id = .ok s') :
    Inv W M s' ∧ Ord W s' ∧ GI W b0 (adv + pidSub s'.baseId s.baseId) log s' := by
  have hsame : Inv W M s ∧ Ord W s ∧ GI W b0 (adv + pidSub s.baseId s.baseId) log s := by
    rw [pidSub_self, Nat.add_zero]; exact ⟨hinv, h, g⟩
  rw [resynchronize] at hr
  by_cases h1 : id % 2^32 % PACKET_ID_SPAN ≠ id
  · rw [if_pos h1] at hr; cases hr; exact hsame
  rw [if_neg h1] at hr
  by_cases h2 : pidSub id s.baseId > s.windowSize
  · rw [if_pos h2] at hr; cases hr; exact hsame
  rw [if_neg h2] at hr
  have hlt : id < 2^20 := by
    simp only [PACKET_ID_SPAN] at h1; omega
  rw [rmatchN] at hr
  cases hrl : resyncLoop loopFuel s s.baseId id with
  | error t => rw [hrl] at hr; cases hr
  | ok seq =>
    rw [hrl, bindR_ok] at hr
    obtain ⟨hseq, hle⟩ := resyncLoop_le s s.baseId id hinv.blt hlt loopFuel s.baseId seq hinv.blt
      (by rw [pidSub_self]; exact Nat.zero_le _) hrl
    have := hinv.wsz
    exact advance_all hW hinv h g seq hseq (by omega) hr

/-! ### why `receive` advances the window -/

/-- Every id at an offset `< hi` from `base` is covered by a received entry `v` at or after it (still
before `hi`) whose window parent lead is 0 or reaches back beyond that id: the entry claims there is
no Reliable packet from that id up to `v` (or is the packet with that id itself). -/
def Justified (W : Nat) (s : State) (base hi : Nat) : Prop :=
  ∀ p, p < 2^20 → pidSub p base < hi →
    ∃ v, v < 2^20 ∧ pidSub p base ≤ pidSub v base ∧ pidSub v base < hi ∧
      (lget s.slots (wi W v)).entryFlag = true ∧
      ((lget s.slots (wi W v)).wpl = 0 ∨ pidSub v base - pidSub p base < (lget s.slots (wi W v)).wpl)

theorem windowLoop_just {W M : Nat} (s : State) (hinv : Inv W M s) (base endId : Nat) (hb : base < 2^20)
    (he : endId < 2^20) :
    ∀ (fuel seq nb r : Nat), seq < 2^20 → nb < 2^20 → pidSub seq base ≤ pidSub endId base →
      pidSub nb base ≤ pidSub seq base → Justified W s base (pidSub nb base) →
      windowLoop fuel s seq endId nb = .ok r → Justified W s base (pidSub r base) := by
  intro fuel
  induction fuel with
  | zero => intro seq nb r _ _ _ _ _ h; rw [windowLoop] at h; cases h
  | succ fuel ih =>
    intro seq nb r hs hnb hle hnle hj h
    rw [windowLoop] at h
    by_cases heq : seq = endId
    · rw [if_pos heq] at h; cases h; exact hj
    · rw [if_neg heq] at h
      have hn := pidAdd_lt seq 1
      have hlt : pidSub seq base < pidSub endId base := by
        rcases Nat.lt_or_ge (pidSub seq base) (pidSub endId base) with h | h
        · exact h
        · exact absurd (id_eq_of_off seq endId base hs he (by omega)) heq
      have hoff : pidSub (pidAdd seq 1) base = pidSub seq base + 1 :=
        off_succ _ _ (by have := pidSub_lt endId base; omega)
      simp only at h
      rw [widx_eq hinv, getSlot_eq] at h
      split at h
      · rename_i hentry
        split at h
        · rename_i hw
          refine ih _ _ r hn hn (by omega) (Nat.le_refl _) ?_ h
          intro p hp hpo
          rw [hoff] at hpo
          rcases Nat.lt_or_ge (pidSub p base) (pidSub nb base) with hlo | hhi
          · obtain ⟨v, h1, h2, h3, h4, h5⟩ := hj p hp hlo
            exact ⟨v, h1, h2, by rw [hoff]; omega, h4, h5⟩
          · refine ⟨seq, hs, by omega, by rw [hoff]; omega, hentry, ?_⟩
            rcases hw with hw | hw
            · exact Or.inl hw
            · right
              rw [off_shift seq base nb hb hnb hnle] at hw
              omega
        · cases h; exact hj
      · exact ih _ _ r hn hnb (by omega) (by omega) hj h

theorem receiveT_just {W M : Nat} (hW : WOk W) {b0 adv : Nat} {log : List LogE} {s s' : State} {evs : List Ev}
    (hinv : Inv W M s) (h : Ord W s) (g : GI W b0 adv log s) (hr : receiveT s = .ok (s', evs)) :
    Justified W s s.baseId (pidSub s'.baseId s.baseId) := by
  have hvis : Visited W s s.baseId := by
    intro x _ hxo _
    rw [pidSub_self] at hxo
    exact absurd hxo (Nat.not_lt_zero _)
  have hnone : Justified W s s.baseId 0 := fun p _ hp => absurd hp (Nat.not_lt_zero _)
  obtain ⟨s1, new, hdl, hinv1, hord1, hgi1, hb1, he1, hsame⟩ := deliverLoopT_ord (M := M) hW b0 adv s.baseId s.endId
    hinv.elt loopFuel s s.baseId [] log hinv h g rfl rfl hinv.blt (by rw [pidSub_self]; exact Nat.zero_le _)
    hvis (loopFuel_gt _ _)
  rw [receiveT, hdl, bindR_ok] at hr
  unfold recvTailS at hr
  by_cases hw : s1.windowReady = true
  · rw [if_pos hw] at hr
    cases hwl : windowLoop loopFuel { s1 with windowReady := false } s.baseId s.endId s.baseId with
    | error t => rw [hwl] at hr; cases hr
    | ok nb =>
      rw [hwl, bindR_ok] at hr
      cases hadv : advanceWindow { s1 with windowReady := false } nb with
      | error t => rw [hadv] at hr; cases hr
      | ok s2 =>
        rw [hadv, bindR_ok] at hr
        cases hr
        obtain ⟨hnb, hnle⟩ := windowLoop_le _ s.baseId s.endId hinv.blt hinv.elt loopFuel s.baseId s.baseId nb
          hinv.blt hinv.blt (by rw [pidSub_self]; exact Nat.zero_le _) (Nat.le_refl _) hwl
        have hinv1' := hinv1.setWindowReady false
        have hord1' : Ord W { s1 with windowReady := false } := hord1.congr rfl rfl rfl rfl
        have hew := h.ewin
        have F := advanceWindow_facts hW hinv1' hord1' nb hnb
          (by show pidSub nb s1.baseId ≤ W; rw [hb1]; omega) hadv
        rw [F.base]
        have hj1 : Justified W { s1 with windowReady := false } s.baseId (pidSub s.baseId s.baseId) := by
          rw [pidSub_self]; exact fun p _ hp => absurd hp (Nat.not_lt_zero _)
        have := windowLoop_just _ hinv1' s.baseId s.endId hinv.blt hinv.elt loopFuel s.baseId s.baseId nb
          hinv.blt hinv.blt (by rw [pidSub_self]; exact Nat.zero_le _) (Nat.le_refl _) hj1 hwl
        intro p hp hpo
        obtain ⟨v, h1, h2, h3, h4, h5⟩ := this p hp hpo
        have h4' : (lget s1.slots (wi W v)).entryFlag = true := h4
        have h5' : (lget s1.slots (wi W v)).wpl = 0 ∨
            pidSub v s.baseId - pidSub p s.baseId < (lget s1.slots (wi W v)).wpl := h5
        rw [(hsame _).2.1] at h4'
        rw [(hsame _).1] at h5'
        exact ⟨v, h1, h2, h3, h4', h5'⟩
  · rw [if_neg hw, bindR_ok] at hr
    cases hr
    rw [hb1, pidSub_self]
    exact hnone

/-! ### only `handleDatagram` sets data flags -/

theorem receiveT_flags {W M : Nat} (hW : WOk W) {b0 adv : Nat} {log : List LogE} {s s' : State} {evs : List Ev}
    (hinv : Inv W M s) (h : Ord W s) (g : GI W b0 adv log s) (hr : receiveT s = .ok (s', evs)) :
    ∀ k, (lget s'.slots k).dataFlag = true → (lget s.slots k).dataFlag = true := by
  have hvis : Visited W s s.baseId := by
    intro x _ hxo _
    rw [pidSub_self] at hxo
    exact absurd hxo (Nat.not_lt_zero _)
  obtain ⟨s1, new, hdl, hinv1, hord1, hgi1, hb1, he1, hsame⟩ := deliverLoopT_ord (M := M) hW b0 adv s.baseId s.endId
    hinv.elt loopFuel s s.baseId [] log hinv h g rfl rfl hinv.blt (by rw [pidSub_self]; exact Nat.zero_le _)
    hvis (loopFuel_gt _ _)
  rw [receiveT, hdl, bindR_ok] at hr
  unfold recvTailS at hr
  by_cases hw : s1.windowReady = true
  · rw [if_pos hw] at hr
    cases hwl : windowLoop loopFuel { s1 with windowReady := false } s.baseId s.endId s.baseId with
    | error t => rw [hwl] at hr; cases hr
    | ok nb =>
      rw [hwl, bindR_ok] at hr
      cases hadv : advanceWindow { s1 with windowReady := false } nb with
      | error t => rw [hadv] at hr; cases hr
      | ok s2 =>
        rw [hadv, bindR_ok] at hr
        cases hr
        obtain ⟨hnb, hnle⟩ := windowLoop_le _ s.baseId s.endId hinv.blt hinv.elt loopFuel s.baseId s.baseId nb
          hinv.blt hinv.blt (by rw [pidSub_self]; exact Nat.zero_le _) (Nat.le_refl _) hwl
        have hinv1' := hinv1.setWindowReady false
        have hord1' : Ord W { s1 with windowReady := false } := hord1.congr rfl rfl rfl rfl
        have hew := h.ewin
        have F := advanceWindow_facts hW hinv1' hord1' nb hnb
          (by show pidSub nb s1.baseId ≤ W; rw [hb1]; omega) hadv
        intro k hk
        exact (hsame k).2.2 (F.flag k hk).1
  · rw [if_neg hw, bindR_ok] at hr
    cases hr
    intro k hk
    exact (hsame k).2.2 hk

theorem resynchronize_flags {W M : Nat} (hW : WOk W) {s s' : State} (hinv : Inv W M s) (h : Ord W s)
    (id : Nat) (hr : resynchronize s id = .ok s') :
    ∀ k, (lget s'.slots k).dataFlag = true → (lget s.slots k).dataFlag = true := by
  rw [resynchronize] at hr
  by_cases h1 : id % 2^32 % PACKET_ID_SPAN ≠ id
  · rw [if_pos h1] at hr; cases hr; exact fun _ hk => hk
  rw [if_neg h1] at hr
  by_cases h2 : pidSub id s.baseId > s.windowSize
  · rw [if_pos h2] at hr; cases hr; exact fun _ hk => hk
  rw [if_neg h2] at hr
  have hlt : id < 2^20 := by
    simp only [PACKET_ID_SPAN] at h1; omega
  rw [rmatchN] at hr
  cases hrl : resyncLoop loopFuel s s.baseId id with
  | error t => rw [hrl] at hr; cases hr
  | ok seq =>
    rw [hrl, bindR_ok] at hr
    obtain ⟨hseq, hle⟩ := resyncLoop_le s s.baseId id hinv.blt hlt loopFuel s.baseId seq hinv.blt
      (by rw [pidSub_self]; exact Nat.zero_le _) hrl
    have := hinv.wsz
    have F := advanceWindow_facts hW hinv h seq hseq (by omega) hr
    exact fun k hk => (F.flag k hk).1

/-- A data flag that `handle_datagram` sets belongs to the slot of a valid datagram inside the window
and not behind its channel's base id, whose `try_add` produced the packet stored in the slot. -/
theorem handleDatagram_flag {W M : Nat} {s s' : State} (hinv : Inv W M s) (d : Datagram)
    (hd : handleDatagram s d = .ok s') (k : Nat) (hk0 : (lget s.slots k).dataFlag = false)
    (hk1 : (lget s'.slots k).dataFlag = true) :
    datagramIsValid d = true ∧ pidSub d.sequenceId s.baseId < W ∧
    pidSub ((cbase s d.channelId).getD s.baseId) s.baseId ≤ pidSub d.sequenceId s.baseId ∧
    k = wi W d.sequenceId ∧
    (lget s'.slots k).chan = d.channelId ∧ (lget s'.slots k).cpl = d.channelParentLead ∧
    (lget s'.slots k).wpl = d.windowParentLead ∧
    ∃ s1 p, tryAdd s k d = .ok (s1, some p) ∧ (lget s'.slots k).data = p.data := by
  have hcontra : s' = s → False := by
    intro he; rw [he, hk0] at hk1; cases hk1
  rw [handleDatagram_eq] at hd
  by_cases hv : datagramIsValid d = true
  case neg => rw [if_pos (by simpa using hv)] at hd; cases hd; exact (hcontra rfl).elim
  rw [if_neg (by simp [hv])] at hd
  obtain ⟨hchan, -, -⟩ := valid_facts d hv
  obtain ⟨ch0, hch0⟩ := hinv.chan_get d.channelId hchan
  rw [chanBase_of_get hch0] at hd
  simp only at hd
  split at hd
  · cases hd; exact (hcontra rfl).elim
  rename_i hlead
  split at hd
  · cases hd; exact (hcontra rfl).elim
  rename_i hclead
  rw [widx_eq hinv] at hd
  rw [hinv.wsz] at hlead
  cases ht : tryAdd s (wi W d.sequenceId) d with
  | error t => rw [ht] at hd; cases hd
  | ok r =>
    obtain ⟨s1, o⟩ := r
    rw [ht] at hd
    have hfr := tryAdd_frame s _ d s1 o ht
    obtain ⟨A, hA⟩ := hfr.same
    have hflag1 : ∀ j, (lget s1.slots j).dataFlag = (lget s.slots j).dataFlag := by
      intro j
      by_cases hj : j = wi W d.sequenceId
      · subst hj; rw [hA]
      · rw [hfr.other j hj]
    cases o with
    | none =>
      cases hd
      rw [hflag1, hk0] at hk1; cases hk1
    | some p =>
      simp only at hd
      cases hd
      obtain ⟨hp1, hp2, hp3⟩ := hfr.pkt p rfl
      obtain ⟨-, -, -, hs2⟩ := hdPost_facts s1 (wi W d.sequenceId) d p
        ((cbase s d.channelId).getD s.baseId) s.baseId
      rw [hs2, lget_lset] at hk1 ⊢
      by_cases hk : k = wi W d.sequenceId
      · rw [if_pos hk]
        refine ⟨hv, by omega, by omega, hk, hp1, hp2, hp3, s1, p, by rw [hk]; exact ht, rfl⟩
      · rw [if_neg hk, hflag1, hk0] at hk1; cases hk1

/-! ### the instrumented driver -/

/-- All invariants of the instrumented state. -/
structure GInv (W M b0 : Nat) (g : G) : Prop where
  inv : Inv W M g.st
  ord : Ord W g.st
  gi : GI W b0 g.adv g.log g.st

theorem stepT_dg (g : G) (d : Datagram) :
    stepT g (.dg d) = bindR (handleDatagram g.st d) fun s' => .ok { g with st := s' } := rfl
theorem stepT_recv (g : G) : stepT g .recv = bindR (receiveT g.st) fun p =>
    .ok { st := p.1, adv := g.adv + pidSub p.1.baseId g.st.baseId,
          log := g.log ++ p.2.map (lift g.adv g.st.baseId) } := rfl
theorem stepT_resync (g : G) (id : Nat) : stepT g (.resync id) = bindR (resynchronize g.st id) fun s' =>
    .ok { g with st := s', adv := g.adv + pidSub s'.baseId g.st.baseId } := rfl

theorem stepT_ginv {W M b0 : Nat} (hW : WOk W) {g g' : G} (hg : GInv W M b0 g) (op : Op)
    (h : stepT g op = .ok g') : GInv W M b0 g' := by
  cases op with
  | dg d =>
    rw [stepT_dg] at h
    cases hd : handleDatagram g.st d with
    | error t => rw [hd] at h; cases h
    | ok s' =>
      rw [hd, bindR_ok] at h
      cases h
      obtain ⟨s'', hd', hinv'⟩ := handleDatagram_inv hg.inv d
      rw [hd] at hd'; cases hd'
      obtain ⟨hord', hb, hc⟩ := handleDatagram_ord hW hg.inv hg.ord d hd
      exact ⟨hinv', hord', hg.gi.frame hb hc⟩
  | recv =>
    rw [stepT_recv] at h
    cases hr : receiveT g.st with
    | error t => rw [hr] at h; cases h
    | ok p =>
      rw [hr, bindR_ok] at h
      cases h
      obtain ⟨a, b, c⟩ := receiveT_all hW hg.inv hg.ord hg.gi (show receiveT g.st = .ok (p.1, p.2) from hr)
      exact ⟨a, b, c⟩
  | resync id =>
    rw [stepT_resync] at h
    cases hr : resynchronize g.st id with
    | error t => rw [hr] at h; cases h
    | ok s' =>
      rw [hr, bindR_ok] at h
      cases h
      obtain ⟨a, b, c⟩ := resynchronize_all hW hg.inv hg.ord hg.gi id hr
      exact ⟨a, b, c⟩

theorem runT_ginv {W M b0 : Nat} (hW : WOk W) (ops : List Op) : ∀ {g g' : G}, GInv W M b0 g →
    runT g ops = .ok g' → GInv W M b0 g' := by
  induction ops with
  | nil => intro g g' hg h; cases h; exact hg
  | cons op rest ih =>
    intro g g' hg h
    rw [runT] at h
    cases hs : stepT g op with
    | error t => rw [hs] at h; cases h
    | ok g1 =>
      rw [hs, bindR_ok] at h
      exact ih (stepT_ginv hW hg op hs) h

theorem ginv_init (W b m : Nat) (hW : 0 < W) (hb : b < 2^20) : GInv W (allocCeil m) b (initG W b m) :=
  ⟨inv_init W b m hW hb, ord_init W b m, gi_init W b m hb⟩

/-- The instrumented run never traps either (it is `run` with ghost fields). -/
theorem runT_ok (W b m : Nat) (hW : 0 < W) (hb : b < 2^20) (ops : List Op) :
    ∃ g', runT (initG W b m) ops = .ok g' := by
  obtain ⟨s', hs'⟩ : ∃ s', run (initG W b m).st ops = .ok s' := by
    obtain ⟨s', h, -⟩ := run_init_inv W b m hW hb ops
    exact ⟨s', h⟩
  rw [← runT_erase] at hs'
  cases hr : runT (initG W b m) ops with
  | error t => rw [hr] at hs'; cases hs'
  | ok g' => exact ⟨g', rfl⟩

end Uflow.PRecv
