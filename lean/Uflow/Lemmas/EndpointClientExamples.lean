import Uflow.Lemmas.EndpointClientTimeout

/-!
A trivial half connection and evaluation helpers, used only by the non-vacuity `example`s of the
property files.
-/

namespace Uflow.Endpoint

open Uflow.Gen Uflow.Codec Uflow.HalfConn

/-- A half connection that does nothing, delivers nothing and never has anything pending. -/
def trivHC : HC Unit :=
  { new := fun _ _ => (), send := fun _ _ _ _ => (), dispatch := fun _ _ => .ok (), step := fun _ _ => .ok (),
    flush := fun _ r => .ok ((), r, []), receive := fun _ => .ok ((), []), isSendPending := fun _ => false,
    sendBufferSize := fun _ => 0 }

/-- A half connection (state: list of queued packets) that delivers whatever was `send`-queued, and
reports "send pending" while something is queued. -/
def echoHC : HC (List (List Nat)) :=
  { new := fun _ _ => [], send := fun h d _ _ => h ++ [d], dispatch := fun h _ => .ok h, step := fun h _ => .ok h,
    flush := fun h r => .ok (h, r, []), receive := fun h => .ok ([], h), isSendPending := fun h => !h.isEmpty,
    sendBufferSize := fun h => h.length }

/-- `r` succeeded with a value satisfying `p`. -/
def okAnd {α : Type} (r : R α) (p : α → Bool) : Bool :=
  match r with
  | .ok a => p a
  | .error _ => false

theorem okAnd_elim {α : Type} {r : R α} {p : α → Bool} (h : okAnd r p = true) : ∃ a, r = .ok a ∧ p a = true := by
  cases r with
  | error e => simp [okAnd] at h
  | ok a => exact ⟨a, rfl, h⟩

def exEp : EpConfig :=
  { maxSendRate := 1000000, maxReceiveRate := 1000000, maxPacketSize := 10000, maxReceiveAlloc := 100000,
    keepalive := true, keepaliveIntervalMs := 1000, activeTimeoutMs := 15000 }

def exRng : Rng := { fifo := [7, 9], state := 1 }

/-- A freshly connected client (nonce 7). -/
def exClient : Client Unit := (Client.connect exEp 0 exRng).1
def exClientE : Client (List (List Nat)) := (Client.connect exEp 0 exRng).1

/-- The SYN-ACK a server would send to `exClient`. -/
def exSynAck : List Nat := encode (.synAck 7 9 500000 10000 100000)

end Uflow.Endpoint
