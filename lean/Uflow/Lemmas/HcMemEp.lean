import Uflow.Lemmas.HcMemRun
import Uflow.Lemmas.EpNoTrapRun

/-!
C06 (endpoints), part 1: the half connection `hcOf ops` with the receive allocation limit pinned to a
constant `A` (`hcA ops A`; the same function as `hcOf ops` on every configuration whose
`rxAllocLimit` is `A`), and the contract `HCOk` for it with an invariant that remembers the limit:
`InvA A h := HcInv h ∧ PRecv.Inv 4096 ⌈A⌉ h.pr`.
-/

namespace Uflow.EpMem

open Uflow Uflow.Gen Uflow.Codec Uflow.HalfConn Uflow.Endpoint Uflow.HcInv Uflow.EpNoTrap
open Uflow.Rate (FloatOps BisectConverges)

variable {F : Type}

/-- The configuration with the receive allocation limit replaced by `A`. -/
def pin (A : Nat) (c : Config) : Config := { c with rxAllocLimit := A }

theorem pin_hcConfig (ep : EpConfig) (ln rn rate alloc : Nat) :
    pin ep.maxReceiveAlloc (hcConfig ep ln rn rate alloc) = hcConfig ep ln rn rate alloc := rfl

/-- `hcOf ops`, except that `new` ignores the `rxAllocLimit` of the configuration and uses `A`. -/
def hcA (ops : FloatOps F) (A : Nat) : HC (HalfConn.State F) :=
  { hcOf ops with new := fun c now => (hcOf ops).new (pin A c) now }

/-- The half-connection invariant together with the receiver invariant for the window of 4096 packets
the endpoints configure and the fragment-rounded allocation limit `A`. -/
def InvA (A : Nat) (h : HalfConn.State F) : Prop :=
  HcInv h ∧ PRecv.Inv MAX_PACKET_WINDOW_SIZE (allocCeil A) h.pr

theorem cfgOk_pin (A : Nat) (c : Config) (h : CfgOk c) : CfgOk (pin A c) :=
  ⟨h.txFrameBase, h.txFrameWin, h.txPacketBase, h.txPacketWin, h.rxPacketBase, h.rxPacketWin⟩

theorem hcA_ok (ops : FloatOps F) (hconv : BisectConverges ops) (hloss : LossOk ops) (A : Nat) :
    HCOk (hcA ops A) (InvA A) lastNow where
  new ep ln rn rate alloc now hn := by
    refine ⟨⟨hcInv_init ops _ now _ (cfgOk_pin A _ (cfgOk_hcConfig ep ln rn rate alloc hn)), ?_⟩, rfl⟩
    exact PRecv.inv_init MAX_PACKET_WINDOW_SIZE (rn % PACKET_ID_SPAN) A (by decide)
      (Nat.mod_lt _ (by decide))
  dispatch h f hi := by
    cases f with
    | data id nonce dgs =>
      obtain ⟨h', he, hi', hl⟩ := handleDataFrame_ok h id nonce dgs hi.1
      exact ⟨h', he, ⟨hi', HcSys.foldDg_inv _ _ _ hi.2 (HcSys.handleDataFrame_spec h h' id nonce dgs he).2⟩, hl⟩
    | ack fb pb acks =>
      obtain ⟨h', he, hi', hl⟩ := handleAckFrame_ok h fb pb acks hi.1
      refine ⟨h', he, ⟨hi', ?_⟩, hl⟩
      rw [(HcSys.handleAckFrame_spec h h' fb pb acks he).1]; exact hi.2
    | sync nf np =>
      obtain ⟨h', he, hi', hl⟩ := handleSyncFrame_ok h nf np hi.1
      exact ⟨h', he, ⟨hi', HcSys.resyncTo_inv _ _ np hi.2 (HcSys.handleSyncFrame_spec h h' nf np he).2⟩, hl⟩
    | syn _ _ _ _ _ => exact ⟨h, rfl, hi, rfl⟩
    | synAck _ _ _ _ _ => exact ⟨h, rfl, hi, rfl⟩
    | hsAck _ => exact ⟨h, rfl, hi, rfl⟩
    | hsError _ _ => exact ⟨h, rfl, hi, rfl⟩
    | disconnect => exact ⟨h, rfl, hi, rfl⟩
    | disconnectAck => exact ⟨h, rfl, hi, rfl⟩
  step h now hi hl := by
    obtain ⟨h', he, hi', hl'⟩ := step_ok ops hconv hloss h now hi.1 hl
    refine ⟨h', he, ⟨hi', ?_⟩, hl'⟩
    rw [(HcSys.step_spec ops h h' now he).2]; exact hi.2
  flush h rng hi := by
    obtain ⟨hi0, hl0⟩ := hcInv_set_rng h rng hi.1
    obtain ⟨s', out, he, hi', hl'⟩ := flush_ok _ hi0
    refine ⟨s', s'.rng, out, ?_, ⟨hi', ?_⟩, hl'.trans hl0⟩
    · show (HalfConn.flush { h with rng := rng }).map _ = _
      rw [he]; rfl
    · rw [(HcMem.flush_proj _ s' out he).1]; exact hi.2
  receive h hi := by
    obtain ⟨h', out, he, hi', hl⟩ := receive_ok h hi.1
    refine ⟨h', out, he, ⟨hi', ?_⟩, hl⟩
    obtain ⟨pr', out', hr, hinv⟩ := PRecv.receive_inv hi.2
    have := (HcSys.receive_spec h h' out he).2
    rw [hr] at this
    simp only [Except.ok.injEq, Prod.mk.injEq] at this
    rw [← this.1]; exact hinv
  send h data chan mode hi hlen hch := by
    obtain ⟨hi', hl⟩ := send_ok h data chan mode hi.1 hlen hch
    exact ⟨⟨hi', hi.2⟩, hl⟩

end Uflow.EpMem
