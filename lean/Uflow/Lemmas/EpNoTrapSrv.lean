import Uflow.Lemmas.EpNoTrapHc
import Uflow.Lemmas.EndpointServerRun

/-!
C03 (server): the invariant `SInv` (every half connection owned by the server satisfies the
half-connection invariant and its clock is not ahead of the server's; pending handshakes carry a
`u32` nonce; the timer heap satisfies a predicate closed under `tPush` / `tPop`) is established by
`Server.init` and preserved, WITHOUT TRAP, by every phase of `Server.step` (for arbitrary arrivals)
and by the API operations.
-/

namespace Uflow.EpNoTrap

open Uflow Uflow.Gen Uflow.Codec Uflow.HalfConn Uflow.Endpoint

variable {H : Type}

/-! ### generic: a `foldlM` whose body never fails under an invariant -/

theorem foldlM_ok_of_inv {α β ε : Type} (P : β → Prop) (f : β → α → Except ε β)
    (hf : ∀ b a, P b → ∃ b', f b a = .ok b' ∧ P b') :
    ∀ (l : List α) (b : β), P b → ∃ b', l.foldlM f b = .ok b' ∧ P b' := by
  intro l
  induction l with
  | nil => intro b hb; exact ⟨b, rfl, hb⟩
  | cons a l ih =>
    intro b hb
    obtain ⟨b1, h1, p1⟩ := hf b a hb
    obtain ⟨b2, h2, p2⟩ := ih b1 p1
    refine ⟨b2, ?_, p2⟩
    rw [List.foldlM_cons, h1]
    exact h2

/-- A predicate on timer heaps kept by the heap operations (instantiated with the heap order). -/
structure HeapPred (TH : Array Timer → Prop) : Prop where
  empty : TH #[]
  push : ∀ h e, TH h → TH (tPush h e)
  pop : ∀ h h' t, TH h → tPop h = some (t, h') → TH h'

/-- The condition on one connection object at server time `T`. -/
def StOk (Inv : H → Prop) (last : H → Nat) (T : Nat) : RState H → Prop
  | .active h _ _ => Inv h ∧ last h ≤ T
  | .pending ln _ _ _ _ => ln < 2^32
  | _ => True

/-- The part of the server invariant needed for trap freedom. -/
structure SInv (Inv : H → Prop) (last : H → Nat) (TH : Array Timer → Prop) (T : Nat) (s : Server H) : Prop where
  core : ∀ c ∈ s.clients ++ s.detached, StOk Inv last T c.state
  heap : TH s.timers

variable {Inv : H → Prop} {last : H → Nat} {TH : Array Timer → Prop} {T : Nat} {hc : HC H}

theorem StOk.mono {T T' : Nat} (h : T ≤ T') {st : RState H} (hs : StOk Inv last T st) : StOk Inv last T' st := by
  cases st with
  | active h' _ _ => exact ⟨hs.1, Nat.le_trans hs.2 h⟩
  | pending _ _ _ _ _ => exact hs
  | closing => trivial
  | closed => trivial
  | fin => trivial

theorem SInv.mono {T T' : Nat} {s : Server H} (hi : SInv Inv last TH T s) (h : T ≤ T') : SInv Inv last TH T' s :=
  ⟨fun c hc => (hi.core c hc).mono h, hi.heap⟩

theorem SInv.init (hth : HeapPred TH) (cfg : SrvConfig) (now : Nat) (rng : Rng) (T : Nat) :
    SInv Inv last TH T (Server.init cfg now rng : Server H) :=
  ⟨fun c hc => by simp [Server.init] at hc, hth.empty⟩

/-- Only fields other than `clients`, `detached`, `timers` changed. -/
theorem SInv.of_eq {s s' : Server H} (hi : SInv Inv last TH T s) (h1 : s'.clients = s.clients)
    (h2 : s'.detached = s.detached) (h3 : s'.timers = s.timers) : SInv Inv last TH T s' :=
  ⟨by rw [h1, h2]; exact hi.core, by rw [h3]; exact hi.heap⟩

/-- Replacing the event buffer. -/
theorem SInv.setEvents {s : Server H} (hi : SInv Inv last TH T s) (ev : List SEvent) :
    SInv Inv last TH T ({ s with eventsOut := ev } : Server H) := ⟨hi.core, hi.heap⟩

theorem SInv.push (hth : HeapPred TH) {s s' : Server H} (hi : SInv Inv last TH T s) (e : Timer)
    (h1 : s'.clients = s.clients) (h2 : s'.detached = s.detached) (h3 : s'.timers = tPush s.timers e) :
    SInv Inv last TH T s' :=
  ⟨by rw [h1, h2]; exact hi.core, by rw [h3]; exact hth.push _ _ hi.heap⟩

theorem SInv.find {s : Server H} (hi : SInv Inv last TH T s) {addr : Nat} {c : RClient H}
    (hf : s.find addr = some c) : StOk Inv last T c.state :=
  hi.core c (List.mem_append_left _ (Server.find_some hf).1)

theorem SInv.byCid {s : Server H} (hi : SInv Inv last TH T s) {cid : Nat} {c : RClient H}
    (hf : s.byCid cid = some c) : StOk Inv last T c.state :=
  hi.core c (Server.byCid_some hf).1

theorem SInv.put {s : Server H} (hi : SInv Inv last TH T s) (c : RClient H)
    (hc : StOk Inv last T c.state) : SInv Inv last TH T (s.put c) := by
  refine ⟨?_, by rw [Server.put_timers]; exact hi.heap⟩
  intro x hx
  unfold Server.put at hx
  split at hx
  · rcases List.mem_append.1 hx with hx | hx
    · simp only [List.mem_map] at hx
      obtain ⟨y, hy, rfl⟩ := hx
      split
      · exact hc
      · exact hi.core y (List.mem_append_left _ hy)
    · exact hi.core x (List.mem_append_right _ hx)
  · rcases List.mem_append.1 hx with hx | hx
    · exact hi.core x (List.mem_append_left _ hx)
    · simp only [List.mem_map] at hx
      obtain ⟨y, hy, rfl⟩ := hx
      split
      · exact hc
      · exact hi.core y (List.mem_append_right _ hy)

theorem finish_timers (s : Server H) (c : RClient H) : (s.finish c).timers = s.timers := by
  unfold Server.finish; split <;> rfl

theorem SInv.finish {s : Server H} (hi : SInv Inv last TH T s) (c : RClient H) :
    SInv Inv last TH T (s.finish c) := by
  refine ⟨?_, by rw [finish_timers]; exact hi.heap⟩
  intro x hx
  unfold Server.finish at hx
  split at hx
  · rcases List.mem_append.1 hx with hx | hx
    · exact hi.core x (List.mem_append_left _ (List.mem_filter.1 hx).1)
    · rcases List.mem_cons.1 hx with hx | hx
      · subst hx; trivial
      · exact hi.core x (List.mem_append_right _ hx)
  · rcases List.mem_append.1 hx with hx | hx
    · exact hi.core x (List.mem_append_left _ (List.mem_filter.1 hx).1)
    · simp only [List.mem_map] at hx
      obtain ⟨y, hy, rfl⟩ := hx
      split
      · trivial
      · exact hi.core y (List.mem_append_right _ hy)

/-! ### frame handlers -/

theorem handleSyn_inv (hth : HeapPred TH) {s : Server H} (hi : SInv Inv last TH T s)
    (addr v n r p a nowMs : Nat) : SInv Inv last TH T (s.handleSyn addr v n r p a nowMs).1 := by
  unfold Server.handleSyn
  split
  · exact hi
  · simp only
    split
    · exact hi.of_eq rfl rfl rfl
    · split
      · exact hi.of_eq rfl rfl rfl
      · split
        · exact hi.of_eq rfl rfl rfl
        · split
          · exact hi.of_eq rfl rfl rfl
          · refine ⟨?_, hth.push _ _ hi.heap⟩
            intro x hx
            simp only [List.append_assoc, List.mem_append, List.mem_cons, List.not_mem_nil, or_false] at hx
            rcases hx with hx | hx | hx
            · exact hi.core x (List.mem_append_left _ hx)
            · subst hx
              exact Nat.mod_lt _ (by decide)
            · exact hi.core x (List.mem_append_right _ hx)

theorem handleHsAck_inv (hok : HCOk hc Inv last) {s : Server H} (hi : SInv Inv last TH T s)
    (addr na nowMs : Nat) : SInv Inv last TH T (s.handleHsAck hc addr na nowMs T) := by
  unfold Server.handleHsAck
  split
  · exact hi
  · rename_i c hf
    split
    · rename_i ln rn rate alloc reply hst
      split
      · have hp : ln < 2^32 := by
          have := hi.find hf
          rw [hst] at this
          exact this
        obtain ⟨h1, h2⟩ := hok.new s.cfg.ep ln rn rate alloc T hp
        have := hi.put (c := { c with state := RState.active (hc.new (hcConfig s.cfg.ep ln rn rate alloc) T) (nowMs + s.cfg.ep.activeTimeoutMs) none })
          ⟨h1, Nat.le_of_eq h2⟩
        exact this.of_eq rfl rfl rfl
      · exact hi
    · exact hi

theorem handleDisconnect_ok (hok : HCOk hc Inv last) (hth : HeapPred TH) {s : Server H}
    (hi : SInv Inv last TH T s) (addr nowMs : Nat) :
    ∃ r, s.handleDisconnect hc addr nowMs = .ok r ∧ SInv Inv last TH T r.1 := by
  unfold Server.handleDisconnect
  split
  · exact ⟨_, rfl, hi⟩
  · rename_i c hf
    have hclose : ∀ s0 : Server H, SInv Inv last TH T s0 → ∀ ev tm,
        SInv Inv last TH T { (s0.put { c with state := .closed }) with
          eventsOut := ev, timers := tPush (s0.put { c with state := .closed }).timers tm } := by
      intro s0 h0 ev tm
      exact (h0.put { c with state := .closed } trivial).push hth tm rfl rfl rfl
    split
    · exact ⟨_, rfl, hi⟩
    · rename_i h t sig hst
      have hs := hi.find hf
      rw [hst] at hs
      obtain ⟨h', out, hr, _, _⟩ := hok.receive h hs.1
      rw [hr]
      exact ⟨_, rfl, hclose _ (hi.of_eq (s' := { s with eventsOut := s.eventsOut ++ out.map (SEvent.receive addr) })
        rfl rfl rfl) _ _⟩
    · exact ⟨_, rfl, hclose _ hi _ _⟩
    · exact ⟨_, rfl, hi⟩
    · exact ⟨_, rfl, hi⟩

theorem handleDisconnectAck_inv {s : Server H} (hi : SInv Inv last TH T s) (addr : Nat) :
    SInv Inv last TH T (s.handleDisconnectAck addr) := by
  unfold Server.handleDisconnectAck
  split
  · exact hi
  · rename_i c hf
    split
    · exact (hi.setEvents _).finish c
    · exact hi

theorem handleTraffic_ok (hok : HCOk hc Inv last) {s : Server H} (hi : SInv Inv last TH T s)
    (addr : Nat) (f : Frame) (nowMs : Nat) :
    ∃ s', s.handleTraffic hc addr f nowMs = .ok s' ∧ SInv Inv last TH T s' := by
  unfold Server.handleTraffic
  split
  · exact ⟨_, rfl, hi⟩
  · rename_i c hf
    split
    · rename_i h t sig hst
      have hs := hi.find hf
      rw [hst] at hs
      obtain ⟨h', hr, h1, h2⟩ := hok.dispatch h f hs.1
      rw [hr]
      exact ⟨_, rfl, hi.put _ ⟨h1, by rw [h2]; exact hs.2⟩⟩
    · exact ⟨_, rfl, hi⟩

/-- `handle_frame`: ANY decoded frame from ANY address. -/
theorem handleFrame_ok (hok : HCOk hc Inv last) (hth : HeapPred TH) {s : Server H}
    (hi : SInv Inv last TH T s) (addr : Nat) (f : Frame) (nowMs : Nat) :
    ∃ r, s.handleFrame hc addr f nowMs T = .ok r ∧ SInv Inv last TH T r.1 := by
  cases f with
  | syn v n r p a => exact ⟨_, rfl, handleSyn_inv hth hi addr v n r p a nowMs⟩
  | hsAck na => exact ⟨_, rfl, handleHsAck_inv hok hi addr na nowMs⟩
  | synAck _ _ _ _ _ => exact ⟨_, rfl, hi⟩
  | hsError _ _ => exact ⟨_, rfl, hi⟩
  | disconnect => exact handleDisconnect_ok hok hth hi addr nowMs
  | disconnectAck => exact ⟨_, rfl, handleDisconnectAck_inv hi addr⟩
  | data a b c =>
    obtain ⟨s', hr, h'⟩ := handleTraffic_ok hok hi addr (.data a b c) nowMs
    exact ⟨(s', []), by simp only [Server.handleFrame, hr]; rfl, h'⟩
  | sync a b =>
    obtain ⟨s', hr, h'⟩ := handleTraffic_ok hok hi addr (.sync a b) nowMs
    exact ⟨(s', []), by simp only [Server.handleFrame, hr]; rfl, h'⟩
  | ack a b c =>
    obtain ⟨s', hr, h'⟩ := handleTraffic_ok hok hi addr (.ack a b c) nowMs
    exact ⟨(s', []), by simp only [Server.handleFrame, hr]; rfl, h'⟩

/-- `handle_frames`: ANY list of datagrams (arbitrary addresses, arbitrary bytes). -/
theorem handleFrames_ok (hok : HCOk hc Inv last) (hth : HeapPred TH) {s : Server H}
    (hi : SInv Inv last TH T s) (arrivals : List (Nat × List Nat)) (nowMs : Nat) :
    ∃ r, s.handleFrames hc arrivals nowMs T = .ok r ∧ SInv Inv last TH T r.1 := by
  unfold Server.handleFrames
  refine foldlM_ok_of_inv (fun x : Server H × List (Nat × List Nat) => SInv Inv last TH T x.1) _ ?_ arrivals (s, []) hi
  intro b a hb
  simp only
  split
  · exact ⟨b, rfl, hb⟩
  · rename_i f _
    obtain ⟨r, hr, h'⟩ := handleFrame_ok hok hth hb a.1 f nowMs
    rw [hr]
    exact ⟨_, rfl, h'⟩

/-! ### timers -/

theorem handleTimer_inv (hth : HeapPred TH) {s : Server H} (hi : SInv Inv last TH T s) (t : Timer)
    (nowMs : Nat) : SInv Inv last TH T (s.handleTimer t nowMs).1 := by
  unfold Server.handleTimer
  split
  · exact hi
  · rename_i c hb
    split
    · split
      · split
        · exact hi.push hth _ rfl rfl rfl
        · exact (hi.setEvents _).finish c
      · exact hi
    · split
      · split
        · exact hi.push hth _ rfl rfl rfl
        · exact (hi.setEvents _).finish c
      · exact hi
    · split
      · exact hi.finish c
      · exact hi
    · exact hi

theorem runTimers_inv (hth : HeapPred TH) (fuel : Nat) : ∀ {s : Server H}, SInv Inv last TH T s →
    ∀ (nowMs : Nat) (sent : List (Nat × List Nat)), SInv Inv last TH T (Server.runTimers fuel s nowMs sent).1 := by
  induction fuel with
  | zero => intro s hi nowMs sent; exact hi
  | succ fuel ih =>
    intro s hi nowMs sent
    rw [Server.runTimers]
    split
    · exact hi
    · split
      · exact hi
      · split
        · exact hi
        · rename_i t h hp
          have h1 : SInv Inv last TH T ({ s with timers := h } : Server H) :=
            ⟨hi.core, hth.pop _ _ _ hi.heap hp⟩
          have h2 := handleTimer_inv hth h1 t nowMs
          exact ih h2 nowMs _

theorem activeTimeouts_ok (hok : HCOk hc Inv last) {s : Server H} (hi : SInv Inv last TH T s) (nowMs : Nat) :
    ∃ s', s.activeTimeouts hc nowMs = .ok s' ∧ SInv Inv last TH T s' := by
  unfold Server.activeTimeouts
  refine foldlM_ok_of_inv (fun x : Server H => SInv Inv last TH T x) _ ?_ s.active s hi
  intro b cid hb
  simp only
  split
  · exact ⟨b, rfl, hb⟩
  · rename_i c hf
    split
    · rename_i h t sig hst
      split
      · have hs := hb.byCid hf
        rw [hst] at hs
        obtain ⟨h', out, hr, _, _⟩ := hok.receive h hs.1
        rw [hr]
        exact ⟨_, rfl, (hb.setEvents _).finish c⟩
      · exact ⟨b, rfl, hb⟩
    · exact ⟨b, rfl, hb⟩

/-! ### per-connection work -/

theorem stepActive_ok (hok : HCOk hc Inv last) (hth : HeapPred TH) {s : Server H}
    (hi : SInv Inv last TH T s) (nowMs : Nat) :
    ∃ r, s.stepActive hc nowMs T = .ok r ∧ SInv Inv last TH T r.1 := by
  unfold Server.stepActive
  refine foldlM_ok_of_inv (fun x : Server H × List (Nat × List Nat) => SInv Inv last TH T x.1) _ ?_ s.active (s, []) hi
  intro b cid hb
  simp only
  split
  · exact ⟨b, rfl, hb⟩
  · rename_i c hf
    split
    · rename_i h t sig hst
      have hs := hb.byCid hf
      rw [hst] at hs
      split <;> split <;> first
        | (obtain ⟨h', out, hr, _, _⟩ := hok.receive h hs.1
           rw [hr]
           refine ⟨_, rfl, ?_⟩
           exact ((hb.setEvents _).put { c with state := .closing } trivial).push hth _ rfl rfl rfl)
        | (obtain ⟨h1, hr1, i1, l1⟩ := hok.step h T hs.1 hs.2
           rw [hr1]
           obtain ⟨h2, out, hr2, i2, l2⟩ := hok.receive h1 i1
           simp only [hr2]
           refine ⟨_, rfl, ?_⟩
           refine SInv.setEvents (SInv.put hb _ ?_) _
           exact ⟨i2, by rw [l2, l1]; exact Nat.le_refl _⟩)
        | (rename_i hne; exact absurd rfl hne)
        | (rename_i hne; cases hne)
    · exact ⟨b, rfl, hb⟩

theorem flushActive_ok (hok : HCOk hc Inv last) {s : Server H} (hi : SInv Inv last TH T s) :
    ∃ r, s.flushActive hc = .ok r ∧ SInv Inv last TH T r.1 := by
  unfold Server.flushActive
  refine foldlM_ok_of_inv (fun x : Server H × List (Nat × List Nat) => SInv Inv last TH T x.1) _ ?_ s.active (s, []) hi
  intro b cid hb
  simp only
  split
  · exact ⟨b, rfl, hb⟩
  · rename_i c hf
    split
    · rename_i h t sig hst
      have hs := hb.byCid hf
      rw [hst] at hs
      obtain ⟨h1, rng1, out, hr, i1, l1⟩ := hok.flush h b.1.rng hs.1
      rw [hr]
      refine ⟨_, rfl, ?_⟩
      have h0 : SInv Inv last TH T ({ b.1 with rng := rng1 } : Server H) := hb.of_eq rfl rfl rfl
      exact h0.put { c with state := .active h1 t sig } ⟨i1, by rw [l1]; exact hs.2⟩
    · exact ⟨b, rfl, hb⟩

/-! ### `Server::step` and the API -/

/-- `Server::step` at a time `nowNs ≥` the time of the previous step, for ANY arrivals. -/
theorem step_ok (hok : HCOk hc Inv last) (hth : HeapPred TH) {s : Server H} (hi : SInv Inv last TH T s)
    (nowNs : Nat) (hle : T ≤ nowNs) (arrivals : List (Nat × List Nat)) :
    ∃ s' sent evs, s.step hc nowNs arrivals = .ok (s', sent, evs) ∧ SInv Inv last TH nowNs s' := by
  have hi0 := hi.mono hle
  obtain ⟨⟨s1, sent1⟩, h1, i1⟩ := flushActive_ok hok hi0
  obtain ⟨⟨s2, sent2⟩, h2, i2⟩ := handleFrames_ok hok hth i1 arrivals ((nowNs - s.timeBase) / 1000000)
  have i3 := runTimers_inv hth (s2.timers.size * 12 + 16) i2 ((nowNs - s.timeBase) / 1000000) []
  obtain ⟨s4, h4, i4⟩ := activeTimeouts_ok hok i3 ((nowNs - s.timeBase) / 1000000)
  have i5 : SInv Inv last TH nowNs s4.retain := by
    refine ⟨?_, i4.heap⟩
    intro c hc
    rcases List.mem_append.1 hc with hc | hc
    · exact i4.core c (List.mem_append_left _ hc)
    · exact i4.core c (List.mem_append_right _ (List.mem_filter.1 hc).1)
  obtain ⟨⟨s6, sent4⟩, h6, i6⟩ := stepActive_ok hok hth i5 ((nowNs - s.timeBase) / 1000000)
  refine ⟨{ s6 with eventsOut := [] }, sent1 ++ sent2 ++ (Server.runTimers (s2.timers.size * 12 + 16) s2 ((nowNs - s.timeBase) / 1000000) []).2 ++ sent4, s6.eventsOut, ?_, i6.setEvents _⟩
  unfold Server.step
  simp only [h1, h2]
  simp only at h4
  rw [h4]
  simp only
  split
  · rename_i t ht
    have := ht.symm.trans h6
    cases this
  · rename_i s7 sent7 ht
    have := ht.symm.trans h6
    cases this
    rfl

theorem flush_ok (hok : HCOk hc Inv last) {s : Server H} (hi : SInv Inv last TH T s) :
    ∃ r, s.flush hc = .ok r ∧ SInv Inv last TH T r.1 := flushActive_ok hok hi

theorem drop_inv {s : Server H} (hi : SInv Inv last TH T s) (addr : Nat) :
    SInv Inv last TH T (s.drop addr) := by
  unfold Server.drop
  split
  · exact hi.finish _
  · exact hi

/-- `RemoteClient::send` under its assertions (`data.len() <= max_packet_size <= MAX_PACKET_SIZE`,
`channel_id < CHANNEL_COUNT`). -/
theorem send_inv (hok : HCOk hc Inv last) {s : Server H} (hi : SInv Inv last TH T s) (addr : Nat)
    (data : List Nat) (chan : Nat) (mode : SendMode) (hlen : data.length ≤ MAX_PACKET_SIZE)
    (hch : chan < CHANNEL_COUNT) : SInv Inv last TH T (s.send hc addr data chan mode) := by
  unfold Server.send
  split
  · rename_i c hf
    split
    · rename_i h t sig hst
      have hs := hi.find hf
      rw [hst] at hs
      obtain ⟨h1, h2⟩ := hok.send h data chan mode hs.1 hlen hch
      exact hi.put _ ⟨h1, by rw [h2]; exact hs.2⟩
    · exact hi
  · exact hi

theorem disconnect_inv {s : Server H} (hi : SInv Inv last TH T s) (addr : Nat) (m : DisconnectMode) :
    SInv Inv last TH T (s.disconnect addr m) := by
  unfold Server.disconnect
  split
  · rename_i c hf
    split
    · rename_i h t sig hst
      have hs := hi.find hf
      rw [hst] at hs
      exact hi.put _ hs
    · exact hi
  · exact hi

end Uflow.EpNoTrap
