import Uflow.Lemmas.EndpointServerPrim
import Uflow.Lemmas.EndpointServerHeap

/-!
`Server.handleSyn` split into its outcomes: ignored (known address), refused (one error frame),
accepted (a new pending entry, one SYN-ACK, one resend timer).
-/

namespace Uflow.Endpoint

open Uflow.Gen Uflow.Codec Uflow.HalfConn

variable {H : Type}

/-- State after a refused SYN: at most an `error` event is queued. -/
def Server.refuse (s : Server H) (addr : Nat) (ev : ErrorType) : Server H :=
  { s with eventsOut := if s.cfg.enableHandshakeErrors then s.eventsOut ++ [SEvent.error addr ev] else s.eventsOut }

/-- The nonce the server draws for the next accepted SYN. -/
def Server.drawNonce (s : Server H) : Nat := s.rng.next.1 % 2^32

/-- The SYN-ACK the server sends for the next accepted SYN carrying `nonce`. -/
def Server.synAckBytes (s : Server H) (nonce : Nat) : List Nat :=
  encode (.synAck nonce s.drawNonce (u32 s.cfg.ep.maxReceiveRate) (u32 s.cfg.ep.maxPacketSize) (u32 s.cfg.ep.maxReceiveAlloc))

/-- The entry created for an accepted SYN. -/
def Server.newEntry (s : Server H) (addr nonce maxRecvRate maxRecvAlloc : Nat) : RClient H :=
  { cid := s.nextCid, address := addr,
    state := .pending s.drawNonce nonce maxRecvRate maxRecvAlloc (s.synAckBytes nonce) }

/-- State after an accepted SYN. -/
def Server.accept (s : Server H) (addr nonce maxRecvRate maxRecvAlloc nowMs : Nat) : Server H :=
  { s with rng := s.rng.next.2, nextCid := s.nextCid + 1,
           clients := s.clients ++ [s.newEntry addr nonce maxRecvRate maxRecvAlloc],
           timers := tPush s.timers { cid := s.nextCid, kind := .resendSynAck,
                                      time := nowMs + SERVER_HANDSHAKE_RESEND_INTERVAL_MS,
                                      count := SERVER_HANDSHAKE_RESEND_COUNT } }

/-- The server has no room for another connection. -/
def Server.full (s : Server H) : Prop :=
  s.clients.length ≥ s.cfg.maxTotalConnections ∨ s.activeCount ≥ s.cfg.maxActiveConnections

instance (s : Server H) : Decidable s.full := by unfold Server.full; infer_instance

theorem Server.handleSyn_known {s : Server H} {addr : Nat} {c : RClient H} (h : s.find addr = some c)
    (v n r p a nowMs : Nat) : s.handleSyn addr v n r p a nowMs = (s, []) := by
  unfold Server.handleSyn; rw [h]

theorem Server.handleSyn_version {s : Server H} {addr : Nat} (h : s.find addr = none)
    (v n r p a nowMs : Nat) (hv : v ≠ PROTOCOL_VERSION) :
    s.handleSyn addr v n r p a nowMs = (s.refuse addr .version, [(addr, errFrame n .version)]) := by
  unfold Server.handleSyn; rw [h]; simp only [hv, ne_eq, not_false_eq_true, if_true]; rfl

theorem Server.handleSyn_full {s : Server H} {addr : Nat} (h : s.find addr = none)
    (n r p a nowMs : Nat) (hf : s.full) :
    s.handleSyn addr PROTOCOL_VERSION n r p a nowMs = (s.refuse addr .serverFull, [(addr, errFrame n .serverFull)]) := by
  unfold Server.full at hf
  unfold Server.handleSyn; rw [h]; simp only [ne_eq, not_true_eq_false, if_false, hf, if_true]; rfl

theorem Server.handleSyn_config {s : Server H} {addr : Nat} (h : s.find addr = none)
    (n r p a nowMs : Nat) (hf : ¬ s.full) (hc : a < s.cfg.ep.maxPacketSize ∨ p > s.cfg.ep.maxReceiveAlloc) :
    s.handleSyn addr PROTOCOL_VERSION n r p a nowMs = (s.refuse addr .config, [(addr, errFrame n .config)]) := by
  unfold Server.full at hf
  unfold Server.handleSyn; rw [h]; simp only [ne_eq, not_true_eq_false, if_false, hf]
  by_cases h1 : a < s.cfg.ep.maxPacketSize
  · rw [if_pos h1]; rfl
  · rw [if_neg h1]
    have h2 : p > s.cfg.ep.maxReceiveAlloc := by rcases hc with hc | hc; exact absurd hc h1; exact hc
    rw [if_pos h2]; rfl

theorem Server.handleSyn_accept {s : Server H} {addr : Nat} (h : s.find addr = none)
    (n r p a nowMs : Nat) (hf : ¬ s.full) (h1 : ¬ a < s.cfg.ep.maxPacketSize) (h2 : ¬ p > s.cfg.ep.maxReceiveAlloc) :
    s.handleSyn addr PROTOCOL_VERSION n r p a nowMs = (s.accept addr n r a nowMs, [(addr, s.synAckBytes n)]) := by
  unfold Server.full at hf
  unfold Server.handleSyn; rw [h]; simp only [ne_eq, not_true_eq_false, if_false, hf, h1, h2]; rfl

/-- The three outcomes of `handleSyn`. -/
theorem Server.handleSyn_cases (s : Server H) (addr v n r p a nowMs : Nat) :
    ((∃ c, s.find addr = some c) ∧ s.handleSyn addr v n r p a nowMs = (s, []))
    ∨ (s.find addr = none ∧ ∃ e ev, s.handleSyn addr v n r p a nowMs = (s.refuse addr ev, [(addr, errFrame n e)]))
    ∨ (s.find addr = none ∧ v = PROTOCOL_VERSION ∧ ¬ s.full ∧ ¬ a < s.cfg.ep.maxPacketSize ∧
        ¬ p > s.cfg.ep.maxReceiveAlloc ∧
        s.handleSyn addr v n r p a nowMs = (s.accept addr n r a nowMs, [(addr, s.synAckBytes n)])) := by
  cases hf : s.find addr with
  | some c => exact Or.inl ⟨⟨c, rfl⟩, Server.handleSyn_known hf ..⟩
  | none =>
    by_cases hv : v = PROTOCOL_VERSION
    · subst hv
      by_cases hfull : s.full
      · exact Or.inr (Or.inl ⟨rfl, _, _, Server.handleSyn_full hf n r p a nowMs hfull⟩)
      · by_cases h1 : a < s.cfg.ep.maxPacketSize
        · exact Or.inr (Or.inl ⟨rfl, _, _, Server.handleSyn_config hf n r p a nowMs hfull (Or.inl h1)⟩)
        · by_cases h2 : p > s.cfg.ep.maxReceiveAlloc
          · exact Or.inr (Or.inl ⟨rfl, _, _, Server.handleSyn_config hf n r p a nowMs hfull (Or.inr h2)⟩)
          · exact Or.inr (Or.inr ⟨rfl, rfl, hfull, h1, h2, Server.handleSyn_accept hf n r p a nowMs hfull h1 h2⟩)
    · exact Or.inr (Or.inl ⟨rfl, _, _, Server.handleSyn_version hf v n r p a nowMs hv⟩)

theorem Server.refuse_eventsOut (s : Server H) (addr : Nat) (ev : ErrorType) :
    (s.refuse addr ev).eventsOut = s.eventsOut ∨ (s.refuse addr ev).eventsOut = s.eventsOut ++ [SEvent.error addr ev] := by
  unfold Server.refuse
  cases s.cfg.enableHandshakeErrors
  · exact Or.inl rfl
  · exact Or.inr rfl

theorem Server.WF.refuse {s : Server H} (h : s.WF) (addr : Nat) (ev : ErrorType) : (s.refuse addr ev).WF :=
  h.of_eq rfl rfl rfl rfl rfl

theorem Server.refuse_quiet (s : Server H) (addr : Nat) (ev : ErrorType) : Quiet s (s.refuse addr ev) := by
  refine Quiet.of_eq (s := s) (s' := s.refuse addr ev) rfl rfl rfl rfl rfl ?_ rfl
  rcases s.refuse_eventsOut addr ev with h | h <;> rw [h]
  · exact EvNC.refl _
  · exact EvNC.append _ (NoConn.error addr ev)

theorem Server.WF.accept {s : Server H} (h : s.WF) {addr : Nat} (hf : s.find addr = none)
    (nonce r a nowMs : Nat) : (s.accept addr nonce r a nowMs).WF := by
  have hcn := h.cidNodup
  rw [List.map_append, List.nodup_append] at hcn
  obtain ⟨hn1, hn2, hn3⟩ := hcn
  have hmem : ∀ x, x ∈ s.clients ++ [s.newEntry addr nonce r a] → x ∈ s.clients ∨ x = s.newEntry addr nonce r a := by
    intro x hx
    rcases List.mem_append.1 hx with hx | hx
    · exact Or.inl hx
    · exact Or.inr (by simpa using hx)
  constructor
  · show (((s.clients ++ [s.newEntry addr nonce r a]) ++ s.detached).map (fun x : RClient H => x.cid)).Nodup
    simp only [List.map_append, List.map_cons, List.map_nil]
    rw [List.nodup_append]
    refine ⟨?_, hn2, ?_⟩
    · rw [List.nodup_append]
      refine ⟨hn1, by simp, ?_⟩
      intro x hx y hy
      obtain ⟨c, hc, rfl⟩ := List.mem_map.1 hx
      have := h.cidLt c (List.mem_append_left _ hc)
      have hy : y = s.nextCid := by simpa [Server.newEntry] using hy
      omega
    · intro x hx y hy
      obtain ⟨d, hd, rfl⟩ := List.mem_map.1 hy
      have hd' := h.cidLt d (List.mem_append_right _ hd)
      rcases List.mem_append.1 hx with hx | hx
      · exact hn3 x hx d.cid (List.mem_map_of_mem hd)
      · have hx : x = s.nextCid := by simpa [Server.newEntry] using hx
        omega
  · intro x hx
    show x.cid < s.nextCid + 1
    rcases List.mem_append.1 hx with hx | hx
    · rcases hmem x hx with hx | hx
      · have := h.cidLt x (List.mem_append_left _ hx); omega
      · subst hx; simp [Server.newEntry]
    · have := h.cidLt x (List.mem_append_right _ hx); omega
  · show ((s.clients ++ [s.newEntry addr nonce r a]).map (fun x : RClient H => x.address)).Nodup
    simp only [List.map_append, List.map_cons, List.map_nil]
    rw [List.nodup_append]
    refine ⟨h.addrNodup, by simp, ?_⟩
    intro x hx y hy
    obtain ⟨c, hc, rfl⟩ := List.mem_map.1 hx
    have hy : y = addr := by simpa [Server.newEntry] using hy
    rw [hy]
    exact Server.find_none hf c hc
  · exact h.detFin
  · intro x hx
    rcases hmem x hx with hx | hx
    · exact h.cliNotFin x hx
    · subst hx; rfl
  · intro x hx ln rn r' al reply hst
    rcases hmem x hx with hx | hx
    · exact h.replyOk x hx ln rn r' al reply hst
    · subst hx
      simp only [Server.newEntry, RState.pending.injEq] at hst
      obtain ⟨h1, h2, _, _, h5⟩ := hst
      subst h1 h2 h5
      refine ⟨?_, rfl⟩
      unfold Server.drawNonce
      exact Nat.mod_lt _ (by decide)
  · intro t ht
    show t.cid < s.nextCid + 1
    rw [show (s.accept addr nonce r a nowMs).timers = tPush s.timers _ from rfl, mem_tPush] at ht
    rcases ht with ht | ht
    · subst ht; simp
    · have := h.timersLt t ht; omega

end Uflow.Endpoint
