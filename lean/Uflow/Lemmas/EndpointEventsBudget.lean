import Uflow.Lemmas.EndpointEventsTimers

/-!
Server endpoint: the disconnect-retry budget. A `closing` entry (address `a`, identity `cid`) is tracked
through arbitrary runs: as long as it is `closing`, it has exactly one `resendDisconnect` timer, and
"requests sent to `a` so far + count of that timer" is constant.
-/

namespace Uflow.Endpoint

open Uflow.Gen Uflow.Codec Uflow.HalfConn

variable {H : Type}

/-- A disconnect-retry timer of the object `cid`. -/
def isRD (cid : Nat) (t : Timer) : Bool := decide (t.cid = cid) && decide (t.kind = .resendDisconnect)

def rdCount (h : Array Timer) (cid : Nat) : Nat := h.toList.countP (isRD cid)

/-- Number of disconnect requests sent to `a`. -/
def cntReq (a : Nat) (out : List (Nat × List Nat)) : Nat := out.countP (fun x => x == (a, discReq))

theorem cntReq_append (a : Nat) (o1 o2 : List (Nat × List Nat)) : cntReq a (o1 ++ o2) = cntReq a o1 + cntReq a o2 := by
  unfold cntReq; exact List.countP_append ..

theorem cntReq_nil (a : Nat) : cntReq a [] = 0 := rfl

theorem cntReq_single (a : Nat) : cntReq a [(a, discReq)] = 1 := by simp [cntReq]

theorem cntReq_of_ne {a : Nat} {out : List (Nat × List Nat)} (h : ∀ x ∈ out, x.1 ≠ a) : cntReq a out = 0 := by
  unfold cntReq
  rw [List.countP_eq_zero]
  intro x hx
  have := h x hx
  simp only [beq_iff_eq]
  intro e; rw [e] at this; exact this rfl

theorem rdCount_push (h : Array Timer) (e : Timer) (cid : Nat) :
    rdCount (tPush h e) cid = rdCount h cid + (if isRD cid e then 1 else 0) := by
  unfold rdCount
  rw [(tPush_perm h e).countP_eq, List.countP_cons]

theorem rdCount_pop {h h' : Array Timer} {t : Timer} (hp : tPop h = some (t, h')) (cid : Nat) :
    rdCount h cid = rdCount h' cid + (if isRD cid t then 1 else 0) := by
  unfold rdCount
  rw [← (tPop_perm h t h' hp).2.countP_eq, List.countP_cons]

/-- The entry at `a` is the object `cid`, it is `closing`, it has exactly one disconnect-retry timer, and
that timer has count `n`. -/
structure Trk (s : Server H) (a cid n : Nat) : Prop where
  wf : s.WF
  ent : ∃ c, s.find a = some c ∧ c.cid = cid ∧ c.state = .closing
  one : rdCount s.timers cid = 1
  cnt : ∀ t ∈ s.timers.toList, isRD cid t = true → t.count = n

/-- The object `cid` has left `closing` for good (it is `closed`, `fin`, detached or forgotten). -/
def Left (s : Server H) (cid : Nat) : Prop :=
  cid < s.nextCid ∧ ∀ x ∈ s.clients, x.cid = cid → x.state ≠ .closing ∧ x.state.early = false

theorem Left.of_TStep {s s' : Server H} {cid : Nat} (hl : Left s cid) (ht : TStep s s') : Left s' cid := by
  refine ⟨Nat.lt_of_lt_of_le hl.1 ht.nc, fun x hx hxc => ⟨fun hz => ?_, ?_⟩⟩
  · rcases ht.cz x hx hz with ⟨c, hc, hcid, hst⟩ | hge
    · obtain ⟨h1, h2⟩ := hl.2 c hc (hcid.trans hxc)
      rcases hst with hst | hst
      · exact h1 hst
      · rw [h2] at hst; cases hst
    · have := hl.1; omega
  · cases hee : x.state.early with
    | false => rfl
    | true =>
      rcases ht.cl x hx hee with ⟨c, hc, hcid, hst⟩ | hge
      · rw [(hl.2 c hc (hcid.trans hxc)).2] at hst; cases hst
      · have := hl.1; omega

theorem Trk.cid_lt {s : Server H} {a cid n : Nat} (hk : Trk s a cid n) : cid < s.nextCid := by
  obtain ⟨c, hf, hcid, _⟩ := hk.ent
  rw [← hcid]
  exact hk.wf.fresh c (List.mem_append_left _ (Server.find_some hf).1)

/-- Another entry (at an address `≠ a`) has another identity. -/
theorem Trk.cid_ne {s : Server H} {a cid n : Nat} (hk : Trk s a cid n) {b : Nat} {c : RClient H}
    (hf : s.find b = some c) (hb : b ≠ a) : c.cid ≠ cid := by
  obtain ⟨c0, hf0, hcid0, _⟩ := hk.ent
  intro e
  obtain ⟨h1, h2⟩ := Server.find_some hf
  obtain ⟨h3, h4⟩ := Server.find_some hf0
  have : c = c0 := inj_of_nodup_map (·.cid) hk.wf.cidClients h1 h3 (e.trans hcid0.symm)
  rw [this, h4] at h2
  exact hb h2.symm

/-! ## Locality -/

/-- `s'` differs from `s`, as far as the map is concerned, only at address `b`; the timers are unchanged
or one was pushed whose identity is new or that of the entry of `b`; all datagrams go to `b`. -/
structure LocalAt (s s' : Server H) (b : Nat) (out : List (Nat × List Nat)) : Prop where
  find : ∀ a, a ≠ b → s'.find a = s.find a
  out : ∀ x ∈ out, x.1 = b
  tm : s'.timers = s.timers ∨
        ∃ e, s'.timers = tPush s.timers e ∧ (s.nextCid ≤ e.cid ∨ ∃ c, s.find b = some c ∧ e.cid = c.cid)

theorem LocalAt.refl (s : Server H) (b : Nat) : LocalAt s s b [] :=
  ⟨fun _ _ => rfl, by simp, Or.inl rfl⟩

/-- A transition local to another address leaves the tracked entry alone and sends nothing to `a`. -/
theorem Trk.of_local {s s' : Server H} {a cid n b : Nat} {out : List (Nat × List Nat)} (hk : Trk s a cid n)
    (hw' : s'.WF) (hl : LocalAt s s' b out) (hb : b ≠ a) : Trk s' a cid n ∧ cntReq a out = 0 := by
  refine ⟨⟨hw', ?_, ?_, ?_⟩, cntReq_of_ne (fun x hx => by rw [hl.out x hx]; exact hb)⟩
  · rw [hl.find a (fun e => hb e.symm)]; exact hk.ent
  · rcases hl.tm with ht | ⟨e, ht, he⟩
    · rw [ht]; exact hk.one
    · have : isRD cid e = false := by
        unfold isRD
        rcases he with he | ⟨c, hf, he⟩
        · have := hk.cid_lt
          have : e.cid ≠ cid := by omega
          simp [this]
        · have := hk.cid_ne hf hb
          have : e.cid ≠ cid := by rw [he]; exact this
          simp [this]
      rw [ht, rdCount_push, this]; simpa using hk.one
  · intro t htm hrd
    rcases hl.tm with ht | ⟨e, ht, he⟩
    · rw [ht] at htm; exact hk.cnt t htm hrd
    · rw [ht, mem_tPush] at htm
      rcases htm with rfl | htm
      · exfalso
        unfold isRD at hrd
        simp only [Bool.and_eq_true, decide_eq_true_eq] at hrd
        rcases he with he | ⟨c, hf, he⟩
        · have := hk.cid_lt; omega
        · exact hk.cid_ne hf hb (he.symm.trans hrd.1)
      · exact hk.cnt t htm hrd

theorem Server.find_finish_ne (s : Server H) (c : RClient H) (a : Nat) (h : a ≠ c.address) :
    (s.finish c).find a = s.find a := by
  rw [Server.find_finish, if_neg h]

theorem Server.finish_timers (s : Server H) (c : RClient H) : (s.finish c).timers = s.timers := by
  unfold Server.finish; simp only; split <;> rfl

/-! ### frame handlers -/

theorem Server.handleSyn_LocalAt (s : Server H) (addr v n r p a nowMs : Nat) :
    LocalAt s (s.handleSyn addr v n r p a nowMs).1 addr (s.handleSyn addr v n r p a nowMs).2 := by
  unfold Server.handleSyn
  split
  · exact LocalAt.refl s addr
  · next hf =>
    simp only
    split
    · exact ⟨fun _ _ => rfl, by simp, Or.inl rfl⟩
    · split
      · exact ⟨fun _ _ => rfl, by simp, Or.inl rfl⟩
      · split
        · exact ⟨fun _ _ => rfl, by simp, Or.inl rfl⟩
        · split
          · exact ⟨fun _ _ => rfl, by simp, Or.inl rfl⟩
          · rcases hr : s.rng.next with ⟨vv, rng⟩
            simp only
            refine ⟨fun b hb => ?_, by simp, Or.inr ⟨_, rfl, Or.inl (Nat.le_refl _)⟩⟩
            show findA (s.clients ++ [_]) b = _
            rw [findA_append, if_neg (fun e => hb e.symm)]
            simp [Server.find_eq]

theorem Server.handleHsAck_LocalAt (hc : HC H) (s : Server H) (hw : s.WF) (addr na nowMs nowNs : Nat) :
    LocalAt s (s.handleHsAck hc addr na nowMs nowNs) addr [] := by
  unfold Server.handleHsAck
  split
  · exact LocalAt.refl s addr
  · next c hf =>
    obtain ⟨hcm, hca⟩ := Server.find_some hf
    split
    · next ln rn r al rb hst =>
      split
      · simp only
        refine ⟨fun b hb => ?_, by simp, Or.inl ?_⟩
        · show Server.find (s.put _) b = _
          rw [Server.find_put (c' := { c with state := .active (hc.new (hcConfig s.cfg.ep ln rn r al) nowNs) (nowMs + s.cfg.ep.activeTimeoutMs) none }) hw hcm rfl rfl,
            if_neg (by rw [hca]; exact hb)]
        · rw [Server.put_state_eq hcm]
      · exact LocalAt.refl s addr
    · exact LocalAt.refl s addr

theorem Server.handleDisconnect_LocalAt (hc : HC H) (s s' : Server H) (hw : s.WF) (addr nowMs : Nat)
    (out : List (Nat × List Nat)) (h : s.handleDisconnect hc addr nowMs = .ok (s', out)) :
    LocalAt s s' addr out := by
  unfold Server.handleDisconnect at h
  split at h
  · cases h; exact LocalAt.refl s addr
  · next c hf =>
    obtain ⟨hcm, hca⟩ := Server.find_some hf
    simp only at h
    split at h
    · cases h; exact LocalAt.refl s addr
    · next hh t sig hst =>
      split at h
      · cases h
      · next h' pkts hr =>
        cases h
        have hcm' : c ∈ ({ s with eventsOut := s.eventsOut ++ pkts.map (SEvent.receive addr) } : Server H).clients := hcm
        refine ⟨fun b hb => ?_, by simp, Or.inr ⟨{ cid := c.cid, kind := .closedTimeout, time := nowMs + SERVER_CLOSED_TIMEOUT_MS, count := 0 }, ?_, Or.inr ⟨c, hf, rfl⟩⟩⟩
        · show Server.find (Server.put _ _) b = _
          rw [Server.put_state_eq hcm']
          show findA (updCid s.clients _) b = _
          rw [findA_updCid (c' := { c with state := .closed }) hw.addr hw.cidClients hcm rfl rfl,
            if_neg (by rw [hca]; exact hb)]
          rfl
        · rw [Server.put_state_eq hcm']
    · next hst =>
      cases h
      refine ⟨fun b hb => ?_, by simp, Or.inr ⟨{ cid := c.cid, kind := .closedTimeout, time := nowMs + SERVER_CLOSED_TIMEOUT_MS, count := 0 }, ?_, Or.inr ⟨c, hf, rfl⟩⟩⟩
      · show Server.find (Server.put _ _) b = _
        rw [Server.find_put (c' := { c with state := .closed }) hw hcm rfl rfl, if_neg (by rw [hca]; exact hb)]
      · rw [Server.put_state_eq hcm]
    · cases h; exact ⟨fun _ _ => rfl, by simp, Or.inl rfl⟩
    · cases h; exact LocalAt.refl s addr

theorem Server.handleDisconnectAck_LocalAt (s : Server H) (addr : Nat) :
    LocalAt s (s.handleDisconnectAck addr) addr [] := by
  unfold Server.handleDisconnectAck
  split
  · exact LocalAt.refl s addr
  · next c hf =>
    obtain ⟨hcm, hca⟩ := Server.find_some hf
    split
    · simp only
      refine ⟨fun b hb => ?_, by simp, Or.inl (Server.finish_timers _ _)⟩
      rw [Server.find_finish_ne _ _ _ (by rw [hca]; exact hb)]
      rfl
    · exact LocalAt.refl s addr

theorem Server.handleTraffic_LocalAt (hc : HC H) (s s' : Server H) (hw : s.WF) (addr : Nat) (f : Frame) (nowMs : Nat)
    (h : s.handleTraffic hc addr f nowMs = .ok s') : LocalAt s s' addr [] := by
  unfold Server.handleTraffic at h
  split at h
  · cases h; exact LocalAt.refl s addr
  · next c hf =>
    obtain ⟨hcm, hca⟩ := Server.find_some hf
    split at h
    · next hh t sig hst =>
      split at h
      · cases h
      · next h' hd =>
        cases h
        refine ⟨fun b hb => ?_, by simp, Or.inl ?_⟩
        · rw [Server.find_put (c' := { c with state := .active h' (nowMs + s.cfg.ep.activeTimeoutMs) sig }) hw hcm rfl rfl,
            if_neg (by rw [hca]; exact hb)]
        · rw [Server.put_state_eq hcm]
    · cases h; exact LocalAt.refl s addr

theorem Server.handleFrame_LocalAt (hc : HC H) (s s' : Server H) (hw : s.WF) (addr : Nat) (f : Frame) (nowMs nowNs : Nat)
    (out : List (Nat × List Nat)) (h : s.handleFrame hc addr f nowMs nowNs = .ok (s', out)) :
    LocalAt s s' addr out := by
  unfold Server.handleFrame at h
  have traffic : (s.handleTraffic hc addr f nowMs).map (·, ([] : List (Nat × List Nat))) = .ok (s', out) →
      LocalAt s s' addr out := by
    intro h
    cases ht : s.handleTraffic hc addr f nowMs with
    | error e => rw [ht] at h; cases h
    | ok s1 =>
      rw [ht] at h; cases h
      exact Server.handleTraffic_LocalAt hc s _ hw addr f nowMs ht
  cases f with
  | syn v n r p a =>
    have e := Except.ok.inj h
    have := Server.handleSyn_LocalAt s addr v n r p a nowMs
    rw [e] at this; exact this
  | hsAck na => cases h; exact Server.handleHsAck_LocalAt hc s hw addr na nowMs nowNs
  | synAck => cases h; exact LocalAt.refl s addr
  | hsError => cases h; exact LocalAt.refl s addr
  | disconnect => exact Server.handleDisconnect_LocalAt hc s s' hw addr nowMs out h
  | disconnectAck => cases h; exact Server.handleDisconnectAck_LocalAt s addr
  | data => exact traffic h
  | sync => exact traffic h
  | ack => exact traffic h


/-! ## Tracking a `closing` entry through transitions -/

/-- From a tracked state with count `n`, the transition emitting `out` either keeps tracking with count
`n'`, where `requests to a in out + n' = n`, or the object has left `closing` for good. -/
def KStep (a cid : Nat) (s s' : Server H) (out : List (Nat × List Nat)) : Prop :=
  ∀ n, Trk s a cid n → (∃ n', Trk s' a cid n' ∧ cntReq a out + n' = n) ∨ Left s' cid

theorem KStep.refl (a cid : Nat) (s : Server H) : KStep a cid s s [] :=
  fun n hk => Or.inl ⟨n, hk, by simp [cntReq_nil]⟩

theorem KStep.trans {a cid : Nat} {s s1 s2 : Server H} {o1 o2 : List (Nat × List Nat)}
    (h1 : KStep a cid s s1 o1) (h2 : KStep a cid s1 s2 o2) (hl : Left s1 cid → Left s2 cid) :
    KStep a cid s s2 (o1 ++ o2) := by
  intro n hk
  rcases h1 n hk with ⟨n1, hk1, he1⟩ | hleft
  · rcases h2 n1 hk1 with ⟨n2, hk2, he2⟩ | hleft
    · exact Or.inl ⟨n2, hk2, by rw [cntReq_append]; omega⟩
    · exact Or.inr hleft
  · exact Or.inr (hl hleft)

theorem KStep.of_local {a cid b : Nat} {s s' : Server H} {out : List (Nat × List Nat)} (hw' : s'.WF)
    (hl : LocalAt s s' b out) (hb : b ≠ a) : KStep a cid s s' out := by
  intro n hk
  obtain ⟨hk', hc⟩ := hk.of_local hw' hl hb
  exact Or.inl ⟨n, hk', by rw [hc]; omega⟩

/-- An `active` (or `pending`, `closed`) entry is not at the tracked address. -/
theorem Trk.addr_ne {s : Server H} {a cid n : Nat} (hk : Trk s a cid n) {c : RClient H} (hc : c ∈ s.clients)
    (hst : c.state ≠ .closing) : c.address ≠ a := by
  obtain ⟨c0, hf0, _, hst0⟩ := hk.ent
  intro e
  have := Server.find_of_mem hk.wf hc
  rw [e, hf0] at this
  cases this
  exact hst hst0

/-- The tracked entry removed from the map: the object has left. -/
theorem Trk.left_of_finish {s s' : Server H} {a cid n : Nat} (hk : Trk s a cid n) {c : RClient H}
    (hf : s.find a = some c) (h1 : s'.clients = s.clients.filter (·.address ≠ c.address))
    (hn : s'.nextCid = s.nextCid) : Left s' cid := by
  obtain ⟨c0, hf0, hcid0, _⟩ := hk.ent
  rw [hf] at hf0; cases hf0
  obtain ⟨hcm, hca⟩ := Server.find_some hf
  refine ⟨by rw [hn]; exact hk.cid_lt, fun x hx hxc => ?_⟩
  rw [h1, List.mem_filter] at hx
  have : x = c := inj_of_nodup_map (·.cid) hk.wf.cidClients hx.1 hcm (hxc.trans hcid0.symm)
  rw [this] at hx
  simp at hx

/-- The tracked entry replaced by a `closed` one: the object has left. -/
theorem Trk.left_of_closed {s s' : Server H} {a cid n : Nat} (hk : Trk s a cid n) {c : RClient H}
    (hf : s.find a = some c) (h1 : s'.clients = updCid s.clients { c with state := .closed })
    (hn : s'.nextCid = s.nextCid) : Left s' cid := by
  obtain ⟨c0, hf0, hcid0, _⟩ := hk.ent
  rw [hf] at hf0; cases hf0
  obtain ⟨hcm, hca⟩ := Server.find_some hf
  refine ⟨by rw [hn]; exact hk.cid_lt, fun x hx hxc => ?_⟩
  rw [h1] at hx
  rcases mem_updCid_cases (c' := { c with state := .closed }) hk.wf.cidClients hcm rfl hx with rfl | ⟨_, hne⟩
  · exact ⟨(by intro h; cases h), rfl⟩
  · exact absurd (hxc.trans hcid0.symm) hne

/-! ### frames -/

/-- A frame from the tracked address: ignored, or the object leaves `closing`. -/
theorem Server.handleFrame_tracked (hc : HC H) (s s' : Server H) (a cid n : Nat) (hk : Trk s a cid n) (f : Frame)
    (nowMs nowNs : Nat) (out : List (Nat × List Nat)) (h : s.handleFrame hc a f nowMs nowNs = .ok (s', out)) :
    (s' = s ∧ out = []) ∨ Left s' cid := by
  obtain ⟨c, hf, hcid, hst⟩ := hk.ent
  obtain ⟨hcm, hca⟩ := Server.find_some hf
  unfold Server.handleFrame at h
  have traffic : (s.handleTraffic hc a f nowMs).map (·, ([] : List (Nat × List Nat))) = .ok (s', out) →
      (s' = s ∧ out = []) ∨ Left s' cid := by
    intro h
    have e : s.handleTraffic hc a f nowMs = .ok s := by
      unfold Server.handleTraffic; rw [hf]; simp only [hst]
    rw [e] at h; cases h; exact Or.inl ⟨rfl, rfl⟩
  cases f with
  | syn v n' r p a' =>
    have e := Except.ok.inj h
    have e2 : s.handleSyn a v n' r p a' nowMs = (s, []) := by unfold Server.handleSyn; rw [hf]
    rw [e2] at e; cases e; exact Or.inl ⟨rfl, rfl⟩
  | hsAck na =>
    have e2 : s.handleHsAck hc a na nowMs nowNs = s := by unfold Server.handleHsAck; rw [hf]; simp only [hst]
    have e := Except.ok.inj h
    rw [e2] at e; cases e; exact Or.inl ⟨rfl, rfl⟩
  | synAck => cases h; exact Or.inl ⟨rfl, rfl⟩
  | hsError => cases h; exact Or.inl ⟨rfl, rfl⟩
  | disconnect =>
    have h : s.handleDisconnect hc a nowMs = .ok (s', out) := h
    unfold Server.handleDisconnect at h
    rw [hf] at h
    simp only [hst] at h
    cases h
    refine Or.inr (hk.left_of_closed hf ?_ ?_)
    · rw [Server.put_state_eq hcm]
    · rw [Server.put_state_eq hcm]
  | disconnectAck =>
    have e2 : s.handleDisconnectAck a =
        ({ s with eventsOut := s.eventsOut ++ [SEvent.disconnect a] } : Server H).finish c := by
      unfold Server.handleDisconnectAck; rw [hf]; simp only [hst]
    have e := Except.ok.inj h
    rw [e2] at e; cases e
    have hcm' : c ∈ ({ s with eventsOut := s.eventsOut ++ [SEvent.disconnect a] } : Server H).clients := hcm
    refine Or.inr (hk.left_of_finish hf ?_ ?_)
    · rw [Server.finish_eq hcm']
    · rw [Server.finish_eq hcm']
  | data => exact traffic h
  | sync => exact traffic h
  | ack => exact traffic h

theorem Server.handleFrame_KStep (hc : HC H) (s s' : Server H) (hw : s.WF) (a cid addr : Nat) (f : Frame)
    (nowMs nowNs : Nat) (out : List (Nat × List Nat)) (h : s.handleFrame hc addr f nowMs nowNs = .ok (s', out)) :
    KStep a cid s s' out := by
  obtain ⟨_, t, _⟩ := Server.handleFrame_STr hc s s' hw addr f nowMs nowNs out h
  by_cases hb : addr = a
  · subst hb
    intro n hk
    rcases Server.handleFrame_tracked hc s s' addr cid n hk f nowMs nowNs out h with ⟨rfl, rfl⟩ | hl
    · exact Or.inl ⟨n, hk, by simp [cntReq_nil]⟩
    · exact Or.inr hl
  · exact KStep.of_local t.wf (Server.handleFrame_LocalAt hc s s' hw addr f nowMs nowNs out h) hb

theorem Server.handleFrames_KStep (hc : HC H) (s s' : Server H) (hw : s.WF) (a cid : Nat)
    (arrivals : List (Nat × List Nat)) (nowMs nowNs : Nat) (out : List (Nat × List Nat))
    (h : s.handleFrames hc arrivals nowMs nowNs = .ok (s', out)) : KStep a cid s s' out := by
  rw [Server.handleFrames_eq] at h
  have key := Server.handleFrames_induct hc nowMs nowNs
    (fun x o => (∃ evs, STr s evs x) ∧ KStep a cid s x o) ?_ arrivals s [] s' out
    ⟨⟨[], STr.refl hw⟩, KStep.refl a cid s⟩ h
  · exact key.2
  · intro x o addr f x' out' ⟨⟨e1, t1⟩, k1⟩ hf
    obtain ⟨e2, t2, -⟩ := Server.handleFrame_STr hc x x' t1.wf addr f nowMs nowNs out' hf
    exact ⟨⟨e1 ++ e2, t1.trans t2⟩, k1.trans (Server.handleFrame_KStep hc x x' t1.wf a cid addr f nowMs nowNs out' hf)
      (fun hl => hl.of_TStep (Server.handleFrame_TStep hc x x' t1.wf addr f nowMs nowNs out' hf))⟩

/-! ### timers -/

/-- `handleTimer` does nothing, or acts locally at the address of the object of the timer — and if that
object is `closing`, only for a `resendDisconnect` timer. -/
theorem Server.handleTimer_LocalAt (s : Server H) (hw : s.WF) (t : Timer) (nowMs : Nat) :
    s.handleTimer t nowMs = (s, []) ∨
    ∃ c, s.byCid t.cid = some c ∧ c ∈ s.clients ∧ c.cid = t.cid ∧
      LocalAt s (s.handleTimer t nowMs).1 c.address (s.handleTimer t nowMs).2 ∧
      (c.state = .closing → t.kind = .resendDisconnect) := by
  unfold Server.handleTimer
  split
  · exact Or.inl rfl
  · next c hb =>
    split
    · next ln rn r al reply hst =>
      obtain ⟨hcm, hccid⟩ := Server.byCid_clients hw hb (by rw [hst]; intro h; cases h)
      have hfc := Server.find_of_mem hw hcm
      split
      · split
        · exact Or.inr ⟨c, hb, hcm, hccid, ⟨fun _ _ => rfl, by simp,
            Or.inr ⟨_, rfl, Or.inr ⟨c, hfc, hccid.symm⟩⟩⟩, by rw [hst]; intro h; cases h⟩
        · simp only
          refine Or.inr ⟨c, hb, hcm, hccid, ⟨fun b hb' => ?_, by simp, Or.inl (Server.finish_timers _ _)⟩,
            by rw [hst]; intro h; cases h⟩
          rw [Server.find_finish_ne _ _ _ hb']; rfl
      · exact Or.inl rfl
    · next hst =>
      obtain ⟨hcm, hccid⟩ := Server.byCid_clients hw hb (by rw [hst]; intro h; cases h)
      have hfc := Server.find_of_mem hw hcm
      split
      · next hk =>
        split
        · exact Or.inr ⟨c, hb, hcm, hccid, ⟨fun _ _ => rfl, by simp,
            Or.inr ⟨_, rfl, Or.inr ⟨c, hfc, hccid.symm⟩⟩⟩, fun _ => hk⟩
        · simp only
          refine Or.inr ⟨c, hb, hcm, hccid, ⟨fun b hb' => ?_, by simp, Or.inl (Server.finish_timers _ _)⟩,
            fun _ => hk⟩
          rw [Server.find_finish_ne _ _ _ hb']; rfl
      · exact Or.inl rfl
    · next hst =>
      obtain ⟨hcm, hccid⟩ := Server.byCid_clients hw hb (by rw [hst]; intro h; cases h)
      split
      · refine Or.inr ⟨c, hb, hcm, hccid, ⟨fun b hb' => ?_, by simp, Or.inl (Server.finish_timers _ _)⟩,
          by rw [hst]; intro h; cases h⟩
        rw [Server.find_finish_ne _ _ _ hb']
      · exact Or.inl rfl
    · exact Or.inl rfl

/-- One iteration of the timer loop: the pop and `handleTimer`. -/
theorem Server.timerIter_KStep (s : Server H) (hw : s.WF) (a cid : Nat) (t : Timer) (h' : Array Timer)
    (hp : tPop s.timers = some (t, h')) (nowMs : Nat) :
    KStep a cid s (({ s with timers := h' } : Server H).handleTimer t nowMs).1
      (({ s with timers := h' } : Server H).handleTimer t nowMs).2 := by
  intro n hk
  obtain ⟨c, hf, hcid, hst⟩ := hk.ent
  obtain ⟨hcm, hca⟩ := Server.find_some hf
  obtain ⟨htm, hsub⟩ := mem_of_tPop hp
  have w0 : STr s [] ({ s with timers := h' } : Server H) := STr.of_same hw rfl rfl rfl (fun _ h => h) rfl rfl rfl
  obtain ⟨e1, w1, -⟩ := Server.handleTimer_STr _ w0.wf t nowMs
  have hpop := rdCount_pop hp cid
  cases hrd : isRD cid t with
  | true =>
    rw [hrd, hk.one] at hpop
    have h0 : rdCount h' cid = 0 := by simp at hpop; omega
    have hcount : t.count = n := hk.cnt t htm hrd
    unfold isRD at hrd
    simp only [Bool.and_eq_true, decide_eq_true_eq] at hrd
    have hb : ({ s with timers := h' } : Server H).byCid t.cid = some c := by
      rw [hrd.1, ← hcid]; exact Server.byCid_of_mem w0.wf hcm
    obtain ⟨hpos, hzero⟩ := Server.handleTimer_closing ({ s with timers := h' } : Server H) t nowMs c hb hst hrd.2
    by_cases hn : t.count > 0
    · rw [hpos hn]
      refine Or.inl ⟨n - 1, ⟨?_, ⟨c, hf, hcid, hst⟩, ?_, ?_⟩, ?_⟩
      · rw [hpos hn] at w1; exact w1.wf
      · show rdCount (tPush h' _) cid = 1
        rw [rdCount_push, h0]
        simp [isRD, hrd.1, hrd.2]
      · intro x hx hxr
        change x ∈ (tPush h' _).toList at hx
        rw [mem_tPush] at hx
        rcases hx with rfl | hx
        · simp only; omega
        · exfalso
          unfold rdCount at h0
          rw [List.countP_eq_zero] at h0
          exact h0 x hx hxr
      · rw [hca, cntReq_single]; omega
    · have hz : t.count = 0 := by omega
      rw [hzero hz]
      have hcm' : c ∈ ({ ({ s with timers := h' } : Server H) with eventsOut := s.eventsOut ++ [SEvent.error c.address .timeout] } : Server H).clients := hcm
      refine Or.inr (hk.left_of_finish hf ?_ ?_)
      · rw [Server.finish_eq hcm']
      · rw [Server.finish_eq hcm']
  | false =>
    rw [hrd] at hpop
    have hk0 : Trk ({ s with timers := h' } : Server H) a cid n :=
      ⟨w0.wf, ⟨c, hf, hcid, hst⟩, by show rdCount h' cid = 1; have h1 := hk.one; simp at hpop; omega,
       fun x hx hxr => hk.cnt x (hsub x hx) hxr⟩
    rcases Server.handleTimer_LocalAt ({ s with timers := h' } : Server H) w0.wf t nowMs with e | ⟨c0, hb0, hcm0, hcid0, hl, hkind⟩
    · rw [e]; exact Or.inl ⟨n, hk0, by simp [cntReq_nil]⟩
    · by_cases hadr : c0.address = a
      · exfalso
        have hfc0 := Server.find_of_mem w0.wf hcm0
        rw [hadr] at hfc0
        have : c0 = c := by
          have h2 : ({ s with timers := h' } : Server H).find a = some c := hf
          rw [h2] at hfc0; exact (Option.some.inj hfc0).symm
        rw [this] at hkind hcid0
        have hk2 := hkind hst
        unfold isRD at hrd
        simp [hk2, ← hcid0, hcid] at hrd
      · obtain ⟨hk', hc'⟩ := hk0.of_local w1.wf hl hadr
        exact Or.inl ⟨n, hk', by rw [hc']; omega⟩

theorem Server.runTimers_KStep (fuel : Nat) (s : Server H) (hw : s.WF) (hi : s.TIe) (a cid nowMs : Nat)
    (sent : List (Nat × List Nat)) :
    ∃ inc, (Server.runTimers fuel s nowMs sent).2 = sent ++ inc ∧
      KStep a cid s (Server.runTimers fuel s nowMs sent).1 inc := by
  induction fuel generalizing s sent with
  | zero => exact ⟨[], by simp [Server.runTimers], KStep.refl a cid s⟩
  | succ k ih =>
    unfold Server.runTimers
    split
    · exact ⟨[], by simp, KStep.refl a cid s⟩
    · split
      · exact ⟨[], by simp, KStep.refl a cid s⟩
      · split
        · exact ⟨[], by simp, KStep.refl a cid s⟩
        · next t h hp =>
          obtain ⟨htm, hsub⟩ := mem_of_tPop hp
          have k0 : TStep s ({ s with timers := h } : Server H) := TStep.of_timers_sub rfl hsub rfl
          have w0 : STr s [] ({ s with timers := h } : Server H) := STr.of_same hw rfl rfl rfl (fun _ h => h) rfl rfl rfl
          have k1 := Server.handleTimer_TStep ({ s with timers := h } : Server H) w0.wf t (hi.fresh t htm) nowMs
          obtain ⟨e1, w1, -⟩ := Server.handleTimer_STr _ w0.wf t nowMs
          have kk := Server.timerIter_KStep s hw a cid t h hp nowMs
          rcases hx : ({ s with timers := h } : Server H).handleTimer t nowMs with ⟨s1, o1⟩
          rw [hx] at k1 w1 kk
          obtain ⟨inc, he, kr⟩ := ih s1 w1.wf ((hi.of_TStep k0).of_TStep k1) (sent ++ o1)
          refine ⟨o1 ++ inc, by rw [he, List.append_assoc], kk.trans kr (fun hl => ?_)⟩
          exact hl.of_TStep (Server.runTimers_TStep k s1 w1.wf ((hi.of_TStep k0).of_TStep k1) nowMs (sent ++ o1))

/-! ### the loops over `active_clients` -/

theorem Server.activeTimeouts_KStep (hc : HC H) (s s' : Server H) (hw : s.WF) (a cid nowMs : Nat)
    (h : s.activeTimeouts hc nowMs = .ok s') : KStep a cid s s' [] := by
  rw [Server.activeTimeouts_eq] at h
  have key := foldlM_induct (Server.activeTimeoutStep hc nowMs)
    (fun x => (∃ evs, STr s evs x) ∧ TStep s x ∧ KStep a cid s x []) ?_ s.active s s'
    ⟨⟨[], STr.refl hw⟩, TStep.refl s, KStep.refl a cid s⟩ h
  · exact key.2.2
  · intro x cid0 x' ⟨⟨e1, t1⟩, d1, k1⟩ hx
    obtain ⟨e2, t2, hcase⟩ := Server.activeTimeoutStep_STr hc nowMs x x' t1.wf cid0 hx
    have hts : TStep x x' := by
      rcases hcase with ⟨_, rfl⟩ | ⟨c, hh, t, sig, h', pkts, hb, hcm, hst, hge, hr, _, hcl⟩
      · exact TStep.refl _
      · obtain ⟨h'', pkts', hr', rfl⟩ := Server.activeTimeoutStep_fire hc nowMs x x' cid0 c hh t sig hb hst hge hx
        exact (TStep.of_same (s := x) (s' := { x with eventsOut := x.eventsOut ++ pkts'.map (SEvent.receive c.address) ++ [SEvent.error c.address .timeout] }) rfl rfl rfl).trans
          (Server.finish_TStep _ _)
    refine ⟨⟨e1 ++ e2, t1.trans t2⟩, d1.trans hts, ?_⟩
    have kk : KStep a cid x x' [] := by
      rcases hcase with ⟨_, rfl⟩ | ⟨c, hh, t, sig, h', pkts, hb, hcm, hst, hge, hr, _, hcl⟩
      · exact KStep.refl a cid _
      · obtain ⟨h'', pkts', hr', rfl⟩ := Server.activeTimeoutStep_fire hc nowMs x x' cid0 c hh t sig hb hst hge hx
        intro n hk
        have hadr := hk.addr_ne hcm (by rw [hst]; intro h; cases h)
        have hloc : LocalAt x (({ x with eventsOut := x.eventsOut ++ pkts'.map (SEvent.receive c.address) ++ [SEvent.error c.address .timeout] } : Server H).finish c) c.address [] :=
          ⟨fun b hb' => by rw [Server.find_finish_ne _ _ _ hb']; rfl, by simp, Or.inl (Server.finish_timers _ _)⟩
        exact KStep.of_local t2.wf hloc hadr n hk
    have := k1.trans kk (fun hl => hl.of_TStep hts)
    simpa using this

theorem Server.stepActive_KStep (hc : HC H) (s s' : Server H) (hw : s.WF) (a cid nowMs nowNs : Nat)
    (out : List (Nat × List Nat)) (h : s.stepActive hc nowMs nowNs = .ok (s', out)) : KStep a cid s s' out := by
  rw [Server.stepActive_eq] at h
  have key := foldlM_induct (Server.stepActiveStep hc nowMs nowNs)
    (fun x => (∃ evs, STr s evs x.1) ∧ TStep s x.1 ∧ KStep a cid s x.1 x.2) ?_ s.active (s, []) (s', out)
    ⟨⟨[], STr.refl hw⟩, TStep.refl s, KStep.refl a cid s⟩ h
  · exact key.2.2
  · intro acc cid0 acc' ⟨⟨e1, t1⟩, d1, k1⟩ hx
    obtain ⟨e2, t2, hcase⟩ := Server.stepActiveStep_STr hc nowMs nowNs acc acc' t1.wf cid0 hx
    have hts : TStep acc.1 acc'.1 := by
      rcases hcase with ⟨_, rfl⟩ | ⟨c, hh, t, sig, hb, hcm, hst, hc2⟩
      · exact TStep.refl _
      · have hwx := t1.wf
        obtain ⟨x, o⟩ := acc
        unfold Server.stepActiveStep at hx
        simp only at hx hwx hb hcm ⊢
        rw [hb] at hx
        simp only [hst] at hx
        split at hx
        · split at hx
          · cases hx
          · next h' pkts hr =>
            cases hx
            have hcm' : c ∈ ({ x with eventsOut := x.eventsOut ++ pkts.map (SEvent.receive c.address) } : Server H).clients := hcm
            rw [Server.put_state_eq hcm']
            exact TStep.of_put (c' := { c with state := .closing }) hwx hcm rfl (by intro h; cases h)
              (fun _ => Or.inr (by rw [hst]; rfl)) rfl rfl (Or.inr ⟨discTimer c.cid nowMs, rfl, rfl, Or.inr rfl⟩)
        · split at hx
          · cases hx
          · split at hx
            · cases hx
            · next h2 pkts hr =>
              cases hx
              rw [Server.put_state_eq hcm]
              exact TStep.of_put (c' := { c with state := .active h2 t sig }) hwx hcm rfl
                (by intro _; rw [hst]; rfl) (by intro h; cases h) rfl rfl (Or.inl rfl)
    refine ⟨⟨e1 ++ e2, t1.trans t2⟩, d1.trans hts, ?_⟩
    rcases hcase with ⟨_, rfl⟩ | ⟨c, hh, t, sig, hb, hcm, hst, hc2⟩
    · exact k1
    · have kk : ∃ inc, acc'.2 = acc.2 ++ inc ∧ KStep a cid acc.1 acc'.1 inc := by
        rcases hc2 with ⟨hg, h', pkts, hr, _, ho, hfind, htm⟩ | ⟨hg, h1, h2, pkts, hs1, hr, _, ho, hfind⟩
        · refine ⟨[(c.address, discReq)], ho, fun n hk => ?_⟩
          have hadr := hk.addr_ne hcm (by rw [hst]; intro h; cases h)
          have hloc : LocalAt acc.1 acc'.1 c.address [(c.address, discReq)] := by
            refine ⟨fun b hb' => ?_, by simp, Or.inr ⟨discTimer c.cid nowMs, htm, Or.inr ⟨c, Server.find_of_mem t1.wf hcm, rfl⟩⟩⟩
            -- the map changed only at `c.address`
            have hwx := t1.wf
            obtain ⟨x, o⟩ := acc
            unfold Server.stepActiveStep at hx
            simp only at hx hwx hb hcm ⊢
            rw [hb] at hx
            simp only [hst, hg, if_true] at hx
            rw [hr] at hx
            simp only at hx
            cases hx
            have hcm' : c ∈ ({ x with eventsOut := x.eventsOut ++ pkts.map (SEvent.receive c.address) } : Server H).clients := hcm
            show Server.find _ b = _
            rw [Server.put_state_eq hcm']
            show findA (updCid x.clients _) b = _
            rw [findA_updCid (c' := { c with state := .closing }) hwx.addr hwx.cidClients hcm rfl rfl, if_neg hb']
            rfl
          exact KStep.of_local t2.wf hloc hadr n hk
        · refine ⟨[], by rw [ho]; simp, fun n hk => ?_⟩
          have hadr := hk.addr_ne hcm (by rw [hst]; intro h; cases h)
          have hloc : LocalAt acc.1 acc'.1 c.address [] := by
            have hwx := t1.wf
            obtain ⟨x, o⟩ := acc
            unfold Server.stepActiveStep at hx
            simp only at hx hwx hb hcm ⊢
            rw [hb] at hx
            simp only [hst, hg] at hx
            rw [hs1] at hx
            simp only at hx
            rw [hr] at hx
            simp only at hx
            cases hx
            refine ⟨fun b hb' => ?_, by simp, Or.inl ?_⟩
            · show Server.find _ b = _
              rw [Server.put_state_eq hcm]
              show findA (updCid x.clients _) b = _
              rw [findA_updCid (c' := { c with state := .active h2 t sig }) hwx.addr hwx.cidClients hcm rfl rfl, if_neg hb']
              rfl
            · rw [Server.put_state_eq hcm]
          exact KStep.of_local t2.wf hloc hadr n hk
      obtain ⟨inc, hinc, kinc⟩ := kk
      rw [hinc]
      exact k1.trans kinc (fun hl => hl.of_TStep hts)


theorem Server.flushActive_KStep (hc : HC H) (s s' : Server H) (hw : s.WF) (a cid : Nat)
    (out : List (Nat × List Nat)) (h : s.flushActive hc = .ok (s', out)) : KStep a cid s s' out := by
  rw [Server.flushActive_eq] at h
  have key := foldlM_induct (Server.flushActiveStep hc)
    (fun x => STr s [] x.1 ∧ TStep s x.1 ∧ KStep a cid s x.1 x.2) ?_ s.active (s, []) (s', out)
    ⟨STr.refl hw, TStep.refl s, KStep.refl a cid s⟩ h
  · exact key.2.2
  · intro acc cid0 acc' ⟨t1, d1, k1⟩ hx
    have t2 := Server.flushActiveStep_STr hc acc acc' t1.wf cid0 hx
    have hwx := t1.wf
    have hit : ∃ inc, acc'.2 = acc.2 ++ inc ∧ TStep acc.1 acc'.1 ∧ KStep a cid acc.1 acc'.1 inc := by
      obtain ⟨x, o⟩ := acc
      unfold Server.flushActiveStep at hx
      simp only at hx hwx t2 ⊢
      split at hx
      · cases hx; exact ⟨[], by simp, TStep.refl x, KStep.refl a cid x⟩
      · next c hb =>
        split at hx
        · next hh t sig hst =>
          obtain ⟨hcm, -⟩ := Server.byCid_clients hwx hb (by rw [hst]; intro h; cases h)
          split at hx
          · cases hx
          · next h' rng frames hfl =>
            cases hx
            have hcm' : c ∈ ({ x with rng := rng } : Server H).clients := hcm
            refine ⟨frames.map fun f => (c.address, f), rfl, ?_, fun n hk => ?_⟩
            · rw [Server.put_state_eq hcm']
              exact TStep.of_put (c' := { c with state := .active h' t sig }) hwx hcm rfl
                (by intro _; rw [hst]; rfl) (by intro h; cases h) rfl rfl (Or.inl rfl)
            · have hadr := hk.addr_ne hcm (by rw [hst]; intro h; cases h)
              have hloc : LocalAt x (({ x with rng := rng } : Server H).put { c with state := .active h' t sig })
                  c.address (frames.map fun f => (c.address, f)) := by
                refine ⟨fun b hb' => ?_, ?_, Or.inl ?_⟩
                · rw [Server.put_state_eq hcm']
                  show findA (updCid x.clients _) b = _
                  rw [findA_updCid (c' := { c with state := .active h' t sig }) hwx.addr hwx.cidClients hcm rfl rfl,
                    if_neg hb']
                  rfl
                · intro y hy
                  simp only [List.mem_map] at hy
                  obtain ⟨_, _, rfl⟩ := hy; rfl
                · rw [Server.put_state_eq hcm']
              exact KStep.of_local t2.wf hloc hadr n hk
        · cases hx; exact ⟨[], by simp, TStep.refl x, KStep.refl a cid x⟩
    obtain ⟨inc, hinc, hts, kinc⟩ := hit
    refine ⟨by simpa using t1.trans t2, d1.trans hts, ?_⟩
    rw [hinc]; exact k1.trans kinc (fun hl => hl.of_TStep hts)

/-- Changes of fields other than the map and the timers. -/
theorem KStep.of_same {a cid : Nat} {s s' : Server H} (hw' : s'.WF) (h1 : s'.clients = s.clients)
    (ht : s'.timers = s.timers) : KStep a cid s s' [] :=
  KStep.of_local (b := a + 1) hw' ⟨fun b _ => by rw [Server.find_eq, Server.find_eq, h1], by simp, Or.inl ht⟩ (by omega)

/-! ### whole steps, API calls, runs -/

theorem Server.step_KStep (hc : HC H) (s s' : Server H) (hw : s.WF) (hi : s.TIe) (a cid nowNs : Nat)
    (arrivals sent : List (Nat × List Nat)) (evs : List SEvent)
    (h : s.step hc nowNs arrivals = .ok (s', sent, evs)) : KStep a cid s s' sent ∧ TStep s s' := by
  obtain ⟨s1, o1, s2, o2, s4, s6, o6, h1, h2, h4, h6, rfl, rfl, hsent⟩ := Server.step_phases hc s s' nowNs arrivals sent evs h
  have t1 := Server.flushActive_STr hc s s1 hw o1 h1
  have d1 := Server.flushActive_TStep hc s s1 hw o1 h1
  have k1 := Server.flushActive_KStep hc s s1 hw a cid o1 h1
  have i1 := hi.of_TStep d1
  obtain ⟨e2, t2, -⟩ := Server.handleFrames_STr hc s1 s2 t1.wf arrivals _ nowNs o2 h2
  have d2 := Server.handleFrames_TStep hc s1 s2 t1.wf arrivals _ nowNs o2 h2
  have k2 := Server.handleFrames_KStep hc s1 s2 t1.wf a cid arrivals _ nowNs o2 h2
  have i2 := i1.of_TStep d2
  obtain ⟨e3, t3, -⟩ := Server.runTimers_STr (s2.timers.size * 12 + 16) s2 t2.wf (s.nowMs nowNs) []
  have d3 := Server.runTimers_TStep (s2.timers.size * 12 + 16) s2 t2.wf i2 (s.nowMs nowNs) []
  obtain ⟨inc3, he3, k3⟩ := Server.runTimers_KStep (s2.timers.size * 12 + 16) s2 t2.wf i2 a cid (s.nowMs nowNs) []
  obtain ⟨e4, t4⟩ := Server.activeTimeouts_STr hc _ s4 t3.wf _ h4
  have d4 := Server.activeTimeouts_TStep hc _ s4 _ h4
  have k4 := Server.activeTimeouts_KStep hc _ s4 t3.wf a cid _ h4
  have t5 := Server.retain_STr s4 t4.wf _ (List.filter_sublist (l := s4.detached)
    (p := fun c => (s4.active.filter fun cid => match s4.byCid cid with
              | some c => c.state.isActive
              | none => false).contains c.cid || s4.timers.any (·.cid = c.cid)))
  have d5 : TStep s4 _ := TStep.of_same (s := s4) (s' := { s4 with
      active := s4.active.filter fun cid => match s4.byCid cid with
        | some c => c.state.isActive
        | none => false,
      detached := s4.detached.filter fun c =>
        (s4.active.filter fun cid => match s4.byCid cid with
          | some c => c.state.isActive
          | none => false).contains c.cid || s4.timers.any (·.cid = c.cid) }) rfl rfl rfl
  have k5 : KStep a cid s4 _ [] := KStep.of_same t5.wf rfl rfl
  obtain ⟨e6, t6, -⟩ := Server.stepActive_STr hc _ s6 t5.wf _ nowNs o6 h6
  have d6 := Server.stepActive_TStep hc _ s6 t5.wf _ nowNs o6 h6
  have k6 := Server.stepActive_KStep hc _ s6 t5.wf a cid _ nowNs o6 h6
  have w7 : ({ s6 with eventsOut := [] } : Server H).WF := t6.wf.congr rfl rfl rfl (fun _ h => h)
  have d7 : TStep s6 ({ s6 with eventsOut := [] } : Server H) := TStep.of_same rfl rfl rfl
  have k7 : KStep a cid s6 ({ s6 with eventsOut := [] } : Server H) [] := KStep.of_same w7 rfl rfl
  have kall := (((((k1.trans k2 (fun hl => hl.of_TStep d2)).trans k3 (fun hl => hl.of_TStep d3)).trans k4
    (fun hl => hl.of_TStep d4)).trans k5 (fun hl => hl.of_TStep d5)).trans k6 (fun hl => hl.of_TStep d6)).trans k7
    (fun hl => hl.of_TStep d7)
  refine ⟨?_, (((((d1.trans d2).trans d3).trans d4).trans d5).trans d6).trans d7⟩
  have hs : sent = o1 ++ o2 ++ inc3 ++ [] ++ [] ++ o6 ++ [] := by
    rw [hsent]
    have : (Server.runTimers (s2.timers.size * 12 + 16) s2 (s.nowMs nowNs) []).2 = inc3 := by simpa using he3
    rw [this]; simp
  rw [hs]; exact kall

theorem Server.apply_KStep (hc : HC H) (s s' : Server H) (hw : s.WF) (hi : s.TIe) (a cid : Nat) (op : SOp)
    (sent : List (Nat × List Nat)) (ls : List SLabel) (h : s.apply hc op = .ok (s', sent, ls)) :
    KStep a cid s s' sent ∧ TStep s s' := by
  cases op with
  | step n arr =>
    simp only [Server.apply] at h
    split at h
    · cases h
    · next s1 o1 e1 hs =>
      cases h
      exact Server.step_KStep hc s s' hw hi a cid n arr sent e1 hs
  | drop addr =>
    cases h
    have hts : TStep s (s.drop addr) := by
      unfold Server.drop; split
      · exact Server.finish_TStep _ _
      · exact TStep.refl s
    refine ⟨fun n hk => ?_, hts⟩
    obtain ⟨c, hf, hcid, hst⟩ := hk.ent
    by_cases hb : addr = a
    · subst hb
      obtain ⟨hcm, hca⟩ := Server.find_some hf
      have e : s.drop addr = s.finish c := by unfold Server.drop; rw [hf]
      rw [e]
      refine Or.inr (hk.left_of_finish hf ?_ ?_)
      · rw [Server.finish_eq hcm]
      · rw [Server.finish_eq hcm]
    · have hwd := (Server.drop_tr s hw addr).1
      have hloc : LocalAt s (s.drop addr) addr [] := by
        unfold Server.drop
        split
        · next c0 hf0 =>
          obtain ⟨_, hca0⟩ := Server.find_some hf0
          exact ⟨fun b hb' => by rw [Server.find_finish_ne _ _ _ (by rw [hca0]; exact hb')], by simp,
            Or.inl (Server.finish_timers _ _)⟩
        · exact LocalAt.refl s addr
      exact KStep.of_local hwd hloc hb n hk
  | disconnect addr m =>
    cases h
    have t := Server.disconnect_STr s hw addr m
    have hts : TStep s (s.disconnect addr m) := by
      unfold Server.disconnect
      split
      · next c hf =>
        obtain ⟨hcm, hca⟩ := Server.find_some hf
        split
        · next hh tt sig hst =>
          rw [Server.put_state_eq hcm]
          exact TStep.of_put (c' := { c with state := .active hh tt (some m) }) hw hcm rfl
            (by intro _; rw [hst]; rfl) (by intro h; cases h) rfl rfl (Or.inl rfl)
        · exact TStep.refl s
      · exact TStep.refl s
    refine ⟨fun n hk => ?_, hts⟩
    obtain ⟨c, hf, hcid, hst⟩ := hk.ent
    by_cases hb : addr = a
    · subst hb
      have e : s.disconnect addr m = s := by unfold Server.disconnect; rw [hf]; simp only [hst]
      rw [e]; exact Or.inl ⟨n, hk, by simp [cntReq_nil]⟩
    · have hloc : LocalAt s (s.disconnect addr m) addr [] := by
        unfold Server.disconnect
        split
        · next c0 hf0 =>
          obtain ⟨hcm0, hca0⟩ := Server.find_some hf0
          split
          · next hh tt sig hst0 =>
            refine ⟨fun b hb' => ?_, by simp, Or.inl ?_⟩
            · rw [Server.find_put (c' := { c0 with state := .active hh tt (some m) }) hw hcm0 rfl rfl,
                if_neg (by rw [hca0]; exact hb')]
            · rw [Server.put_state_eq hcm0]
          · exact LocalAt.refl s addr
        · exact LocalAt.refl s addr
      exact KStep.of_local t.wf hloc hb n hk
  | send addr d ch m =>
    cases h
    have t := Server.send_STr hc s hw addr d ch m
    have hts : TStep s (s.send hc addr d ch m) := by
      unfold Server.send
      split
      · next c hf =>
        obtain ⟨hcm, hca⟩ := Server.find_some hf
        split
        · next hh tt sig hst =>
          rw [Server.put_state_eq hcm]
          exact TStep.of_put (c' := { c with state := .active (hc.send hh d ch m) tt sig }) hw hcm rfl
            (by intro _; rw [hst]; rfl) (by intro h; cases h) rfl rfl (Or.inl rfl)
        · exact TStep.refl s
      · exact TStep.refl s
    refine ⟨fun n hk => ?_, hts⟩
    obtain ⟨c, hf, hcid, hst⟩ := hk.ent
    by_cases hb : addr = a
    · subst hb
      have e : s.send hc addr d ch m = s := by unfold Server.send; rw [hf]; simp only [hst]
      rw [e]; exact Or.inl ⟨n, hk, by simp [cntReq_nil]⟩
    · have hloc : LocalAt s (s.send hc addr d ch m) addr [] := by
        unfold Server.send
        split
        · next c0 hf0 =>
          obtain ⟨hcm0, hca0⟩ := Server.find_some hf0
          split
          · next hh tt sig hst0 =>
            refine ⟨fun b hb' => ?_, by simp, Or.inl ?_⟩
            · rw [Server.find_put (c' := { c0 with state := .active (hc.send hh d ch m) tt sig }) hw hcm0 rfl rfl,
                if_neg (by rw [hca0]; exact hb')]
            · rw [Server.put_state_eq hcm0]
          · exact LocalAt.refl s addr
        · exact LocalAt.refl s addr
      exact KStep.of_local t.wf hloc hb n hk
  | flush =>
    simp only [Server.apply] at h
    split at h
    · cases h
    · next s1 o1 hf =>
      cases h
      exact ⟨Server.flushActive_KStep hc s s' hw a cid sent hf, Server.flushActive_TStep hc s s' hw sent hf⟩

/-- The budget along a run: while the tracked object is `closing`, "requests sent to `a` + remaining
count of its (unique) retry timer" is constant; once it has left `closing` it never comes back. -/
theorem Server.run_KStep (hc : HC H) (ops : List SOp) (s s' : Server H) (hw : s.WF) (he : s.eventsOut = [])
    (hi : s.TIe) (a cid : Nat) (sent : List (Nat × List Nat)) (ls : List SLabel)
    (h : Server.run hc s ops = .ok (s', sent, ls)) : KStep a cid s s' sent ∧ TStep s s' := by
  induction ops generalizing s sent ls with
  | nil => cases h; exact ⟨KStep.refl a cid _, TStep.refl _⟩
  | cons op ops ih =>
    simp only [Server.run] at h
    split at h
    · cases h
    · next s1 o1 l1 h1 =>
      split at h
      · cases h
      · next s2 o2 l2 h2 =>
        cases h
        obtain ⟨a1, a2, -⟩ := Server.apply_monitor hc s s1 hw he op o1 l1 h1
        obtain ⟨k1, d1⟩ := Server.apply_KStep hc s s1 hw hi a cid op o1 l1 h1
        obtain ⟨k2, d2⟩ := ih s1 a1 a2 (hi.of_TStep d1) o2 l2 h2
        exact ⟨k1.trans k2 (fun hl => hl.of_TStep d2), d1.trans d2⟩

/-- Entering `closing` (the gate of `step_active_clients`) starts the tracking with count 10. -/
theorem Server.stepActiveStep_enter_Trk (hc : HC H) (nowMs nowNs : Nat) (acc acc' : Server H × List (Nat × List Nat))
    (hw : acc.1.WF) (hi : acc.1.TIe) (cid0 : Nat) (h : Server.stepActiveStep hc nowMs nowNs acc cid0 = .ok acc')
    (c : RClient H) (hh : H) (t : Nat) (sig : Option DisconnectMode) (hb : acc.1.byCid cid0 = some c)
    (hst : c.state = .active hh t sig) (hg : sDiscGate hc sig hh = true) :
    Trk acc'.1 c.address c.cid SERVER_DISCONNECT_RESEND_COUNT ∧ acc'.2 = acc.2 ++ [(c.address, discReq)] := by
  obtain ⟨evs, tr, hcase⟩ := Server.stepActiveStep_STr hc nowMs nowNs acc acc' hw cid0 h
  obtain ⟨hcm, -⟩ := Server.byCid_clients hw hb (by rw [hst]; intro h; cases h)
  rcases hcase with ⟨_, rfl⟩ | ⟨c1, hh1, t1, sig1, hb1, hcm1, hst1, hc2⟩
  · exfalso
    -- the iteration did something: it cannot return `acc` unchanged when the gate holds … it can only if
    -- `receive` trapped; here it returned `.ok acc`, so compare the outputs
    obtain ⟨x, o⟩ := acc'
    unfold Server.stepActiveStep at h
    simp only at h hb
    rw [hb] at h
    simp only [hst, hg, if_true] at h
    split at h
    · cases h
    · have h2 := congrArg (fun r => r.2.length) (Except.ok.inj h)
      simp at h2
  · rw [hb] at hb1; cases hb1
    rw [hst] at hst1; cases hst1
    rcases hc2 with ⟨_, h', pkts, hr, _, ho, hfind, htm⟩ | ⟨hg', _⟩
    · refine ⟨⟨tr.wf, ⟨_, hfind, rfl, rfl⟩, ?_, ?_⟩, ho⟩
      · have h0 : rdCount acc.1.timers c.cid = 0 := by
          unfold rdCount
          rw [List.countP_eq_zero]
          intro x hx hxr
          unfold isRD at hxr
          simp only [Bool.and_eq_true, decide_eq_true_eq] at hxr
          exact hi.early c hcm (by rw [hst]; rfl) x hx hxr.1 hxr.2
        rw [htm, rdCount_push, h0]
        simp [isRD, discTimer]
      · intro x hx hxr
        rw [htm, mem_tPush] at hx
        rcases hx with rfl | hx
        · rfl
        · exfalso
          unfold isRD at hxr
          simp only [Bool.and_eq_true, decide_eq_true_eq] at hxr
          exact hi.early c hcm (by rw [hst]; rfl) x hx hxr.1 hxr.2
    · rw [hg] at hg'; cases hg'

end Uflow.Endpoint
