import Uflow.Lemmas.EpCeilSrv

/-!
C13 (endpoints), part 6: the server invariant of `EpCeilSrv.lean` with a per-connection invariant that
also depends on the LOG `tx` of all datagrams the server has sent so far. The contract `HCOkT` lets
`flush` extend the log by the frames it returns (addressed to the connection's peer) and requires the
invariant to be insensitive to datagrams for other addresses (`ext`). The threading then has to show
that the server never sends anything else to the address of an active connection: this is where the
address uniqueness of `Server.WF` is used.
-/

namespace Uflow.EpCeil

open Uflow Uflow.Gen Uflow.Codec Uflow.HalfConn Uflow.Endpoint Uflow.EpNoTrap

variable {H : Type}

abbrev Log := List (Nat × List Nat)

/-- The frames `out`, addressed to `a`. -/
def toAddr (a : Nat) (out : List (List Nat)) : Log := out.map fun f => (a, f)

structure HCOkT (hc : HC H) (ep : EpConfig) (PInv : Nat → Nat → Nat → Nat → Prop) (Inv : Log → Nat → H → Prop)
    (last : H → Nat) : Prop where
  new : ∀ (tx : Log) (a ln rn rate alloc now : Nat), ln < 2^32 → PInv a rn rate alloc →
    Inv tx a (hc.new (hcConfig ep ln rn rate alloc) now) ∧ last (hc.new (hcConfig ep ln rn rate alloc) now) = now
  dispatch : ∀ (tx : Log) (a : Nat) (h : H) (f : Frame), Inv tx a h →
    ∃ h', hc.dispatch h f = .ok h' ∧ Inv tx a h' ∧ last h' = last h
  step : ∀ (tx : Log) (a : Nat) (h : H) (now : Nat), Inv tx a h → last h ≤ now →
    ∃ h', hc.step h now = .ok h' ∧ Inv tx a h' ∧ last h' = now
  /-- the frames returned are appended to the log, addressed to the peer -/
  flush : ∀ (tx : Log) (a : Nat) (h : H) (rng : Rng), Inv tx a h →
    ∃ h' rng' out, hc.flush h rng = .ok (h', rng', out) ∧ Inv (tx ++ toAddr a out) a h' ∧ last h' = last h
  receive : ∀ (tx : Log) (a : Nat) (h : H), Inv tx a h →
    ∃ h' out, hc.receive h = .ok (h', out) ∧ Inv tx a h' ∧ last h' = last h
  send : ∀ (tx : Log) (a : Nat) (h : H) (data : List Nat) (chan : Nat) (mode : SendMode), Inv tx a h →
    data.length ≤ MAX_PACKET_SIZE → chan < CHANNEL_COUNT →
    Inv tx a (hc.send h data chan mode) ∧ last (hc.send h data chan mode) = last h
  /-- datagrams for other addresses do not matter -/
  ext : ∀ (tx more : Log) (a : Nat) (h : H), Inv tx a h → (∀ x ∈ more, x.1 ≠ a) → Inv (tx ++ more) a h

def StOkT (PInv : Nat → Nat → Nat → Nat → Prop) (Inv : Log → Nat → H → Prop) (last : H → Nat) (tx : Log)
    (T a : Nat) : RState H → Prop
  | .active h _ _ => Inv tx a h ∧ last h ≤ T
  | .pending ln rn r al _ => ln < 2^32 ∧ PInv a rn r al
  | _ => True

structure CoreT (ep : EpConfig) (PInv : Nat → Nat → Nat → Nat → Prop) (Inv : Log → Nat → H → Prop)
    (last : H → Nat) (T : Nat) (tx : Log) (s : Server H) : Prop where
  core : ∀ c ∈ s.clients ++ s.detached, StOkT PInv Inv last tx T c.address c.state
  cfg : s.cfg.ep = ep

variable {ep : EpConfig} {PInv : Nat → Nat → Nat → Nat → Prop} {Inv : Log → Nat → H → Prop} {last : H → Nat}
  {T : Nat} {tx : Log} {hc : HC H}

theorem StOkT.mono {T T' a : Nat} (h : T ≤ T') {st : RState H} (hs : StOkT PInv Inv last tx T a st) :
    StOkT PInv Inv last tx T' a st := by
  cases st with
  | active h' _ _ => exact ⟨hs.1, Nat.le_trans hs.2 h⟩
  | pending _ _ _ _ _ => exact hs
  | closing => trivial
  | closed => trivial
  | fin => trivial

/-- Growing the log by datagrams that are not for `a` (needed only if the state is active). -/
theorem StOkT.grow (hok : HCOkT hc ep PInv Inv last) {a : Nat} {st : RState H} (more : Log)
    (hs : StOkT PInv Inv last tx T a st) (hm : st.isActive = true → ∀ x ∈ more, x.1 ≠ a) :
    StOkT PInv Inv last (tx ++ more) T a st := by
  cases st with
  | active h' _ _ => exact ⟨hok.ext tx more a h' hs.1 (hm rfl), hs.2⟩
  | pending _ _ _ _ _ => exact hs
  | closing => trivial
  | closed => trivial
  | fin => trivial

theorem CoreT.mono {T T' : Nat} {s : Server H} (hi : CoreT ep PInv Inv last T tx s) (h : T ≤ T') :
    CoreT ep PInv Inv last T' tx s :=
  ⟨fun c hc => (hi.core c hc).mono h, hi.cfg⟩

theorem CoreT.init (cfg : SrvConfig) (now : Nat) (rng : Rng) (T : Nat) (tx : Log) :
    CoreT cfg.ep PInv Inv last T tx (Server.init cfg now rng : Server H) :=
  ⟨fun c hc => by simp [Server.init] at hc, rfl⟩

theorem CoreT.of_eq {s s' : Server H} (hi : CoreT ep PInv Inv last T tx s) (h1 : s'.clients = s.clients)
    (h2 : s'.detached = s.detached) (h3 : s'.cfg = s.cfg) : CoreT ep PInv Inv last T tx s' :=
  ⟨by rw [h1, h2]; exact hi.core, by rw [h3]; exact hi.cfg⟩

theorem CoreT.setEvents {s : Server H} (hi : CoreT ep PInv Inv last T tx s) (ev : List SEvent) :
    CoreT ep PInv Inv last T tx ({ s with eventsOut := ev } : Server H) := ⟨hi.core, hi.cfg⟩

theorem CoreT.find {s : Server H} (hi : CoreT ep PInv Inv last T tx s) {addr : Nat} {c : RClient H}
    (hf : s.find addr = some c) : StOkT PInv Inv last tx T c.address c.state :=
  hi.core c (List.mem_append_left _ (Server.find_some hf).1)

theorem CoreT.byCid {s : Server H} (hi : CoreT ep PInv Inv last T tx s) {cid : Nat} {c : RClient H}
    (hf : s.byCid cid = some c) : StOkT PInv Inv last tx T c.address c.state :=
  hi.core c (Server.byCid_some hf).1

theorem isActive_not_fin {st : RState H} (h : st.isActive = true) : st.isFin = false := by
  cases st <;> first | rfl | cases h

/-- Under `WF`, an active object with the address of a map entry IS that entry. -/
theorem active_unique {s : Server H} (hw : s.WF) {c x : RClient H} (hc : c ∈ s.clients)
    (hx : x ∈ s.clients ++ s.detached) (hact : x.state.isActive = true) (ha : x.address = c.address) : x = c := by
  rcases List.mem_append.1 hx with hx | hx
  · exact hw.addr_unique hx hc ha
  · have := hw.detFin x hx
    rw [isActive_not_fin hact] at this
    cases this

/-- Growing the log by datagrams addressed to `a`, when no active object has address `a`. -/
theorem CoreT.grow_free (hok : HCOkT hc ep PInv Inv last) {s : Server H} (hi : CoreT ep PInv Inv last T tx s)
    (a : Nat) (more : Log) (hm : ∀ x ∈ more, x.1 = a)
    (hfree : ∀ c ∈ s.clients ++ s.detached, c.state.isActive = true → c.address ≠ a) :
    CoreT ep PInv Inv last T (tx ++ more) s := by
  refine ⟨fun c hc => (hi.core c hc).grow hok more ?_, hi.cfg⟩
  intro hact x hx heq
  exact hfree c hc hact (by rw [← heq, hm x hx])

/-- No entry for `addr` in the map: no active object has that address. -/
theorem free_of_find_none {s : Server H} (hw : s.WF) {addr : Nat} (hf : s.find addr = none) :
    ∀ c ∈ s.clients ++ s.detached, c.state.isActive = true → c.address ≠ addr := by
  intro c hc hact
  rcases List.mem_append.1 hc with hc | hc
  · exact Server.find_none hf c hc
  · have := hw.detFin c hc
    rw [isActive_not_fin hact] at this
    cases this

/-- The entry `c0` of the map is not active: no active object has its address. -/
theorem free_of_inactive {s : Server H} (hw : s.WF) {c0 : RClient H} (hc0 : c0 ∈ s.clients)
    (hna : c0.state.isActive = false) :
    ∀ c ∈ s.clients ++ s.detached, c.state.isActive = true → c.address ≠ c0.address := by
  intro c hc hact heq
  have := active_unique hw hc0 hc hact heq
  subst this
  rw [hact] at hna
  cases hna

/-- Replacing the state of the map entry `c`, while the log grows by datagrams addressed to it. -/
theorem CoreT.put_grow (hok : HCOkT hc ep PInv Inv last) {s : Server H} (hw : s.WF)
    (hi : CoreT ep PInv Inv last T tx s) {c : RClient H} (hc : c ∈ s.clients) (st : RState H) (more : Log)
    (hm : ∀ x ∈ more, x.1 = c.address) (hst : StOkT PInv Inv last (tx ++ more) T c.address st) :
    CoreT ep PInv Inv last T (tx ++ more) (s.put { c with state := st }) := by
  refine ⟨?_, by rw [Server.put_cfg]; exact hi.cfg⟩
  have hother : ∀ y ∈ s.clients ++ s.detached, y.cid ≠ c.cid →
      StOkT PInv Inv last (tx ++ more) T y.address y.state := by
    intro y hy hne
    refine (hi.core y hy).grow hok more ?_
    intro hact x hx heq
    have := active_unique hw hc hy hact (by rw [← heq, hm x hx])
    exact hne (by rw [this])
  intro x hx
  unfold Server.put at hx
  split at hx
  · rcases List.mem_append.1 hx with hx | hx
    · simp only [List.mem_map] at hx
      obtain ⟨y, hy, rfl⟩ := hx
      split
      · exact hst
      · rename_i hne
        exact hother y (List.mem_append_left _ hy) hne
    · have hne : x.cid ≠ c.cid := by
        intro he
        have hnd := hw.cidNodup
        rw [List.map_append, List.nodup_append] at hnd
        exact hnd.2.2 _ (List.mem_map_of_mem (f := (·.cid)) hc) _ (List.mem_map_of_mem (f := (·.cid)) hx) he.symm
      exact hother x (List.mem_append_right _ hx) hne
  · rename_i hany
    exact absurd (List.any_eq_true.2 ⟨c, hc, by simp⟩) hany

theorem CoreT.put {s : Server H} (hi : CoreT ep PInv Inv last T tx s) (c : RClient H)
    (hc : StOkT PInv Inv last tx T c.address c.state) : CoreT ep PInv Inv last T tx (s.put c) := by
  refine ⟨?_, by rw [Server.put_cfg]; exact hi.cfg⟩
  intro x hx
  unfold Server.put at hx
  split at hx
  · rcases List.mem_append.1 hx with hx | hx
    · simp only [List.mem_map] at hx
      obtain ⟨y, hy, rfl⟩ := hx
      split
      · exact hc
      · exact hi.core y (List.mem_append_left _ hy)
    · exact hi.core x (List.mem_append_right _ hx)
  · rcases List.mem_append.1 hx with hx | hx
    · exact hi.core x (List.mem_append_left _ hx)
    · simp only [List.mem_map] at hx
      obtain ⟨y, hy, rfl⟩ := hx
      split
      · exact hc
      · exact hi.core y (List.mem_append_right _ hy)

theorem CoreT.finish {s : Server H} (hi : CoreT ep PInv Inv last T tx s) (c : RClient H) :
    CoreT ep PInv Inv last T tx (s.finish c) := by
  refine ⟨?_, by rw [finish_cfg]; exact hi.cfg⟩
  intro x hx
  unfold Server.finish at hx
  split at hx
  · rcases List.mem_append.1 hx with hx | hx
    · exact hi.core x (List.mem_append_left _ (List.mem_filter.1 hx).1)
    · rcases List.mem_cons.1 hx with hx | hx
      · subst hx; trivial
      · exact hi.core x (List.mem_append_right _ hx)
  · rcases List.mem_append.1 hx with hx | hx
    · exact hi.core x (List.mem_append_left _ (List.mem_filter.1 hx).1)
    · simp only [List.mem_map] at hx
      obtain ⟨y, hy, rfl⟩ := hx
      split
      · trivial
      · exact hi.core y (List.mem_append_right _ hy)

end Uflow.EpCeil
