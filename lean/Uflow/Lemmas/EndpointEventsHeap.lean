import Uflow.Model.Endpoint

/-!
The timer heap (`tPush`, `tPop`) as a multiset: pushing adds exactly the pushed timer, popping removes
exactly the returned one, which is the root of the heap. (The heap ORDER is not needed for the
properties proved about the endpoints.)
-/

namespace Uflow.Endpoint

open Uflow.Gen

/-- Moving the "hole" of a sift from `i` to `j`: writing `L[j]` into position `i` and the held element
into `j` is a permutation of writing the held element into `i`. -/
theorem hole_swap_perm {α : Type} (L : List α) (i j : Nat) (hi : i < L.length) (hj : j < L.length) (hij : i ≠ j)
    (p elt : α) (hp : L[j]? = some p) : ((L.set i p).set j elt).Perm (L.set i elt) := by
  have hA1 : i < (L.set i elt).length := by simpa using hi
  have hA2 : j < (L.set i elt).length := by simpa using hj
  have := List.set_set_perm (as := L.set i elt) hA1 hA2
  have e1 : (L.set i elt)[j] = p := by
    rw [List.getElem_set_ne hij]
    have := List.getElem?_eq_getElem hj
    rw [this] at hp; exact Option.some.inj hp
  have e2 : (L.set i elt)[i] = elt := by simp
  rw [e1, e2, List.set_set] at this
  exact this

theorem set_self_of_getElem? {α : Type} (L : List α) (i : Nat) (x : α) (h : L[i]? = some x) : L.set i x = L := by
  have hi : i < L.length := by
    rcases Nat.lt_or_ge i L.length with h' | h'
    · exact h'
    · rw [List.getElem?_eq_none h'] at h; cases h
  have := List.getElem?_eq_getElem hi
  rw [this] at h
  have hx : L[i] = x := Option.some.inj h
  rw [← hx]; exact List.set_getElem_self hi

theorem lt_size_of_getElem? {h : Array Timer} {i : Nat} {x : Timer} (hx : h[i]? = some x) : i < h.size := by
  rcases Nat.lt_or_ge i h.size with h' | h'
  · exact h'
  · rw [Array.getElem?_eq_none h'] at hx; cases hx

/-! ## `tSiftUp` -/

theorem tSiftUp_go_perm (start : Nat) (elt : Timer) (fuel : Nat) (h : Array Timer) (pos : Nat) (hpos : pos < h.size) :
    (tSiftUp.go start elt fuel h pos).2 < (tSiftUp.go start elt fuel h pos).1.size ∧
    ((tSiftUp.go start elt fuel h pos).1.toList.set (tSiftUp.go start elt fuel h pos).2 elt).Perm (h.toList.set pos elt) := by
  induction fuel generalizing h pos with
  | zero => unfold tSiftUp.go; exact ⟨hpos, List.Perm.refl _⟩
  | succ k ih =>
    unfold tSiftUp.go
    split
    · next hgt =>
      simp only
      split
      · exact ⟨hpos, List.Perm.refl _⟩
      · next p hp =>
        split
        · exact ⟨hpos, List.Perm.refl _⟩
        · have hpar : (pos - 1) / 2 < pos := by omega
          have hsz : (h.setIfInBounds pos p).size = h.size := by simp
          obtain ⟨h1, h2⟩ := ih (h.setIfInBounds pos p) ((pos - 1) / 2) (by rw [hsz]; omega)
          refine ⟨h1, h2.trans ?_⟩
          rw [Array.toList_setIfInBounds]
          exact hole_swap_perm h.toList pos ((pos - 1) / 2) (by simpa using hpos) (by simp; omega) (by omega) p elt
            (by simpa using hp)
    · exact ⟨hpos, List.Perm.refl _⟩

theorem tSiftUp_perm (h : Array Timer) (start pos : Nat) : (tSiftUp h start pos).toList.Perm h.toList := by
  unfold tSiftUp
  split
  · exact List.Perm.refl _
  · next elt helt =>
    have hpos := lt_size_of_getElem? helt
    obtain ⟨-, h2⟩ := tSiftUp_go_perm start elt (h.size + 1) h pos hpos
    rcases hgo : tSiftUp.go start elt (h.size + 1) h pos with ⟨h', pos'⟩
    rw [hgo] at h2
    simp only [Array.toList_setIfInBounds]
    refine h2.trans ?_
    rw [set_self_of_getElem? h.toList pos elt (by simpa using helt)]

theorem tPush_perm (h : Array Timer) (e : Timer) : (tPush h e).toList.Perm (e :: h.toList) := by
  unfold tPush
  refine (tSiftUp_perm _ _ _).trans ?_
  simp only [Array.toList_push]
  exact List.perm_append_comm

/-! ## `tSiftDown` -/

theorem tSiftDown_go_perm (endI : Nat) (elt : Timer) (fuel : Nat) (h : Array Timer) (pos child : Nat)
    (hpos : pos < h.size) (hch : pos < child) :
    (tSiftDown.go endI fuel h pos child).2 < (tSiftDown.go endI fuel h pos child).1.size ∧
    ((tSiftDown.go endI fuel h pos child).1.toList.set (tSiftDown.go endI fuel h pos child).2 elt).Perm
      (h.toList.set pos elt) := by
  induction fuel generalizing h pos child with
  | zero => unfold tSiftDown.go; exact ⟨hpos, List.Perm.refl _⟩
  | succ k ih =>
    unfold tSiftDown.go
    split
    · split
      · next a b ha hb =>
        simp only
        split
        · next c hc =>
          have hc' : (if a.le b = true then child + 1 else child) < h.size := lt_size_of_getElem? hc
          have hne : pos ≠ (if a.le b = true then child + 1 else child) := by split <;> omega
          have hsz : (h.setIfInBounds pos c).size = h.size := by simp
          obtain ⟨h1, h2⟩ := ih (h.setIfInBounds pos c) (if a.le b = true then child + 1 else child)
            (2 * (if a.le b = true then child + 1 else child) + 1) (by rw [hsz]; exact hc') (by omega)
          refine ⟨h1, h2.trans ?_⟩
          rw [Array.toList_setIfInBounds]
          exact hole_swap_perm h.toList pos _ (by simpa using hpos) (by simpa using hc') hne c elt (by simpa using hc)
        · exact ⟨hpos, List.Perm.refl _⟩
      · exact ⟨hpos, List.Perm.refl _⟩
    · split
      · split
        · next c hc =>
          have hc' : child < h.size := lt_size_of_getElem? hc
          simp only
          refine ⟨by simpa using hc', ?_⟩
          rw [Array.toList_setIfInBounds]
          exact hole_swap_perm h.toList pos child (by simpa using hpos) (by simpa using hc') (by omega) c elt
            (by simpa using hc)
        · exact ⟨hpos, List.Perm.refl _⟩
      · exact ⟨hpos, List.Perm.refl _⟩

theorem tSiftDown_perm (h : Array Timer) : (tSiftDown h).toList.Perm h.toList := by
  unfold tSiftDown
  simp only
  split
  · exact List.Perm.refl _
  · next elt helt =>
    have hpos := lt_size_of_getElem? helt
    obtain ⟨-, h2⟩ := tSiftDown_go_perm h.size elt (h.size + 1) h 0 1 hpos (by omega)
    rcases hgo : tSiftDown.go h.size (h.size + 1) h 0 1 with ⟨h', pos'⟩
    rw [hgo] at h2
    simp only
    refine (tSiftUp_perm _ _ _).trans ?_
    rw [Array.toList_setIfInBounds]
    refine h2.trans ?_
    rw [set_self_of_getElem? h.toList 0 elt (by simpa using helt)]

/-- `tPop` returns the root of the heap and leaves a permutation of the rest. -/
theorem tPop_perm (h : Array Timer) (t : Timer) (h' : Array Timer) (hp : tPop h = some (t, h')) :
    h[0]? = some t ∧ (t :: h'.toList).Perm h.toList := by
  unfold tPop at hp
  split at hp
  · cases hp
  · next last hlast =>
    obtain ⟨ys, rfl⟩ := Array.back?_eq_some_iff.mp hlast
    simp only [Array.pop_push] at hp
    split at hp
    · next hnone =>
      have hinj := Prod.mk.inj (Option.some.inj hp)
      rw [← hinj.1, ← hinj.2]
      have hsz : ys.size = 0 := by
        rcases Nat.eq_zero_or_pos ys.size with h0 | h0
        · exact h0
        · rw [Array.getElem?_eq_getElem h0] at hnone; cases hnone
      have hnil : ys.toList = [] := List.eq_nil_of_length_eq_zero (by simpa using hsz)
      refine ⟨?_, ?_⟩
      · rw [Array.getElem?_push, if_pos hsz.symm]
      · rw [Array.toList_push, hnil]; exact List.Perm.refl _
    · next top htop =>
      have hinj := Prod.mk.inj (Option.some.inj hp)
      rw [← hinj.1, ← hinj.2]
      have htl : ys.toList[0]? = some top := by simpa using htop
      obtain ⟨rest, hrest⟩ : ∃ rest, ys.toList = top :: rest := by
        cases hl : ys.toList with
        | nil => rw [hl] at htl; cases htl
        | cons x xs => rw [hl] at htl; simp at htl; exact ⟨xs, by rw [htl]⟩
      have hpos : 0 < ys.size := lt_size_of_getElem? htop
      refine ⟨?_, ?_⟩
      · rw [Array.getElem?_push, if_neg (by omega)]; exact htop
      · refine (List.Perm.cons top (tSiftDown_perm _)).trans ?_
        rw [Array.toList_setIfInBounds, Array.toList_push, hrest]
        simp only [List.set_cons_zero]
        exact List.Perm.cons top (by simpa using (List.perm_append_comm (l₁ := [last]) (l₂ := rest)))

end Uflow.Endpoint
