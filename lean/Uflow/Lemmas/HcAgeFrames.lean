import Uflow.Lemmas.HcAgeMain

/-!
C01Age, part 4: the age of a frame of `wireAB` measured in DATA FRAMES sent since, and the (unproved)
link `LinkOp` from that count to the number of packets emitted since. `FrameAgeOp` together with `LinkOp`
implies `AgeOp`; both are decidable, so the link can at least be tested on concrete runs.
-/

namespace Uflow.HcAge

open Uflow Uflow.Gen Uflow.Codec Uflow.HalfConn Uflow.PSend Uflow.HcSys Uflow.HcFrm
open Uflow.Rate (FloatOps)

variable {F : Type}

/-- The number of data frames put on the wire after its `k`-th frame. -/
def framesAfter (wire : List (List Nat)) (k : Nat) : Nat := ((wire.drop (k + 1)).filterMap dataId).length

/-- Frame-count age: a frame of `wireAB` is handed to `B` only while at most `Dfr` data frames were sent
after it; for `wireBA` as `AgeOp`. -/
def FrameAgeOp (Dfr D : Nat) (x : Aged F) : POp → Prop
  | .deliverAB k => framesAfter x.h.wireAB k ≤ Dfr
  | op => AgeOp D x op

/-- The link that is NOT proved: since the `flush` that emitted frame `k` returned, `A` has emitted at
most `127 ×` (data frames sent after frame `k`) `+ 1` packets. -/
def LinkOp (x : Aged F) : POp → Prop
  | .deliverAB k =>
    match x.h.wireT[k]? with
    | some T => x.h.pend.length ≤ T + 127 * framesAfter x.h.wireAB k + 1
    | none => True
  | _ => True

instance (Dfr D : Nat) (x : Aged F) (op : POp) : Decidable (FrameAgeOp Dfr D x op) := by
  cases op <;> simp only [FrameAgeOp] <;> infer_instance

instance (x : Aged F) (op : POp) : Decidable (LinkOp x op) := by
  cases op <;> simp only [LinkOp] <;> first | infer_instance | (split <;> infer_instance)

theorem ageOp_of_frames {Dfr D : Nat} (hD : 127 * Dfr + 1 ≤ D) (x : Aged F) (op : POp)
    (h1 : FrameAgeOp Dfr D x op) (h2 : LinkOp x op) : AgeOp D x op := by
  cases op with
  | deliverAB k =>
    simp only [FrameAgeOp] at h1
    simp only [LinkOp] at h2
    simp only [AgeOp]
    split
    · rename_i T hT
      rw [hT] at h2
      simp only at h2
      have := Nat.mul_le_mul_left 127 h1
      omega
    · trivial
  | deliverBA k => exact h1
  | sendA d c m => trivial
  | flushA => trivial
  | stepA now => trivial
  | recvB => trivial
  | flushB => trivial
  | stepB now => trivial

/-- Every step of the schedule, run from `x`, satisfies the frame-count age condition and the link. -/
def FrameAgeOk (ops : FloatOps F) (Dfr D : Nat) : Aged F → List POp → Prop
  | _, [] => True
  | x, op :: rest => (FrameAgeOp Dfr D x op ∧ LinkOp x op) ∧
      ∀ x', stepG ops x op = .ok x' → FrameAgeOk ops Dfr D x' rest

def frameAgeOkB (ops : FloatOps F) (Dfr D : Nat) : Aged F → List POp → Bool
  | _, [] => true
  | x, op :: rest =>
    decide (FrameAgeOp Dfr D x op ∧ LinkOp x op) &&
    match stepG ops x op with
    | .ok x' => frameAgeOkB ops Dfr D x' rest
    | .error _ => true

theorem frameAgeOkB_sound (ops : FloatOps F) (Dfr D : Nat) (sched : List POp) (x : Aged F)
    (h : frameAgeOkB ops Dfr D x sched = true) : FrameAgeOk ops Dfr D x sched := by
  induction sched generalizing x with
  | nil => trivial
  | cons op rest ih =>
    simp only [frameAgeOkB, Bool.and_eq_true, decide_eq_true_eq] at h
    refine ⟨h.1, fun x' hs => ?_⟩
    have h2 := h.2
    rw [hs] at h2
    exact ih x' h2

theorem ageOk_of_frameAgeOk (ops : FloatOps F) {Dfr D : Nat} (hD : 127 * Dfr + 1 ≤ D) (sched : List POp)
    (x : Aged F) (h : FrameAgeOk ops Dfr D x sched) : AgeOk ops D x sched := by
  induction sched generalizing x with
  | nil => trivial
  | cons op rest ih =>
    exact ⟨ageOp_of_frames hD x op h.1.1 h.1.2, fun x' hs => ih x' (h.2 x' hs)⟩

end Uflow.HcAge
