import Uflow.Lemmas.HcSysHandlers
import Uflow.Lemmas.HcSysCodec
import Uflow.Lemmas.PRecvRun

/-!
C01Hc, part 6: the invariant `PairInv` of the pair of half connections and its preservation by every
step (no hypothesis on the schedule). It contains the two genuineness facts:

* every datagram handed to `B`'s packet receiver is a fragment datagram of a packet `A`'s
  `PSend.emit` returned (`fed`);
* every base id handed to `A`'s `PSend.acknowledge` is a base `B`'s packet receiver had (`acks`).
-/

namespace Uflow.HcSys

open Uflow Uflow.Gen Uflow.Codec Uflow.HalfConn Uflow.PSend
open Uflow.PRecv (bindR bindR_ok)
open Uflow.Rate (FloatOps)

variable {F : Type}

/-! ### parsing what was emitted -/

/-- A frame of the wire that parses as a data frame carries exactly the datagrams it was built from. -/
theorem wire_decode_data {G : Datagram → Prop} {P : Nat → Prop} {bytes : List Nat}
    (hw : WireOk G P bytes) (hok : ∀ d, G d → DatagramOk d) (id : Nat) (nonce : Bool)
    (dgs : List Datagram) (hd : decode bytes = some (.data id nonce dgs)) : ∀ d ∈ dgs, G d := by
  cases hw with
  | ack fb pb gs h1 _ =>
    rw [h1] at hd
    obtain ⟨_, _, hg⟩ := decode_encode_ack fb pb gs _ hd
    cases hg
  | data id' n' dgs' h1 h2 h3 =>
    rw [h1, decode_encode_data id' n' dgs' h2 (fun d hd => hok d (h3 d hd))] at hd
    simp only [Option.some.injEq, Frame.data.injEq] at hd
    rw [← hd.2.2]; exact h3
  | sync nf np h1 =>
    rw [h1] at hd
    obtain ⟨_, _, hg⟩ := decode_encode_sync nf np _ hd
    cases hg

/-- A frame of the wire that parses as an ack frame carries the packet window base it was built with
(as a `u32`). -/
theorem wire_decode_ack {G : Datagram → Prop} {P : Nat → Prop} {bytes : List Nat}
    (hw : WireOk G P bytes) (fb pb : Nat) (acks : List AckGroup)
    (hd : decode bytes = some (.ack fb pb acks)) : ∃ pb', P pb' ∧ pb = pb' % 2^32 := by
  cases hw with
  | ack fb' pb' gs h1 h2 =>
    rw [h1] at hd
    obtain ⟨_, _, hg⟩ := decode_encode_ack fb' pb' gs _ hd
    simp only [Frame.ack.injEq] at hg
    exact ⟨pb', h2, hg.2.1⟩
  | data id' n' dgs' h1 _ _ =>
    rw [h1] at hd
    obtain ⟨_, _, _, hg⟩ := decode_encode_data_kind id' n' dgs' _ hd
    cases hg
  | sync nf np h1 =>
    rw [h1] at hd
    obtain ⟨_, _, hg⟩ := decode_encode_sync nf np _ hd
    cases hg

/-! ### receiver invariant along the handlers -/

theorem foldDg_inv {W M : Nat} (dgs : List Datagram) (s s' : PRecv.State) (h : PRecv.Inv W M s)
    (hf : dgs.foldlM PRecv.handleDatagram s = .ok s') : PRecv.Inv W M s' := by
  induction dgs generalizing s with
  | nil =>
    simp only [List.foldlM_nil, pure, Except.pure, Except.ok.injEq] at hf
    subst hf; exact h
  | cons d dgs ih =>
    rw [List.foldlM_cons] at hf
    obtain ⟨s1, h1, hi1⟩ := PRecv.handleDatagram_inv h d
    rw [h1] at hf
    simp only [bind, Except.bind] at hf
    exact ih s1 hi1 hf

theorem resyncTo_inv {W M : Nat} (s s' : PRecv.State) (np : Option Nat) (h : PRecv.Inv W M s)
    (hr : resyncTo s np = .ok s') : PRecv.Inv W M s' := by
  cases np with
  | none =>
    simp only [resyncTo, Except.ok.injEq] at hr
    subst hr; exact h
  | some id =>
    simp only [resyncTo] at hr
    obtain ⟨s1, h1, hi1⟩ := PRecv.resynchronize_inv h id
    rw [h1] at hr
    simp only [Except.ok.injEq] at hr
    subst hr; exact hi1

theorem receive_spec (s s' : State F) (out : List (List Nat)) (h : receive s = .ok (s', out)) :
    s'.ps = s.ps ∧ PRecv.receive s.pr = .ok (s'.pr, out) := by
  simp only [receive] at h
  cases hr : PRecv.receive s.pr with
  | error t => rw [hr] at h; cases h
  | ok v =>
    obtain ⟨pr, o⟩ := v
    rw [hr] at h
    simp only [Except.ok.injEq, Prod.mk.injEq] at h
    obtain ⟨rfl, rfl⟩ := h
    exact ⟨rfl, rfl⟩

/-! ### the invariant -/

/-- `pb` is a base id `B`'s packet receiver had (recorded in `bases`). -/
def WasBase (h : HcPair F) (pb : Nat) : Prop := ∃ a, (a, pb) ∈ h.bases

structure PairInv (h : HcPair F) : Prop where
  a : AInv h.pend h.A.ps
  b : ∃ pendB, AInv pendB h.B.ps
  pr : ∃ W M, PRecv.Inv W M h.B.pr
  wab : ∀ bytes ∈ h.wireAB, WireOk (Genuine h.pend) (fun _ => True) bytes
  wba : ∀ bytes ∈ h.wireBA, WireOk (fun _ => True) (WasBase h) bytes
  fed : ∀ d ∈ h.fed, Genuine h.pend d
  acks : ∀ pb ∈ h.acks, WasBase h pb
  cur : (h.advB, h.B.pr.baseId) ∈ h.bases
  blt : ∀ x ∈ h.bases, x.2 < 2^20
  /-- emitted frames fit the receive buffer: truncation on delivery is the identity -/
  lab : ∀ bytes ∈ h.wireAB, bytes.length ≤ MAX_FRAME_SIZE
  lba : ∀ bytes ∈ h.wireBA, bytes.length ≤ MAX_FRAME_SIZE

theorem pairInv_init (ops : FloatOps F) (cA cB : Config) (nowA nowB : Nat) (rngA rngB : Rng)
    (hbA : cA.txPacketBaseId < 2^20) (hbB : cB.txPacketBaseId < 2^20)
    (hrB : cB.rxPacketBaseId < 2^20) (hW : 0 < cB.rxPacketWindowSize) :
    PairInv (initP ops cA cB nowA nowB rngA rngB) where
  a := ainv_init _ _ _ hbA
  b := ⟨[], ainv_init _ _ _ hbB⟩
  pr := ⟨_, _, PRecv.inv_init _ _ _ hW hrB⟩
  wab := by intro b hb; cases hb
  wba := by intro b hb; cases hb
  fed := by intro d hd; cases hd
  acks := by intro d hd; cases hd
  cur := by simp [initP, HalfConn.init, PRecv.init]
  blt := by
    intro x hx
    simp only [initP, List.mem_singleton] at hx
    subst hx; exact hrB
  lab := by intro b hb; cases hb
  lba := by intro b hb; cases hb

/-- Growing `bases` keeps what is known about the `B → A` wire and the acknowledgements. -/
theorem wasBase_app {h : HcPair F} (bs : List (Nat × Nat)) (pb : Nat) (hw : WasBase h pb) :
    ∃ a, (a, pb) ∈ h.bases ++ bs := by
  obtain ⟨a, ha⟩ := hw
  exact ⟨a, List.mem_append_left _ ha⟩

/-- A step of `B` that changes only `B` (keeping `ps` up to acknowledgements) and records its base. -/
theorem pairInv_stepB {h : HcPair F} (hi : PairInv h) (b : State F) (fed' : List Datagram)
    (outs' : List (List Nat)) (acc' : List Nat)
    (hps : ∃ pendB, AInv pendB b.ps) (hpr : ∃ W M, PRecv.Inv W M b.pr)
    (hfed : ∀ d ∈ fed', Genuine h.pend d) :
    PairInv { h with B := b, fed := h.fed ++ fed', outs := outs', accIds := acc',
                     advB := h.advB + pidSub b.pr.baseId h.B.pr.baseId,
                     bases := h.bases ++ [(h.advB + pidSub b.pr.baseId h.B.pr.baseId, b.pr.baseId)] } where
  a := hi.a
  b := hps
  pr := hpr
  wab := hi.wab
  wba := fun bytes hb => (hi.wba bytes hb).mono (fun _ x => x) (fun pb hw => wasBase_app _ pb hw)
  fed := by
    intro d hd
    rcases List.mem_append.mp hd with hd | hd
    · exact hi.fed d hd
    · exact hfed d hd
  acks := fun pb hp => wasBase_app _ pb (hi.acks pb hp)
  cur := List.mem_append_right _ (List.mem_singleton.mpr rfl)
  blt := by
    intro x hx
    rcases List.mem_append.mp hx with hx | hx
    · exact hi.blt x hx
    · rw [List.mem_singleton.mp hx]
      obtain ⟨W, M, hinv⟩ := hpr
      exact hinv.blt
  lab := hi.lab
  lba := hi.lba

/-- The invariant is preserved by every step, whatever the schedule. -/
theorem pairInv_step (ops : FloatOps F) {h h' : HcPair F} (hi : PairInv h) (op : POp)
    (hs : stepP ops h op = .ok h') : PairInv h' := by
  cases op with
  | sendA d c m =>
    simp only [stepP] at hs
    split at hs
    · rename_i hlen
      cases hs
      exact { hi with a := ainv_enqueue hi.a d c m _ hlen }
    · cases hs; exact hi
  | flushA =>
    simp only [stepP] at hs
    cases hf : flush h.A with
    | error t => rw [hf] at hs; cases hs
    | ok r =>
      obtain ⟨a', out⟩ := r
      rw [hf, bindR_ok] at hs
      cases hs
      obtain ⟨l, hem, ha, _, hout⟩ := flush_spec h.A a' out hi.a hf
      have hnp : newPackets h.A.ps a'.ps = l := (hem.newPackets hi.a).2
      simp only []
      rw [hnp]
      exact {
        a := ha
        b := hi.b
        pr := hi.pr
        wab := by
          intro bytes hb
          rcases List.mem_append.mp hb with hb | hb
          · exact (hi.wab bytes hb).mono (fun d hd => hd.mono l) (fun _ x => x)
          · exact (hout bytes hb).mono (fun _ x => x) (fun _ _ => trivial)
        wba := hi.wba
        fed := fun d hd => (hi.fed d hd).mono l
        acks := hi.acks
        cur := hi.cur
        blt := hi.blt
        lab := by
          intro bytes hb
          rcases List.mem_append.mp hb with hb | hb
          · exact hi.lab bytes hb
          · exact flush_len h.A a' out hi.a hf bytes hb
        lba := hi.lba }
  | stepA now =>
    simp only [stepP] at hs
    cases hf : step ops h.A now with
    | error t => rw [hf] at hs; cases hs
    | ok a' =>
      rw [hf, bindR_ok] at hs
      cases hs
      obtain ⟨hps, _⟩ := step_spec ops h.A a' now hf
      exact { hi with a := by show AInv h.pend a'.ps; rw [hps]; exact hi.a }
  | deliverAB k =>
    simp only [stepP] at hs
    cases hk : h.wireAB[k]? with
    | none => rw [hk] at hs; cases hs; exact hi
    | some bytes =>
      rw [hk] at hs
      simp only [] at hs
      have hmem : bytes ∈ h.wireAB := List.mem_of_getElem? hk
      rw [List.take_of_length_le (hi.lab bytes hmem)] at hs
      cases hf : dispatch h.B bytes with
      | error t => rw [hf] at hs; cases hs
      | ok b' =>
        rw [hf, bindR_ok] at hs
        cases hs
        have hw := hi.wab bytes hmem
        obtain ⟨pendB, hpb⟩ := hi.b
        obtain ⟨W, M, hpr⟩ := hi.pr
        have hv := dispatch_view h.B b' bytes hf
        cases hv with
        | skip h1 h2 _ _ _ _ =>
          subst h1
          exact pairInv_stepB hi _ _ _ _ ⟨pendB, hpb⟩ ⟨W, M, hpr⟩ (by rw [h2]; intro d hd; cases hd)
        | data id nonce dgs h1 h2 h3 _ h5 =>
          refine pairInv_stepB hi _ _ _ _ ⟨pendB, by rw [h2]; exact hpb⟩
            ⟨W, M, foldDg_inv _ _ _ hpr h5⟩ ?_
          rw [h3]
          intro d hd
          split at hd
          · exact wire_decode_data hw (fun d hg => genuine_ok hi.a d hg) id nonce dgs h1 d hd
          · cases hd
        | sync nf np _ h2 h3 _ h5 =>
          exact pairInv_stepB hi _ _ _ _ ⟨pendB, by rw [h2]; exact hpb⟩
            ⟨W, M, resyncTo_inv _ _ np hpr h5⟩ (by rw [h3]; intro d hd; cases hd)
        | ack fb pb acks ps1 _ h2 h3 _ h5 h6 =>
          exact pairInv_stepB hi _ _ _ _ ⟨pendB, ainv_acknowledge (h5.ainv hpb) pb h6⟩
            ⟨W, M, by rw [h2]; exact hpr⟩ (by rw [h3]; intro d hd; cases hd)
  | recvB =>
    simp only [stepP] at hs
    cases hf : receive h.B with
    | error t => rw [hf] at hs; cases hs
    | ok r =>
      obtain ⟨b', out⟩ := r
      rw [hf, bindR_ok] at hs
      cases hs
      obtain ⟨hps, hrc⟩ := receive_spec h.B b' out hf
      obtain ⟨pendB, hpb⟩ := hi.b
      obtain ⟨W, M, hpr⟩ := hi.pr
      obtain ⟨s1, o1, hr1, hinv1⟩ := PRecv.receive_inv hpr
      rw [hrc] at hr1
      simp only [Except.ok.injEq, Prod.mk.injEq] at hr1
      have := pairInv_stepB hi b' [] (h.outs ++ out) h.accIds ⟨pendB, by rw [hps]; exact hpb⟩
        ⟨W, M, by rw [hr1.1]; exact hinv1⟩ (by intro d hd; cases hd)
      simpa using this
  | flushB =>
    simp only [stepP] at hs
    cases hf : flush h.B with
    | error t => rw [hf] at hs; cases hs
    | ok r =>
      obtain ⟨b', out⟩ := r
      rw [hf, bindR_ok] at hs
      cases hs
      obtain ⟨pendB, hpb⟩ := hi.b
      obtain ⟨l, _, ha, hpr, hout⟩ := flush_spec h.B b' out hpb hf
      exact {
        a := hi.a
        b := ⟨_, ha⟩
        pr := by show ∃ W M, PRecv.Inv W M b'.pr; rw [hpr]; exact hi.pr
        wab := hi.wab
        wba := by
          intro bytes hb
          rcases List.mem_append.mp hb with hb | hb
          · exact hi.wba bytes hb
          · exact (hout bytes hb).mono (fun _ _ => trivial) (fun pb hp => ⟨h.advB, by rw [hp]; exact hi.cur⟩)
        fed := hi.fed
        acks := hi.acks
        cur := by show (h.advB, b'.pr.baseId) ∈ h.bases; rw [hpr]; exact hi.cur
        blt := hi.blt
        lab := hi.lab
        lba := by
          intro bytes hb
          rcases List.mem_append.mp hb with hb | hb
          · exact hi.lba bytes hb
          · exact flush_len h.B b' out hpb hf bytes hb }
  | stepB now =>
    simp only [stepP] at hs
    cases hf : step ops h.B now with
    | error t => rw [hf] at hs; cases hs
    | ok b' =>
      rw [hf, bindR_ok] at hs
      cases hs
      obtain ⟨hps, hpr⟩ := step_spec ops h.B b' now hf
      exact {
        a := hi.a
        b := by show ∃ pendB, AInv pendB b'.ps; rw [hps]; exact hi.b
        pr := by show ∃ W M, PRecv.Inv W M b'.pr; rw [hpr]; exact hi.pr
        wab := hi.wab
        wba := hi.wba
        fed := hi.fed
        acks := hi.acks
        cur := by show (h.advB, b'.pr.baseId) ∈ h.bases; rw [hpr]; exact hi.cur
        blt := hi.blt
        lab := hi.lab
        lba := hi.lba }
  | deliverBA k =>
    simp only [stepP] at hs
    cases hk : h.wireBA[k]? with
    | none => rw [hk] at hs; cases hs; exact hi
    | some bytes =>
      rw [hk] at hs
      simp only [] at hs
      have hmem : bytes ∈ h.wireBA := List.mem_of_getElem? hk
      rw [List.take_of_length_le (hi.lba bytes hmem)] at hs
      cases hf : dispatch h.A bytes with
      | error t => rw [hf] at hs; cases hs
      | ok a' =>
        rw [hf, bindR_ok] at hs
        cases hs
        have hw := hi.wba bytes hmem
        have hv := dispatch_view h.A a' bytes hf
        have key : AInv h.pend a'.ps ∧ ∀ pb ∈ ackBy bytes, WasBase h pb := by
          cases hv with
          | skip h1 _ h3 _ _ _ =>
            subst h1
            exact ⟨hi.a, by rw [h3]; intro d hd; cases hd⟩
          | data id nonce dgs _ h2 _ h4 _ =>
            exact ⟨by rw [h2]; exact hi.a, by rw [h4]; intro d hd; cases hd⟩
          | sync nf np _ h2 _ h4 _ =>
            exact ⟨by rw [h2]; exact hi.a, by rw [h4]; intro d hd; cases hd⟩
          | ack fb pb acks ps1 h1 _ _ h4 h5 h6 =>
            refine ⟨ainv_acknowledge (h5.ainv hi.a) pb h6, ?_⟩
            rw [h4]
            intro x hx
            rw [List.mem_singleton.mp hx]
            obtain ⟨pb', ⟨a, ha⟩, he⟩ := wire_decode_ack hw fb pb acks h1
            have := hi.blt _ ha
            simp only [] at this
            rw [he, Nat.mod_eq_of_lt (by omega)]
            exact ⟨a, ha⟩
        exact {
          a := key.1
          b := hi.b
          pr := hi.pr
          wab := hi.wab
          wba := hi.wba
          fed := hi.fed
          acks := by
            intro pb hp
            rcases List.mem_append.mp hp with hp | hp
            · exact hi.acks pb hp
            · exact key.2 pb hp
          cur := hi.cur
          blt := hi.blt
          lab := hi.lab
          lba := hi.lba }

theorem pairInv_run (ops : FloatOps F) (sched : List POp) {h h' : HcPair F} (hi : PairInv h)
    (hr : runP ops h sched = .ok h') : PairInv h' := by
  induction sched generalizing h with
  | nil => cases hr; exact hi
  | cons op rest ih =>
    rw [runP] at hr
    cases hs : stepP ops h op with
    | error t => rw [hs] at hr; cases hr
    | ok h1 =>
      rw [hs, bindR_ok] at hr
      exact ih (pairInv_step ops hi op hs) hr

end Uflow.HcSys
