import Uflow.Lemmas.EndpointServerOps

/-!
`Server.step` decomposed into its phases; API operations; runs of a server with the logs of all
datagrams received / sent and all events delivered; the generic invariant principle for runs.
-/

namespace Uflow.Endpoint

open Uflow.Gen Uflow.Codec Uflow.HalfConn

variable {H : Type}

/-- The `retain` of `active_clients` and the forgetting of unreferenced detached objects. -/
def Server.retain (s : Server H) : Server H :=
  let act := s.active.filter fun cid => match s.byCid cid with
    | some c => c.state.isActive
    | none => false
  { s with active := act,
           detached := s.detached.filter fun c => act.contains c.cid || s.timers.any (·.cid = c.cid) }

/-- The phases of a successful `Server.step`. -/
structure StepPhases (hc : HC H) (s : Server H) (nowNs : Nat) (arrivals : List (Nat × List Nat))
    (s' : Server H) (sent : List (Nat × List Nat)) (evs : List SEvent) where
  s1 : Server H
  sent1 : List (Nat × List Nat)
  s2 : Server H
  sent2 : List (Nat × List Nat)
  s4 : Server H
  s6 : Server H
  sent4 : List (Nat × List Nat)
  hflush : s.flushActive hc = .ok (s1, sent1)
  hframes : s1.handleFrames hc arrivals ((nowNs - s.timeBase) / 1000000) nowNs = .ok (s2, sent2)
  htimeouts : (Server.runTimers (s2.timers.size * 12 + 16) s2 ((nowNs - s.timeBase) / 1000000) []).1.activeTimeouts hc
      ((nowNs - s.timeBase) / 1000000) = .ok s4
  hstep : s4.retain.stepActive hc ((nowNs - s.timeBase) / 1000000) nowNs = .ok (s6, sent4)
  hs' : s' = { s6 with eventsOut := [] }
  hsent : sent = sent1 ++ sent2 ++ (Server.runTimers (s2.timers.size * 12 + 16) s2 ((nowNs - s.timeBase) / 1000000) []).2 ++ sent4
  hevs : evs = s6.eventsOut

theorem Server.step_phases (hc : HC H) {s : Server H} {nowNs : Nat} {arrivals : List (Nat × List Nat)}
    {s' : Server H} {sent : List (Nat × List Nat)} {evs : List SEvent}
    (hr : s.step hc nowNs arrivals = .ok (s', sent, evs)) :
    Nonempty (StepPhases hc s nowNs arrivals s' sent evs) := by
  unfold Server.step at hr
  simp only at hr
  split at hr
  · cases hr
  · rename_i s1 sent1 h1
    split at hr
    · cases hr
    · rename_i s2 sent2 h2
      split at hr
      · cases hr
      · rename_i s4 h4
        split at hr
        · cases hr
        · rename_i s6 sent4 h6
          simp only [Except.ok.injEq, Prod.mk.injEq] at hr
          obtain ⟨e1, e2, e3⟩ := hr
          exact ⟨⟨s1, sent1, s2, sent2, s4, s6, sent4, h1, h2, h4, h6, e1.symm, e2.symm, e3.symm⟩⟩

theorem Server.retain_wq {s : Server H} (h : s.WF) : WQ s s.retain :=
  ⟨h.gc _ _, s.gc_quiet _ _⟩

/-- Invariants of `Server.step`, for any property `P` kept by quiet transitions, by an accepted SYN
and by handing over the event buffer. -/
theorem Server.step_inv (hc : HC H) (P : Server H → Prop)
    (hq : ∀ s s' : Server H, s.WF → P s → Quiet s s' → P s')
    (ha : ∀ (s : Server H) addr n r a nowMs, s.WF → P s → s.find addr = none → ¬ s.full → P (s.accept addr n r a nowMs))
    (hk : ∀ (s : Server H) addr c ln rn rate alloc reply nowMs nowNs, s.WF → P s → s.find addr = some c →
      c.state = .pending ln rn rate alloc reply → P (s.activate hc c ln rn rate alloc nowMs nowNs))
    (hclr : ∀ s : Server H, s.WF → P s → P { s with eventsOut := [] })
    {s : Server H} (h : s.WF) (hp : P s) (nowNs : Nat) (arrivals : List (Nat × List Nat))
    {s' : Server H} {sent : List (Nat × List Nat)} {evs : List SEvent}
    (hr : s.step hc nowNs arrivals = .ok (s', sent, evs)) : s'.WF ∧ P s' := by
  obtain ⟨ph⟩ := Server.step_phases hc hr
  have w1 := Server.flushActive_wq hc h ph.hflush
  have p1 := hq _ _ h hp w1.2
  obtain ⟨w2, p2⟩ := Server.handleFrames_inv hc P hq ha hk w1.1 p1 arrivals _ nowNs ph.hframes
  have w3 := Server.runTimers_wq (ph.s2.timers.size * 12 + 16) w2 ((nowNs - s.timeBase) / 1000000) []
  have p3 := hq _ _ w2 p2 w3.2
  have w4 := Server.activeTimeouts_wq hc w3.1 _ ph.htimeouts
  have p4 := hq _ _ w3.1 p3 w4.2
  have w5 := Server.retain_wq w4.1
  have p5 := hq _ _ w4.1 p4 w5.2
  have w6 := Server.stepActive_wq hc w5.1 _ nowNs ph.hstep
  have p6 := hq _ _ w5.1 p5 w6.2
  rw [ph.hs']
  exact ⟨w6.1.of_eq rfl rfl rfl rfl rfl, hclr _ w6.1 p6⟩

/-! ### API operations -/

theorem Server.drop_wq {s : Server H} (h : s.WF) (addr : Nat) : WQ s (s.drop addr) := by
  unfold Server.drop
  split
  · rename_i c hf
    exact WQ.finish h (List.mem_append_left _ (Server.find_some hf).1)
  · exact WQ.refl h

theorem Server.send_wq (hc : HC H) {s : Server H} (h : s.WF) (addr : Nat) (data : List Nat) (chan : Nat)
    (mode : SendMode) : WQ s (s.send hc addr data chan mode) := by
  unfold Server.send
  split
  · rename_i c hf
    split
    · rename_i hst
      exact WQ.put h (Server.find_some hf).1 _ rfl rfl (fun _ => by rw [hst]; rfl) (fun _ => by rw [hst]; rfl)
    · exact WQ.refl h
  · exact WQ.refl h

theorem Server.disconnect_wq {s : Server H} (h : s.WF) (addr : Nat) (m : DisconnectMode) :
    WQ s (s.disconnect addr m) := by
  unfold Server.disconnect
  split
  · rename_i c hf
    split
    · rename_i hst
      exact WQ.put h (Server.find_some hf).1 _ rfl rfl (fun _ => by rw [hst]; rfl) (fun _ => by rw [hst]; rfl)
    · exact WQ.refl h
  · exact WQ.refl h

theorem Server.init_WF (cfg : SrvConfig) (now : Nat) (rng : Rng) : (Server.init cfg now rng : Server H).WF := by
  constructor <;> simp [Server.init]

/-- An application-level operation on a server. -/
inductive SOp where
  | step (nowNs : Nat) (arrivals : List (Nat × List Nat))
  | flush
  | drop (addr : Nat)
  | disconnect (addr : Nat) (m : DisconnectMode)
  | send (addr : Nat) (data : List Nat) (chan : Nat) (mode : SendMode)

/-- The datagrams an operation hands to the server. -/
def SOp.arrivals : SOp → List (Nat × List Nat)
  | .step _ arr => arr
  | _ => []

/-- One operation: new state, datagrams sent, events delivered to the application. -/
def Server.apply (hc : HC H) (s : Server H) : SOp → R (Server H × List (Nat × List Nat) × List SEvent)
  | .step nowNs arr => s.step hc nowNs arr
  | .flush =>
    match s.flush hc with
    | .error t => .error t
    | .ok (s', sent) => .ok (s', sent, [])
  | .drop addr => .ok (s.drop addr, [], [])
  | .disconnect addr m => .ok (s.disconnect addr m, [], [])
  | .send addr data chan mode => .ok (s.send hc addr data chan mode, [], [])

/-- `SRun hc cfg s rx tx ev`: `s` is reached from `Server.init cfg ..` by a sequence of operations
during which the datagrams `rx` were received, `tx` were sent and the events `ev` were delivered
(all in order). -/
inductive SRun (hc : HC H) (cfg : SrvConfig) :
    Server H → List (Nat × List Nat) → List (Nat × List Nat) → List SEvent → Prop
  | init (now : Nat) (rng : Rng) : SRun hc cfg (Server.init cfg now rng) [] [] []
  | op {s s' : Server H} {rx tx sent : List (Nat × List Nat)} {ev evs : List SEvent} (o : SOp) :
      SRun hc cfg s rx tx ev → s.apply hc o = .ok (s', sent, evs) →
      SRun hc cfg s' (rx ++ o.arrivals) (tx ++ sent) (ev ++ evs)

/-- A server state reachable from `Server.init cfg ..`. -/
def Reachable (hc : HC H) (cfg : SrvConfig) (s : Server H) : Prop := ∃ rx tx ev, SRun hc cfg s rx tx ev

/-- Invariant principle for runs (state part only). -/
theorem SRun.inv (hc : HC H) (cfg : SrvConfig) (P : Server H → Prop)
    (hinit : ∀ now rng, P (Server.init cfg now rng))
    (hq : ∀ s s' : Server H, s.WF → P s → Quiet s s' → P s')
    (ha : ∀ (s : Server H) addr n r a nowMs, s.WF → P s → s.find addr = none → ¬ s.full → P (s.accept addr n r a nowMs))
    (hk : ∀ (s : Server H) addr c ln rn rate alloc reply nowMs nowNs, s.WF → P s → s.find addr = some c →
      c.state = .pending ln rn rate alloc reply → P (s.activate hc c ln rn rate alloc nowMs nowNs))
    (hclr : ∀ s : Server H, s.WF → P s → P { s with eventsOut := [] })
    {s : Server H} {rx tx : List (Nat × List Nat)} {ev : List SEvent} (hr : SRun hc cfg s rx tx ev) :
    s.WF ∧ P s := by
  induction hr with
  | init now rng => exact ⟨Server.init_WF cfg now rng, hinit now rng⟩
  | @op s s' rx tx sent ev evs o _ hap ih =>
    obtain ⟨hw, hp⟩ := ih
    cases o with
    | step nowNs arr => exact Server.step_inv hc P hq ha hk hclr hw hp nowNs arr hap
    | flush =>
      simp only [Server.apply, Server.flush] at hap
      split at hap
      · cases hap
      · rename_i s1 sent1 hfl
        cases hap
        have := Server.flushActive_wq hc hw hfl
        exact ⟨this.1, hq _ _ hw hp this.2⟩
    | drop addr =>
      simp only [Server.apply, Except.ok.injEq, Prod.mk.injEq] at hap
      obtain ⟨rfl, _, _⟩ := hap
      have := Server.drop_wq hw addr
      exact ⟨this.1, hq _ _ hw hp this.2⟩
    | disconnect addr m =>
      simp only [Server.apply, Except.ok.injEq, Prod.mk.injEq] at hap
      obtain ⟨rfl, _, _⟩ := hap
      have := Server.disconnect_wq hw addr m
      exact ⟨this.1, hq _ _ hw hp this.2⟩
    | send addr data chan mode =>
      simp only [Server.apply, Except.ok.injEq, Prod.mk.injEq] at hap
      obtain ⟨rfl, _, _⟩ := hap
      have := Server.send_wq hc hw addr data chan mode
      exact ⟨this.1, hq _ _ hw hp this.2⟩

theorem SRun.WF {hc : HC H} {cfg : SrvConfig} {s : Server H} {rx tx : List (Nat × List Nat)} {ev : List SEvent}
    (hr : SRun hc cfg s rx tx ev) : s.WF :=
  (SRun.inv hc cfg (fun _ => True) (fun _ _ => trivial) (fun _ _ _ _ _ => trivial)
    (fun _ _ _ _ _ _ _ _ _ _ => trivial) (fun _ _ _ _ _ _ _ _ _ _ _ _ _ _ => trivial) (fun _ _ _ => trivial) hr).1

end Uflow.Endpoint
