import Uflow.Model.PRecv

/-!
Helper lemmas for C06 / C03 (receiver), part 1: the finite map `slots` of `PRecv.State`
(`getSlot` / `setSlot` algebra, sums over the slots, distinct keys, pigeonhole) and the
packet-id loops as folds over the list of visited ids.
-/

namespace Uflow.PRecv

open Uflow Uflow.Gen

/-! ### the slot map as a list -/

abbrev SlotMap := List (Nat × Slot)

def lget (l : SlotMap) (i : Nat) : Slot :=
  match l.find? (·.1 = i) with
  | some (_, x) => x
  | none => {}

def lset (l : SlotMap) (i : Nat) (x : Slot) : SlotMap := (i, x) :: l.filter (·.1 ≠ i)

def keys (l : SlotMap) : List Nat := l.map (·.1)

/-- Sum of a per-slot quantity over the stored slots. -/
def lsum (f : Slot → Nat) (l : SlotMap) : Nat := (l.map fun p => f p.2).sum

theorem getSlot_eq (s : State) (i : Nat) : getSlot s i = lget s.slots i := rfl

theorem setSlot_slots (s : State) (i : Nat) (x : Slot) : (setSlot s i x).slots = lset s.slots i x := rfl

theorem lget_nil (i : Nat) : lget [] i = {} := rfl

theorem lget_cons_same (l : SlotMap) (i : Nat) (x : Slot) : lget ((i, x) :: l) i = x := by
  simp [lget]

theorem lget_cons_ne (l : SlotMap) (i k : Nat) (x : Slot) (h : k ≠ i) :
    lget ((k, x) :: l) i = lget l i := by
  simp [lget, h]

theorem lget_filter_ne (l : SlotMap) (i j : Nat) (h : j ≠ i) :
    lget (l.filter (·.1 ≠ i)) j = lget l j := by
  induction l with
  | nil => rfl
  | cons p t ih =>
    obtain ⟨k, y⟩ := p
    by_cases hk : k = i
    · subst hk
      have : List.filter (fun p : Nat × Slot => decide (p.1 ≠ k)) ((k, y) :: t)
          = List.filter (fun p : Nat × Slot => decide (p.1 ≠ k)) t := by
        simp
      rw [this, ih, lget_cons_ne t j k y (Ne.symm h)]
    · have : List.filter (fun p : Nat × Slot => decide (p.1 ≠ i)) ((k, y) :: t)
          = (k, y) :: List.filter (fun p : Nat × Slot => decide (p.1 ≠ i)) t := by
        simp [hk]
      rw [this]
      by_cases hj : k = j
      · subst hj; rw [lget_cons_same, lget_cons_same]
      · rw [lget_cons_ne _ _ _ _ hj, lget_cons_ne _ _ _ _ hj, ih]

theorem lget_lset_same (l : SlotMap) (i : Nat) (x : Slot) : lget (lset l i x) i = x :=
  lget_cons_same _ i x

theorem lget_lset_ne (l : SlotMap) (i j : Nat) (x : Slot) (h : j ≠ i) :
    lget (lset l i x) j = lget l j := by
  unfold lset
  rw [lget_cons_ne _ _ _ _ (Ne.symm h), lget_filter_ne l i j h]

theorem lget_lset (l : SlotMap) (i j : Nat) (x : Slot) :
    lget (lset l i x) j = if j = i then x else lget l j := by
  by_cases h : j = i
  · subst h; rw [if_pos rfl, lget_lset_same]
  · rw [if_neg h, lget_lset_ne l i j x h]

theorem mem_keys_filter (l : SlotMap) (i k : Nat) :
    k ∈ keys (l.filter (·.1 ≠ i)) ↔ k ∈ keys l ∧ k ≠ i := by
  simp only [keys, List.mem_map, List.mem_filter, decide_eq_true_eq]
  constructor
  · rintro ⟨p, ⟨hp, hne⟩, rfl⟩; exact ⟨⟨p, hp, rfl⟩, hne⟩
  · rintro ⟨⟨p, hp, rfl⟩, hne⟩; exact ⟨p, ⟨hp, hne⟩, rfl⟩

theorem nodup_keys_filter (l : SlotMap) (i : Nat) (h : (keys l).Nodup) :
    (keys (l.filter (·.1 ≠ i))).Nodup := by
  induction l with
  | nil => exact List.nodup_nil
  | cons p t ih =>
    have ht : (keys t).Nodup := (List.nodup_cons.mp h).2
    have hp : p.1 ∉ keys t := (List.nodup_cons.mp h).1
    rw [List.filter_cons]
    split
    · show (p.1 :: keys (t.filter _)).Nodup
      refine List.nodup_cons.mpr ⟨fun hm => hp ((mem_keys_filter t i p.1).mp hm).1, ih ht⟩
    · exact ih ht

theorem nodup_keys_lset (l : SlotMap) (i : Nat) (x : Slot) (h : (keys l).Nodup) :
    (keys (lset l i x)).Nodup := by
  show (i :: keys (l.filter _)).Nodup
  exact List.nodup_cons.mpr ⟨fun hm => ((mem_keys_filter l i i).mp hm).2 rfl, nodup_keys_filter l i h⟩

theorem mem_keys_lset (l : SlotMap) (i k : Nat) (x : Slot) (h : k ∈ keys (lset l i x)) :
    k = i ∨ k ∈ keys l := by
  have : k ∈ i :: keys (l.filter (·.1 ≠ i)) := h
  rcases List.mem_cons.mp this with h | h
  · exact Or.inl h
  · exact Or.inr ((mem_keys_filter l i k).mp h).1

theorem filter_of_not_mem (l : SlotMap) (i : Nat) (h : i ∉ keys l) : l.filter (·.1 ≠ i) = l := by
  apply List.filter_eq_self.mpr
  intro p hp
  simp only [decide_eq_true_eq]
  intro he
  exact h (List.mem_map.mpr ⟨p, hp, he⟩)

theorem lget_of_not_mem (l : SlotMap) (i : Nat) (h : i ∉ keys l) : lget l i = {} := by
  induction l with
  | nil => rfl
  | cons p t ih =>
    obtain ⟨k, y⟩ := p
    have hk : k ≠ i := fun he => h (by simp [keys, he])
    rw [lget_cons_ne _ _ _ _ hk]
    exact ih (fun hm => h (List.mem_cons_of_mem _ hm))

theorem lget_of_mem (l : SlotMap) (p : Nat × Slot) (h : (keys l).Nodup) (hp : p ∈ l) :
    lget l p.1 = p.2 := by
  induction l with
  | nil => cases hp
  | cons q t ih =>
    have ht : (keys t).Nodup := (List.nodup_cons.mp h).2
    have hq : q.1 ∉ keys t := (List.nodup_cons.mp h).1
    rcases List.mem_cons.mp hp with he | hm
    · subst he; obtain ⟨k, y⟩ := p; exact lget_cons_same t k y
    · obtain ⟨k, y⟩ := q
      have hne : k ≠ p.1 := fun he => hq (by
        show k ∈ keys t
        rw [he]; exact List.mem_map.mpr ⟨p, hm, rfl⟩)
      rw [lget_cons_ne _ _ _ _ hne]
      exact ih ht hm

/-! ### sums -/

theorem lsum_nil (f : Slot → Nat) : lsum f [] = 0 := rfl

theorem lsum_cons (f : Slot → Nat) (p : Nat × Slot) (t : SlotMap) :
    lsum f (p :: t) = f p.2 + lsum f t := by
  simp [lsum]

/-- With distinct keys, a sum splits into the term of index `i` and the rest. -/
theorem lsum_split (f : Slot → Nat) (hf : f {} = 0) (l : SlotMap) (i : Nat) (h : (keys l).Nodup) :
    lsum f l = f (lget l i) + lsum f (l.filter (·.1 ≠ i)) := by
  induction l with
  | nil => rw [lget_nil, hf]; rfl
  | cons p t ih =>
    obtain ⟨k, y⟩ := p
    have ht : (keys t).Nodup := (List.nodup_cons.mp h).2
    have hp : k ∉ keys t := (List.nodup_cons.mp h).1
    by_cases hk : k = i
    · subst hk
      have : List.filter (fun p : Nat × Slot => decide (p.1 ≠ k)) ((k, y) :: t) = t := by
        rw [List.filter_cons]
        simp only [ne_eq, not_true_eq_false, decide_false, Bool.false_eq_true, if_false]
        exact filter_of_not_mem t k hp
      rw [this, lget_cons_same, lsum_cons]
    · have : List.filter (fun p : Nat × Slot => decide (p.1 ≠ i)) ((k, y) :: t)
          = (k, y) :: List.filter (fun p : Nat × Slot => decide (p.1 ≠ i)) t := by
        simp [hk]
      rw [this, lget_cons_ne _ _ _ _ hk, lsum_cons, lsum_cons, ih ht]
      omega

theorem lsum_lset (f : Slot → Nat) (hf : f {} = 0) (l : SlotMap) (i : Nat) (x : Slot)
    (h : (keys l).Nodup) : lsum f (lset l i x) + f (lget l i) = lsum f l + f x := by
  have h1 := lsum_split f hf l i h
  have h2 : lsum f (lset l i x) = f x + lsum f (l.filter (·.1 ≠ i)) := lsum_cons f (i, x) _
  omega

theorem lsum_ge (f : Slot → Nat) (hf : f {} = 0) (l : SlotMap) (i : Nat) (h : (keys l).Nodup) :
    f (lget l i) ≤ lsum f l := by
  have := lsum_split f hf l i h
  omega

theorem lsum_le_lsum (f g : Slot → Nat) (l : SlotMap) (h : ∀ p ∈ l, f p.2 ≤ g p.2) :
    lsum f l ≤ lsum g l := by
  induction l with
  | nil => exact Nat.le_refl _
  | cons p t ih =>
    rw [lsum_cons, lsum_cons]
    have h1 := h p (List.mem_cons_self)
    have h2 := ih (fun q hq => h q (List.mem_cons_of_mem _ hq))
    omega

/-! ### pigeonhole -/

theorem length_le_of_nodup_lt (W : Nat) : ∀ (l : List Nat), l.Nodup → (∀ k ∈ l, k < W) → l.length ≤ W := by
  induction W with
  | zero =>
    intro l _ h
    cases l with
    | nil => exact Nat.le_refl _
    | cons a t => exact absurd (h a List.mem_cons_self) (Nat.not_lt_zero _)
  | succ W ih =>
    intro l hn h
    have hsplit := List.length_eq_countP_add_countP (fun a => decide (a = W)) (l := l)
    have hc : List.countP (fun a => decide (a = W)) l ≤ 1 := by
      have := List.nodup_iff_count.mp hn W
      simp only [List.count, List.countP_eq_length_filter] at this ⊢
      exact this
    have hr : List.countP (fun a => decide ¬ (decide (a = W)) = true) l ≤ W := by
      rw [List.countP_eq_length_filter]
      apply ih
      · exact List.Pairwise.filter _ hn
      · intro k hk
        have hk' := List.mem_filter.mp hk
        have h1 := h k hk'.1
        have h2 : k ≠ W := by simpa using hk'.2
        omega
    omega

end Uflow.PRecv
