import Uflow.Lemmas.SysLiveMain
import Uflow.Props.C20

/-!
Liveness of the composed system (C02Live), part 8: an acknowledgement carrying the receiver's window
base, when that base lies past every emitted packet, empties the send window.
-/

namespace Uflow.Sys

open Uflow Uflow.Gen Uflow.Codec Uflow.PSend Uflow.PRecv Uflow.Frag

theorem runS_append (ops ops2 : List SOp) : ∀ (s s1 : Sys), runS s ops = .ok s1 →
    runS s (ops ++ ops2) = runS s1 ops2 := by
  induction ops with
  | nil => intro s s1 h; cases h; rfl
  | cons op rest ih =>
    intro s s1 h
    rw [runS] at h
    rw [List.cons_append, runS]
    cases hs : stepS s op with
    | error t => rw [hs] at h; cases h
    | ok s' =>
      rw [hs, bindR_ok] at h
      rw [bindR_ok]
      exact ih s' s1 h

/-- `acknowledge`'s loop towards the sender's own `next_id` pops the whole send window. -/
theorem ackLoop_drain : ∀ (fuel : Nat) (s : PSend.State) (rb : Nat), PSend.Inv s →
    s.chanParent.length = 64 → (∀ e ∈ s.win, e.channelId < 64) → s.baseId < 2^20 →
    s.win.length < 2^20 → rb = (s.baseId + s.win.length) % 2^20 → s.win.length < fuel →
    ∃ s', ackLoop fuel s rb = .ok s' ∧ s'.win = [] ∧ s'.queue = s.queue ∧ s'.alloc = 0 ∧
      s'.totalSize = qBytes s.queue ∧ s'.baseId = rb ∧ s'.nextId = s.nextId ∧
      s'.windowSize = s.windowSize ∧ s'.maxAlloc = s.maxAlloc := by
  intro fuel
  induction fuel with
  | zero => intro s rb _ _ _ _ _ _ hf; exact absurd hf (Nat.not_lt_zero _)
  | succ n ih =>
    intro s rb hinv hcl hch hb hlen hrb hf
    obtain ⟨i1, i2⟩ := hinv
    rw [ackLoop]
    by_cases heq : s.baseId = rb
    · rw [if_pos heq]
      have hz : s.win.length = 0 := by omega
      have hnil : s.win = [] := List.eq_nil_of_length_eq_zero hz
      refine ⟨s, rfl, hnil, rfl, ?_, ?_, heq, rfl, rfl, rfl⟩
      · rw [i2, hnil]; rfl
      · rw [i1, hnil]; simp [wBytes]
    · rw [if_neg heq]
      cases hw : s.win with
      | nil =>
        exfalso
        rw [hw] at hrb
        simp only [List.length_nil, Nat.add_zero] at hrb
        omega
      | cons e rest =>
        simp only
        have hemem : e ∈ s.win := by rw [hw]; exact List.mem_cons_self
        have hec := hch e hemem
        have hcp : e.channelId < s.chanParent.length := by omega
        rw [List.getElem?_eq_getElem hcp]
        simp only
        rw [hw] at i1 i2 hlen hrb hf
        simp only [wBytes, wAlloc, List.map_cons, List.sum_cons, List.length_cons] at i1 i2 hlen hrb hf
        rw [if_neg (by omega), if_neg (by omega)]
        obtain ⟨s', h1, h2, h3, h4, h5, h6, h7, h8, h9⟩ := ih
          ({ s with
            windowParentId := if s.windowParentId = some s.baseId then none else s.windowParentId,
            chanParent := if s.chanParent[e.channelId] = some s.baseId then s.chanParent.set e.channelId none
              else s.chanParent,
            alloc := s.alloc - e.allocSize,
            totalSize := s.totalSize - e.packet.data.length,
            win := rest,
            baseId := pidAdd s.baseId 1 } : PSend.State) rb
          ⟨by simp only [wBytes]; omega, by simp only [wAlloc]; omega⟩
          (by simp only; split
              · rw [List.length_set]; exact hcl
              · exact hcl)
          (fun x hx => hch x (by rw [hw]; exact List.mem_cons_of_mem _ hx))
          (PRecv.pidAdd_lt _ _) (by simp only; omega)
          (by simp only [pidAdd, PACKET_ID_SPAN]; omega) (by simp only; omega)
        exact ⟨s', h1, h2, h3, h4, h5, h6, h7, h8, h9⟩

/-- `acknowledge(next_id)`: the send window is emptied and the counters drop to what the send queue
accounts for. -/
theorem acknowledge_drain (s : PSend.State) (rb : Nat) (hinv : PSend.Inv s)
    (hcl : s.chanParent.length = 64) (hch : ∀ e ∈ s.win, e.channelId < 64) (hb : s.baseId < 2^20)
    (hlen : s.win.length < 2^20) (hrb : rb = (s.baseId + s.win.length) % 2^20)
    (hspan : pidSub s.nextId s.baseId = s.win.length) :
    ∃ s', acknowledge s rb = .ok s' ∧ s'.win = [] ∧ s'.queue = s.queue ∧ s'.alloc = 0 ∧
      s'.totalSize = qBytes s.queue ∧ s'.baseId = rb ∧ s'.nextId = s.nextId ∧
      s'.windowSize = s.windowSize ∧ s'.maxAlloc = s.maxAlloc := by
  unfold acknowledge
  have hrblt : rb < 2^20 := by omega
  rw [if_neg (by simp only [PACKET_ID_SPAN]; omega)]
  simp only
  have hd : pidSub rb s.baseId = s.win.length := by
    rw [hrb]; simp only [pidSub, PACKET_ID_SPAN]; omega
  rw [hd, hspan, if_neg (by omega)]
  exact ackLoop_drain _ s rb hinv hcl hch hb hlen hrb (by omega)

/-- The channels of the send window entries are valid. -/
theorem win_chan_lt {b0 w : Nat} {s : PSend.State} {h : Hist} (hi : HInv b0 w s h) :
    ∀ e ∈ s.win, e.channelId < 64 := by
  obtain ⟨old, wl, wi⟩ := hi.win
  intro e he
  have hm : e.channelId ∈ s.win.map (·.channelId) := List.mem_map.mpr ⟨e, he, rfl⟩
  rw [wi.chans] at hm
  obtain ⟨x, hx, hxe⟩ := List.mem_map.mp hm
  have hxm : x ∈ h.emitted := by rw [wi.em_eq]; exact List.mem_append.mpr (Or.inr hx)
  obtain ⟨j, hjlt, hj⟩ := List.mem_iff_getElem.mp hxm
  have := (hi.ids j x (by rw [List.getElem?_eq_getElem hjlt, hj])).2.2
  omega

/-- **The acknowledgement of the receiver's newest base, when that base lies past every emitted
packet**: the step is not refused (`AckFresh`), does not trap, empties the send window, and brings the
allocation counter to 0 and `send_buffer_size` to the bytes still in the send queue. -/
theorem ack_newest {b0 w W M : Nat} (hw : w ≤ 2^16) {s : Sys} (h : SInv b0 w W M s)
    (hacc : PSend.Inv s.snd)
    (k : Nat) (rb : Nat) (hk : s.seen[k]? = some (s.hist.emitted.length, rb)) :
    AckFresh s s.hist.emitted.length ∧
    ∃ s', stepS s (.ack k) = .ok s' ∧ s'.snd.win = [] ∧ s'.snd.queue = s.snd.queue ∧ s'.snd.alloc = 0 ∧
      s'.snd.totalSize = qBytes s.snd.queue ∧ s'.snd.baseId = s.snd.nextId ∧ s'.hist = s.hist ∧
      s'.rcv = s.rcv ∧ s'.pend = s.pend ∧ s'.net = s.net ∧ s'.seen = s.seen := by
  obtain ⟨w1, w2, w3, w4, w5⟩ := hinv_win h.snd.hinv (by omega : w < 2^20)
  have hfresh : AckFresh s s.hist.emitted.length := by
    unfold AckFresh
    rw [w4]; omega
  refine ⟨hfresh, ?_⟩
  obtain ⟨-, hrb⟩ := h.seen _ _ (List.mem_of_getElem? hk)
  have hblt : s.snd.baseId < 2^20 := by rw [w3]; exact PRecv.pidAdd_lt _ _
  have hrb' : rb = (s.snd.baseId + s.snd.win.length) % 2^20 := by
    rw [hrb, w3]
    simp only [pidAdd, PACKET_ID_SPAN]
    omega
  obtain ⟨s1, ha, a1, a2, a3, a4, a5, a6, a7, a8⟩ := acknowledge_drain s.snd rb hacc h.snd.hinv.clen
    (win_chan_lt h.snd.hinv) hblt (by omega) hrb' w5
  simp only [stepS, hk]
  rw [if_pos hfresh]
  have hst : stepH s.snd s.hist (.ack rb) = .ok (s1, s.hist) := by simp only [stepH, ha]
  rw [hst, bindR_ok]
  refine ⟨_, rfl, a1, a2, a3, a4, ?_, rfl, rfl, rfl, rfl, rfl⟩
  show s1.baseId = s.snd.nextId
  rw [a5, hrb, h.snd.hinv.nid, pidAdd_eq_mod]

end Uflow.Sys
