import Uflow.Lemmas.HcMemEpSrv
import Uflow.Lemmas.EndpointClientStream

/-!
C06 (endpoints), part 3: the same for the client — it creates its half connection with
`hcConfig c.ep …` and its endpoint configuration never changes.
-/

namespace Uflow.EpMem

open Uflow Uflow.Gen Uflow.Codec Uflow.HalfConn Uflow.Endpoint Uflow.EpNoTrap

variable {H : Type} {hc : HC H} {n' : Config → Nat → H} {A : Nat}

theorem cHandleFrame_congr (hn : NewAgrees hc n' A) (c : Client H) (hA : c.ep.maxReceiveAlloc = A)
    (f : Frame) (nowMs nowNs : Nat) :
    c.handleFrame { hc with new := n' } f nowMs nowNs = c.handleFrame hc f nowMs nowNs := by
  cases f with
  | synAck nonceAck nonce maxRecvRate x maxRecvAlloc =>
    unfold Client.handleFrame
    simp only []
    cases c.state with
    | pending ln req rt rc sends =>
      simp only []
      rw [hn c.ep ln nonce maxRecvRate maxRecvAlloc nowNs hA]
    | active _ _ _ _ => rfl
    | closing _ _ _ => rfl
    | closed _ => rfl
    | fin => rfl
  | syn v n r p a => rfl
  | hsAck _ => rfl
  | hsError _ _ => rfl
  | disconnect => rfl
  | disconnectAck => rfl
  | data _ _ _ => rfl
  | sync _ _ => rfl
  | ack _ _ _ => rfl

theorem arrivalsPhase_congr (hn : NewAgrees hc n' A) (c : Client H) (hA : c.ep.maxReceiveAlloc = A)
    (nowMs nowNs : Nat) (arrivals : List (List Nat)) :
    c.arrivalsPhase { hc with new := n' } nowMs nowNs arrivals = c.arrivalsPhase hc nowMs nowNs arrivals := by
  unfold Client.arrivalsPhase
  refine foldlM_congr_inv (fun acc : Client H × List (List Nat) => acc.1.ep.maxReceiveAlloc = A)
    _ _ ?_ ?_ arrivals (c, []) hA
  · intro acc a hacc
    unfold Client.frameStep
    cases decode (a.take MAX_FRAME_SIZE) with
    | none => rfl
    | some f =>
      simp only []
      rw [cHandleFrame_congr hn acc.1 hacc]
  · intro acc a acc' hacc hr
    unfold Client.frameStep at hr
    cases hd : decode (a.take MAX_FRAME_SIZE) with
    | none =>
      rw [hd] at hr
      simp only [Except.ok.injEq] at hr
      subst hr; exact hacc
    | some f =>
      rw [hd] at hr
      simp only [] at hr
      cases hf : acc.1.handleFrame hc f nowMs nowNs with
      | error t => rw [hf] at hr; cases hr
      | ok v =>
        obtain ⟨c1, out1⟩ := v
        rw [hf] at hr
        simp only [Except.ok.injEq] at hr
        subst hr
        show c1.ep.maxReceiveAlloc = A
        rw [(Client.handleFrame_CTr hc acc.1 c1 f nowMs nowNs out1 hf).1]; exact hacc

theorem cFlush_congr (hc : HC H) (n' : Config → Nat → H) :
    @Client.flush H { hc with new := n' } = @Client.flush H hc := rfl

theorem cStepPhase_congr (hc : HC H) (n' : Config → Nat → H) :
    @Client.stepPhase H { hc with new := n' } = @Client.stepPhase H hc := rfl

theorem cFlush_ep (hc : HC H) (c c1 : Client H) (s1 : List (List Nat)) (h : c.flush hc = .ok (c1, s1)) :
    c1.ep = c.ep := by
  unfold Client.flush at h
  split at h
  · split at h
    · cases h
    · simp only [Except.ok.injEq, Prod.mk.injEq] at h
      obtain ⟨rfl, _⟩ := h
      rfl
  · simp only [Except.ok.injEq, Prod.mk.injEq] at h
    obtain ⟨rfl, _⟩ := h
    rfl

theorem cStep_congr (hn : NewAgrees hc n' A) (c : Client H) (hA : c.ep.maxReceiveAlloc = A)
    (nowNs : Nat) (arrivals : List (List Nat)) :
    c.step { hc with new := n' } nowNs arrivals = c.step hc nowNs arrivals := by
  rw [Client.step_eq, Client.step_eq, cFlush_congr, cStepPhase_congr]
  cases hfl : c.flush hc with
  | error t => rfl
  | ok v =>
    obtain ⟨c1, s1⟩ := v
    simp only []
    rw [arrivalsPhase_congr hn c1 (by rw [cFlush_ep hc c c1 s1 hfl]; exact hA)]

theorem cApply_congr (hn : NewAgrees hc n' A) (c : Client H) (hA : c.ep.maxReceiveAlloc = A)
    (op : COp) : c.apply { hc with new := n' } op = c.apply hc op := by
  cases op with
  | step n a => exact cStep_congr hn c hA n a
  | send d ch m => rfl
  | disconnect m => rfl
  | flush => rfl

/-- Runs of a client with `max_receive_alloc = A` under `hc`, given that they do not trap and keep an
invariant under the pinned implementation. -/
theorem cRun_congr {Inv : H → Prop} {last : H → Nat} (hn : NewAgrees hc n' A)
    (hok : HCOk ({ hc with new := n' } : HC H) Inv last) (ops : List COp) :
    ∀ {T : Nat} {c : Client H}, CInv Inv last T c → c.ep.maxReceiveAlloc = A → copsOk T ops = true →
      ∃ c' sent evs, Client.run hc c ops = .ok (c', sent, evs) ∧ CInv Inv last (copsTime T ops) c' ∧
        c'.ep = c.ep := by
  induction ops with
  | nil => intro T c hi _ _; exact ⟨c, [], [], rfl, hi, rfl⟩
  | cons op rest ih =>
    intro T c hi hA hop
    simp only [copsOk, Bool.and_eq_true] at hop
    obtain ⟨c1, sent1, evs1, h1, i1⟩ := cli_apply_ok hok hi op hop.1
    rw [cApply_congr hn c hA op] at h1
    have e1 := (Client.apply_same hc c c1 op sent1 evs1 h1).1
    obtain ⟨c2, sent2, evs2, h2, i2, e2⟩ := ih i1 (by rw [e1]; exact hA) hop.2
    exact ⟨c2, sent1 ++ sent2, evs1 ++ evs2, by simp only [Client.run, h1, h2], i2, e2.trans e1⟩

end Uflow.EpMem
