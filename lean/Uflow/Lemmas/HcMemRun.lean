import Uflow.Lemmas.HcMemEmit
import Uflow.Lemmas.HcSysInv
import Uflow.Lemmas.HcInvRun
import Uflow.Lemmas.AckQWitness
import Uflow.Lemmas.AckQInv
import Uflow.Lemmas.PSendHist

/-!
C06 (half connection), part 2: every event of a half connection acts on the packet receiver `pr`,
on the frame acknowledgement queue `aq` and on the packet sender `ps` only through the operations of
these components; hence the components of a half-connection run are component runs.
-/

namespace Uflow.HcMem

open Uflow Uflow.Gen Uflow.Codec Uflow.HalfConn Uflow.HcFrame Uflow.Credit
open Uflow.HcInv (runEvs)
open Uflow.HcSys (Emits FragSteps)
open Uflow.Rate (FloatOps)
open Uflow.Props.C20 (Op stepOp)

variable {F : Type}

/-! ### concatenation of component runs -/

theorem prun_append (s s1 s2 : PRecv.State) (a b : List PRecv.Op) (h1 : PRecv.run s a = .ok s1)
    (h2 : PRecv.run s1 b = .ok s2) : PRecv.run s (a ++ b) = .ok s2 := by
  induction a generalizing s with
  | nil => cases h1; exact h2
  | cons op rest ih =>
    rw [List.cons_append, PRecv.run]
    rw [PRecv.run] at h1
    cases hs : PRecv.stepOp s op with
    | error t => rw [hs] at h1; cases h1
    | ok s' => rw [hs] at h1; exact ih s' h1

theorem prun_dgs (dgs : List Datagram) (s s' : PRecv.State)
    (h : dgs.foldlM PRecv.handleDatagram s = .ok s') : PRecv.run s (dgs.map .dg) = .ok s' := by
  induction dgs generalizing s with
  | nil =>
    simp only [List.foldlM_nil, pure, Except.pure, Except.ok.injEq] at h
    subst h; rfl
  | cons d dgs ih =>
    rw [List.foldlM_cons] at h
    rw [List.map_cons, PRecv.run]
    cases hd : PRecv.handleDatagram s d with
    | error t => rw [hd] at h; simp only [bind, Except.bind] at h; cases h
    | ok s1 =>
      rw [hd] at h
      simp only [bind, Except.bind] at h
      have hs : PRecv.stepOp s (.dg d) = .ok s1 := hd
      rw [hs]
      exact ih s1 h

theorem srun_append (s s1 s2 : PSend.State) (a b : List Op) (h1 : Props.C20.run s a = .ok s1)
    (h2 : Props.C20.run s1 b = .ok s2) : Props.C20.run s (a ++ b) = .ok s2 := by
  induction a generalizing s with
  | nil => cases h1; exact h2
  | cons op rest ih =>
    rw [List.cons_append, Props.C20.run]
    rw [Props.C20.run] at h1
    cases hs : stepOp s op with
    | error t => rw [hs] at h1; cases h1
    | ok s' => rw [hs] at h1; exact ih s' h1

theorem srun_single (s s' : PSend.State) (op : Op) (h : stepOp s op = .ok s') : Props.C20.run s [op] = .ok s' := by
  simp only [Props.C20.run, h]

theorem srun_fragSteps {a b : PSend.State} (h : FragSteps a b) : ∃ sops, Props.C20.run a sops = .ok b := by
  induction h with
  | refl => exact ⟨[], rfl⟩
  | frag uid fid _ ih =>
    obtain ⟨sops, hs⟩ := ih
    exact ⟨sops ++ [.ackFrag uid fid], srun_append _ _ _ _ _ hs (srun_single _ _ _ rfl)⟩

theorem srun_emits {f : Nat} {a b : PSend.State} {l : List PSend.Pending} (h : Emits f a b l) :
    ∃ sops, Props.C20.run a sops = .ok b := by
  induction h with
  | nil => exact ⟨[], rfl⟩
  | cons he _ ih =>
    obtain ⟨sops, hs⟩ := ih
    refine ⟨.emit f :: sops, ?_⟩
    rw [Props.C20.run]
    simp only [stepOp, he, Except.map]
    exact hs

/-! ### the ack queue under the operations that do not emit -/

theorem foldDatagrams_aq (dgs : List Datagram) (s s' : State F)
    (h : dgs.foldlM (fun (s : State F) d =>
      (PRecv.handleDatagram s.pr d).map fun pr => { s with pr := pr }) s = .ok s') :
    s'.aq = s.aq := by
  induction dgs generalizing s with
  | nil =>
    simp only [List.foldlM_nil, pure, Except.pure, Except.ok.injEq] at h
    subst h; rfl
  | cons d dgs ih =>
    rw [List.foldlM_cons] at h
    generalize PRecv.handleDatagram s.pr d = r at h
    cases r with
    | error t => simp only [Except.map, bind, Except.bind] at h; cases h
    | ok pr =>
      simp only [Except.map, bind, Except.bind] at h
      have := ih _ h
      exact this

theorem dataFrameCore_aq (s s' : State F) (b : Bool) (aq' : FrameQ.AckQ) (dgs : List Datagram)
    (h : dataFrameCore s b aq' dgs = .ok s') : s'.aq = if b then aq' else s.aq := by
  unfold dataFrameCore at h
  cases b with
  | false =>
    simp only [Bool.false_eq_true, if_false, Except.ok.injEq] at h ⊢
    subst h; rfl
  | true =>
    simp only [if_true] at h ⊢
    exact foldDatagrams_aq dgs _ s' h

theorem qG4_neg (qc : FrameQ.AckQ → Nat → Bool) (qd) (qa : FrameQ.AckQ → Nat → FrameQ.AckQ)
    (d : Nat → Nat → Nat) (q : FrameQ.AckQ) (id : Nat) (nonce : Bool) (h : ¬ qc q id = true) :
    AckQB.qG4 qc qd qa d q id nonce = q := by
  unfold AckQB.qG4; rw [if_neg h]

theorem markSeen_of_not_contains (q : FrameQ.AckQ) (id : Nat) (nonce : Bool)
    (h : q.contains id = false) : q.markSeen id nonce = q := by
  rw [AckQB.qmarkSeen_eq_G]
  exact qG4_neg _ _ _ _ q id nonce (by rw [h]; exact Bool.false_ne_true)

/-- `handle_data_frame` is `mark_seen` on the ack queue (a no-op for a frame outside the window). -/
theorem handleDataFrame_aq (s s' : State F) (id : Nat) (nonce : Bool) (dgs : List Datagram)
    (h : handleDataFrame s id nonce dgs = .ok s') : s'.aq = s.aq.markSeen id nonce := by
  rw [handleDataFrame_eq] at h
  have := dataFrameCore_aq s s' _ _ dgs h
  rw [this]
  cases hc : s.aq.contains id with
  | true => rw [if_pos rfl]
  | false =>
    rw [if_neg Bool.false_ne_true]
    exact (markSeen_of_not_contains s.aq id nonce hc).symm

def syncQ (g : Nat → FrameQ.AckQ) (q : FrameQ.AckQ) : Option Nat → FrameQ.AckQ
  | some id => g id
  | none => q

/-- What a sync frame does to the ack queue. -/
def resyncQ (q : FrameQ.AckQ) (nf : Option Nat) : FrameQ.AckQ :=
  syncQ (fun id => q.resynchronize id) q nf

theorem run_nil (q : FrameQ.AckQ) : AckQB.run q [] = q := rfl

theorem run_single (q : FrameQ.AckQ) (op : AckQB.Op) : AckQB.run q [op] = AckQB.step q op := by
  rw [AckQB.run_cons, run_nil]

theorem step_resync (q : FrameQ.AckQ) (id : Nat) : AckQB.step q (.resync id) = q.resynchronize id := rfl

theorem step_markSeen (q : FrameQ.AckQ) (id : Nat) (n : Bool) :
    AckQB.step q (.markSeen id n) = q.markSeen id n := rfl

theorem resyncQ_none (q : FrameQ.AckQ) : resyncQ q none = q := by
  simp only [resyncQ, syncQ]

theorem resyncQ_some (q : FrameQ.AckQ) (id : Nat) : resyncQ q (some id) = AckQB.run q [.resync id] := by
  rw [run_single, step_resync]
  unfold resyncQ
  rw [syncQ]

theorem syncFrameCore_aq (s s' : State F) (g : Nat → FrameQ.AckQ) (nf np : Option Nat)
    (h : syncFrameCore s g nf np = .ok s') :
    s'.aq = syncQ g s.aq nf := by
  simp only [syncFrameCore] at h
  cases nf with
  | none =>
    cases np with
    | none =>
      simp only [Except.map, Except.ok.injEq] at h
      subst h; rfl
    | some pid =>
      simp only [Except.map] at h
      generalize PRecv.resynchronize s.pr pid = r at h
      cases r with
      | error t => cases h
      | ok pr =>
        simp only [Except.ok.injEq] at h
        subst h; rfl
  | some fid =>
    simp only at h
    show s'.aq = g fid
    generalize g fid = aq' at h ⊢
    cases np with
    | none =>
      simp only [Except.map, Except.ok.injEq] at h
      subst h; rfl
    | some pid =>
      simp only [Except.map] at h
      generalize PRecv.resynchronize s.pr pid = r at h
      cases r with
      | error t => cases h
      | ok pr =>
        simp only [Except.ok.injEq] at h
        subst h; rfl

theorem handleSyncFrame_aq (s s' : State F) (nf np : Option Nat)
    (h : handleSyncFrame s nf np = .ok s') : s'.aq = resyncQ s.aq nf := by
  rw [handleSyncFrame_eq] at h
  unfold resyncQ
  exact syncFrameCore_aq s s' _ nf np h

theorem ackP_aq (s s' : State F) (fb pb : Nat) (acks : List AckGroup)
    (ag : FrameQ.State → AckGroup → Option Nat → R (FrameQ.State × List (Nat × Nat)))
    (adv : FrameQ.State → Nat → Option Nat → R FrameQ.State)
    (pack : PSend.State → Nat → R PSend.State)
    (h : ackP s fb pb acks ag adv pack = .ok s') : s'.aq = s.aq := by
  unfold ackP at h
  simp only at h
  generalize hr : (List.foldlM _ s acks : R (State F)) = r at h
  cases r with
  | error t => cases h
  | ok s1 =>
    simp only at h
    have h1 : s1.aq = s.aq := by
      refine foldlM_rel _ (fun a b : State F => b.aq = a.aq) (fun a => rfl)
        (fun a b c h1 h2 => h2.trans h1) ?_ acks s s1 hr
      intro a g a' ha
      generalize ag a.fq g _ = r at ha
      cases r with
      | error t => cases ha
      | ok v =>
        obtain ⟨fq, frs⟩ := v
        simp only [Except.ok.injEq] at ha
        subst ha
        rfl
    generalize adv s1.fq fb _ = r2 at h
    generalize pack s1.ps pb = r3 at h
    cases r2 with
    | error t => cases h
    | ok fq =>
      cases r3 with
      | error t => cases h
      | ok ps2 =>
        simp only [Except.ok.injEq] at h
        subst h
        exact h1

theorem handleAckFrame_aq (s s' : State F) (fb pb : Nat) (acks : List AckGroup)
    (h : handleAckFrame s fb pb acks = .ok s') : s'.aq = s.aq := by
  rw [handleAckFrame_eq] at h
  exact ackP_aq s s' fb pb acks _ _ _ h

theorem fill_aq (ops : FloatOps F) (s : State F) (now : Nat) : (fillFlushAlloc ops s now).aq = s.aq := by
  cases h : s.timeLastFlushed <;> simp [fillFlushAlloc, h]

theorem stepP_aq (ops : FloatOps F) (s s' : State F) (now nowMs : Nat) (w : Nat → Nat → Nat)
    (ff : FrameQ.State → Nat → Option Nat → R FrameQ.State)
    (gf : FrameQ.State → Nat → R (FrameQ.State × Option (Rate.Feedback F)))
    (rs : Rate.State F → Nat → Option (Rate.Feedback F) → R (Rate.State F × Option F))
    (rl : FrameQ.State → F → R FrameQ.State)
    (h : HcFrame.stepP ops s now nowMs w ff gf rs rl = .ok s') : s'.aq = s.aq := by
  unfold HcFrame.stepP at h
  simp only at h
  generalize ff s.fq _ _ = r1 at h
  cases r1 with
  | error t => cases h
  | ok fq =>
    simp only at h
    generalize gf _ _ = r2 at h
    cases r2 with
    | error t => cases h
    | ok v =>
      obtain ⟨fq2, fbk⟩ := v
      simp only at h
      generalize rs _ _ _ = r3 at h
      cases r3 with
      | error t => cases h
      | ok v3 =>
        obtain ⟨rate, reset⟩ := v3
        cases reset with
        | none =>
          simp only [Except.ok.injEq] at h
          subst h
          exact fill_aq ops _ now
        | some p =>
          simp only at h
          generalize rl fq2 p = r4 at h
          cases r4 with
          | error t => cases h
          | ok fq3 =>
            simp only [Except.ok.injEq] at h
            subst h
            exact fill_aq ops _ now

theorem step_aq (ops : FloatOps F) (s s' : State F) (now : Nat) (h : step ops s now = .ok s') :
    s'.aq = s.aq := by
  rw [step_eq] at h
  exact stepP_aq ops s s' now _ _ _ _ _ _ h

theorem receive_aq (s s' : State F) (out : List (List Nat)) (h : receive s = .ok (s', out)) :
    s'.aq = s.aq := by
  simp only [receive] at h
  generalize PRecv.receive s.pr = r at h
  cases r with
  | error t => cases h
  | ok v =>
    obtain ⟨pr, o⟩ := v
    simp only [Except.ok.injEq, Prod.mk.injEq] at h
    obtain ⟨rfl, _⟩ := h
    rfl

/-! ### one event -/

/-- The receiver operations an event performs (in a state `s`): the datagrams of a data frame that
passes the frame window test, `resynchronize` for a sync frame carrying a packet id, `receive`. -/
def prOps (s : State F) : Ev → List PRecv.Op
  | .dataFrame id _ dgs => if s.aq.contains id then dgs.map .dg else []
  | .syncFrame _ (some id) => [.resync id]
  | .receive => [.recv]
  | _ => []

/-- Whether the event is a sync frame carrying a frame id (the only events that `resynchronize` the ack
queue). -/
def isFrameSync : Ev → Bool
  | .syncFrame (some _) _ => true
  | _ => false

/-- Whether the event is a sync frame. -/
def isSync : Ev → Bool
  | .syncFrame _ _ => true
  | _ => false

theorem isFrameSync_le (evs : List Ev) : evs.countP isFrameSync ≤ evs.countP isSync := by
  apply List.countP_mono_left
  intro ev _ h
  cases ev with
  | syncFrame nf np => rfl
  | _ => cases h

theorem exec_pr (ops : FloatOps F) (s s' : State F) (ev : Ev) (out : List (List Nat))
    (h : exec ops s ev = .ok (s', out)) : PRecv.run s.pr (prOps s ev) = .ok s'.pr := by
  cases ev with
  | step now =>
    have hx : (HalfConn.step ops s now).map (fun s' => (s', ([] : List (List Nat)))) = .ok (s', out) := h
    cases hs : HalfConn.step ops s now with
    | error t => rw [hs] at hx; cases hx
    | ok s1 =>
      rw [hs] at hx
      simp only [Except.map, Except.ok.injEq, Prod.mk.injEq] at hx
      obtain ⟨rfl, _⟩ := hx
      rw [(HcSys.step_spec ops s s1 now hs).2]; rfl
  | flush =>
    have hx : HalfConn.flush s = .ok (s', out) := h
    rw [(flush_proj s s' out hx).1]; rfl
  | send d c m =>
    have hx : (Except.ok (HalfConn.send s d c m, ([] : List (List Nat))) : R _) = .ok (s', out) := h
    simp only [Except.ok.injEq, Prod.mk.injEq] at hx
    obtain ⟨rfl, _⟩ := hx
    rfl
  | receive =>
    have hx : (HalfConn.receive s).map (fun r => (r.1, ([] : List (List Nat)))) = .ok (s', out) := h
    cases hs : HalfConn.receive s with
    | error t => rw [hs] at hx; cases hx
    | ok v =>
      obtain ⟨s1, pk⟩ := v
      rw [hs] at hx
      simp only [Except.map, Except.ok.injEq, Prod.mk.injEq] at hx
      obtain ⟨rfl, _⟩ := hx
      have := (HcSys.receive_spec s s1 pk hs).2
      show PRecv.run s.pr [.recv] = .ok s1.pr
      simp only [PRecv.run, PRecv.stepOp, this, Except.map]
  | dataFrame id nonce dgs =>
    have hx : (handleDataFrame s id nonce dgs).map (fun s' => (s', ([] : List (List Nat)))) = .ok (s', out) := h
    cases hs : handleDataFrame s id nonce dgs with
    | error t => rw [hs] at hx; cases hx
    | ok s1 =>
      rw [hs] at hx
      simp only [Except.map, Except.ok.injEq, Prod.mk.injEq] at hx
      obtain ⟨rfl, _⟩ := hx
      have := (HcSys.handleDataFrame_spec s s1 id nonce dgs hs).2
      show PRecv.run s.pr (if s.aq.contains id then dgs.map .dg else []) = .ok s1.pr
      cases hc : s.aq.contains id with
      | true =>
        rw [hc] at this
        simp only [if_true] at this ⊢
        exact prun_dgs dgs _ _ this
      | false =>
        rw [hc] at this
        simp only [Bool.false_eq_true, if_false, List.foldlM_nil, pure, Except.pure, Except.ok.injEq] at this ⊢
        rw [this]; rfl
  | syncFrame nf np =>
    have hx : (handleSyncFrame s nf np).map (fun s' => (s', ([] : List (List Nat)))) = .ok (s', out) := h
    cases hs : handleSyncFrame s nf np with
    | error t => rw [hs] at hx; cases hx
    | ok s1 =>
      rw [hs] at hx
      simp only [Except.map, Except.ok.injEq, Prod.mk.injEq] at hx
      obtain ⟨rfl, _⟩ := hx
      have := (HcSys.handleSyncFrame_spec s s1 nf np hs).2
      cases np with
      | none =>
        simp only [HcSys.resyncTo, Except.ok.injEq] at this
        show PRecv.run s.pr [] = .ok s1.pr
        rw [this]; rfl
      | some pid =>
        simp only [HcSys.resyncTo] at this
        show PRecv.run s.pr [.resync pid] = .ok s1.pr
        simp only [PRecv.run, PRecv.stepOp, this]
  | ackFrame fb pb acks =>
    have hx : (handleAckFrame s fb pb acks).map (fun s' => (s', ([] : List (List Nat)))) = .ok (s', out) := h
    cases hs : handleAckFrame s fb pb acks with
    | error t => rw [hs] at hx; cases hx
    | ok s1 =>
      rw [hs] at hx
      simp only [Except.map, Except.ok.injEq, Prod.mk.injEq] at hx
      obtain ⟨rfl, _⟩ := hx
      rw [(HcSys.handleAckFrame_spec s s1 fb pb acks hs).1]; rfl

theorem exec_aq (ops : FloatOps F) (s s' : State F) (ev : Ev) (out : List (List Nat))
    (h : exec ops s ev = .ok (s', out)) :
    ∃ aops, s'.aq = AckQB.run s.aq aops ∧
      aops.countP AckQB.isResync = if isFrameSync ev then 1 else 0 := by
  cases ev with
  | step now =>
    have hx : (HalfConn.step ops s now).map (fun s' => (s', ([] : List (List Nat)))) = .ok (s', out) := h
    cases hs : HalfConn.step ops s now with
    | error t => rw [hs] at hx; cases hx
    | ok s1 =>
      rw [hs] at hx
      simp only [Except.map, Except.ok.injEq, Prod.mk.injEq] at hx
      obtain ⟨rfl, _⟩ := hx
      exact ⟨[], step_aq ops s s1 now hs, rfl⟩
  | flush =>
    have hx : HalfConn.flush s = .ok (s', out) := h
    obtain ⟨n, hn⟩ := (flush_proj s s' out hx).2.1
    refine ⟨_, hn, ?_⟩
    have : (List.replicate n AckQB.Op.pop).countP AckQB.isResync = 0 := by
      rw [List.countP_eq_zero]
      intro x hx
      rw [List.eq_of_mem_replicate hx]
      exact Bool.false_ne_true
    rw [this]; rfl
  | send d c m =>
    have hx : (Except.ok (HalfConn.send s d c m, ([] : List (List Nat))) : R _) = .ok (s', out) := h
    simp only [Except.ok.injEq, Prod.mk.injEq] at hx
    obtain ⟨rfl, _⟩ := hx
    exact ⟨[], rfl, rfl⟩
  | receive =>
    have hx : (HalfConn.receive s).map (fun r => (r.1, ([] : List (List Nat)))) = .ok (s', out) := h
    cases hs : HalfConn.receive s with
    | error t => rw [hs] at hx; cases hx
    | ok v =>
      obtain ⟨s1, pk⟩ := v
      rw [hs] at hx
      simp only [Except.map, Except.ok.injEq, Prod.mk.injEq] at hx
      obtain ⟨rfl, _⟩ := hx
      exact ⟨[], receive_aq s s1 pk hs, rfl⟩
  | dataFrame id nonce dgs =>
    have hx : (handleDataFrame s id nonce dgs).map (fun s' => (s', ([] : List (List Nat)))) = .ok (s', out) := h
    cases hs : handleDataFrame s id nonce dgs with
    | error t => rw [hs] at hx; cases hx
    | ok s1 =>
      rw [hs] at hx
      simp only [Except.map, Except.ok.injEq, Prod.mk.injEq] at hx
      obtain ⟨rfl, _⟩ := hx
      refine ⟨[.markSeen id nonce], ?_, rfl⟩
      rw [run_single, step_markSeen]
      exact handleDataFrame_aq s s1 id nonce dgs hs
  | syncFrame nf np =>
    have hx : (handleSyncFrame s nf np).map (fun s' => (s', ([] : List (List Nat)))) = .ok (s', out) := h
    cases hs : handleSyncFrame s nf np with
    | error t => rw [hs] at hx; cases hx
    | ok s1 =>
      rw [hs] at hx
      simp only [Except.map, Except.ok.injEq, Prod.mk.injEq] at hx
      obtain ⟨rfl, _⟩ := hx
      have := handleSyncFrame_aq s s1 nf np hs
      cases nf with
      | none => rw [resyncQ_none] at this; exact ⟨[], this, rfl⟩
      | some fid => rw [resyncQ_some] at this; exact ⟨[.resync fid], this, rfl⟩
  | ackFrame fb pb acks =>
    have hx : (handleAckFrame s fb pb acks).map (fun s' => (s', ([] : List (List Nat)))) = .ok (s', out) := h
    cases hs : handleAckFrame s fb pb acks with
    | error t => rw [hs] at hx; cases hx
    | ok s1 =>
      rw [hs] at hx
      simp only [Except.map, Except.ok.injEq, Prod.mk.injEq] at hx
      obtain ⟨rfl, _⟩ := hx
      exact ⟨[], handleAckFrame_aq s s1 fb pb acks hs, rfl⟩

theorem exec_ps (ops : FloatOps F) (s s' : State F) (ev : Ev) (out : List (List Nat))
    (h : exec ops s ev = .ok (s', out)) : ∃ sops, Props.C20.run s.ps sops = .ok s'.ps := by
  cases ev with
  | step now =>
    have hx : (HalfConn.step ops s now).map (fun s' => (s', ([] : List (List Nat)))) = .ok (s', out) := h
    cases hs : HalfConn.step ops s now with
    | error t => rw [hs] at hx; cases hx
    | ok s1 =>
      rw [hs] at hx
      simp only [Except.map, Except.ok.injEq, Prod.mk.injEq] at hx
      obtain ⟨rfl, _⟩ := hx
      exact ⟨[], by rw [(HcSys.step_spec ops s s1 now hs).1]; rfl⟩
  | flush =>
    have hx : HalfConn.flush s = .ok (s', out) := h
    obtain ⟨l, hl⟩ := (flush_proj s s' out hx).2.2.2
    exact srun_emits hl
  | send d c m =>
    have hx : (Except.ok (HalfConn.send s d c m, ([] : List (List Nat))) : R _) = .ok (s', out) := h
    simp only [Except.ok.injEq, Prod.mk.injEq] at hx
    obtain ⟨rfl, _⟩ := hx
    exact ⟨[.enq d c m s.flushId], rfl⟩
  | receive =>
    have hx : (HalfConn.receive s).map (fun r => (r.1, ([] : List (List Nat)))) = .ok (s', out) := h
    cases hs : HalfConn.receive s with
    | error t => rw [hs] at hx; cases hx
    | ok v =>
      obtain ⟨s1, pk⟩ := v
      rw [hs] at hx
      simp only [Except.map, Except.ok.injEq, Prod.mk.injEq] at hx
      obtain ⟨rfl, _⟩ := hx
      exact ⟨[], by rw [(HcSys.receive_spec s s1 pk hs).1]; rfl⟩
  | dataFrame id nonce dgs =>
    have hx : (handleDataFrame s id nonce dgs).map (fun s' => (s', ([] : List (List Nat)))) = .ok (s', out) := h
    cases hs : handleDataFrame s id nonce dgs with
    | error t => rw [hs] at hx; cases hx
    | ok s1 =>
      rw [hs] at hx
      simp only [Except.map, Except.ok.injEq, Prod.mk.injEq] at hx
      obtain ⟨rfl, _⟩ := hx
      exact ⟨[], by rw [(HcSys.handleDataFrame_spec s s1 id nonce dgs hs).1]; rfl⟩
  | syncFrame nf np =>
    have hx : (handleSyncFrame s nf np).map (fun s' => (s', ([] : List (List Nat)))) = .ok (s', out) := h
    cases hs : handleSyncFrame s nf np with
    | error t => rw [hs] at hx; cases hx
    | ok s1 =>
      rw [hs] at hx
      simp only [Except.map, Except.ok.injEq, Prod.mk.injEq] at hx
      obtain ⟨rfl, _⟩ := hx
      exact ⟨[], by rw [(HcSys.handleSyncFrame_spec s s1 nf np hs).1]; rfl⟩
  | ackFrame fb pb acks =>
    have hx : (handleAckFrame s fb pb acks).map (fun s' => (s', ([] : List (List Nat)))) = .ok (s', out) := h
    cases hs : handleAckFrame s fb pb acks with
    | error t => rw [hs] at hx; cases hx
    | ok s1 =>
      rw [hs] at hx
      simp only [Except.map, Except.ok.injEq, Prod.mk.injEq] at hx
      obtain ⟨rfl, _⟩ := hx
      obtain ⟨ps1, hfs, hack⟩ := (HcSys.handleAckFrame_spec s s1 fb pb acks hs).2
      obtain ⟨sops, hso⟩ := srun_fragSteps hfs
      exact ⟨sops ++ [.ack pb], srun_append _ _ _ _ _ hso (srun_single _ _ (.ack pb) hack)⟩

/-! ### runs -/

theorem runEvs_cons_ok (ops : FloatOps F) (s s' : State F) (ev : Ev) (rest : List Ev)
    (out : List (List Nat)) (h : runEvs ops s (ev :: rest) = .ok (s', out)) :
    ∃ s1 o1 o2, exec ops s ev = .ok (s1, o1) ∧ runEvs ops s1 rest = .ok (s', o2) := by
  rw [runEvs] at h
  cases he : exec ops s ev with
  | error t => rw [he] at h; cases h
  | ok v =>
    obtain ⟨s1, o1⟩ := v
    rw [he] at h
    simp only [] at h
    cases hr : runEvs ops s1 rest with
    | error t => rw [hr] at h; cases h
    | ok w =>
      obtain ⟨s2, o2⟩ := w
      rw [hr] at h
      simp only [Except.ok.injEq, Prod.mk.injEq] at h
      obtain ⟨rfl, _⟩ := h
      exact ⟨s1, o1, o2, rfl, hr⟩

/-- The packet receiver of a half-connection run is a receiver run. -/
theorem runEvs_pr (ops : FloatOps F) (evs : List Ev) (s s' : State F) (out : List (List Nat))
    (h : runEvs ops s evs = .ok (s', out)) : ∃ rops, PRecv.run s.pr rops = .ok s'.pr := by
  induction evs generalizing s out with
  | nil =>
    simp only [runEvs, Except.ok.injEq, Prod.mk.injEq] at h
    obtain ⟨rfl, _⟩ := h
    exact ⟨[], rfl⟩
  | cons ev rest ih =>
    obtain ⟨s1, o1, o2, he, hr⟩ := runEvs_cons_ok ops s s' ev rest out h
    obtain ⟨r2, h2⟩ := ih s1 o2 hr
    exact ⟨prOps s ev ++ r2, prun_append _ _ _ _ _ (exec_pr ops s s1 ev o1 he) h2⟩

/-- The ack queue of a half-connection run is an ack-queue run, with one `resync` per sync frame
carrying a frame id. -/
theorem runEvs_aq (ops : FloatOps F) (evs : List Ev) (s s' : State F) (out : List (List Nat))
    (h : runEvs ops s evs = .ok (s', out)) :
    ∃ aops, s'.aq = AckQB.run s.aq aops ∧ aops.countP AckQB.isResync = evs.countP isFrameSync := by
  induction evs generalizing s out with
  | nil =>
    simp only [runEvs, Except.ok.injEq, Prod.mk.injEq] at h
    obtain ⟨rfl, _⟩ := h
    exact ⟨[], rfl, rfl⟩
  | cons ev rest ih =>
    obtain ⟨s1, o1, o2, he, hr⟩ := runEvs_cons_ok ops s s' ev rest out h
    obtain ⟨a1, h1, c1⟩ := exec_aq ops s s1 ev o1 he
    obtain ⟨a2, h2, c2⟩ := ih s1 o2 hr
    refine ⟨a1 ++ a2, by rw [AckQB.run_append, ← h1]; exact h2, ?_⟩
    rw [List.countP_append, c1, c2, List.countP_cons]
    omega

/-- The packet sender of a half-connection run is a sender run. -/
theorem runEvs_ps (ops : FloatOps F) (evs : List Ev) (s s' : State F) (out : List (List Nat))
    (h : runEvs ops s evs = .ok (s', out)) : ∃ sops, Props.C20.run s.ps sops = .ok s'.ps := by
  induction evs generalizing s out with
  | nil =>
    simp only [runEvs, Except.ok.injEq, Prod.mk.injEq] at h
    obtain ⟨rfl, _⟩ := h
    exact ⟨[], rfl⟩
  | cons ev rest ih =>
    obtain ⟨s1, o1, o2, he, hr⟩ := runEvs_cons_ok ops s s' ev rest out h
    obtain ⟨a1, h1⟩ := exec_ps ops s s1 ev o1 he
    obtain ⟨a2, h2⟩ := ih s1 o2 hr
    exact ⟨a1 ++ a2, srun_append _ _ _ _ _ h1 h2⟩

/-- A state-only sender run is a sender run with ghost history. -/
theorem runH_of_run (s s' : PSend.State) (hist : PSend.Hist) (sops : List Op)
    (h : Props.C20.run s sops = .ok s') : ∃ h', PSend.runH s hist sops = .ok (s', h') := by
  have := PSend.runH_state s hist sops
  rw [h] at this
  cases hr : PSend.runH s hist sops with
  | error t => rw [hr] at this; cases this
  | ok v =>
    obtain ⟨s2, h2⟩ := v
    rw [hr] at this
    simp only [Except.map, Except.ok.injEq] at this
    subst this
    exact ⟨h2, rfl⟩

end Uflow.HcMem
