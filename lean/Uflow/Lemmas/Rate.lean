import Uflow.Model.Rate

/-!
Helper lemmas for the TFRC sender model (`Uflow/Model/Rate.lean`): an equational normal form of
`handleFeedback` / `nofeedbackExpired` / `step`, facts about the receive-rate set operations,
and the definitions (`RateInv`, `EqnInv`, `Event`, `run`) used by the property files C14 / C03Rate.
-/

namespace Uflow.Rate

open Uflow.Gen

variable {F : Type}

/-! ## arithmetic -/

theorem u32max_val : u32max = 4294967295 := by decide

theorem satMul2_half_le (x : Nat) : satMul2 x / 2 ≤ x := by
  simp only [satMul2, u32max_val]; omega

theorem satMul2_half_le_self (x : Nat) : satMul2 x / 2 ≤ satMul2 x := by omega

theorem satMul2_le_two_mul (x : Nat) : satMul2 x ≤ 2 * x := by
  simp only [satMul2]; omega

theorem satMul2_le_u32max (x : Nat) : satMul2 x ≤ u32max := by
  simp only [satMul2]; omega

/-! ## `setMax`, `replaceMax`, `rateLimitedUpdate`, `lossIncreaseUpdate` -/

theorem setMax_ne_nil {set : List RecvEntry} (h : set ≠ []) : ∃ m, setMax set = .ok m := by
  cases set with
  | nil => exact absurd rfl h
  | cons e rest => exact ⟨_, rfl⟩

theorem ne_nil_of_setMax {set : List RecvEntry} {m : Nat} (h : setMax set = .ok m) : set ≠ [] := by
  cases set with
  | nil => cases h
  | cons e rest => exact List.cons_ne_nil _ _

theorem setMax_error {set : List RecvEntry} {t : Trap} (h : setMax set = .error t) : set = [] := by
  cases set with
  | nil => rfl
  | cons e rest => cases h

theorem setMax_singleton (e : RecvEntry) : setMax [e] = .ok e.value := rfl

/-- `replace_max` cannot trap and always leaves a one-element set holding the returned maximum. -/
theorem replaceMax_ok (set : List RecvEntry) (now recv : Nat) :
    ∃ m, replaceMax set now recv = .ok ([{ value := m, ts := now, isInitial := false }], m) := by
  unfold replaceMax
  cases hf : set.filter (fun e => ¬ e.isInitial) with
  | nil => exact ⟨recv, rfl⟩
  | cons e rest =>
    obtain ⟨m, hm⟩ := setMax_ne_nil (List.cons_ne_nil e rest)
    refine ⟨max m recv, ?_⟩
    simp only [hm]

theorem replaceMax_eq_ok {set : List RecvEntry} {now recv : Nat} {set' : List RecvEntry} {m : Nat}
    (h : replaceMax set now recv = .ok (set', m)) :
    set' = [{ value := m, ts := now, isInitial := false }] := by
  obtain ⟨m', hm'⟩ := replaceMax_ok set now recv
  rw [hm'] at h
  cases h
  rfl

theorem rateLimitedUpdate_eq_ok {set : List RecvEntry} {now recv rtt : Nat} {set' : List RecvEntry}
    {m : Nat} (h : rateLimitedUpdate set now recv rtt = .ok (set', m)) :
    setMax set' = .ok m ∧ (∀ e ∈ set', e.ts ≤ now) ∧ set' ≠ [] := by
  unfold rateLimitedUpdate at h
  simp only [] at h
  split at h
  · cases h
  · rename_i hany
    split at h
    · cases h
    · rename_i m' hm'
      cases h
      refine ⟨hm', ?_, ne_nil_of_setMax hm'⟩
      intro e he
      have he' := (List.mem_filter.mp he).1
      apply Nat.le_of_not_gt
      intro hgt
      exact hany (List.any_eq_true.mpr ⟨e, he', by simpa using hgt⟩)

theorem rateLimitedUpdate_ok {set : List RecvEntry} {now : Nat} (recv rtt : Nat)
    (hts : ∀ e ∈ set, e.ts ≤ now) : ∃ r, rateLimitedUpdate set now recv rtt = .ok r := by
  unfold rateLimitedUpdate
  simp only []
  have hany : ¬ ((set ++ [({ value := recv, ts := now, isInitial := false } : RecvEntry)]).any
      (fun e => decide (e.ts > now)) = true) := by
    intro h
    obtain ⟨e, he, hgt⟩ := List.any_eq_true.mp h
    simp only [decide_eq_true_eq] at hgt
    rcases List.mem_append.mp he with he | he
    · have := hts e he; omega
    · simp only [List.mem_singleton] at he
      subst he
      simp only at hgt
      omega
  rw [if_neg hany]
  have hne : (set ++ [({ value := recv, ts := now, isInitial := false } : RecvEntry)]).filter
      (fun e => decide (now - e.ts ≤ 2 * rtt)) ≠ [] := by
    intro h
    have hmem : ({ value := recv, ts := now, isInitial := false } : RecvEntry) ∈
        (set ++ [({ value := recv, ts := now, isInitial := false } : RecvEntry)]).filter
          (fun e => decide (now - e.ts ≤ 2 * rtt)) := by
      apply List.mem_filter.mpr
      refine ⟨List.mem_append.mpr (Or.inr (List.mem_singleton.mpr rfl)), ?_⟩
      simp
    rw [h] at hmem
    cases hmem
  obtain ⟨m, hm⟩ := setMax_ne_nil hne
  exact ⟨_, by rw [hm]⟩

/-- time running backwards is the only way `rate_limited_update` traps. -/
theorem rateLimitedUpdate_error {set : List RecvEntry} {now recv rtt : Nat} {t : Trap}
    (h : rateLimitedUpdate set now recv rtt = .error t) :
    t = .overflow ∧ ∃ e ∈ set, now < e.ts := by
  by_cases hts : ∀ e ∈ set, e.ts ≤ now
  · obtain ⟨r, hr⟩ := rateLimitedUpdate_ok (set := set) (now := now) recv rtt hts
    rw [hr] at h; cases h
  · have hex : ∃ e ∈ set, now < e.ts := by
      apply Classical.byContradiction
      intro hn
      apply hts
      intro e he
      apply Nat.le_of_not_gt
      intro hgt
      exact hn ⟨e, he, hgt⟩
    refine ⟨?_, hex⟩
    obtain ⟨e, he, hgt⟩ := hex
    unfold rateLimitedUpdate at h
    simp only [] at h
    have hany : (set ++ [({ value := recv, ts := now, isInitial := false } : RecvEntry)]).any
        (fun e => decide (e.ts > now)) = true := by
      apply List.any_eq_true.mpr
      exact ⟨e, List.mem_append.mpr (Or.inl he), by simpa using hgt⟩
    rw [if_pos hany] at h
    cases h
    rfl

theorem lossIncreaseUpdate_ok (ops : FloatOps F) (set : List RecvEntry) (now recv : Nat) :
    ∃ m, lossIncreaseUpdate ops set now recv =
      .ok ([{ value := m, ts := now, isInitial := false }], m) :=
  replaceMax_ok _ _ _

/-! ## normal form of `handleFeedback` -/

/-- the updated round-trip time after a feedback (`update_rtt`). -/
def rttOf (ops : FloatOps F) (s : State F) (fb : Feedback F) : F :=
  match s.rttS with
  | some r => ops.ewma r (ops.msToS fb.rttMs)
  | none => ops.msToS fb.rttMs

/-- `loss_increase` of `handle_feedback`. -/
def lossInc (ops : FloatOps F) (s : State F) (fb : Feedback F) : Bool :=
  ops.gt fb.lossRate s.prevLossRate

/-- the receive-rate-set update performed by `handle_feedback` (new set, receive limit). -/
def updOf (ops : FloatOps F) (s : State F) (now : Nat) (fb : Feedback F) : R (List RecvEntry × Nat) :=
  if fb.rateLimited then
    (rateLimitedUpdate s.recvSet now fb.receiveRate (ops.sToMs (rttOf ops s fb))).map
      fun (set, m) => (set, satMul2 m)
  else if lossInc ops s fb then
    lossIncreaseUpdate ops s.recvSet now fb.receiveRate
  else
    (replaceMax s.recvSet now fb.receiveRate).map fun (set, m) => (set, satMul2 m)

/-- the state written by `handle_feedback` once the new mode `md` and the uncapped rate `x` are
known. -/
def fin (ops : FloatOps F) (s : State F) (now : Nat) (fb : Feedback F) (set : List RecvEntry)
    (md : Mode) (x : Nat) : State F :=
  { prevLossRate := fb.lossRate,
    nofeedbackExp := some (now + ops.sToMs (ops.rto (rttOf ops s fb) s.sendRate)),
    nofeedbackIdle := true, mode := md, sendRate := min x s.maxSendRate,
    maxSendRate := s.maxSendRate, recvSet := set, rttS := some (rttOf ops s fb),
    rttMs := some (ops.sToMs (rttOf ops s fb)),
    rtoMs := some (ops.sToMs (ops.rto (rttOf ops s fb) s.sendRate)) }

/-- the rate targeted when slow start is left (`ld` = `last_doubled`). -/
def ssTarget (ops : FloatOps F) (s : State F) (fb : Feedback F) (ld : Option Nat) : Nat :=
  match ld with
  | none => ops.initLossRate (rttOf ops s fb)
  | some _ => s.sendRate / 2

theorem handleFeedback_eq (ops : FloatOps F) (s : State F) (now : Nat) (fb : Feedback F) :
    handleFeedback ops s now fb =
      match updOf ops s now fb with
      | .error t => .error t
      | .ok (set, L) =>
        match s.mode with
        | .awaitSend => .error .panic
        | .eqn _ =>
          .ok (fin ops s now fb set (.eqn (ops.tcpRate (rttOf ops s fb) fb.lossRate))
                (max (min (ops.tcpRate (rttOf ops s fb) fb.lossRate) L) MINIMUM_RATE), none)
        | .slowStart ld =>
          if lossInc ops s fb then
            match tcpInv ops (rttOf ops s fb) (ssTarget ops s fb ld) bisectFuel ops.zero ops.one with
            | .error t => .error t
            | .ok p => .ok (fin ops s now fb set (.eqn (ssTarget ops s fb ld))
                (max (min (ssTarget ops s fb ld) L) MINIMUM_RATE), some p)
          else
            match ld with
            | none =>
              .ok (fin ops s now fb set (.slowStart (some now)) (ops.initRate (rttOf ops s fb)), none)
            | some t =>
              if now < t then .error .overflow else
              if now - t ≥ ops.sToMs (rttOf ops s fb) then
                .ok (fin ops s now fb set (.slowStart (some now))
                  (max (min (satMul2 s.sendRate) L) (ops.initRate (rttOf ops s fb))), none)
              else .ok (fin ops s now fb set s.mode s.sendRate, none) := by
  unfold handleFeedback
  simp only [updateRtt, updateRto]
  show (match updOf ops s now fb with | .error t => _ | .ok (set, L) => _) = _
  cases updOf ops s now fb with
  | error t => rfl
  | ok v =>
    obtain ⟨set, L⟩ := v
    cases hm : s.mode with
    | awaitSend => rfl
    | eqn t => rfl
    | slowStart ld =>
      show (if lossInc ops s fb = true then _ else _) = _
      cases lossInc ops s fb with
      | true =>
        simp only [if_true]
        cases ld <;> rfl
      | false =>
        simp only [Bool.false_eq_true, if_false]
        cases ld with
        | none => rfl
        | some t =>
          show (if now < t then _ else if now - t ≥ ops.sToMs (rttOf ops s fb) then _ else _) = _
          by_cases h1 : now < t
          · simp only [if_pos h1]
          · simp only [if_neg h1]
            by_cases h2 : now - t ≥ ops.sToMs (rttOf ops s fb)
            · simp only [if_pos h2]; rfl
            · simp only [if_neg h2]; rfl

/-- `updOf` only traps when time runs backwards. -/
theorem updOf_ok (ops : FloatOps F) (s : State F) (now : Nat) (fb : Feedback F)
    (hts : ∀ e ∈ s.recvSet, e.ts ≤ now) : ∃ set L, updOf ops s now fb = .ok (set, L) := by
  unfold updOf
  split
  · obtain ⟨⟨set, m⟩, hr⟩ := rateLimitedUpdate_ok fb.receiveRate (ops.sToMs (rttOf ops s fb)) hts
    exact ⟨set, satMul2 m, by rw [hr]; rfl⟩
  · split
    · obtain ⟨m, hm⟩ := lossIncreaseUpdate_ok ops s.recvSet now fb.receiveRate
      exact ⟨_, _, hm⟩
    · obtain ⟨m, hm⟩ := replaceMax_ok s.recvSet now fb.receiveRate
      exact ⟨_, satMul2 m, by rw [hm]; rfl⟩

theorem updOf_error {ops : FloatOps F} {s : State F} {now : Nat} {fb : Feedback F} {t : Trap}
    (h : updOf ops s now fb = .error t) :
    t = .overflow ∧ fb.rateLimited = true ∧ ∃ e ∈ s.recvSet, now < e.ts := by
  unfold updOf at h
  split at h
  · rename_i hlim
    cases hr : rateLimitedUpdate s.recvSet now fb.receiveRate (ops.sToMs (rttOf ops s fb)) with
    | error t' =>
      rw [hr] at h
      cases h
      exact ⟨(rateLimitedUpdate_error hr).1, hlim, (rateLimitedUpdate_error hr).2⟩
    | ok v => rw [hr] at h; cases h
  · split at h
    · obtain ⟨m, hm⟩ := lossIncreaseUpdate_ok ops s.recvSet now fb.receiveRate
      rw [hm] at h; cases h
    · obtain ⟨m, hm⟩ := replaceMax_ok s.recvSet now fb.receiveRate
      rw [hm] at h; cases h

/-- what the set update guarantees about its result. -/
theorem updOf_eq_ok {ops : FloatOps F} {s : State F} {now : Nat} {fb : Feedback F}
    {set : List RecvEntry} {L : Nat} (h : updOf ops s now fb = .ok (set, L)) :
    set ≠ [] ∧ (∀ e ∈ set, e.ts ≤ now) ∧ ∃ m, setMax set = .ok m ∧ satMul2 m / 2 ≤ L := by
  unfold updOf at h
  split at h
  · cases hr : rateLimitedUpdate s.recvSet now fb.receiveRate (ops.sToMs (rttOf ops s fb)) with
    | error t' => rw [hr] at h; cases h
    | ok v =>
      obtain ⟨set', m⟩ := v
      rw [hr] at h
      cases h
      obtain ⟨h1, h2, h3⟩ := rateLimitedUpdate_eq_ok hr
      exact ⟨h3, h2, m, h1, satMul2_half_le_self m⟩
  · split at h
    · obtain ⟨m, hm⟩ := lossIncreaseUpdate_ok ops s.recvSet now fb.receiveRate
      rw [hm] at h
      cases h
      refine ⟨List.cons_ne_nil _ _, ?_, L, rfl, satMul2_half_le L⟩
      intro e he
      simp only [List.mem_singleton] at he
      subst he
      exact Nat.le_refl _
    · obtain ⟨m, hm⟩ := replaceMax_ok s.recvSet now fb.receiveRate
      rw [hm] at h
      cases h
      refine ⟨List.cons_ne_nil _ _, ?_, m, rfl, satMul2_half_le_self m⟩
      intro e he
      simp only [List.mem_singleton] at he
      subst he
      exact Nat.le_refl _

/-! ## normal form of `nofeedbackExpired` and `step` -/

/-- `halve` of `nofeedback_expired`. -/
def halve (s : State F) : State F := { s with sendRate := max (s.sendRate / 2) MINIMUM_RATE }

/-- the rate decision of `nofeedback_expired` (before the RTO / timer update). -/
def nfCore (ops : FloatOps F) (s : State F) (now : Nat) : R (State F) :=
  match s.mode with
  | .slowStart _ =>
    match s.rttS with
    | some rtt =>
      if s.nofeedbackIdle ∧ s.sendRate < satMul2 (ops.initRate rtt) then .ok s else .ok (halve s)
    | none => .ok (halve s)
  | .eqn tcp =>
    match s.rttS with
    | none => .error .unwrap
    | some rtt =>
      match setMax s.recvSet with
      | .error t => .error t
      | .ok recv =>
        if s.nofeedbackIdle ∧ recv < ops.initRate rtt then .ok s else
        .ok { s with
          recvSet := [{ value := max (min tcp (satMul2 recv) / 2) MINIMUM_RATE / 2, ts := now,
                        isInitial := false }],
          sendRate := min (max (min tcp (max (min tcp (satMul2 recv) / 2) MINIMUM_RATE)) MINIMUM_RATE)
            s.maxSendRate }
  | .awaitSend => .error .panic

/-- the RTO / timer update that ends `nofeedback_expired`. -/
def nfFin (ops : FloatOps F) (s : State F) (now : Nat) : State F :=
  { s with rtoMs := some (ops.sToMs (ops.rto (s.rttS.getD ops.zero) s.sendRate)),
           nofeedbackExp := some (now + ops.sToMs (ops.rto (s.rttS.getD ops.zero) s.sendRate)),
           nofeedbackIdle := true }

theorem nofeedbackExpired_eq (ops : FloatOps F) (s : State F) (now : Nat) :
    nofeedbackExpired ops s now =
      match nfCore ops s now with
      | .error t => .error t
      | .ok s1 => .ok (nfFin ops s1 now) := rfl

/-- The five successful branches of `handle_feedback`: new mode, uncapped new rate, and the
`reset_loss_rate` argument, given the receive limit `L`. -/
inductive HfBranch (ops : FloatOps F) (s : State F) (now : Nat) (fb : Feedback F) (L : Nat) :
    Mode → Nat → Option F → Prop
  /-- equation phase -/
  | eqn (t : Nat) (hm : s.mode = .eqn t) :
      HfBranch ops s now fb L (.eqn (ops.tcpRate (rttOf ops s fb) fb.lossRate))
        (max (min (ops.tcpRate (rttOf ops s fb) fb.lossRate) L) MINIMUM_RATE) none
  /-- slow start left for the equation phase (loss increase) -/
  | leave (ld : Option Nat) (p : F) (hm : s.mode = .slowStart ld) (hl : lossInc ops s fb = true)
      (hp : tcpInv ops (rttOf ops s fb) (ssTarget ops s fb ld) bisectFuel ops.zero ops.one = .ok p) :
      HfBranch ops s now fb L (.eqn (ssTarget ops s fb ld))
        (max (min (ssTarget ops s fb ld) L) MINIMUM_RATE) (some p)
  /-- first feedback in slow start -/
  | first (hm : s.mode = .slowStart none) (hl : lossInc ops s fb = false) :
      HfBranch ops s now fb L (.slowStart (some now)) (ops.initRate (rttOf ops s fb)) none
  /-- slow start, one RTT since the last doubling -/
  | double (t : Nat) (hm : s.mode = .slowStart (some t)) (hl : lossInc ops s fb = false)
      (ht : t ≤ now) (hd : ops.sToMs (rttOf ops s fb) ≤ now - t) :
      HfBranch ops s now fb L (.slowStart (some now))
        (max (min (satMul2 s.sendRate) L) (ops.initRate (rttOf ops s fb))) none
  /-- slow start, less than one RTT since the last doubling -/
  | keep (t : Nat) (hm : s.mode = .slowStart (some t)) (hl : lossInc ops s fb = false)
      (ht : t ≤ now) (hd : now - t < ops.sToMs (rttOf ops s fb)) :
      HfBranch ops s now fb L (.slowStart (some t)) s.sendRate none

theorem handleFeedback_ok_cases {ops : FloatOps F} {s s' : State F} {now : Nat} {fb : Feedback F}
    {r : Option F} (h : handleFeedback ops s now fb = .ok (s', r)) :
    ∃ set L md x, updOf ops s now fb = .ok (set, L) ∧ s' = fin ops s now fb set md x ∧
      HfBranch ops s now fb L md x r := by
  rw [handleFeedback_eq] at h
  cases hu : updOf ops s now fb with
  | error t => rw [hu] at h; cases h
  | ok v =>
    obtain ⟨set, L⟩ := v
    rw [hu] at h
    simp only [] at h
    refine ⟨set, L, ?_⟩
    cases hm : s.mode with
    | awaitSend => rw [hm] at h; cases h
    | eqn t =>
      rw [hm] at h
      cases h
      exact ⟨_, _, rfl, rfl, .eqn t hm⟩
    | slowStart ld =>
      rw [hm] at h
      simp only [] at h
      cases hl : lossInc ops s fb with
      | true =>
        rw [hl] at h
        simp only [if_true] at h
        cases hp : tcpInv ops (rttOf ops s fb) (ssTarget ops s fb ld) bisectFuel ops.zero ops.one with
        | error t => rw [hp] at h; cases h
        | ok p =>
          rw [hp] at h
          cases h
          exact ⟨_, _, rfl, rfl, .leave ld p hm hl hp⟩
      | false =>
        rw [hl] at h
        simp only [Bool.false_eq_true, if_false] at h
        cases ld with
        | none =>
          cases h
          exact ⟨_, _, rfl, rfl, .first hm hl⟩
        | some t =>
          simp only [] at h
          by_cases h1 : now < t
          · rw [if_pos h1] at h; cases h
          · rw [if_neg h1] at h
            by_cases h2 : now - t ≥ ops.sToMs (rttOf ops s fb)
            · rw [if_pos h2] at h
              cases h
              exact ⟨_, _, rfl, rfl, .double t hm hl (by omega) h2⟩
            · rw [if_neg h2] at h
              cases h
              exact ⟨_, _, rfl, rfl, .keep t hm hl (by omega) (by omega)⟩

/-- The three successful outcomes of the rate decision of `nofeedback_expired`. -/
inductive NfBranch (ops : FloatOps F) (s : State F) (now : Nat) : State F → Prop
  /-- idle sender below the recover rate: nothing changes -/
  | keep (h : (∃ ld, s.mode = .slowStart ld) ∨ (∃ tcp, s.mode = .eqn tcp)) : NfBranch ops s now s
  /-- slow start: halve -/
  | halve (ld : Option Nat) (hm : s.mode = .slowStart ld) : NfBranch ops s now (halve s)
  /-- equation phase: halve the receive limit -/
  | limit (tcp : Nat) (rtt : F) (recv : Nat) (hm : s.mode = .eqn tcp) (hr : s.rttS = some rtt)
      (hs : setMax s.recvSet = .ok recv) :
      NfBranch ops s now { s with
        recvSet := [{ value := max (min tcp (satMul2 recv) / 2) MINIMUM_RATE / 2, ts := now,
                      isInitial := false }],
        sendRate := min (max (min tcp (max (min tcp (satMul2 recv) / 2) MINIMUM_RATE)) MINIMUM_RATE)
          s.maxSendRate }

theorem nfCore_ok_cases {ops : FloatOps F} {s s1 : State F} {now : Nat}
    (h : nfCore ops s now = .ok s1) : NfBranch ops s now s1 := by
  unfold nfCore at h
  cases hm : s.mode with
  | awaitSend => rw [hm] at h; cases h
  | slowStart ld =>
    rw [hm] at h
    simp only [] at h
    cases hr : s.rttS with
    | none => rw [hr] at h; cases h; exact .halve ld hm
    | some rtt =>
      rw [hr] at h
      simp only [] at h
      split at h
      · cases h; exact .keep (Or.inl ⟨ld, hm⟩)
      · cases h; exact .halve ld hm
  | eqn tcp =>
    rw [hm] at h
    simp only [] at h
    cases hr : s.rttS with
    | none => rw [hr] at h; cases h
    | some rtt =>
      rw [hr] at h
      simp only [] at h
      cases hs : setMax s.recvSet with
      | error t => rw [hs] at h; cases h
      | ok recv =>
        rw [hs] at h
        simp only [] at h
        split at h
        · cases h; exact .keep (Or.inr ⟨tcp, hm⟩)
        · cases h
          have := NfBranch.limit (ops := ops) (now := now) tcp rtt recv hm hr hs
          rw [hm, hr] at this
          exact this

theorem nofeedbackExpired_ok_cases {ops : FloatOps F} {s s' : State F} {now : Nat}
    (h : nofeedbackExpired ops s now = .ok s') :
    ∃ s1, NfBranch ops s now s1 ∧ s' = nfFin ops s1 now := by
  rw [nofeedbackExpired_eq] at h
  cases hc : nfCore ops s now with
  | error t => rw [hc] at h; cases h
  | ok s1 =>
    rw [hc] at h
    cases h
    exact ⟨s1, nfCore_ok_cases hc, rfl⟩

/-- The successful outcomes of `step`. -/
inductive StepBranch (ops : FloatOps F) (s : State F) (now : Nat) :
    Option (Feedback F) → State F → Option F → Prop
  /-- nothing happens (no frame sent yet, or no feedback and the timer has not expired) -/
  | idle (fb : Option (Feedback F)) (h : s.mode = .awaitSend ∨
        (fb = none ∧ ∀ exp, s.nofeedbackExp = some exp → now < exp)) : StepBranch ops s now fb s none
  | feedback (fb : Feedback F) (s' : State F) (r : Option F) (hm : s.mode ≠ .awaitSend)
      (h : handleFeedback ops s now fb = .ok (s', r)) : StepBranch ops s now (some fb) s' r
  | expired (s' : State F) (exp : Nat) (hm : s.mode ≠ .awaitSend) (he : s.nofeedbackExp = some exp)
      (hle : exp ≤ now) (h : nofeedbackExpired ops s now = .ok s') : StepBranch ops s now none s' none

theorem step_ok_cases {ops : FloatOps F} {s s' : State F} {now : Nat} {fb : Option (Feedback F)}
    {r : Option F} (h : step ops s now fb = .ok (s', r)) : StepBranch ops s now fb s' r := by
  unfold step at h
  split at h
  · rename_i hm
    cases h
    exact .idle fb (Or.inl hm)
  · rename_i hm
    cases fb with
    | some fb => exact .feedback fb s' r (by intro h'; exact hm h') h
    | none =>
      simp only [] at h
      cases he : s.nofeedbackExp with
      | none =>
        rw [he] at h
        cases h
        exact .idle none (Or.inr ⟨rfl, by intro exp h'; rw [he] at h'; cases h'⟩)
      | some exp =>
        rw [he] at h
        simp only [] at h
        by_cases hle : now ≥ exp
        · rw [if_pos hle] at h
          cases hn : nofeedbackExpired ops s now with
          | error t => rw [hn] at h; cases h
          | ok s2 =>
            rw [hn] at h
            cases h
            exact .expired _ exp (by intro h'; exact hm h') he hle hn
        · rw [if_neg hle] at h
          cases h
          refine .idle none (Or.inr ⟨rfl, ?_⟩)
          intro exp' h'
          rw [he] at h'
          cases h'
          omega

end Uflow.Rate
