import Uflow.Lemmas.SysRecoverEmit

/-!
Recovery of the composed system after a blackout (C11Sys), part 3: one recovery round from any
reachable state, and one `emit` + recovery round from a recovered state.
-/

namespace Uflow.Props.C11

open Uflow Uflow.Gen Uflow.Codec Uflow.PSend Uflow.PRecv Uflow.Frag Uflow.Sys
open Uflow.Props.C01Sys Uflow.Props.C02

/-- The parameter hypotheses of C02Live. -/
structure Hyp (w k b a m : Nat) : Prop where
  hwk : w ≤ 2^k
  hw : w ≤ 2^16
  hk : k ≤ 19
  hb : b < 2^20
  ham : allocCeil a ≤ allocCeil m

/-- The state after a recovery round: the send window is empty, the allocation counter is 0, the
byte counter covers exactly the send queue, and the receive window base has passed every emitted
packet. -/
structure Recovered (s : Sys) : Prop where
  win : s.snd.win = []
  alloc : s.snd.alloc = 0
  base : s.snd.baseId = s.snd.nextId
  total : s.snd.totalSize = qBytes s.snd.queue
  adv : s.rcv.adv = s.hist.emitted.length

theorem Reach.sinv {w k b a m : Nat} (H : Hyp w k b a m) {s : Sys} (hr : Reach w k b a m s) :
    SInv b w (2^k) (allocCeil m) s := by
  obtain ⟨ops, h⟩ := hr
  exact C01_sys_reach w k b a m (by have := H.hw; omega) H.hk H.hb ops s h

theorem Reach.maxAlloc {w k b a m : Nat} (H : Hyp w k b a m) {s : Sys} (hr : Reach w k b a m s) :
    s.snd.maxAlloc = allocCeil a := by
  obtain ⟨ops, h⟩ := hr
  exact (C02_sys_reach_alloc w k b a m H.hw H.hk H.hb H.ham ops s h).smax

/-- Every log entry of a reachable state belongs to an emitted packet. -/
theorem Reach.log_lt {w k b a m : Nat} (H : Hyp w k b a m) {s : Sys} (hr : Reach w k b a m s) :
    ∀ e ∈ s.rcv.log, ∃ em, s.hist.emitted[e.uid]? = some em ∧ e.chan = em.channelId ∧
      e.uid < s.hist.emitted.length := by
  obtain ⟨ops, h⟩ := hr
  intro e he
  obtain ⟨em, hem, -, -, -, hc, -⟩ :=
    C01_sys_delivered_is_emitted w k b a m (by have := H.hw; omega) H.hk H.hb ops s h e he
  exact ⟨em, hem, hc, (List.getElem?_eq_some_iff.mp hem).1⟩

/-- **One recovery round from any reachable state.** -/
theorem recover_round {w k b a m : Nat} (H : Hyp w k b a m) {s : Sys} (hr : Reach w k b a m s) :
    ∃ s1, runS s (recoverRound s) = .ok s1 ∧ Reach w k b a m s1 ∧ Recovered s1 ∧
      s1.snd.queue = s.snd.queue ∧ s1.hist = s.hist ∧
      (∃ new, s1.rcv.log = s.rcv.log ++ new ∧ ∀ e ∈ new, e.wb = s.rcv.adv) ∧
      (∀ j x, s.hist.emitted[j]? = some x → x.mode = .reliable →
        ∃ e ∈ s1.rcv.log, e.uid = j ∧ e.data = some x.data) ∧
      (∀ j x, s.hist.emitted[j]? = some x → s.rcv.adv ≤ j →
        (∃ e ∈ s1.rcv.log, e.uid = j ∧ e.data = some x.data) ∨
        (x.mode ≠ .reliable ∧ ∃ e ∈ s.rcv.log, e.chan = x.channelId ∧ j < e.uid)) := by
  obtain ⟨ops, h⟩ := hr
  obtain ⟨s', s'', hr1, -, -, -, hr2, q1, q2, q3, q4, q5, -, q7, q8⟩ :=
    C02_sys_quiescent w k b a m H.hwk H.hw H.hk H.hb H.ham ops s h
  obtain ⟨t', hr3, -, -, -, -, d5, d6, d7⟩ :=
    C02_sys_deliverable w k b a m H.hwk H.hw H.hk H.hb H.ham ops s h
  have heq : t' = s' := by
    have := hr3.symm.trans hr1
    cases this; rfl
  subst heq
  obtain ⟨new, hlog, hwb⟩ := redeliverAll_log s t' hr1
  refine ⟨s'', hr2, Reach.run ⟨ops, h⟩ _ hr2, ⟨q1, q3, q2, by rw [q5, q4]; rfl, by rw [q8, q7]; exact d5⟩,
    q4, q7, ⟨new, by rw [q8]; exact hlog, hwb⟩, ?_, ?_⟩
  · rw [q8]; exact d6
  · rw [q8]; exact d7

/-- **`emit` in a recovered state, head of the queue not stale.** -/
theorem emit_step_some {w k b a m : Nat} (H : Hyp w k b a m) (hw0 : 0 < w) {s : Sys}
    (hr : Reach w k b a m s) (rc : Recovered s) (f : Nat) (dropped : List QEntry) (q : QEntry)
    (rest : List QEntry) (hq : s.snd.queue = dropped ++ q :: rest) (hd : ∀ d ∈ dropped, Stale f d)
    (hn : ¬ Stale f q) (hal : allocSize q.data.length ≤ allocCeil a) (hch : q.channelId < CHANNEL_COUNT) :
    ∃ s1 p x, stepS s (.emit f) = .ok s1 ∧
      emit s.snd f = .ok (s1.snd, some (p, decide (q.mode = .persistent ∨ q.mode = .reliable))) ∧
      p = mkPending s.snd q s.snd.chanParent[q.channelId]! ∧
      s1.snd.queue = rest ∧ s1.snd.win.length = 1 ∧
      s1.hist.emitted = s.hist.emitted ++ [x] ∧ x.toQ = q ∧ s1.hist.enqueued = s.hist.enqueued ∧
      s1.rcv = s.rcv ∧ s1.seen = s.seen ∧ s1.pend = s.pend ++ [p] ∧
      s1.net = s.net ++ dgsOf s.pend.length p := by
  have hs := hr.sinv H
  have hwlt : w < 2^20 := by have := H.hw; omega
  obtain ⟨-, -, -, w4, w5⟩ := hinv_win hs.snd.hinv hwlt
  have hclen := hs.snd.hinv.clen
  have hch' : q.channelId < s.snd.chanParent.length := by rw [hclen]; exact hch
  have hqb : qBytes s.snd.queue = qBytes dropped + qBytes (q :: rest) := by rw [hq, qBytes_append]
  have he := emit_head s.snd f dropped q rest hq hd hn (by rw [rc.total, hqb]; omega)
    (by rw [w5, rc.win, w4]; exact hw0)
    (by rw [rc.alloc, hr.maxAlloc H]; omega) hch'
  obtain ⟨hst, hem, -, -⟩ := sndInv_emit_some hwlt hs.snd f _ _ _ he
  have hcons := consumed_eq s.snd f dropped q rest hq hd hn
  refine ⟨{ s with
      snd := emitState s.snd q rest (s.snd.totalSize - qBytes dropped) (mkPending s.snd q s.snd.chanParent[q.channelId]),
      hist := { s.hist with emitted := s.hist.emitted ++
        [mkEmitted s.snd f (mkPending s.snd q s.snd.chanParent[q.channelId])] },
      pend := s.pend ++ [mkPending s.snd q s.snd.chanParent[q.channelId]],
      net := s.net ++ dgsOf s.pend.length (mkPending s.snd q s.snd.chanParent[q.channelId]) },
    mkPending s.snd q s.snd.chanParent[q.channelId],
    mkEmitted s.snd f (mkPending s.snd q s.snd.chanParent[q.channelId]), ?_, he, ?_, rfl, ?_,
    rfl, ?_, rfl, rfl, rfl, rfl, rfl⟩
  · simp only [stepS]
    rw [hst, bindR_ok, hem]
    simp only [Option.toList, List.flatMap_cons, List.flatMap_nil, List.append_nil]
  · rw [getElem!_pos s.snd.chanParent q.channelId hch']
  · simp [emitState, rc.win]
  · simp only [mkEmitted, Emitted.toQ, hcons, mkPending]

/-- **`emit` in a recovered state, the whole queue stale (or empty).** -/
theorem emit_step_none {w k b a m : Nat} (H : Hyp w k b a m) {s : Sys}
    (hr : Reach w k b a m s) (rc : Recovered s) (f : Nat) (hd : ∀ d ∈ s.snd.queue, Stale f d) :
    ∃ s1, stepS s (.emit f) = .ok s1 ∧ emit s.snd f = .ok (s1.snd, none) ∧
      s1.snd.queue = [] ∧ s1.snd.win = [] ∧ s1.hist = s.hist ∧ s1.rcv = s.rcv ∧ s1.seen = s.seen ∧
      s1.pend = s.pend ∧ s1.net = s.net := by
  have hs := hr.sinv H
  have hwlt : w < 2^20 := by have := H.hw; omega
  have he := emit_all_stale s.snd f hd (by rw [rc.total]; exact Nat.le_refl _)
  obtain ⟨hst, hem, -, -⟩ := sndInv_emit_none hwlt hs.snd f _ he
  refine ⟨{ s with snd := { s.snd with queue := [], totalSize := s.snd.totalSize - qBytes s.snd.queue } },
    ?_, he, rfl, rc.win, rfl, rfl, rfl, rfl, rfl⟩
  simp only [stepS]
  rw [hst, bindR_ok, hem]
  simp only [Option.toList, List.flatMap_nil, List.append_nil]

/-- **One `emit` + recovery round from a recovered state, head of the queue not stale**: the packet
is emitted and delivered; the log grows by exactly its entry. -/
theorem emit_round_some {w k b a m : Nat} (H : Hyp w k b a m) (hw0 : 0 < w) {s : Sys}
    (hr : Reach w k b a m s) (rc : Recovered s) (f : Nat) (dropped : List QEntry) (q : QEntry)
    (rest : List QEntry) (hq : s.snd.queue = dropped ++ q :: rest) (hd : ∀ d ∈ dropped, Stale f d)
    (hn : ¬ Stale f q) (hal : allocSize q.data.length ≤ allocCeil a) (hch : q.channelId < CHANNEL_COUNT) :
    ∃ s2 x le, runS s (emitRound s f) = .ok s2 ∧ Reach w k b a m s2 ∧ Recovered s2 ∧
      s2.snd.queue = rest ∧ s2.hist.emitted = s.hist.emitted ++ [x] ∧ x.toQ = q ∧
      s2.hist.enqueued = s.hist.enqueued ∧
      s2.rcv.log = s.rcv.log ++ [le] ∧ le.uid = s.hist.emitted.length ∧ le.chan = q.channelId ∧
      le.data = some q.data ∧ recvCount (emitRound s f) = 1 := by
  obtain ⟨s1, p, x, hstep, -, -, e1, -, e2, e3, e4, e5, -, -, -⟩ :=
    emit_step_some H hw0 hr rc f dropped q rest hq hd hn hal hch
  have hr1 := hr.step _ hstep
  obtain ⟨s2, hrun2, hr2, rc2, f1, f2, ⟨new, hlog, hwb⟩, -, hany⟩ := recover_round H hr1
  have hround : emitRound s f = SOp.emit f :: recoverRound s1 := by
    unfold emitRound; rw [hstep]
  have hE1 : s1.rcv.adv = s.hist.emitted.length := by rw [e5]; exact rc.adv
  have hx1 : s1.hist.emitted[s.hist.emitted.length]? = some x := by
    rw [e2, List.getElem?_append_right (Nat.le_refl _), Nat.sub_self]; rfl
  have hold : ∀ e ∈ s.rcv.log, e.uid < s.hist.emitted.length := by
    intro e he
    obtain ⟨-, -, -, hlt⟩ := hr.log_lt H e he
    exact hlt
  -- the emitted packet is delivered in the round
  have hdel : ∃ e ∈ s2.rcv.log, e.uid = s.hist.emitted.length ∧ e.data = some x.data := by
    rcases hany _ x hx1 (by rw [hE1]; exact Nat.le_refl _) with h1 | ⟨-, e, he, -, hlt⟩
    · exact h1
    · rw [e5] at he
      have := hold e he
      omega
  obtain ⟨e, he, heu, hed⟩ := hdel
  -- every new entry has the unwrapped id of the emitted packet
  have hnew : ∀ e' ∈ new, e'.uid = s.hist.emitted.length := by
    intro e' he'
    have hm : e' ∈ s2.rcv.log := by rw [hlog]; exact List.mem_append.mpr (Or.inr he')
    have h1 := ((hr2.sinv H).rcv.gi.gwin e' hm).1
    obtain ⟨-, -, -, h2⟩ := hr2.log_lt H e' hm
    rw [f2, e2, List.length_append, List.length_singleton] at h2
    rw [hwb e' he', hE1] at h1
    omega
  have hen : e ∈ new := by
    rw [hlog, e5] at he
    rcases List.mem_append.mp he with h1 | h1
    · have := hold e h1; omega
    · exact h1
  have hpw : new.Pairwise (fun x y => x.uid ≠ y.uid) := by
    obtain ⟨ops2, h2⟩ := hr2
    have := C01_sys_at_most_once w k b a m (by have := H.hw; omega) H.hk H.hb ops2 s2 h2
    rw [hlog] at this
    exact (List.pairwise_append.mp this).2.1
  have hone : new = [e] := by
    cases hnw : new with
    | nil => rw [hnw] at hen; cases hen
    | cons a t =>
      cases t with
      | nil =>
        rw [hnw] at hen
        rw [List.mem_singleton.mp hen]
      | cons a2 t2 =>
        exfalso
        rw [hnw] at hpw hnew
        have h1 := hnew a List.mem_cons_self
        have h2 := hnew a2 (List.mem_cons_of_mem _ List.mem_cons_self)
        have h3 := (List.pairwise_cons.mp hpw).1 a2 List.mem_cons_self
        omega
  have hxq : x.data = q.data ∧ x.channelId = q.channelId := by
    rw [← e3]; exact ⟨rfl, rfl⟩
  refine ⟨s2, x, e, ?_, hr2, rc2, by rw [f1, e1], by rw [f2, e2], e3, by rw [f2, e4],
    by rw [hlog, e5, hone], heu, ?_, by rw [hed, hxq.1], ?_⟩
  · rw [hround, runS, hstep, bindR_ok]; exact hrun2
  · obtain ⟨em, hem, hc, -⟩ := hr2.log_lt H e (by rw [hlog, hone]; simp)
    rw [heu, f2, hx1] at hem
    cases hem
    rw [hc, hxq.2]
  · rw [hround]
    show recvCount ([SOp.emit f] ++ recoverRound s1) = 1
    rw [recvCount_append, recvCount_recoverRound]; rfl

/-- **One `emit` + recovery round from a recovered state, the whole queue stale (or empty)**: the
queue is emptied, nothing is emitted, the log does not change. -/
theorem emit_round_none {w k b a m : Nat} (H : Hyp w k b a m) {s : Sys}
    (hr : Reach w k b a m s) (rc : Recovered s) (f : Nat) (hd : ∀ d ∈ s.snd.queue, Stale f d) :
    ∃ s2, runS s (emitRound s f) = .ok s2 ∧ Reach w k b a m s2 ∧ Recovered s2 ∧
      s2.snd.queue = [] ∧ s2.hist = s.hist ∧ s2.rcv.log = s.rcv.log ∧ recvCount (emitRound s f) = 1 := by
  obtain ⟨s1, hstep, -, e1, -, e2, e3, -, -, -⟩ := emit_step_none H hr rc f hd
  have hr1 := hr.step _ hstep
  obtain ⟨s2, hrun2, hr2, rc2, f1, f2, ⟨new, hlog, hwb⟩, -, -⟩ := recover_round H hr1
  have hround : emitRound s f = SOp.emit f :: recoverRound s1 := by
    unfold emitRound; rw [hstep]
  have hnil : new = [] := by
    rw [List.eq_nil_iff_forall_not_mem]
    intro e' he'
    have hm : e' ∈ s2.rcv.log := by rw [hlog]; exact List.mem_append.mpr (Or.inr he')
    have h1 := ((hr2.sinv H).rcv.gi.gwin e' hm).1
    obtain ⟨-, -, -, h2⟩ := hr2.log_lt H e' hm
    rw [f2, e2] at h2
    rw [hwb e' he', e3, rc.adv] at h1
    omega
  refine ⟨s2, ?_, hr2, rc2, by rw [f1, e1], by rw [f2, e2], by rw [hlog, hnil, e3, List.append_nil], ?_⟩
  · rw [hround, runS, hstep, bindR_ok]; exact hrun2
  · rw [hround]
    show recvCount ([SOp.emit f] ++ recoverRound s1) = 1
    rw [recvCount_append, recvCount_recoverRound]; rfl

end Uflow.Props.C11
