import Uflow.Lemmas.HcGateSys
import Uflow.Lemmas.HcFlushPair

/-!
C09Gate, part 2: the receiver-side lemma for reachable `Sys` states (with payloads and the per-channel
subsequence), the `recvB` step of the pair as the `recv` step of `Sys`, and the transfer of the
conclusion to the pair through the refinement relation `HcSys.Rel`.
-/

namespace Uflow.HcGate

open Uflow Uflow.Gen Uflow.Codec Uflow.HalfConn Uflow.PSend Uflow.HcSys Uflow.HcFlush
open Uflow.PRecv (LogE bindR bindR_ok)
open Uflow.Sys (Sys SOp runS stepS initS SyncOk Recvd)
open Uflow.Props.C01Sys
open Uflow.Rate (FloatOps)

variable {F : Type}

/-! ### `Sys` -/

/-- The `recv` step of `Sys` leaves sender, histories and the send queue alone. -/
theorem stepS_recv_frame {s s' : Sys} (hs : stepS s .recv = .ok s') :
    s'.snd = s.snd ∧ s'.hist = s.hist ∧ s'.pend = s.pend := by
  simp only [stepS] at hs
  cases hg : PRecv.stepT s.rcv .recv with
  | error e => rw [hg] at hs; cases hs
  | ok g => rw [hg, bindR_ok] at hs; cases hs; exact ⟨rfl, rfl, rfl⟩

/-- **`receive` hands out every completely received Reliable packet** — reachable `Sys` states, with
payloads. If in a reachable state every Reliable emitted packet is completely received (`SyncOk`), then
after ONE `recv` step every Reliable emitted packet has a log entry with its unwrapped id, its channel
and its payload. -/
theorem sys_recv_delivers (w k b a m : Nat) (hwk : w ≤ 2^k) (hw : w ≤ 2^16) (hk : k ≤ 19) (hb : b < 2^20)
    (ham : allocCeil a ≤ allocCeil m) (sops : List SOp) (s s' : Sys)
    (hs : runS (initS w (2^k) b a m) sops = .ok s) (hok : SyncOk s) (hstep : stepS s .recv = .ok s') :
    runS (initS w (2^k) b a m) (sops ++ [.recv]) = .ok s' ∧ s'.hist = s.hist ∧ s'.snd = s.snd ∧
    (∀ e ∈ s.rcv.log, e ∈ s'.rcv.log) ∧
    ∀ j x, s'.hist.emitted[j]? = some x → x.mode = .reliable →
      ∃ e ∈ s'.rcv.log, e.uid = j ∧ e.chan = x.channelId ∧ e.data = some x.data := by
  have hinv := C01_sys_reach w k b a m (by omega) hk hb sops s hs
  have hp := C02_sys_reach_delivery w k b a m hw hk hb sops s hs
  obtain ⟨hmono, hdel⟩ := Sys.recv_delivers_complete (PRecv.wOk_pow k hk) hw hwk hinv hp hok hstep
  obtain ⟨f1, f2, -⟩ := stepS_recv_frame hstep
  have hfull : runS (initS w (2^k) b a m) (sops ++ [.recv]) = .ok s' := by
    rw [HcSys.runS_append, hs, bindR_ok]; exact runS_single _ _ _ hstep
  refine ⟨hfull, f2, f1, hmono, ?_⟩
  intro j x hx hrel
  obtain ⟨e, he, hu⟩ := hdel j x (by rw [← f2]; exact hx) hrel
  obtain ⟨em, hem, hd⟩ := C01_sys_delivered_payload w k b a m hw hk hb ham _ s' hfull e he
  obtain ⟨em', hem', _, _, _, hch, _⟩ := C01_sys_delivered_is_emitted w k b a m (by omega) hk hb _ s' hfull e he
  rw [hu, hx] at hem hem'
  cases hem
  cases hem'
  exact ⟨e, he, hu, hch, hd⟩

/-- Per channel: if every Reliable emitted packet is in the log and nothing is queued, the Reliable
payloads submitted on the channel, in submission order, are a subsequence of the payloads delivered on
it. (`sys_reliable_sublist` with "the send window is empty" replaced by its consequence.) -/
theorem sys_reliable_sublist_of_logged (w k b a m : Nat) (hw : w ≤ 2^16) (hk : k ≤ 19) (hb : b < 2^20)
    (ham : allocCeil a ≤ allocCeil m) (sops : List SOp) (s : Sys)
    (hs : runS (initS w (2^k) b a m) sops = .ok s) (hq : s.snd.queue = [])
    (hdel : ∀ j x, s.hist.emitted[j]? = some x → x.mode = .reliable →
      ∃ e ∈ s.rcv.log, e.uid = j ∧ e.chan = x.channelId ∧ e.data = some x.data) (c : Nat) :
    ((s.hist.enqueued.filter (relChanQ c)).map QEntry.data).Sublist
      ((s.rcv.log.filter (fun e => decide (e.chan = c))).filterMap LogE.data) := by
  have hw' : w < 2^20 := by omega
  have hinv := C01_sys_reach w k b a m hw' hk hb sops s hs
  rw [sys_reliable_emitted w k b a m hw' hk hb sops s hs hq c]
  apply covered_sublist _ LogE.uid LogE.data s.hist.emitted Emitted.uid Emitted.data
  · intro j x hx
    exact (hinv.snd.hinv.ids j x hx).1
  · refine List.Pairwise.imp_of_mem ?_ (hinv.rcv.gi.gord.filter _)
    intro x y hx hy hxy
    have cx := (List.mem_filter.mp hx).2
    have cy := (List.mem_filter.mp hy).2
    simp only [decide_eq_true_eq] at cx cy
    exact hxy (by rw [cx, cy])
  · intro e he
    exact C01_sys_delivered_payload w k b a m hw hk hb ham sops s hs e (List.mem_filter.mp he).1
  · intro j x hx hp
    have hp := of_decide_eq_true (show decide (x.toQ.mode = .reliable ∧ x.toQ.channelId = c) = true from hp)
    simp only [Emitted.toQ] at hp
    obtain ⟨e, he, hu, hc, _⟩ := hdel j x hx hp.1
    exact ⟨e, List.mem_filter.mpr ⟨he, by simp only [decide_eq_true_eq]; rw [hc, hp.2]⟩, hu⟩

/-! ### the pair -/

theorem runP_append (ops : FloatOps F) (a b : List POp) (h : HcPair F) :
    runP ops h (a ++ b) = bindR (runP ops h a) fun h' => runP ops h' b := by
  induction a generalizing h with
  | nil => rfl
  | cons op rest ih =>
    show bindR (stepP ops h op) (fun h1 => runP ops h1 (rest ++ b)) = _
    cases hs : stepP ops h op with
    | error t => simp only [runP, hs]; rfl
    | ok h1 => simp only [runP, hs, bindR_ok]; exact ih h1

/-- `SyncOkP` of the pair is `SyncOk` of a related `Sys` state. -/
theorem syncOk_of_rel {h : HcPair F} {s : Sys} (hr : Rel h s) (hok : SyncOkP h) : SyncOk s := by
  intro x hx hrel
  rw [hr.em] at hx
  have := hok x hx hrel
  unfold RecvdP at this
  unfold Recvd
  rw [hr.adv, hr.rcv]
  exact Or.inr this

/-- `B.receive` never traps in a state satisfying the pair invariant. -/
theorem recvB_ok (ops : FloatOps F) {h : HcPair F} (hi : PairInv h) : ∃ h', stepP ops h .recvB = .ok h' := by
  obtain ⟨W, M, hinv⟩ := hi.pr
  obtain ⟨pr', out, hrc, -⟩ := PRecv.receive_inv hinv
  simp only [stepP, HalfConn.receive, hrc, bindR_ok]
  exact ⟨_, rfl⟩

/-- The `recvB` step of the pair IS the `recv` step of a related `Sys` state (the `recvB` case of
`sim_step`, keeping the step). -/
theorem sim_recvB (ops : FloatOps F) {h h' : HcPair F} {s : Sys} (hr : Rel h s)
    (hs : stepP ops h .recvB = .ok h') :
    ∃ s', stepS s .recv = .ok s' ∧ Rel h' s' ∧ h'.A = h.A ∧ h'.sent = h.sent ∧ h'.pend = h.pend ∧
      h'.em = h.em ∧ ∃ out, h'.outs = h.outs ++ out := by
  simp only [stepP] at hs
  cases hf : receive h.B with
  | error t => rw [hf] at hs; cases hs
  | ok r =>
    obtain ⟨b', out⟩ := r
    rw [hf, bindR_ok] at hs
    cases hs
    obtain ⟨_, hrc⟩ := receive_spec h.B b' out hf
    rw [← hr.rcv] at hrc
    obtain ⟨s', h1, c1, c2, c3, c4, c5, c6, c7, c8, c9⟩ := sim_recv s b'.pr out hrc
    refine ⟨s', h1, ?_, rfl, rfl, rfl, rfl, out, rfl⟩
    exact {
      snd := by rw [c5]; exact hr.snd
      pend := by rw [c7]; exact hr.pend
      enq := by rw [c6]; exact hr.enq
      elen := by rw [c6, c7]; exact hr.elen
      rcv := c1
      adv := by show s'.rcv.adv = h.advB + pidSub b'.pr.baseId h.B.pr.baseId
                rw [c2, hr.adv, hr.rcv]
      log := by show _ = h.outs ++ out; rw [c3, hr.log]
      seen := by
        intro x hx
        rw [c4]
        rcases List.mem_append.mp hx with hx | hx
        · exact List.mem_append_left _ (hr.seen x hx)
        · refine List.mem_append_right _ ?_
          rw [hr.adv, hr.rcv]; exact hx
      net := by rw [c7, c8]; exact hr.net
      em := by rw [c6]; exact hr.em
      syncs := by rw [c9]; exact hr.syncs }

/-- What the peer's next `receive` achieves once every Reliable emitted packet is completely received:
the conclusion of `FlushComplete` without the clause `advB = em.length`. -/
def GateComplete (h : HcPair F) : Prop :=
  ∃ (log : List LogE) (em : List Emitted), Attributed h log em ∧
    h.sent.filter notTS = (em.map Emitted.toQ).filter notTS ∧
    (∀ j x, em[j]? = some x → x.mode = .reliable →
      ∃ e ∈ log, e.uid = j ∧ e.chan = x.channelId ∧ e.data = some x.data) ∧
    ∀ c, ((h.sent.filter (fun q => decide (q.mode = .reliable ∧ q.channelId = c))).map QEntry.data).Sublist
      ((log.filter (fun e => decide (e.chan = c))).filterMap LogE.data)

/-- The transfer: a pair state `h` related to a reachable `Sys` state, with `SyncOkP h` and an empty
send queue; after one `recvB` step, `GateComplete`. -/
theorem gate_of_rel (ops : FloatOps F) (w k b a m : Nat) (hwk : w ≤ 2^k) (hw : w ≤ 2^16) (hk : k ≤ 19)
    (hb : b < 2^20) (ham : allocCeil a ≤ allocCeil m) (sops : List SOp) (s : Sys)
    (hs : runS (initS w (2^k) b a m) sops = .ok s) (h h' : HcPair F) (hr : Rel h s)
    (hok : SyncOkP h) (hq : h.A.ps.queue = []) (hstep : stepP ops h .recvB = .ok h') :
    GateComplete h' := by
  obtain ⟨s', hs', hr', hA, _, _, _, _⟩ := sim_recvB ops hr hstep
  obtain ⟨hfull, f2, f1, -, hdel⟩ :=
    sys_recv_delivers w k b a m hwk hw hk hb ham sops s s' hs (syncOk_of_rel hr hok) hs'
  have hinv' := C01_sys_reach w k b a m (by omega) hk hb _ s' hfull
  have hq' : s'.snd.queue = [] := by rw [rel_queue hr', hA, hq]
  refine ⟨s'.rcv.log, s'.hist.emitted, attributed_of_rel w k b a m hw hk hb ham _ s' hfull h' hr', ?_, hdel, ?_⟩
  · have ho := hinv'.snd.hinv.order.2
    rw [hq', List.append_nil, hr'.enq] at ho
    exact ho
  · intro c
    have := sys_reliable_sublist_of_logged w k b a m hw hk hb ham _ s' hfull hq' hdel c
    rw [hr'.enq] at this
    exact this

/-- Appending a `recvB` step keeps a schedule `Guarded` (`OpOk _ .recvB` is `True`). -/
theorem guarded_snoc_recvB (ops : FloatOps F) (sched : List POp) (h : HcPair F)
    (hg : Guarded ops h sched) : Guarded ops h (sched ++ [.recvB]) := by
  induction sched generalizing h with
  | nil => exact ⟨trivial, fun _ _ => trivial⟩
  | cons op rest ih => exact ⟨hg.1, fun h' hs => ih h' (hg.2 h' hs)⟩

end Uflow.HcGate
