import Uflow.Lemmas.PSendEmit
import Uflow.Props.C20

/-!
Ghost history for the packet sender `PSend` (C05 / C02, sender side).

`runH` runs the same operations as `Uflow.Props.C20.run` and records, beside the state, the list of
submitted queue entries (in submission order) and the list of packets that were assigned a
sequence id (in emission order).
-/

namespace Uflow.PSend

open Uflow Uflow.Gen
open Uflow.Props.C20 (Op)

/-- One packet that `emit_packet` assigned a sequence id to. `mode` and `flushId` are ghost fields
copied from the queue entry that `emit` consumed (the `PendingPacket` only keeps the expiry flush
id and the `resend` flag), `baseAt` is the ghost value of `base_id` at the time of the emission. -/
structure Emitted where
  uid : Nat
  sequenceId : Nat
  channelId : Nat
  mode : SendMode
  data : List Nat
  windowParentLead : Nat
  channelParentLead : Nat
  flushId : Nat
  baseAt : Nat
  deriving Repr, DecidableEq, Inhabited

/-- The queue entry an emitted packet came from. -/
def Emitted.toQ (e : Emitted) : QEntry :=
  { data := e.data, channelId := e.channelId, mode := e.mode, flushId := e.flushId }

structure Hist where
  /-- every `enqueue_packet` call, in submission order -/
  enqueued : List QEntry := []
  /-- every packet returned by `emit_packet`, in emission order -/
  emitted : List Emitted := []
  deriving Repr, DecidableEq, Inhabited

/-- The queue entry `emit s f` consumes if it emits: the first entry that is not stale for `f`. -/
def consumed (s : State) (f : Nat) : QEntry :=
  (s.queue.find? (fun q => ¬ Stale f q)).getD default

def mkEmitted (s : State) (f : Nat) (p : Pending) : Emitted :=
  { uid := p.uid, sequenceId := p.sequenceId, channelId := p.channelId, mode := (consumed s f).mode,
    data := p.data, windowParentLead := p.windowParentLead, channelParentLead := p.channelParentLead,
    flushId := (consumed s f).flushId, baseAt := s.baseId }

/-- One operation on the sender with the ghost history. -/
def stepH (s : State) (h : Hist) : Op → R (State × Hist)
  | .enq d c m f =>
    .ok (enqueue s d c m f, { h with enqueued := h.enqueued ++ [{ data := d, channelId := c, mode := m, flushId := f }] })
  | .emit f =>
    match emit s f with
    | .error t => .error t
    | .ok (s', none) => .ok (s', h)
    | .ok (s', some (p, _)) => .ok (s', { h with emitted := h.emitted ++ [mkEmitted s f p] })
  | .ack rb =>
    match acknowledge s rb with
    | .error t => .error t
    | .ok s' => .ok (s', h)
  | .ackFrag u fid => .ok (ackFragment s u fid, h)

/-- Runs the operations left to right; a trap ends the run. -/
def runH (s : State) (h : Hist) : List Op → R (State × Hist)
  | [] => .ok (s, h)
  | op :: rest =>
    match stepH s h op with
    | .error t => .error t
    | .ok (s', h') => runH s' h' rest

/-- The ghost history does not influence the state: `stepH` is `C20.stepOp` on the state. -/
theorem stepH_state (s : State) (h : Hist) (op : Op) :
    (stepH s h op).map (·.1) = Uflow.Props.C20.stepOp s op := by
  cases op with
  | enq d c m f => rfl
  | emit f =>
    simp only [stepH, Uflow.Props.C20.stepOp]
    cases he : emit s f with
    | error t => rfl
    | ok r =>
      obtain ⟨s', o⟩ := r
      cases o with
      | none => rfl
      | some pr => rfl
  | ack rb =>
    simp only [stepH, Uflow.Props.C20.stepOp]
    cases acknowledge s rb <;> rfl
  | ackFrag u fid => rfl

theorem runH_state (s : State) (h : Hist) (ops : List Op) :
    (runH s h ops).map (·.1) = Uflow.Props.C20.run s ops := by
  induction ops generalizing s h with
  | nil => rfl
  | cons op rest ih =>
    have hs := stepH_state s h op
    simp only [runH, Uflow.Props.C20.run]
    cases hst : stepH s h op with
    | error t => rw [hst] at hs; rw [← hs]; rfl
    | ok r =>
      obtain ⟨s', h'⟩ := r
      rw [hst] at hs
      rw [← hs]
      exact ih s' h'

/-! ### exact description of `emit` -/

/-- The state after an `emit` that assigned an id to queue entry `q` (the rest of the queue is `rest`,
`total` is the byte counter after the stale drops). -/
def emitState (s : State) (q : QEntry) (rest : List QEntry) (total : Nat) (p : Pending) : State :=
  { s with
    queue := rest, totalSize := total,
    win := s.win ++ [{ packet := p, allocSize := allocSize q.data.length, channelId := q.channelId }],
    nextId := pidAdd s.nextId 1,
    alloc := s.alloc + allocSize q.data.length,
    windowParentId := if q.mode = .reliable then some s.nextId else s.windowParentId,
    chanParent := if q.mode = .reliable then s.chanParent.set q.channelId (some s.nextId) else s.chanParent,
    nextUid := s.nextUid + 1 }

/-- `some pid ↦ sub(seq, pid) as u16`, `none ↦ 0`. -/
def leadOf (seq : Nat) : Option Nat → Nat
  | some pid => pidSub seq pid % 2^16
  | none => 0

theorem emit_spec (s s' : State) (f : Nat) (r : Option (Pending × Bool))
    (h : emit s f = .ok (s', r)) :
    ∃ dropped queue total,
      s.queue = dropped ++ queue ∧ (∀ d ∈ dropped, Stale f d) ∧
      ((r = none ∧ s' = { s with queue := queue, totalSize := total }) ∨
       (∃ q rest p resend chanPar,
          queue = q :: rest ∧ r = some (p, resend) ∧ ¬ Stale f q ∧
          pidSub s.nextId s.baseId < s.windowSize ∧
          s.alloc + allocSize q.data.length ≤ s.maxAlloc ∧
          s.chanParent[q.channelId]? = some chanPar ∧
          p.uid = s.nextUid ∧ p.data = q.data ∧ p.channelId = q.channelId ∧
          p.sequenceId = s.nextId ∧
          p.windowParentLead = leadOf s.nextId s.windowParentId ∧
          p.channelParentLead = leadOf s.nextId chanPar ∧
          p.expiry = (if q.mode = .timeSensitive then some q.flushId else none) ∧
          (resend = true ↔ (q.mode = .persistent ∨ q.mode = .reliable)) ∧
          s' = emitState s q rest total p)) := by
  unfold emit at h
  split at h
  · cases h
  · rename_i queue total hds
    obtain ⟨dropped, h1, h2, h3, _⟩ := dropStale_prefix f s.queue queue s.totalSize total hds
    refine ⟨dropped, queue, total, h1, h2, ?_⟩
    simp only at h
    split at h
    · simp only [Except.ok.injEq, Prod.mk.injEq] at h
      exact .inl ⟨h.2.symm, h.1.symm⟩
    · rename_i q rest
      split at h
      · simp only [Except.ok.injEq, Prod.mk.injEq] at h
        exact .inl ⟨h.2.symm, h.1.symm⟩
      · rename_i hwin
        split at h
        · simp only [Except.ok.injEq, Prod.mk.injEq] at h
          exact .inl ⟨h.2.symm, h.1.symm⟩
        · rename_i hal
          split at h
          · cases h
          · rename_i chanPar hcp
            simp only [Except.ok.injEq, Prod.mk.injEq] at h
            obtain ⟨hs, hr⟩ := h
            refine .inr ⟨q, rest, _, _, chanPar, rfl, hr.symm, h3 q rest rfl, by simpa using hwin,
              by simpa using hal, hcp, rfl, rfl, rfl, rfl, ?_, ?_, rfl, ?_, ?_⟩
            · cases s.windowParentId <;> rfl
            · cases chanPar <;> rfl
            · simp
            · subst hs; rfl

/-- The ghost `consumed` entry is the entry `emit` takes. -/
theorem consumed_eq (s : State) (f : Nat) (dropped : List QEntry) (q : QEntry) (rest : List QEntry)
    (hq : s.queue = dropped ++ q :: rest) (hd : ∀ d ∈ dropped, Stale f d) (hn : ¬ Stale f q) :
    consumed s f = q := by
  unfold consumed
  rw [hq]
  have : List.find? (fun q => decide ¬ Stale f q) (dropped ++ q :: rest) = some q := by
    rw [List.find?_append]
    have h1 : List.find? (fun q => decide ¬ Stale f q) dropped = none := by
      rw [List.find?_eq_none]
      intro x hx
      simpa using hd x hx
    rw [h1]
    simp [hn]
  rw [this]
  rfl

end Uflow.PSend
