import Uflow.Lemmas.CreditEx
import Uflow.Lemmas.SyncEmit
import Uflow.Lemmas.SyncAck

/-!
Concrete half-connection states for the non-vacuity examples of C11 (instance `exOps : FloatOps Nat`
of `Uflow/Lemmas/CreditEx.lean`).
-/

namespace Uflow.SyncEx

open Uflow Uflow.Gen Uflow.Codec Uflow.HalfConn Uflow.Credit Uflow.CreditEx Uflow.SyncCycle

/-- Frame windows of 2 frames, keepalive after 5 s. -/
def cfg2 : Config := { exCfg with txFrameWindowSize := 2, rxFrameWindowSize := 2,
                                  keepaliveIntervalMs := some 5000 }

def s0 : HalfConn.State Nat := init exOps cfg2 0 { fifo := [], state := 0 }

def runFrom (s : HalfConn.State Nat) (evs : List Ev) : HalfConn.State Nat :=
  match Credit.run exOps s evs with
  | .ok (s', _, _) => s'
  | .error _ => s

def fstOk {α : Type} (s : HalfConn.State Nat) (r : R (HalfConn.State Nat × α)) : HalfConn.State Nat :=
  match r with
  | .ok (s', _) => s'
  | .error _ => s

def outOk {α : Type} (r : R (HalfConn.State Nat × List (List Nat) × α)) : List (List Nat) :=
  match r with
  | .ok (_, o, _) => o
  | .error _ => []

/-- Sender `A`: two Unreliable packets sent in two flushes (frames 0 and 1 in flight: the frame
window of 2 is full), then nothing for 3 s; all frames (or all acks) are lost. -/
def exA : HalfConn.State Nat :=
  runFrom s0 [.send [1, 2, 3] 0 .unreliable, .step 0, .flush,
              .send [4, 5] 0 .unreliable, .step 1000000000, .flush, .step 4000000000]

/-- The same one second after the last frame: the sync frame is not yet due. -/
def exAearly : HalfConn.State Nat :=
  runFrom s0 [.send [1, 2, 3] 0 .unreliable, .step 0, .flush,
              .send [4, 5] 0 .unreliable, .step 1000000000, .flush, .step 2000000000]

/-- An idle connection 6 s after its start: only the keepalive is due. -/
def exIdle : HalfConn.State Nat := runFrom s0 [.step 0, .step 6000000000]

/-- `A` after its sync frame. -/
def exA1 : HalfConn.State Nat := fstOk exA (emitSyncFrame exA)

/-- Receiver `B`: the other endpoint, which has received nothing. -/
def exB : HalfConn.State Nat := runFrom s0 [.step 0, .step 4000000000]

/-- `B` after handling `A`'s sync frame `Sync { Some(2), Some(2) }`. -/
def exB1 : HalfConn.State Nat :=
  match handleSyncFrame exB (some 2) (some 2) with
  | .ok s => s
  | .error _ => exB

/-- `A` after handling `B`'s answer `Ack { 2, 2, [] }`. -/
def exA2 : HalfConn.State Nat :=
  match handleAckFrame exA1 2 2 [] with
  | .ok s => s
  | .error _ => exA1

/-- State and frames of a flush (`exA` itself on a trap). -/
def flushOf (s : HalfConn.State Nat) : HalfConn.State Nat × List (List Nat) :=
  match flush s with
  | .ok r => r
  | .error _ => (s, [])

def isOk {α : Type} (r : R α) : Bool :=
  match r with
  | .ok _ => true
  | .error _ => false

/-- `A` after its second flush at 1 s (before the `step` at 4 s that gives `exA`). -/
def exApre : HalfConn.State Nat :=
  runFrom s0 [.send [1, 2, 3] 0 .unreliable, .step 0, .flush,
              .send [4, 5] 0 .unreliable, .step 1000000000, .flush]

/-- `A` just before its first flush (a packet queued, credit 0). -/
def exAfirst : HalfConn.State Nat := runFrom s0 [.send [1, 2, 3] 0 .unreliable, .step 0]

end Uflow.SyncEx
