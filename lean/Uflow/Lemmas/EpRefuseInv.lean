import Uflow.Lemmas.EpNoTrapRun
import Uflow.Lemmas.EndpointServerProv
import Uflow.Lemmas.EndpointServerFrames

/-!
C07 (refusals), part 1: a ghost invariant on pending entries. `PendG G s`: every pending entry
`pending ln rn r al _` of address `a` satisfies `G a rn r al`. It is kept by everything except an
accepted SYN, which must establish `G` for the new entry. Instantiated with "an accepted SYN from
that address carrying these values was handled at an earlier moment" through the datagram loop,
a step and a run.
-/

namespace Uflow.EpRefuse

open Uflow Uflow.Gen Uflow.Codec Uflow.HalfConn Uflow.Endpoint Uflow.EpNoTrap

variable {H : Type}

/-- Every pending entry satisfies `G address remoteNonce remoteMaxReceiveRate remoteMaxReceiveAlloc`. -/
def PendG (G : Nat → Nat → Nat → Nat → Prop) (s : Server H) : Prop :=
  ∀ c ∈ s.clients, ∀ ln rn r al reply, c.state = .pending ln rn r al reply → G c.address rn r al

theorem PendG.mono {G G' : Nat → Nat → Nat → Nat → Prop} {s : Server H} (h : PendG G s)
    (hg : ∀ a n r al, G a n r al → G' a n r al) : PendG G' s :=
  fun c hc ln rn r al reply hst => hg _ _ _ _ (h c hc ln rn r al reply hst)

theorem PendG.of_pendSub {G : Nat → Nat → Nat → Nat → Prop} {s s' : Server H} (h : PendG G s)
    (hsub : ∀ c ∈ s'.clients, c.state.isPending = true → c ∈ s.clients) : PendG G s' :=
  fun c hc ln rn r al reply hst => h c (hsub c hc (by rw [hst]; rfl)) ln rn r al reply hst

theorem PendG.quiet {G : Nat → Nat → Nat → Nat → Prop} {s s' : Server H} (h : PendG G s) (q : Quiet s s') :
    PendG G s' := h.of_pendSub q.pendSub

theorem PendG.of_clients_eq {G : Nat → Nat → Nat → Nat → Prop} {s s' : Server H} (h : PendG G s)
    (he : s'.clients = s.clients) : PendG G s' := by
  intro c hc; rw [he] at hc; exact h c hc

theorem PendG.accept {G : Nat → Nat → Nat → Nat → Prop} {s : Server H} (h : PendG G s) (addr n r a nowMs : Nat)
    (hg : G addr n r a) : PendG G (s.accept addr n r a nowMs) := by
  intro c hc ln rn r' al reply hst
  rcases List.mem_append.1 (show c ∈ s.clients ++ [s.newEntry addr n r a] from hc) with hc | hc
  · exact h c hc ln rn r' al reply hst
  · have hce : c = s.newEntry addr n r a := by simpa using hc
    subst hce
    simp only [Server.newEntry, RState.pending.injEq] at hst
    obtain ⟨_, h2, h3, h4, _⟩ := hst
    subst h2 h3 h4
    exact hg

theorem PendG.init (G : Nat → Nat → Nat → Nat → Prop) (cfg : SrvConfig) (now : Nat) (rng : Rng) :
    PendG G (Server.init cfg now rng : Server H) := by
  intro c hc; simp [Server.init] at hc

/-! ### one SYN frame -/

/-- The server has room for another connection: the negation of the `ServerFull` test of
`handle_handshake_syn`. -/
def Room (s : Server H) : Prop :=
  s.clients.length < s.cfg.maxTotalConnections ∧ s.activeCount < s.cfg.maxActiveConnections

theorem room_iff (s : Server H) : Room s ↔ ¬ s.full := by
  unfold Room Server.full; omega

/-- If a SYN frame led to `accept`, all checks of `handleSyn` passed. -/
theorem accept_only_if {s : Server H} {addr v n r p a nowMs n' r' a' : Nat} {sent : List (Nat × List Nat)}
    (h : s.handleSyn addr v n r p a nowMs = (s.accept addr n' r' a' nowMs, sent)) :
    v = PROTOCOL_VERSION ∧ s.find addr = none ∧ ¬ s.full ∧ ¬ a < s.cfg.ep.maxPacketSize ∧
    ¬ p > s.cfg.ep.maxReceiveAlloc := by
  have hlen : (s.accept addr n' r' a' nowMs).clients.length = s.clients.length + 1 := by
    simp [Server.accept]
  rcases s.handleSyn_cases addr v n r p a nowMs with ⟨_, he⟩ | ⟨_, e, ev, he⟩ | ⟨hf, hv, hfull, h1, h2, _⟩
  · rw [he] at h
    have := congrArg (fun x : Server H × List (Nat × List Nat) => x.1.clients.length) h
    simp only [hlen] at this; omega
  · rw [he] at h
    have := congrArg (fun x : Server H × List (Nat × List Nat) => x.1.clients.length) h
    simp only [hlen, Server.refuse] at this; omega
  · exact ⟨hv, hf, hfull, h1, h2⟩

/-! ### the moment a SYN is accepted -/

/-- The datagram `bytes` from `a`, handled in state `s1`, is a SYN carrying `n r al` that passes all
checks of `handle_handshake_syn` against the configuration `cfg`: it parses (after truncation to
the receive buffer) to `syn v n r p al` with the right version, `max_receive_alloc ≥ cfg.max_packet_size`,
`max_packet_size ≤ cfg.max_receive_alloc`; `a` has no entry in `s1` and neither limit is reached in `s1`. -/
structure SynOkAt (cfg : SrvConfig) (s1 : Server H) (a : Nat) (bytes : List Nat) (n r al : Nat) : Prop where
  syn : ∃ v p, decode (bytes.take MAX_FRAME_SIZE) = some (.syn v n r p al) ∧ v = PROTOCOL_VERSION ∧
    cfg.ep.maxPacketSize ≤ al ∧ p ≤ cfg.ep.maxReceiveAlloc
  cfgEq : s1.cfg = cfg
  unknown : s1.find a = none
  total : s1.clients.length < cfg.maxTotalConnections
  active : s1.activeCount < cfg.maxActiveConnections

/-- Handling such a datagram creates the pending entry and answers with the SYN-ACK. -/
theorem SynOkAt.handled (hc : HC H) {cfg : SrvConfig} {s1 : Server H} {a : Nat} {bytes : List Nat} {n r al : Nat}
    (h : SynOkAt cfg s1 a bytes n r al) (nowMs nowNs : Nat) :
    s1.handleFrames hc [(a, bytes)] nowMs nowNs = .ok (s1.accept a n r al nowMs, [(a, s1.synAckBytes n)]) := by
  obtain ⟨⟨v, p, dec, hv, h1, h2⟩, hcfg, hf, ht, ha⟩ := h
  rw [Server.handleFrames_single, dec]
  subst hv
  simp only [Server.handleFrame]
  rw [Server.handleSyn_accept hf n r p al nowMs ((room_iff s1).1 ⟨by rw [hcfg]; exact ht, by rw [hcfg]; exact ha⟩)
    (by rw [hcfg]; omega) (by rw [hcfg]; omega)]

/-! ### the datagram loop -/

/-- `G0`, or an accepted SYN among the datagrams `pre` already handled by the loop started in `sA`. -/
def GF (hc : HC H) (cfg : SrvConfig) (sA : Server H) (nowMs nowNs : Nat) (G0 : Nat → Nat → Nat → Nat → Prop)
    (pre : List (Nat × List Nat)) (a n r al : Nat) : Prop :=
  G0 a n r al ∨ ∃ pre1 bytes post1 s1 sent1, pre = pre1 ++ (a, bytes) :: post1 ∧
    sA.handleFrames hc pre1 nowMs nowNs = .ok (s1, sent1) ∧ SynOkAt cfg s1 a bytes n r al

theorem GF.snoc {hc : HC H} {cfg : SrvConfig} {sA : Server H} {nowMs nowNs : Nat} {G0 : Nat → Nat → Nat → Nat → Prop}
    {pre : List (Nat × List Nat)} {a n r al : Nat} (h : GF hc cfg sA nowMs nowNs G0 pre a n r al)
    (x : Nat × List Nat) : GF hc cfg sA nowMs nowNs G0 (pre ++ [x]) a n r al := by
  rcases h with h | ⟨pre1, bytes, post1, s1, sent1, e, h1, h2⟩
  · exact Or.inl h
  · exact Or.inr ⟨pre1, bytes, post1 ++ [x], s1, sent1, by rw [e]; simp, h1, h2⟩

theorem handleFrames_snoc (hc : HC H) (s : Server H) (pre : List (Nat × List Nat)) (x : Nat × List Nat)
    (nowMs nowNs : Nat) {b : Server H × List (Nat × List Nat)}
    (h : s.handleFrames hc pre nowMs nowNs = .ok b) :
    s.handleFrames hc (pre ++ [x]) nowMs nowNs =
      match decode (x.2.take MAX_FRAME_SIZE) with
      | none => .ok b
      | some f =>
        match b.1.handleFrame hc x.1 f nowMs nowNs with
        | .error t => .error t
        | .ok (s', sent) => .ok (s', b.2 ++ sent) := by
  unfold Server.handleFrames at h ⊢
  rw [List.foldlM_append, h]
  simp only [List.foldlM_cons, List.foldlM_nil, bind, Except.bind, pure, Except.pure]
  cases decode (x.2.take MAX_FRAME_SIZE) with
  | none => rfl
  | some f =>
    simp only
    cases b.1.handleFrame hc x.1 f nowMs nowNs with
    | error e => rfl
    | ok r => rfl

/-- The datagram loop keeps `s.cfg = cfg`, `WF`, and turns `PendG G0` into `PendG (GF .. arrivals)`. -/
theorem frames_pendG (hc : HC H) {cfg : SrvConfig} {sA : Server H} (hw : sA.WF) (hcfg : sA.cfg = cfg)
    {G0 : Nat → Nat → Nat → Nat → Prop} (hg : PendG G0 sA) (arrivals : List (Nat × List Nat)) (nowMs nowNs : Nat)
    {s' : Server H} {sent : List (Nat × List Nat)}
    (hr : sA.handleFrames hc arrivals nowMs nowNs = .ok (s', sent)) :
    s'.WF ∧ s'.cfg = cfg ∧ PendG (GF hc cfg sA nowMs nowNs G0 arrivals) s' := by
  have hr' := hr
  unfold Server.handleFrames at hr'
  have := foldlM_ok_inv_pre
    (fun (x : Server H × List (Nat × List Nat)) (pre : List (Nat × List Nat)) =>
      sA.handleFrames hc pre nowMs nowNs = .ok x ∧ x.1.WF ∧ x.1.cfg = cfg ∧
        PendG (GF hc cfg sA nowMs nowNs G0 pre) x.1) _ ?_ arrivals [] (sA, []) (s', sent)
    ⟨rfl, hw, hcfg, hg.mono fun _ _ _ _ h => Or.inl h⟩ hr'
  · simp only [List.nil_append] at this
    exact this.2
  · intro b pre x b' ⟨hpre, hbw, hbc, hbg⟩ hf
    have hsn := handleFrames_snoc hc sA pre x nowMs nowNs hpre
    have hmono : PendG (GF hc cfg sA nowMs nowNs G0 (pre ++ [x])) b.1 := hbg.mono fun _ _ _ _ h => h.snoc x
    simp only at hf
    obtain ⟨addr, bytes⟩ := x
    split at hf
    · rename_i hdec
      cases hf
      simp only [hdec] at hsn
      exact ⟨hsn, hbw, hbc, hmono⟩
    · rename_i f hdec
      split at hf
      · cases hf
      · rename_i s1 sent1 hfr
        cases hf
        simp only [hdec, hfr] at hsn
        refine ⟨hsn, ?_⟩
        obtain ⟨hw1, hq | ⟨v, n, r, p, al, hfe, hfind, hfull, hs1, hsent⟩ | ⟨c, na, rn, rate, alloc, reply, _, hfind, hst, hs1, _⟩⟩ :=
          Server.handleFrame_wq hc hbw addr f nowMs nowNs hfr
        · exact ⟨hw1, hq.cfg.trans hbc, hmono.quiet hq⟩
        · subst hs1 hfe
          refine ⟨hw1, hbc, hmono.accept addr n r al nowMs ?_⟩
          simp only [Server.handleFrame, Except.ok.injEq] at hfr
          obtain ⟨hv, _, _, h1, h2⟩ := accept_only_if hfr
          have hroom := (room_iff b.1).2 hfull
          unfold Room at hroom
          rw [hbc] at hroom h1 h2
          exact Or.inr ⟨pre, bytes, [], b.1, b.2, rfl, hpre,
            ⟨⟨v, p, hdec, hv, by omega, by omega⟩, hbc, hfind, hroom.1, hroom.2⟩⟩
        · subst hs1
          exact ⟨hw1, (Server.activate_cfg ..).trans hbc,
            hmono.of_pendSub (Server.activate_pendSub hc hbw (Server.find_some hfind).1 na rn rate alloc nowMs nowNs)⟩

/-! ### one step, one operation -/

/-- `G0`, or an accepted SYN among the arrivals of the step `(nowNs, arrivals)` taken in state `s0`. -/
def GStep (hc : HC H) (cfg : SrvConfig) (s0 : Server H) (nowNs : Nat) (arrivals : List (Nat × List Nat))
    (G0 : Nat → Nat → Nat → Nat → Prop) (a n r al : Nat) : Prop :=
  G0 a n r al ∨ ∃ sA sentA pre1 bytes post1 s1 sent1, s0.flushActive hc = .ok (sA, sentA) ∧
    arrivals = pre1 ++ (a, bytes) :: post1 ∧
    sA.handleFrames hc pre1 ((nowNs - s0.timeBase) / 1000000) nowNs = .ok (s1, sent1) ∧ SynOkAt cfg s1 a bytes n r al

theorem step_pendG (hc : HC H) {cfg : SrvConfig} {s0 : Server H} (hw : s0.WF) (hcfg : s0.cfg = cfg)
    {G0 : Nat → Nat → Nat → Nat → Prop} (hg : PendG G0 s0) (nowNs : Nat) (arrivals : List (Nat × List Nat))
    {s' : Server H} {sent : List (Nat × List Nat)} {evs : List SEvent}
    (hr : s0.step hc nowNs arrivals = .ok (s', sent, evs)) :
    s'.WF ∧ s'.cfg = cfg ∧ PendG (GStep hc cfg s0 nowNs arrivals G0) s' := by
  obtain ⟨ph⟩ := Server.step_phases hc hr
  obtain ⟨s1, sent1, s2, sent2, s4, s6, sent4, hflush, hframes, htimeouts, hstep, hs', hsent, hevs⟩ := ph
  have w1 := Server.flushActive_wq hc hw hflush
  obtain ⟨w2, c2, p2⟩ := frames_pendG hc w1.1 (w1.2.cfg.trans hcfg) (hg.quiet w1.2) arrivals _ nowNs hframes
  have w3 := Server.runTimers_wq (s2.timers.size * 12 + 16) w2 ((nowNs - s0.timeBase) / 1000000) []
  have w4 := Server.activeTimeouts_wq hc w3.1 _ htimeouts
  have w5 := Server.retain_wq w4.1
  have w6 := Server.stepActive_wq hc w5.1 _ nowNs hstep
  have q26 := (w3.2.trans w4.2).trans (w5.2.trans w6.2)
  have p6 := p2.quiet q26
  subst hs'
  refine ⟨w6.1.of_eq rfl rfl rfl rfl rfl, q26.cfg.trans c2, ?_⟩
  refine (PendG.of_clients_eq p6 rfl).mono ?_
  rintro a n r al (h | ⟨pre1, bytes, post1, sx, sentx, e, h1, h2⟩)
  · exact Or.inl h
  · exact Or.inr ⟨s1, sent1, pre1, bytes, post1, sx, sentx, hflush, e, h1, h2⟩

/-- `G0`, or an accepted SYN among the arrivals of the operation `op` applied in `s0`. -/
def GOp (hc : HC H) (cfg : SrvConfig) (s0 : Server H) (op : SOp) (G0 : Nat → Nat → Nat → Nat → Prop)
    (a n r al : Nat) : Prop :=
  G0 a n r al ∨ ∃ nowNs arrivals, op = .step nowNs arrivals ∧ GStep hc cfg s0 nowNs arrivals (fun _ _ _ _ => False) a n r al

theorem apply_pendG (hc : HC H) {cfg : SrvConfig} {s0 : Server H} (hw : s0.WF) (hcfg : s0.cfg = cfg)
    {G0 : Nat → Nat → Nat → Nat → Prop} (hg : PendG G0 s0) (op : SOp)
    {s' : Server H} {sent : List (Nat × List Nat)} {evs : List SEvent}
    (hr : s0.apply hc op = .ok (s', sent, evs)) :
    s'.WF ∧ s'.cfg = cfg ∧ PendG (GOp hc cfg s0 op G0) s' := by
  have hmono : ∀ {s1 : Server H}, Quiet s0 s1 → s1.cfg = cfg ∧ PendG (GOp hc cfg s0 op G0) s1 :=
    fun q => ⟨q.cfg.trans hcfg, (hg.quiet q).mono fun _ _ _ _ h => Or.inl h⟩
  cases op with
  | step nowNs arr =>
    obtain ⟨w, c, p⟩ := step_pendG hc hw hcfg hg nowNs arr hr
    refine ⟨w, c, p.mono ?_⟩
    rintro a n r al (h | h)
    · exact Or.inl h
    · exact Or.inr ⟨nowNs, arr, rfl, Or.inr h⟩
  | flush =>
    simp only [Server.apply, Server.flush] at hr
    split at hr
    · cases hr
    · rename_i s1 sent1 hfl
      cases hr
      have := Server.flushActive_wq hc hw hfl
      exact ⟨this.1, hmono this.2⟩
  | drop addr =>
    simp only [Server.apply, Except.ok.injEq, Prod.mk.injEq] at hr
    obtain ⟨rfl, _, _⟩ := hr
    have := Server.drop_wq hw addr
    exact ⟨this.1, hmono this.2⟩
  | disconnect addr m =>
    simp only [Server.apply, Except.ok.injEq, Prod.mk.injEq] at hr
    obtain ⟨rfl, _, _⟩ := hr
    have := Server.disconnect_wq hw addr m
    exact ⟨this.1, hmono this.2⟩
  | send addr data chan mode =>
    simp only [Server.apply, Except.ok.injEq, Prod.mk.injEq] at hr
    obtain ⟨rfl, _, _⟩ := hr
    have := Server.send_wq hc hw addr data chan mode
    exact ⟨this.1, hmono this.2⟩

/-! ### runs -/

/-- **The moment a SYN was accepted during a run.** During the run of `sops` from `s`, the datagram
`(a, bytes)` was handled in state `s1`: it is one of the arrivals of a `step` of the run, `s1` is the
state of the datagram loop of that step just before this datagram (after the operations before that
step, the flush phase of the step and the datagrams before it). -/
def HandledIn (hc : HC H) (s : Server H) (sops : List SOp) (a : Nat) (bytes : List Nat) (s1 : Server H) : Prop :=
  ∃ sops1 nowNs pre post sops2 s0 sent0 evs0 sA sentA sent1,
    sops = sops1 ++ SOp.step nowNs (pre ++ (a, bytes) :: post) :: sops2 ∧
    runS hc s sops1 = .ok (s0, sent0, evs0) ∧
    s0.flushActive hc = .ok (sA, sentA) ∧
    sA.handleFrames hc pre ((nowNs - s0.timeBase) / 1000000) nowNs = .ok (s1, sent1)

/-- An accepted SYN from `a` carrying `n r al` was handled during the run of `sops` from `s`. -/
def GRun (hc : HC H) (cfg : SrvConfig) (s : Server H) (sops : List SOp) (a n r al : Nat) : Prop :=
  ∃ bytes s1, HandledIn hc s sops a bytes s1 ∧ SynOkAt cfg s1 a bytes n r al

theorem HandledIn.cons {hc : HC H} {s s1' : Server H} {op : SOp} {sent1 : List (Nat × List Nat)} {evs1 : List SEvent}
    (hap : s.apply hc op = .ok (s1', sent1, evs1)) {rest : List SOp} {a : Nat} {bytes : List Nat} {s1 : Server H}
    (h : HandledIn hc s1' rest a bytes s1) : HandledIn hc s (op :: rest) a bytes s1 := by
  obtain ⟨sops1, nowNs, pre, post, sops2, s0, sent0, evs0, sA, sentA, sentx, e, hrun, hfl, hfr⟩ := h
  refine ⟨op :: sops1, nowNs, pre, post, sops2, s0, sent1 ++ sent0, evs1 ++ evs0, sA, sentA, sentx, by rw [e]; rfl, ?_, hfl, hfr⟩
  simp only [runS, hap, hrun]

theorem HandledIn.append {hc : HC H} {s : Server H} {sops : List SOp} {a : Nat} {bytes : List Nat} {s1 : Server H}
    (h : HandledIn hc s sops a bytes s1) (more : List SOp) : HandledIn hc s (sops ++ more) a bytes s1 := by
  obtain ⟨sops1, nowNs, pre, post, sops2, s0, sent0, evs0, sA, sentA, sentx, e, hrun, hfl, hfr⟩ := h
  exact ⟨sops1, nowNs, pre, post, sops2 ++ more, s0, sent0, evs0, sA, sentA, sentx, by rw [e]; simp, hrun, hfl, hfr⟩

/-- Along a run: `WF`, the configuration, and every pending entry stems from `G0` or from an
accepted SYN handled during the run. -/
theorem runS_pendG (hc : HC H) {cfg : SrvConfig} (sops : List SOp) :
    ∀ {s : Server H} {G0 : Nat → Nat → Nat → Nat → Prop}, s.WF → s.cfg = cfg → PendG G0 s →
    ∀ {s' : Server H} {sent : List (Nat × List Nat)} {evs : List SEvent},
    runS hc s sops = .ok (s', sent, evs) →
    s'.WF ∧ s'.cfg = cfg ∧ PendG (fun a n r al => G0 a n r al ∨ GRun hc cfg s sops a n r al) s' := by
  induction sops with
  | nil =>
    intro s G0 hw hcfg hg s' sent evs hr
    simp only [runS, Except.ok.injEq, Prod.mk.injEq] at hr
    obtain ⟨rfl, _, _⟩ := hr
    exact ⟨hw, hcfg, hg.mono fun _ _ _ _ h => Or.inl h⟩
  | cons op rest ih =>
    intro s G0 hw hcfg hg s' sent evs hr
    simp only [runS] at hr
    split at hr
    · cases hr
    · rename_i s1 sent1 evs1 hap
      split at hr
      · cases hr
      · rename_i s2 sent2 evs2 hrest
        simp only [Except.ok.injEq, Prod.mk.injEq] at hr
        obtain ⟨rfl, _, _⟩ := hr
        obtain ⟨w1, c1, p1⟩ := apply_pendG hc hw hcfg hg op hap
        obtain ⟨w2, c2, p2⟩ := ih w1 c1 p1 hrest
        refine ⟨w2, c2, p2.mono ?_⟩
        rintro a n r al ((h | ⟨nowNs, arr, rfl, h | ⟨sA, sentA, pre1, bytes, post1, sx, sentx, hfl, e, hfr, hok⟩⟩) | ⟨bytes, sx, hin, hok⟩)
        · exact Or.inl h
        · exact h.elim
        · subst e
          exact Or.inr ⟨bytes, sx, ⟨[], nowNs, pre1, post1, rest, s, [], [], sA, sentA, sentx, rfl, rfl, hfl, hfr⟩, hok⟩
        · exact Or.inr ⟨bytes, sx, hin.cons hap, hok⟩

/-! ### `runS` and `SRun` -/

theorem runS_SRun (hc : HC H) (cfg : SrvConfig) (sops : List SOp) :
    ∀ {s : Server H} {rx tx : List (Nat × List Nat)} {ev : List SEvent}, SRun hc cfg s rx tx ev →
    ∀ {s' : Server H} {sent : List (Nat × List Nat)} {evs : List SEvent},
    runS hc s sops = .ok (s', sent, evs) →
    ∃ rx', SRun hc cfg s' rx' (tx ++ sent) (ev ++ evs) := by
  induction sops with
  | nil =>
    intro s rx tx ev h s' sent evs hr
    simp only [runS, Except.ok.injEq, Prod.mk.injEq] at hr
    obtain ⟨rfl, rfl, rfl⟩ := hr
    exact ⟨rx, by simpa using h⟩
  | cons op rest ih =>
    intro s rx tx ev h s' sent evs hr
    simp only [runS] at hr
    split at hr
    · cases hr
    · rename_i s1 sent1 evs1 hap
      split at hr
      · cases hr
      · rename_i s2 sent2 evs2 hrest
        simp only [Except.ok.injEq, Prod.mk.injEq] at hr
        obtain ⟨rfl, rfl, rfl⟩ := hr
        obtain ⟨rx', h'⟩ := ih (SRun.op op h hap) hrest
        exact ⟨rx', by simpa [List.append_assoc] using h'⟩

/-- Splitting a run at the operation that delivered a given event. -/
theorem runS_event_split (hc : HC H) (sops : List SOp) :
    ∀ {s s' : Server H} {sent : List (Nat × List Nat)} {evs : List SEvent},
    runS hc s sops = .ok (s', sent, evs) → ∀ e ∈ evs,
    ∃ sops1 op sops2 s0 sent0 evs0 s1 sent1 evs1, sops = sops1 ++ op :: sops2 ∧
      runS hc s sops1 = .ok (s0, sent0, evs0) ∧ s0.apply hc op = .ok (s1, sent1, evs1) ∧ e ∈ evs1 := by
  induction sops with
  | nil =>
    intro s s' sent evs hr e he
    simp only [runS, Except.ok.injEq, Prod.mk.injEq] at hr
    obtain ⟨_, _, rfl⟩ := hr
    cases he
  | cons op rest ih =>
    intro s s' sent evs hr e he
    simp only [runS] at hr
    split at hr
    · cases hr
    · rename_i s1 sent1 evs1 hap
      split at hr
      · cases hr
      · rename_i s2 sent2 evs2 hrest
        simp only [Except.ok.injEq, Prod.mk.injEq] at hr
        obtain ⟨rfl, rfl, rfl⟩ := hr
        rcases List.mem_append.1 he with he | he
        · exact ⟨[], op, rest, s, [], [], s1, sent1, evs1, rfl, rfl, hap, he⟩
        · obtain ⟨sops1, op', sops2, s0, sent0, evs0, sx, sentx, evsx, e1, e2, e3, e4⟩ := ih hrest e he
          refine ⟨op :: sops1, op', sops2, s0, sent1 ++ sent0, evs1 ++ evs0, sx, sentx, evsx, by rw [e1]; rfl, ?_, e3, e4⟩
          simp only [runS, hap, e2]

end Uflow.EpRefuse
