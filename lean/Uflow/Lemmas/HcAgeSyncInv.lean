import Uflow.Lemmas.HcAgeSyncRecv
import Uflow.Lemmas.HcAgeMain

/-!
C01AgeSync, part 2: the invariant `SyncInv` of the aged pair.
* `en`: `B`'s unwrapped `end_id` (hence its window base `advB`) is at most the largest emission stamp of
  a frame on `wireAB` — `B` learns about packet ids only from frames: a data frame with stamp `T` carries
  datagrams of positions `< T`, a sync frame with stamp `T` carries the id of position `T`;
* `st`: consecutive frames of `wireAB` have stamps at most `w` apart — `A` assigns ids only while its
  send window has room, and the base of the send window is at most `advB`;
* `dg`: the datagram clause of `AgeInv` with the upper bound `i < T`.
-/

namespace Uflow.HcAge

open Uflow Uflow.Gen Uflow.Codec Uflow.HalfConn Uflow.PSend Uflow.HcSys Uflow.HcFrm Uflow.HcCov Uflow.Sys
open Uflow.PRecv (bindR bindR_ok pidSub_def pidAdd_def pidSub_self)
open Uflow.Rate (FloatOps)

variable {F : Type}

/-- The largest element of a list of stamps (0 for the empty list). -/
def topT (l : List Nat) : Nat := l.foldr max 0

theorem le_topT {l : List Nat} {T : Nat} (h : T ∈ l) : T ≤ topT l := by
  induction l with
  | nil => cases h
  | cons a l ih =>
    simp only [topT, List.foldr_cons]
    rcases List.mem_cons.mp h with rfl | h
    · exact Nat.le_max_left _ _
    · exact Nat.le_trans (ih h) (Nat.le_max_right _ _)

theorem topT_le {l : List Nat} {c : Nat} (h : ∀ T ∈ l, T ≤ c) : topT l ≤ c := by
  induction l with
  | nil => exact Nat.zero_le _
  | cons a l ih =>
    simp only [topT, List.foldr_cons]
    exact Nat.max_le.mpr ⟨h a (List.mem_cons_self ..), ih (fun T hT => h T (List.mem_cons_of_mem _ hT))⟩

theorem topT_append_le (l1 l2 : List Nat) : topT l1 ≤ topT (l1 ++ l2) :=
  topT_le (fun _ hT => le_topT (List.mem_append_left _ hT))

structure SyncInv (w : Nat) (x : Aged F) : Prop where
  dg : ∀ (j : Nat) (bytes : List Nat) (T : Nat), x.h.wireAB[j]? = some bytes → x.h.wireT[j]? = some T →
    WireOk (fun d => ∃ i, IsFrag x.h.pend i d ∧ i < T ∧ T ≤ i + w) (fun _ => True) bytes
  en : x.h.advB + endOff x.h.B.pr ≤ topT x.h.wireT
  st : ∀ (k T : Nat), x.h.wireT[k]? = some T → topT x.h.wireT ≤ T + w * (x.h.wireT.length - (k + 1))

theorem syncInv_init (ops : FloatOps F) (w : Nat) (cA cB : Config) (nowA nowB : Nat) (rngA rngB : Rng) :
    SyncInv w (aged0 (initP ops cA cB nowA nowB rngA rngB)) where
  dg := by intro j bytes T h; simp [aged0, initP] at h
  en := by
    show 0 + pidSub cB.rxPacketBaseId cB.rxPacketBaseId ≤ 0
    have := pidSub_self cB.rxPacketBaseId
    omega
  st := by intro k T h; simp [aged0, initP] at h

/-- A step that leaves `wireAB`, its stamps, the emission history, `B`'s packet receiver and `advB`
alone. -/
theorem syncInv_of_same {w : Nat} {x : Aged F} (hS : SyncInv w x) (h' : HcPair F) (t : List Nat)
    (e1 : h'.wireAB = x.h.wireAB) (e2 : h'.wireT = x.h.wireT) (e3 : h'.pend = x.h.pend)
    (e4 : h'.B.pr = x.h.B.pr) (e5 : h'.advB = x.h.advB) : SyncInv w ⟨h', t⟩ := by
  refine ⟨?_, ?_, ?_⟩
  · intro j bytes T h1 h2
    simp only [e1, e2] at h1 h2
    simp only [e3]
    exact hS.dg j bytes T h1 h2
  · simp only [e2, e4, e5]; exact hS.en
  · simp only [e2]; exact hS.st

/-- The facts about the state of the pair (through the related `Sys` state) used by the step. -/
structure PFacts (w k b : Nat) (h : HcPair F) : Prop where
  base : h.B.pr.baseId = (b + h.advB) % 2^20
  inv : ∃ M, PRecv.Inv (2^k) M h.B.pr ∧ PRecv.Ord (2^k) h.B.pr ∧
    ∃ log, PRecv.GI (2^k) b h.advB log h.B.pr
  seq : ∀ i d, IsFrag h.pend i d → d.sequenceId = pidAdd b i
  syn : ∀ n id, (n, id) ∈ h.syncs → id = (b + n) % 2^20
  hi : h.advB ≤ h.pend.length
  win : h.pend.length ≤ h.advB + w

theorem pfacts_of_full {w k b a m : Nat} (H : SHyp w k b) {h : HcPair F} {s : Sys}
    (hF : Full w k b a m h s) : PFacts w k b h := by
  obtain ⟨hinv, _, _⟩ := reach_invs H hF.reach
  have hr := hF.rel
  refine ⟨?_, ⟨allocCeil m, ?_, ?_, s.rcv.log, ?_⟩, ?_, ?_, ?_, ?_⟩
  · rw [← hr.rcv, ← hr.adv]; exact hinv.rcv.gi.gbase
  · rw [← hr.rcv]; exact hinv.rcv.inv
  · rw [← hr.rcv]; exact hinv.rcv.ord
  · rw [← hr.rcv, ← hr.adv]; exact hinv.rcv.gi
  · rintro i d ⟨p, fid, hp, hf, hd⟩
    rw [← hr.pend] at hp
    obtain ⟨-, e, he, -, -, hseq, -⟩ := hinv.snd.plink i p hp
    rw [datagram_seq p fid d hd, ← hseq]
    exact (hinv.snd.hinv.ids i e he).2.1
  · intro n id hm
    exact (hinv.syncs n id (hr.syncs _ hm)).2
  · rw [← hr.adv, ← hr.pend, ← hr.elen]; exact hinv.hi
  · have hlo := hinv.lo
    have hwl : s.snd.win.length = h.A.ps.win.length := by rw [hr.snd]; simp [erase]
    have h1 := (hinv_win hinv.snd.hinv (by have := H.hw; omega)).2.1
    rw [hr.elen, hr.pend, hr.adv] at hlo
    omega

/-- Position of a datagram that lies in `B`'s receive window. -/
theorem dg_pos {w k b D : Nat} (hw : w ≤ 2^16) (hD : D + w + 2^k < 2^20)
    (adv P i T seq base : Nat) (hbase : base = (b + adv) % 2^20) (hseq : seq = pidAdd b i)
    (h1 : i < T) (h2 : T ≤ i + w) (h3 : P ≤ T + D) (h4 : adv ≤ P) (h5 : P ≤ adv + w) (h6 : T ≤ P)
    (hin : pidSub seq base < 2^k) : adv + pidSub seq base = i := by
  subst hbase hseq
  simp only [pidSub_def, pidAdd_def] at hin ⊢
  omega

/-- Position named by a sync frame on which `resynchronize` acts. -/
theorem sync_pos {w k b D : Nat} (hw : w ≤ 2^16) (hD : D + w + 2^k < 2^20)
    (adv P T id base : Nat) (hbase : base = (b + adv) % 2^20) (hid : id = (b + T) % 2^20)
    (h3 : P ≤ T + D) (h4 : adv ≤ P) (h5 : P ≤ adv + w) (h6 : T ≤ P)
    (hin : pidSub id base ≤ 2^k) : adv + pidSub id base = T := by
  subst hbase hid
  simp only [pidSub_def] at hin ⊢
  omega

end Uflow.HcAge
