import Uflow.Lemmas.PSendHist

/-!
The invariant linking the sender state to its ghost history (`PSendHist.lean`) and its
preservation by the four operations.
-/

namespace Uflow.PSend

open Uflow Uflow.Gen
open Uflow.Props.C20 (Op)

/-! ### 20-bit id arithmetic -/

theorem pidAdd_succ (b n : Nat) : pidAdd (pidAdd b n) 1 = pidAdd b (n+1) := by
  simp only [pidAdd, PACKET_ID_SPAN]; omega

theorem pidAdd_zero (b : Nat) (hb : b < 2^20) : pidAdd b 0 = b := by
  simp only [pidAdd, PACKET_ID_SPAN]; omega

theorem pidAdd_lt (b n : Nat) : pidAdd b n < 2^20 := by
  simp only [pidAdd, PACKET_ID_SPAN]; omega

theorem pidSub_pidAdd (b i j : Nat) (hij : j ≤ i) (h : i - j < 2^20) :
    pidSub (pidAdd b i) (pidAdd b j) = i - j := by
  simp only [pidAdd, pidSub, PACKET_ID_SPAN]; omega

theorem pidAdd_inj (b i j : Nat) (h : i ≤ j) (hlt : j - i < 2^20)
    (he : pidAdd b i = pidAdd b j) : i = j := by
  simp only [pidAdd, PACKET_ID_SPAN] at he; omega

/-! ### lists -/

theorem getElem?_snoc_some {α : Type} (l : List α) (a x : α) (i : Nat)
    (h : (l ++ [a])[i]? = some x) : l[i]? = some x ∨ (i = l.length ∧ x = a) := by
  by_cases hi : i < l.length
  · rw [List.getElem?_append_left hi] at h; exact .inl h
  · rw [List.getElem?_append_right (by omega)] at h
    right
    cases hk : i - l.length with
    | zero => rw [hk] at h; simp at h; exact ⟨by omega, h.symm⟩
    | succ k => rw [hk] at h; simp at h

/-! ### the parent pointers -/

/-- `par` is the sequence id of the last entry of `wl` satisfying `P`; `none` if no entry does. -/
def LastIn (P : Emitted → Prop) (wl : List Emitted) : Option Nat → Prop
  | none => ∀ x ∈ wl, ¬ P x
  | some pid => ∃ pre x post, wl = pre ++ x :: post ∧ x.sequenceId = pid ∧ P x ∧ ∀ y ∈ post, ¬ P y

theorem lastIn_snoc_new (P : Emitted → Prop) (wl : List Emitted) (e : Emitted) (hp : P e) :
    LastIn P (wl ++ [e]) (some e.sequenceId) :=
  ⟨wl, e, [], rfl, rfl, hp, by simp⟩

theorem lastIn_snoc_not (P : Emitted → Prop) (wl : List Emitted) (e : Emitted) (par : Option Nat)
    (hp : ¬ P e) (h : LastIn P wl par) : LastIn P (wl ++ [e]) par := by
  cases par with
  | none =>
    intro x hx
    simp only [List.mem_append, List.mem_singleton] at hx
    rcases hx with hx | rfl
    · exact h x hx
    · exact hp
  | some pid =>
    obtain ⟨pre, x, post, h1, h2, h3, h4⟩ := h
    refine ⟨pre, x, post ++ [e], by rw [h1]; simp, h2, h3, ?_⟩
    intro y hy
    simp only [List.mem_append, List.mem_singleton] at hy
    rcases hy with hy | rfl
    · exact h4 y hy
    · exact hp

theorem lastIn_head (P : Emitted → Prop) (y : Emitted) (wl' : List Emitted)
    (h : LastIn P (y :: wl') (some y.sequenceId))
    (hd : ∀ x ∈ wl', x.sequenceId ≠ y.sequenceId) : P y ∧ LastIn P wl' none := by
  obtain ⟨pre, x, post, h1, h2, h3, h4⟩ := h
  cases pre with
  | nil =>
    simp only [List.nil_append, List.cons.injEq] at h1
    obtain ⟨rfl, rfl⟩ := h1
    exact ⟨h3, h4⟩
  | cons z pre' =>
    simp only [List.cons_append, List.cons.injEq] at h1
    obtain ⟨rfl, rfl⟩ := h1
    exact absurd h2 (hd x (by simp))

theorem lastIn_tail (P : Emitted → Prop) (y : Emitted) (wl' : List Emitted) (par : Option Nat)
    (h : LastIn P (y :: wl') par) (hne : par ≠ some y.sequenceId) : LastIn P wl' par := by
  cases par with
  | none => intro x hx; exact h x (List.mem_cons_of_mem _ hx)
  | some pid =>
    obtain ⟨pre, x, post, h1, h2, h3, h4⟩ := h
    cases pre with
    | nil =>
      simp only [List.nil_append, List.cons.injEq] at h1
      obtain ⟨rfl, rfl⟩ := h1
      exact absurd (by rw [h2]) hne
    | cons z pre' =>
      simp only [List.cons_append, List.cons.injEq] at h1
      obtain ⟨rfl, rfl⟩ := h1
      exact ⟨pre', x, post, rfl, h2, h3, h4⟩

/-! ### what a parent lead means in terms of emission positions -/

/-- `lead` is the parent lead, for the packets satisfying `P`, of the packet emitted at position `i`
of `em` when `out` packets were outstanding (in the window) at that time: either no packet among the
`out` most recent ones satisfies `P` and `lead = 0`, or `lead` is the (16-bit truncated) distance
back to the most recent one that does. -/
def ParentLead (P : Emitted → Prop) (em : List Emitted) (i out lead : Nat) : Prop :=
  (lead = 0 ∧ ∀ j x, em[j]? = some x → j < i → i - j ≤ out → ¬ P x) ∨
  (∃ j x, em[j]? = some x ∧ j < i ∧ i - j ≤ out ∧ P x ∧
     (∀ k y, em[k]? = some y → j < k → k < i → ¬ P y) ∧ lead = (i - j) % 2^16)

theorem ParentLead.append {P : Emitted → Prop} {em : List Emitted} (l : List Emitted) {i out lead : Nat}
    (hi : i ≤ em.length) (h : ParentLead P em i out lead) : ParentLead P (em ++ l) i out lead := by
  have key : ∀ j, j < i → (em ++ l)[j]? = em[j]? := fun j hj => List.getElem?_append_left (by omega)
  rcases h with ⟨h0, hn⟩ | ⟨j, x, hj, hji, ho, hp, hk, hl⟩
  · left
    refine ⟨h0, ?_⟩
    intro j x hx hji
    rw [key j hji] at hx
    exact hn j x hx hji
  · right
    refine ⟨j, x, by rw [key j hji]; exact hj, hji, ho, hp, ?_, hl⟩
    intro k y hy hjk hki
    rw [key k hki] at hy
    exact hk k y hy hjk hki

theorem parentLead_of_lastIn (P : Emitted → Prop) (b0 : Nat) (old wl : List Emitted) (par : Option Nat)
    (hids : ∀ j x, (old ++ wl)[j]? = some x → x.sequenceId = pidAdd b0 j)
    (hlen : wl.length < 2^20) (h : LastIn P wl par) :
    ParentLead P (old ++ wl) (old ++ wl).length wl.length
      (leadOf (pidAdd b0 (old ++ wl).length) par) := by
  cases par with
  | none =>
    left
    refine ⟨rfl, ?_⟩
    intro j x hx hj ho
    simp only [List.length_append] at hj ho
    rw [List.getElem?_append_right (by omega)] at hx
    exact h x (List.mem_of_getElem? hx)
  | some pid =>
    obtain ⟨pre, x, post, h1, h2, h3, h4⟩ := h
    subst h1
    right
    have hx : (old ++ (pre ++ x :: post))[old.length + pre.length]? = some x := by
      rw [List.getElem?_append_right (by omega)]
      rw [List.getElem?_append_right (by omega)]
      have : old.length + pre.length - old.length - pre.length = 0 := by omega
      rw [this]; rfl
    have hpid := hids _ _ hx
    simp only [List.length_append, List.length_cons] at hlen ⊢
    refine ⟨old.length + pre.length, x, hx, by omega, by omega, h3, ?_, ?_⟩
    · intro k y hy hjk hki
      rw [List.getElem?_append_right (by omega)] at hy
      rw [List.getElem?_append_right (by omega)] at hy
      have : k - old.length - pre.length = (k - old.length - pre.length - 1) + 1 := by omega
      rw [this, List.getElem?_cons_succ] at hy
      exact h4 y (List.mem_of_getElem? hy)
    · simp only [leadOf]
      rw [← h2, hpid, pidSub_pidAdd _ _ _ (by omega) (by omega)]

/-! ### the invariant -/

/-- Reliable packets (any channel). -/
def relP (x : Emitted) : Prop := x.mode = .reliable

/-- Reliable packets of channel `c`. -/
def relChanP (c : Nat) (x : Emitted) : Prop := x.mode = .reliable ∧ x.channelId = c

/-- Queue entries that are not TimeSensitive. -/
def notTS (q : QEntry) : Bool := decide (q.mode ≠ .timeSensitive)

/-- The window part: the emitted packets split into those that left the window (`old`) and those
still in it (`wl`, one per window entry). -/
structure WinInv (b0 W : Nat) (s : State) (em old wl : List Emitted) : Prop where
  em_eq : em = old ++ wl
  wlen : wl.length = s.win.length
  wle : wl.length ≤ W
  base : s.baseId = pidAdd b0 old.length
  chans : s.win.map (·.channelId) = wl.map (·.channelId)
  wpar : LastIn relP wl s.windowParentId
  cpar : ∀ c par, s.chanParent[c]? = some par → LastIn (relChanP c) wl par

structure HInv (b0 W : Nat) (s : State) (h : Hist) : Prop where
  wsz : s.windowSize = W
  win : ∃ old wl, WinInv b0 W s h.emitted old wl
  clen : s.chanParent.length = 64
  nuid : s.nextUid = h.emitted.length
  nid : s.nextId = pidAdd b0 h.emitted.length
  ids : ∀ j x, h.emitted[j]? = some x → x.uid = j ∧ x.sequenceId = pidAdd b0 j ∧ x.channelId < 64
  leads : ∀ i e, h.emitted[i]? = some e →
    ParentLead relP h.emitted i (pidSub e.sequenceId e.baseAt) e.windowParentLead ∧
    ParentLead (relChanP e.channelId) h.emitted i (pidSub e.sequenceId e.baseAt) e.channelParentLead ∧
    pidSub e.sequenceId e.baseAt < W ∧ pidSub e.sequenceId e.baseAt ≤ i ∧
    e.baseAt = pidAdd b0 (i - pidSub e.sequenceId e.baseAt)
  order : (h.emitted.map Emitted.toQ ++ s.queue).Sublist h.enqueued ∧
    h.enqueued.filter notTS = (h.emitted.map Emitted.toQ ++ s.queue).filter notTS
  alloc : s.alloc ≤ s.maxAlloc

theorem hinv_init (b0 W a : Nat) (hb : b0 < 2^20) : HInv b0 W (init W b0 a) {} := by
  refine ⟨rfl, ⟨[], [], ⟨rfl, rfl, Nat.zero_le _, ?_, rfl, ?_, ?_⟩⟩, ?_, rfl, ?_, ?_, ?_, ?_, ?_⟩
  · exact (pidAdd_zero b0 hb).symm
  · intro x hx; cases hx
  · intro c par hc
    simp only [init, CHANNEL_COUNT] at hc
    rw [List.getElem?_replicate] at hc
    split at hc
    · cases hc; intro x hx; cases hx
    · cases hc
  · simp [init, CHANNEL_COUNT]
  · exact (pidAdd_zero b0 hb).symm
  · intro j x hx; simp at hx
  · intro j x hx; simp at hx
  · simp [init]
  · simp [init]

theorem order_drop (A D Q E : List QEntry) (hD : ∀ d ∈ D, d.mode = .timeSensitive)
    (h : (A ++ (D ++ Q)).Sublist E ∧ E.filter notTS = (A ++ (D ++ Q)).filter notTS) :
    (A ++ Q).Sublist E ∧ E.filter notTS = (A ++ Q).filter notTS := by
  refine ⟨List.Sublist.trans ?_ h.1, ?_⟩
  · exact List.Sublist.append (List.Sublist.refl A) (List.sublist_append_right D Q)
  · rw [h.2]
    have : D.filter notTS = [] := by
      rw [List.filter_eq_nil_iff]
      intro d hd
      simp [notTS, hD d hd]
    simp only [List.filter_append, this, List.nil_append]

theorem hinv_enqueue (b0 W : Nat) (s : State) (h : Hist) (d : List Nat) (c : Nat) (m : SendMode) (f : Nat)
    (hi : HInv b0 W s h) :
    HInv b0 W (enqueue s d c m f)
      { h with enqueued := h.enqueued ++ [{ data := d, channelId := c, mode := m, flushId := f }] } := by
  obtain ⟨old, wl, wi⟩ := hi.win
  refine ⟨hi.wsz, ⟨old, wl, ⟨wi.em_eq, wi.wlen, wi.wle, wi.base, wi.chans, wi.wpar, wi.cpar⟩⟩, hi.clen,
    hi.nuid, hi.nid, hi.ids, hi.leads, ?_, hi.alloc⟩
  simp only [enqueue]
  rw [← List.append_assoc]
  refine ⟨List.Sublist.append hi.order.1 (List.Sublist.refl _), ?_⟩
  rw [List.filter_append, List.filter_append _ [_], hi.order.2]

theorem hinv_emit_none (b0 W : Nat) (s : State) (h : Hist) (f : Nat) (hi : HInv b0 W s h)
    (dropped queue : List QEntry) (total : Nat)
    (hq : s.queue = dropped ++ queue) (hd : ∀ d ∈ dropped, Stale f d) :
    HInv b0 W { s with queue := queue, totalSize := total } h := by
  obtain ⟨old, wl, wi⟩ := hi.win
  refine ⟨hi.wsz, ⟨old, wl, ⟨wi.em_eq, wi.wlen, wi.wle, wi.base, wi.chans, wi.wpar, wi.cpar⟩⟩, hi.clen,
    hi.nuid, hi.nid, hi.ids, hi.leads, ?_, hi.alloc⟩
  have := hi.order
  rw [hq] at this
  exact order_drop _ dropped queue _ (fun d h => (hd d h).1) this

theorem hinv_emit_some (b0 W : Nat) (hW : W < 2^20) (s : State) (h : Hist) (f : Nat)
    (hi : HInv b0 W s h) (dropped : List QEntry) (q : QEntry) (rest : List QEntry) (total : Nat)
    (p : Pending) (chanPar : Option Nat)
    (hq : s.queue = dropped ++ q :: rest) (hd : ∀ d ∈ dropped, Stale f d) (hns : ¬ Stale f q)
    (hwin : pidSub s.nextId s.baseId < s.windowSize)
    (hal : s.alloc + allocSize q.data.length ≤ s.maxAlloc)
    (hcp : s.chanParent[q.channelId]? = some chanPar)
    (hpu : p.uid = s.nextUid) (hpd : p.data = q.data) (hpc : p.channelId = q.channelId)
    (hps : p.sequenceId = s.nextId)
    (hpw : p.windowParentLead = leadOf s.nextId s.windowParentId)
    (hpcl : p.channelParentLead = leadOf s.nextId chanPar) :
    HInv b0 W (emitState s q rest total p) { h with emitted := h.emitted ++ [mkEmitted s f p] } := by
  obtain ⟨old, wl, wi⟩ := hi.win
  have hcons := consumed_eq s f dropped q rest hq hd hns
  generalize he : mkEmitted s f p = e
  have e_uid : e.uid = s.nextUid := by rw [← he]; exact hpu
  have e_seq : e.sequenceId = s.nextId := by rw [← he]; exact hps
  have e_chan : e.channelId = q.channelId := by rw [← he]; exact hpc
  have e_mode : e.mode = q.mode := by rw [← he]; simp only [mkEmitted, hcons]
  have e_toQ : e.toQ = q := by rw [← he]; simp only [mkEmitted, Emitted.toQ, hcons, hpd, hpc]
  have e_base : e.baseAt = s.baseId := by rw [← he]; rfl
  have e_wpl : e.windowParentLead = leadOf s.nextId s.windowParentId := by rw [← he]; exact hpw
  have e_cpl : e.channelParentLead = leadOf s.nextId chanPar := by rw [← he]; exact hpcl
  have hn : h.emitted.length = old.length + wl.length := by rw [wi.em_eq, List.length_append]
  have hwle := wi.wle
  have hspan : pidSub s.nextId s.baseId = wl.length := by
    rw [hi.nid, wi.base, pidSub_pidAdd _ _ _ (by omega) (by omega)]; omega
  have hlt : wl.length < W := by rw [← hspan, ← hi.wsz]; exact hwin
  have hclt : q.channelId < 64 := by
    rw [← hi.clen]
    exact (List.getElem?_eq_some_iff.mp hcp).1
  have hidsW : ∀ j x, (old ++ wl)[j]? = some x → x.sequenceId = pidAdd b0 j := by
    intro j x hx; rw [← wi.em_eq] at hx; exact (hi.ids j x hx).2.1
  refine ⟨hi.wsz, ⟨old, wl ++ [e], ⟨?_, ?_, ?_, wi.base, ?_, ?_, ?_⟩⟩, ?_, ?_, ?_, ?_, ?_, ?_, hal⟩
  · simp only [wi.em_eq, List.append_assoc]
  · simp [emitState, wi.wlen]
  · simp only [List.length_append, List.length_cons, List.length_nil]; omega
  · simp [emitState, wi.chans, e_chan]
  · -- window parent
    simp only [emitState]
    by_cases hrel : q.mode = .reliable
    · rw [if_pos hrel, ← e_seq]
      exact lastIn_snoc_new _ _ _ (by rw [relP, e_mode]; exact hrel)
    · rw [if_neg hrel]
      exact lastIn_snoc_not _ _ _ _ (by rw [relP, e_mode]; exact hrel) wi.wpar
  · -- channel parents
    intro c par hc
    simp only [emitState] at hc
    by_cases hrel : q.mode = .reliable
    · rw [if_pos hrel, List.getElem?_set] at hc
      by_cases hcc : q.channelId = c
      · rw [if_pos hcc] at hc
        split at hc
        · cases hc
          rw [← e_seq]
          exact lastIn_snoc_new _ _ _ ⟨by rw [e_mode]; exact hrel, by rw [e_chan]; exact hcc⟩
        · cases hc
      · rw [if_neg hcc] at hc
        refine lastIn_snoc_not _ _ _ _ ?_ (wi.cpar c par hc)
        intro hp; exact hcc (by rw [← e_chan]; exact hp.2)
    · rw [if_neg hrel] at hc
      refine lastIn_snoc_not _ _ _ _ ?_ (wi.cpar c par hc)
      intro hp; exact hrel (by rw [← e_mode]; exact hp.1)
  · -- chanParent length
    simp only [emitState]
    split
    · rw [List.length_set]; exact hi.clen
    · exact hi.clen
  · simp [emitState, hi.nuid]
  · simp only [emitState, List.length_append, List.length_cons, List.length_nil]
    rw [hi.nid, pidAdd_succ]
  · intro j x hx
    rcases getElem?_snoc_some _ _ _ _ hx with hx | ⟨rfl, rfl⟩
    · exact hi.ids j x hx
    · exact ⟨by rw [e_uid, hi.nuid], by rw [e_seq, hi.nid], by rw [e_chan]; exact hclt⟩
  · intro i x hx
    rcases getElem?_snoc_some _ _ _ _ hx with hx | ⟨rfl, rfl⟩
    · have hil : i < h.emitted.length := (List.getElem?_eq_some_iff.mp hx).1
      obtain ⟨h1, h2, h3⟩ := hi.leads i x hx
      exact ⟨h1.append _ (by omega), h2.append _ (by omega), h3⟩
    · rw [e_seq, e_base, hspan, e_wpl, e_cpl, e_chan]
      refine ⟨ParentLead.append _ (Nat.le_refl _) ?_, ParentLead.append _ (Nat.le_refl _) ?_, hlt,
        by omega, ?_⟩
      rotate_left 2
      · rw [wi.base]; congr 1; omega
      · have := parentLead_of_lastIn relP b0 old wl s.windowParentId hidsW (by omega) wi.wpar
        rw [← wi.em_eq, ← hi.nid] at this
        exact this
      · have := parentLead_of_lastIn (relChanP q.channelId) b0 old wl chanPar hidsW (by omega)
          (wi.cpar _ _ hcp)
        rw [← wi.em_eq, ← hi.nid] at this
        exact this
  · have := hi.order
    rw [hq] at this
    have h2 := order_drop _ dropped (q :: rest) _ (fun d h => (hd d h).1) this
    simp only [emitState, List.map_append, List.map_cons, List.map_nil, List.append_assoc,
      List.singleton_append, e_toQ]
    exact h2

end Uflow.PSend
