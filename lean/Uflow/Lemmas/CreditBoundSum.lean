import Uflow.Lemmas.CreditBoundFrame
import Uflow.Lemmas.HcInvRun

/-!
C13 (numeric bound), part 2: the hypotheses `FillOk` / `FillMaxOk` on the float operations, the run
invariant `BInv`, and the sum of the credit granted by the fills of a run, bounded by
`ceiling × elapsed time`.

Units: times are nanoseconds, rates bytes per second, so `rate * dt` is in units of `10⁻⁹` byte
("nano-bytes"); a fraction `f : F` is measured by `v f` nano-bytes.
-/

namespace Uflow.CreditBound

open Uflow Uflow.Gen Uflow.Codec Uflow.HalfConn Uflow.HcFrame Uflow.Credit
open Uflow.Rate (FloatOps)
open Uflow.HcInv (lastNow evTime)

variable {F : Type}

/-- `10⁹`: nanoseconds per second = nano-bytes per byte. -/
@[reducible] def G : Nat := 1000000000

/-- **The hypothesis on `fillBytes`** (`x = rate·dt + frac; (⌊x⌋, x − ⌊x⌋)`), in exact integer
arithmetic. `good` singles out the fractions that can occur (for IEEE doubles: the finite values in
`[0, 1)`), `v f` is the value of the fraction `f` in nano-bytes (rounded down). For rates up to
`maxRate` and step distances up to `maxDt` nanoseconds, a fill

* maps a `good` fraction to a `good` fraction, and `good` fractions are below one byte;
* credits a non-negative number of whole bytes;
* does not create credit: `new_bytes·10⁹ + v frac' ≤ rate·dt + v frac + eps`.

`eps` is the rounding slack of one fill in nano-bytes. Exact real arithmetic satisfies this with
`eps = 0`, any `maxRate`, `maxDt`, `good f := 0 ≤ f < 1` and `v f := ⌊f·10⁹⌋`: with
`x = rate·dt/10⁹ + f ≥ 0` bytes, `⌊x⌋ ≥ 0`, `0 ≤ x − ⌊x⌋ < 1`, and
`⌊x⌋·10⁹ + ⌊(x − ⌊x⌋)·10⁹⌋ ≤ x·10⁹ = rate·dt + f·10⁹`; as the left-hand side and `rate·dt` are
integers, `f·10⁹` may be replaced by its floor. (`exactFillOk` in `CreditBoundEx.lean` is the
integer version of this argument.) IEEE doubles satisfy it with an `eps` proportional to
`maxRate·maxDt·2⁻⁵²` — which is why the domain is bounded. -/
structure FillOk (ops : FloatOps F) (eps : Nat) where
  maxRate : Nat
  maxDt : Nat
  good : F → Prop
  v : F → Nat
  good_zero : good ops.zero
  good_fill : ∀ rate dt f, rate ≤ maxRate → dt ≤ maxDt → good f → good (ops.fillBytes rate dt f).2
  v_lt : ∀ f, good f → v f < G
  nonneg : ∀ rate dt f, rate ≤ maxRate → dt ≤ maxDt → good f → 0 ≤ (ops.fillBytes rate dt f).1
  fill : ∀ rate dt f, rate ≤ maxRate → dt ≤ maxDt → good f →
    (ops.fillBytes rate dt f).1 * (G : Int) + ((v (ops.fillBytes rate dt f).2 : Nat) : Int) ≤
      ((rate * dt + v f + eps : Nat) : Int)

/-- **The hypothesis on `fillMax`** (`(rate · rtt_s.unwrap_or(0.0)).round()`): `rttNs rtt` is the
RTT estimate in nanoseconds (a ghost; for IEEE doubles it may be taken a relative `2⁻⁵²` above the
value of `rtt`, which absorbs the rounding of the product), and rounding to the nearest integer adds
at most half a byte. Exact arithmetic: `round(y) ≤ y + 1/2`. -/
structure FillMaxOk (ops : FloatOps F) where
  rttNs : Option F → Nat
  cap : ∀ rate rtt, ops.fillMax rate rtt * (G : Int) ≤ ((rate * rttNs rtt + 500000000 : Nat) : Int)

/-! ### event lists: step times -/

/-- The time of the last `step` after the events (`t` if there is none). -/
def endTime (t : Nat) : List Ev → Nat
  | [] => t
  | ev :: rest => endTime (evTime t ev) rest

/-- Number of `step`s. -/
def nSteps : List Ev → Nat
  | [] => 0
  | .step _ :: rest => nSteps rest + 1
  | _ :: rest => nSteps rest

/-- Every `step` is at or after the previous one (`t` at the start) and at most `D` ns after it. -/
def stepsOk (D t : Nat) : List Ev → Bool
  | [] => true
  | .step now :: rest => decide (t ≤ now) && decide (now - t ≤ D) && stepsOk D now rest
  | _ :: rest => stepsOk D t rest

theorem stepsOk_cons (D t : Nat) (ev : Ev) (rest : List Ev) (h : stepsOk D t (ev :: rest) = true) :
    (∀ now, ev = .step now → t ≤ now ∧ now - t ≤ D) ∧ stepsOk D (evTime t ev) rest = true := by
  cases ev with
  | step now =>
    simp only [stepsOk, Bool.and_eq_true, decide_eq_true_eq] at h
    exact ⟨fun n hn => by cases hn; exact ⟨h.1.1, h.1.2⟩, h.2⟩
  | _ => exact ⟨fun n hn => (by cases hn), h⟩

theorem endTime_append (t : Nat) (a b : List Ev) :
    endTime t (a ++ b) = endTime (endTime t a) b := by
  induction a generalizing t with
  | nil => rfl
  | cons ev rest ih => exact ih _

theorem nSteps_append (a b : List Ev) : nSteps (a ++ b) = nSteps a + nSteps b := by
  induction a with
  | nil => simp [nSteps]
  | cons ev rest ih => cases ev <;> simp only [List.cons_append, nSteps, ih] <;> omega

theorem stepsOk_append (D t : Nat) (a b : List Ev) :
    stepsOk D t (a ++ b) = (stepsOk D t a && stepsOk D (endTime t a) b) := by
  induction a generalizing t with
  | nil => simp [stepsOk, endTime]
  | cons ev rest ih =>
    cases ev <;> simp only [List.cons_append, stepsOk, endTime, evTime, ih, Bool.and_assoc]

theorem endTime_noStep (t : Nat) (evs : List Ev) (hns : ∀ ev ∈ evs, ∀ now, ev ≠ .step now) :
    endTime t evs = t := by
  induction evs with
  | nil => rfl
  | cons ev rest ih =>
    have h1 : evTime t ev = t := by
      cases ev with
      | step now => exact absurd rfl (hns _ (by simp) now)
      | _ => rfl
    simp only [endTime, h1]
    exact ih (fun e he => hns e (by simp [he]))

theorem nSteps_noStep (evs : List Ev) (hns : ∀ ev ∈ evs, ∀ now, ev ≠ .step now) :
    nSteps evs = 0 := by
  induction evs with
  | nil => rfl
  | cons ev rest ih =>
    have := ih (fun e he => hns e (by simp [he]))
    cases ev with
    | step now => exact absurd rfl (hns _ (by simp) now)
    | _ => exact this

/-- The side conditions of C03 (`HcInv.evsOk`: `send` within its preconditions, `step` times
non-decreasing) contain those used here, for an unbounded step distance. -/
theorem evsOk_ok (t : Nat) (evs : List Ev) (h : HcInv.evsOk t evs = true) : ∀ ev ∈ evs, ev.Ok := by
  induction evs generalizing t with
  | nil => intro ev hev; cases hev
  | cons e rest ih =>
    simp only [HcInv.evsOk, Bool.and_eq_true] at h
    intro ev hev
    rcases List.mem_cons.mp hev with rfl | hev
    · cases ev with
      | send d c m =>
        simp only [HcInv.evOk, Bool.and_eq_true, decide_eq_true_eq] at h
        exact h.1.1
      | _ => trivial
    · exact ih _ h.2 ev hev

/-! ### the run invariant -/

/-- What the bound needs of a state: the sender is well-formed (`PsOk`, C13), the send rate is at
most the ceiling `m` (C14), the carried fraction is one that can occur, and before the first fill
there is no positive credit. -/
structure BInv {ops : FloatOps F} {eps : Nat} (K : FillOk ops eps) (m : Nat) (s : State F) : Prop where
  pok : PsOk s.ps
  le : s.rate.sendRate ≤ s.rate.maxSendRate
  max : s.rate.maxSendRate = m
  good : K.good s.flushFrac
  idle : s.timeLastFlushed = none → s.flushAlloc ≤ 0

theorem binv_init (ops : FloatOps F) {eps : Nat} (K : FillOk ops eps) (c : Config) (now : Nat)
    (rng : Rng) (hm : MSS ≤ c.txBandwidthLimit) :
    BInv K c.txBandwidthLimit (init ops c now rng) where
  pok := by simp [PsOk, HalfConn.init, PSend.init]
  le := hm
  max := rfl
  good := K.good_zero
  idle := fun _ => Int.le_refl _

theorem mul_sub_add (m a b c : Nat) (h1 : a ≤ b) (h2 : b ≤ c) :
    m * (b - a) + m * (c - b) = m * (c - a) := by
  rw [← Nat.mul_add]
  congr 1
  omega

/-- One event: the invariant is kept, the time of the last fill moves to the time of the event, and
the credit granted (in nano-bytes) plus the new fraction is at most
`ceiling × (time since the last fill)` plus the old fraction (plus the slack, for a `step`). -/
theorem exec_bound (ops : FloatOps F) {eps : Nat} (K : FillOk ops eps) (m : Nat)
    (hmin : MINIMUM_RATE ≤ m) (hR : m ≤ K.maxRate) (s s1 : State F) (ev : Ev)
    (out : List (List Nat)) (hi : BInv K m s) (hok : ev.Ok)
    (ht : ∀ now, ev = .step now → lastNow s ≤ now ∧ now - lastNow s ≤ K.maxDt)
    (h : exec ops s ev = .ok (s1, out)) :
    BInv K m s1 ∧ lastNow s1 = evTime (lastNow s) ev ∧ lastNow s ≤ lastNow s1 ∧
    evCredit ops s ev * (G : Int) + (K.v s1.flushFrac : Int) ≤
      ((m * (lastNow s1 - lastNow s) + K.v s.flushFrac + nSteps [ev] * eps : Nat) : Int) := by
  have hcr := exec_credit ops s s1 ev out hok hi.pok h
  by_cases hst : ∃ now, ev = .step now
  · obtain ⟨now, rfl⟩ := hst
    obtain ⟨ht1, ht2⟩ := ht now rfl
    simp only [exec] at h
    generalize hs : HalfConn.step ops s now = r at h
    cases r with
    | error t => cases h
    | ok s2 =>
      simp only [Except.map, Except.ok.injEq, Prod.mk.injEq] at h
      obtain ⟨rfl, rfl⟩ := h
      obtain ⟨hA, _, _, _, _, htl, _⟩ := step_frame ops s s2 now hs
      obtain ⟨hfr, htb, t, fb, r, hrs⟩ := step_core ops s s2 now hs
      have hmx := Rate.step_maxSendRate hrs
      have hce := Rate.step_ceiling hrs hi.le (by rw [hi.max]; exact hmin)
      have hl2 : lastNow s2 = now := by simp [lastNow, htl]
      have hrate : s.rate.sendRate ≤ K.maxRate := by
        have := hi.le; have := hi.max; omega
      simp only [evTime, hl2, nSteps, evCredit]
      cases hl : s.timeLastFlushed with
      | none =>
        rw [fill_frac_none ops s now hl] at hfr
        refine ⟨⟨hcr.1, by rw [hmx]; exact hce, by rw [hmx]; exact hi.max, by rw [hfr]; exact hi.good,
          fun hn => by rw [htl] at hn; cases hn⟩, trivial, ht1, ?_⟩
        simp only [stepCredit, hl, hfr, G]
        generalize m * (now - lastNow s) = X
        omega
      | some last =>
        have hln : lastNow s = last := by simp [lastNow, hl]
        rw [hln] at ht1 ht2 ⊢
        rw [fill_frac_some ops s now last hl] at hfr
        have hg := K.good_fill _ _ _ hrate ht2 hi.good
        have hnn := K.nonneg _ _ _ hrate ht2 hi.good
        have hfill := K.fill _ _ _ hrate ht2 hi.good
        refine ⟨⟨hcr.1, by rw [hmx]; exact hce, by rw [hmx]; exact hi.max, by rw [hfr]; exact hg,
          fun hn => by rw [htl] at hn; cases hn⟩, trivial, ht1, ?_⟩
        simp only [stepCredit, hl, hfr]
        have hmul : s.rate.sendRate * (now - last) ≤ m * (now - last) :=
          Nat.mul_le_mul_right _ (by have := hi.le; have := hi.max; omega)
        generalize ops.fillBytes s.rate.sendRate (now - last) s.flushFrac = fb at hnn hfill ⊢
        generalize m * (now - last) = X at hmul ⊢
        generalize s.rate.sendRate * (now - last) = Y at hmul hfill
        simp only [G] at hfill ⊢
        omega
  · have hns : ∀ now, ev ≠ .step now := fun now he => hst ⟨now, he⟩
    obtain ⟨c1, c2, c3, c4, c5, _⟩ := core_eq (core_exec ops s s1 ev out hns h)
    have hl : lastNow s1 = lastNow s := by simp only [lastNow, c1, c3]
    have het : evTime (lastNow s) ev = lastNow s := by
      cases ev with
      | step now => exact absurd rfl (hns now)
      | _ => rfl
    have hec : evCredit ops s ev = 0 := by
      cases ev with
      | step now => exact absurd rfl (hns now)
      | _ => rfl
    have hk : nSteps [ev] = 0 := by
      cases ev with
      | step now => exact absurd rfl (hns now)
      | _ => rfl
    refine ⟨⟨hcr.1, by rw [c4, c5]; exact hi.le, by rw [c5]; exact hi.max, by rw [c2]; exact hi.good,
      ?_⟩, by rw [hl, het], by rw [hl]; exact Nat.le_refl _, ?_⟩
    · intro hn
      rw [c1] at hn
      have := hi.idle hn
      have := hcr.2
      rw [hec] at this
      simp only [MAX_FRAME_SIZE] at this
      omega
    · rw [hec, hk, hl, c2]
      simp only [Nat.sub_self, Nat.mul_zero, Nat.zero_mul, G]
      omega

/-- **The credit sum.** Over a run from a state satisfying `BInv`, with `step` times
non-decreasing and at most `maxDt` apart: the credit granted, in nano-bytes, plus the fraction
carried at the end, is at most `ceiling × (time of the last step − time of the last step before the
run)` plus the fraction carried at the start plus `eps` per `step`. -/
theorem run_bound (ops : FloatOps F) {eps : Nat} (K : FillOk ops eps) (m : Nat)
    (hmin : MINIMUM_RATE ≤ m) (hR : m ≤ K.maxRate) (evs : List Ev) (s s' : State F) (b : Nat)
    (c : Int) (hi : BInv K m s) (hok : ∀ ev ∈ evs, ev.Ok)
    (ht : stepsOk K.maxDt (lastNow s) evs = true) (h : run ops s evs = .ok (s', b, c)) :
    BInv K m s' ∧ lastNow s' = endTime (lastNow s) evs ∧ lastNow s ≤ lastNow s' ∧
    c * (G : Int) + (K.v s'.flushFrac : Int) ≤
      ((m * (lastNow s' - lastNow s) + K.v s.flushFrac + nSteps evs * eps : Nat) : Int) := by
  induction evs generalizing s b c with
  | nil =>
    simp only [run, Except.ok.injEq, Prod.mk.injEq] at h
    obtain ⟨rfl, rfl, rfl⟩ := h
    refine ⟨hi, rfl, Nat.le_refl _, ?_⟩
    simp only [nSteps, Nat.sub_self, Nat.mul_zero, Nat.zero_mul, G]
    omega
  | cons ev rest ih =>
    simp only [run] at h
    generalize hex : exec ops s ev = r1 at h
    cases r1 with
    | error t => cases h
    | ok v1 =>
      obtain ⟨s1, out⟩ := v1
      simp only at h
      generalize hrun : run ops s1 rest = r2 at h
      cases r2 with
      | error t => cases h
      | ok v2 =>
        obtain ⟨s2, b2, c2⟩ := v2
        simp only [Except.ok.injEq, Prod.mk.injEq] at h
        obtain ⟨rfl, rfl, rfl⟩ := h
        obtain ⟨ht1, ht2⟩ := stepsOk_cons _ _ ev rest ht
        obtain ⟨hi1, hl1, hle1, hb1⟩ :=
          exec_bound ops K m hmin hR s s1 ev out hi (hok ev (by simp)) ht1 hex
        obtain ⟨hi2, hl2, hle2, hb2⟩ := ih s1 b2 c2 hi1 (fun e he => hok e (by simp [he]))
          (by rw [hl1]; exact ht2) hrun
        refine ⟨hi2, by rw [hl2, hl1]; rfl, Nat.le_trans hle1 hle2, ?_⟩
        have hmul := mul_sub_add m _ _ _ hle1 hle2
        have hk : nSteps (ev :: rest) = nSteps [ev] + nSteps rest := by
          cases ev <;> simp only [nSteps] <;> omega
        rw [hk, Nat.add_mul]
        generalize m * (lastNow s1 - lastNow s) = X1 at hmul hb1
        generalize m * (lastNow s2 - lastNow s1) = X2 at hmul hb2
        generalize m * (lastNow s2 - lastNow s) = X at hmul ⊢
        generalize nSteps [ev] * eps = E1 at hb1 ⊢
        generalize nSteps rest * eps = E2 at hb2 ⊢
        generalize evCredit ops s ev = c1 at hb1 ⊢
        simp only [G] at hb1 hb2 ⊢
        omega

end Uflow.CreditBound
