import Uflow.Lemmas.SysRecv

/-!
The composed system (C01Sys), part 4b: `resynchronize`. What the search loop returns (the first id
at or after the window base whose slot has the entry flag, or the target), the shape of
`resynchronize` (nothing, or one `advance_window` to that id), and the content invariant `CInv`.
-/

namespace Uflow.Sys

open Uflow Uflow.Gen Uflow.Codec Uflow.PSend Uflow.PRecv Uflow.Frag

/-- Where the search loop of `resynchronize` stops: at `r` between `seq` and `target`, having seen
no entry flag before `r`; `r` is the target or has the entry flag. -/
theorem resyncLoop_stop {W M : Nat} (s : PRecv.State) (hinv : Inv W M s) (base target : Nat) (ht : target < 2^20) :
    ∀ (fuel seq r : Nat), seq < 2^20 → pidSub seq base ≤ pidSub target base →
      (∀ x, x < 2^20 → pidSub x base < pidSub seq base → (lget s.slots (wi W x)).entryFlag = false) →
      resyncLoop fuel s seq target = .ok r →
      r < 2^20 ∧ pidSub r base ≤ pidSub target base ∧
      (∀ x, x < 2^20 → pidSub x base < pidSub r base → (lget s.slots (wi W x)).entryFlag = false) ∧
      (r = target ∨ (lget s.slots (wi W r)).entryFlag = true) := by
  intro fuel
  induction fuel with
  | zero => intro seq r _ _ _ h; rw [resyncLoop] at h; cases h
  | succ fuel ih =>
    intro seq r hs hle hno h
    rw [resyncLoop] at h
    by_cases heq : seq = target
    · rw [if_pos heq] at h; cases h; exact ⟨hs, hle, hno, Or.inl heq⟩
    · rw [if_neg heq] at h
      have hlt : pidSub seq base < pidSub target base := by
        rcases Nat.lt_or_ge (pidSub seq base) (pidSub target base) with h | h
        · exact h
        · exact absurd (id_eq_of_off seq target base hs ht (by omega)) heq
      have hoff : pidSub (pidAdd seq 1) base = pidSub seq base + 1 :=
        off_succ _ _ (by have := pidSub_lt target base; omega)
      rw [widx_eq hinv, getSlot_eq] at h
      split at h
      · rename_i hentry
        cases h
        exact ⟨hs, hle, hno, Or.inr hentry⟩
      · rename_i hentry
        refine ih _ r (PRecv.pidAdd_lt _ _) (by omega) ?_ h
        intro x hx hxo
        rw [hoff] at hxo
        rcases Nat.lt_or_ge (pidSub x base) (pidSub seq base) with hlt' | hge
        · exact hno x hx hlt'
        · have : x = seq := id_eq_of_off x seq base hx hs (by omega)
          rw [this]
          simpa using hentry

/-- `resynchronize(id)` does nothing, or is one `advance_window` to an id `nb` between the window base
and `id` (at most one window ahead) such that no slot before `nb` has the entry flag and `nb` is `id`
or has the entry flag. -/
theorem resynchronize_shape {W M : Nat} {s s' : PRecv.State} (hinv : Inv W M s) (id : Nat)
    (hr : resynchronize s id = .ok s') :
    s' = s ∨
    (id < 2^20 ∧ pidSub id s.baseId ≤ W ∧ ∃ nb, nb < 2^20 ∧ pidSub nb s.baseId ≤ pidSub id s.baseId ∧
      advanceWindow s nb = .ok s' ∧
      (∀ x, x < 2^20 → pidSub x s.baseId < pidSub nb s.baseId → (lget s.slots (wi W x)).entryFlag = false) ∧
      (nb = id ∨ (lget s.slots (wi W nb)).entryFlag = true)) := by
  rw [resynchronize] at hr
  by_cases h1 : id % 2^32 % PACKET_ID_SPAN ≠ id
  · rw [if_pos h1] at hr; cases hr; exact Or.inl rfl
  rw [if_neg h1] at hr
  by_cases h2 : pidSub id s.baseId > s.windowSize
  · rw [if_pos h2] at hr; cases hr; exact Or.inl rfl
  rw [if_neg h2] at hr
  have hlt : id < 2^20 := by
    simp only [PACKET_ID_SPAN] at h1; omega
  rw [rmatchN] at hr
  cases hrl : resyncLoop loopFuel s s.baseId id with
  | error t => rw [hrl] at hr; cases hr
  | ok seq =>
    rw [hrl, bindR_ok] at hr
    obtain ⟨r1, r2, r3, r4⟩ := resyncLoop_stop s hinv s.baseId id hlt loopFuel s.baseId seq hinv.blt
      (by rw [pidSub_self]; exact Nat.zero_le _)
      (by intro x _ hxo; rw [pidSub_self] at hxo; exact absurd hxo (Nat.not_lt_zero _)) hrl
    have := hinv.wsz
    exact Or.inr ⟨hlt, by omega, seq, r1, r2, hr, r3, r4⟩

/-- `resynchronize` keeps the content invariant. -/
theorem resynchronize_cinv {W M : Nat} (hW : WOk W) {pend : List Pending} {adv : Nat} {s s' : PRecv.State}
    (hinv : Inv W M s) (hord : Ord W s) (hc : CInv W pend adv s) (id : Nat)
    (hr : resynchronize s id = .ok s') : CInv W pend (adv + pidSub s'.baseId s.baseId) s' := by
  rcases resynchronize_shape hinv id hr with rfl | ⟨-, hidW, nb, hnb, hle, hadv, -, -⟩
  · rw [pidSub_self, Nat.add_zero]; exact hc
  · have hδ : pidSub nb s.baseId ≤ W := by omega
    have F := advanceWindow_facts hW hinv hord nb hnb hδ hadv
    obtain ⟨hA, hB⟩ := advanceWindow_core hW hinv hord nb hnb hδ hadv
    rw [F.base]
    exact cinv_advance hW hinv hc nb hnb hδ F.base hA hB

/-- Offset of the id carried by a fresh sync frame: if `resynchronize` does not ignore it, the
unwrapped sender id `n` is at or beyond the window base and the offset is `n - adv`. -/
theorem sync_arith (b0 adv n W : Nat) (hfresh : adv + W < n + 2^20) (hn : n < adv + 2^20)
    (h : pidSub ((b0 + n) % 2^20) ((b0 + adv) % 2^20) ≤ W) :
    adv ≤ n ∧ pidSub ((b0 + n) % 2^20) ((b0 + adv) % 2^20) = n - adv := by
  simp only [pidSub, PACKET_ID_SPAN] at *
  omega

/-! ### `advance_window` leaves the ready flags alone -/

theorem foldR_pres {α : Type} (f : PRecv.State → α) (body : PRecv.State → Nat → R PRecv.State)
    (hb : ∀ s id s', body s id = .ok s' → f s' = f s) :
    ∀ (L : List Nat) (s s' : PRecv.State), foldR body L s = .ok s' → f s' = f s := by
  intro L
  induction L with
  | nil => intro s s' h; cases h; rfl
  | cons id L ih =>
    intro s s' h
    rw [foldR] at h
    cases hs : body s id with
    | error t => rw [hs] at h; cases h
    | ok s1 =>
      rw [hs] at h
      rw [ih s1 s' h, hb s id s1 hs]

/-- The part of the receiver state `advance_window` never touches. -/
def rdyPart (s : PRecv.State) : List Bool × Bool := (s.readyFlags, s.windowReady)

theorem awBody1_rdy (s : PRecv.State) (id : Nat) (s' : PRecv.State) (h : awBody1 s id = .ok s') :
    rdyPart s' = rdyPart s := by
  unfold awBody1 at h
  simp only at h
  split at h
  · split at h
    · cases h
    · split at h
      · cases h
      · cases h; rfl
  · cases h; rfl

theorem awBody2_rdy (s : PRecv.State) (id : Nat) (s' : PRecv.State) (h : awBody2 s id = .ok s') :
    rdyPart s' = rdyPart s := by
  unfold awBody2 clearAsm at h
  simp only at h
  split at h
  · cases h; rfl
  · split at h
    · cases h
    · cases h; rfl
  · split at h
    · cases h
    · cases h; rfl

theorem awBody3_rdy (s : PRecv.State) (id : Nat) (s' : PRecv.State) (h : awBody3 s id = .ok s') :
    rdyPart s' = rdyPart s := by
  unfold awBody3 tryUnsetChannelBase at h
  simp only at h
  split at h
  · cases h; rfl
  · split at h
    · cases h
    · cases h; rfl

/-- `advance_window` changes neither `channel_ready_flags` nor `window_ready`. -/
theorem advanceWindow_rdy {W M : Nat} {s s' : PRecv.State} (hinv : Inv W M s) (nb : Nat) (hnb : nb < 2^20)
    (ha : advanceWindow s nb = .ok s') :
    s'.readyFlags = s.readyFlags ∧ s'.windowReady = s.windowReady := by
  rw [advanceWindow_eq] at ha
  have h0 := awStart_inv hinv nb hnb
  have hst : rdyPart (awStart s nb) = rdyPart s := by
    unfold awStart; split <;> rfl
  generalize awStart s nb = s0 at *
  rw [awLoops, idLoop_eq _ _ _ _ h0.blt hnb] at ha
  cases h1 : foldR awBody1 (idsTo s0.baseId nb) s0 with
  | error t => rw [h1] at ha; cases ha
  | ok s1 =>
    rw [h1, bindR_ok, idLoop_eq _ _ _ _ h0.blt hnb] at ha
    cases h2 : foldR awBody2 (idsTo s0.baseId nb) s1 with
    | error t => rw [h2] at ha; cases ha
    | ok s2 =>
      rw [h2, bindR_ok, idLoop_eq _ _ _ _ h0.blt hnb] at ha
      cases h3 : foldR awBody3 (idsTo s0.baseId nb) s2 with
      | error t => rw [h3] at ha; cases ha
      | ok s3 =>
        rw [h3, bindR_ok] at ha
        cases ha
        have e1 := foldR_pres rdyPart awBody1 awBody1_rdy _ _ _ h1
        have e2 := foldR_pres rdyPart awBody2 awBody2_rdy _ _ _ h2
        have e3 := foldR_pres rdyPart awBody3 awBody3_rdy _ _ _ h3
        have : rdyPart s3 = rdyPart s := by rw [e3, e2, e1, hst]
        exact ⟨congrArg Prod.fst this, congrArg Prod.snd this⟩

end Uflow.Sys
