import Uflow.Lemmas.PRecvRun

/-!
Helper lemmas for C01 / C02 (receiver ordering), part 1: 20-bit packet-id arithmetic relative to a
window base, and the window index `wi W` when `W` divides `2^20`.
-/

namespace Uflow.PRecv

open Uflow Uflow.Gen Uflow.Codec

/-- The window-size assumptions used by the ordering proofs: `W` divides the id span `2^20` (so the
window index `id & (W-1)` of consecutive ids is consecutive across the 20-bit wrap) and two windows
fit into the id span. Every power of two `≤ 2^19` qualifies; the library asserts `W` is a power of
two `≤ 4096`. -/
structure WOk (W : Nat) : Prop where
  dvd : W ∣ 2^20
  le : 2 * W ≤ 2^20

theorem wOk_pow (k : Nat) (hk : k ≤ 19) : WOk (2^k) where
  dvd := Nat.pow_dvd_pow 2 (by omega)
  le := by
    have : 2 * 2^k = 2^(k+1) := by rw [Nat.pow_succ]; omega
    rw [this]
    exact Nat.pow_le_pow_right (by decide) (by omega)

theorem pidSub_def (a b : Nat) : pidSub a b = (a + 2^32 - b % 2^32) % 2^32 % 2^20 := rfl
theorem pidAdd_def (a b : Nat) : pidAdd a b = (a + b) % 2^32 % 2^20 := rfl

theorem wi_eq_mod {W : Nat} (hW : WOk W) (x : Nat) : wi W x = x % W := by
  have h32 : W ∣ 2^32 := Nat.dvd_trans hW.dvd ⟨2^12, by decide⟩
  simp only [wi]
  exact Nat.mod_mod_of_dvd x h32

/-- The window index only depends on the offset from the window base. -/
theorem wi_eq_off {W : Nat} (hW : WOk W) (x b : Nat) (_hb : b < 2^20) :
    wi W x = (b + pidSub x b) % W := by
  rw [wi_eq_mod hW]
  have h1 : x % 2^20 = (b + pidSub x b) % 2^20 := by rw [pidSub_def]; omega
  have h2 := Nat.mod_mod_of_dvd x hW.dvd
  have h3 := Nat.mod_mod_of_dvd (b + pidSub x b) hW.dvd
  rw [← h2, ← h3, h1]

theorem add_mod_cancel_lt (W a k1 k2 : Nat) (h : (a + k1) % W = (a + k2) % W) (hle : k1 ≤ k2)
    (hlt : k2 - k1 < W) : k1 = k2 := by
  have h1 := Nat.sub_mod_eq_zero_of_mod_eq h.symm
  have h2 : (k2 - k1) % W = 0 := by
    rwa [show a + k2 - (a + k1) = k2 - k1 by omega] at h1
  rw [Nat.mod_eq_of_lt hlt] at h2
  omega

/-- Two ids whose offsets from the base differ by less than `W` and that share a window index have
the same offset. -/
theorem off_eq_of_wi {W : Nat} (hW : WOk W) (x y b : Nat) (hb : b < 2^20)
    (hlt1 : pidSub x b < pidSub y b + W) (hlt2 : pidSub y b < pidSub x b + W)
    (h : wi W x = wi W y) : pidSub x b = pidSub y b := by
  rw [wi_eq_off hW x b hb, wi_eq_off hW y b hb] at h
  by_cases hle : pidSub x b ≤ pidSub y b
  · exact add_mod_cancel_lt W b _ _ h hle (by omega)
  · exact (add_mod_cancel_lt W b _ _ h.symm (by omega) (by omega)).symm

theorem id_eq_of_off (x y b : Nat) (hx : x < 2^20) (hy : y < 2^20)
    (h : pidSub x b = pidSub y b) : x = y := by
  rw [pidSub_def, pidSub_def] at h; omega

theorem wi_inj {W : Nat} (hW : WOk W) (x y b : Nat) (hx : x < 2^20) (hy : y < 2^20) (hb : b < 2^20)
    (hlt1 : pidSub x b < pidSub y b + W) (hlt2 : pidSub y b < pidSub x b + W)
    (h : wi W x = wi W y) : x = y :=
  id_eq_of_off x y b hx hy (off_eq_of_wi hW x y b hb hlt1 hlt2 h)

/-- Ids one window apart share the window index. -/
theorem wi_eq_of_off_add {W : Nat} (hW : WOk W) (x y b : Nat) (hb : b < 2^20)
    (h : pidSub x b = pidSub y b + W) : wi W x = wi W y := by
  rw [wi_eq_off hW x b hb, wi_eq_off hW y b hb, h, ← Nat.add_assoc, Nat.add_mod_right]

theorem wi_mod20 {W : Nat} (hW : WOk W) (x : Nat) : wi W (x % 2^20) = wi W x := by
  rw [wi_eq_mod hW, wi_eq_mod hW]
  exact Nat.mod_mod_of_dvd x hW.dvd

theorem pidSub_mod20 (x b : Nat) : pidSub (x % 2^20) b = pidSub x b := by
  rw [pidSub_def, pidSub_def]; omega

theorem pidAdd_mod20 (x k : Nat) : pidAdd (x % 2^20) k = pidAdd x k := by
  rw [pidAdd_def, pidAdd_def]; omega

/-- Offset of the successor. -/
theorem off_succ (x b : Nat) (h : pidSub x b + 1 < 2^20) :
    pidSub (pidAdd x 1) b = pidSub x b + 1 := by
  simp only [pidSub_def, pidAdd_def] at *; omega

/-- Offsets relative to an advanced base. -/
theorem off_shift (x b nb : Nat) (_hb : b < 2^20) (hnb : nb < 2^20)
    (h : pidSub nb b ≤ pidSub x b) : pidSub x nb = pidSub x b - pidSub nb b := by
  simp only [pidSub_def] at *; omega

theorem off_unshift (x b nb : Nat) (_hb : b < 2^20) (hnb : nb < 2^20)
    (h : pidSub x nb + pidSub nb b < 2^20) : pidSub x b = pidSub x nb + pidSub nb b := by
  simp only [pidSub_def] at *; omega

/-- Case form of `pidSub` on valid ids, for `omega`. -/
theorem pidSub_cases (a b : Nat) (ha : a < 2^20) (hb : b < 2^20) :
    (b ≤ a ∧ pidSub a b = a - b) ∨ (a < b ∧ pidSub a b = a + 2^20 - b) := by
  rw [pidSub_def]; omega

theorem pidAdd_cases (a : Nat) (ha : a < 2^20) :
    (a + 1 = 2^20 ∧ pidAdd a 1 = 0) ∨ (a + 1 < 2^20 ∧ pidAdd a 1 = a + 1) := by
  rw [pidAdd_def]; omega

theorem pidSub_self' (b : Nat) : pidSub b b = 0 := pidSub_self b

theorem mem_idsFrom (id : Nat) (hid : id < 2^20) : ∀ (n : Nat) (start : Nat), start < 2^20 → n ≤ 2^20 →
    (id ∈ idsFrom start n ↔ pidSub id start < n) := by
  intro n
  induction n with
  | zero => intro start _ _; simp [idsFrom]
  | succ n ih =>
    intro start hs hn
    simp only [idsFrom, List.mem_cons]
    rw [ih (pidAdd start 1) (pidAdd_lt _ _) (by omega)]
    rw [pidSub_def, pidSub_def, pidAdd_def]
    omega

/-- The ids `advance_window` passes are exactly those at offsets `< pidSub nb base`. -/
theorem mem_idsTo (id base nb : Nat) (hid : id < 2^20) (hb : base < 2^20) :
    id ∈ idsTo base nb ↔ pidSub id base < pidSub nb base := by
  unfold idsTo
  exact mem_idsFrom id hid _ base hb (Nat.le_of_lt (pidSub_lt _ _))

theorem idsFrom_lt (n start : Nat) (hs : start < 2^20) : ∀ id ∈ idsFrom start n, id < 2^20 := by
  induction n generalizing start with
  | zero => intro id h; cases h
  | succ n ih =>
    intro id h
    simp only [idsFrom, List.mem_cons] at h
    rcases h with h | h
    · omega
    · exact ih _ (pidAdd_lt _ _) id h

theorem idsTo_lt (base nb : Nat) (hb : base < 2^20) : ∀ id ∈ idsTo base nb, id < 2^20 :=
  idsFrom_lt _ base hb

end Uflow.PRecv
