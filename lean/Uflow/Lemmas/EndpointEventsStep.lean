import Uflow.Lemmas.EndpointEventsHandlers

/-!
Server endpoint: timers, active timeouts, `retain`, `step_active_clients`, `flush_active_clients` and
the whole `Server.step` as monitor-accepted transitions.
-/

namespace Uflow.Endpoint

open Uflow.Gen Uflow.Codec Uflow.HalfConn

variable {H : Type}

/-- Invariant induction over a `foldlM` in the trap monad. -/
theorem foldlM_induct {σ α : Type} (f : σ → α → R σ) (P : σ → Prop)
    (step : ∀ s a s', P s → f s a = .ok s' → P s') (l : List α) (s s' : σ) (h0 : P s)
    (h : l.foldlM f s = .ok s') : P s' := by
  induction l generalizing s with
  | nil => simp only [List.foldlM_nil, pure, Except.pure] at h; cases h; exact h0
  | cons b bs ih =>
    simp only [List.foldlM_cons, bind, Except.bind] at h
    split at h
    · cases h
    · next s1 hs1 => exact ih s1 (step _ _ _ h0 hs1) h

/-! ## `handle_event` (timers) -/

/-- `handleTimer`: at most one event, `error _ timeout`, when the retry count of a `pending` handshake
(only with `enableHandshakeErrors`) or of a `closing` entry is exhausted. -/
theorem Server.handleTimer_STr (s : Server H) (hw : s.WF) (t : Timer) (nowMs : Nat) :
    ∃ evs, STr s evs (s.handleTimer t nowMs).1 ∧
      (evs = [] ∨ ∃ c, s.byCid t.cid = some c ∧ c ∈ s.clients ∧ evs = [SEvent.error c.address .timeout] ∧
        t.count = 0 ∧
        (((∃ ln rn r al rb, c.state = .pending ln rn r al rb) ∧ t.kind = .resendSynAck) ∨
         (c.state = .closing ∧ t.kind = .resendDisconnect))) := by
  unfold Server.handleTimer
  split
  · exact ⟨[], STr.refl hw, Or.inl rfl⟩
  · next c hb =>
    split
    · next ln rn r al reply hst =>
      obtain ⟨hcm, -⟩ := Server.byCid_clients hw hb (by rw [hst]; intro h; cases h)
      split
      · next hk =>
        split
        · exact ⟨[], STr.of_same hw rfl rfl rfl (fun _ h => h) rfl rfl rfl, Or.inl rfl⟩
        · next hcnt =>
          simp only
          by_cases hen : s.cfg.enableHandshakeErrors = true
          · rw [if_pos hen]
            have hcm' : c ∈ ({ s with eventsOut := s.eventsOut ++ [SEvent.error c.address .timeout] } : Server H).clients := hcm
            rw [Server.finish_eq hcm']
            exact ⟨[SEvent.error c.address .timeout],
              STr.of_finish hw hcm _ (by simp [SEvent.addr]) (by rw [hst]; rfl) rfl rfl rfl (fun _ h => h) rfl rfl rfl,
              Or.inr ⟨c, hb, hcm, rfl, by omega, Or.inl ⟨⟨_, _, _, _, _, hst⟩, hk⟩⟩⟩
          · rw [if_neg hen]
            have hcm' : c ∈ ({ s with eventsOut := s.eventsOut } : Server H).clients := hcm
            rw [Server.finish_eq hcm']
            exact ⟨[], STr.of_finish hw hcm _ (by simp) (by rw [hst]; rfl) rfl rfl rfl (fun _ h => h) rfl rfl (by simp),
              Or.inl rfl⟩
      · exact ⟨[], STr.refl hw, Or.inl rfl⟩
    · next hst =>
      obtain ⟨hcm, -⟩ := Server.byCid_clients hw hb (by rw [hst]; intro h; cases h)
      split
      · next hk =>
        split
        · exact ⟨[], STr.of_same hw rfl rfl rfl (fun _ h => h) rfl rfl rfl, Or.inl rfl⟩
        · next hcnt =>
          simp only
          have hcm' : c ∈ ({ s with eventsOut := s.eventsOut ++ [SEvent.error c.address .timeout] } : Server H).clients := hcm
          rw [Server.finish_eq hcm']
          exact ⟨[SEvent.error c.address .timeout],
            STr.of_finish hw hcm _ (by simp [SEvent.addr]) (by rw [hst]; rfl) rfl rfl rfl (fun _ h => h) rfl rfl rfl,
            Or.inr ⟨c, hb, hcm, rfl, by omega, Or.inr ⟨hst, hk⟩⟩⟩
      · exact ⟨[], STr.refl hw, Or.inl rfl⟩
    · next hst =>
      obtain ⟨hcm, -⟩ := Server.byCid_clients hw hb (by rw [hst]; intro h; cases h)
      split
      · rw [Server.finish_eq hcm]
        exact ⟨[], STr.of_finish hw hcm _ (by simp) (by rw [hst]; rfl) rfl rfl rfl (fun _ h => h) rfl rfl (by simp),
          Or.inl rfl⟩
      · exact ⟨[], STr.refl hw, Or.inl rfl⟩
    · exact ⟨[], STr.refl hw, Or.inl rfl⟩

theorem Server.runTimers_STr (fuel : Nat) (s : Server H) (hw : s.WF) (nowMs : Nat) (sent : List (Nat × List Nat)) :
    ∃ evs, STr s evs (Server.runTimers fuel s nowMs sent).1 ∧ ∀ e ∈ evs, ∃ a, e = SEvent.error a .timeout := by
  induction fuel generalizing s sent with
  | zero => exact ⟨[], STr.refl hw, by simp⟩
  | succ k ih =>
    unfold Server.runTimers
    split
    · exact ⟨[], STr.refl hw, by simp⟩
    · split
      · exact ⟨[], STr.refl hw, by simp⟩
      · split
        · exact ⟨[], STr.refl hw, by simp⟩
        · next t h hp =>
          have h0 : STr s [] ({ s with timers := h } : Server H) :=
            STr.of_same hw rfl rfl rfl (fun _ h => h) rfl rfl rfl
          obtain ⟨e1, h1, hsh⟩ := Server.handleTimer_STr _ h0.wf t nowMs
          rcases hx : ({ s with timers := h } : Server H).handleTimer t nowMs with ⟨s1, o1⟩
          rw [hx] at h1
          obtain ⟨e2, h2, hsh2⟩ := ih s1 h1.wf (sent ++ o1)
          refine ⟨[] ++ e1 ++ e2, (h0.trans h1).trans h2, fun e he => ?_⟩
          simp only [List.nil_append, List.mem_append] at he
          rcases he with he | he
          · rcases hsh with rfl | ⟨c, _, _, rfl, _⟩
            · cases he
            · simp only [List.mem_singleton] at he; exact ⟨_, he⟩
          · exact hsh2 e he

/-! ## active timeouts -/

/-- One iteration of the active-timeout loop. -/
def Server.activeTimeoutStep (hc : HC H) (nowMs : Nat) (s : Server H) (cid : Nat) : R (Server H) :=
  match s.byCid cid with
  | none => .ok s
  | some c =>
    match c.state with
    | .active h timeout _ =>
      if nowMs ≥ timeout then
        match hc.receive h with
        | .error t => .error t
        | .ok (_, pkts) =>
          let s := { s with eventsOut := s.eventsOut ++ pkts.map (SEvent.receive c.address) ++ [SEvent.error c.address .timeout] }
          .ok (s.finish c)
      else .ok s
    | _ => .ok s

theorem Server.activeTimeouts_eq (hc : HC H) (s : Server H) (nowMs : Nat) :
    s.activeTimeouts hc nowMs = s.active.foldlM (Server.activeTimeoutStep hc nowMs) s := rfl

/-- One iteration: either nothing happens, or an `active` entry whose deadline has passed delivers its
remaining packets, then `error timeout`, and is removed. -/
theorem Server.activeTimeoutStep_STr (hc : HC H) (nowMs : Nat) (s s' : Server H) (hw : s.WF) (cid : Nat)
    (h : Server.activeTimeoutStep hc nowMs s cid = .ok s') :
    ∃ evs, STr s evs s' ∧
      ((evs = [] ∧ s' = s) ∨
       ∃ c hh t sig h' pkts, s.byCid cid = some c ∧ c ∈ s.clients ∧ c.state = .active hh t sig ∧ nowMs ≥ t ∧
         hc.receive hh = .ok (h', pkts) ∧
         evs = pkts.map (SEvent.receive c.address) ++ [SEvent.error c.address .timeout] ∧
         s'.clients = s.clients.filter (·.address ≠ c.address)) := by
  unfold Server.activeTimeoutStep at h
  split at h
  · cases h; exact ⟨[], STr.refl hw, Or.inl ⟨rfl, rfl⟩⟩
  · next c hb =>
    split at h
    · next hh t sig hst =>
      obtain ⟨hcm, -⟩ := Server.byCid_clients hw hb (by rw [hst]; intro h; cases h)
      split at h
      · next hge =>
        split at h
        · cases h
        · next h' pkts hr =>
          cases h
          have hcm' : c ∈ ({ s with eventsOut := s.eventsOut ++ pkts.map (SEvent.receive c.address) ++ [SEvent.error c.address .timeout] } : Server H).clients := hcm
          rw [Server.finish_eq hcm']
          refine ⟨pkts.map (SEvent.receive c.address) ++ [SEvent.error c.address .timeout], ?_,
            Or.inr ⟨c, hh, t, sig, h', pkts, hb, hcm, hst, hge, hr, rfl, rfl⟩⟩
          refine STr.of_finish hw hcm _ ?_ ?_ rfl rfl rfl (fun _ h => h) rfl rfl (by simp)
          · intro e he
            simp only [List.mem_append, List.mem_map, List.mem_singleton] at he
            rcases he with ⟨_, _, rfl⟩ | rfl <;> rfl
          · rw [hst, RState.phase_active, SPhase.run_conn_recv]; rfl
      · cases h; exact ⟨[], STr.refl hw, Or.inl ⟨rfl, rfl⟩⟩
    · cases h; exact ⟨[], STr.refl hw, Or.inl ⟨rfl, rfl⟩⟩

theorem Server.activeTimeouts_STr (hc : HC H) (s s' : Server H) (hw : s.WF) (nowMs : Nat)
    (h : s.activeTimeouts hc nowMs = .ok s') : ∃ evs, STr s evs s' := by
  rw [Server.activeTimeouts_eq] at h
  refine foldlM_induct (Server.activeTimeoutStep hc nowMs) (fun x => ∃ evs, STr s evs x) ?_ s.active s s'
    ⟨[], STr.refl hw⟩ h
  intro x cid x' ⟨e1, h1⟩ hx
  obtain ⟨e2, h2, -⟩ := Server.activeTimeoutStep_STr hc nowMs x x' h1.wf cid hx
  exact ⟨e1 ++ e2, h1.trans h2⟩

/-! ## `retain` -/

/-- The `retain` of `Server.step` and the forgetting of unreferenced detached objects. -/
theorem Server.retain_STr (s : Server H) (hw : s.WF) (det : List (RClient H)) (hdet : det.Sublist s.detached) :
    STr s [] ({ s with
      active := s.active.filter fun cid => match s.byCid cid with
        | some c => c.state.isActive
        | none => false,
      detached := det } : Server H) := by
  refine ⟨hw.of_retain rfl hdet rfl ?_, rfl, rfl, by simp, fun a => by rw [Server.phaseOf_congr rfl]; rfl⟩
  intro c hc hca
  show c.cid ∈ List.filter _ s.active
  rw [List.mem_filter]
  refine ⟨hw.act c hc hca, ?_⟩
  rw [Server.byCid_of_mem hw hc]
  exact hca

/-! ## `step_active_clients` -/

/-- The timer armed when an entry becomes `closing`. -/
def discTimer (cid nowMs : Nat) : Timer :=
  { cid := cid, kind := .resendDisconnect, time := nowMs + SERVER_DISCONNECT_RESEND_INTERVAL_MS,
    count := SERVER_DISCONNECT_RESEND_COUNT }

/-- The server-side disconnect gate. -/
def sDiscGate (hc : HC H) (sig : Option DisconnectMode) (h : H) : Bool :=
  match sig with
  | some .now => true
  | some .flush => !hc.isSendPending h
  | none => false

/-- One iteration of `step_active_clients`. -/
def Server.stepActiveStep (hc : HC H) (nowMs nowNs : Nat) (acc : Server H × List (Nat × List Nat)) (cid : Nat) :
    R (Server H × List (Nat × List Nat)) :=
  let s := acc.1
  match s.byCid cid with
  | none => .ok acc
  | some c =>
    match c.state with
    | .active h timeout sig =>
      if sDiscGate hc sig h then
        match hc.receive h with
        | .error t => .error t
        | .ok (_, pkts) =>
          let s := { s with eventsOut := s.eventsOut ++ pkts.map (SEvent.receive c.address) }
          let s := s.put { c with state := .closing }
          .ok ({ s with timers := tPush s.timers (discTimer c.cid nowMs) },
               acc.2 ++ [(c.address, discReq)])
      else
        match hc.step h nowNs with
        | .error t => .error t
        | .ok h =>
          match hc.receive h with
          | .error t => .error t
          | .ok (h, pkts) =>
            let s := s.put { c with state := .active h timeout sig }
            .ok ({ s with eventsOut := s.eventsOut ++ pkts.map (SEvent.receive c.address) }, acc.2)
    | _ => .ok acc

theorem Server.stepActive_eq (hc : HC H) (s : Server H) (nowMs nowNs : Nat) :
    s.stepActive hc nowMs nowNs = s.active.foldlM (Server.stepActiveStep hc nowMs nowNs) (s, []) := rfl

/-- One iteration of `step_active_clients`: only `receive` events, only for an `active` entry, which
stays `active` or (exactly when the gate holds) becomes `closing` with the request sent last. -/
theorem Server.stepActiveStep_STr (hc : HC H) (nowMs nowNs : Nat) (acc acc' : Server H × List (Nat × List Nat))
    (hw : acc.1.WF) (cid : Nat) (h : Server.stepActiveStep hc nowMs nowNs acc cid = .ok acc') :
    ∃ evs, STr acc.1 evs acc'.1 ∧
      ((evs = [] ∧ acc' = acc) ∨
       ∃ c hh t sig, acc.1.byCid cid = some c ∧ c ∈ acc.1.clients ∧ c.state = .active hh t sig ∧
         ((sDiscGate hc sig hh = true ∧ ∃ h' pkts, hc.receive hh = .ok (h', pkts) ∧
            evs = pkts.map (SEvent.receive c.address) ∧ acc'.2 = acc.2 ++ [(c.address, discReq)] ∧
            acc'.1.find c.address = some { c with state := .closing } ∧
            acc'.1.timers = tPush acc.1.timers (discTimer c.cid nowMs)) ∨
          (sDiscGate hc sig hh = false ∧ ∃ h1 h2 pkts, hc.step hh nowNs = .ok h1 ∧ hc.receive h1 = .ok (h2, pkts) ∧
            evs = pkts.map (SEvent.receive c.address) ∧ acc'.2 = acc.2 ∧
            acc'.1.find c.address = some { c with state := .active h2 t sig }))) := by
  obtain ⟨s, o⟩ := acc
  unfold Server.stepActiveStep at h
  simp only at h hw ⊢
  split at h
  · cases h; exact ⟨[], STr.refl hw, Or.inl ⟨rfl, rfl⟩⟩
  · next c hb =>
    split at h
    · next hh t sig hst =>
      obtain ⟨hcm, -⟩ := Server.byCid_clients hw hb (by rw [hst]; intro h; cases h)
      have hfind := Server.find_of_mem hw hcm
      have hrecv : ∀ pkts : List (List Nat), ∀ e ∈ pkts.map (SEvent.receive c.address), e.addr = c.address := by
        intro pkts e he
        simp only [List.mem_map] at he
        obtain ⟨_, _, rfl⟩ := he; rfl
      split at h
      · next hg =>
        split at h
        · cases h
        · next h' pkts hr =>
          cases h
          have hcm' : c ∈ ({ s with eventsOut := s.eventsOut ++ pkts.map (SEvent.receive c.address) } : Server H).clients := hcm
          rw [Server.put_state_eq hcm']
          refine ⟨_, STr.of_put (c' := { c with state := .closing }) hw hcm rfl rfl _ (hrecv pkts)
              (by rw [hst, RState.phase_active, SPhase.run_conn_recv']; rfl) rfl rfl rfl (fun _ h => h)
              (by intro h; cases h) rfl rfl rfl,
            Or.inr ⟨c, hh, t, sig, hb, hcm, hst, Or.inl ⟨hg, h', pkts, hr, rfl, rfl, ?_, rfl⟩⟩⟩
          rw [Server.find_of_clients (cl := updCid s.clients { c with state := .closing }) rfl,
            findA_updCid (c' := { c with state := .closing }) hw.addr hw.cidClients hcm rfl rfl, if_pos rfl]
      · next hg =>
        split at h
        · cases h
        · next h1 hs1 =>
          split at h
          · cases h
          · next h2 pkts hr =>
            cases h
            rw [Server.put_state_eq hcm]
            refine ⟨_, STr.of_put (c' := { c with state := .active h2 t sig }) hw hcm rfl rfl _ (hrecv pkts)
                (by rw [hst, RState.phase_active, SPhase.run_conn_recv']; rfl) rfl rfl rfl (fun _ h => h)
                (by intro _; exact hw.act c hcm (by rw [hst]; rfl)) rfl rfl rfl,
              Or.inr ⟨c, hh, t, sig, hb, hcm, hst,
                Or.inr ⟨by simpa using hg, h1, h2, pkts, hs1, hr, rfl, rfl, ?_⟩⟩⟩
            rw [Server.find_of_clients (cl := updCid s.clients { c with state := .active h2 t sig }) rfl,
              findA_updCid (c' := { c with state := .active h2 t sig }) hw.addr hw.cidClients hcm rfl rfl, if_pos rfl]
    · cases h; exact ⟨[], STr.refl hw, Or.inl ⟨rfl, rfl⟩⟩

theorem Server.stepActive_STr (hc : HC H) (s s' : Server H) (hw : s.WF) (nowMs nowNs : Nat)
    (out : List (Nat × List Nat)) (h : s.stepActive hc nowMs nowNs = .ok (s', out)) :
    ∃ evs, STr s evs s' ∧ ∀ e ∈ evs, ∃ a d, e = SEvent.receive a d := by
  rw [Server.stepActive_eq] at h
  refine foldlM_induct (Server.stepActiveStep hc nowMs nowNs)
    (fun x => ∃ evs, STr s evs x.1 ∧ ∀ e ∈ evs, ∃ a d, e = SEvent.receive a d) ?_ s.active (s, [])
    (s', out) ⟨[], STr.refl hw, by simp⟩ h
  intro x cid x' ⟨e1, h1, n1⟩ hx
  obtain ⟨e2, h2, hsh⟩ := Server.stepActiveStep_STr hc nowMs nowNs x x' h1.wf cid hx
  refine ⟨e1 ++ e2, h1.trans h2, fun e he => ?_⟩
  rcases List.mem_append.mp he with he | he
  · exact n1 e he
  · rcases hsh with ⟨rfl, _⟩ | ⟨c, _, _, _, _, _, _, hcase⟩
    · cases he
    · rcases hcase with ⟨_, _, pkts, _, rfl, _⟩ | ⟨_, _, _, pkts, _, _, rfl, _⟩ <;>
      · simp only [List.mem_map] at he
        obtain ⟨d, _, rfl⟩ := he
        exact ⟨_, _, rfl⟩

/-! ## `flush_active_clients` -/

def Server.flushActiveStep (hc : HC H) (acc : Server H × List (Nat × List Nat)) (cid : Nat) :
    R (Server H × List (Nat × List Nat)) :=
  let s := acc.1
  match s.byCid cid with
  | none => .ok acc
  | some c =>
    match c.state with
    | .active h timeout sig =>
      match hc.flush h s.rng with
      | .error t => .error t
      | .ok (h, rng, frames) =>
        let s := ({ s with rng := rng } : Server H).put { c with state := .active h timeout sig }
        .ok (s, acc.2 ++ frames.map fun f => (c.address, f))
    | _ => .ok acc

theorem Server.flushActive_eq (hc : HC H) (s : Server H) :
    s.flushActive hc = s.active.foldlM (Server.flushActiveStep hc) (s, []) := rfl

theorem Server.flushActiveStep_STr (hc : HC H) (acc acc' : Server H × List (Nat × List Nat))
    (hw : acc.1.WF) (cid : Nat) (h : Server.flushActiveStep hc acc cid = .ok acc') :
    STr acc.1 [] acc'.1 := by
  obtain ⟨s, o⟩ := acc
  unfold Server.flushActiveStep at h
  simp only at h hw ⊢
  split at h
  · cases h; exact STr.refl hw
  · next c hb =>
    split at h
    · next hh t sig hst =>
      obtain ⟨hcm, -⟩ := Server.byCid_clients hw hb (by rw [hst]; intro h; cases h)
      split at h
      · cases h
      · next h' rng frames hfl =>
        cases h
        have hcm' : c ∈ ({ s with rng := rng } : Server H).clients := hcm
        rw [Server.put_state_eq hcm']
        exact STr.of_put (c' := { c with state := .active h' t sig }) hw hcm rfl rfl [] (by simp)
          (by rw [hst]; rfl) rfl rfl rfl (fun _ h => h)
          (by intro _; exact hw.act c hcm (by rw [hst]; rfl)) rfl rfl (by simp)
    · cases h; exact STr.refl hw

theorem Server.flushActive_STr (hc : HC H) (s s' : Server H) (hw : s.WF)
    (out : List (Nat × List Nat)) (h : s.flushActive hc = .ok (s', out)) : STr s [] s' := by
  rw [Server.flushActive_eq] at h
  refine foldlM_induct (Server.flushActiveStep hc) (fun x => STr s [] x.1) ?_ s.active (s, [])
    (s', out) (STr.refl hw) h
  intro x cid x' h1 hx
  have h2 := Server.flushActiveStep_STr hc x x' h1.wf cid hx
  simpa using h1.trans h2

/-! ## `Server::step` -/

/-- The server clock of a step. -/
def Server.nowMs (s : Server H) (nowNs : Nat) : Nat := (nowNs - s.timeBase) / 1000000

/-- Shape of a successful `Server.step`: the phases with their intermediate states. -/
theorem Server.step_phases (hc : HC H) (s s' : Server H) (nowNs : Nat) (arrivals sent : List (Nat × List Nat))
    (evs : List SEvent) (h : s.step hc nowNs arrivals = .ok (s', sent, evs)) :
    ∃ s1 o1 s2 o2 s4 s6 o6,
      s.flushActive hc = .ok (s1, o1) ∧
      s1.handleFrames hc arrivals (s.nowMs nowNs) nowNs = .ok (s2, o2) ∧
      (Server.runTimers (s2.timers.size * 12 + 16) s2 (s.nowMs nowNs) []).1.activeTimeouts hc (s.nowMs nowNs) = .ok s4 ∧
      ({ s4 with
          active := s4.active.filter fun cid => match s4.byCid cid with
            | some c => c.state.isActive
            | none => false,
          detached := s4.detached.filter fun c =>
            (s4.active.filter fun cid => match s4.byCid cid with
              | some c => c.state.isActive
              | none => false).contains c.cid || s4.timers.any (·.cid = c.cid) } : Server H).stepActive hc (s.nowMs nowNs) nowNs
        = .ok (s6, o6) ∧
      s' = { s6 with eventsOut := [] } ∧ evs = s6.eventsOut ∧
      sent = o1 ++ o2 ++ (Server.runTimers (s2.timers.size * 12 + 16) s2 (s.nowMs nowNs) []).2 ++ o6 := by
  unfold Server.step at h
  simp only at h
  split at h
  · cases h
  · next s1 o1 h1 =>
    split at h
    · cases h
    · next s2 o2 h2 =>
      rcases hrt : Server.runTimers (s2.timers.size * 12 + 16) s2 ((nowNs - s.timeBase) / 1000000) [] with ⟨s3, o3⟩
      rw [hrt] at h
      simp only at h
      split at h
      · cases h
      · next s4 h4 =>
        split at h
        · cases h
        · next s6 o6 h6 =>
          cases h
          refine ⟨s1, o1, s2, o2, s4, s6, o6, h1, h2, ?_, h6, rfl, rfl, ?_⟩
          · show (Server.runTimers (s2.timers.size * 12 + 16) s2 ((nowNs - s.timeBase) / 1000000) []).1.activeTimeouts hc _ = _
            rw [hrt]; exact h4
          · show _ = o1 ++ o2 ++ (Server.runTimers (s2.timers.size * 12 + 16) s2 ((nowNs - s.timeBase) / 1000000) []).2 ++ o6
            rw [hrt]

/-- A whole step, from a well-formed state with an empty event buffer: well-formedness is preserved, the
buffer is empty again, and for every address the delivered events lead the monitor from the phase of
the old state to the phase of the new state. -/
theorem Server.step_STr (hc : HC H) (s s' : Server H) (hw : s.WF) (he : s.eventsOut = []) (nowNs : Nat)
    (arrivals sent : List (Nat × List Nat)) (evs : List SEvent)
    (h : s.step hc nowNs arrivals = .ok (s', sent, evs)) :
    s'.WF ∧ s'.eventsOut = [] ∧ s'.cfg = s.cfg ∧ s'.timeBase = s.timeBase ∧
    ∀ a, (s.phaseOf a).run (evsOf a evs) = some (s'.phaseOf a) := by
  obtain ⟨s1, o1, s2, o2, s4, s6, o6, h1, h2, h4, h6, rfl, rfl, -⟩ := Server.step_phases hc s s' nowNs arrivals sent evs h
  have t1 := Server.flushActive_STr hc s s1 hw o1 h1
  obtain ⟨e2, t2, -⟩ := Server.handleFrames_STr hc s1 s2 t1.wf arrivals _ nowNs o2 h2
  obtain ⟨e3, t3, -⟩ := Server.runTimers_STr (s2.timers.size * 12 + 16) s2 t2.wf (s.nowMs nowNs) []
  obtain ⟨e4, t4⟩ := Server.activeTimeouts_STr hc _ s4 t3.wf _ h4
  have t5 := Server.retain_STr s4 t4.wf _ (List.filter_sublist (l := s4.detached)
    (p := fun c => (s4.active.filter fun cid => match s4.byCid cid with
              | some c => c.state.isActive
              | none => false).contains c.cid || s4.timers.any (·.cid = c.cid)))
  obtain ⟨e6, t6, -⟩ := Server.stepActive_STr hc _ s6 t5.wf _ nowNs o6 h6
  have tt := ((((t1.trans t2).trans t3).trans t4).trans t5).trans t6
  refine ⟨tt.wf.congr rfl rfl rfl (fun _ h => h), rfl, tt.cfg, tt.timeBase, fun a => ?_⟩
  have hev := tt.events
  rw [he, List.nil_append] at hev
  rw [hev]
  exact tt.mon a

end Uflow.Endpoint
