import Uflow.Lemmas.HcGateLaterSys
import Uflow.Lemmas.HcGateMain

/-!
C09GateLater, part 2: the peer calls `receive` LATER. The gate opens at the end of `sched1` (state
`h1`); the run continues with an arbitrary `Guarded` schedule `sched2` and then `recvB`. The `Sys` run
that simulates `sched1` is extended by a `sync` step (its guard `SyncOk` holds because the gate is
open), which records `(number of packets emitted, next id)` in the ghost list `syncs`; the simulation
is then continued over `sched2` from the SAME pair state (`Rel` is monotone in `syncs`). `syncs` only
grows, so at the end the clause `PInv.sync` says: every Reliable packet emitted before the gate opened
is still completely received (logged, passed, or entry flag). The prefix form of the receiver-side
lemma finishes.
-/

namespace Uflow.HcGate

open Uflow Uflow.Gen Uflow.Codec Uflow.HalfConn Uflow.PSend Uflow.HcSys Uflow.HcFlush
open Uflow.PRecv (LogE bindR bindR_ok)
open Uflow.Sys (Sys SOp runS stepS initS SyncOk Recvd)
open Uflow.Props.C01Sys
open Uflow.Rate (FloatOps)
open Uflow.Props.C01 (SyncCfg)
open Uflow.HcFrm (IdsNodup)

variable {F : Type}

/-! ### `Sys` -/

/-- After a recorded `sync` value `(n, id)`: one `recv` step leaves every Reliable packet emitted at a
position `< n` in the log, with channel and payload — in ANY reachable state, however much later. -/
theorem sys_later_recv_delivers (w k b a m : Nat) (hwk : w ≤ 2^k) (hw : w ≤ 2^16) (hk : k ≤ 19) (hb : b < 2^20)
    (ham : allocCeil a ≤ allocCeil m) (sops : List SOp) (s s' : Sys)
    (hs : runS (initS w (2^k) b a m) sops = .ok s) (n id : Nat) (hmem : (n, id) ∈ s.syncs)
    (hstep : stepS s .recv = .ok s') :
    runS (initS w (2^k) b a m) (sops ++ [.recv]) = .ok s' ∧ s'.hist = s.hist ∧ s'.snd = s.snd ∧
    ∀ j x, s'.hist.emitted[j]? = some x → x.mode = .reliable → j < n →
      ∃ e ∈ s'.rcv.log, e.uid = j ∧ e.chan = x.channelId ∧ e.data = some x.data := by
  have hinv := C01_sys_reach w k b a m (by omega) hk hb sops s hs
  have hp := C02_sys_reach_delivery w k b a m hw hk hb sops s hs
  obtain ⟨-, hdel⟩ := Sys.recv_delivers_complete_prefix (PRecv.wOk_pow k hk) hw hwk hinv hp n
    (fun j x hx hrel hj => hp.sync n id hmem j x hx hrel hj) hstep
  obtain ⟨f1, f2, -⟩ := stepS_recv_frame hstep
  have hfull : runS (initS w (2^k) b a m) (sops ++ [.recv]) = .ok s' := by
    rw [HcSys.runS_append, hs, bindR_ok]; exact runS_single _ _ _ hstep
  refine ⟨hfull, f2, f1, ?_⟩
  intro j x hx hrel hj
  obtain ⟨e, he, hu⟩ := hdel j x (by rw [← f2]; exact hx) hrel hj
  obtain ⟨em, hem, hd⟩ := C01_sys_delivered_payload w k b a m hw hk hb ham _ s' hfull e he
  obtain ⟨em', hem', _, _, _, hch, _⟩ := C01_sys_delivered_is_emitted w k b a m (by omega) hk hb _ s' hfull e he
  rw [hu, hx] at hem hem'
  cases hem
  cases hem'
  exact ⟨e, he, hu, hch, hd⟩

/-- Per channel, for an earlier reachable state `s1` with an empty send queue and a later reachable
state `s3` whose emission history extends that of `s1`: if every Reliable packet emitted in `s1` is in
the log of `s3`, the Reliable payloads submitted on the channel up to `s1`, in submission order, are a
subsequence of the payloads delivered on it up to `s3`. -/
theorem sys_reliable_sublist_later (w k b a m : Nat) (hw : w ≤ 2^16) (hk : k ≤ 19) (hb : b < 2^20)
    (ham : allocCeil a ≤ allocCeil m) (sops1 sops3 : List SOp) (s1 s3 : Sys)
    (hs1 : runS (initS w (2^k) b a m) sops1 = .ok s1) (hs3 : runS (initS w (2^k) b a m) sops3 = .ok s3)
    (hq : s1.snd.queue = []) (hpre : s1.hist.emitted <+: s3.hist.emitted)
    (hdel : ∀ j x, s3.hist.emitted[j]? = some x → x.mode = .reliable → j < s1.hist.emitted.length →
      ∃ e ∈ s3.rcv.log, e.uid = j ∧ e.chan = x.channelId ∧ e.data = some x.data) (c : Nat) :
    ((s1.hist.enqueued.filter (relChanQ c)).map QEntry.data).Sublist
      ((s3.rcv.log.filter (fun e => decide (e.chan = c))).filterMap LogE.data) := by
  have hw' : w < 2^20 := by omega
  have hinv1 := C01_sys_reach w k b a m hw' hk hb sops1 s1 hs1
  have hinv3 := C01_sys_reach w k b a m hw' hk hb sops3 s3 hs3
  obtain ⟨tl, htl⟩ := hpre
  have hget : ∀ j, j < s1.hist.emitted.length → s3.hist.emitted[j]? = s1.hist.emitted[j]? := by
    intro j hj; rw [← htl]; exact List.getElem?_append_left hj
  rw [sys_reliable_emitted w k b a m hw' hk hb sops1 s1 hs1 hq c]
  refine List.Sublist.trans ?_
    (List.Sublist.filterMap LogE.data (List.filter_sublist
      (l := s3.rcv.log.filter (fun e => decide (e.chan = c)))
      (p := fun e => decide (e.uid < s1.hist.emitted.length))))
  apply covered_sublist _ LogE.uid LogE.data s1.hist.emitted Emitted.uid Emitted.data
  · intro j x hx
    exact (hinv1.snd.hinv.ids j x hx).1
  · refine List.Pairwise.imp_of_mem ?_ ((hinv3.rcv.gi.gord.filter _).filter _)
    intro x y hx hy hxy
    have cx := (List.mem_filter.mp (List.mem_filter.mp hx).1).2
    have cy := (List.mem_filter.mp (List.mem_filter.mp hy).1).2
    simp only [decide_eq_true_eq] at cx cy
    exact hxy (by rw [cx, cy])
  · intro e he
    have hlt : e.uid < s1.hist.emitted.length := by
      have := (List.mem_filter.mp he).2
      simpa using this
    obtain ⟨em, hem, hd⟩ := C01_sys_delivered_payload w k b a m hw hk hb ham sops3 s3 hs3 e
      (List.mem_filter.mp (List.mem_filter.mp he).1).1
    exact ⟨em, by rw [← hget _ hlt]; exact hem, hd⟩
  · intro j x hx hp
    have hp := of_decide_eq_true (show decide (x.toQ.mode = .reliable ∧ x.toQ.channelId = c) = true from hp)
    simp only [Emitted.toQ] at hp
    have hj : j < s1.hist.emitted.length := (List.getElem?_eq_some_iff.mp hx).1
    obtain ⟨e, he, hu, hc, _⟩ := hdel j x (by rw [hget j hj]; exact hx) hp.1 hj
    refine ⟨e, List.mem_filter.mpr ⟨List.mem_filter.mpr ⟨he, ?_⟩, ?_⟩, hu⟩
    · simp only [decide_eq_true_eq]; rw [hc, hp.2]
    · simp only [decide_eq_true_eq]; rw [hu]; exact hj

/-! ### schedules of the pair -/

theorem guarded_prefix (ops : FloatOps F) (a b : List POp) (h : HcPair F)
    (hg : Guarded ops h (a ++ b)) : Guarded ops h a := by
  induction a generalizing h with
  | nil => trivial
  | cons op rest ih => exact ⟨hg.1, fun h' hs => ih h' (hg.2 h' hs)⟩

theorem guarded_suffix (ops : FloatOps F) (a b : List POp) (h h1 : HcPair F)
    (hg : Guarded ops h (a ++ b)) (hr : runP ops h a = .ok h1) : Guarded ops h1 b := by
  induction a generalizing h with
  | nil => cases hr; exact hg
  | cons op rest ih =>
    rw [runP] at hr
    cases hs : stepP ops h op with
    | error t => rw [hs] at hr; cases hr
    | ok h' =>
      rw [hs, bindR_ok] at hr
      exact ih h' (hg.2 h' hs) hr

theorem runP_split (ops : FloatOps F) (a b : List POp) (h h2 : HcPair F)
    (hr : runP ops h (a ++ b) = .ok h2) : ∃ h1, runP ops h a = .ok h1 ∧ runP ops h1 b = .ok h2 := by
  rw [runP_append] at hr
  cases ha : runP ops h a with
  | error t => rw [ha] at hr; cases hr
  | ok h1 => rw [ha, bindR_ok] at hr; exact ⟨h1, rfl, hr⟩

theorem runP_single (ops : FloatOps F) (op : POp) (h h2 : HcPair F)
    (hr : runP ops h [op] = .ok h2) : stepP ops h op = .ok h2 := by
  rw [runP] at hr
  cases hs : stepP ops h op with
  | error t => rw [hs] at hr; cases hr
  | ok h' => rw [hs, bindR_ok] at hr; cases hr; rfl

/-- A step only appends to the ghost records `em` (emitted packets) and `sent` (`A.send` calls). -/
theorem stepP_ghost_prefix (ops : FloatOps F) (h h' : HcPair F) (op : POp) (hs : stepP ops h op = .ok h') :
    (∃ e2, h'.em = h.em ++ e2) ∧ ∃ s2, h'.sent = h.sent ++ s2 := by
  have triv : ∀ {α : Type} (l : List α), ∃ t, l = l ++ t := fun l => ⟨[], (List.append_nil _).symm⟩
  cases op with
  | sendA d c m =>
    simp only [stepP] at hs
    split at hs
    · cases hs; exact ⟨triv _, _, rfl⟩
    · cases hs; exact ⟨triv _, triv _⟩
  | flushA =>
    simp only [stepP] at hs
    cases hf : flush h.A with
    | error t => rw [hf] at hs; cases hs
    | ok r => rw [hf, bindR_ok] at hs; cases hs; exact ⟨⟨_, rfl⟩, triv _⟩
  | stepA now =>
    simp only [stepP] at hs
    cases hf : step ops h.A now with
    | error t => rw [hf] at hs; cases hs
    | ok r => rw [hf, bindR_ok] at hs; cases hs; exact ⟨triv _, triv _⟩
  | stepB now =>
    simp only [stepP] at hs
    cases hf : step ops h.B now with
    | error t => rw [hf] at hs; cases hs
    | ok r => rw [hf, bindR_ok] at hs; cases hs; exact ⟨triv _, triv _⟩
  | flushB =>
    simp only [stepP] at hs
    cases hf : flush h.B with
    | error t => rw [hf] at hs; cases hs
    | ok r => rw [hf, bindR_ok] at hs; cases hs; exact ⟨triv _, triv _⟩
  | recvB =>
    simp only [stepP] at hs
    cases hf : receive h.B with
    | error t => rw [hf] at hs; cases hs
    | ok r => rw [hf, bindR_ok] at hs; cases hs; exact ⟨triv _, triv _⟩
  | deliverAB k =>
    simp only [stepP] at hs
    cases hk : h.wireAB[k]? with
    | none => rw [hk] at hs; cases hs; exact ⟨triv _, triv _⟩
    | some bytes =>
      rw [hk] at hs
      simp only [] at hs
      cases hf : dispatch h.B (bytes.take MAX_FRAME_SIZE) with
      | error t => rw [hf] at hs; cases hs
      | ok r => rw [hf, bindR_ok] at hs; cases hs; exact ⟨triv _, triv _⟩
  | deliverBA k =>
    simp only [stepP] at hs
    cases hk : h.wireBA[k]? with
    | none => rw [hk] at hs; cases hs; exact ⟨triv _, triv _⟩
    | some bytes =>
      rw [hk] at hs
      simp only [] at hs
      cases hf : dispatch h.A (bytes.take MAX_FRAME_SIZE) with
      | error t => rw [hf] at hs; cases hs
      | ok r => rw [hf, bindR_ok] at hs; cases hs; exact ⟨triv _, triv _⟩

theorem runP_ghost_prefix (ops : FloatOps F) (sched : List POp) (h h' : HcPair F)
    (hr : runP ops h sched = .ok h') : h.em <+: h'.em ∧ h.sent <+: h'.sent := by
  induction sched generalizing h with
  | nil => cases hr; exact ⟨List.prefix_refl _, List.prefix_refl _⟩
  | cons op rest ih =>
    rw [runP] at hr
    cases hs : stepP ops h op with
    | error t => rw [hs] at hr; cases hr
    | ok h1 =>
      rw [hs, bindR_ok] at hr
      obtain ⟨⟨e1, he1⟩, ⟨s1, hs1⟩⟩ := stepP_ghost_prefix ops h h1 op hs
      obtain ⟨i1, i2⟩ := ih h1 hr
      exact ⟨(show h.em <+: h1.em from ⟨e1, he1.symm⟩).trans i1,
        (show h.sent <+: h1.sent from ⟨s1, hs1.symm⟩).trans i2⟩

/-! ### assembly -/

/-- What the peer's LATER `receive` achieves for the packets submitted before the gate opened in `h1`:
in the state `h2` after that `receive` there are an attribution `log` of the payloads returned by
`B.receive` and the list `em` of emitted packets (`Attributed h2 log em`) such that the emission history
and the submission record of `h1` are prefixes of those of `h2`, every non-TimeSensitive submission of
`h1` was emitted in `h1`, every Reliable packet emitted in `h1` has a log entry with its position,
channel and payload, and per channel the Reliable payloads submitted up to `h1` are a subsequence of the
payloads delivered up to `h2`. -/
def LaterComplete (h1 h2 : HcPair F) : Prop :=
  ∃ (log : List LogE) (em : List Emitted), Attributed h2 log em ∧
    h1.em <+: em ∧ h1.sent <+: h2.sent ∧
    h1.sent.filter notTS = (h1.em.map Emitted.toQ).filter notTS ∧
    (∀ j x, h1.em[j]? = some x → x.mode = .reliable →
      ∃ e ∈ log, e.uid = j ∧ e.chan = x.channelId ∧ e.data = some x.data) ∧
    ∀ c, ((h1.sent.filter (fun q => decide (q.mode = .reliable ∧ q.channelId = c))).map QEntry.data).Sublist
      ((log.filter (fun e => decide (e.chan = c))).filterMap LogE.data)

/-- **Gate open at `h1`, any `Guarded` continuation `sched2`, then `B.receive`.** -/
theorem gate_then_later_receive (ops : FloatOps F) (cA cB : Config) (nowA nowB : Nat) (rngA rngB : Rng)
    (k : Nat) (hc : SyncCfg cA cB k) (ham : allocCeil cA.txAllocLimit ≤ allocCeil cB.rxAllocLimit)
    (sched1 sched2 : List POp) (h1 hm h2 : HcPair F)
    (hg1 : Guarded ops (initP ops cA cB nowA nowB rngA rngB) sched1)
    (hrun1 : runP ops (initP ops cA cB nowA nowB rngA rngB) sched1 = .ok h1)
    (hn : IdsNodup h1.wireAB) (hidle : isSendPending h1.A = false)
    (hg2 : Guarded ops h1 sched2) (hrun2 : runP ops h1 sched2 = .ok hm)
    (hstep : stepP ops hm .recvB = .ok h2) : LaterComplete h1 h2 := by
  obtain ⟨hq, hp, hres⟩ := (not_pending_iff h1.A).mp hidle
  have hok : SyncOkP h1 :=
    (Uflow.Props.C01.C01_hc_sync_ok ops cA cB nowA nowB rngA rngB k hc sched1 h1 hg1 hrun1 hn).1
      (by rw [hres]; rfl) (by rw [hp]; rfl)
  obtain ⟨sops1, s1, hs1, hr1⟩ :=
    Uflow.Props.C01.C01_hc_refines_sys ops cA cB nowA nowB rngA rngB hc.pc hc.base sched1 h1 hg1 hrun1
  rw [hc.hW] at hs1
  have hi1 := Uflow.Props.C01.C01_hc_reach ops cA cB nowA nowB rngA rngB hc.pc sched1 h1 hrun1
  -- the `sync` step of `Sys`
  have hsync := Sys.stepS_sync_ok (syncOk_of_rel hr1 hok)
  generalize hs1' : ({ s1 with syncs := s1.syncs ++ [(s1.hist.emitted.length, s1.snd.nextId)] } : Sys) = s1'
    at hsync
  have hr1' : Rel h1 s1' := by
    subst hs1'
    exact {
      snd := hr1.snd, pend := hr1.pend, enq := hr1.enq, elen := hr1.elen, rcv := hr1.rcv, adv := hr1.adv,
      log := hr1.log, seen := hr1.seen, net := hr1.net, em := hr1.em,
      syncs := fun x hx => List.mem_append_left _ (hr1.syncs x hx) }
  have hmem1 : (s1.hist.emitted.length, s1.snd.nextId) ∈ s1'.syncs := by
    subst hs1'
    exact List.mem_append_right _ (List.mem_singleton.mpr rfl)
  -- the continuation
  obtain ⟨sops2, sm, hsm, hrm⟩ := sim_run ops sched2 hi1 hr1' hg2 hrun2
  have hfullm : runS (initS cA.txPacketWindowSize (2^k) cA.txPacketBaseId cA.txAllocLimit cB.rxAllocLimit)
      (sops1 ++ [.sync] ++ sops2) = .ok sm := by
    rw [HcSys.runS_append, HcSys.runS_append, hs1, bindR_ok, runS_single _ _ _ hsync, bindR_ok]
    exact hsm
  have hmemm := Sys.runS_syncs_mono sops2 hsm _ hmem1
  -- the final `receive`
  obtain ⟨s3, hs3, hr3, _, hsent3, _, hem3, _⟩ := sim_recvB ops hrm hstep
  obtain ⟨hfull3, f2, -, hdel⟩ := sys_later_recv_delivers _ k _ _ _ hc.hwk hc.hw hc.hk hc.pc.txA ham _ sm s3
    hfullm _ _ hmemm hs3
  obtain ⟨pem, psent⟩ := runP_ghost_prefix ops sched2 h1 hm hrun2
  have hinv1 := C01_sys_reach _ k _ _ _ (by have := hc.hw; omega) hc.hk hc.pc.txA sops1 s1 hs1
  have hpre : s1.hist.emitted <+: s3.hist.emitted := by rw [hr1.em, hr3.em, hem3]; exact pem
  have hq1 : s1.snd.queue = [] := by rw [rel_queue hr1, hq]
  refine ⟨s3.rcv.log, s3.hist.emitted,
    attributed_of_rel _ k _ _ _ hc.hw hc.hk hc.pc.txA ham _ s3 hfull3 h2 hr3, ?_, ?_, ?_, ?_, ?_⟩
  · rw [hr3.em, hem3]; exact pem
  · rw [hsent3]; exact psent
  · have ho := hinv1.snd.hinv.order.2
    rw [hq1, List.append_nil, hr1.enq, hr1.em] at ho
    exact ho
  · intro j x hx hrel
    have hj : j < s1.hist.emitted.length := by rw [hr1.em]; exact (List.getElem?_eq_some_iff.mp hx).1
    obtain ⟨tl, htl⟩ := hpre
    exact hdel j x (by rw [← htl, List.getElem?_append_left hj, hr1.em]; exact hx) hrel hj
  · intro c
    have := sys_reliable_sublist_later _ k _ _ _ hc.hw hc.hk hc.pc.txA ham sops1 _ s1 s3 hs1 hfull3 hq1 hpre hdel c
    rw [hr1.enq] at this
    exact this

end Uflow.HcGate
