import Uflow.Lemmas.AckQInv

/-!
C01Hc (frame-level acknowledgements), part 1: what the bits of the pending ack groups of the
receiver's frame acknowledgement queue (`FrameQ.AckQ`, `frame_ack_queue.rs`) mean. `BitsP P q`: every
bit set in a pending group names a frame id with the property `P`; `mark_seen(id)` keeps it when
`P id` holds, the other operations only remove groups or move the window base.
-/

namespace Uflow.HcFrm

open Uflow Uflow.Codec Uflow.FrameQ Uflow.AckQB

/-! ### setting one bit -/

theorem add_two_pow_eq_or (x b : Nat) (hc : x / 2^b % 2 = 0) : x + 2^b = x ||| 2^b := by
  have hr : x % 2^(b+1) < 2^b := by
    rw [Nat.pow_succ, Nat.mod_mul, hc]
    simp only [Nat.mul_zero, Nat.add_zero]
    exact Nat.mod_lt _ (Nat.two_pow_pos b)
  have hx : x = 2^(b+1) * (x / 2^(b+1)) + x % 2^(b+1) := (Nat.div_add_mod x _).symm
  generalize x / 2^(b+1) = a at hx
  generalize x % 2^(b+1) = r at hx hr
  subst hx
  have hp : 2^(b+1) = 2 * 2^b := by rw [Nat.pow_succ]; omega
  have h1 : 2^b + r < 2^(b+1) := by omega
  have h0 : r < 2^(b+1) := by omega
  have h2 : 2^b + r = 2^b ||| r := by
    have := Nat.two_pow_add_eq_or_of_lt hr 1
    simpa using this
  rw [Nat.add_assoc, Nat.add_comm r (2^b), Nat.two_pow_add_eq_or_of_lt h1, Nat.two_pow_add_eq_or_of_lt h0,
    h2, Nat.or_comm (2^b) r, Nat.or_assoc]

theorem bit_iff (x t : Nat) : x / 2^t % 2 = 1 ↔ x.testBit t = true := by
  rw [Nat.testBit_eq_decide_div_mod_eq]; simp

/-- Adding `2^b` to a bit field whose bit `b` is clear sets exactly that bit and stays below `2^32`. -/
theorem set_bit (x b : Nat) (hx : x < 2^32) (hb : b < 32) (hc : x / 2^b % 2 = 0) :
    x + 2^b < 2^32 ∧ ∀ t, (x + 2^b) / 2^t % 2 = 1 → t = b ∨ x / 2^t % 2 = 1 := by
  rw [add_two_pow_eq_or x b hc]
  refine ⟨Nat.or_lt_two_pow hx (Nat.pow_lt_pow_right (by decide) hb), ?_⟩
  intro t ht
  rw [bit_iff, Nat.testBit_or, Nat.testBit_two_pow] at ht
  rw [bit_iff]
  cases hxt : x.testBit t with
  | true => exact Or.inr rfl
  | false =>
    rw [hxt] at ht
    simp only [Bool.false_or, decide_eq_true_eq] at ht
    exact Or.inl ht.symm

/-! ### groups and queues -/

/-- The group is representable on the wire and every bit set in it names a frame id with `P`. -/
def GroupP (P : Nat → Prop) (g : AckGroup) : Prop :=
  g.baseId < 2^32 ∧ g.bitfield < 2^32 ∧
    ∀ t, t < 32 → g.bitfield / 2^t % 2 = 1 → P (wadd32 g.baseId t)

/-- Every pending group of the queue satisfies `GroupP P`. -/
def BitsP (P : Nat → Prop) (q : AckQ) : Prop := ∀ g ∈ q.entries, GroupP P g

theorem GroupP.mono {P Q : Nat → Prop} {g : AckGroup} (h : GroupP P g) (hpq : ∀ x, P x → Q x) : GroupP Q g :=
  ⟨h.1, h.2.1, fun t ht hb => hpq _ (h.2.2 t ht hb)⟩

theorem BitsP.mono {P Q : Nat → Prop} {q : AckQ} (h : BitsP P q) (hpq : ∀ x, P x → Q x) : BitsP Q q :=
  fun g hg => (h g hg).mono hpq

theorem bitsP_init (P : Nat → Prop) (size base : Nat) : BitsP P (AckQ.init size base) := by
  intro g hg; cases hg

theorem advance_entries (q : AckQ) (nb : Nat) : (q.advance nb).entries = q.entries := by
  by_cases h : wsub32 nb q.baseId > 0 ∧ wsub32 nb q.baseId ≤ q.size
  · rw [qadvance_pos q nb h]
  · rw [qadvance_neg q nb h]

theorem bitsP_advance {P : Nat → Prop} {q : AckQ} (h : BitsP P q) (nb : Nat) : BitsP P (q.advance nb) := by
  intro g hg
  rw [advance_entries] at hg
  exact h g hg

theorem bitsP_resynchronize {P : Nat → Prop} {q : AckQ} (h : BitsP P q) (nb : Nat) :
    BitsP P (q.resynchronize nb) := bitsP_advance h nb

theorem dropOld_sub (size id : Nat) (es : List AckGroup) : ∀ g ∈ dropOld size id es, g ∈ es := by
  induction es with
  | nil => intro g hg; exact hg
  | cons x rest ih =>
    intro g hg
    by_cases hc : wsub32 id x.baseId ≥ size
    · have : dropOld size id (x :: rest) = dropOld size id rest := by
        rw [dropOld]; exact if_pos hc
      rw [this] at hg
      exact List.mem_cons_of_mem _ (ih g hg)
    · have : dropOld size id (x :: rest) = x :: rest := by
        rw [dropOld]; exact if_neg hc
      rw [this] at hg
      exact hg

/-- The new bit of the last group names the frame just seen. -/
theorem wadd_wsub (id b : Nat) (hid : id < 2^32) (_hb : b < 2^32) : wadd32 b (wsub32 id b) = id := by
  unfold wadd32 wsub32; omega

theorem wadd_zero (id : Nat) (hid : id < 2^32) : wadd32 id 0 = id := by
  unfold wadd32; omega

/-- `mark_seen` on the parametrised copy of `AckQG.lean`. -/
theorem qG4_bits (P : Nat → Prop) (qc : AckQ → Nat → Bool) (qd : Nat → Nat → List AckGroup → List AckGroup)
    (qa : AckQ → Nat → AckQ) (d : Nat → Nat → Nat) (q : AckQ) (id : Nat) (nonce : Bool)
    (hq : BitsP P q) (hadv : ∀ q nb, (qa q nb).entries = q.entries)
    (hdrop : ∀ S i es, ∀ g ∈ qd S i es, g ∈ es) (hid : id < 2^32) (hP : P id)
    (hd : ∀ b, b < 2^32 → wadd32 b (d id b) = id) : BitsP P (qG4 qc qd qa d q id nonce) := by
  unfold qG4
  split
  case isFalse => exact hq
  simp only []
  have hes : ∀ g ∈ qd (qa q (wadd32 id 1)).size id (qa q (wadd32 id 1)).entries, GroupP P g := by
    intro g hg
    have := hdrop _ _ _ g hg
    rw [hadv] at this
    exact hq g this
  generalize qd (qa q (wadd32 id 1)).size id (qa q (wadd32 id 1)).entries = es at hes
  have hnew : GroupP P { baseId := id, bitfield := 1, nonce := nonce } := by
    refine ⟨hid, (by show (1 : Nat) < 2^32; decide), ?_⟩
    intro t _ hb
    show P (wadd32 id t)
    have ht : t = 0 := by
      cases t with
      | zero => rfl
      | succ n =>
        exfalso
        have : (1 : Nat) / 2^(n+1) = 0 := Nat.div_eq_of_lt (Nat.one_lt_two_pow (by omega))
        simp only [this] at hb
        omega
    rw [ht, wadd_zero id hid]; exact hP
  have happ : ∀ g ∈ es ++ [({ baseId := id, bitfield := 1, nonce := nonce } : AckGroup)], GroupP P g := by
    intro g hg
    rcases List.mem_append.mp hg with hg | hg
    · exact hes g hg
    · rw [List.mem_singleton.mp hg]; exact hnew
  cases hl : es.getLast? with
  | none => exact fun g hg => happ g hg
  | some last =>
    simp only []
    have hlast : last ∈ es := List.mem_of_getLast? hl
    obtain ⟨l1, l2, l3⟩ := hes last hlast
    split
    · rename_i hbit
      split
      · rename_i hclear
        intro g hg
        show GroupP P g
        have hg' := hg
        simp only [List.mem_append, List.mem_singleton] at hg'
        rcases hg' with hg' | hg'
        · exact hes g (List.dropLast_subset _ hg')
        · rw [hg']
          obtain ⟨s1, s2⟩ := set_bit last.bitfield (d id last.baseId) l2 hbit hclear
          refine ⟨l1, s1, ?_⟩
          intro t ht hb
          show P (wadd32 last.baseId t)
          rcases s2 t hb with rfl | hold
          · rw [hd last.baseId l1]; exact hP
          · exact l3 t ht hold
      · exact fun g hg => hes g hg
    · exact fun g hg => happ g hg

/-- **`mark_seen` keeps `BitsP`** when the frame just seen has the property. -/
theorem bitsP_markSeen {P : Nat → Prop} {q : AckQ} (h : BitsP P q) (id : Nat) (nonce : Bool)
    (hid : id < 2^32) (hP : P id) : BitsP P (q.markSeen id nonce) := by
  rw [qmarkSeen_eq_G]
  exact qG4_bits P _ _ _ _ q id nonce h advance_entries dropOld_sub hid hP
    (fun b hb => wadd_wsub id b hid hb)

/-- Removing pending groups keeps `BitsP`. -/
theorem bitsP_sub {P : Nat → Prop} {q q' : AckQ} (h : BitsP P q) (hs : ∀ g ∈ q'.entries, g ∈ q.entries) :
    BitsP P q' := fun g hg => h g (hs g hg)

end Uflow.HcFrm
