import Uflow.Lemmas.SysIdealInv

/-!
The ideal network (C05Sys), part 5: a `recv` step keeps the invariant `IInv` of ideal runs, and after
it every completely received packet has been taken out of the window: the log is `0, 1, …, C-1`.
-/

namespace Uflow.Sys

open Uflow Uflow.Gen Uflow.Codec Uflow.PSend Uflow.PRecv Uflow.Frag

/-- The events of one `receive` are reported in the order of their window offsets. -/
theorem receiveT_sorted {W M : Nat} (hW : WOk W) {s s' : PRecv.State} {evs : List Ev} (hinv : Inv W M s)
    (hord : Ord W s) (hr : receiveT s = .ok (s', evs)) :
    evs.Pairwise (fun a b => pidSub a.seq s.baseId < pidSub b.seq s.baseId) := by
  rw [receiveT] at hr
  cases hdl : deliverLoopT s.baseId loopFuel s s.baseId s.endId [] with
  | error t => rw [hdl] at hr; cases hr
  | ok p1 =>
    rw [hdl, bindR_ok] at hr
    cases ht : recvTailS advanceWindow s p1.1 with
    | error t => rw [ht] at hr; cases hr
    | ok s2 =>
      rw [ht, bindR_ok] at hr
      cases hr
      obtain ⟨new, h1, -, h3⟩ := deliverLoopT_sorted hW s.baseId s.endId hinv.elt hord.ewin loopFuel s s.baseId []
        p1.1 p1.2 hinv.wsz hinv.blt (by rw [pidSub_self]; exact Nat.zero_le _) hdl
      rw [List.nil_append] at h1
      rw [h1]; exact h3

/-- `SlotInv` only reads the assembly entry of its slot. -/
theorem slotInv_congr {p : Pending} {i : Nat} {l : List Datagram} {s t : PRecv.State}
    (h : SlotInv p i l s) (he : (lget t.slots i).asm = (lget s.slots i).asm) : SlotInv p i l t := by
  unfold SlotInv at h ⊢
  rw [getSlot_eq] at h ⊢
  rw [he]
  exact h

theorem iinv_recv {b0 w W M : Nat} (hW : WOk W) (hw : w ≤ 2^16) (hwW : w ≤ W) {s s' : Sys}
    (h : SInv b0 w W M s) (p : PInv W s) {n : Nat} {q : Bool} {C f : Nat} (I : IInv b0 W s n q C f)
    (hs : stepS s .recv = .ok s') : IInv b0 W s' n true C f := by
  have h' : SInv b0 w W M s' := sinv_recv hW h hs
  simp only [stepS] at hs
  cases hg : stepT s.rcv .recv with
  | error t => rw [hg] at hs; cases hs
  | ok g =>
    rw [hg, bindR_ok] at hs
    cases hs
    rw [stepT_recv] at hg
    cases hr : receiveT s.rcv.st with
    | error t => rw [hr] at hg; cases hg
    | ok pr =>
      rw [hr, bindR_ok] at hg
      cases hg
      have hr' : receiveT s.rcv.st = .ok (pr.1, pr.2) := hr
      have hinv := h.rcv.inv
      have hord := h.rcv.ord
      have hblt := hinv.blt
      have hWle := hW.le
      have hew := hord.ewin
      have hsorted := receiveT_sorted hW hinv hord hr'
      have hjust := receiveT_just hW hinv hord h.rcv.gi hr'
      obtain ⟨s1, hinv1, hord1, hgi1, hsh, hdone, htaken, hcontent, hcase⟩ :=
        receiveT_parts hW hinv hord h.rcv.gi p.rdy (hon_of_sinv hw h) hr'
      have hc1 : CInv W s.pend s.rcv.adv s1 := cinv_shrunk h.cinv hsh
      -- window size facts
      obtain ⟨hw1, hw2, -, -, -⟩ := hinv_win h.snd.hinv (show w < 2^20 by omega)
      have hCle : C ≤ s.rcv.adv + W := by
        have := h.lo; have := h.snd.plen; have := I.cle
        omega
      have hK := I.kC
      have hadvK := I.advK
      have hbase : s.rcv.st.baseId = (b0 + s.rcv.adv) % 2^20 := h.rcv.gi.gbase
      -- the log after the call
      generalize hlog1 : s.rcv.log ++ pr.2.map (lift s.rcv.adv s.rcv.st.baseId) = log1 at *
      have hsub : ∀ e ∈ s.rcv.log, e ∈ log1 := by
        intro e he; rw [← hlog1]; exact List.mem_append.mpr (Or.inl he)
      have hold_lt : ∀ e ∈ s.rcv.log, e.uid < s.rcv.log.length := by
        intro e he
        have : e.uid ∈ s.rcv.log.map LogE.uid := List.mem_map.mpr ⟨e, he, rfl⟩
        rw [I.loguid, List.mem_range] at this
        exact this
      have ent1 : Ent W s.rcv.adv log1 s1 := by
        intro x hx hxo hen
        rw [hsh.base] at hxo ⊢
        rw [hsh.entry] at hen
        rcases p.ent x hx hxo hen with hf | ⟨e, he, hu⟩
        · rcases htaken _ hf with hf1 | ⟨ev, hev, e1, e2, e3⟩
          · exact Or.inl hf1
          · right
            refine ⟨lift s.rcv.adv s.rcv.st.baseId ev, ?_, ?_⟩
            · rw [← hlog1]; exact List.mem_append.mpr (Or.inr (List.mem_map.mpr ⟨ev, hev, rfl⟩))
            · show s.rcv.adv + pidSub ev.seq s.rcv.st.baseId = _
              rw [off_eq_of_wi hW ev.seq x s.rcv.st.baseId hblt (by omega) (by omega) e3]
        · exact Or.inr ⟨e, hsub e he, hu⟩
      have hlogchan : ∀ e ∈ log1, ∃ em, s.hist.emitted[e.uid]? = some em ∧ e.chan = em.channelId := by
        intro e he
        obtain ⟨p0, hp0, c1, -⟩ := h'.log e he
        obtain ⟨-, em, hem, -, e2, -⟩ := h'.snd.plink e.uid p0 hp0
        exact ⟨em, hem, by rw [c1, e2]⟩
      have hbeyond : ∀ e ∈ log1, ∀ y, s.hist.emitted[e.uid]? = some y →
          e.uid < s.rcv.adv + pidSub (cbO s1 y.channelId) s1.baseId := by
        intro e he y hy
        obtain ⟨em, hem, hch⟩ := hlogchan e he
        rw [hy] at hem; cases hem
        have := hgi1.glt e he
        rw [hch] at this
        exact this
      -- (A) after the delivery pass no completely received packet is left in the window
      have hA : ∀ u x, x < 2^20 → pidSub x s.rcv.st.baseId < W → s.rcv.adv + pidSub x s.rcv.st.baseId = u →
          u < C → (lget s1.slots (wi W x)).dataFlag = false := by
        intro u
        induction u using Nat.strongRecOn with
        | _ u ih =>
          intro x hx hxo hu huC
          cases hfl : (lget s1.slots (wi W x)).dataFlag with
          | false => rfl
          | true =>
            exfalso
            have hxo1 : pidSub x s1.baseId < W := by rw [hsh.base]; exact hxo
            have hnd := hdone x hx hxo1 hfl
            obtain ⟨jp, y, hy, hyrel, hych, q1, q2, q3⟩ :=
              blocked_parent hw h.snd hinv1 hord1 hc1 x hx hxo1 hfl hnd
            rw [hsh.base] at q1 q2
            have hjadv : s.rcv.adv ≤ jp := by omega
            have hxj := PRecv.pidAdd_lt b0 jp
            have hoffj : pidSub (pidAdd b0 jp) s.rcv.st.baseId = jp - s.rcv.adv := by
              rw [hbase]; exact off_arith b0 s.rcv.adv jp hjadv (by omega)
            have hen := I.ent (pidAdd b0 jp) hxj (by rw [hoffj]; omega) (by rw [hoffj]; omega)
            rw [← hsh.entry] at hen
            rcases ent1 _ hxj (by rw [hsh.base, hoffj]; omega) hen with hfj | ⟨e, he, hue⟩
            · have := ih jp (by omega) (pidAdd b0 jp) hxj (by rw [hoffj]; omega) (by rw [hoffj]; omega) (by omega)
              rw [this] at hfj; cases hfj
            · rw [hsh.base, hoffj] at hue
              have hue' : e.uid = jp := by omega
              have := hbeyond e he y (by rw [hue']; exact hy)
              rw [hych, hue', hsh.base] at this
              omega
      -- (B) … so every one of them is in the log
      have hB : ∀ u, s.rcv.adv ≤ u → u < C → ∃ e ∈ log1, e.uid = u := by
        intro u hu1 hu2
        have hxu := PRecv.pidAdd_lt b0 u
        have hoffu : pidSub (pidAdd b0 u) s.rcv.st.baseId = u - s.rcv.adv := by
          rw [hbase]; exact off_arith b0 s.rcv.adv u hu1 (by omega)
        have hen := I.ent (pidAdd b0 u) hxu (by rw [hoffu]; omega) (by rw [hoffu]; omega)
        rw [← hsh.entry] at hen
        rcases ent1 _ hxu (by rw [hsh.base, hoffu]; omega) hen with hfu | ⟨e, he, hue⟩
        · have := hA u (pidAdd b0 u) hxu (by rw [hoffu]; omega) (by rw [hoffu]; omega) hu2
          rw [this] at hfu; cases hfu
        · exact ⟨e, he, by rw [hue, hsh.base, hoffu]; omega⟩
      -- the new events are the packets `log.length, …, C - 1`
      have hnew_rng : ∀ ev ∈ pr.2, s.rcv.log.length ≤ s.rcv.adv + pidSub ev.seq s.rcv.st.baseId ∧
          s.rcv.adv + pidSub ev.seq s.rcv.st.baseId < C := by
        intro ev hev
        obtain ⟨e1, e2, e3, -⟩ := hcontent ev hev
        have hxo : pidSub ev.seq s.rcv.st.baseId < W := by omega
        constructor
        · rcases Nat.lt_or_ge (s.rcv.adv + pidSub ev.seq s.rcv.st.baseId) s.rcv.log.length with hlt | hge
          · exfalso
            have hm : s.rcv.adv + pidSub ev.seq s.rcv.st.baseId ∈ s.rcv.log.map LogE.uid := by
              rw [I.loguid, List.mem_range]; exact hlt
            obtain ⟨e, he, hue⟩ := List.mem_map.mp hm
            have hglt := h.rcv.gi.glt e he
            obtain ⟨p0, hp0, c1, -⟩ := h.log e he
            obtain ⟨p1, hp1, d1, -⟩ := (h.cinv ev.seq e1 hxo).data e3
            rw [← hue, hp0] at hp1
            cases hp1
            have hle := cbO_le hord ev.seq e1 hxo e3
            unfold cbO at hle
            rw [d1, ← c1] at hle
            omega
          · exact hge
        · rcases Nat.lt_or_ge (s.rcv.adv + pidSub ev.seq s.rcv.st.baseId) C with hlt | hge
          · exact hlt
          · have := (I.fresh ev.seq e1 hxo hge).2.1
            rw [this] at e3; cases e3
      have hnew_uid : (pr.2.map (lift s.rcv.adv s.rcv.st.baseId)).map LogE.uid =
          List.range' s.rcv.log.length (C - s.rcv.log.length) := by
        apply eq_range'_of_sorted
        · rw [List.pairwise_map, List.pairwise_map]
          refine hsorted.imp ?_
          intro a b hab
          show s.rcv.adv + pidSub a.seq s.rcv.st.baseId < s.rcv.adv + pidSub b.seq s.rcv.st.baseId
          omega
        · intro u
          constructor
          · intro hm
            obtain ⟨e, he, hue⟩ := List.mem_map.mp hm
            obtain ⟨ev, hev, rfl⟩ := List.mem_map.mp he
            have := hnew_rng ev hev
            have hue' : s.rcv.adv + pidSub ev.seq s.rcv.st.baseId = u := hue
            omega
          · rintro ⟨h1, h2⟩
            obtain ⟨e, he, hue⟩ := hB u (by omega) h2
            rw [← hlog1] at he
            rcases List.mem_append.mp he with he | he
            · have := hold_lt e he; omega
            · exact List.mem_map.mpr ⟨e, he, hue⟩
      have hlen1 : log1.length = C := by
        have := congrArg List.length hnew_uid
        rw [List.length_map, List.length_range'] at this
        rw [← hlog1, List.length_append, this]
        omega
      have hloguid1 : log1.map LogE.uid = List.range log1.length := by
        rw [hlen1, ← hlog1, List.map_append, I.loguid, hnew_uid, range_append_range']
        congr 1
        omega
      -- entry flags, data flags and assembly entries of `s1` against those of the start state
      have hfl1 : ∀ k, (lget s.rcv.st.slots k).dataFlag = false → (lget s1.slots k).dataFlag = false := by
        intro k hk
        cases hc : (lget s1.slots k).dataFlag with
        | false => rfl
        | true => rw [(hsh.flag k hc).1] at hk; cases hk
      rcases hcase with ⟨-, heq⟩ | ⟨nb, hnb, hnbW, hadvw⟩
      · -- no window advance
        have heq' : pr.1 = s1 := heq
        have hz : pidSub pr.1.baseId s.rcv.st.baseId = 0 := by rw [heq', hsh.base, pidSub_self]
        refine ⟨I.net, I.pos, I.cle, I.flt, I.fz, hloguid1, ?_, by rw [hlen1]; exact Nat.le_refl _,
          fun _ => hlen1, ?_, ?_, ?_⟩
        · show s.rcv.adv + pidSub pr.1.baseId s.rcv.st.baseId ≤ log1.length
          rw [hz, hlen1]; omega
        · intro x hx hxo hu
          have hxo' : pidSub x pr.1.baseId < W := hxo
          have hu' : s.rcv.adv + pidSub pr.1.baseId s.rcv.st.baseId + pidSub x pr.1.baseId < C := hu
          show (lget pr.1.slots (wi W x)).entryFlag = true
          rw [hz, heq', hsh.base] at hu'
          rw [heq', hsh.base] at hxo'
          rw [heq', hsh.entry]
          exact I.ent x hx hxo' (by omega)
        · intro x hx hxo hu
          have hxo' : pidSub x pr.1.baseId < W := hxo
          have hu' : C ≤ s.rcv.adv + pidSub pr.1.baseId s.rcv.st.baseId + pidSub x pr.1.baseId := hu
          show (lget pr.1.slots (wi W x)).entryFlag = false ∧ (lget pr.1.slots (wi W x)).dataFlag = false ∧
            ((C < s.rcv.adv + pidSub pr.1.baseId s.rcv.st.baseId + pidSub x pr.1.baseId ∨ f = 0) →
              (lget pr.1.slots (wi W x)).asm = .opened)
          rw [hz, heq', hsh.base] at hu' ⊢
          rw [heq', hsh.base] at hxo'
          obtain ⟨f1, f2, f3⟩ := I.fresh x hx hxo' (by omega)
          rw [hsh.entry, hsh.asm]
          exact ⟨f1, hfl1 _ f2, fun hc => f3 (by omega)⟩
        · intro hpos p0 hp0
          have hp0' : s.pend[C]? = some p0 := hp0
          show SlotInv p0 (wi W (pidAdd b0 C)) (firstFrags p0 f) pr.1
          rw [heq']
          exact slotInv_congr (I.part hpos p0 hp0') (hsh.asm _)
      · -- the window advances to `nb`
        have hinv1' := hinv1.setWindowReady false
        have hord1' : Ord W { s1 with windowReady := false } := hord1.congr rfl rfl rfl rfl
        have hδ : pidSub nb ({ s1 with windowReady := false } : PRecv.State).baseId ≤ W := by
          show pidSub nb s1.baseId ≤ W; rw [hsh.base]; exact hnbW
        have F := advanceWindow_facts hW hinv1' hord1' nb hnb hδ hadvw
        obtain ⟨hcore, hpassed⟩ := advanceWindow_core hW hinv1' hord1' nb hnb hδ hadvw
        have hbe : pr.1.baseId = nb := F.base
        have hcore' : ∀ k, (∀ id, id < 2^20 → pidSub id s.rcv.st.baseId < pidSub nb s.rcv.st.baseId → wi W id ≠ k) →
            core (lget pr.1.slots k) = core (lget s1.slots k) := by
          intro k hk
          exact hcore k (fun id hid hido => hk id hid (by rw [← hsh.base]; exact hido))
        have hpassed' : ∀ id, id < 2^20 → pidSub id s.rcv.st.baseId < pidSub nb s.rcv.st.baseId →
            (lget pr.1.slots (wi W id)).entryFlag = false ∧ (lget pr.1.slots (wi W id)).dataFlag = false ∧
            (lget pr.1.slots (wi W id)).asm = .opened := by
          intro id hid hido
          exact hpassed id hid (by show pidSub id s1.baseId < pidSub nb s1.baseId; rw [hsh.base]; exact hido)
        -- the new base is not beyond the completely received packets
        have hnbC : s.rcv.adv + pidSub nb s.rcv.st.baseId ≤ C := by
          rw [hbe] at hjust
          rcases Nat.eq_zero_or_pos (pidSub nb s.rcv.st.baseId) with h0 | hpos
          · omega
          · have hlt : pidSub nb s.rcv.st.baseId - 1 < 2^20 := by have := pidSub_lt nb s.rcv.st.baseId; omega
            obtain ⟨v, v1, v2, v3, v4, -⟩ := hjust (pidAdd s.rcv.st.baseId (pidSub nb s.rcv.st.baseId - 1))
              (PRecv.pidAdd_lt _ _) (by rw [pidSub_pidAdd_base _ _ hblt hlt]; omega)
            rw [pidSub_pidAdd_base _ _ hblt hlt] at v2
            rcases Nat.lt_or_ge (s.rcv.adv + pidSub v s.rcv.st.baseId) C with hlt2 | hge2
            · omega
            · have := (I.fresh v v1 (by omega) hge2).1
              rw [this] at v4; cases v4
        -- a slot of the new window that the advance did not pass
        have hkeep : ∀ x, x < 2^20 → pidSub x nb < W → pidSub x nb + pidSub nb s.rcv.st.baseId < W →
            pidSub x s.rcv.st.baseId = pidSub x nb + pidSub nb s.rcv.st.baseId ∧
            core (lget pr.1.slots (wi W x)) = core (lget s1.slots (wi W x)) := by
          intro x hx hxo hlt
          have hun := off_unshift x s.rcv.st.baseId nb hblt hnb (by omega)
          refine ⟨hun, hcore' _ ?_⟩
          intro id hid hido hwi
          have := off_eq_of_wi hW id x s.rcv.st.baseId hblt (by omega) (by omega) hwi
          omega
        refine ⟨I.net, I.pos, I.cle, I.flt, I.fz, hloguid1, ?_, by rw [hlen1]; exact Nat.le_refl _,
          fun _ => hlen1, ?_, ?_, ?_⟩
        · show s.rcv.adv + pidSub pr.1.baseId s.rcv.st.baseId ≤ log1.length
          rw [hbe, hlen1]; exact hnbC
        · intro x hx hxo hu
          have hxo' : pidSub x pr.1.baseId < W := hxo
          have hu' : s.rcv.adv + pidSub pr.1.baseId s.rcv.st.baseId + pidSub x pr.1.baseId < C := hu
          show (lget pr.1.slots (wi W x)).entryFlag = true
          rw [hbe] at hxo' hu'
          obtain ⟨k1, k2⟩ := hkeep x hx hxo' (by omega)
          obtain ⟨c1, -⟩ := core_fields k2
          rw [c1, hsh.entry]
          exact I.ent x hx (by omega) (by omega)
        · intro x hx hxo hu
          have hxo' : pidSub x pr.1.baseId < W := hxo
          have hu' : C ≤ s.rcv.adv + pidSub pr.1.baseId s.rcv.st.baseId + pidSub x pr.1.baseId := hu
          show (lget pr.1.slots (wi W x)).entryFlag = false ∧ (lget pr.1.slots (wi W x)).dataFlag = false ∧
            ((C < s.rcv.adv + pidSub pr.1.baseId s.rcv.st.baseId + pidSub x pr.1.baseId ∨ f = 0) →
              (lget pr.1.slots (wi W x)).asm = .opened)
          rw [hbe] at hxo' hu' ⊢
          rcases Nat.lt_or_ge (pidSub x nb + pidSub nb s.rcv.st.baseId) W with hlt | hge
          · obtain ⟨k1, k2⟩ := hkeep x hx hxo' hlt
            obtain ⟨c1, c2, -, -, c5, -⟩ := core_fields k2
            obtain ⟨f1, f2, f3⟩ := I.fresh x hx (by omega) (by omega)
            rw [c1, c2, c5, hsh.entry, hsh.asm]
            exact ⟨f1, hfl1 _ f2, fun hc => f3 (by omega)⟩
          · have hun := off_unshift x s.rcv.st.baseId nb hblt hnb (by omega)
            have hidlt : pidSub x W < 2^20 := pidSub_lt _ _
            have hido : pidSub (pidSub x W) s.rcv.st.baseId + W = pidSub x s.rcv.st.baseId := by
              have h1 := pidSub_cases x s.rcv.st.baseId hx hblt
              have h2 := pidSub_cases (pidSub x W) s.rcv.st.baseId hidlt hblt
              have h3 := pidSub_cases x W hx (by omega)
              omega
            have hwi := wi_eq_of_off_add hW x _ s.rcv.st.baseId hblt hido.symm
            obtain ⟨b1, b2, b3⟩ := hpassed' (pidSub x W) hidlt (by omega)
            rw [hwi]
            exact ⟨b1, b2, fun _ => b3⟩
        · intro hpos p0 hp0
          have hp0' : s.pend[C]? = some p0 := hp0
          show SlotInv p0 (wi W (pidAdd b0 C)) (firstFrags p0 f) pr.1
          have hClt : C < s.pend.length := (List.getElem?_eq_some_iff.mp hp0').1
          have hCW : C < s.rcv.adv + W := by
            have := h.lo; have := h.snd.plen
            omega
          have hxC := PRecv.pidAdd_lt b0 C
          have hoffC : pidSub (pidAdd b0 C) s.rcv.st.baseId = C - s.rcv.adv := by
            rw [hbase]; exact off_arith b0 s.rcv.adv C (by omega) (by omega)
          have hcoreC : core (lget pr.1.slots (wi W (pidAdd b0 C))) = core (lget s1.slots (wi W (pidAdd b0 C))) := by
            refine hcore' _ ?_
            intro id hid hido hwi
            have := off_eq_of_wi hW id (pidAdd b0 C) s.rcv.st.baseId hblt (by omega) (by omega) hwi
            omega
          obtain ⟨-, -, -, -, c5, -⟩ := core_fields hcoreC
          exact slotInv_congr (I.part hpos p0 hp0') (by rw [c5, hsh.asm])

end Uflow.Sys
