import Uflow.Lemmas.EndpointEventsExamples

/-!
C09, the peer endpoint's part (client model): a Disconnect frame handled in `active` drains the half
connection (`hc.receive`) *after* every traffic frame that arrived before it has been dispatched, reports
the drained packets and only then `disconnect`. Single transition and whole-`step` form.
-/

namespace Uflow.Endpoint

open Uflow.Gen Uflow.Codec Uflow.HalfConn

variable {H : Type}

/-- The data / sync / ack frames among the datagrams (as read into the receive buffer), in arrival order. -/
def trafficOf (arrivals : List (List Nat)) : List Frame :=
  arrivals.filterMap fun b => match decode (b.take MAX_FRAME_SIZE) with
    | some f => if isTraffic f then some f else none
    | none => none

/-- `hc.dispatch` applied to the frames one after the other. -/
def dispatchAll (hc : HC H) (h : H) (fs : List Frame) : R H := fs.foldlM hc.dispatch h

theorem trafficOf_append (a b : List (List Nat)) : trafficOf (a ++ b) = trafficOf a ++ trafficOf b := by
  unfold trafficOf; exact List.filterMap_append ..

theorem trafficOf_single_none (b : List Nat) (h : decode (b.take MAX_FRAME_SIZE) = none) : trafficOf [b] = [] := by
  simp [trafficOf, h]

theorem trafficOf_single_some (b : List Nat) (f : Frame) (h : decode (b.take MAX_FRAME_SIZE) = some f) :
    trafficOf [b] = if isTraffic f then [f] else [] := by
  unfold trafficOf
  simp only [List.filterMap_cons, h, List.filterMap_nil]
  cases isTraffic f <;> rfl

theorem dispatchAll_nil (hc : HC H) (h : H) : dispatchAll hc h [] = .ok h := rfl

theorem dispatchAll_snoc (hc : HC H) (h h1 : H) (fs : List Frame) (f : Frame) (h0 : dispatchAll hc h fs = .ok h1) :
    dispatchAll hc h (fs ++ [f]) = hc.dispatch h1 f := by
  unfold dispatchAll at h0 ⊢
  rw [List.foldlM_append, h0]
  simp only [bind, Except.bind, List.foldlM_cons, List.foldlM_nil, pure, Except.pure]
  cases hc.dispatch h1 f <;> rfl

theorem hasDisc_append (a b : List (List Nat)) : hasDisc (a ++ b) = (hasDisc a || hasDisc b) := by
  simp [hasDisc]

/-- Single transition: a Disconnect frame handled in `active`. -/
theorem Client.handleFrame_disconnect_active (hc : HC H) (c c' : Client H) (nowMs nowNs : Nat)
    (out : List (List Nat)) (ln : Nat) (h : H) (t : Nat) (sig : Option DisconnectMode)
    (hs : c.state = .active ln h t sig) (hf : c.handleFrame hc .disconnect nowMs nowNs = .ok (c', out)) :
    ∃ h' pkts, hc.receive h = .ok (h', pkts) ∧
      c' = { c with eventsOut := c.eventsOut ++ pkts.map CEvent.receive ++ [CEvent.disconnect],
                    state := .closed (nowMs + CLIENT_CLOSED_TIMEOUT_MS) } ∧ out = [discAck] := by
  rw [Client.handleFrame_active hc c .disconnect nowMs nowNs ln h t sig hs] at hf
  simp only at hf
  split at hf
  · cases hf
  · next h' pk hr => cases hf; exact ⟨h', pk, hr, rfl, rfl⟩

/-- The arrivals loop split at a point of the arrival list. -/
theorem Client.arrivalsPhase_split (hc : HC H) (c c' : Client H) (nowMs nowNs : Nat)
    (pre post sent : List (List Nat)) (h : c.arrivalsPhase hc nowMs nowNs (pre ++ post) = .ok (c', sent)) :
    ∃ c1 s1, c.arrivalsPhase hc nowMs nowNs pre = .ok (c1, s1) ∧
      post.foldlM (Client.frameStep hc nowMs nowNs) (c1, s1) = .ok (c', sent) := by
  unfold Client.arrivalsPhase at h ⊢
  rw [List.foldlM_append] at h
  simp only [bind, Except.bind] at h
  split at h
  · cases h
  · next acc hacc => exact ⟨acc.1, acc.2, hacc, h⟩

/-- Arrivals without a Disconnect frame, from `active`: no event, still `active` (same nonce, same signal), and
the half connection is the old one after dispatching exactly the traffic frames, in arrival order. -/
theorem Client.arrivalsPhase_active_dispatch (hc : HC H) (c c' : Client H) (nowMs nowNs : Nat)
    (arrivals sent : List (List Nat)) (ln : Nat) (hh : H) (t : Nat) (sig : Option DisconnectMode)
    (hs : c.state = .active ln hh t sig) (hnd : hasDisc arrivals = false)
    (h : c.arrivalsPhase hc nowMs nowNs arrivals = .ok (c', sent)) :
    c'.eventsOut = c.eventsOut ∧ ∃ h' t', c'.state = .active ln h' t' sig ∧
      dispatchAll hc hh (trafficOf arrivals) = .ok h' := by
  refine Client.arrivalsPhase_induct' hc nowMs nowNs
    (fun pre x _ => hasDisc pre = false → x.eventsOut = c.eventsOut ∧ ∃ h' t', x.state = .active ln h' t' sig ∧
      dispatchAll hc hh (trafficOf pre) = .ok h')
    ?_ ?_ arrivals c c' sent (fun _ => ⟨rfl, hh, t, hs, rfl⟩) h hnd
  · intro pre b x s hp hd hnd
    rw [hasDisc_snoc_none pre b hd] at hnd
    rw [trafficOf_append, trafficOf_single_none b hd, List.append_nil]
    exact hp hnd
  · intro pre b x s f x' out hp hd hf hnd
    rw [hasDisc_snoc_some pre b f hd, Bool.or_eq_false_iff] at hnd
    obtain ⟨hev, h', t', hsx, hda⟩ := hp hnd.1
    have hne : f ≠ .disconnect := by simpa using hnd.2
    rw [trafficOf_append, trafficOf_single_some b f hd]
    rw [Client.handleFrame_active hc x f nowMs nowNs ln h' t' sig hsx] at hf
    have traffic : ∀ f', isTraffic f' = true → ((match hc.dispatch h' f' with
        | .error e => .error e
        | .ok h'' => .ok ({ x with state := .active ln h'' (nowMs + x.ep.activeTimeoutMs) sig }, [])) : R (Client H × List (List Nat)))
          = .ok (x', out) →
        x'.eventsOut = c.eventsOut ∧ ∃ h2 t2, x'.state = .active ln h2 t2 sig ∧
          dispatchAll hc hh (trafficOf pre ++ if isTraffic f' = true then [f'] else []) = .ok h2 := by
      intro f' hf' h
      split at h
      · cases h
      · next h'' hdp =>
        cases h
        refine ⟨hev, h'', _, rfl, ?_⟩
        rw [if_pos hf', dispatchAll_snoc hc hh h' _ f' hda, hdp]
    cases f with
    | disconnect => exact absurd rfl hne
    | data sid nn dgs => exact traffic _ rfl hf
    | sync a b => exact traffic _ rfl hf
    | ack a b c => exact traffic _ rfl hf
    | _ =>
      cases hf
      exact ⟨hev, h', t', hsx, by simpa [isTraffic] using hda⟩

/-- After the terminal transition the rest of the arrival list changes nothing. -/
theorem Client.frames_terminal (hc : HC H) (c c' : Client H) (nowMs nowNs : Nat)
    (post s sent : List (List Nat)) (ht : c.state.terminal)
    (h : post.foldlM (Client.frameStep hc nowMs nowNs) (c, s) = .ok (c', sent)) : c' = c :=
  Client.arrivalsPhase_induct hc nowMs nowNs (fun x _ => x = c)
    (fun x _ f x' out hx hf => by
      subst hx
      exact (Client.handleFrame_terminal hc x x' f nowMs nowNs out ht hf).1)
    post c s c' sent rfl h

/-- Whole step: the client is `active`, the arrival list is `pre ++ b :: post` where `b` is the first
Disconnect frame. Then the events of the step are: what was buffered, then the packets returned by
`hc.receive` applied to the half connection after the step's initial `flush` and the dispatch of every
traffic frame of `pre` (in arrival order), then `disconnect`; nothing follows (neither `post` nor the
timer / step phases add an event), and the client is `closed`/`fin`. -/
theorem Client.step_disconnect_drains (hc : HC H) (c c' : Client H) (nowNs : Nat) (pre : List (List Nat))
    (b : List Nat) (post sent : List (List Nat)) (evs : List CEvent) (ln : Nat) (hh : H) (t : Nat)
    (sig : Option DisconnectMode) (hs : c.state = .active ln hh t sig)
    (hpre : hasDisc pre = false) (hb : decodesTo b .disconnect)
    (h : c.step hc nowNs (pre ++ b :: post) = .ok (c', sent, evs)) :
    ∃ h1 rng1 fr h2 h3 pkts, hc.flush hh c.rng = .ok (h1, rng1, fr) ∧
      dispatchAll hc h1 (trafficOf pre) = .ok h2 ∧ hc.receive h2 = .ok (h3, pkts) ∧
      evs = c.eventsOut ++ pkts.map CEvent.receive ++ [CEvent.disconnect] ∧
      c'.state.terminal ∧ c'.eventsOut = [] := by
  obtain ⟨c1, s1, c2, s2, c4, s4, h1, h2, h4, rfl, -, rfl⟩ := Client.step_phases hc c c' nowNs _ sent evs h
  rw [Client.flush_active hc c ln hh t sig hs] at h1
  split at h1
  · cases h1
  next h1' rng1 fr hfl =>
  cases h1
  obtain ⟨ca, sa, hpa, hrest⟩ := Client.arrivalsPhase_split hc _ c2 _ nowNs pre (b :: post) s2 h2
  obtain ⟨hev, h2', t2, hsa, hda⟩ := Client.arrivalsPhase_active_dispatch hc _ ca _ nowNs pre sa ln h1' t sig rfl hpre hpa
  simp only [List.foldlM_cons, bind, Except.bind] at hrest
  split at hrest
  · cases hrest
  next acc hacc =>
  unfold Client.frameStep at hacc
  unfold decodesTo at hb
  rw [hb] at hacc
  simp only at hacc
  split at hacc
  · cases hacc
  next cb ob hfb =>
  cases hacc
  obtain ⟨h3, pkts, hrecv, rfl, -⟩ := Client.handleFrame_disconnect_active hc ca cb _ nowNs ob ln h2' t2 sig hsa hfb
  have htb : CState.terminal (H := H) (.closed (c.nowMs nowNs + CLIENT_CLOSED_TIMEOUT_MS)) := Or.inr ⟨_, rfl⟩
  have hc2 := Client.frames_terminal hc _ c2 _ nowNs post _ s2 htb hrest
  subst hc2
  obtain ⟨ht3, he3, -, -⟩ := Client.handleEvents_terminal
    ({ ca with eventsOut := ca.eventsOut ++ pkts.map CEvent.receive ++ [CEvent.disconnect],
               state := .closed (c.nowMs nowNs + CLIENT_CLOSED_TIMEOUT_MS) } : Client H) (c.nowMs nowNs) htb
  rw [Client.stepPhase_not_active hc _ _ nowNs (CState.terminal_not_active ht3)] at h4
  cases h4
  refine ⟨h1', rng1, _, h2', h3, pkts, hfl, hda, hrecv, ?_, ht3, rfl⟩
  rw [he3]
  simp only at hev ⊢
  rw [hev]

end Uflow.Endpoint
