import Uflow.Lemmas.HcSysSim
import Uflow.Lemmas.HcSysFew
import Uflow.Lemmas.HcFrmPair
import Uflow.Lemmas.HcWinUids
import Uflow.Lemmas.SysGot

/-!
C01Hc (sync frames): the ghost guard `SyncOkP` is discharged from the half-connection state.

`Full h s` bundles the invariants of the pair (`PairInv`, frame level `FrmInv`, sender coverage `CV`,
`WinUids`), the refinement relation `Rel h s` to a REACHABLE state `s` of `Sys`, and the links between
the frame level and the `GotR` predicate of `Sys`: every fragment of a packet of `A`'s send window that
was carried by a data frame `B` accepted, the frame having been emitted after the packet (`gotF`), and
every fragment marked acknowledged in `A`'s send window (`gotA`), has been taken care of by the `Sys`
receiver. It is kept by every step whose side condition `OpOk` holds, in runs that do not reuse frame
ids — with no bound on the number of packets: the 20-bit packet ids may wrap any number of times; the
emission stamps of the frames (`wireT`) and the freshness of the delivered datagrams identify the
packet a datagram belongs to. From it: whenever `A.flush` emits a sync frame carrying a packet id,
`SyncOkP` holds (`full_syncOk`), so every such frame is recorded in `syncs` (`Full.sy`).
-/

namespace Uflow.HcSys

open Uflow Uflow.Gen Uflow.Codec Uflow.HalfConn Uflow.PSend Uflow.Sys Uflow.HcFrm Uflow.HcCov
open Uflow.PRecv (bindR bindR_ok G LogE stepT wi lget)
open Uflow.Rate (FloatOps)

variable {F : Type}

/-- Parameters of the refinement: send window `w ≤ 2^16`, receive window `2^k ≥ w`, `k ≤ 19`, common
initial packet id `b < 2^20`. -/
structure SHyp (w k b : Nat) : Prop where
  hw : w ≤ 2^16
  hk : k ≤ 19
  hb : b < 2^20
  hwk : w ≤ 2^k

/-- The invariants of a reachable `Sys` state. -/
theorem reach_invs {w k b a m : Nat} (H : SHyp w k b) {s : Sys}
    (hr : ∃ sops, runS (initS w (2^k) b a m) sops = .ok s) :
    SInv b w (2^k) (allocCeil m) s ∧ PInv (2^k) s ∧ LInv (2^k) s := by
  obtain ⟨sops, hr⟩ := hr
  have hW := PRecv.wOk_pow k H.hk
  have h0 := sinv_init w (2^k) b a m (Nat.two_pow_pos k) H.hb
  exact ⟨sinv_run hW (by have := H.hw; omega) sops h0 hr,
    pinv_run hW H.hw sops h0 (pinv_init w (2^k) b a m) hr,
    linv_run hW H.hw sops h0 (pinv_init w (2^k) b a m) (linv_init w (2^k) b a m) hr⟩

theorem reach_append {w k b a m : Nat} {s s' : Sys} (hr : ∃ sops, runS (initS w (2^k) b a m) sops = .ok s)
    (sops2 : List SOp) (h2 : runS s sops2 = .ok s') : ∃ sops, runS (initS w (2^k) b a m) sops = .ok s' := by
  obtain ⟨sops, hr⟩ := hr
  exact ⟨sops ++ sops2, by rw [runS_append, hr, bindR_ok]; exact h2⟩

/-- `GotR` is kept along every run of `Sys` from a reachable state. -/
theorem gotR_run {w k b a m : Nat} (H : SHyp w k b) (sops : List SOp) : ∀ {s s' : Sys},
    (∃ sops0, runS (initS w (2^k) b a m) sops0 = .ok s) → runS s sops = .ok s' →
    ∀ i f, GotR (2^k) b s.rcv i f → GotR (2^k) b s'.rcv i f := by
  induction sops with
  | nil => intro s s' _ hr i f hg; cases hr; exact hg
  | cons op rest ih =>
    intro s s' hreach hr i f hg
    rw [runS] at hr
    cases hs : stepS s op with
    | error t => rw [hs] at hr; cases hr
    | ok s1 =>
      rw [hs, bindR_ok] at hr
      obtain ⟨hi, _, hl⟩ := reach_invs H hreach
      have h1 := gotR_step (PRecv.wOk_pow k H.hk) (by have := H.hw; omega) hi hl op hs i f hg
      exact ih (reach_append hreach [op] (runS_single _ _ _ hs)) hr i f h1

/-- The fragment id of a fragment datagram. -/
theorem datagram_fid (p : Pending) (f : Nat) (d : Datagram) (h : p.datagram f = .ok d) : d.fragmentId = f := by
  unfold Pending.datagram at h
  simp only at h
  split at h
  · split at h
    · cases h
    · cases h; rfl
  · split at h
    · cases h
    · cases h; rfl

theorem datagram_seq (p : Pending) (f : Nat) (d : Datagram) (h : p.datagram f = .ok d) :
    d.sequenceId = p.sequenceId := by
  unfold Pending.datagram at h
  simp only at h
  split at h
  · split at h
    · cases h
    · cases h; rfl
  · split at h
    · cases h
    · cases h; rfl

/-- Without a wrap of the packet ids a datagram is a fragment of at most one emitted packet. -/
theorem isFrag_unique {b0 w W M : Nat} {s : Sys} (h : SInv b0 w W M s) (hlen : s.pend.length ≤ 2^20)
    (i i' : Nat) (d : Datagram) (h1 : IsFrag s.pend i d) (h2 : IsFrag s.pend i' d) : i = i' := by
  have key : ∀ j, IsFrag s.pend j d → j < 2^20 ∧ d.sequenceId = pidAdd b0 j := by
    intro j ⟨p, fid, hp, hf, hd⟩
    obtain ⟨hwf, e, he, -, -, hseq, -⟩ := h.snd.plink j p hp
    refine ⟨by have := (List.getElem?_eq_some_iff.mp hp).1; omega, ?_⟩
    rw [Frag.genuine_eq p hwf d fid hf hd]
    show p.sequenceId = _
    rw [← hseq]; exact (h.snd.hinv.ids j e he).2.1
  obtain ⟨a1, a2⟩ := key i h1
  obtain ⟨b1, b2⟩ := key i' h2
  rw [a2] at b2
  have hb0 := h.rcv.inv.blt
  simp only [pidAdd, PACKET_ID_SPAN] at b2
  omega

/-- Handing the datagrams of a data frame to `B`'s packet receiver, with the `GotR` facts: as
`sim_deliver`, and every datagram has been taken care of for the network index it was delivered
under. -/
theorem sim_deliverG {w k b a m : Nat} (H : SHyp w k b) (dgs : List Datagram) : ∀ (s : Sys) (pr' : PRecv.State),
    (∃ sops0, runS (initS w (2^k) b a m) sops0 = .ok s) →
    (∀ d ∈ dgs, ∃ i, (i, d) ∈ s.net ∧ s.rcv.adv + 2^k ≤ i + 2^20) →
    dgs.foldlM PRecv.handleDatagram s.rcv.st = .ok pr' →
    ∃ sops s', runS s sops = .ok s' ∧ s'.rcv = { s.rcv with st := pr' } ∧ s'.snd = s.snd ∧
      s'.hist = s.hist ∧ s'.pend = s.pend ∧ s'.net = s.net ∧ s'.seen = s.seen ∧ s'.syncs = s.syncs ∧
      ∀ d ∈ dgs, ∃ i, (i, d) ∈ s.net ∧ s.rcv.adv + 2^k ≤ i + 2^20 ∧
        ∀ x, s.hist.emitted[i]? = some x → x.mode = .reliable → GotR (2^k) b s'.rcv i d.fragmentId := by
  induction dgs with
  | nil =>
    intro s pr' _ _ hf
    simp only [List.foldlM_nil, pure, Except.pure, Except.ok.injEq] at hf
    subst hf
    exact ⟨[], s, rfl, rfl, rfl, rfl, rfl, rfl, rfl, rfl, fun d hd => by cases hd⟩
  | cons d dgs ih =>
    intro s pr' hreach hfresh hf
    obtain ⟨hi, _, hl⟩ := reach_invs H hreach
    have hW := PRecv.wOk_pow k H.hk
    rw [List.foldlM_cons] at hf
    obtain ⟨s1, h1, hi1⟩ := PRecv.handleDatagram_inv hi.rcv.inv d
    rw [h1] at hf
    simp only [bind, Except.bind] at hf
    obtain ⟨i, hmem, hfr⟩ := hfresh d (List.mem_cons_self ..)
    obtain ⟨kk, hk⟩ := List.getElem?_of_mem hmem
    have hF : Fresh s i := by
      unfold Fresh
      rw [hi.rcv.inv.wsz]; exact hfr
    have hstep : stepS s (.deliver kk) = .ok { s with rcv := { s.rcv with st := s1 } } := by
      simp only [stepS, hk, if_pos hF, PRecv.stepT, h1, bindR_ok]
    have hreach1 := reach_append hreach [.deliver kk] (runS_single _ _ _ hstep)
    obtain ⟨sops, s2, h2, b1, b2, b3, b4, b5, b6, b7, b8⟩ := ih { s with rcv := { s.rcv with st := s1 } } pr'
      hreach1 (fun d' hd' => hfresh d' (List.mem_cons_of_mem _ hd')) hf
    refine ⟨.deliver kk :: sops, s2, ?_, b1, b2, b3, b4, b5, b6, b7, ?_⟩
    · simp only [runS, hstep, bindR_ok]; exact h2
    · intro d' hd'
      rcases List.mem_cons.mp hd' with rfl | hd'
      · refine ⟨i, hmem, hfr, fun x hx hrel => ?_⟩
        have hg := gotR_deliver hW H.hw H.hwk hi hl kk i d' hk x hx hrel hstep
        exact gotR_run H sops hreach1 h2 i _ hg
      · exact b8 d' hd'

/-! ### the bundle -/

/-- The fragment `r = (identity of the packet in the emission history, fragment id)` has been taken
care of by the `Sys` receiver, if the packet is Reliable. -/
def QS (k b : Nat) (s : Sys) (r : Nat × Nat) : Prop :=
  ∀ x, s.hist.emitted[r.1]? = some x → x.mode = .reliable → GotR (2^k) b s.rcv r.1 r.2

/-- The identity of the first packet of `A`'s send window. -/
def winLo (h : HcPair F) : Nat := h.A.ps.nextUid - h.A.ps.win.length

structure Full (w k b a m : Nat) (h : HcPair F) (s : Sys) : Prop where
  pi : PairInv h
  fi : FrmInv h
  cv : CV h.em h.A
  wu : WinUids h.A.ps
  rel : Rel h s
  reach : ∃ sops, runS (initS w (2^k) b a m) sops = .ok s
  /-- every fragment of a packet of the send window carried by an accepted data frame that was emitted
  after the packet has been taken care of (`Sys.GotR`) -/
  gotF : ∀ X ∈ h.accIds, ∀ r, RefOn h.wireAB h.wireT h.pend X r → winLo h ≤ r.1 → QS k b s r
  /-- every fragment marked acknowledged in the send window has been taken care of -/
  gotA : AckedQ (QS k b s) h.A.ps
  /-- every sync frame on the wire that carries a packet id is recorded in `syncs` -/
  sy : ∀ bytes ∈ h.wireAB, ∀ nf id, decode bytes = some (.sync nf (some id)) → ∃ n, (n, id) ∈ h.syncs

/-- **The guard `SyncOkP` holds whenever both transmit queues of `A` are empty.** If the resend queue
and the pending queue of `A` are empty — the situation in which `emit_sync_frame` puts
`next_packet_id` into the sync frame — every Reliable packet `A` has emitted is completely received
by `B`: a packet that left the send window was acknowledged by a base id `B` had (`SInv.lo`); every
fragment of a packet still in the window is acknowledged (`CV`), so it was carried by a data frame `B`
accepted and handed to `B`'s packet receiver (`gotA`), which has not forgotten it (`Sys.gotR_all`). -/
theorem full_syncOk {w k b a m : Nat} (H : SHyp w k b) {h : HcPair F} {s : Sys}
    (hpi : PairInv h) (hcv : CV h.em h.A) (hwu : WinUids h.A.ps) (hrel : Rel h s)
    (hreach : ∃ sops, runS (initS w (2^k) b a m) sops = .ok s)
    (hgot : AckedQ (QS k b s) h.A.ps)
    (hres : h.A.resend.size = 0) (hpen : h.A.pending.length = 0) : SyncOkP h := by
  obtain ⟨hi, hp, hl⟩ := reach_invs H hreach
  have hW := PRecv.wOk_pow k H.hk
  intro x hx hrelb
  obtain ⟨i, hix⟩ := List.getElem?_of_mem hx
  rw [← hrel.em] at hix
  obtain ⟨huid, hseq, _⟩ := hi.snd.hinv.ids i x hix
  have hilt : i < s.hist.emitted.length := (List.getElem?_eq_some_iff.mp hix).1
  have hnu : h.A.ps.nextUid = s.hist.emitted.length := by rw [hpi.a.nuid, ← hrel.pend, hrel.elen]
  have hwl : s.snd.win.length = h.A.ps.win.length := by rw [hrel.snd]; simp [erase]
  -- what `RecvdW` gives on the pair
  have conv : RecvdW (2^k) s.rcv i (pidAdd b i) → RecvdP h x := by
    intro hr
    unfold RecvdP
    rw [huid, hseq, ← hrel.adv, ← hrel.rcv, PRecv.widx_eq hi.rcv.inv, PRecv.getSlot_eq, hi.rcv.inv.wsz]
    rcases hr with ⟨e, he, hu⟩ | hr | hr
    · rcases Nat.lt_or_ge i s.rcv.adv with hlt | hge
      · exact Or.inl hlt
      · right
        obtain ⟨w1, w2, w3⟩ := hi.rcv.gi.gwin e he
        refine ⟨by omega, ?_⟩
        have hen := hl.lg e he (by omega)
        have hes : e.seq = pidAdd b i := by
          rw [hi.rcv.gi.gseq e he, hu]
          simp only [pidAdd, PACKET_ID_SPAN]
          omega
        rw [hes] at hen
        exact hen
    · exact Or.inl hr
    · exact Or.inr hr
  rcases Nat.lt_or_ge i (h.A.ps.nextUid - h.A.ps.win.length) with hold | hwin
  · -- the packet has left the send window
    unfold RecvdP
    left
    have hlo := hi.lo
    rw [huid, ← hrel.adv]
    omega
  · obtain ⟨we, hwe, hweu⟩ := hwu.mem i hwin (by omega)
    have hall := cv_idle hcv hres hpen we hwe x (by rw [hweu, ← hrel.em]; exact hix) hrelb
    have hpe : h.pend[i]? = some { we.packet with acked := [] } := by
      rw [← hweu]; exact hpi.a.win we hwe
    apply conv
    refine gotR_all hW hi i _ (by rw [hrel.pend]; exact hpe) ?_
    intro f hf
    have hf' : f ≤ we.packet.lastFragmentId := hf
    have := hgot we hwe f (hall f hf') x (by rw [hweu]; exact hix) hrelb
    rw [hweu] at this
    exact this

/-! ### the step -/

/-- The ghosts a step other than `flushA` / `deliverAB` leaves alone. -/
theorem stepP_keep (ops : FloatOps F) {h h' : HcPair F} (op : POp) (hs : stepP ops h op = .ok h')
    (h1 : ∀ k, op ≠ .deliverAB k) (h2 : op ≠ .flushA) :
    h'.fed = h.fed ∧ h'.wireAB = h.wireAB ∧ h'.syncs = h.syncs ∧ h'.pend = h.pend ∧ h'.em = h.em ∧
      h'.wireT = h.wireT ∧ h'.accIds = h.accIds := by
  cases op with
  | deliverAB k => exact absurd rfl (h1 k)
  | flushA => exact absurd rfl h2
  | sendA d c m =>
    simp only [stepP] at hs
    split at hs <;> (cases hs; exact ⟨rfl, rfl, rfl, rfl, rfl, rfl, rfl⟩)
  | stepA now =>
    simp only [stepP] at hs
    cases hf : step ops h.A now with
    | error t => rw [hf] at hs; cases hs
    | ok r => rw [hf, bindR_ok] at hs; cases hs; exact ⟨rfl, rfl, rfl, rfl, rfl, rfl, rfl⟩
  | stepB now =>
    simp only [stepP] at hs
    cases hf : step ops h.B now with
    | error t => rw [hf] at hs; cases hs
    | ok r => rw [hf, bindR_ok] at hs; cases hs; exact ⟨rfl, rfl, rfl, rfl, rfl, rfl, rfl⟩
  | flushB =>
    simp only [stepP] at hs
    cases hf : flush h.B with
    | error t => rw [hf] at hs; cases hs
    | ok r => rw [hf, bindR_ok] at hs; cases hs; exact ⟨rfl, rfl, rfl, rfl, rfl, rfl, rfl⟩
  | recvB =>
    simp only [stepP] at hs
    cases hf : receive h.B with
    | error t => rw [hf] at hs; cases hs
    | ok r => rw [hf, bindR_ok] at hs; cases hs; exact ⟨rfl, rfl, rfl, rfl, rfl, rfl, rfl⟩
  | deliverBA k =>
    simp only [stepP] at hs
    cases hk : h.wireBA[k]? with
    | none => rw [hk] at hs; cases hs; exact ⟨rfl, rfl, rfl, rfl, rfl, rfl, rfl⟩
    | some bytes =>
      rw [hk] at hs
      simp only [] at hs
      cases hf : dispatch h.A (bytes.take MAX_FRAME_SIZE) with
      | error t => rw [hf] at hs; cases hs
      | ok r => rw [hf, bindR_ok] at hs; cases hs; exact ⟨rfl, rfl, rfl, rfl, rfl, rfl, rfl⟩

/-! #### the base of the send window never moves back -/

theorem emits_lo {f : Nat} {ps ps' : PSend.State} {l : List Pending} (hem : Emits f ps ps' l)
    (h : ps.win.length ≤ ps.nextUid) :
    ps'.win.length ≤ ps'.nextUid ∧ ps'.nextUid - ps'.win.length = ps.nextUid - ps.win.length := by
  induction hem with
  | nil => exact ⟨h, rfl⟩
  | cons he _ ih =>
    obtain ⟨_, _, _, _, _, _, hc⟩ := emit_cases _ _ _ _ he
    rcases hc with ⟨_, rfl⟩ | ⟨_, _, p, _, w0, _, _, _, hpu, _, _, _, _, _, _, hwp, _, hwin, hn, _⟩
    · exact ih h
    · have hl : (_ : PSend.State).win.length = _ := congrArg List.length hwin
      rw [List.length_append, List.length_singleton] at hl
      obtain ⟨i1, i2⟩ := ih (by omega)
      exact ⟨i1, by omega⟩

theorem ackSteps_lo {ps ps' : PSend.State} (ha : HcFrame.AckSteps ps ps') :
    ps'.nextUid = ps.nextUid ∧ ps'.win.length ≤ ps.win.length := by
  induction ha with
  | refl => exact ⟨rfl, Nat.le_refl _⟩
  | @frag ps1 uid fid _ ih =>
    refine ⟨ih.1, ?_⟩
    have : (ackFragment ps1 uid fid).win.length = ps1.win.length := by
      simp only [ackFragment, List.length_map]
    rw [this]; exact ih.2
  | ack rb _ hack ih =>
    obtain ⟨⟨dr, hwd⟩, hn, _⟩ := acknowledge_suffix _ _ rb hack
    refine ⟨by rw [hn]; exact ih.1, ?_⟩
    have := ih.2
    rw [hwd, List.length_append] at this
    omega

/-- **The identity of the first packet of `A`'s send window never decreases.** -/
theorem winLo_step (ops : FloatOps F) {h h' : HcPair F} (hi : PairInv h) (hw : WinUids h.A.ps) (op : POp)
    (hs : stepP ops h op = .ok h') : winLo h ≤ winLo h' := by
  unfold winLo
  cases op with
  | sendA d c m =>
    simp only [stepP] at hs
    split at hs
    · cases hs; exact Nat.le_refl _
    · cases hs; exact Nat.le_refl _
  | flushA =>
    simp only [stepP] at hs
    cases hfl : flush h.A with
    | error t => rw [hfl] at hs; cases hs
    | ok r =>
      obtain ⟨a', out⟩ := r
      rw [hfl, bindR_ok] at hs
      cases hs
      obtain ⟨l, hem, _⟩ := flush_spec h.A a' out hi.a hfl
      exact Nat.le_of_eq (emits_lo hem hw.1).2.symm
  | stepA now =>
    simp only [stepP] at hs
    cases hst : step ops h.A now with
    | error t => rw [hst] at hs; cases hs
    | ok a' =>
      rw [hst, bindR_ok] at hs
      cases hs
      show _ ≤ a'.ps.nextUid - a'.ps.win.length
      rw [(step_spec ops h.A a' now hst).1]; exact Nat.le_refl _
  | stepB now =>
    simp only [stepP] at hs
    cases hst : step ops h.B now with
    | error t => rw [hst] at hs; cases hs
    | ok b' => rw [hst, bindR_ok] at hs; cases hs; exact Nat.le_refl _
  | recvB =>
    simp only [stepP] at hs
    cases hr : receive h.B with
    | error t => rw [hr] at hs; cases hs
    | ok r => rw [hr, bindR_ok] at hs; cases hs; exact Nat.le_refl _
  | flushB =>
    simp only [stepP] at hs
    cases hfl : flush h.B with
    | error t => rw [hfl] at hs; cases hs
    | ok r => rw [hfl, bindR_ok] at hs; cases hs; exact Nat.le_refl _
  | deliverAB k =>
    simp only [stepP] at hs
    cases hk : h.wireAB[k]? with
    | none => rw [hk] at hs; cases hs; exact Nat.le_refl _
    | some bytes =>
      rw [hk] at hs
      simp only [] at hs
      cases hd : dispatch h.B (bytes.take MAX_FRAME_SIZE) with
      | error t => rw [hd] at hs; cases hs
      | ok b' => rw [hd, bindR_ok] at hs; cases hs; exact Nat.le_refl _
  | deliverBA k =>
    simp only [stepP] at hs
    cases hk : h.wireBA[k]? with
    | none => rw [hk] at hs; cases hs; exact Nat.le_refl _
    | some bytes =>
      rw [hk] at hs
      simp only [] at hs
      cases hd : dispatch h.A (bytes.take MAX_FRAME_SIZE) with
      | error t => rw [hd] at hs; cases hs
      | ok a' =>
        rw [hd, bindR_ok] at hs
        cases hs
        show _ ≤ a'.ps.nextUid - a'.ps.win.length
        have hv := dispatch_view h.A a' _ hd
        cases hv with
        | skip h1 _ _ _ _ _ => rw [h1]; exact Nat.le_refl _
        | data id nonce dgs _ h2 _ _ _ => rw [h2]; exact Nat.le_refl _
        | sync nf np _ h2 _ _ _ => rw [h2]; exact Nat.le_refl _
        | ack fb pb acks ps1 h1 _ _ _ h5 h6 =>
          have hf := HcFrame.handleAckFrame_frame h.A a' fb pb acks (by
            unfold dispatch at hd; rw [h1] at hd; exact hd)
          obtain ⟨e1, e2⟩ := ackSteps_lo hf.2
          rw [e1]; omega

/-! #### monotonicity of the links -/

/-- A fragment of an already emitted packet stays taken care of along a `Sys` run. -/
theorem qs_mono {w k b a m : Nat} (H : SHyp w k b) {h h' : HcPair F} {s s' : Sys}
    (hreach : ∃ sops, runS (initS w (2^k) b a m) sops = .ok s) (hrel : Rel h s) (hrel' : Rel h' s')
    (sops : List SOp) (hrun : runS s sops = .ok s') (hem : ∃ l, h'.em = h.em ++ l)
    (r : Nat × Nat) (hlt : r.1 < h.pend.length) (hq : QS k b s r) : QS k b s' r := by
  intro x hx hrelb
  obtain ⟨le, hel⟩ := hem
  have hlt' : r.1 < h.em.length := by rw [← hrel.em, hrel.elen, hrel.pend]; exact hlt
  rw [hrel'.em, hel, List.getElem?_append_left hlt', ← hrel.em] at hx
  exact gotR_run H sops hreach hrun r.1 r.2 (hq x hx hrelb)

/-- The frames accepted so far keep their link. -/
theorem gotF_mono {w k b a m : Nat} (H : SHyp w k b) {h h' : HcPair F} {s s' : Sys}
    (hF : Full w k b a m h s) (hrel' : Rel h' s') (sops : List SOp) (hrun : runS s sops = .ok s')
    (hem : ∃ l, h'.em = h.em ++ l) (hpend : ∃ l, h'.pend = h.pend ++ l)
    (hwire : ∃ w2, h'.wireAB = h.wireAB ++ w2) (hwt : ∃ t2, h'.wireT = h.wireT ++ t2)
    (hlo : winLo h ≤ winLo h') (hn : IdsNodup h'.wireAB) :
    ∀ X ∈ h.accIds, ∀ r, RefOn h'.wireAB h'.wireT h'.pend X r → winLo h' ≤ r.1 → QS k b s' r := by
  intro X hX r hon hlo'
  obtain ⟨j, bytes, T, hj, ht, hlt, n, dgs, hd, d, hdm, p, hp, hpd⟩ := hon
  obtain ⟨j0, bytes0, hj0, hid0⟩ := hF.fi.accw X hX
  obtain ⟨w2, hw2⟩ := hwire
  obtain ⟨t2, ht2⟩ := hwt
  obtain ⟨l, hl⟩ := hpend
  have hjl0 : j0 < h.wireAB.length := (List.getElem?_eq_some_iff.mp hj0).1
  have hj0' : h'.wireAB[j0]? = some bytes0 := by rw [hw2, List.getElem?_append_left hjl0]; exact hj0
  have hid : dataId bytes = some X := by simp only [dataId, hd]
  have hjj : j = j0 := nodup_filterMap_idx dataId _ hn j j0 bytes bytes0 X hj hj0' hid hid0
  subst hjj
  have hj1 : h.wireAB[j]? = some bytes := by rw [hw2, List.getElem?_append_left hjl0] at hj; exact hj
  have ht1 : h.wireT[j]? = some T := by
    rw [ht2, List.getElem?_append_left (by rw [hF.fi.twl]; exact hjl0)] at ht; exact ht
  have hT : T ≤ h.pend.length := hF.fi.tle T (List.mem_of_getElem? ht1)
  have hr1 : r.1 < h.pend.length := by omega
  have hp1 : h.pend[r.1]? = some p := by rw [hl, List.getElem?_append_left hr1] at hp; exact hp
  have := hF.gotF X hX r ⟨j, bytes, T, hj1, ht1, hlt, n, dgs, hd, d, hdm, p, hp1, hpd⟩ (by omega)
  exact qs_mono H hF.reach hF.rel hrel' sops hrun hem r hr1 this

/-- The acknowledged fragments of the send window keep their link. -/
theorem gotA_mono {w k b a m : Nat} (H : SHyp w k b) {h h' : HcPair F} {s s' : Sys}
    (hF : Full w k b a m h s) (hrel' : Rel h' s') (sops : List SOp) (hrun : runS s sops = .ok s')
    (hem : ∃ l, h'.em = h.em ++ l) : AckedQ (QS k b s') h.A.ps :=
  hF.gotA.mono (fun w hw _ hq => qs_mono H hF.reach hF.rel hrel' sops hrun hem _
    (List.getElem?_eq_some_iff.mp (hF.pi.a.win w hw)).1 hq)

/-- With distinct frame ids, a fragment carried by "the" data frame whose id `dispatch` marks seen is
one of the datagrams `dispatch` hands to the packet receiver. -/
theorem new_frame_ref {wire : List (List Nat)} {wt : List Nat} {pend : List Pending} (hn : IdsNodup wire)
    (B : State F) (bytes : List Nat) (hmem : bytes ∈ wire) (X : Nat) (hX : X ∈ accBy B bytes)
    (r : Nat × Nat) (hon : RefOn wire wt pend X r) : ∃ d ∈ fedBy B bytes, RefDg pend r d := by
  unfold accBy at hX
  split at hX
  · rename_i id n dgs hdec
    split at hX
    · rename_i hc
      have hXi : X = id := List.mem_singleton.mp hX
      subst hXi
      obtain ⟨j, bytes', T, hj, _, _, n', dgs', hd', d, hdm, hrd⟩ := hon
      have e1 : dataId bytes' = some X := by simp only [dataId, hd']
      have e2 : dataId bytes = some X := by simp only [dataId, hdec]
      have := nodup_filterMap_inj dataId wire hn bytes' bytes (List.mem_of_getElem? hj) hmem X e1 e2
      subst this
      rw [hdec] at hd'
      simp only [Option.some.injEq, Frame.data.injEq] at hd'
      obtain ⟨-, -, rfl⟩ := hd'
      refine ⟨d, ?_, hrd⟩
      simp only [fedBy, hdec, hc, if_true]
      exact hdm
    · cases hX
  · cases hX

/-- **`Full` is kept by every step** whose side condition holds, in a run without reuse of frame
ids. -/
theorem full_step {w k b a m : Nat} (ops : FloatOps F) (H : SHyp w k b) {h h' : HcPair F} {s : Sys}
    (hF : Full w k b a m h s) (op : POp) (hok : OpOk h op) (hs : stepP ops h op = .ok h')
    (hn : IdsNodup h'.wireAB) :
    ∃ sops s', runS s sops = .ok s' ∧ Full w k b a m h' s' := by
  have pi' := pairInv_step ops hF.pi op hs
  have hn0 : IdsNodup h.wireAB := by
    obtain ⟨w2, e2⟩ := stepP_wire_prefix ops h h' op hs
    rw [e2] at hn; exact hn.of_prefix
  have fi' := frmInv_step ops hF.pi hF.fi op hs hn0
  have cv' := cv_step ops hF.pi hF.cv op hs
  have wu' := winUids_step ops hF.pi hF.wu op hs
  have hlo := winLo_step ops hF.pi hF.wu op hs
  by_cases hfl : op = .flushA
  · -- `flushA`: new packets, new frames; a sync frame with a packet id is recorded
    subst hfl
    obtain ⟨sops, s', hrun, hrel'⟩ := sim_step ops hF.pi hF.rel _ hok hs
    have hreach' := reach_append hF.reach sops hrun
    simp only [stepP] at hs
    cases hf : flush h.A with
    | error t => rw [hf] at hs; cases hs
    | ok r =>
      obtain ⟨a', out⟩ := r
      rw [hf, bindR_ok] at hs
      cases hs
      obtain ⟨l, hem, _⟩ := flush_spec h.A a' out hF.pi.a hf
      have hgF := gotF_mono H hF hrel' sops hrun ⟨_, rfl⟩ ⟨_, rfl⟩ ⟨_, rfl⟩ ⟨_, rfl⟩ hlo hn
      have hgA : AckedQ (QS k b s') a'.ps :=
        (gotA_mono H hF hrel' sops hrun ⟨_, rfl⟩).of_sub (Emits.win_new hem)
      refine ⟨sops, s', hrun, ⟨pi', fi', cv', wu', hrel', hreach', hgF, hgA, ?_⟩⟩
      intro bytes hb nf id hdec
      have hb' : bytes ∈ h.wireAB ++ out := hb
      rcases List.mem_append.mp hb' with hb' | hb'
      · obtain ⟨n, hn'⟩ := hF.sy bytes hb' nf id hdec
        exact ⟨n, List.mem_append_left _ hn'⟩
      · obtain ⟨_, e2, e3⟩ := flush_sync_spec h.A a' out hF.pi.a hf bytes hb' nf id hdec
        have hsok := full_syncOk H pi' cv' wu' hrel' hreach' hgA e2 e3
        refine ⟨(h.pend ++ newPackets h.A.ps a'.ps).length, List.mem_append_right _ ?_⟩
        split
        · simp only [syncIds, List.mem_filterMap]
          exact ⟨bytes, hb', by rw [hdec]⟩
        · rename_i hneg
          exact absurd hsok hneg
  · by_cases hdl : ∃ kk, op = .deliverAB kk
    · obtain ⟨kk, rfl⟩ := hdl
      have hs0 := hs
      simp only [stepP] at hs
      cases hk : h.wireAB[kk]? with
      | none => rw [hk] at hs; cases hs; exact ⟨[], s, rfl, hF⟩
      | some bytes =>
        rw [hk] at hs
        simp only [] at hs
        have hmem : bytes ∈ h.wireAB := List.mem_of_getElem? hk
        rw [List.take_of_length_le (hF.pi.lab bytes hmem)] at hs
        cases hd : dispatch h.B bytes with
        | error t => rw [hd] at hs; cases hs
        | ok b' =>
          rw [hd, bindR_ok] at hs
          cases hs
          have hnw : IdsNodup h.wireAB := hn
          have hsy' : ∀ bytes' ∈ h.wireAB, ∀ nf id, decode bytes' = some (.sync nf (some id)) →
              ∃ n, (n, id) ∈ h.syncs := hF.sy
          by_cases hnil : fedBy h.B bytes = []
          · -- nothing handed to the packet receiver
            obtain ⟨sops, s', hrun, hrel'⟩ := sim_step ops hF.pi hF.rel _ hok hs0
            have hgF := gotF_mono H hF hrel' sops hrun ⟨[], (List.append_nil _).symm⟩
              ⟨[], (List.append_nil _).symm⟩ ⟨[], (List.append_nil _).symm⟩ ⟨[], (List.append_nil _).symm⟩ hlo hn
            have hgA := gotA_mono H hF hrel' sops hrun ⟨[], (List.append_nil _).symm⟩
            refine ⟨sops, s', hrun, ⟨pi', fi', cv', wu', hrel', reach_append hF.reach sops hrun, ?_, hgA, hsy'⟩⟩
            intro X hX r hon hlo'
            have hX' : X ∈ h.accIds ++ accBy h.B bytes := hX
            rcases List.mem_append.mp hX' with hX' | hX'
            · exact hgF X hX' r hon hlo'
            · obtain ⟨d, hdm, _⟩ := new_frame_ref hnw h.B bytes hmem X hX' r hon
              rw [hnil] at hdm
              cases hdm
          · -- an accepted data frame
            obtain ⟨hi, _, _⟩ := reach_invs H hF.reach
            have hv := dispatch_view h.B b' bytes hd
            cases hv with
            | skip _ h2 _ _ _ _ => exact absurd h2 hnil
            | ack fb pb acks ps1 _ _ h3 _ _ _ => exact absurd h3 hnil
            | sync nf np _ _ h3 _ _ => exact absurd h3 hnil
            | data id nonce dgs h1 _ h3 _ h5 =>
              obtain ⟨hokd, _⟩ := hok bytes hk
              have hpr : PRecv.Inv (2^k) (allocCeil m) h.B.pr := by rw [← hF.rel.rcv]; exact hi.rcv.inv
              have hbase : b'.pr.baseId = h.B.pr.baseId := foldDg_base _ _ _ hpr h5
              have h0 : h.advB + pidSub b'.pr.baseId h.B.pr.baseId = h.advB := by
                rw [hbase, PRecv.pidSub_self]; rfl
              have hcont : h.B.aq.contains id = true := by
                cases hc : h.B.aq.contains id with
                | true => rfl
                | false => rw [h3, hc] at hnil; exact absurd rfl hnil
              have hfresh : ∀ d ∈ fedBy h.B bytes, ∃ i, (i, d) ∈ s.net ∧ s.rcv.adv + 2^k ≤ i + 2^20 := by
                intro d hdm
                rw [h3, hcont] at hdm
                obtain ⟨i, hfr, hle⟩ := hokd id nonce dgs h1 hcont d hdm
                refine ⟨i, hF.rel.net i d (by rw [hF.rel.pend]; exact hfr), ?_⟩
                rw [hF.rel.adv, ← hpr.wsz]; exact hle
              rw [← hF.rel.rcv] at h5
              obtain ⟨sops, s', r1, b1, b2, b3, b4, b5, b6, b7, b8⟩ :=
                sim_deliverG H (fedBy h.B bytes) s b'.pr hF.reach hfresh h5
              have hrel' : Rel { h with B := b', fed := h.fed ++ fedBy h.B bytes,
                                        accIds := h.accIds ++ accBy h.B bytes,
                                        advB := h.advB + pidSub b'.pr.baseId h.B.pr.baseId,
                                        bases := h.bases ++ [(h.advB + pidSub b'.pr.baseId h.B.pr.baseId, b'.pr.baseId)] } s' :=
                { snd := by rw [b2]; exact hF.rel.snd
                  pend := by rw [b4]; exact hF.rel.pend
                  enq := by rw [b3]; exact hF.rel.enq
                  elen := by rw [b3, b4]; exact hF.rel.elen
                  rcv := by rw [b1]
                  adv := by rw [b1]; show s.rcv.adv = _; rw [h0]; exact hF.rel.adv
                  log := by rw [b1]; exact hF.rel.log
                  seen := by
                    intro x hx
                    rw [b6]
                    rcases List.mem_append.mp hx with hx | hx
                    · exact hF.rel.seen x hx
                    · rw [List.mem_singleton.mp hx, h0, hbase]; exact hF.rel.seen _ hF.pi.cur
                  net := by rw [b4, b5]; exact hF.rel.net
                  em := by rw [b3]; exact hF.rel.em
                  syncs := by rw [b7]; exact hF.rel.syncs }
              have hgF := gotF_mono H hF hrel' sops r1 ⟨[], (List.append_nil _).symm⟩
                ⟨[], (List.append_nil _).symm⟩ ⟨[], (List.append_nil _).symm⟩ ⟨[], (List.append_nil _).symm⟩ hlo hn
              have hgA := gotA_mono H hF hrel' sops r1 ⟨[], (List.append_nil _).symm⟩
              have hreach' := reach_append hF.reach sops r1
              refine ⟨sops, s', r1, ⟨pi', fi', cv', wu', hrel', hreach', ?_, hgA, hsy'⟩⟩
              intro X hX r hon hlo'
              have hX' : X ∈ h.accIds ++ accBy h.B bytes := hX
              rcases List.mem_append.mp hX' with hX' | hX'
              · exact hgF X hX' r hon hlo'
              · -- the frame accepted by this step
                obtain ⟨d, hdm, p, hp, hpd⟩ := new_frame_ref hnw h.B bytes hmem X hX' r hon
                obtain ⟨i, hnet, hfri, hg0⟩ := b8 d hdm
                -- `i = r.1`: same packet id, both within `2^20` of each other
                obtain ⟨p0, hp0, f0, hf0, hd0⟩ := hi.snd.net i d hnet
                have hseq : ∀ j q f, s.pend[j]? = some q → q.datagram f = .ok d → d.sequenceId = pidAdd b j := by
                  intro j q f hq hqd
                  obtain ⟨_, e, he, -, -, hse, -⟩ := hi.snd.plink j q hq
                  rw [datagram_seq q f d hqd, ← hse]
                  exact (hi.snd.hinv.ids j e he).2.1
                have s1 := hseq i p0 f0 hp0 hd0
                have s2 := hseq r.1 p r.2 (by rw [hF.rel.pend]; exact hp) hpd
                rw [s1] at s2
                have hilt : i < s.pend.length := (List.getElem?_eq_some_iff.mp hp0).1
                have hrlt : r.1 < h.pend.length := (List.getElem?_eq_some_iff.mp hp).1
                have hnu : h.A.ps.nextUid = h.pend.length := hF.pi.a.nuid
                have hwl : s.snd.win.length = h.A.ps.win.length := by rw [hF.rel.snd]; simp [erase]
                obtain ⟨old, wl, hwi⟩ := hi.snd.hinv.win
                have hwle : h.A.ps.win.length ≤ w := by rw [← hwl, ← hwi.wlen]; exact hwi.wle
                have hlo2 := hi.lo
                have hlo3 : h.A.ps.nextUid - h.A.ps.win.length ≤ r.1 := hlo'
                have hpl : s.pend.length = h.pend.length := by rw [hF.rel.pend]
                have hel := hF.rel.elen
                have hw16 := H.hw
                have hwk := H.hwk
                have hb0 := hi.rcv.inv.blt
                have hii : i = r.1 := by
                  simp only [pidAdd, PACKET_ID_SPAN] at s2
                  omega
                intro x hx hrelb
                rw [b3] at hx
                have := hg0 x (by rw [hii]; exact hx) hrelb
                rw [hii, datagram_fid p r.2 d hpd] at this
                exact this
    · have hk1 : ∀ kk, op ≠ .deliverAB kk := fun kk hc => hdl ⟨kk, hc⟩
      obtain ⟨e1, e2, e3, e4, e5, e6, e7⟩ := stepP_keep ops op hs hk1 hfl
      obtain ⟨sops, s', hrun, hrel'⟩ := sim_step ops hF.pi hF.rel _ hok hs
      have hem5 : ∃ l, h'.em = h.em ++ l := ⟨[], by rw [e5, List.append_nil]⟩
      have hgF := gotF_mono H hF hrel' sops hrun hem5 ⟨[], by rw [e4, List.append_nil]⟩
        ⟨[], by rw [e2, List.append_nil]⟩ ⟨[], by rw [e6, List.append_nil]⟩ hlo hn
      have hgA := gotA_mono H hF hrel' sops hrun hem5
      have hreach' := reach_append hF.reach sops hrun
      refine ⟨sops, s', hrun, ⟨pi', fi', cv', wu', hrel', hreach', ?_, ?_, ?_⟩⟩
      · rw [e7]; exact hgF
      · -- only `deliverBA` of an ack frame sets fragment flags
        by_cases hba : ∃ kk, op = .deliverBA kk
        · obtain ⟨kk, rfl⟩ := hba
          simp only [stepP] at hs
          cases hk : h.wireBA[kk]? with
          | none => rw [hk] at hs; cases hs; exact hgA
          | some bytes =>
            rw [hk] at hs
            simp only [] at hs
            have hmem : bytes ∈ h.wireBA := List.mem_of_getElem? hk
            rw [List.take_of_length_le (hF.pi.lba bytes hmem)] at hs
            cases hd : dispatch h.A bytes with
            | error t => rw [hd] at hs; cases hs
            | ok a' =>
              rw [hd, bindR_ok] at hs
              cases hs
              show AckedQ (QS k b s') a'.ps
              -- first at the `Sys` state before the step
              have hq0 : AckedQ (QS k b s) a'.ps := by
                have hsame : a'.ps = h.A.ps → AckedQ (QS k b s) a'.ps := by
                  intro e; rw [e]; exact hF.gotA
                unfold dispatch at hd
                cases hdec : decode bytes with
                | none => rw [hdec] at hd; cases hd; exact hF.gotA
                | some fr =>
                  rw [hdec] at hd
                  cases fr with
                  | data id nonce dgs =>
                    simp only at hd
                    exact hsame (HcFrame.handleDataFrame_frame h.A a' id nonce dgs hd).2
                  | sync nf np =>
                    simp only at hd
                    exact hsame (HcFrame.handleSyncFrame_frame h.A a' nf np hd).2
                  | ack fb pb acks =>
                    simp only at hd
                    refine (handleAckFrame_frmQ (· ∈ h.accIds) (fun u => winLo h ≤ u) (QS k b s)
                      h.A a' fb pb acks (fun X r hon hacc hwin => hF.gotF X hacc r hon hwin)
                      (fun g hg => (hF.fi.wba bytes hmem fb pb acks hdec g hg).mono (fun _ hx => hx.2))
                      ⟨hF.fi.snd.fq, ?_, hF.gotA⟩ hd).acked
                    intro we hwe
                    have hr := hF.wu.2
                    have : we.packet.uid ∈ h.A.ps.win.map (·.packet.uid) := List.mem_map.mpr ⟨we, hwe, rfl⟩
                    rw [hr, List.mem_range'_1] at this
                    exact this.1
                  | syn v n r p a => simp only [Except.ok.injEq] at hd; rw [← hd]; exact hF.gotA
                  | synAck na n r p a => simp only [Except.ok.injEq] at hd; rw [← hd]; exact hF.gotA
                  | hsAck na => simp only [Except.ok.injEq] at hd; rw [← hd]; exact hF.gotA
                  | hsError na e => simp only [Except.ok.injEq] at hd; rw [← hd]; exact hF.gotA
                  | disconnect => simp only [Except.ok.injEq] at hd; rw [← hd]; exact hF.gotA
                  | disconnectAck => simp only [Except.ok.injEq] at hd; rw [← hd]; exact hF.gotA
              exact hq0.mono (fun we hwe fid hq => qs_mono H hF.reach hF.rel hrel' sops hrun hem5 _
                (List.getElem?_eq_some_iff.mp (pi'.a.win we hwe)).1 hq)
        · -- the packet sender's window keeps its fragment flags
          have hps : ∀ we ∈ h'.A.ps.win, we ∈ h.A.ps.win := by
            cases op with
            | deliverAB kk => exact absurd rfl (hk1 kk)
            | flushA => exact absurd rfl hfl
            | deliverBA kk => exact absurd ⟨kk, rfl⟩ hba
            | sendA d c m' =>
              simp only [stepP] at hs
              split at hs <;> (cases hs; exact fun _ hw => hw)
            | stepA now =>
              simp only [stepP] at hs
              cases hst : step ops h.A now with
              | error t => rw [hst] at hs; cases hs
              | ok a' =>
                rw [hst, bindR_ok] at hs
                cases hs
                show ∀ we ∈ a'.ps.win, we ∈ h.A.ps.win
                rw [(step_spec ops h.A a' now hst).1]; exact fun _ hw => hw
            | stepB now =>
              simp only [stepP] at hs
              cases hst : step ops h.B now with
              | error t => rw [hst] at hs; cases hs
              | ok r => rw [hst, bindR_ok] at hs; cases hs; exact fun _ hw => hw
            | flushB =>
              simp only [stepP] at hs
              cases hst : flush h.B with
              | error t => rw [hst] at hs; cases hs
              | ok r => rw [hst, bindR_ok] at hs; cases hs; exact fun _ hw => hw
            | recvB =>
              simp only [stepP] at hs
              cases hst : receive h.B with
              | error t => rw [hst] at hs; cases hs
              | ok r => rw [hst, bindR_ok] at hs; cases hs; exact fun _ hw => hw
          exact hgA.of_sub (fun we hwe => Or.inl (hps we hwe))
      · rw [e2, e3]; exact hF.sy

/-! ### runs -/

theorem full_init (ops : FloatOps F) (cA cB : Config) (nowA nowB : Nat) (rngA rngB : Rng) (k : Nat)
    (hbA : cA.txPacketBaseId < 2^20) (hbB : cB.txPacketBaseId < 2^20) (hrB : cB.rxPacketBaseId < 2^20)
    (hb : cA.txPacketBaseId = cB.rxPacketBaseId) (hW : cB.rxPacketWindowSize = 2^k) (hfc : FrmCfg cA) :
    Full cA.txPacketWindowSize k cA.txPacketBaseId cA.txAllocLimit cB.rxAllocLimit
      (initP ops cA cB nowA nowB rngA rngB)
      (initS cA.txPacketWindowSize (2^k) cA.txPacketBaseId cA.txAllocLimit cB.rxAllocLimit) where
  pi := pairInv_init ops cA cB nowA nowB rngA rngB hbA hbB hrB (by rw [hW]; exact Nat.two_pow_pos k)
  fi := frmInv_init ops cA cB nowA nowB rngA rngB hfc hbA
  cv := cv_init ops cA nowA rngA
  wu := winUids_init _ _ _
  rel := by
    have := rel_init ops cA cB nowA nowB rngA rngB hb
    rw [hW] at this
    exact this
  reach := ⟨[], rfl⟩
  gotF := by intro X hX; cases hX
  gotA := by intro w hw; simp [initP, HalfConn.init, PSend.init] at hw
  sy := by intro b hb; cases hb

/-- **`Full` along a `Guarded` run.** -/
theorem full_run {w k b a m : Nat} (ops : FloatOps F) (H : SHyp w k b) (sched : List POp) {h h' : HcPair F}
    {s : Sys} (hF : Full w k b a m h s) (hg : Guarded ops h sched) (hrun : runP ops h sched = .ok h')
    (hn : IdsNodup h'.wireAB) :
    ∃ sops s', runS s sops = .ok s' ∧ Full w k b a m h' s' := by
  induction sched generalizing h s with
  | nil => cases hrun; exact ⟨[], s, rfl, hF⟩
  | cons op rest ih =>
    rw [runP] at hrun
    cases hs : stepP ops h op with
    | error t => rw [hs] at hrun; cases hrun
    | ok h1 =>
      rw [hs, bindR_ok] at hrun
      obtain ⟨hok, hrest⟩ := hg
      obtain ⟨w2, e2⟩ := runP_wire_prefix ops rest h1 h' hrun
      have hn1 : IdsNodup h1.wireAB := by rw [e2] at hn; exact hn.of_prefix
      obtain ⟨sops1, s1, r1, hF1⟩ := full_step ops H hF op hok hs hn1
      obtain ⟨sops2, s2, r2, hF2⟩ := ih hF1 (hrest h1 hs) hrun
      exact ⟨sops1 ++ sops2, s2, by rw [runS_append, r1, bindR_ok]; exact r2, hF2⟩

/-- **With fewer than `2^19` emitted packets every schedule is `Guarded`** (no hypothesis on sync
frames: every sync frame with a packet id is recorded, `Full.sy`), and `Full` holds at the end. -/
theorem full_run_few {w k b a m : Nat} (ops : FloatOps F) (H : SHyp w k b) (sched : List POp)
    {h h' : HcPair F} {s : Sys} (hF : Full w k b a m h s) (hrun : runP ops h sched = .ok h')
    (hn : IdsNodup h'.wireAB) (hfew : h'.pend.length < 2^19) :
    Guarded ops h sched ∧ ∃ sops s', runS s sops = .ok s' ∧ Full w k b a m h' s' := by
  induction sched generalizing h s with
  | nil => cases hrun; exact ⟨trivial, [], s, rfl, hF⟩
  | cons op rest ih =>
    rw [runP] at hrun
    cases hs : stepP ops h op with
    | error t => rw [hs] at hrun; cases hrun
    | ok h1 =>
      rw [hs, bindR_ok] at hrun
      obtain ⟨w2, e2⟩ := runP_wire_prefix ops rest h1 h' hrun
      have hn1 : IdsNodup h1.wireAB := by rw [e2] at hn; exact hn.of_prefix
      have hm1 := runP_pend_mono ops rest h1 h' hrun
      have hm0 := stepP_pend_mono ops h h1 op hs
      have hor : OpOkR h op := by
        cases op with
        | deliverAB kk =>
          intro bytes hk nf id hd
          exact Or.inr (hF.sy bytes (List.mem_of_getElem? hk) nf id hd)
        | deliverBA kk => trivial
        | sendA d c m' => trivial
        | flushA => trivial
        | stepA now => trivial
        | recvB => trivial
        | flushB => trivial
        | stepB now => trivial
      obtain ⟨sops0, hr0⟩ := hF.reach
      have hok : OpOk h op := opOk_of_few w k b a m (by have := H.hw; omega) H.hk H.hb sops0 hr0 hF.pi hF.rel
        op hor (by omega)
      obtain ⟨sops1, s1, r1, hF1⟩ := full_step ops H hF op hok hs hn1
      obtain ⟨g2, sops2, s2, r2, hF2⟩ := ih hF1 hrun
      refine ⟨⟨hok, ?_⟩, sops1 ++ sops2, s2, by rw [runS_append, r1, bindR_ok]; exact r2, hF2⟩
      intro h1' hs'
      rw [hs] at hs'
      cases hs'
      exact g2

end Uflow.HcSys
