import Uflow.Lemmas.PRecvSlots

/-!
Helper lemmas for C06 / C03 (receiver), part 2: the receiver invariant `Inv` and its
preservation by the slot-level primitives, `tryAdd` and `handleDatagram`.
-/

namespace Uflow.PRecv

open Uflow Uflow.Gen Uflow.Codec

/-! ### per-slot quantities -/

/-- Bytes charged to `alloc` for one assembly-window entry. -/
def aAlloc : Asm → Nat
  | .opened => 0
  | .closed a => a
  | .active a _ _ _ _ _ => a

def fAlloc (sl : Slot) : Nat := aAlloc sl.asm

/-- 1 if the slot holds an undelivered packet of channel `c`. -/
def fCnt (c : Nat) (sl : Slot) : Nat := if sl.dataFlag = true ∧ sl.chan = c then 1 else 0

/-- The summand of `PRecv.held`. -/
def fHeld (sl : Slot) : Nat :=
  (match sl.data with | some d => d.length | none => 0) +
  (match sl.asm with | .active _ _ _ _ last _ => (last + 1) * MAX_FRAGMENT_SIZE | _ => 0)

theorem fAlloc_default : fAlloc {} = 0 := rfl
theorem fCnt_default (c : Nat) : fCnt c {} = 0 := rfl
theorem fHeld_default : fHeld {} = 0 := rfl

theorem held_eq (s : State) : held s = lsum fHeld s.slots := rfl

/-! ### the invariant -/

def AsmOk : Asm → Prop
  | .active a _ _ _ last buf =>
      a = (last + 1) * MAX_FRAGMENT_SIZE ∧ buf.numFragments = last + 1 ∧ 0 < buf.remaining ∧
      buf.totalSize + buf.remaining * MAX_FRAGMENT_SIZE ≤ (last + 1) * MAX_FRAGMENT_SIZE
  | _ => True

structure SlotOk (sl : Slot) : Prop where
  nodata : sl.dataFlag = false → sl.data = none
  flagged : sl.dataFlag = true →
    sl.chan < CHANNEL_COUNT ∧ ∃ a, sl.asm = .closed a ∧ ∀ d, sl.data = some d → d.length ≤ a
  marker : ∀ c, sl.marker = some c → c < CHANNEL_COUNT
  asm : AsmOk sl.asm

theorem slotOk_default : SlotOk {} :=
  ⟨fun _ => rfl, fun h => Bool.noConfusion h, fun _ h => (by cases h), trivial⟩

/-- The receiver invariant (window size `W`, allocation ceiling `M`). -/
structure Inv (W M : Nat) (s : State) : Prop where
  wpos : 0 < W
  wsz : s.windowSize = W
  mal : s.maxAlloc = M
  nodup : (keys s.slots).Nodup
  klt : ∀ k ∈ keys s.slots, k < W
  sok : ∀ i, SlotOk (lget s.slots i)
  clen : s.chans.length = CHANNEL_COUNT
  rlen : s.readyFlags.length = CHANNEL_COUNT
  aeq : s.alloc = lsum fAlloc s.slots
  ale : s.alloc ≤ M
  ceq : ∀ c ch, s.chans[c]? = some ch → ch.count = lsum (fCnt c) s.slots
  blt : s.baseId < 2^20
  elt : s.endId < 2^20

theorem inv_init (W b m : Nat) (hW : 0 < W) (hb : b < 2^20) : Inv W (allocCeil m) (init W b m) where
  wpos := hW
  wsz := rfl
  mal := rfl
  nodup := List.nodup_nil
  klt := fun _ h => by cases h
  sok := fun _ => slotOk_default
  clen := by simp [init]
  rlen := by simp [init]
  aeq := rfl
  ale := Nat.zero_le _
  ceq := by
    intro c ch h
    simp only [init, List.getElem?_replicate] at h
    split at h
    · cases h; rfl
    · cases h
  blt := hb
  elt := hb

/-- Window index used with a fixed window size. -/
def wi (W seq : Nat) : Nat := seq % 2^32 % W

theorem widx_eq {W M : Nat} {s : State} (h : Inv W M s) (seq : Nat) : widx s seq = wi W seq := by
  simp only [widx, wi, h.wsz]

theorem wi_lt {W : Nat} (hW : 0 < W) (seq : Nat) : wi W seq < W := Nat.mod_lt _ hW

/-- Replacing slot `i`, with the matching change of `alloc` and of the channel counters. -/
theorem Inv.update {W M : Nat} {s : State} (h : Inv W M s) (i : Nat) (hi : i < W) (x : Slot)
    (hx : SlotOk x) (s' : State)
    (hslots : s'.slots = lset s.slots i x)
    (hW : s'.windowSize = W) (hM : s'.maxAlloc = M)
    (halloc : s'.alloc + fAlloc (lget s.slots i) = s.alloc + fAlloc x)
    (hle : s'.alloc ≤ M)
    (hclen : s'.chans.length = CHANNEL_COUNT) (hrlen : s'.readyFlags.length = CHANNEL_COUNT)
    (hcnt : ∀ (c : Nat) (ch' : Chan), s'.chans[c]? = some ch' →
      ∃ ch : Chan, s.chans[c]? = some ch ∧ ch'.count + fCnt c (lget s.slots i) = ch.count + fCnt c x)
    (hb : s'.baseId < 2^20) (he : s'.endId < 2^20) : Inv W M s' where
  wpos := h.wpos
  wsz := hW
  mal := hM
  nodup := by rw [hslots]; exact nodup_keys_lset _ _ _ h.nodup
  klt := by
    intro k hk
    rw [hslots] at hk
    rcases mem_keys_lset _ _ _ _ hk with hk | hk
    · omega
    · exact h.klt k hk
  sok := by
    intro j
    rw [hslots, lget_lset]
    split
    · exact hx
    · exact h.sok j
  clen := hclen
  rlen := hrlen
  aeq := by
    have := lsum_lset fAlloc fAlloc_default s.slots i x h.nodup
    have := h.aeq
    rw [hslots]
    omega
  ale := hle
  ceq := by
    intro c ch' hc
    obtain ⟨ch, hch, he⟩ := hcnt c ch' hc
    have := lsum_lset (fCnt c) (fCnt_default c) s.slots i x h.nodup
    have := h.ceq c ch hch
    rw [hslots]
    omega
  blt := hb
  elt := he

/-- Changes that leave the slots, `alloc` and the channel counters alone. -/
theorem Inv.frame {W M : Nat} {s : State} (h : Inv W M s) (s' : State)
    (hslots : s'.slots = s.slots) (hW : s'.windowSize = W) (hM : s'.maxAlloc = M)
    (halloc : s'.alloc = s.alloc)
    (hclen : s'.chans.length = CHANNEL_COUNT) (hrlen : s'.readyFlags.length = CHANNEL_COUNT)
    (hcnt : ∀ (c : Nat) (ch' : Chan), s'.chans[c]? = some ch' →
      ∃ ch : Chan, s.chans[c]? = some ch ∧ ch'.count = ch.count)
    (hb : s'.baseId < 2^20) (he : s'.endId < 2^20) : Inv W M s' where
  wpos := h.wpos
  wsz := hW
  mal := hM
  nodup := by rw [hslots]; exact h.nodup
  klt := by rw [hslots]; exact h.klt
  sok := by rw [hslots]; exact h.sok
  clen := hclen
  rlen := hrlen
  aeq := by rw [hslots, halloc]; exact h.aeq
  ale := by rw [halloc]; exact h.ale
  ceq := by
    intro c ch' hc
    obtain ⟨ch, hch, he⟩ := hcnt c ch' hc
    rw [hslots, he]
    exact h.ceq c ch hch
  blt := hb
  elt := he

theorem Inv.setReady {W M : Nat} {s : State} (h : Inv W M s) (r : List Bool)
    (hr : r.length = CHANNEL_COUNT) : Inv W M { s with readyFlags := r } :=
  h.frame _ rfl h.wsz h.mal rfl h.clen hr (fun _ ch' hc => ⟨ch', hc, rfl⟩) h.blt h.elt

theorem Inv.setWindowReady {W M : Nat} {s : State} (h : Inv W M s) (b : Bool) :
    Inv W M { s with windowReady := b } :=
  h.frame _ rfl h.wsz h.mal rfl h.clen h.rlen (fun _ ch' hc => ⟨ch', hc, rfl⟩) h.blt h.elt

theorem Inv.setEnd {W M : Nat} {s : State} (h : Inv W M s) (e : Nat) (he : e < 2^20) :
    Inv W M { s with endId := e } :=
  h.frame _ rfl h.wsz h.mal rfl h.clen h.rlen (fun _ ch' hc => ⟨ch', hc, rfl⟩) h.blt he

theorem Inv.setBase {W M : Nat} {s : State} (h : Inv W M s) (b : Nat) (hb : b < 2^20) :
    Inv W M { s with baseId := b } :=
  h.frame _ rfl h.wsz h.mal rfl h.clen h.rlen (fun _ ch' hc => ⟨ch', hc, rfl⟩) hb h.elt

/-- Changing only the `base` field of one channel. -/
theorem Inv.setChanBase {W M : Nat} {s : State} (h : Inv W M s) (c : Nat) (ch : Chan)
    (hc : s.chans[c]? = some ch) (b : Option Nat) :
    Inv W M { s with chans := s.chans.set c { ch with base := b } } := by
  refine h.frame _ rfl h.wsz h.mal rfl (by simp [h.clen]) h.rlen ?_ h.blt h.elt
  intro c' ch' hc'
  simp only [List.getElem?_set] at hc'
  split at hc'
  · rename_i heq
    subst heq
    split at hc'
    · cases hc'; exact ⟨ch, hc, rfl⟩
    · cases hc'
  · exact ⟨ch', hc', rfl⟩

/-- Changing only the `marker` field of one slot. -/
theorem Inv.setMarker {W M : Nat} {s : State} (h : Inv W M s) (i : Nat) (hi : i < W)
    (m : Option Nat) (hm : ∀ c, m = some c → c < CHANNEL_COUNT) :
    Inv W M (setSlot s i { getSlot s i with marker := m }) := by
  have hs := h.sok i
  have hx : SlotOk { getSlot s i with marker := m } := ⟨hs.nodata, hs.flagged, hm, hs.asm⟩
  refine h.update i hi _ hx _ rfl h.wsz h.mal rfl h.ale h.clen h.rlen
    (fun _ ch' hc => ⟨ch', hc, rfl⟩) h.blt h.elt

theorem Inv.chan_get {W M : Nat} {s : State} (h : Inv W M s) (c : Nat) (hc : c < CHANNEL_COUNT) :
    ∃ ch, s.chans[c]? = some ch := by
  have : c < s.chans.length := by rw [h.clen]; exact hc
  exact ⟨s.chans[c], List.getElem?_eq_getElem this⟩

theorem Inv.ready_get {W M : Nat} {s : State} (h : Inv W M s) (c : Nat) (hc : c < CHANNEL_COUNT) :
    ∃ b, s.readyFlags[c]? = some b := by
  have : c < s.readyFlags.length := by rw [h.rlen]; exact hc
  exact ⟨s.readyFlags[c], List.getElem?_eq_getElem this⟩

/-- A flagged slot keeps its channel's counter positive. -/
theorem Inv.count_pos {W M : Nat} {s : State} (h : Inv W M s) (i : Nat) (ch : Chan)
    (hf : (lget s.slots i).dataFlag = true) (hc : s.chans[(lget s.slots i).chan]? = some ch) :
    0 < ch.count := by
  have h1 := h.ceq _ ch hc
  have h2 := lsum_ge (fCnt (lget s.slots i).chan) (fCnt_default _) s.slots i h.nodup
  have h3 : fCnt (lget s.slots i).chan (lget s.slots i) = 1 := by simp [fCnt, hf]
  omega

/-! ### `FragBuf.write` on a validated datagram -/

theorem write_ok (b : FragBuf) (last i : Nat) (data : List Nat)
    (hn : b.numFragments = last + 1) (hi : i ≤ last) (hd : data.length ≤ MAX_FRAGMENT_SIZE)
    (hr : 0 < b.remaining)
    (ht : b.totalSize + b.remaining * MAX_FRAGMENT_SIZE ≤ (last + 1) * MAX_FRAGMENT_SIZE) :
    ∃ b', b.write i data = .ok b' ∧ b'.numFragments = last + 1 ∧
      b'.totalSize + b'.remaining * MAX_FRAGMENT_SIZE ≤ (last + 1) * MAX_FRAGMENT_SIZE ∧
      (b' = b ∨ b'.remaining + 1 = b.remaining) := by
  simp only [MAX_FRAGMENT_SIZE] at hd ht ⊢
  unfold FragBuf.write
  rw [if_neg (by rw [hn]; omega)]
  split
  · exact ⟨b, rfl, hn, ht, Or.inl rfl⟩
  · simp only [MAX_FRAGMENT_SIZE]
    rw [if_neg (by rw [hn]; omega), if_neg (by omega)]
    refine ⟨_, rfl, hn, ?_, Or.inr ?_⟩
    · show b.totalSize + data.length + (b.remaining - 1) * 1448 ≤ (last + 1) * 1448
      omega
    · show b.remaining - 1 + 1 = b.remaining
      omega

theorem finalize_length_le (b : FragBuf) : b.finalize.length ≤ b.totalSize := by
  simp only [FragBuf.finalize, List.length_take]
  exact Nat.min_le_left _ _

/-! ### validity of a datagram -/

theorem valid_facts (d : Datagram) (h : datagramIsValid d = true) :
    d.channelId < CHANNEL_COUNT ∧ d.fragmentId ≤ d.fragmentIdLast ∧ d.data.length ≤ MAX_FRAGMENT_SIZE := by
  unfold datagramIsValid at h
  split at h
  · cases h
  · split at h
    · cases h
    · split at h
      · cases h
      · split at h
        · cases h
        · split at h
          · cases h
          · omega

end Uflow.PRecv
