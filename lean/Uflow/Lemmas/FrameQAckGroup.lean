import Uflow.Lemmas.FrameQAck

/-!
`acknowledgeGroup`-level lemmas for property C15 (built on `Uflow/Lemmas/FrameQAck.lean`).
-/

namespace Uflow.FrameQ

open Uflow Uflow.Codec

instance instDecidableEqExcept {ε α : Type} [DecidableEq ε] [DecidableEq α] :
    DecidableEq (Except ε α)
  | .ok a, .ok b =>
    if h : a = b then isTrue (by rw [h]) else isFalse (by intro h'; cases h'; exact h rfl)
  | .error a, .error b =>
    if h : a = b then isTrue (by rw [h]) else isFalse (by intro h'; cases h'; exact h rfl)
  | .ok _, .error _ => isFalse (by intro h; cases h)
  | .error _, .ok _ => isFalse (by intro h; cases h)

/-! ### `ackFinish` -/

theorem ackFinish_snd (s : State) (lst tot : Nat) (rl : Bool) (fr : List (Nat × Nat)) :
    (ackFinish s lst tot rl fr).2 = fr := by
  unfold ackFinish; split <;> rfl

theorem ackFinish_zero (s : State) (lst : Nat) (rl : Bool) (fr : List (Nat × Nat)) :
    ackFinish s lst 0 rl fr = (s, fr) := by
  unfold ackFinish; rw [if_pos rfl]

theorem ackFinish_fst (s : State) (lst tot : Nat) (rl : Bool) (fr : List (Nat × Nat)) :
    ∃ ad, (ackFinish s lst tot rl fr).1 = { s with ackData := ad } := by
  unfold ackFinish; split
  · exact ⟨s.ackData, rfl⟩
  · exact ⟨_, rfl⟩

/-! ### the three early exits and the accepted case -/

theorem acknowledgeGroup_unknown (s : State) (ack : AckGroup) (rtt : Option Nat) (i : Nat)
    (hi : i < bitfieldSize ack.bitfield) (h : getFrame s (wadd32 ack.baseId i) = none) :
    acknowledgeGroup s ack rtt = .ok (s, []) := by
  rw [acknowledgeGroup_eq]
  split
  · rfl
  · rw [foldl_nonceStep_missing s ack _ _ i (List.mem_range.mpr hi) h]

theorem foldl_nonceStep_range (s : State) (ack : AckGroup)
    (hall : ∀ i, i < bitfieldSize ack.bitfield → getFrame s (wadd32 ack.baseId i) ≠ none) :
    (List.range (bitfieldSize ack.bitfield)).foldl (nonceStep s ack) (some false) =
      some (claimedNonce s ack) := by
  rw [foldl_nonceStep_some s ack _ _ (fun i hi => hall i (List.mem_range.mp hi))]
  rfl

theorem acknowledgeGroup_bad_nonce (s : State) (ack : AckGroup) (rtt : Option Nat)
    (hall : ∀ i, i < bitfieldSize ack.bitfield → getFrame s (wadd32 ack.baseId i) ≠ none)
    (hn : ack.nonce ≠ claimedNonce s ack) :
    acknowledgeGroup s ack rtt = .ok (s, []) := by
  rw [acknowledgeGroup_eq]
  split
  · rfl
  · rw [foldl_nonceStep_range s ack hall]
    simp only []
    rw [if_pos hn]

/-- Accepted case: all covered frames logged and the nonce matches. -/
theorem acknowledgeGroup_accept (s : State) (ack : AckGroup) (rtt : Option Nat)
    (hall : ∀ i, i < bitfieldSize ack.bitfield → getFrame s (wadd32 ack.baseId i) ≠ none)
    (hn : ack.nonce = claimedNonce s ack) :
    acknowledgeGroup s ack rtt =
      ackAfterLoop (ackLoop ack rtt (List.range (bitfieldSize ack.bitfield)) s 0 0 false []) := by
  rw [acknowledgeGroup_eq]
  split
  · rename_i h0
    rw [h0, List.range_zero, ackLoop_nil, ackAfterLoop_ok, ackFinish_zero]
  · rw [foldl_nonceStep_range s ack hall]
    simp only []
    rw [if_neg (by intro h; exact h hn)]

/-- Inversion of a non-trapping `acknowledgeGroup`. -/
theorem acknowledgeGroup_inv {s : State} {ack : AckGroup} {rtt : Option Nat} {s1 : State}
    {f1 : List (Nat × Nat)} (h : acknowledgeGroup s ack rtt = .ok (s1, f1)) :
    (s1 = s ∧ f1 = []) ∨
    ((∀ i, i < bitfieldSize ack.bitfield → getFrame s (wadd32 ack.baseId i) ≠ none) ∧
      ack.nonce = claimedNonce s ack ∧
      ∃ s' lst tot rl, ackLoop ack rtt (List.range (bitfieldSize ack.bitfield)) s 0 0 false [] =
          .ok (s', lst, tot, rl, f1) ∧ s1 = (ackFinish s' lst tot rl f1).1) := by
  by_cases hall : ∀ i, i < bitfieldSize ack.bitfield → getFrame s (wadd32 ack.baseId i) ≠ none
  · by_cases hn : ack.nonce = claimedNonce s ack
    · right
      refine ⟨hall, hn, ?_⟩
      rw [acknowledgeGroup_accept s ack rtt hall hn] at h
      cases hl : ackLoop ack rtt (List.range (bitfieldSize ack.bitfield)) s 0 0 false [] with
      | error t => rw [hl, ackAfterLoop_error] at h; cases h
      | ok v =>
        obtain ⟨s', lst, tot, rl, fr⟩ := v
        rw [hl, ackAfterLoop_ok] at h
        have h2 : ackFinish s' lst tot rl fr = (s1, f1) := by injection h
        have h3 : fr = f1 := by
          have := ackFinish_snd s' lst tot rl fr
          rw [h2] at this; exact this.symm
        subst h3
        exact ⟨s', lst, tot, rl, rfl, by rw [h2]⟩
    · left
      rw [acknowledgeGroup_bad_nonce s ack rtt hall hn] at h
      injection h with h
      injection h with h1 h2
      exact ⟨h1.symm, h2.symm⟩
  · left
    have : ∃ i, i < bitfieldSize ack.bitfield ∧ getFrame s (wadd32 ack.baseId i) = none := by
      apply Classical.byContradiction
      intro hne
      apply hall
      intro i hi hnone
      exact hne ⟨i, hi, hnone⟩
    obtain ⟨i, hi, hnone⟩ := this
    rw [acknowledgeGroup_unknown s ack rtt i hi hnone] at h
    injection h with h
    injection h with h1 h2
    exact ⟨h1.symm, h2.symm⟩

/-- Replay: every claimed logged frame already acked ⇒ no effect at all. -/
theorem acknowledgeGroup_replay (s : State) (ack : AckGroup) (rtt : Option Nat)
    (hacked : ∀ i, i < bitfieldSize ack.bitfield → ack.bitfield / 2^i % 2 = 1 →
      ∀ e, getFrame s (wadd32 ack.baseId i) = some e → e.acked = true) :
    acknowledgeGroup s ack rtt = .ok (s, []) := by
  by_cases hall : ∀ i, i < bitfieldSize ack.bitfield → getFrame s (wadd32 ack.baseId i) ≠ none
  · by_cases hn : ack.nonce = claimedNonce s ack
    · rw [acknowledgeGroup_accept s ack rtt hall hn]
      have hl := ackLoop_noop ack rtt (List.range (bitfieldSize ack.bitfield)) s 0 0 false []
        (fun i hi => by
          have hi' := List.mem_range.mp hi
          cases hf : getFrame s (wadd32 ack.baseId i) with
          | none => exact absurd hf (hall i hi')
          | some e => exact ⟨e, rfl, fun hb => hacked i hi' hb e hf⟩)
      obtain ⟨rl', hl⟩ := hl
      rw [hl, ackAfterLoop_ok, ackFinish_zero]
    · exact acknowledgeGroup_bad_nonce s ack rtt hall hn
  · have : ∃ i, i < bitfieldSize ack.bitfield ∧ getFrame s (wadd32 ack.baseId i) = none := by
      apply Classical.byContradiction
      intro hne
      apply hall
      intro i hi hnone
      exact hne ⟨i, hi, hnone⟩
    obtain ⟨i, hi, hnone⟩ := this
    exact acknowledgeGroup_unknown s ack rtt i hi hnone

/-- What a non-trapping `acknowledgeGroup` may change: `ackData`, `reorder`, `intervals` and the
`acked`/`refs` fields of log entries (`AckRel` up to `ackData`). -/
theorem acknowledgeGroup_rel {s : State} {ack : AckGroup} {rtt : Option Nat} {s1 : State}
    {f1 : List (Nat × Nat)} (h : acknowledgeGroup s ack rtt = .ok (s1, f1)) :
    AckRel s { s1 with ackData := s.ackData } := by
  rcases acknowledgeGroup_inv h with ⟨rfl, _⟩ | ⟨_, _, s', lst, tot, rl, hl, rfl⟩
  · exact AckRel.refl _
  · obtain ⟨hrel, _, _⟩ := ackLoop_spec ack rtt _ _ _ _ _ _ _ _ _ _ _ hl
    obtain ⟨ad, had⟩ := ackFinish_fst s' lst tot rl f1
    rw [had]
    exact ⟨hrel.logNext, hrel.logBase, hrel.lastFeedback, rfl, hrel.winBase, hrel.winSize,
      hrel.tailSize, hrel.rateLimited, hrel.len, hrel.frames⟩

/-- After an accepted group all claimed frames are marked acked. -/
theorem acknowledgeGroup_marks {s : State} {ack : AckGroup} {rtt : Option Nat} {s1 : State}
    {f1 : List (Nat × Nat)} (h : acknowledgeGroup s ack rtt = .ok (s1, f1))
    (hall : ∀ i, i < bitfieldSize ack.bitfield → getFrame s (wadd32 ack.baseId i) ≠ none)
    (hn : ack.nonce = claimedNonce s ack) :
    ∀ i, i < bitfieldSize ack.bitfield → ack.bitfield / 2^i % 2 = 1 →
      ∃ e, getFrame s1 (wadd32 ack.baseId i) = some e ∧ e.acked = true := by
  rw [acknowledgeGroup_accept s ack rtt hall hn] at h
  cases hl : ackLoop ack rtt (List.range (bitfieldSize ack.bitfield)) s 0 0 false [] with
  | error t => rw [hl, ackAfterLoop_error] at h; cases h
  | ok v =>
    obtain ⟨s', lst, tot, rl, fr⟩ := v
    rw [hl, ackAfterLoop_ok] at h
    have h2 : ackFinish s' lst tot rl fr = (s1, f1) := by injection h
    obtain ⟨hrel, hack, _⟩ := ackLoop_spec ack rtt _ _ _ _ _ _ _ _ _ _ _ hl
    obtain ⟨ad, had⟩ := ackFinish_fst s' lst tot rl fr
    rw [h2] at had
    simp only [] at had
    intro i hi hb
    obtain ⟨e, he, ha⟩ := hack i (List.mem_range.mpr hi) hb
    refine ⟨e, ?_, ha⟩
    unfold getFrame
    rw [had]
    simp only []
    rw [hrel.logBase]
    exact he

end Uflow.FrameQ
